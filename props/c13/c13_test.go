//go:build verifc13

// C13 — an environment is safe to share between goroutines.
//
// (a) "atomicity": package env is built with its mutex type swapped for a
// scheduler-aware wrapper (internal/c13ov, applied through go build -overlay);
// a cooperative scheduler runs 2–3 threads of environment operations one lock
// operation at a time under a generated schedule, and the recorded results plus
// the final contents must be explained by some sequential order of the operations
// on a small reference model (exhaustive search). Deadlock and panics are violations.
// "lockorder" (lockorder_test.go): the same scheduler and oracle over programs on the chain
// parent - shared scope - module, with String of scopes that bind a module against
// operations that walk up through the module (the deadlock clause over several scopes).
// (b) "race": the same programs under real goroutines and real locks in a child
// process of this -race binary; oracle = race detector (plus the same
// sequential-consistency search on the schedules the runtime happens to produce).
package c13

import (
	"fmt"
	"strings"
	"testing"

	"github.com/mattn/anko/env"
	"pgregory.net/rapid"

	"verif/internal/h"
)

type SchedCase struct {
	Prog     Prog  `json:"prog"`
	Schedule []int `json:"schedule"`
}

type RaceCase struct {
	Prog Prog `json:"prog"`
	Reps int  `json:"reps"`
}

func bucket(n int) string {
	switch {
	case n == 0:
		return "0"
	case n <= 2:
		return "1-2"
	case n <= 5:
		return "3-5"
	case n <= 10:
		return "6-10"
	case n <= 20:
		return "11-20"
	case n <= 40:
		return "21-40"
	}
	return "41+"
}

func TestC13(t *testing.T) {
	c := h.New(t, "C13")
	defer c.Finish()
	c.Rule("(a) atomicity: 2-3 threads x 1-4 operations (define set get delete delete-nearest define-type type copy-then-read-all value/type symbol listing String; NewModule(m), Get/Type/Set/Addr/DeleteGlobal through a module fetched from the scope, GetEnvFromPath with 1-3 segments from the scope or its child, DefineGlobal/DefineGlobalValue/DefineGlobalReflectType/DefineGlobalType called on the scope or its child) on one shared scope with a parent, names a b c (values and types), m (bound to a module or not at all, shared scope only) and the type name int64 (a Go type name when no scope binds it); the shared scope may initially bind m to a module and the parent may bind sm to the shared scope itself; these added operations, names and initial bindings are drawn in 2 of 5 programs (at half of the draws), the other programs use the earlier operations only; a define-global is only generated for a name whose presence in the shared scope's own table never changes in the program (the statement's parent is read-only: an operation that walks both scopes is compared only when its answer depends on one table); String is not generated when a module can be bound, every written value unique, random initial contents (shared value table never created, or created and emptied, or filled); in 1 of 6 programs two threads are made to delete-nearest one name bound in both scopes, in 1 of 4 of the wider programs one thread is made to create the module m and another to fetch it and look a name up through it; in 1 of 4 of the wider programs one thread is made to resolve the path sm/m (down through the shared scope into the module) and another to fetch m and do an operation through it that walks up the chain (Set 3 in 7, Addr, DeleteGlobal, Get, Type); schedule = list of 0-80 ints in 0..5; at each scheduling decision the enabled threads are listed in thread order starting with the thread that ran last (if it can continue) and choice mod number-of-enabled-threads picks one (0 = no switch; also used once the list is exhausted); yield points = every Lock/RLock/Unlock/RUnlock of package env; non-trivial = >=1 preemption (switch away from a thread that could have continued) and two threads touch the same name of the same table with >=1 writer (copy/listing/String touch every name); distinct by program + executed schedule")
	c.Rule("(b) race: the same programs, real goroutines (start order and start barrier varied per repetition), real locks, GOMAXPROCS 16, race detector with halt_on_error in a child process; evaluations count program x repetition; non-trivial = two goroutines touch the same name with >=1 writer; distinct by program")

	withString := stringUsable()
	if !withString {
		c.AddClass("string_format_not_recognised_op_not_generated", 1)
	}
	c.Extra("c13_rewritten_mutex_sites", env.VerifRewrittenSites)
	if env.VerifRewrittenSites == 0 {
		c.Incomplete("the rewrite found no sync.RWMutex/sync.Mutex type in package env: sub-check (a) cannot observe lock operations")
	}

	// ---------- (a) ----------
	broken := false
	var hookOps, decisions, preempts, noLockCalls int64
	h.Run(c, "atomicity", c.N(5000, 30000),
		func(t *rapid.T) SchedCase {
			p := genProg(t, withString)
			n := rapid.IntRange(0, 80).Draw(t, "schedule_len")
			return SchedCase{Prog: p, Schedule: rapid.SliceOfN(rapid.IntRange(0, 5), n, n).Draw(t, "schedule")}
		},
		func(tc SchedCase, o *h.Obs) *h.Fail {
			if err := validProg(tc.Prog); err != nil {
				o.Excluded = "invalid_case"
				return nil
			}
			if broken {
				o.Excluded = "scheduler_broken_earlier"
				return nil
			}
			out := runScheduled(tc.Prog, tc.Schedule)
			if out.stuck {
				broken = true
				c.Incomplete("sub-check (a): a worker did not reach its next lock operation within 30 s\n%s", progText(tc.Prog, out.results))
				o.Excluded = "harness_worker_timeout"
				return nil
			}
			if out.tooLong {
				o.Excluded = "step_limit"
				return nil
			}
			o.Key = fmt.Sprintf("%v|%v", tc.Prog, out.chosen)
			o.Note = strings.ReplaceAll(progText(tc.Prog, out.results), "\n", " ") + fmt.Sprintf("schedule(thread per step)=%v", out.chosen)
			shared := sharedWrite(tc.Prog)
			o.NonTrivial = out.preempt >= 1 && shared
			classifyProg(tc.Prog, o.Class)
			o.Class("a_preemptions_" + bucket(out.preempt))
			o.Class("a_scheduling_decisions_" + bucket(out.decisions))
			if out.blocked > 0 {
				o.Class("a_some_lock_request_had_to_wait")
			}
			if out.decisions > len(tc.Schedule) {
				o.Class("a_schedule_exhausted_before_end")
			}
			if shared {
				o.Class("a_threads_share_a_written_name")
			}
			hookOps += int64(out.hookOps)
			decisions += int64(out.decisions)
			preempts += int64(out.preempt)
			trace := func() string {
				return fmt.Sprintf("%sexecuted schedule (thread per step): %v\nlock trace:\n  %s", progText(tc.Prog, out.results), out.chosen, strings.Join(out.trace, "\n  "))
			}
			if out.misuse != "" {
				return h.Failf("C13|lock-misuse", "%s (sync would abort the process with a fatal error)\n%s", out.misuse, trace())
			}
			if out.panicked != "" {
				return h.Failf("C13|panic", "a thread panicked in %s: %s\n%s", out.panicOp, out.panicked, trace())
			}
			if out.deadlock != "" {
				sig := "C13|deadlock"
				if out.deadlockScopes >= 2 {
					// a cycle over the locks of several scopes (each blocked thread waits for a different scope's lock)
					sig += "|threads-wait-for-locks-of-different-scopes"
				}
				return h.Failf(sig, "no thread can run: %s\n%s", out.deadlock, trace())
			}
			if out.noLock != "" {
				// an operation that took no lock under the hook: either a lock-free path (then it is one
				// atomic step for this scheduler and its results must still be explainable, checked
				// below; races inside it are left to sub-check (b)) or, if NO call ever takes a lock,
				// an ineffective rewrite (decided after the run)
				o.Class("a_env_call_without_lock_operation_" + out.noLock)
				noLockCalls++
			}
			order, ok := explain(tc.Prog, out.results, out.final)
			if !ok {
				sig := "C13|not-sequentially-consistent"
				if foreignBinding(tc.Prog, out.final) {
					sig += "|final-state-binds-what-no-operation-wrote"
				} else if pairSurvives(tc.Prog, out.final) {
					sig += "|two-delete-nearest-of-one-name"
				}
				return h.Failf(sig, "no one-at-a-time order of the operations (respecting each thread's order) produces these results and this final state\n%sfinal   %s\nexecuted schedule (thread per step): %v\nlock trace:\n  %s",
					progText(tc.Prog, out.results), out.final, out.chosen, strings.Join(out.trace, "\n  "))
			}
			sw := 0
			for i := 1; i < len(order); i++ {
				if order[i] != order[i-1] {
					sw++
				}
			}
			if sw >= len(tc.Prog.Threads) {
				o.Class("a_witness_order_interleaves_threads")
			}
			return nil
		})
	c.Extra("c13_a_lock_operations_observed", hookOps)
	c.Extra("c13_a_env_calls_without_lock_operation", noLockCalls)
	if hookOps == 0 && noLockCalls > 0 {
		c.Incomplete("sub-check (a): no env call made any lock operation under the hook: the rewrite is ineffective")
	}
	c.Extra("c13_a_scheduling_decisions", decisions)
	c.Extra("c13_a_preemptions", preempts)

	// ---------- lock order over a chain of scopes (scheduler only; lockorder_test.go) ----------
	runLockOrder(c, withString)

	// ---------- (b) ----------
	rr := &raceRunner{}
	t.Cleanup(rr.close)
	reps := 20
	if c.Thorough() {
		reps = 200
	}
	var runs int64
	raceBroken, raceStopped := false, false
	h.Run(c, "race", c.N(300, 2000),
		func(t *rapid.T) RaceCase { return RaceCase{Prog: genProg(t, withString), Reps: reps} },
		func(tc RaceCase, o *h.Obs) *h.Fail {
			if err := validProg(tc.Prog); err != nil || tc.Reps < 1 || tc.Reps > 5000 {
				o.Excluded = "invalid_case"
				return nil
			}
			if raceBroken {
				o.Excluded = "race_worker_broken_earlier"
				return nil
			}
			if raceStopped {
				o.Excluded = "race_search_stopped_after_deadlock_under_real_locks"
				return nil
			}
			out := rr.run(raceReq{Prog: tc.Prog, Reps: tc.Reps})
			o.Key = fmt.Sprintf("%v", tc.Prog)
			o.Note = strings.ReplaceAll(progText(tc.Prog, nil), "\n", " ")
			o.NonTrivial = sharedWrite(tc.Prog)
			classifyProg(tc.Prog, func(f string, a ...interface{}) { o.Class("b_" + f) })
			if o.NonTrivial {
				o.Class("b_goroutines_share_a_written_name")
			}
			switch {
			case out.err != nil:
				c.Incomplete("sub-check (b): worker process: %v", out.err)
				o.Excluded = "race_worker_failure"
				return nil
			case out.timeout:
				if bl, all := blockedInEnvLocks(out.stderr); all {
					// one confirmed hang is enough; every further one would cost hangLimit again
					raceStopped = true
					return h.Failf("C13|deadlock|real-locks", "real goroutines, real locks: the worker process made no progress for %v and its goroutine dump shows every live worker goroutine blocked acquiring a scope's mutex from inside package env:\n  %s\n%s", hangLimit, strings.Join(bl, "\n  "), progText(tc.Prog, nil))
				}
				raceBroken = true
				c.Incomplete("sub-check (b): worker process gave no answer within %v and its goroutine dump does not show all workers blocked in locks of package env\n%s%s", hangLimit, progText(tc.Prog, nil), tailStr(out.stderr, 1500))
				o.Excluded = "race_worker_timeout"
				return nil
			case out.died:
				if strings.Contains(out.stderr, "WARNING: DATA RACE") {
					funcs, text := parseRaceReport(out.stderr)
					if sig, ok := raceSig(funcs); ok {
						return h.Failf(sig, "the race detector reported conflicting accesses inside package env while this program ran (%d repetitions requested)\n%s%s", tc.Reps, progText(tc.Prog, nil), text)
					}
					c.Incomplete("sub-check (b): race report that does not name package env (harness?)\n%s", tailStr(out.stderr, 2500))
					o.Excluded = "race_report_outside_env"
					return nil
				}
				if strings.Contains(out.stderr, "fatal error: concurrent map") && strings.Contains(out.stderr, envPkg) {
					return h.Failf("C13|data-race|runtime-detected-concurrent-map-access", "the runtime aborted the worker: unsynchronised map access inside package env\n%s%s", progText(tc.Prog, nil), firstLines(out.stderr, 3))
				}
				if strings.Contains(out.stderr, "fatal error: sync:") && strings.Contains(out.stderr, envPkg) {
					return h.Failf("C13|lock-misuse", "the runtime aborted the worker\n%s%s", progText(tc.Prog, nil), firstLines(out.stderr, 3))
				}
				c.Incomplete("sub-check (b): worker process died (exit %d)\n%s", out.exitCode, tailStr(out.stderr, 2500))
				o.Excluded = "race_worker_failure"
				return nil
			}
			runs += int64(out.resp.Runs)
			// every repetition is one executed case
			for i := 1; i < out.resp.Runs; i++ {
				c.Record("race", &h.Obs{NonTrivial: o.NonTrivial, Key: o.Key, Classes: []string{"b_repetition"}}, nil)
			}
			if out.resp.Panic != "" {
				return h.Failf("C13|panic", "a goroutine panicked under real locks: %s\n%s", out.resp.Panic, progText(tc.Prog, nil))
			}
			if out.resp.NonSC != "" {
				sig := "C13|not-sequentially-consistent"
				if i := strings.LastIndex(out.resp.NonSC, "final   "); i >= 0 && foreignBinding(tc.Prog, out.resp.NonSC[i:]) {
					sig += "|final-state-binds-what-no-operation-wrote"
				} else if pairSurvives(tc.Prog, out.resp.NonSC) {
					sig += "|two-delete-nearest-of-one-name"
				}
				return h.Failf(sig, "real goroutines, real locks: no one-at-a-time order of the operations produces these results and this final state\n%s", out.resp.NonSC)
			}
			return nil
		})
	c.Extra("c13_b_program_runs", runs)
	c.Extra("c13_b_worker_processes_started", rr.started)
}

func tailStr(s string, n int) string {
	if len(s) <= n {
		return s
	}
	return "…" + s[len(s)-n:]
}

func firstLines(s string, n int) string {
	i := strings.Index(s, "fatal error:")
	if i > 0 {
		s = s[i:]
	}
	l := strings.SplitN(s, "\n", n+1)
	if len(l) > n {
		l = l[:n]
	}
	return strings.Join(l, "\n")
}
