//go:build verifc13

// Cooperative scheduler for sub-check (a): every lock operation of package env is a
// yield point; exactly one worker goroutine runs at a time; the scheduler owns the
// lock state (the real mutexes are never touched while the hook is installed).
package c13

import (
	"fmt"
	"runtime/debug"
	"strings"
	"time"

	"github.com/mattn/anko/env"
)

const (
	stNew          = iota // goroutine created, has not run yet
	stAtOp                // parked in the hook, about to perform req
	stBlockedW            // inside Lock: waiting for the writer slot
	stBlockedDrain        // inside Lock: writer slot taken (announced), waiting for readers to leave
	stBlockedR            // inside RLock: a writer is announced or active
	stGrantedR            // inside RLock: released by the writer's Unlock, holds the read lock
	stDone
)

const (
	evYield = iota
	evDone
	evPanic
)

type abortSentinel struct{}

type mstate struct {
	name     string
	wOwner   *thr // owner of the writer slot (announced or active)
	wActive  bool // the writer holds the lock
	readers  int
	blockedR []*thr
}

type thr struct {
	id       int
	ops      []Op
	results  []string
	wake     chan bool // true = abort
	state    int
	reqOp    int
	reqM     *env.VerifMutex
	tryRes   bool
	aborting bool
	opIdx    int
	lockOps  int  // lock operations seen during the current env call
	noLock   string // first operation that made no lock operation at all
	panicVal string
}

type sched struct {
	threads  []*thr
	cur      *thr
	events   chan int
	mus      map[*env.VerifMutex]*mstate
	names    map[*env.VerifMutex]string
	trace    []string
	chosen   []int // thread id per scheduling decision
	preempt  int
	hookOps  int
	blocked  int // number of times an arrival had to block
	stuck    bool   // a worker did not come back within the time limit (harness problem)
	tooLong  bool   // step limit reached
	misuse   string // unlock of an unlocked mutex etc.
}

var opNames = map[int]string{env.VerifOpLock: "Lock", env.VerifOpUnlock: "Unlock", env.VerifOpRLock: "RLock", env.VerifOpRUnlock: "RUnlock", env.VerifOpTryLock: "TryLock", env.VerifOpTryRLock: "TryRLock"}

func (s *sched) mu(m *env.VerifMutex) *mstate {
	st := s.mus[m]
	if st == nil {
		name := s.names[m]
		if name == "" {
			name = fmt.Sprintf("other%d", len(s.mus))
		}
		st = &mstate{name: name}
		s.mus[m] = st
	}
	return st
}

// hook runs in the worker goroutine that the scheduler resumed last.
func (s *sched) hook(op int, m *env.VerifMutex) bool {
	t := s.cur
	if t == nil || t.aborting {
		return true
	}
	t.lockOps++
	s.hookOps++
	t.reqOp, t.reqM = op, m
	s.events <- evYield
	if abort := <-t.wake; abort {
		t.aborting = true
		panic(abortSentinel{})
	}
	res := t.tryRes
	if op == env.VerifOpUnlock || op == env.VerifOpRUnlock {
		// a second yield point right after the lock has been released: what a method does between
		// releasing a lock and its next lock operation (or its return) is a step of its own, so
		// that other threads can run in between
		t.reqOp, t.reqM = opAfterUnlock, m
		s.events <- evYield
		if abort := <-t.wake; abort {
			t.aborting = true
			panic(abortSentinel{})
		}
	}
	return res
}

// opAfterUnlock is the pseudo operation of the yield point that follows an Unlock / RUnlock.
const opAfterUnlock = -1

func (s *sched) worker(t *thr, w world) {
	if abort := <-t.wake; abort {
		s.events <- evDone
		return
	}
	ev := evDone
	defer func() {
		if r := recover(); r != nil {
			if _, ok := r.(abortSentinel); !ok {
				t.panicVal = fmt.Sprintf("%v\n%s", r, trimStack(string(debug.Stack())))
				ev = evPanic
			}
		}
		s.events <- ev
	}()
	for i, op := range t.ops {
		t.opIdx = i
		t.lockOps = 0
		r := execOp(w, t.id, op)
		if t.aborting {
			// the abort panic was swallowed on the way (fmt recovers a panic raised inside a String method it
			// calls): what the operation returned after that is not a result
			break
		}
		if t.lockOps == 0 && t.noLock == "" && r != "nomod" {
			t.noLock = op.K
		}
		t.results = append(t.results, r)
	}
}

func trimStack(s string) string {
	var keep []string
	for _, l := range strings.Split(s, "\n") {
		if strings.Contains(l, "github.com/mattn/anko/env.") {
			if i := strings.Index(l, "("); i > 0 && !strings.HasPrefix(l, "\t") {
				// function line: drop argument words
				if j := strings.LastIndex(l, "("); j > 0 {
					l = l[:j]
				}
			}
			keep = append(keep, strings.TrimSpace(l))
		}
	}
	if len(keep) > 6 {
		keep = keep[:6]
	}
	return strings.Join(keep, " < ")
}

// resume lets t run to its next yield point (or to its end).
func (s *sched) resume(t *thr) {
	s.cur = t
	t.wake <- false
	s.wait(t)
}

func (s *sched) wait(t *thr) {
	select {
	case ev := <-s.events:
		switch ev {
		case evYield:
			t.state = stAtOp
		case evDone, evPanic:
			t.state = stDone
		}
	case <-time.After(30 * time.Second):
		s.stuck = true
	}
}

func (s *sched) enabled(t *thr) bool {
	switch t.state {
	case stNew, stAtOp, stGrantedR:
		return true
	case stBlockedW:
		return s.mu(t.reqM).wOwner == nil
	case stBlockedDrain:
		return s.mu(t.reqM).readers == 0
	}
	return false
}

func (s *sched) logf(t *thr, format string, args ...interface{}) {
	s.trace = append(s.trace, fmt.Sprintf("T%d[%s] ", t.id, t.curOp())+fmt.Sprintf(format, args...))
}

func (t *thr) curOp() string {
	if t.state == stNew || t.opIdx >= len(t.ops) {
		return "start"
	}
	return t.ops[t.opIdx].String()
}

// step performs one scheduling step of an enabled thread.
func (s *sched) step(t *thr) {
	switch t.state {
	case stNew:
		s.resume(t)
	case stGrantedR:
		s.logf(t, "continues with the read lock of %s", s.mu(t.reqM).name)
		s.resume(t)
	case stBlockedW:
		m := s.mu(t.reqM)
		m.wOwner = t
		if m.readers == 0 {
			m.wActive = true
			s.logf(t, "Lock %s acquired", m.name)
			s.resume(t)
		} else {
			t.state = stBlockedDrain
			s.logf(t, "Lock %s announced, waits for %d reader(s)", m.name, m.readers)
		}
	case stBlockedDrain:
		m := s.mu(t.reqM)
		m.wActive = true
		s.logf(t, "Lock %s acquired", m.name)
		s.resume(t)
	case stAtOp:
		m := s.mu(t.reqM)
		switch t.reqOp {
		case env.VerifOpLock:
			if m.wOwner == nil {
				m.wOwner = t
				if m.readers == 0 {
					m.wActive = true
					s.logf(t, "Lock %s", m.name)
					s.resume(t)
				} else {
					t.state = stBlockedDrain
					s.blocked++
					s.logf(t, "Lock %s announced, waits for %d reader(s)", m.name, m.readers)
				}
			} else {
				t.state = stBlockedW
				s.blocked++
				s.logf(t, "Lock %s waits for writer T%d", m.name, m.wOwner.id)
			}
		case env.VerifOpRLock:
			if m.wOwner != nil {
				t.state = stBlockedR
				m.blockedR = append(m.blockedR, t)
				s.blocked++
				s.logf(t, "RLock %s blocks: writer T%d announced or active", m.name, m.wOwner.id)
			} else {
				m.readers++
				s.logf(t, "RLock %s", m.name)
				s.resume(t)
			}
		case opAfterUnlock:
			s.resume(t)
		case env.VerifOpUnlock:
			if !m.wActive {
				s.misuse = "Unlock of " + m.name + " which is not write-locked"
				return
			}
			m.wActive = false
			m.wOwner = nil
			for _, r := range m.blockedR {
				m.readers++
				r.state = stGrantedR
			}
			m.blockedR = nil
			s.logf(t, "Unlock %s", m.name)
			s.resume(t)
		case env.VerifOpRUnlock:
			if m.readers == 0 {
				s.misuse = "RUnlock of " + m.name + " which is not read-locked"
				return
			}
			m.readers--
			s.logf(t, "RUnlock %s", m.name)
			s.resume(t)
		case env.VerifOpTryLock:
			t.tryRes = m.wOwner == nil && m.readers == 0
			if t.tryRes {
				m.wOwner, m.wActive = t, true
			}
			s.logf(t, "TryLock %s = %v", m.name, t.tryRes)
			s.resume(t)
		case env.VerifOpTryRLock:
			t.tryRes = m.wOwner == nil
			if t.tryRes {
				m.readers++
			}
			s.logf(t, "TryRLock %s = %v", m.name, t.tryRes)
			s.resume(t)
		}
	}
}

// abortAll unwinds every unfinished worker, one at a time.
func (s *sched) abortAll() {
	for _, t := range s.threads {
		if t.state == stDone || s.stuck {
			continue
		}
		s.cur = t
		t.wake <- true
		s.wait(t)
	}
}

type runOut struct {
	results   [][]string
	final     string
	deadlock  string // non-empty: description of the blocked threads
	// deadlockScopes: the number of different mutexes the blocked threads wait for
	deadlockScopes int
	panicked  string
	panicOp   string
	misuse    string
	noLock    string
	stuck     bool
	tooLong   bool
	preempt   int
	hookOps   int
	blocked   int
	decisions int
	chosen    []int
	trace     []string
}

// runScheduled executes the program under the schedule.
func runScheduled(p Prog, schedule []int) runOut {
	w := build(p)
	s := &sched{events: make(chan int), mus: map[*env.VerifMutex]*mstate{}, names: map[*env.VerifMutex]string{}}
	for ti, ops := range p.Threads {
		s.threads = append(s.threads, &thr{id: ti, ops: ops, wake: make(chan bool)})
	}
	var out runOut
	// learn which mutex belongs to which scope (sequential probe calls, recording hook)
	var seen []*env.VerifMutex
	env.VerifLockHook = func(op int, m *env.VerifMutex) bool { seen = append(seen, m); return true }
	w.shared.GetValueSymbols()
	if len(seen) > 0 {
		s.names[seen[0]] = "shared"
	}
	seen = nil
	w.parent.GetValueSymbols()
	if len(seen) > 0 {
		s.names[seen[0]] = "parent"
	}
	for _, x := range []struct {
		e    *env.Env
		name string
	}{{w.child, "child"}, {w.mod0, fmt.Sprintf("module%d", idMod0)}} {
		if x.e == nil {
			continue
		}
		seen = nil
		x.e.GetValueSymbols()
		if len(seen) > 0 && s.names[seen[0]] == "" {
			s.names[seen[0]] = x.name
		}
	}
	env.VerifLockHook = s.hook
	for _, t := range s.threads {
		go s.worker(t, w)
	}
	var last *thr
	si := 0
	for !s.stuck && s.misuse == "" {
		var en []*thr
		unfinished := 0
		for _, t := range s.threads {
			if t.state == stDone {
				continue
			}
			unfinished++
			if s.enabled(t) {
				en = append(en, t)
			}
		}
		if unfinished == 0 {
			break
		}
		if len(en) == 0 {
			var d []string
			waited := map[*mstate]bool{}
			for _, t := range s.threads {
				if t.state == stDone {
					continue
				}
				m := s.mu(t.reqM)
				waited[m] = true
				what := map[int]string{stBlockedW: "Lock", stBlockedDrain: "Lock", stBlockedR: "RLock"}[t.state]
				d = append(d, fmt.Sprintf("T%d in %s blocked in %s(%s) [readers=%d writer-slot=%s]", t.id, t.curOp(), what, m.name, m.readers, ownerText(m)))
			}
			out.deadlock = strings.Join(d, "; ")
			out.deadlockScopes = len(waited)
			break
		}
		// the enabled threads in thread order, rotated so that the thread that ran last
		// (when it can continue) comes first: choice 0 = no switch
		if last != nil {
			for i, x := range en {
				if x == last {
					en = append(append([]*thr{}, en[i:]...), en[:i]...)
					break
				}
			}
		}
		pick := 0
		if si < len(schedule) {
			c := schedule[si]
			if c < 0 {
				c = -c
			}
			pick = c % len(en)
			si++
		}
		t := en[pick]
		if last != nil && last != t && last.state != stDone && s.enabled(last) {
			s.preempt++
		}
		last = t
		s.chosen = append(s.chosen, t.id)
		if len(s.chosen) > 5000 {
			s.tooLong = true
			break
		}
		s.step(t)
		for _, x := range s.threads {
			if x.panicVal != "" && out.panicked == "" {
				out.panicked = x.panicVal
				out.panicOp = x.curOp()
			}
		}
		if out.panicked != "" {
			break
		}
	}
	s.abortAll()
	env.VerifLockHook = nil
	out.stuck = s.stuck
	out.tooLong = s.tooLong
	out.misuse = s.misuse
	out.preempt = s.preempt
	out.blocked = s.blocked
	out.decisions = len(s.chosen)
	out.chosen = s.chosen
	out.trace = s.trace
	for _, t := range s.threads {
		out.results = append(out.results, t.results)
		if t.noLock != "" && out.noLock == "" {
			out.noLock = t.noLock
		}
	}
	if !s.stuck {
		out.results = w.resolveAll(out.results) // no worker runs any more
	}
	out.hookOps = s.hookOps
	if !s.stuck && !s.tooLong && out.deadlock == "" && out.panicked == "" && s.misuse == "" {
		out.final = finalText(w)
	}
	return out
}

func ownerText(m *mstate) string {
	if m.wOwner == nil {
		return "free"
	}
	if m.wActive {
		return fmt.Sprintf("held by T%d", m.wOwner.id)
	}
	return fmt.Sprintf("announced by T%d", m.wOwner.id)
}
