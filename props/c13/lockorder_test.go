//go:build verifc13

// Sub-check "lockorder" of C13 (added after the eighth round): the deadlock clause over a CHAIN of scopes.
//
// The programs of sub-check (a) replace String whenever the shared scope can bind a module (its text cannot be
// read back, and under real goroutines the %#v dump of a module is observation O7). Under the cooperative
// scheduler only one goroutine runs at a time, so O7 cannot show, and what remains of String over a scope that
// binds a module is exactly what the statement does decide: whether it can block for ever against an operation
// that enters the chain from the other end. This sub-check therefore generates, on the chain
// parent - shared scope - module m (- a fresh child of m), operations that go DOWN from a scope into the modules it
// binds (String of the shared scope, String of the parent that binds the shared scope as "sm", GetEnvFromPath
// sm/m, Copy / DeepCopy / listings) together with operations issued THROUGH the module or a child of it that
// walk UP (DeleteGlobal, Addr, Set, Get, Type), plus writers of the shared scope, and runs them under the same
// scheduler and the same oracle as (a): no deadlock, no panic, no lock misuse, results and final contents
// explained by a one-at-a-time order. The text String prints for a module is recognised leniently and never
// compared beyond "this name is bound to a module".
package c13

import (
	"fmt"
	"strings"

	"pgregory.net/rapid"

	"verif/internal/h"
)

type LockCase struct {
	Prog     Prog  `json:"prog"`
	Schedule []int `json:"schedule"`
}

// lockKinds: generator-side kinds of the lock-order programs.
//
//	pathdown = path / cpath that descends through sm and / or m;
//	modwalk  = (get(m) | cget(m))? followed by an operation through the module held or through a child of it;
//	gdef     = a define-global form (repaired by keepParentQuiet as in the other sub-checks)
var lockKinds = []string{
	"string", "string", "string", "string", "pstring", "pstring", "copy", "deepcopy", "syms", "pathdown", "pathdown",
	"modwalk", "modwalk", "modwalk", "modwalk", "modwalk", "modwalk",
	"delnear", "set", "get", "caddr", "cset", "cget",
	"define", "define", "delete", "newmod", "deftype", "gdef",
}

// lockWalkers: operations that start in the module held (m…) or in a fresh child of it (mc…) and walk up
var lockWalkers = []string{"mdelnear", "mdelnear", "mdelnear", "maddr", "maddr", "mset", "mset", "mget", "mtype",
	"mcdelnear", "mcdelnear", "mcaddr", "mcset", "mcget", "mctype"}

var lockWalkerKinds = []string{"mdelnear", "maddr", "mset", "mget", "mtype", "mcdelnear", "mcaddr", "mcset", "mcget", "mctype"}

// sharedWalkers: operations on the shared scope (or through its empty child) that go on to the parent when the
// shared scope does not bind the name: against String of the PARENT they are what the module walkers are against
// String of the shared scope
var sharedWalkers = []string{"delnear", "delnear", "caddr", "set", "cset", "get"}

var downPaths = []string{selfName + "/" + modName, selfName + "/" + modName, modName, selfName, selfName + "/" + modName + "/a"}

func isModWalker(k string) bool {
	for _, x := range lockWalkerKinds {
		if x == k {
			return true
		}
	}
	return false
}

func genWalker(t *rapid.T, label string, from []string, next *int) Op {
	op := Op{K: rapid.SampledFrom(from).Draw(t, label)}
	if op.K == "mtype" || op.K == "mctype" {
		op.N = rapid.SampledFrom(tNamesWide).Draw(t, label+"_tname")
	} else {
		op.N = rapid.SampledFrom(pool).Draw(t, label+"_name")
	}
	switch op.K {
	case "mset", "mcset", "set", "cset":
		op.V = *next
		*next++
	}
	return op
}

func genLockProg(t *rapid.T, withString bool) Prog {
	p := Prog{
		ChildVals:   genSubset(t, "cv", 1),
		ChildTypes:  genSubset(t, "ct", 1),
		ParentVals:  genSubset(t, "pv", 2),
		ParentTypes: genSubset(t, "pt", 2),
		Wide:        true,
		LockOrder:   true,
	}
	p.Ext = rapid.IntRange(0, 3).Draw(t, "ext") == 0
	p.Mod = rapid.IntRange(0, 3).Draw(t, "mod") != 0
	p.SelfMod = rapid.IntRange(0, 2).Draw(t, "selfmod") != 0
	nt := rapid.IntRange(2, 3).Draw(t, "threads")
	next := 10
	holder := func(label string) Op {
		return Op{K: rapid.SampledFrom([]string{"get", "get", "cget"}).Draw(t, label), N: modName}
	}
	for i := 0; i < nt; i++ {
		n := rapid.IntRange(1, 4).Draw(t, "nops")
		var ops []Op
		holds := false
		for j := 0; j < n; j++ {
			k := rapid.SampledFrom(lockKinds).Draw(t, "kind")
			if (k == "string" || k == "pstring") && !withString {
				k = "syms"
			}
			op := Op{K: k}
			switch k {
			case "define", "set", "cset":
				op.N = rapid.SampledFrom(pool).Draw(t, "name")
				op.V = next
				next++
			case "deftype":
				op.N = rapid.SampledFrom(pool).Draw(t, "tname")
				op.V = next
				next++
			case "get", "delete", "delnear", "cget":
				op.N = rapid.SampledFrom(vNamesWide).Draw(t, "vname")
				if op.N == modName && (k == "get" || k == "cget") {
					holds = true
				}
			case "caddr":
				op.N = rapid.SampledFrom(pool).Draw(t, "name")
			case "newmod":
				op.N = modName
				op.V = next
				next++
			case "pathdown":
				op.K = rapid.SampledFrom([]string{"path", "cpath"}).Draw(t, "pathfrom")
				op.N = rapid.SampledFrom(downPaths).Draw(t, "downpath")
			case "modwalk":
				if !holds || rapid.IntRange(0, 1).Draw(t, "fetch_again") == 0 {
					ops = append(ops, holder("holder"))
					holds = true
				}
				op = genWalker(t, "walker", lockWalkers, &next)
			case "gdef":
				op.K = rapid.SampledFrom([]string{"gdefine", "gdefinev", "cgdefine", "cgdefinev"}).Draw(t, "gform")
				op.N = rapid.SampledFrom(pool).Draw(t, "name")
				op.V = next
				next++
			}
			ops = append(ops, op)
		}
		if len(ops) > maxThreadOps {
			ops = ops[:maxThreadOps]
		}
		p.Threads = append(p.Threads, ops)
	}
	// the shape this sub-check exists for, in 3 of 4 programs: one thread prints a scope that binds a module, another
	// thread enters the chain below that scope and walks up
	if withString && rapid.IntRange(0, 3).Draw(t, "plant") != 0 {
		ti := rapid.IntRange(0, nt-1).Draw(t, "print_t")
		tj := (ti + 1 + rapid.IntRange(0, nt-2).Draw(t, "walk_t")) % nt
		printer := Op{K: "string"}
		var seq []Op
		if rapid.IntRange(0, 2).Draw(t, "print_parent") == 0 {
			// the parent prints the shared scope: everything that goes from the shared scope (or from below it) to the parent
			printer = Op{K: "pstring"}
			p.SelfMod = true
			if rapid.IntRange(0, 1).Draw(t, "walk_from_shared") == 0 {
				seq = []Op{genWalker(t, "planted_shared_walker", sharedWalkers, &next)}
			}
		}
		if seq == nil {
			seq = []Op{holder("planted_holder"), genWalker(t, "planted_walker", lockWalkers, &next)}
		}
		p.Threads[ti][rapid.IntRange(0, len(p.Threads[ti])-1).Draw(t, "print_pos")] = printer
		k := rapid.IntRange(0, len(p.Threads[tj])-1).Draw(t, "walk_pos")
		th := append([]Op{}, p.Threads[tj][:k]...)
		th = append(th, seq...)
		th = append(th, p.Threads[tj][k+1:]...)
		if len(th) > maxThreadOps {
			if k+len(seq) <= maxThreadOps {
				th = th[:maxThreadOps]
			} else {
				th = th[len(th)-maxThreadOps:]
			}
		}
		p.Threads[tj] = th
		p.ForcedDescent = true // shown under this sub-check's own class name
	}
	if !canBindModule(p) {
		p.Mod = true
	}
	keepParentQuiet(t, &p)
	return p
}

// lockShape describes what a lock-order program contains; used for classes and for the non-triviality rule.
type lockShape struct {
	printsModuleScope bool            // String of a scope that can bind a module (shared: m; parent: sm)
	against           map[string]bool // kinds of upward walkers in a thread other than a printing one
	downAgainstUp     bool            // some thread goes down (String / path into a module), another walks up
}

func lockShapeOf(p Prog) lockShape {
	sh := lockShape{against: map[string]bool{}}
	downBy := map[int]string{}
	upBy := map[int]map[string]bool{}
	for ti, th := range p.Threads {
		for _, op := range th {
			switch {
			case op.K == "string" && canBindModule(p):
				downBy[ti] = "string"
				sh.printsModuleScope = true
			case op.K == "pstring" && p.SelfMod:
				downBy[ti] = "string"
				sh.printsModuleScope = true
			case (op.K == "path" || op.K == "cpath") && strings.Contains(op.N, "/"):
				if downBy[ti] == "" {
					downBy[ti] = "path"
				}
			}
			up := ""
			switch {
			case isModWalker(op.K):
				up = op.K
			case op.K == "delnear" || op.K == "caddr" || op.K == "set" || op.K == "cset" || op.K == "get" || op.K == "cget":
				if op.N != modName {
					up = "shared_" + op.K
				}
			}
			if up != "" {
				if upBy[ti] == nil {
					upBy[ti] = map[string]bool{}
				}
				upBy[ti][up] = true
			}
		}
	}
	for a, how := range downBy {
		for b, kinds := range upBy {
			if a == b {
				continue
			}
			sh.downAgainstUp = true
			if how == "string" {
				for k := range kinds {
					sh.against[k] = true
				}
			}
		}
	}
	return sh
}

func runLockOrder(c *h.Ctx, withString bool) {
	c.Rule("lockorder (added after the eighth round): 2-3 threads x 1-4 draws on the chain parent - shared scope - module m - fresh child of m; the shared scope binds m to a module initially (3 of 4, and whenever no thread creates it) or a thread creates it with NewModule, the parent binds sm to the shared scope in 2 of 3; draws: String of the shared scope (4), String of the parent (2), copy, deepcopy, value listing, GetEnvFromPath sm/m | m | sm | sm/m/a from the scope or its child (2), an operation through the module fetched with get(m)/cget(m) or through a fresh child of it (6: DeleteGlobal 5, Addr 3, Set 3, Get 2, Type 2 of 15; the fetch is repeated at half of the draws once the thread holds a module), delete-nearest / set / get / Addr / Set through the child / Get through the child on the shared scope, define (2), delete, NewModule(m), define-type, one define-global form (same restriction as in (a)); in 3 of 4 programs one thread is made to print a scope that binds a module (String of the shared scope 2 of 3, String of the parent 1 of 3) and another to fetch m and walk up through it (or, against String of the parent, in half of the cases to do a delete-nearest / Addr / set / get on the shared scope); same scheduler, schedule encoding, yield points and oracle as (a); the text of String over a scope that binds a module is read leniently: a line '<m|sm> = &env.Env{...}' counts as 'bound to a module', any other unrecognised text makes that one result uncompared (counted); not run under real goroutines (String over a module is observation O7 there); non-trivial = >=1 preemption and (two threads touch the same name with >=1 writer, or one thread goes down into a module by String / path while another walks up from the module or from the shared scope); distinct by program + executed schedule")
	broken := false
	var hookOps, decisions, preempts int64
	h.Run(c, "lockorder", c.N(1500, 10000),
		func(t *rapid.T) LockCase {
			p := genLockProg(t, withString)
			n := rapid.IntRange(0, 80).Draw(t, "schedule_len")
			return LockCase{Prog: p, Schedule: rapid.SliceOfN(rapid.IntRange(0, 5), n, n).Draw(t, "schedule")}
		},
		func(tc LockCase, o *h.Obs) *h.Fail {
			if err := validProg(tc.Prog); err != nil || !tc.Prog.LockOrder {
				o.Excluded = "invalid_case"
				return nil
			}
			if broken {
				o.Excluded = "scheduler_broken_earlier"
				return nil
			}
			out := runScheduled(tc.Prog, tc.Schedule)
			if out.stuck {
				broken = true
				c.Incomplete("sub-check lockorder: a worker did not reach its next lock operation within 30 s\n%s", progText(tc.Prog, out.results))
				o.Excluded = "harness_worker_timeout"
				return nil
			}
			if out.tooLong {
				o.Excluded = "step_limit"
				return nil
			}
			o.Key = fmt.Sprintf("%v|%v", tc.Prog, out.chosen)
			o.Note = strings.ReplaceAll(progText(tc.Prog, out.results), "\n", " ") + fmt.Sprintf("schedule(thread per step)=%v", out.chosen)
			shared := sharedWrite(tc.Prog)
			sh := lockShapeOf(tc.Prog)
			o.NonTrivial = out.preempt >= 1 && (shared || sh.downAgainstUp)
			cl := func(f string, a ...interface{}) { o.Class("lo_" + f) }
			classifyProg(tc.Prog, func(f string, a ...interface{}) {
				if f == "path_down_against_walk_up_shape_planted" {
					f = "string_of_module_holding_scope_against_walk_up_shape_planted"
				}
				cl(f)
			})
			if sh.printsModuleScope {
				cl("has_string_of_a_scope_that_can_bind_a_module")
			}
			if sh.downAgainstUp {
				cl("shape_one_thread_goes_down_into_a_module_another_walks_up")
			}
			for _, k := range append(append([]string{}, lockWalkerKinds...), "shared_delnear", "shared_caddr", "shared_set", "shared_cset", "shared_get", "shared_cget") {
				if sh.against[k] {
					cl("shape_string_of_module_holding_scope_against_" + k)
				}
			}
			sawMod, uncompared, walked := false, false, false
			for ti, l := range out.results {
				for oi, r := range l {
					k := tc.Prog.Threads[ti][oi].K
					if k == "string" || k == "pstring" {
						if r == strWildcard {
							uncompared = true
						} else if strings.Contains(r, "=mod") {
							sawMod = true
						}
					}
					if isModWalker(k) && r != "nomod" {
						walked = true
					}
				}
			}
			if sawMod {
				cl("a_string_printed_a_scope_while_it_bound_a_module")
			}
			if uncompared {
				cl("string_text_with_module_not_recognised_result_not_compared")
			}
			if walked {
				cl("an_operation_was_done_through_a_module_or_its_child")
			}
			cl("preemptions_" + bucket(out.preempt))
			cl("scheduling_decisions_" + bucket(out.decisions))
			if out.blocked > 0 {
				cl("some_lock_request_had_to_wait")
			}
			if shared {
				cl("threads_share_a_written_name")
			}
			hookOps += int64(out.hookOps)
			decisions += int64(out.decisions)
			preempts += int64(out.preempt)
			trace := func() string {
				return fmt.Sprintf("%sexecuted schedule (thread per step): %v\nlock trace:\n  %s", progText(tc.Prog, out.results), out.chosen, strings.Join(out.trace, "\n  "))
			}
			if out.misuse != "" {
				return h.Failf("C13|lock-misuse", "%s (sync would abort the process with a fatal error)\n%s", out.misuse, trace())
			}
			if out.panicked != "" {
				return h.Failf("C13|panic", "a thread panicked in %s: %s\n%s", out.panicOp, out.panicked, trace())
			}
			if out.deadlock != "" {
				sig := "C13|deadlock"
				if out.deadlockScopes >= 2 {
					sig += "|threads-wait-for-locks-of-different-scopes"
				}
				return h.Failf(sig, "no thread can run: %s\n%s", out.deadlock, trace())
			}
			if out.noLock != "" {
				cl("env_call_without_lock_operation_" + out.noLock)
			}
			if _, ok := explain(tc.Prog, out.results, out.final); !ok {
				if n := parentDeleteHazard(tc.Prog); n != "" {
					// a delete-nearest that can reach the PARENT's binding of a name whose presence in the shared
					// table changes meanwhile: the parent is written (the statement quantifies over a read-only
					// parent) and the walk consults two scopes one after the other, as (a) explains for define-global
					o.Excluded = "lockorder: delete-nearest of a parent-bound name whose presence in the shared table changes (the parent is not read-only then)"
					return nil
				}
				sig := "C13|not-sequentially-consistent"
				if foreignBinding(tc.Prog, out.final) {
					sig += "|final-state-binds-what-no-operation-wrote"
				} else if pairSurvives(tc.Prog, out.final) {
					sig += "|two-delete-nearest-of-one-name"
				}
				return h.Failf(sig, "no one-at-a-time order of the operations (respecting each thread's order) produces these results and this final state\n%sfinal   %s\nexecuted schedule (thread per step): %v\nlock trace:\n  %s",
					progText(tc.Prog, out.results), out.final, out.chosen, strings.Join(out.trace, "\n  "))
			}
			return nil
		})
	c.Extra("c13_lockorder_lock_operations_observed", hookOps)
	c.Extra("c13_lockorder_scheduling_decisions", decisions)
	c.Extra("c13_lockorder_preemptions", preempts)
}

// parentDeleteHazard names a value the parent binds which some thread deletes by a delete-nearest form (on the shared
// scope, through its child, through the module or the module's child) while a define or delete of the same name on the
// shared scope changes whether the walk stops there. Outside the statement's domain ("with a read-only parent").
func parentDeleteHazard(p Prog) string {
	for _, n := range p.ParentVals {
		walker, presence := false, false
		for _, th := range p.Threads {
			for _, op := range th {
				if op.N != n {
					continue
				}
				switch op.K {
				case "delnear", "cdelnear", "mdelnear", "mcdelnear":
					walker = true
				case "define", "definev", "delete", "cdefine":
					presence = true
				}
			}
		}
		if walker && presence {
			return n
		}
	}
	return ""
}
