// Sub-checks added after the eighth round, both about the second sentence of C15 ("Parsing has no memory
// between calls: the same text always yields the same tree, also under concurrent calls"):
//
//	again    - a probe text is parsed, parsed again at once several times, and parsed again after the process has
//	           parsed other texts that bring up to several thousand spellings (names, numbers, strings) no parse of
//	           the process has seen before; every parse of the probe must give the tree of its first parse
//	literals - texts made of hundreds of distinct literal spellings, a different text on every goroutine at any
//	           moment, many rounds; every tree (literal values included) must be the tree the text gives alone
package c15

import (
	"fmt"
	"strconv"
	"strings"
	"sync"

	"github.com/mattn/anko/parser"
	"pgregory.net/rapid"

	"verif/internal/dump"
	"verif/internal/h"
	"verif/internal/wild"
)

// ---------- spellings the process has not seen before ----------

// Spellings describes texts holding N distinct spellings of one token class, Per of them to a text. The texts
// are built from the description (a case stays small and shrinks well); Salt makes the spellings of one case
// differ from those of every other case of the process.
type Spellings struct {
	Kind  string `json:"kind"`  // names | numbers | strings | mixed
	Shape string `json:"shape"` // assign | array | call | member | params | map
	N     int    `json:"n"`
	Per   int    `json:"per"`
	Salt  uint64 `json:"salt"`
	// run: the number of the oracle's execution within the process, mixed into every spelling. "New to the
	// process" has to hold when a case is executed a second time by the same process too (shrinking starts
	// with that); the verdict on a parser without memory does not depend on it. Not part of the case.
	run uint64
}

// executions of oracleAgain in this process
var againRuns uint64

func saltWord(salt uint64) string { return strconv.FormatUint(salt%(1<<40), 36) }

// salt of the spellings: the case's own, changed by the execution number (unchanged in the first execution
// of a process, which is the one a replay makes)
func (s Spellings) salt() uint64 {
	if s.run == 0 {
		return s.Salt
	}
	return s.Salt ^ mix64(s.run)<<3
}

// spelling k of a description, by token class.
func (s Spellings) name(k int) string {
	switch (s.Salt >> 41) % 4 {
	case 0:
		return "n" + saltWord(s.salt()) + "_" + strconv.Itoa(k)
	case 1:
		return "V" + strconv.Itoa(k) + "_" + saltWord(s.salt())
	case 2:
		return "_" + saltWord(s.salt()) + "_" + strconv.FormatInt(int64(k), 36)
	default:
		return "é" + strconv.Itoa(k) + "日" + saltWord(s.salt())
	}
}

func numberSpelling(base uint64, k int) string {
	v := base%1000000000 + uint64(k)
	switch k % 6 {
	case 0, 1:
		return strconv.FormatUint(v, 10)
	case 2:
		return "0x" + strconv.FormatUint(v, 16)
	case 3:
		return strconv.FormatUint(v, 10) + "." + strconv.Itoa(k%10)
	case 4:
		return strconv.FormatUint(v%100000, 10) + "e" + strconv.Itoa(k%7)
	default:
		return "0b" + strconv.FormatUint(v%(1<<20)+1<<20, 2)
	}
}

func (s Spellings) number(k int) string { return numberSpelling(s.salt(), k) }

func (s Spellings) str(k int) string {
	q := []string{"\"", "'", "`"}[(s.Salt>>43)%3]
	return q + "s" + saltWord(s.salt()) + " " + strconv.Itoa(k) + q
}

func (s Spellings) spelling(k int) string {
	kind := s.Kind
	if kind == "mixed" {
		kind = []string{"names", "numbers", "strings"}[k%3]
	}
	switch kind {
	case "numbers":
		return s.number(k)
	case "strings":
		return s.str(k)
	default:
		return s.name(k)
	}
}

// texts builds the texts of a description.
func (s Spellings) texts() []string {
	per := s.Per
	if per < 1 {
		per = 1
	}
	var out []string
	for from := 0; from < s.N; from += per {
		to := min(from+per, s.N)
		sp := make([]string, 0, to-from)
		for k := from; k < to; k++ {
			sp = append(sp, s.spelling(k))
		}
		var b strings.Builder
		switch shape := s.Shape; {
		case shape == "array":
			b.WriteString("x = [" + strings.Join(sp, ", ") + "]\n")
		case shape == "call":
			b.WriteString("f(" + strings.Join(sp, ",\n") + ")\n")
		case shape == "map":
			b.WriteString("m = {")
			for i, w := range sp {
				if i > 0 {
					b.WriteString(", ")
				}
				b.WriteString("\"k" + strconv.Itoa(from+i) + "\": " + w)
			}
			b.WriteString("}\n")
		case shape == "member" && s.Kind == "names":
			for _, w := range sp {
				b.WriteString("a." + w + " = b." + w + "()\n")
			}
		case shape == "params" && s.Kind == "names":
			b.WriteString("func f(" + strings.Join(sp, ", ") + ") {\n\treturn " + sp[0] + "\n}\n")
		default:
			for i, w := range sp {
				if s.Kind == "names" || (s.Kind == "mixed" && (from+i)%3 == 0) {
					b.WriteString(w + " = " + strconv.Itoa(i) + "\n")
				} else {
					b.WriteString("v = " + w + "\n")
				}
			}
		}
		out = append(out, b.String())
	}
	return out
}

func genSpellings(t *rapid.T, label string) Spellings {
	s := Spellings{Salt: mix64(rapid.Uint64().Draw(t, label+"_salt"))}
	// rapid favours small numbers: the classes are drawn through mix64 where every one is to come up
	s.Kind = []string{"names", "names", "names", "numbers", "strings", "mixed"}[mix64(rapid.Uint64().Draw(t, label+"_kind"))%6]
	s.Shape = []string{"assign", "assign", "array", "call", "map", "member", "params"}[mix64(rapid.Uint64().Draw(t, label+"_shape"))%7]
	switch rapid.IntRange(0, 7).Draw(t, label+"_size") {
	case 0:
		s.N = rapid.IntRange(0, 50).Draw(t, label+"_few")
	case 1, 2:
		// around the powers of two from 32 to 4096: the sizes a table of recent spellings would have
		e := rapid.IntRange(5, 12).Draw(t, label+"_pow")
		s.N = 1<<e + rapid.IntRange(-2, 40).Draw(t, label+"_off")
	case 3, 4, 5:
		s.N = rapid.IntRange(1100, 2600).Draw(t, label+"_many")
	default:
		s.N = rapid.IntRange(2600, 5000).Draw(t, label+"_verymany")
	}
	switch rapid.IntRange(0, 3).Draw(t, label+"_split") {
	case 0:
		s.Per = s.N // one large text
	case 1:
		s.Per = rapid.IntRange(1, 8).Draw(t, label+"_pertext_small")
		if s.N/s.Per > 600 {
			s.Per = s.N/600 + 1 // at most about 600 calls per description
		}
	default:
		s.Per = rapid.IntRange(20, 400).Draw(t, label+"_pertext")
	}
	return s
}

// ---------- composite literals whose entries repeat ----------

type constSpelling struct{ src, value string }

// constants by the value they denote: several spellings of one value are one key to a map
var constPool = []constSpelling{
	{"\"a\"", "s:a"}, {"'a'", "s:a"}, {"`a`", "s:a"}, {"\"b\"", "s:b"}, {"\"c\"", "s:c"}, {"\"key\"", "s:key"}, {"\"\"", "s:"}, {"\"d\"", "s:d"}, {"\"e\"", "s:e"},
	{"1", "i:1"}, {"0x1", "i:1"}, {"2", "i:2"}, {"3", "i:3"}, {"0", "i:0"}, {"10", "i:10"}, {"0b10", "i:2"},
	{"1.5", "f:1.5"}, {"2.0", "f:2"}, {"1e1", "f:10"}, {"true", "b:true"}, {"false", "b:false"},
}

var notConstant = []string{"a", "nil", "f()", "-1", "[1]", "{}", "a.b", "(1)", "1 + 1", "!true", "x[0]", "func() { }", "{\"a\": 1, \"a\": 2}"}

// genRepeatingLiteral: a map or array literal whose keys / elements are drawn from a small pool, so that they
// repeat; in most of them everything is a constant.
func genRepeatingLiteral(t *rapid.T, tags map[string]bool) string {
	pool := make([]constSpelling, rapid.IntRange(1, 6).Draw(t, "poolsize"))
	for i := range pool {
		pool[i] = constPool[mix64(rapid.Uint64().Draw(t, "poolentry"))%uint64(len(constPool))]
	}
	n := rapid.IntRange(1, 12).Draw(t, "entries")
	mode := rapid.IntRange(0, 4).Draw(t, "constmode") // 0-2: all constant, 3: one entry not, 4: any entry may not be
	odd := -1
	if mode == 3 {
		odd = rapid.IntRange(0, n-1).Draw(t, "oddentry")
	}
	allConst := true
	constant := func(i int, label string) string {
		if i == odd || (mode == 4 && rapid.IntRange(0, 3).Draw(t, label+"_not") == 0) {
			allConst = false
			return rapid.SampledFrom(notConstant).Draw(t, label+"_nc")
		}
		return constPool[mix64(rapid.Uint64().Draw(t, label))%uint64(len(constPool))].src
	}
	sep := rapid.SampledFrom([]string{", ", ", ", ",", ",\n", ",\n\t"}).Draw(t, "entrysep")
	open := rapid.SampledFrom([]string{"", "", "\n", "\n\n"}).Draw(t, "afteropen")
	end := rapid.SampledFrom([]string{"", "", ",", "\n", ",\n"}).Draw(t, "beforeclose")
	var b strings.Builder
	if rapid.IntRange(0, 4).Draw(t, "arrayform") == 0 {
		// arrays: elements repeat
		b.WriteString(rapid.SampledFrom([]string{"[", "[", "[]int64{", "[]interface{", "[]string{"}).Draw(t, "arrayopen"))
		closer := "]"
		if strings.HasSuffix(b.String(), "{") {
			closer = "}"
		}
		seen := map[string]bool{}
		for i := 0; i < n; i++ {
			if i > 0 {
				b.WriteString(sep)
			} else {
				b.WriteString(open)
			}
			e := pool[rapid.IntRange(0, len(pool)-1).Draw(t, "elem")]
			if seen[e.value] {
				tags["literal_array_repeated_element"] = true
			}
			seen[e.value] = true
			b.WriteString(e.src)
		}
		b.WriteString(end + closer)
		tags["literal_array"] = true
		return b.String()
	}
	form := rapid.SampledFrom([]string{"{", "{", "{", "map{", "map[string]interface{", "map[interface]interface{", "map[string]int64{", "map[int64]string{"}).Draw(t, "mapform")
	b.WriteString(form + open)
	seen := map[string]bool{}
	repeated := false
	for i := 0; i < n; i++ {
		if i > 0 {
			b.WriteString(sep)
		}
		var key string
		if i == odd && rapid.Bool().Draw(t, "oddiskey") {
			allConst = false
			key = rapid.SampledFrom(notConstant).Draw(t, "key_nc")
		} else {
			e := pool[rapid.IntRange(0, len(pool)-1).Draw(t, "key")]
			key = e.src
			if seen[e.value] {
				repeated = true
			}
			seen[e.value] = true
		}
		b.WriteString(key + rapid.SampledFrom([]string{": ", ": ", ":", " : "}).Draw(t, "colon") + constant(i, "value"))
	}
	b.WriteString(end + "}")
	tags["literal_map_form_"+strings.NewReplacer("{", "", "[", "_", "]", "_").Replace(form)] = true
	if repeated {
		tags["literal_map_repeated_key"] = true
		if allConst {
			tags["literal_map_repeated_key_all_constant"] = true
			tags[fmt.Sprintf("literal_map_repeated_key_all_constant_%d_distinct_keys", min(len(seen), 5))] = true
		}
	} else {
		tags["literal_map_no_repeated_key"] = true
	}
	return b.String()
}

// genLiteralStatement puts such a literal where an expression can stand.
func genLiteralStatement(t *rapid.T, tags map[string]bool) string {
	lit := genRepeatingLiteral(t, tags)
	switch rapid.IntRange(0, 9).Draw(t, "litctx") {
	case 0, 1, 2:
		return "m = " + lit
	case 3:
		return "var m = " + lit
	case 4:
		return "f(" + lit + ", " + genRepeatingLiteral(t, tags) + ")"
	case 5:
		return "func g() {\n\treturn " + lit + "\n}"
	case 6:
		return "x = [" + lit + ", " + genRepeatingLiteral(t, tags) + "]"
	case 7:
		return "for k, v in " + lit + " {\n\tx = " + genRepeatingLiteral(t, tags) + "\n}"
	case 8:
		tags["literal_nested_in_map_value"] = true
		return "m = {\"outer\": " + lit + ", \"other\": 1, \"outer\": " + genRepeatingLiteral(t, tags) + "}"
	default:
		return "x = " + lit + "[\"a\"]"
	}
}

// ---------- again ----------

type Again struct {
	Probe  string      `json:"probe"`
	Others []Spellings `json:"others"`
	// Tags: class labels of the generated shape (evidence counters only)
	Tags []string `json:"tags,omitempty"`
}

func genAgain(t *rapid.T) Again {
	tags := map[string]bool{}
	var parts []string
	for n := rapid.IntRange(1, 3).Draw(t, "nparts"); n > 0; n-- {
		switch rapid.IntRange(0, 9).Draw(t, "part") {
		case 0, 1, 2, 3:
			parts = append(parts, genLiteralStatement(t, tags))
			tags["probe_part_repeating_literal"] = true
		case 4, 5:
			// names, numbers and strings of its own
			s := Spellings{Kind: "mixed", Shape: "assign", N: rapid.IntRange(1, 12).Draw(t, "own"), Salt: mix64(rapid.Uint64().Draw(t, "ownsalt"))}
			s.Per = s.N
			parts = append(parts, strings.TrimRight(s.texts()[0], "\n"))
			tags["probe_part_own_spellings"] = true
		case 6:
			// any input of the total sub-check, valid or not
			parts = append(parts, genInput(t).Src)
			tags["probe_part_any_input"] = true
		default:
			parts = append(parts, strings.TrimRight(wild.Program(t, wild.Opts{Loops: true, Go: true, HugeInts: true, MaxDepth: 2, MaxStmts: 3}), "; \n"))
			tags["probe_part_generated_program"] = true
		}
	}
	a := Again{Probe: strings.Join(parts, "\n")}
	for n := rapid.IntRange(1, 3).Draw(t, "nothers"); n > 0; n-- {
		a.Others = append(a.Others, genSpellings(t, "other"))
	}
	a.Tags = sortedKeys(tags)
	return a
}

func renderParse(r parseResult) string {
	if r.err != nil {
		return "error " + errString(r.err)
	}
	return dump.Dump(r.stmt, dump.Opts{Positions: true})
}

// backToBack: how often the probe is parsed again at once
const backToBack = 5

func sizeClass(n int) string {
	switch {
	case n <= 64:
		return "le_64"
	case n <= 256:
		return "65_256"
	case n <= 1024:
		return "257_1024"
	case n <= 1100:
		return "1025_1100"
	case n <= 4096:
		return "1101_4096"
	default:
		return "gt_4096"
	}
}

func oracleAgain(c Again, o *h.Obs) *h.Fail {
	js := make([]string, 0, len(c.Others))
	for _, s := range c.Others {
		js = append(js, fmt.Sprintf("%s/%s/%d/%d/%d", s.Kind, s.Shape, s.N, s.Per, s.Salt))
	}
	o.Key = c.Probe + "\x00" + strings.Join(js, ",")
	for _, tg := range c.Tags {
		o.Class(tg)
	}
	r0 := parseBounded(c.Probe)
	if r0.hung || r0.panic != nil {
		o.Excluded = "input does not parse cleanly alone (judged by the total sub-check)"
		return nil
	}
	first := renderParse(r0)
	if r0.err == nil {
		o.Class("probe_parses")
	} else {
		o.Class("probe_rejected")
	}
	again := func(clause string, when func() string) *h.Fail {
		r := parseBounded(c.Probe)
		if r.hung || r.panic != nil {
			return h.Failf("C15|same-text|"+clause+"|panic-or-hang", "the text parsed cleanly at first; parsed again %s it panics/hangs: %v\ntext: %q", when(), r.panic, c.Probe)
		}
		if got := renderParse(r); got != first {
			kind := "tree"
			if r.err != nil || r0.err != nil {
				kind = "error"
			}
			return h.Failf("C15|same-text|"+clause+"|"+kind, "the same text, parsed again %s, gives another result\ntext: %q\nfirst parse: %s\nthis parse:  %s", when(), c.Probe, first, got)
		}
		return nil
	}
	for i := 0; i < backToBack; i++ {
		if f := again("at-once", func() string { return "at once" }); f != nil {
			return f
		}
	}
	total := 0
	names := 0
	var firstOther, firstOtherDump string
	run := againRuns
	againRuns++
	for i, s := range c.Others {
		s.run = run
		txts := s.texts()
		for _, txt := range txts {
			r := parseBounded(txt)
			if r.hung {
				return h.Failf("C15|hang", "ParseSrc did not return within 20 s for input %q", txt)
			}
			if r.panic != nil {
				return h.Failf("C15|panic|"+normMsg(fmt.Sprint(r.panic)), "ParseSrc panicked: %v\ninput: %q", r.panic, txt)
			}
			if r.err != nil {
				o.Class("other_text_rejected")
			}
			if firstOther == "" && txt != "" {
				firstOther, firstOtherDump = txt, renderParse(r)
			}
		}
		total += s.N
		if s.Kind == "names" {
			names += s.N
		} else if s.Kind == "mixed" {
			names += s.N / 3
		}
		o.Class("other_" + s.Kind)
		o.Class("other_shape_" + s.Shape)
		if f := again("after-other-texts", func() string {
			return fmt.Sprintf("after other texts with %d spellings new to the process (%d group(s), the last one in %d text(s): %s)", total, i+1, len(txts), strings.Join(js[:i+1], ", "))
		}); f != nil {
			return f
		}
	}
	o.Class("new_spellings_between_" + sizeClass(total))
	o.Class("new_names_between_" + sizeClass(names))
	if firstOther != "" {
		// the oldest of the other texts, again: its spellings were new when it was parsed first
		r := parseBounded(firstOther)
		if r.hung || r.panic != nil {
			return h.Failf("C15|same-text|after-other-texts|panic-or-hang", "the text parsed cleanly at first; parsed again after %d more spellings it panics/hangs: %v\ntext: %q", total, r.panic, firstOther)
		}
		if got := renderParse(r); got != firstOtherDump {
			return h.Failf("C15|same-text|after-other-texts|tree", "the same text, parsed again after other texts with up to %d spellings new to the process (%s), gives another result\ntext: %q\nfirst parse: %s\nthis parse:  %s", total, strings.Join(js, ", "), trunc(firstOther, 2000), trunc(firstOtherDump, 3000), trunc(got, 3000))
		}
	}
	o.NonTrivial = r0.err == nil && len(strings.Fields(c.Probe)) >= 3 && total >= 1
	return nil
}

func trunc(s string, n int) string {
	if len(s) <= n {
		return s
	}
	return s[:n] + "..."
}

// ---------- literals under concurrent calls ----------

// LitBatch: G texts of Per distinct literal spellings each (no spelling in two texts), parsed by G goroutines
// for Rounds rounds; in round r goroutine g parses text (g+r) mod G, so that at any moment the goroutines are
// in different texts.
type LitBatch struct {
	Salt   uint64 `json:"salt"`
	G      int    `json:"g"`
	Per    int    `json:"per"`
	Rounds int    `json:"rounds"`
	Kind   string `json:"kind"`  // numbers | decimal | mixed
	Shape  string `json:"shape"` // array | assign | map | sum | call
}

func (c LitBatch) texts() []string {
	out := make([]string, c.G)
	for g := range out {
		sp := make([]string, c.Per)
		for i := range sp {
			k := g*c.Per + i
			switch {
			case c.Kind == "decimal":
				sp[i] = strconv.FormatUint(c.Salt%100000+uint64(k), 10)
			case c.Kind == "mixed" && k%4 == 3:
				sp[i] = "\"s" + strconv.Itoa(k) + "\""
			default:
				sp[i] = numberSpelling(c.Salt, k)
			}
			if k%5 == 4 && sp[i][0] != '"' {
				sp[i] = "-" + sp[i] // the grammar folds the sign into the literal
			}
		}
		var b strings.Builder
		switch c.Shape {
		case "assign":
			for i, w := range sp {
				fmt.Fprintf(&b, "v%d_%d = %s\n", g, i, w)
			}
		case "map":
			b.WriteString("m = {")
			for i, w := range sp {
				if i > 0 {
					b.WriteString(", ")
				}
				fmt.Fprintf(&b, "\"k%d_%d\": %s", g, i, w)
			}
			b.WriteString("}\n")
		case "sum":
			for i := 0; i < len(sp); i += 8 {
				b.WriteString("x = " + strings.Join(sp[i:min(i+8, len(sp))], " + ") + "\n")
			}
		case "call":
			b.WriteString("f(" + strings.Join(sp, ",\n") + ")\n")
		default:
			b.WriteString("[" + strings.Join(sp, ", ") + "]\n")
		}
		out[g] = b.String()
	}
	return out
}

func genLitBatch(t *rapid.T) LitBatch {
	return LitBatch{
		Salt:   mix64(rapid.Uint64().Draw(t, "salt")),
		G:      rapid.SampledFrom([]int{2, 4, 8, 16, 16, 16}).Draw(t, "goroutines"),
		Per:    rapid.SampledFrom([]int{64, 200, 256, 300, 512, 512}).Draw(t, "pertext"),
		Rounds: rapid.IntRange(8, 24).Draw(t, "rounds"),
		Kind:   []string{"numbers", "numbers", "decimal", "mixed"}[mix64(rapid.Uint64().Draw(t, "kind"))%4],
		Shape:  []string{"array", "array", "assign", "map", "sum", "call"}[mix64(rapid.Uint64().Draw(t, "shape"))%6],
	}
}

func oracleLiterals(c LitBatch, o *h.Obs) *h.Fail {
	if c.G < 1 || c.Per < 1 || c.G > 64 || c.Per > 4096 || c.Rounds > 1000 {
		o.Excluded = "outside the generated sizes"
		return nil
	}
	o.Key = fmt.Sprintf("%d/%d/%d/%d/%s/%s", c.Salt, c.G, c.Per, c.Rounds, c.Kind, c.Shape)
	o.NonTrivial = c.G >= 2 && c.Rounds >= 2
	o.Class("literals_kind_" + c.Kind)
	o.Class("literals_shape_" + c.Shape)
	o.Class(fmt.Sprintf("literals_goroutines_%d", c.G))
	o.Class("literals_distinct_spellings_" + sizeClass(c.G*c.Per))
	srcs := c.texts()
	solo := make([]string, len(srcs))
	for i, s := range srcs {
		r := parseBounded(s)
		if r.hung || r.panic != nil {
			return h.Failf("C15|concurrent-literals|panic-or-hang", "ParseSrc panicked or hung: %v\ninput: %q", r.panic, s)
		}
		if r.err != nil {
			o.Excluded = "generator produced unparseable text (harness problem): " + errString(r.err)
			return nil
		}
		solo[i] = dump.Dump(r.stmt, dump.Opts{Positions: true})
	}
	// once more alone, one after the other: a difference here is memory between calls, whoever calls
	for i, s := range srcs {
		r := parseBounded(s)
		if r.hung || r.panic != nil {
			return h.Failf("C15|concurrent-literals|panic-or-hang", "ParseSrc panicked or hung: %v\ninput: %q", r.panic, s)
		}
		if got := renderParse(r); got != solo[i] {
			return h.Failf("C15|same-text|after-other-texts|tree", "%d texts of %d distinct literals each are parsed one after the other, twice (one goroutine); a text gives another tree the second time\n%s\ninput: %q", c.G, c.Per, strings.Replace(firstDifference(solo[i], got), "concurrent: ", "again:      ", 1), trunc(s, 1500))
		}
	}
	type diff struct {
		text       int
		got, panic string
	}
	bad := make([]*diff, c.G)
	start := make(chan struct{})
	var wg sync.WaitGroup
	for g := 0; g < c.G; g++ {
		wg.Add(1)
		go func(g int) {
			defer wg.Done()
			i := g
			defer func() {
				if p := recover(); p != nil {
					bad[g] = &diff{text: i, panic: fmt.Sprint(p)}
				}
			}()
			<-start
			for r := 0; r < c.Rounds; r++ {
				i = (g + r) % c.G
				st, err := parser.ParseSrc(srcs[i])
				s := ""
				if err != nil {
					s = "error " + errString(err)
				} else {
					s = dump.Dump(st, dump.Opts{Positions: true})
				}
				if s != solo[i] {
					bad[g] = &diff{text: i, got: s}
					return
				}
			}
		}(g)
	}
	close(start)
	wg.Wait()
	for g, d := range bad {
		if d == nil {
			continue
		}
		if d.panic != "" {
			f := h.Failf("C15|concurrent-literals|panic", "goroutine %d: ParseSrc panicked while %d goroutines parsed %d different texts: %s\ninput: %q", g, c.G, c.G, d.panic, srcs[d.text])
			f.NoShrink = true
			return f
		}
		f := h.Failf("C15|concurrent-literals|tree-differs", "%d goroutines parse %d different texts of %d distinct literals each; goroutine %d got a tree for its text that is not the tree the text gives alone\n%s\ninput: %q", c.G, c.G, c.Per, g, firstDifference(solo[d.text], d.got), trunc(srcs[d.text], 1500))
		// which call sees another call's literal depends on the schedule: shrinking would only re-run the race
		f.NoShrink = true
		return f
	}
	// afterwards, alone again: nothing of the concurrent calls may have stayed behind
	for i, s := range srcs {
		r := parseBounded(s)
		if r.hung || r.panic != nil {
			return h.Failf("C15|concurrent-literals|panic-or-hang", "ParseSrc panicked or hung: %v\ninput: %q", r.panic, s)
		}
		if got := renderParse(r); got != solo[i] {
			f := h.Failf("C15|concurrent-literals|tree-differs-afterwards", "after %d goroutines have parsed %d different texts of %d distinct literals each, a text parsed alone no longer gives the tree it gave alone before\n%s\ninput: %q", c.G, c.G, c.Per, firstDifference(solo[i], got), trunc(s, 1500))
			f.NoShrink = true
			return f
		}
	}
	return nil
}

// firstDifference shows where two dumps part.
func firstDifference(want, got string) string {
	i := 0
	for i < len(want) && i < len(got) && want[i] == got[i] {
		i++
	}
	from := max(i-120, 0)
	return fmt.Sprintf("alone:      ...%s\nconcurrent: ...%s", trunc(want[from:], 300), trunc(got[from:], 300))
}
