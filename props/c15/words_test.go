// C15, sub-check "words": the compositional clause over texts whose identifiers look like keywords.
//
// The identifier pools of the program generators are short plain names (i, x, fn, mod ...). A lexer decides
// "keyword or identifier" word by word, and every shortcut it may take (looking at the first letters only,
// comparing without regard to case, looking ahead over a line break for a particular word) shows on
// identifiers that have a keyword as a proper prefix or suffix (elsewhere, iffy, format, returned, inner,
// nilx, xif, Else, elseif ...) - above all where such a word is the first token of a line that follows a
// complete statement, which is exactly the place where two texts are joined. This file generates them.
package c15

import (
	"fmt"
	"strings"
	"unicode"

	"github.com/mattn/anko/ast"
	"github.com/mattn/anko/parser"
	"pgregory.net/rapid"

	"verif/internal/dump"
	"verif/internal/h"
)

// Words is a list of 2-4 texts that are joined with newlines one after the other.
type Words struct {
	Parts []string `json:"parts"`
	// Tags: class labels of the generated shapes (evidence counters only)
	Tags []string `json:"tags,omitempty"`
}

// the words of the language (parser/lexer.go, opName)
var keywords = []string{
	"func", "return", "var", "throw", "if", "for", "break", "continue", "in", "else", "new", "true", "false", "nil", "module", "try", "catch", "finally",
	"switch", "case", "default", "go", "defer", "chan", "struct", "make", "type", "len", "delete", "close", "map", "import",
}

var isKeyword = func() map[string]bool {
	m := map[string]bool{}
	for _, k := range keywords {
		m[k] = true
	}
	return m
}()

// words that are keywords of other languages and plain identifiers here
var foreignKeywords = []string{"range", "select", "const", "goto", "package", "while", "elif", "elsif", "elseif", "then", "end", "do", "function", "let", "null", "None", "not", "and", "or", "is", "until", "unless", "def", "class", "fn", "match", "when", "yield", "async", "await", "except", "raise", "pass", "with", "fallthrough", "interface", "int", "string", "print"}

type wordGen struct {
	t    *rapid.T
	tags map[string]bool
}

func (g *wordGen) keyword(label string) string {
	return keywords[mix64(rapid.Uint64().Draw(g.t, label))%uint64(len(keywords))]
}

// word draws an identifier that resembles a keyword, by class.
func (g *wordGen) word() string {
	t := g.t
	k := g.keyword("kw")
	var w, cl string
	switch rapid.IntRange(0, 11).Draw(t, "wordform") {
	case 0, 1, 2, 3, 4, 5:
		w = k + rapid.SampledFrom([]string{"where", "x", "s", "y", "If", "X", "_", "_count", "_1", "1", "0", "42", "é", "日本", "ed", "r", "ing", "__"}).Draw(t, "suffix")
		cl = "keyword_prefix"
	case 6:
		w = k + g.keyword("kw2")
		cl = "keyword_keyword"
	case 7, 8:
		w = rapid.SampledFrom([]string{"x", "_", "un", "é", "s", "my_", "X", "__", "a1"}).Draw(t, "prefix") + k
		cl = "keyword_suffix"
	case 9:
		switch rapid.IntRange(0, 2).Draw(t, "caseform") {
		case 0:
			w = strings.ToUpper(k[:1]) + k[1:]
		case 1:
			w = strings.ToUpper(k)
		default:
			at := rapid.IntRange(0, len(k)-1).Draw(t, "caseat")
			w = k[:at] + strings.ToUpper(k[at:at+1]) + k[at+1:]
		}
		cl = "keyword_other_case"
	case 10:
		w = rapid.SampledFrom(foreignKeywords).Draw(t, "foreignkw")
		cl = "foreign_keyword"
	default:
		// a keyword cut short or with a letter doubled: no keyword any more
		if at := rapid.IntRange(1, len(k)).Draw(t, "cutat"); rapid.Bool().Draw(t, "cut") && at < len(k) {
			w = k[:at]
		} else {
			w = k[:at] + k[at-1:]
		}
		cl = "keyword_cut_or_doubled"
	}
	if isKeyword[w] {
		w += "_"
	}
	g.tags["word_"+cl] = true
	return w
}

// statements with slots ('$') for identifiers. The first list starts with a slot.
var wordFirst = []string{
	"$ = 1", "$ = 1", "$ = $", "$++", "$--", "$ += 1", "$($)", "$()", "$.b = 1", "$.$ = $", "$[0] = 1", "$[$]", "$, $ = 1, 2", "$", "$", "$ <- 1", "$ = <- $",
	"$ = func($) { return $ }", "$ = [$, $]", "$ = {\"k\": $}", "$ = $ ? $ : $", "$ = $ + $ * 2", "$ = \"s\"", "$.$($)", "$ = $.$", "$ = new($)", "$ = make([]$, 1)",
	"$ = $ == nil", "$ = !$", "$ = -$", "$ = $[1:2]", "$ = len($)", "$ = []${1}", "$ = map[$]${}", "$ = $ ?? 1", "$ = $ && $ || $", "$(1)\n$(2)", "$ = 1; $ = 2", "$ = 1\n$ = 2",
}

var wordInside = []string{
	"var $ = 1", "var $, $ = 1, 2", "return $", "throw $", "if $ { $ = 1 }", "if $ {\n\t$ = 1\n}", "if $ {\n\t$ = 1\n} else {\n\t$ = 2\n}", "if $ { } else if $ { }",
	"if $ {\n\t$ = 1\n\t$ = 2\n}", "for $ in $ { $ }", "for $ = 0; $ < 1; $++ { }", "for {\n\t$++\n\tbreak\n}", "for $, $ in $ {\n\t$ = $\n}", "func $($, $) {\n\treturn $\n}", "func $($...) { }",
	"func($) {\n\t$ = 1\n\t$ = 2\n}", "module $ {\n\t$ = 1\n}", "module $ {\n\t$ = 1\n\tfunc $() { return $ }\n}", "switch $ {\ncase $:\n\t$ = 1\ndefault:\n\t$ = 2\n}", "switch $ {\ncase $, $:\n\t$\n\t$\n}",
	"try {\n\t$ = 1\n} catch $ {\n\t$\n} finally {\n\t$\n}", "try {\n\t$\n\t$\n} catch {\n}", "go $()", "defer $($)", "delete($, $)", "close($)", "x = $", "x.$ = 1", "x.$.$()", "-$", "!$", "($)", "[$]", "*$ = 1", "&$", "<- $",
	"\"s\" + $", "1 + $", "x = {\n\t\"k\": $,\n}", "x = [\n\t$,\n\t$,\n]", "x = f($,\n\t$)", "x = make(chan $)", "x = make(map[$]$)", "x = new($.$)", "make(type $, 1)", "x = make(struct{\n$ int64,\n$ string\n})",
}

func (g *wordGen) fill(tpl string) string {
	var b strings.Builder
	for i := 0; i < len(tpl); i++ {
		if tpl[i] != '$' {
			b.WriteByte(tpl[i])
			continue
		}
		if i > 0 && rapid.IntRange(0, 3).Draw(g.t, "plainslot") == 0 {
			b.WriteString(rapid.SampledFrom([]string{"a", "x", "v1"}).Draw(g.t, "plainname"))
		} else {
			b.WriteString(g.word())
		}
	}
	return b.String()
}

func pickEq[T any](t *rapid.T, xs []T, label string) T {
	return xs[mix64(rapid.Uint64().Draw(t, label))%uint64(len(xs))]
}

// names the program generator writes (internal/wild), in a fixed order
var wildNames = []string{"i", "j", "f", "s", "b", "n", "l", "m", "tl", "ts", "tm", "im", "pl", "il", "ll", "p", "ps", "st", "si", "ty", "ch", "uc", "fn", "f0", "f5", "fv", "mod", "x", "y", "zz",
	"id", "keys", "typeOf", "toInt", "toString", "boom", "int64", "string", "float64", "bool", "int", "byte", "rune", "uint64", "float32", "nosuchtype", "A", "B", "C", "g", "a", "Len", "g1", "e", "rs", "xc", "yc", "rf"}

// renameIdents replaces identifiers of a text (outside quoted and raw strings, comments and numerals).
func renameIdents(src string, m map[string]string) string {
	r := []rune(src)
	var b strings.Builder
	isL := func(c rune) bool { return unicode.IsLetter(c) || c == '_' }
	isD := func(c rune) bool { return c >= '0' && c <= '9' }
	for i := 0; i < len(r); {
		c := r[i]
		switch {
		case c == '"' || c == '\'':
			j := i + 1
			for j < len(r) && r[j] != c {
				if r[j] == '\\' {
					j++
				}
				j++
			}
			j = min(j+1, len(r))
			b.WriteString(string(r[i:j]))
			i = j
		case c == '`':
			j := i + 1
			for j < len(r) && r[j] != '`' {
				j++
			}
			j = min(j+1, len(r))
			b.WriteString(string(r[i:j]))
			i = j
		case c == '#' || (c == '/' && i+1 < len(r) && r[i+1] == '/'):
			j := i
			for j < len(r) && r[j] != '\n' {
				j++
			}
			b.WriteString(string(r[i:j]))
			i = j
		case c == '/' && i+1 < len(r) && r[i+1] == '*':
			j := i + 2
			for j < len(r) && !(r[j] == '*' && j+1 < len(r) && r[j+1] == '/') {
				j++
			}
			j = min(j+2, len(r))
			b.WriteString(string(r[i:j]))
			i = j
		case isD(c):
			j := i
			for j < len(r) && (isD(r[j]) || isL(r[j]) || r[j] == '.') {
				j++
			}
			b.WriteString(string(r[i:j]))
			i = j
		case isL(c):
			j := i
			for j < len(r) && (isD(r[j]) || isL(r[j])) {
				j++
			}
			id := string(r[i:j])
			if to, ok := m[id]; ok {
				id = to
			}
			b.WriteString(id)
			i = j
		default:
			b.WriteRune(c)
			i++
		}
	}
	return b.String()
}

func (g *wordGen) renamed(label string) string {
	src, _ := genValidE(g.t, label)
	m := map[string]string{}
	for _, n := range wildNames {
		if rapid.IntRange(0, 2).Draw(g.t, "rename") == 0 {
			m[n] = g.word()
		}
	}
	return renameIdents(src, m)
}

func (g *wordGen) part(k int) string {
	t := g.t
	var body string
	switch rapid.IntRange(0, 11).Draw(t, "partform") {
	case 0, 1, 2, 3:
		body = g.fill(pickEq(t, wordFirst, "tplfirst"))
		g.tags["part_statement_starting_with_word"] = true
	case 4, 5:
		body = g.fill(pickEq(t, wordInside, "tplinside"))
		g.tags["part_statement_with_words_inside"] = true
	case 6:
		// a statement from the list that covers every kind of last token, then a line that starts with a word
		ls := pickEq(t, lastStatements, "last")
		body = ls.src + rapid.SampledFrom([]string{"\n", "\n", "\n\n", "\n\t", "\n  ", "\r\n", ";\n", " # c\n", " /* c */\n"}).Draw(t, "linesep") + g.fill(pickEq(t, wordFirst, "tplfirst"))
		g.tags["part_word_line_after_"+ls.class] = true
	case 7:
		// and the other way round
		ls := pickEq(t, lastStatements, "last")
		body = g.fill(pickEq(t, wordFirst, "tplfirst")) + rapid.SampledFrom([]string{"\n", "\n", "\n\n", "; ", ";\n"}).Draw(t, "linesep") + ls.src
		g.tags["part_statement_starting_with_word"] = true
	case 8, 9:
		body = g.renamed(fmt.Sprintf("ren%d", k))
		g.tags["part_generated_program_renamed"] = true
		return body
	default:
		body, _ = genValidE(t, fmt.Sprintf("plain%d", k))
		g.tags["part_generated_program"] = true
		return body
	}
	lead := rapid.SampledFrom([]string{"", "", "", "", "\t", "  ", "\n", "\n\t", "\r", "\n\n  ", "/* c */ ", "# c\n", ";", "; "}).Draw(t, "lead")
	trail := rapid.SampledFrom([]string{"", "", "", "", ";", " ", "\t", " # c", " // c", " /* c */", "\n", "\n\n", "\r", ";\n"}).Draw(t, "trail")
	if lead != "" {
		g.tags["part_lead_"+map[bool]string{true: "newline", false: "blank_or_other"}[strings.Contains(lead, "\n")]] = true
	}
	if trail != "" {
		g.tags["part_trail"] = true
	}
	return lead + body + trail
}

func genWords(t *rapid.T) Words {
	g := &wordGen{t: t, tags: map[string]bool{}}
	n := [...]int{2, 2, 2, 3, 3, 4}[rapid.IntRange(0, 5).Draw(t, "nparts")]
	var w Words
	for k := 0; k < n; k++ {
		w.Parts = append(w.Parts, g.part(k))
	}
	for _, tg := range sortedKeys(g.tags) {
		w.Tags = append(w.Tags, tg)
	}
	return w
}

func sortedKeys(m map[string]bool) []string {
	ks := make([]string, 0, len(m))
	for k := range m {
		ks = append(ks, k)
	}
	for i := 1; i < len(ks); i++ {
		for j := i; j > 0 && ks[j] < ks[j-1]; j-- {
			ks[j], ks[j-1] = ks[j-1], ks[j]
		}
	}
	return ks
}

// totalVerdict: the first sentence of the statement for one parse (the judgement of oracleTotal).
func totalVerdict(src string, r parseResult) *h.Fail {
	if r.hung {
		f := h.Failf("C15|hang", "ParseSrc did not return within 20 s for input %q", src)
		f.NoShrink = true
		return f
	}
	if r.panic != nil {
		return h.Failf("C15|panic|"+normMsg(fmt.Sprint(r.panic)), "ParseSrc panicked: %v\ninput: %q", r.panic, src)
	}
	if r.err == nil {
		return nil
	}
	pe, ok := r.err.(*parser.Error)
	if !ok {
		return h.Failf("C15|error-type|"+fmt.Sprintf("%T", r.err), "ParseSrc returned an error of type %T (%v), want *parser.Error\ninput: %q", r.err, r.err, src)
	}
	nlines, runes := lineInfo(src)
	if pe.Pos.Line < 1 || pe.Pos.Line > nlines {
		return h.Failf("C15|error-line-out-of-range", "error %q at line %d, input has %d line(s)\ninput: %q", pe.Message, pe.Pos.Line, nlines, src)
	}
	if pe.Pos.Column < 1 || pe.Pos.Column > runes(pe.Pos.Line)+1 {
		return h.Failf("C15|error-column-out-of-range", "error %q at %d:%d, that line has %d rune(s)\ninput: %q", pe.Message, pe.Pos.Line, pe.Pos.Column, runes(pe.Pos.Line), src)
	}
	return nil
}

// lineStartWords: for every line but the first, the keyword that is a proper prefix of the line's first
// word (the longest one), if the line starts with an identifier.
func lineStartWords(src string) (prefixed []string, other int) {
	lines := strings.Split(src, "\n")
	for _, ln := range lines[1:] {
		ln = strings.TrimLeft(ln, " \t\r")
		end := 0
		for i, c := range ln {
			if !(unicode.IsLetter(c) || c == '_' || (i > 0 && c >= '0' && c <= '9')) {
				break
			}
			end = i + len(string(c))
		}
		w := ln[:end]
		if w == "" || isKeyword[w] {
			continue
		}
		best := ""
		for _, k := range keywords {
			if strings.HasPrefix(w, k) && len(k) > len(best) {
				best = k
			}
		}
		if best != "" {
			prefixed = append(prefixed, best)
		} else {
			other++
		}
	}
	return
}

// oracleWords: the parts are joined one after the other; at every step the text so far (A) and the next
// part (B) each parse on their own, so A+"\n"+B has to parse to A's statements followed by B's, B's nodes
// shifted by A's line count.
func oracleWords(c Words, o *h.Obs) *h.Fail {
	o.Key = strings.Join(c.Parts, "\x00")
	for _, tg := range c.Tags {
		o.Class(tg)
	}
	if len(c.Parts) < 2 {
		o.Excluded = "fewer than two parts"
		return nil
	}
	o.Class(fmt.Sprintf("parts_%d", len(c.Parts)))
	type parsed struct {
		stmts []ast.Stmt
	}
	parseOwn := func(src string) (*parsed, *h.Fail, string) {
		r := parseBounded(src)
		if f := totalVerdict(src, r); f != nil {
			return nil, f, ""
		}
		if r.err != nil {
			return nil, nil, "a part is rejected on its own: " + normMsg(errString(r.err))
		}
		ss, ok := stmtsOf(r.stmt)
		if !ok {
			return nil, nil, "ParseSrc returned a non-list root"
		}
		return &parsed{ss}, nil, ""
	}
	a := c.Parts[0]
	pa, f, ex := parseOwn(a)
	if f != nil {
		return f
	}
	if ex != "" {
		o.Excluded = ex
		return nil
	}
	nontrivial := true
	for k := 1; k < len(c.Parts); k++ {
		b := c.Parts[k]
		pb, f, ex := parseOwn(b)
		if f != nil {
			return f
		}
		if ex != "" {
			o.Excluded = ex
			return nil
		}
		joined := a + "\n" + b
		rj := parseBounded(joined)
		if f := totalVerdict(joined, rj); f != nil {
			return f
		}
		if rj.err != nil {
			return h.Failf("C15|compose|joined-rejected", "A and B each parse, their concatenation is rejected: %s\nA: %q\nB: %q", errString(rj.err), a, b)
		}
		sj, ok := stmtsOf(rj.stmt)
		if !ok {
			o.Excluded = "ParseSrc returned a non-list root"
			return nil
		}
		shift := strings.Count(a, "\n") + 1
		var want []string
		for _, s := range pa.stmts {
			want = append(want, dump.Dump(s, dump.Opts{Positions: true}))
		}
		for _, s := range pb.stmts {
			want = append(want, dump.Dump(s, dump.Opts{Positions: true, LineShift: shift}))
		}
		if len(pa.stmts) == 0 || len(pb.stmts) == 0 {
			nontrivial = false
		}
		if len(sj) != len(want) {
			return h.Failf("C15|compose|statement-count", "parse(A) has %d statements, parse(B) %d, parse(A+\\n+B) %d\nA: %q\nB: %q", len(pa.stmts), len(pb.stmts), len(sj), a, b)
		}
		for i, s := range sj {
			got := dump.Dump(s, dump.Opts{Positions: true})
			if got != want[i] {
				clause := "structure"
				if dump.Dump(s, dump.Opts{}) == stripPos(pa.stmts, pb.stmts, i) {
					clause = "positions"
				}
				return h.Failf("C15|compose|"+clause, "statement %d of parse(A+\\n+B) differs from the corresponding statement of A / shifted B\nA: %q\nB: %q\ngot:  %s\nwant: %s", i, a, b, got, want[i])
			}
		}
		a, pa = joined, &parsed{sj}
	}
	o.NonTrivial = nontrivial
	prefixed, other := lineStartWords(a)
	if len(prefixed) > 0 {
		o.Class("line_starts_with_keyword_prefixed_word")
		seen := map[string]bool{}
		for _, k := range prefixed {
			if !seen[k] {
				seen[k] = true
				o.Class("line_starts_with_prefix_" + k)
			}
		}
	}
	if other > 0 {
		o.Class("line_starts_with_other_identifier")
	}
	return nil
}
