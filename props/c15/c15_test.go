// C15 — parsing is total, position-accurate and compositional.
package c15

import (
	"fmt"
	"strings"
	"sync"
	"testing"
	"time"
	"unicode/utf8"

	"github.com/mattn/anko/ast"
	"github.com/mattn/anko/parser"
	"pgregory.net/rapid"

	"verif/internal/dump"
	"verif/internal/h"
	"verif/internal/wild"
)

// ---------- totality ----------

type Input struct {
	Kind string `json:"kind"`
	Src  string `json:"src"`
	// Tags: class labels of the generated shape (evidence counters only, never read by the oracle's verdict)
	Tags []string `json:"tags,omitempty"`
}

var vocab = []string{
	"func", "return", "var", "throw", "if", "for", "break", "continue", "in", "else", "new", "true", "false", "nil", "module", "try", "catch", "finally",
	"switch", "case", "default", "go", "defer", "chan", "struct", "make", "type", "len", "delete", "close", "map", "import",
	"a", "b", "_x", "日本", "x1", "0", "1", "42", "1.5", "1e3", "0x", "0x1F", "0b", "0b101", "1e", "1e+", "9223372036854775808", "1..2", "007",
	"\"s\"", "'s'", "`r`", "\"", "'", "`", "\"unterminated", "`unterminated\n", "\"a\\", "'\\n'",
	"+", "-", "*", "/", "%", "&", "|", "^", "!", "<", ">", "=", "==", "!=", "<=", ">=", "&&", "||", "++", "--", "+=", "-=", "*=", "/=", "&=", "|=", "<<", ">>",
	"<-", "= <-", "?", "??", ":", ";", ",", ".", "...", "(", ")", "[", "]", "{", "}", "\n", "\n\n", " ", "\t", "\r\n",
	"#c\n", "# unterminated", "//c\n", "/*c*/", "/* unterminated", "/*\n*/", "\x00", "\xff", "\xc3", "é", "@", "$", "~", "\\",
}

// runes that may follow a backslash (or stand anywhere) in a quoted string: every ASCII code with
// equal weight, and the boundaries of the UTF-8 encoding lengths
func genStringRune(t *rapid.T) rune {
	switch rapid.IntRange(0, 9).Draw(t, "runeclass") {
	case 0, 1, 2, 3, 4, 5:
		return rune(rapid.IntRange(0, 127).Draw(t, "ascii"))
	case 6, 7:
		return rapid.SampledFrom([]rune{0x80, 0xFF, 0x100, 0x7FF, 0x800, 0xFFFD, 0xFFFF, 0x10000, 0x10FFFF, 0xD7FF, 0xE000}).Draw(t, "edge")
	default:
		return rune(rapid.IntRange(0, 0x10FFFF).Draw(t, "any"))
	}
}

// ---------- type expressions ----------

// typeGen writes type expressions as the grammar reads them: prefixes ('*', '[]', 'chan', 'map[K]'), then a
// primary (a name or a struct literal), then member selectors, which bind to the primary. Every part is
// drawn independently, so selectors are applied to struct literals as often as to names and the result is
// wrapped by prefixes and by the enclosing make/new/composite-literal forms in every combination - also the
// combinations an action of the grammar rejects.
type typeGen struct {
	t    *rapid.T
	tags map[string]bool
}

var typePrimNames = []string{"int64", "string", "float64", "bool", "interface", "T", "a", "x", "mod"}

func (g *typeGen) typ(d int) string {
	t := g.t
	var b strings.Builder
	npre := rapid.IntRange(0, 2).Draw(t, "npre")
	if d >= 2 && npre > 1 {
		npre = 1
	}
	for i := 0; i < npre; i++ {
		switch rapid.IntRange(0, 4).Draw(t, "pre") {
		case 0:
			b.WriteString("*")
		case 1:
			b.WriteString(strings.Repeat("[]", rapid.IntRange(1, 2).Draw(t, "dims")))
		case 2:
			b.WriteString("chan ")
		case 3:
			if d < 2 {
				b.WriteString("map[" + g.typ(d+1) + "]")
			} else {
				b.WriteString("map[string]")
			}
		default:
			b.WriteString("[]")
		}
	}
	isStruct := false
	switch k := rapid.IntRange(0, 11).Draw(t, "prim"); {
	case k >= 8 && k <= 10 && d < 3:
		isStruct = true
		nl := rapid.SampledFrom([]string{"", "", "\n"}).Draw(t, "structnl")
		b.WriteString("struct{" + nl)
		for i, n := 0, rapid.IntRange(1, 3).Draw(t, "nfields"); i < n; i++ {
			if i > 0 {
				b.WriteString(rapid.SampledFrom([]string{", ", ",", ",\n"}).Draw(t, "fieldsep"))
			}
			b.WriteString(rapid.SampledFrom([]string{"A", "B", "a", "b"}).Draw(t, "field") + " " + g.typ(d+1))
		}
		b.WriteString(nl + "}")
	case k == 11:
		// fragments that are no type at all
		g.tags["type_broken_primary"] = true
		b.WriteString(rapid.SampledFrom([]string{"struct{}", "struct{a}", "struct{a int64,}", "struct{,}", "", "1", "(int64)", "func", "map[]int64", "map[string]", "[1]int64", "type", "type T", "nil", "\"s\"", "struct", "struct{a int64", "a b"}).Draw(t, "broken"))
	default:
		b.WriteString(rapid.SampledFrom(typePrimNames).Draw(t, "tname"))
	}
	nsel := [...]int{0, 0, 0, 0, 0, 1, 1, 1, 2, 3}[rapid.IntRange(0, 9).Draw(t, "nsel")]
	for i := 0; i < nsel; i++ {
		b.WriteString("." + rapid.SampledFrom([]string{"b", "T", "int64", "x"}).Draw(t, "sel"))
	}
	if nsel > 0 {
		if isStruct {
			g.tags["type_selector_on_struct_literal"] = true
			if npre > 0 || nsel > 1 {
				g.tags["type_selector_on_struct_literal_wrapped_again"] = true
			}
		} else {
			g.tags["type_selector_on_name"] = true
		}
	}
	if isStruct && npre > 0 {
		g.tags["type_prefixed_struct_literal"] = true
	}
	return b.String()
}

func genTypeExprInput(t *rapid.T) Input {
	g := &typeGen{t: t, tags: map[string]bool{}}
	ty := g.typ(0)
	e := func() string {
		return rapid.SampledFrom([]string{"1", "n", "0", "2 + 1", "len(a)"}).Draw(t, "sizeexpr")
	}
	var use string
	switch rapid.IntRange(0, 8).Draw(t, "typectx") {
	case 0, 1:
		use = "new(" + ty + ")"
		g.tags["typectx_new"] = true
	case 2:
		use = "make(" + ty + ")"
		g.tags["typectx_make"] = true
	case 3:
		use = "make(" + ty + ", " + e() + ")"
		g.tags["typectx_make"] = true
	case 4:
		use = "make(" + ty + ", " + e() + ", " + e() + ")"
		g.tags["typectx_make"] = true
	case 5:
		use = strings.Repeat("[]", rapid.IntRange(1, 2).Draw(t, "litdims")) + ty + "{" + rapid.SampledFrom([]string{"", "1", "1, 2", "\n1,\n"}).Draw(t, "elems") + "}"
		g.tags["typectx_slice_literal"] = true
	case 6:
		use = "map[" + ty + "]" + g.typ(1) + "{" + rapid.SampledFrom([]string{"", "\"a\": 1", "\n1: 2,\n"}).Draw(t, "pairs") + "}"
		g.tags["typectx_map_literal"] = true
	case 7:
		use = "map[" + g.typ(1) + "]" + ty + "{}"
		g.tags["typectx_map_literal"] = true
	default:
		use = "make(type " + rapid.SampledFrom([]string{"T", "x"}).Draw(t, "tdef") + ", " + "make(" + ty + "))"
		g.tags["typectx_make_type"] = true
	}
	if _, ok := g.tags["type_selector_on_struct_literal"]; ok && strings.HasPrefix(use, "new(") {
		g.tags["type_selector_on_struct_literal_wrapped_again"] = true
	}
	src := rapid.SampledFrom([]string{"", "", "v = ", "var v = ", "y = 1\nv = ", "return ", "f(", "if a {\n\tv = "}).Draw(t, "typepre") + use
	switch {
	case strings.HasPrefix(src, "f("):
		src += ")"
	case strings.HasPrefix(src, "if a {"):
		src += "\n}"
	}
	src += rapid.SampledFrom([]string{"", "", "\n", "\nz = 2", ".b", "[0]"}).Draw(t, "typepost")
	in := Input{Kind: "type-expr", Src: src}
	for _, k := range []string{"type_selector_on_name", "type_selector_on_struct_literal", "type_selector_on_struct_literal_wrapped_again", "type_prefixed_struct_literal", "type_broken_primary",
		"typectx_new", "typectx_make", "typectx_slice_literal", "typectx_map_literal", "typectx_make_type"} {
		if g.tags[k] {
			in.Tags = append(in.Tags, k)
		}
	}
	return in
}

// ---------- runes that are not of the language ----------

// foreignRune draws a rune that starts no token of the language, by class. One class needs a word: the
// generated parser numbers the grammar's named tokens from U+E000 upwards (the start of the private use
// area) and takes single characters as tokens by their code point, so the first code points of that area
// are the runes a parser could mistake for one of its own tokens (keywords, two-character operators, ...).
// All 128 of them are drawn with equal weight.
func foreignRune(t *rapid.T) (rune, string) {
	switch rapid.IntRange(0, 11).Draw(t, "frclass") {
	case 0, 1, 2, 3, 4:
		return rune(0xE000 + mix64(rapid.Uint64().Draw(t, "alias"))%128), "token_number_range"
	case 5:
		switch rapid.IntRange(0, 2).Draw(t, "puaplane") {
		case 0:
			return rune(rapid.IntRange(0xE080, 0xF8FF).Draw(t, "pua")), "private_use"
		case 1:
			return rune(rapid.IntRange(0xF0000, 0xFFFFD).Draw(t, "pua15")), "private_use"
		default:
			return rune(rapid.IntRange(0x100000, 0x10FFFD).Draw(t, "pua16")), "private_use"
		}
	case 6:
		return rapid.SampledFrom([]rune{'@', '$', '~', '\\', 0x7f, 1, 2, 7, 8, 0x0b, 0x0c, 0x0e, 0x1b, 0x1f}).Draw(t, "asciinl"), "ascii_not_of_the_language"
	case 7:
		return rapid.SampledFrom([]rune{0x85, 0xA0, 0x2028, 0x2029, 0x3000, 0xFEFF, 0x200B, 0x200E, 0x1680, 0x2003}).Draw(t, "spacelike"), "space_like"
	case 8:
		return rapid.SampledFrom([]rune{'×', '÷', '≤', '≠', '“', '”', '‘', '’', '«', '€', '٣', '１', '½', '²', '；', '（', '）', '，', '＋', '｛', 0x301, 0x20DD, '§', '¬', '°', '←'}).Draw(t, "symbol"), "symbol_or_mark"
	case 9:
		return rapid.SampledFrom([]rune{0xFFFE, 0xFFFF, 0xFFFD, 0x10FFFF, 0x1FFFE, 0xFDD0, 0xD7FF, 0xFFFC, 0x10000, 0xEFFFF, 0x80, 0xFF, 0x100, 0x7FF, 0x800}).Draw(t, "nonchar"), "noncharacter_or_boundary"
	default:
		return rune(rapid.IntRange(0x80, 0x10FFFF).Draw(t, "anyrune")), "any_rune"
	}
}

var foreignBases = []string{
	"a", "a = b", "a = 1", "f(a)", "f(a, b)", "x[1]", "a.b", "(a)", "[1, 2]", "{\"k\": 1}", "a + b", "a, b = 1, 2", "var a = 1", "return a", "throw a",
	"if a {\n\tb\n}", "for i in l {\n\tb = i\n}", "func f(a) {\n\treturn a\n}", "switch a {\ncase 1:\n\tb\n}", "try {\n\ta\n} catch e {\n\tb\n}",
	"a = func(x) { return x }", "c <- 1", "v = <- c", "go f()", "make([]int64, 1)", "new(int64)", "a ? b : c", "a[1:2]", "!a", "-a", "\"s\"", "1.5", "true", "nil",
	"a\nb", "a; b", "module m {\n\ta = 1\n}", "len(a)", "delete(m, k)", "a++", "a += 1", "x = a == b && c",
}

func genForeignRuneInput(t *rapid.T) Input {
	var base string
	switch rapid.IntRange(0, 5).Draw(t, "frbase") {
	case 0:
		base = wild.Program(t, wild.Opts{Loops: true, Go: true, MaxDepth: 1, MaxStmts: 1})
	case 1:
		base = wild.Expression(t, wild.Opts{MaxDepth: 2})
	default:
		base = rapid.SampledFrom(foreignBases).Draw(t, "frtemplate")
	}
	r := []rune(base)
	tags := map[string]bool{}
	for n := rapid.IntRange(1, 3).Draw(t, "nforeign"); n > 0; n-- {
		fr, cl := foreignRune(t)
		tags["foreign_"+cl] = true
		// a run of the same rune now and then
		ins := []rune{fr}
		if rapid.IntRange(0, 5).Draw(t, "frrun") == 0 {
			ins = append(ins, fr)
		}
		if rapid.IntRange(0, 3).Draw(t, "frspace") == 0 {
			ins = append([]rune{' '}, ins...)
		}
		at := len(r)
		switch rapid.IntRange(0, 3).Draw(t, "frwhere") {
		case 0:
			at = 0
			tags["foreign_at_start"] = true
		case 1:
			tags["foreign_at_end"] = true
		default:
			at = rapid.IntRange(0, len(r)).Draw(t, "frat")
			tags["foreign_inside"] = true
		}
		r = append(r[:at:at], append(ins, r[at:]...)...)
	}
	in := Input{Kind: "foreign-rune", Src: string(r)}
	for _, k := range []string{"foreign_token_number_range", "foreign_private_use", "foreign_ascii_not_of_the_language", "foreign_space_like", "foreign_symbol_or_mark", "foreign_noncharacter_or_boundary", "foreign_any_rune",
		"foreign_at_start", "foreign_at_end", "foreign_inside"} {
		if tags[k] {
			in.Tags = append(in.Tags, k)
		}
	}
	return in
}

func genInput(t *rapid.T) Input {
	switch rapid.IntRange(0, 13).Draw(t, "kind") {
	case 13:
		return genForeignRuneInput(t)
	case 12:
		return genTypeExprInput(t)
	case 11:
		// statements the grammar accepts and an action rejects: several else blocks, several defaults
		blk := func() string {
			return rapid.SampledFrom([]string{"{ }", "{ x }", "{\n x = 1\n}", "{ x\n y }", "{\n}"}).Draw(t, "blk")
		}
		if rapid.Bool().Draw(t, "ifform") {
			s := "if a " + blk()
			for n := rapid.IntRange(1, 3).Draw(t, "nelse"); n > 0; n-- {
				if rapid.IntRange(0, 3).Draw(t, "elseif") == 0 {
					s += " else if b " + blk()
				} else {
					s += " else " + blk()
				}
			}
			return Input{Kind: "several-else", Src: rapid.SampledFrom([]string{"", "y = 2\n", "\n\n"}).Draw(t, "pre") + s + rapid.SampledFrom([]string{"", "\nz = 3", "\n"}).Draw(t, "post")}
		}
		s := "switch a {\n"
		for n := rapid.IntRange(1, 4).Draw(t, "nclause"); n > 0; n-- {
			body := rapid.SampledFrom([]string{"", " x", "\n x = 1", " x\n y"}).Draw(t, "cbody")
			if rapid.Bool().Draw(t, "isdefault") {
				s += "default:" + body + "\n"
			} else {
				s += "case 1:" + body + "\n"
			}
		}
		return Input{Kind: "several-default", Src: s + "}" + rapid.SampledFrom([]string{"", "\nz = 3"}).Draw(t, "post")}
	case 10:
		// one string literal: quote, units (plain rune | backslash + rune), closing quote or not
		q := rapid.SampledFrom([]string{"\"", "'", "`"}).Draw(t, "quote")
		var b strings.Builder
		if rapid.Bool().Draw(t, "assign") {
			b.WriteString("x = ")
		}
		b.WriteString(q)
		for n := rapid.IntRange(0, 6).Draw(t, "units"); n > 0; n-- {
			if rapid.IntRange(0, 2).Draw(t, "esc") > 0 {
				b.WriteByte('\\')
			}
			b.WriteRune(genStringRune(t))
		}
		switch rapid.IntRange(0, 3).Draw(t, "end") {
		case 0:
		case 1:
			b.WriteString("\\")
		default:
			b.WriteString(q)
		}
		return Input{Kind: "string-literal", Src: b.String()}
	case 0:
		return Input{Kind: "bytes", Src: string(rapid.SliceOfN(rapid.Byte(), 0, 40).Draw(t, "bytes"))}
	case 1, 2, 3:
		n := rapid.IntRange(0, 14).Draw(t, "ntok")
		var b strings.Builder
		for i := 0; i < n; i++ {
			b.WriteString(rapid.SampledFrom(vocab).Draw(t, "tok"))
			if rapid.IntRange(0, 2).Draw(t, "sp") > 0 {
				b.WriteByte(' ')
			}
		}
		return Input{Kind: "soup", Src: b.String()}
	case 4, 5, 6:
		// mutation of a valid program
		src := wild.Program(t, wild.Opts{Loops: true, Go: true, HugeInts: true, MaxDepth: 2, MaxStmts: 3})
		r := []rune(src)
		if len(r) == 0 {
			return Input{Kind: "mutated", Src: src}
		}
		at := rapid.IntRange(0, len(r)-1).Draw(t, "at")
		switch rapid.IntRange(0, 4).Draw(t, "mut") {
		case 0: // truncate
			return Input{Kind: "truncated", Src: string(r[:at])}
		case 1: // delete a span
			end := at + rapid.IntRange(1, 6).Draw(t, "span")
			if end > len(r) {
				end = len(r)
			}
			return Input{Kind: "mutated", Src: string(r[:at]) + string(r[end:])}
		case 2: // insert a token
			return Input{Kind: "mutated", Src: string(r[:at]) + rapid.SampledFrom(vocab).Draw(t, "ins") + string(r[at:])}
		case 3: // duplicate a span
			end := at + rapid.IntRange(1, 10).Draw(t, "span")
			if end > len(r) {
				end = len(r)
			}
			return Input{Kind: "mutated", Src: string(r[:end]) + string(r[at:end]) + string(r[end:])}
		default: // splice two programs
			other := []rune(wild.Program(t, wild.Opts{MaxDepth: 2, MaxStmts: 2}))
			at2 := 0
			if len(other) > 0 {
				at2 = rapid.IntRange(0, len(other)-1).Draw(t, "at2")
			}
			return Input{Kind: "spliced", Src: string(r[:at]) + string(other[at2:])}
		}
	case 7:
		// deep bracket nests, balanced or not
		open := rapid.SampledFrom([]string{"(", "[", "{", "((", "[(", "-(", "!", "func(){", "a(", "x[", "if a {"}).Draw(t, "open")
		close := map[string]string{"(": ")", "[": "]", "{": "}", "((": "))", "[(": ")]", "-(": ")", "!": "", "func(){": "}", "a(": ")", "x[": "]", "if a {": "}"}[open]
		n := rapid.IntRange(1, 1500).Draw(t, "depth")
		m := n
		if rapid.Bool().Draw(t, "unbalanced") {
			m = rapid.IntRange(0, n).Draw(t, "closes")
		}
		return Input{Kind: "nest", Src: strings.Repeat(open, n) + "1" + strings.Repeat(close, m)}
	default:
		return Input{Kind: "valid", Src: wild.Program(t, wild.Opts{Loops: true, Go: true, HugeInts: true, MaxDepth: 3, MaxStmts: 3})}
	}
}

type parseResult struct {
	stmt  ast.Stmt
	err   error
	panic interface{}
	hung  bool
}

var hungOnce sync.Once
var hung bool

func parseBounded(src string) parseResult {
	if hung {
		return parseResult{hung: true}
	}
	ch := make(chan parseResult, 1)
	go func() {
		var r parseResult
		defer func() {
			if p := recover(); p != nil {
				r.panic = p
			}
			ch <- r
		}()
		r.stmt, r.err = parser.ParseSrc(src)
	}()
	tm := time.NewTimer(20 * time.Second)
	defer tm.Stop()
	select {
	case r := <-ch:
		return r
	case <-tm.C:
		hungOnce.Do(func() { hung = true })
		return parseResult{hung: true}
	}
}

func lineInfo(src string) (nlines int, runesInLine func(int) int) {
	lines := strings.Split(string([]rune(src)), "\n")
	return len(lines), func(l int) int { return utf8.RuneCountInString(lines[l-1]) }
}

func errString(err error) string {
	if err == nil {
		return "<nil>"
	}
	if pe, ok := err.(*parser.Error); ok {
		return fmt.Sprintf("%s@%d:%d", pe.Message, pe.Pos.Line, pe.Pos.Column)
	}
	return fmt.Sprintf("%T:%v", err, err)
}

func normMsg(s string) string {
	if len(s) > 60 {
		s = s[:60]
	}
	return s
}

// debugSwitch: every so often, between two parses (never during one), the host calls
// parser.EnableDebug(0) - the default level - as an embedding program may. A call that does not
// come back is remembered; the parses after it tell whether ParseSrc still terminates.
var totalCalls, debugSwitchStuck int

func debugSwitch() {
	totalCalls++
	if totalCalls%50 != 0 || debugSwitchStuck > 0 {
		return
	}
	done := make(chan struct{})
	go func() {
		parser.EnableDebug(0)
		close(done)
	}()
	select {
	case <-done:
	case <-time.After(3 * time.Second):
		debugSwitchStuck++
	}
}

func oracleTotal(c Input, o *h.Obs) *h.Fail {
	o.Key = c.Src
	o.Class("input_" + c.Kind)
	for _, tg := range c.Tags {
		o.Class(tg)
	}
	debugSwitch()
	r := parseBounded(c.Src)
	if r.hung {
		note := ""
		if debugSwitchStuck > 0 {
			note = "\n(a call of parser.EnableDebug(0) made between two earlier parses has not returned either: the parses before it left shared state behind)"
		}
		f := h.Failf("C15|hang", "ParseSrc did not return within 20 s for input %q%s", c.Src, note)
		// the case that hung is reported as it is: re-running it costs 20 s a time, and once a parse is stuck
		// no later case is parsed at all (nothing to shrink towards)
		f.NoShrink = true
		return f
	}
	if r.panic != nil {
		return h.Failf("C15|panic|"+normMsg(fmt.Sprint(r.panic)), "ParseSrc panicked: %v\ninput: %q", r.panic, c.Src)
	}
	ntok := len(strings.Fields(c.Src))
	if r.err == nil {
		o.Class("parses")
		o.NonTrivial = ntok >= 3
	} else {
		pe, ok := r.err.(*parser.Error)
		if !ok {
			return h.Failf("C15|error-type|"+fmt.Sprintf("%T", r.err), "ParseSrc returned an error of type %T (%v), want *parser.Error\ninput: %q", r.err, r.err, c.Src)
		}
		nlines, runes := lineInfo(c.Src)
		if pe.Pos.Line < 1 || pe.Pos.Line > nlines {
			return h.Failf("C15|error-line-out-of-range", "error %q at line %d, input has %d line(s)\ninput: %q", pe.Message, pe.Pos.Line, nlines, c.Src)
		}
		if pe.Pos.Column < 1 || pe.Pos.Column > runes(pe.Pos.Line)+1 {
			return h.Failf("C15|error-column-out-of-range", "error %q at %d:%d, that line has %d rune(s)\ninput: %q", pe.Message, pe.Pos.Line, pe.Pos.Column, runes(pe.Pos.Line), c.Src)
		}
		o.Class("rejected")
		o.NonTrivial = ntok >= 3 && !(pe.Pos.Line == 1 && pe.Pos.Column == 1)
	}
	// statelessness: a second parse gives the same tree / the same error
	r2 := parseBounded(c.Src)
	if r2.hung || r2.panic != nil {
		return h.Failf("C15|second-parse-differs", "second parse hung or panicked: %v\ninput: %q", r2.panic, c.Src)
	}
	if errString(r.err) != errString(r2.err) {
		return h.Failf("C15|second-parse-differs|error", "first parse: %s, second parse: %s\ninput: %q", errString(r.err), errString(r2.err), c.Src)
	}
	if r.err == nil {
		d1, d2 := dump.Dump(r.stmt, dump.Opts{Positions: true}), dump.Dump(r2.stmt, dump.Opts{Positions: true})
		if d1 != d2 {
			return h.Failf("C15|second-parse-differs|tree", "two parses of the same text differ\ninput: %q\nfirst:  %s\nsecond: %s", c.Src, d1, d2)
		}
	}
	return nil
}

// ---------- concurrency ----------

type Batch struct {
	Srcs []string `json:"srcs"`
	// Rounds > 1: large sources; most goroutines parse Srcs[0] again and again while a few
	// parse the other texts (results of earlier calls must never show up in later ones)
	Rounds int `json:"rounds,omitempty"`
}

// largeEvery: one batch in this many is a large one (32 goroutines, 10-25 rounds over long sources). A
// large batch costs about 16 core-seconds; the thorough tier runs 12 shards of 4000 batches at once,
// so it draws them more rarely (about 200 in all) to stay within its time budget.
var largeEvery = 12

// mix64 spreads rapid's draws (which favour small numbers) over the whole range.
func mix64(u uint64) uint64 {
	u ^= u >> 30
	u *= 0xBF58476D1CE4E5B9
	u ^= u >> 27
	u *= 0x94D049BB133111EB
	u ^= u >> 31
	return u
}

func genBatch(t *rapid.T) Batch {
	n := rapid.IntRange(2, 4).Draw(t, "n")
	b := Batch{}
	if mix64(rapid.Uint64().Draw(t, "large"))%uint64(largeEvery) == 7 {
		b.Rounds = rapid.IntRange(10, 25).Draw(t, "rounds")
		for i := 0; i < n; i++ {
			unit := genValid(t, "unit") + "\n"
			if strings.TrimSpace(unit) == "" {
				unit = "u = 1\n"
			}
			size := rapid.SampledFrom([]int{4096, 4200, 6000}).Draw(t, "size")
			src := strings.Repeat(unit, size/len(unit)+1) + fmt.Sprintf("mark = %d\n", i)
			b.Srcs = append(b.Srcs, src)
		}
		return b
	}
	rawHeavy := rapid.IntRange(0, 3).Draw(t, "rawheavy") == 0
	for i := 0; i < n; i++ {
		src := genInput(t).Src
		if rawHeavy {
			// texts in which the scanner spends its time collecting raw strings and block comments, every
			// one with a content of its own: whatever a scanner keeps while it collects them is its own
			var sb strings.Builder
			lines := rapid.IntRange(20, 60).Draw(t, "rawlines")
			for l := 0; l < lines; l++ {
				fmt.Fprintf(&sb, "r%d = `raw string %d of text %d, long enough to take a while to collect` /* block comment %d-%d */\n", l, l, i, i, l)
			}
			src = sb.String() + genValid(t, "rawtail")
		}
		b.Srcs = append(b.Srcs, src)
	}
	return b
}

func oracleConcurrent(c Batch, o *h.Obs) *h.Fail {
	o.Key = strings.Join(c.Srcs, "\x00")
	o.NonTrivial = true
	solo := make([]string, len(c.Srcs))
	for i, s := range c.Srcs {
		r := parseBounded(s)
		if r.hung || r.panic != nil {
			o.Excluded = "input does not parse cleanly alone (judged by the total sub-check)"
			return nil
		}
		solo[i] = errString(r.err)
		if r.err == nil {
			if c.Rounds > 1 {
				solo[i] = tailDump(r.stmt)
			} else {
				solo[i] = dump.Dump(r.stmt, dump.Opts{Positions: true})
			}
		}
	}
	G := 8
	rounds := 1
	if c.Rounds > 1 {
		G, rounds = 32, c.Rounds
		o.Class("large_sources_parsed_repeatedly")
	}
	got := make([][]string, G)
	var wg sync.WaitGroup
	for g := 0; g < G; g++ {
		wg.Add(1)
		go func(g int) {
			defer wg.Done()
			defer func() {
				if p := recover(); p != nil {
					got[g] = []string{fmt.Sprintf("PANIC %v", p)}
				}
			}()
			for k := 0; k < len(c.Srcs)*rounds; k++ {
				i := (k + g) % len(c.Srcs)
				if rounds > 1 {
					// seven eighths of the goroutines keep to text 0, the others cycle over the rest
					i = 0
					if g%8 == 7 && len(c.Srcs) > 1 {
						i = 1 + (k+g)%(len(c.Srcs)-1)
					}
				}
				st, err := parser.ParseSrc(c.Srcs[i])
				s := errString(err)
				if err == nil {
					if rounds > 1 {
						// the whole dump of a large tree per call would dominate the run: its statement
						// count and the last statement (the text's own marker) identify the text
						s = tailDump(st)
					} else {
						s = dump.Dump(st, dump.Opts{Positions: true})
					}
				}
				if rounds > 1 && len(got[g]) > 0 && got[g][len(got[g])-1] == fmt.Sprintf("%d\x00%s", i, s) {
					continue
				}
				got[g] = append(got[g], fmt.Sprintf("%d\x00%s", i, s))
			}
		}(g)
	}
	wg.Wait()
	for g := 0; g < G; g++ {
		for _, e := range got[g] {
			var i int
			parts := strings.SplitN(e, "\x00", 2)
			if len(parts) != 2 {
				return h.Failf("C15|concurrent-parse|panic", "goroutine %d: %s\ninputs: %q", g, e, c.Srcs)
			}
			fmt.Sscanf(parts[0], "%d", &i)
			if parts[1] != solo[i] {
				return h.Failf("C15|concurrent-parse-differs", "input %q parsed concurrently gives\n%s\nalone it gives\n%s", c.Srcs[i], parts[1], solo[i])
			}
		}
	}
	return nil
}

// tailDump identifies a large tree: number of top-level statements and the dump of the last one.
func tailDump(st ast.Stmt) string {
	ss, ok := stmtsOf(st)
	if !ok || len(ss) == 0 {
		return dump.Dump(st, dump.Opts{Positions: true})
	}
	return fmt.Sprintf("%d statements, last: %s", len(ss), dump.Dump(ss[len(ss)-1], dump.Opts{Positions: true}))
}

// ---------- compositionality ----------

type Pair struct {
	A string `json:"a"`
	B string `json:"b"`
	// AEnd, BEnd: how the text ends (evidence counters only)
	AEnd string `json:"a_end,omitempty"`
	BEnd string `json:"b_end,omitempty"`
}

// lastStatements: one statement per way a text can end - by the token it ends on and by the production that
// token completes (empty and non-empty composites, calls, indexings, literals of every kind, keywords that
// stand alone, postfix operators, closing braces of every block statement). Generated programs end every
// statement with a terminator; a text whose last token is directly followed by the end of input (or by
// blanks or a comment without a newline) takes one of these.
var lastStatements = []struct{ class, src string }{
	{"empty_array", "a = []"}, {"empty_array", "[]"}, {"empty_array", "return []"}, {"empty_array", "x = a + []"}, {"empty_array", "a, b = 1, []"}, {"empty_array", "var v = []"}, {"empty_array", "a = b == []"},
	{"empty_map", "m = {}"}, {"empty_map", "return {}"}, {"empty_map", "x = [{}]"},
	{"typed_empty", "s = []int64{}"}, {"typed_empty", "m = map[string]int64{}"}, {"typed_empty", "s = [][]string{}"},
	{"array", "a = [1, 2]"}, {"array", "[a]"}, {"array", "x = [[]]"}, {"array", "s = []int64{1}"},
	{"map", "m = {\"k\": 1}"}, {"map", "m = map[string]int64{\"k\": 1}"},
	{"paren", "(a)"}, {"paren", "x = (a + b)"}, {"paren", "x = ([])"},
	{"call", "f()"}, {"call", "f(a, b)"}, {"call", "f(a...)"}, {"call", "a.b()"}, {"call", "f([])"}, {"call", "func() { }()"}, {"call", "go f()"}, {"call", "defer f(1)"},
	{"index", "a[0]"}, {"index", "x = a[0][1]"}, {"index", "a[1:]"}, {"index", "a[:2]"}, {"index", "a[1:2]"}, {"index", "a[0] = []"},
	{"member", "a.b"}, {"member", "x = a.b.c"},
	{"ident", "a"}, {"ident", "x = a"}, {"ident", "a, b = b, a"}, {"ident", "var a, b = c, d"}, {"ident", "x = -a"}, {"ident", "x = !a"}, {"ident", "x = *p"}, {"ident", "x = &a"}, {"ident", "x = a ? b : c"}, {"ident", "x = a ?? b"}, {"ident", "x = a && b"}, {"ident", "v = <- c"}, {"ident", "throw e"}, {"ident", "return a, b"},
	{"number", "1"}, {"number", "x = 1.5"}, {"number", "x = 0x1F"}, {"number", "x = a + 1"}, {"number", "c <- 1"}, {"number", "return 1"}, {"number", "x = -1"},
	{"string", "x = \"s\""}, {"string", "x = 'c'"}, {"string", "x = `r`"}, {"string", "x = `r\nr`"}, {"string", "\"s\""},
	{"keyword", "return"}, {"keyword", "break"}, {"keyword", "continue"}, {"keyword", "x = true"}, {"keyword", "x = nil"}, {"keyword", "x = false"},
	{"incdec", "a++"}, {"incdec", "a--"}, {"incdec", "a[0]++"},
	{"builtin", "x = len(a)"}, {"builtin", "delete(m, k)"}, {"builtin", "close(c)"}, {"builtin", "x = new(int64)"}, {"builtin", "x = make([]int64)"}, {"builtin", "x = make(chan int64, 1)"}, {"builtin", "x = make(map[string]int64)"}, {"builtin", "x = make(struct{A int64})"}, {"builtin", "make(type T, 1)"}, {"builtin", "x = import(\"x\")"}, {"builtin", "x = len([])"},
	{"block", "func() { }"}, {"block", "func f(a) {\n\treturn a\n}"}, {"block", "x = func(a...) { return a }"}, {"block", "if a { }"}, {"block", "if a { } else { }"}, {"block", "if a {\n\tb\n} else if c {\n}"}, {"block", "for { break }"}, {"block", "for i in [] { }"}, {"block", "for i = 0; i < 1; i++ { }"},
	{"block", "try { } catch { }"}, {"block", "try { } catch e { } finally { }"}, {"block", "switch a {\n}"}, {"block", "switch a {\ncase 1:\n\tb\n}"}, {"block", "switch a {\ncase 1:\n\tb\ndefault:\n\tc = []\n}"}, {"block", "module m { }"}, {"block", "module m {\n\ta = []\n}"},
}

// textEnds: what follows the last token of the text.
var textEnds = []struct{ class, src string }{
	{"eof", ""}, {"eof", ""}, {"eof", ""}, {"blank", " "}, {"blank", "\t"}, {"blank", "   "}, {"line_comment", " # c"}, {"line_comment", " // c"}, {"line_comment", "#"}, {"block_comment", " /* c */"}, {"block_comment", "/**/"},
}

func genValid(t *rapid.T, label string) string {
	s, _ := genValidE(t, label)
	return s
}

// genValidE: a valid text and the class of its ending ("" when it ends as generated programs do, in a terminator).
func genValidE(t *rapid.T, label string) (string, string) {
	src := genValidBody(t, label)
	switch rapid.IntRange(0, 7).Draw(t, label+"_end") {
	case 0, 1:
		// a last statement of its own, not followed by a terminator
		// (rapid favours small numbers; every entry of the lists is to be drawn equally often)
		ls := lastStatements[mix64(rapid.Uint64().Draw(t, label+"_last"))%uint64(len(lastStatements))]
		te := textEnds[mix64(rapid.Uint64().Draw(t, label+"_textend"))%uint64(len(textEnds))]
		if body := strings.TrimRight(src, "; \n"); body == "" || strings.TrimSpace(src) == "" {
			src = ls.src + te.src
		} else {
			sep := rapid.SampledFrom([]string{"\n", "\n", "; ", ";\n", "\n\n"}).Draw(t, label+"_lastsep")
			if lastLine := body[strings.LastIndexByte(body, '\n')+1:]; !strings.Contains(sep, "\n") && (strings.Contains(lastLine, "#") || strings.Contains(lastLine, "//")) {
				sep = "\n" // the body ends in a line comment: the statement goes on a line of its own
			}
			src = body + sep + ls.src + te.src
		}
		return src, ls.class + "|" + te.class
	case 2:
		// the generated program without the terminator of its last statement
		if body := strings.TrimRight(src, "; \n"); body != src {
			return body, "generated_unterminated"
		}
	}
	return src, ""
}

func genValidBody(t *rapid.T, label string) string {
	src := genValid0(t, label)
	if rapid.IntRange(0, 3).Draw(t, label+"_extra") == 0 {
		// raw strings and block comments with a text of their own (the scanner collects them), statements
		// followed by a '#' or '//' comment on the same line with more statements on the next lines
		k := rapid.IntRange(0, 99999).Draw(t, label+"_rawid")
		extra := []string{
			fmt.Sprintf("rs = `raw %d text`", k),
			fmt.Sprintf("rs = `raw %d\nsecond line %d` + `tail%d`", k, k+1, k+2),
			fmt.Sprintf("/* comment %d */\nrs = `r%d`", k, k),
			fmt.Sprintf("xc = %d # trailing %d\nyc = 2", k, k),
			fmt.Sprintf("xc = %d // trailing %d\nyc = 2 # end", k, k),
			fmt.Sprintf("xc = %d # trailing", k),
			fmt.Sprintf("func rf() {\n return `%d` # c\n}\nrf()", k),
		}[rapid.IntRange(0, 6).Draw(t, label+"_extrakind")]
		if rapid.Bool().Draw(t, label+"_extrafirst") || strings.TrimSpace(src) == "" {
			src = extra + "\n" + src
		} else {
			src = strings.TrimRight(src, "; \n") + "\n" + extra
		}
	}
	if rapid.IntRange(0, 7).Draw(t, label+"_head") == 0 {
		// a first line that is a comment to the language but special to tools (interpreter line,
		// byte order mark look-alikes, editor mode lines)
		src = rapid.SampledFrom([]string{"#!/usr/bin/env anko", "#!anko -e", "#!", "# -*- mode: anko -*-", "//!", "#!\r"}).Draw(t, label+"_headline") + "\n" + src
	}
	return src
}

func genValid0(t *rapid.T, label string) string {
	switch rapid.IntRange(0, 11).Draw(t, label) {
	case 0:
		return ""
	case 1:
		return "# only a comment"
	case 2:
		return "// c\n/* multi\nline */"
	case 3:
		return wild.Program(t, wild.Opts{MaxDepth: 2, MaxStmts: 2}) + ";"
	case 4:
		return "\n\n" + wild.Program(t, wild.Opts{MaxDepth: 2, MaxStmts: 2})
	case 5:
		// leading empty statements / terminators in every combination
		lead := rapid.SampledFrom([]string{";", ";;", "\n;", ";\n;", "# c\n;", ";\n\n", "; ;", "/* c */;"}).Draw(t, "lead")
		n := rapid.IntRange(1, 2).Draw(t, "nst")
		return lead + wild.Program(t, wild.Opts{MaxDepth: 2, MaxStmts: n})
	default:
		return wild.Program(t, wild.Opts{Loops: true, Go: true, HugeInts: true, MaxDepth: 3, MaxStmts: 3})
	}
}

func genPair(t *rapid.T) Pair {
	var p Pair
	p.A, p.AEnd = genValidE(t, "a")
	p.B, p.BEnd = genValidE(t, "b")
	return p
}

func stmtsOf(s ast.Stmt) ([]ast.Stmt, bool) {
	if s == nil {
		return nil, true
	}
	if ss, ok := s.(*ast.StmtsStmt); ok {
		if ss == nil {
			return nil, true
		}
		return ss.Stmts, true
	}
	return nil, false
}

func oracleCompose(c Pair, o *h.Obs) *h.Fail {
	o.Key = c.A + "\x00" + c.B
	ra, rb := parseBounded(c.A), parseBounded(c.B)
	if ra.hung || rb.hung || ra.panic != nil || rb.panic != nil {
		o.Excluded = "part does not parse cleanly (judged by the total sub-check)"
		return nil
	}
	if ra.err != nil || rb.err != nil {
		o.Excluded = "generator produced unparseable text (harness problem): " + errString(ra.err) + " / " + errString(rb.err)
		return nil
	}
	sa, oka := stmtsOf(ra.stmt)
	sb, okb := stmtsOf(rb.stmt)
	if !oka || !okb {
		o.Excluded = "ParseSrc returned a non-list root"
		return nil
	}
	joined := c.A + "\n" + c.B
	rj := parseBounded(joined)
	if rj.hung || rj.panic != nil {
		return h.Failf("C15|compose|panic-or-hang", "A and B parse, A+\\n+B panics/hangs: %v\nA: %q\nB: %q", rj.panic, c.A, c.B)
	}
	if rj.err != nil {
		return h.Failf("C15|compose|joined-rejected", "A and B each parse, their concatenation is rejected: %s\nA: %q\nB: %q", errString(rj.err), c.A, c.B)
	}
	sj, okj := stmtsOf(rj.stmt)
	if !okj {
		o.Excluded = "ParseSrc returned a non-list root"
		return nil
	}
	shift := strings.Count(c.A, "\n") + 1
	var want []string
	for _, s := range sa {
		want = append(want, dump.Dump(s, dump.Opts{Positions: true}))
	}
	for _, s := range sb {
		want = append(want, dump.Dump(s, dump.Opts{Positions: true, LineShift: shift}))
	}
	o.NonTrivial = len(sa) >= 1 && len(sb) >= 1 && shift >= 2
	o.Class(fmt.Sprintf("a_stmts_%d", min(len(sa), 3)))
	o.Class(fmt.Sprintf("b_stmts_%d", min(len(sb), 3)))
	if c.AEnd != "" {
		o.Class("a_ends_without_terminator")
		if last, after, ok := strings.Cut(c.AEnd, "|"); ok {
			o.Class("a_last_statement_" + last)
			o.Class("a_last_token_followed_by_" + after)
		} else {
			o.Class("a_ends_" + c.AEnd)
		}
	}
	if c.BEnd != "" {
		o.Class("b_ends_without_terminator")
	}
	if len(sj) != len(want) {
		return h.Failf("C15|compose|statement-count", "parse(A) has %d statements, parse(B) %d, parse(A+\\n+B) %d\nA: %q\nB: %q", len(sa), len(sb), len(sj), c.A, c.B)
	}
	for i, s := range sj {
		got := dump.Dump(s, dump.Opts{Positions: true})
		if got != want[i] {
			clause := "structure"
			if dump.Dump(s, dump.Opts{}) == stripPos(sa, sb, i) {
				clause = "positions"
			}
			return h.Failf("C15|compose|"+clause, "statement %d of parse(A+\\n+B) differs from the corresponding statement of A / shifted B\nA: %q\nB: %q\ngot:  %s\nwant: %s", i, c.A, c.B, got, want[i])
		}
	}
	return nil
}

func stripPos(sa, sb []ast.Stmt, i int) string {
	if i < len(sa) {
		return dump.Dump(sa[i], dump.Opts{})
	}
	return dump.Dump(sb[i-len(sa)], dump.Opts{})
}

func TestC15(t *testing.T) {
	c := h.New(t, "C15")
	defer c.Finish()
	c.Rule("total: byte strings (random bytes, token soups over the full token vocabulary incl. unterminated strings/comments/NUL/non-UTF-8, truncations/deletions/insertions/duplications/splices of generated valid programs, bracket nests up to 1500 deep, valid programs); non-trivial = >= 3 whitespace-separated chunks and (parses, or rejected at a position other than 1:1). concurrent: batches parsed from 8 goroutines vs alone. type-expr inputs: prefixes, a name or struct literal, member selectors in every combination inside new/make/composite literals; foreign-rune inputs: valid texts with 1-3 runes that start no token (by class, incl. the 128 code points from U+E000 that coincide with the parser's token numbers). compose: pairs of generated valid programs (incl. empty, comment-only, trailing ';', leading blank lines; three in eight end without a terminator: a last statement from a list covering every kind of final token and production, followed by nothing, blanks or a comment); non-trivial = both have >= 1 statement and A spans >= 2 lines. distinct by text")
	h.Run(c, "total", c.N(52500, 175000), genInput, oracleTotal)
	if c.Thorough() {
		largeEvery = 240
	}
	h.Run(c, "concurrent", c.N(1500, 4000), genBatch, oracleConcurrent)
	h.Run(c, "compose", c.N(12000, 50000), genPair, oracleCompose)
	c.Rule("words (words_test.go): 2-4 texts joined with newlines one after the other, the compositional clause judged at every step (the text so far and the next part each parse on their own), and the first sentence of the statement for every parse made. Parts: statements from templates whose identifier slots hold words that resemble keywords - each of the 32 keywords with a suffix (elsewhere, if_1, inX, nil0), with a prefix, followed by another keyword, in another capitalisation, cut short or with a letter doubled, keywords of other languages - with such a word as the first token of the statement in two thirds of them, after optional blank lines / indentation / a comment and before an optional terminator or comment; a statement from the last-statement list followed by a line that starts with such a word; generated programs with a third of their identifiers renamed to such words; generated programs as they are. non-trivial = every step joined two texts of >= 1 statement; distinct by text")
	h.Run(c, "words", c.N(8000, 30000), genWords, oracleWords)
	c.Rule("again (again_test.go): a probe text (1-3 parts: a statement holding a map or array literal whose keys / elements are drawn from a pool of 1-6 constants so that they repeat - all three map forms, 1-12 entries, everything constant in three of five - , statements with names, numbers and strings of its own, a generated program, any input of the total sub-check) is parsed, parsed 5 more times at once, and parsed again after each of 1-3 groups of other texts; a group brings N spellings no parse of the process has seen before (names, numbers, strings or all three; N up to 50, around a power of two from 32 to 4096, 1100-2600 or 2600-5000), in one text or spread over up to 600; the oldest of the other texts is parsed again at the end as well. Every parse of a text must give the result of its first parse (tree with positions, or error). non-trivial = the probe parses, has >= 3 chunks and N >= 1; distinct by probe and groups")
	h.Run(c, "again", c.N(260, 160), genAgain, oracleAgain)
	c.Rule("literals (again_test.go): 2-16 texts of 64-512 literal spellings each, no spelling in two texts (decimal, hexadecimal, binary, fraction and exponent spellings, every fifth with a sign, strings mixed in for one kind in four; as array elements, right-hand sides, map values, operands or arguments), one goroutine per text, 8-24 rounds, goroutine g in round r parses text (g+r) mod G; every tree must be the tree (literal values included) the text gives alone, during and after. distinct by description")
	h.Run(c, "literals", c.N(40, 16), genLitBatch, oracleLiterals)
}
