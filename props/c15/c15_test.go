// C15 — parsing is total, position-accurate and compositional.
package c15

import (
	"fmt"
	"strings"
	"sync"
	"testing"
	"time"
	"unicode/utf8"

	"github.com/mattn/anko/ast"
	"github.com/mattn/anko/parser"
	"pgregory.net/rapid"

	"verif/internal/dump"
	"verif/internal/h"
	"verif/internal/wild"
)

// ---------- totality ----------

type Input struct {
	Kind string `json:"kind"`
	Src  string `json:"src"`
}

var vocab = []string{
	"func", "return", "var", "throw", "if", "for", "break", "continue", "in", "else", "new", "true", "false", "nil", "module", "try", "catch", "finally",
	"switch", "case", "default", "go", "defer", "chan", "struct", "make", "type", "len", "delete", "close", "map", "import",
	"a", "b", "_x", "日本", "x1", "0", "1", "42", "1.5", "1e3", "0x", "0x1F", "0b", "0b101", "1e", "1e+", "9223372036854775808", "1..2", "007",
	"\"s\"", "'s'", "`r`", "\"", "'", "`", "\"unterminated", "`unterminated\n", "\"a\\", "'\\n'",
	"+", "-", "*", "/", "%", "&", "|", "^", "!", "<", ">", "=", "==", "!=", "<=", ">=", "&&", "||", "++", "--", "+=", "-=", "*=", "/=", "&=", "|=", "<<", ">>",
	"<-", "= <-", "?", "??", ":", ";", ",", ".", "...", "(", ")", "[", "]", "{", "}", "\n", "\n\n", " ", "\t", "\r\n",
	"#c\n", "# unterminated", "//c\n", "/*c*/", "/* unterminated", "/*\n*/", "\x00", "\xff", "\xc3", "é", "@", "$", "~", "\\",
}

// runes that may follow a backslash (or stand anywhere) in a quoted string: every ASCII code with
// equal weight, and the boundaries of the UTF-8 encoding lengths
func genStringRune(t *rapid.T) rune {
	switch rapid.IntRange(0, 9).Draw(t, "runeclass") {
	case 0, 1, 2, 3, 4, 5:
		return rune(rapid.IntRange(0, 127).Draw(t, "ascii"))
	case 6, 7:
		return rapid.SampledFrom([]rune{0x80, 0xFF, 0x100, 0x7FF, 0x800, 0xFFFD, 0xFFFF, 0x10000, 0x10FFFF, 0xD7FF, 0xE000}).Draw(t, "edge")
	default:
		return rune(rapid.IntRange(0, 0x10FFFF).Draw(t, "any"))
	}
}

func genInput(t *rapid.T) Input {
	switch rapid.IntRange(0, 11).Draw(t, "kind") {
	case 11:
		// statements the grammar accepts and an action rejects: several else blocks, several defaults
		blk := func() string {
			return rapid.SampledFrom([]string{"{ }", "{ x }", "{\n x = 1\n}", "{ x\n y }", "{\n}"}).Draw(t, "blk")
		}
		if rapid.Bool().Draw(t, "ifform") {
			s := "if a " + blk()
			for n := rapid.IntRange(1, 3).Draw(t, "nelse"); n > 0; n-- {
				if rapid.IntRange(0, 3).Draw(t, "elseif") == 0 {
					s += " else if b " + blk()
				} else {
					s += " else " + blk()
				}
			}
			return Input{"several-else", rapid.SampledFrom([]string{"", "y = 2\n", "\n\n"}).Draw(t, "pre") + s + rapid.SampledFrom([]string{"", "\nz = 3", "\n"}).Draw(t, "post")}
		}
		s := "switch a {\n"
		for n := rapid.IntRange(1, 4).Draw(t, "nclause"); n > 0; n-- {
			body := rapid.SampledFrom([]string{"", " x", "\n x = 1", " x\n y"}).Draw(t, "cbody")
			if rapid.Bool().Draw(t, "isdefault") {
				s += "default:" + body + "\n"
			} else {
				s += "case 1:" + body + "\n"
			}
		}
		return Input{"several-default", s + "}" + rapid.SampledFrom([]string{"", "\nz = 3"}).Draw(t, "post")}
	case 10:
		// one string literal: quote, units (plain rune | backslash + rune), closing quote or not
		q := rapid.SampledFrom([]string{"\"", "'", "`"}).Draw(t, "quote")
		var b strings.Builder
		if rapid.Bool().Draw(t, "assign") {
			b.WriteString("x = ")
		}
		b.WriteString(q)
		for n := rapid.IntRange(0, 6).Draw(t, "units"); n > 0; n-- {
			if rapid.IntRange(0, 2).Draw(t, "esc") > 0 {
				b.WriteByte('\\')
			}
			b.WriteRune(genStringRune(t))
		}
		switch rapid.IntRange(0, 3).Draw(t, "end") {
		case 0:
		case 1:
			b.WriteString("\\")
		default:
			b.WriteString(q)
		}
		return Input{"string-literal", b.String()}
	case 0:
		return Input{"bytes", string(rapid.SliceOfN(rapid.Byte(), 0, 40).Draw(t, "bytes"))}
	case 1, 2, 3:
		n := rapid.IntRange(0, 14).Draw(t, "ntok")
		var b strings.Builder
		for i := 0; i < n; i++ {
			b.WriteString(rapid.SampledFrom(vocab).Draw(t, "tok"))
			if rapid.IntRange(0, 2).Draw(t, "sp") > 0 {
				b.WriteByte(' ')
			}
		}
		return Input{"soup", b.String()}
	case 4, 5, 6:
		// mutation of a valid program
		src := wild.Program(t, wild.Opts{Loops: true, Go: true, HugeInts: true, MaxDepth: 2, MaxStmts: 3})
		r := []rune(src)
		if len(r) == 0 {
			return Input{"mutated", src}
		}
		at := rapid.IntRange(0, len(r)-1).Draw(t, "at")
		switch rapid.IntRange(0, 4).Draw(t, "mut") {
		case 0: // truncate
			return Input{"truncated", string(r[:at])}
		case 1: // delete a span
			end := at + rapid.IntRange(1, 6).Draw(t, "span")
			if end > len(r) {
				end = len(r)
			}
			return Input{"mutated", string(r[:at]) + string(r[end:])}
		case 2: // insert a token
			return Input{"mutated", string(r[:at]) + rapid.SampledFrom(vocab).Draw(t, "ins") + string(r[at:])}
		case 3: // duplicate a span
			end := at + rapid.IntRange(1, 10).Draw(t, "span")
			if end > len(r) {
				end = len(r)
			}
			return Input{"mutated", string(r[:end]) + string(r[at:end]) + string(r[end:])}
		default: // splice two programs
			other := []rune(wild.Program(t, wild.Opts{MaxDepth: 2, MaxStmts: 2}))
			at2 := 0
			if len(other) > 0 {
				at2 = rapid.IntRange(0, len(other)-1).Draw(t, "at2")
			}
			return Input{"spliced", string(r[:at]) + string(other[at2:])}
		}
	case 7:
		// deep bracket nests, balanced or not
		open := rapid.SampledFrom([]string{"(", "[", "{", "((", "[(", "-(", "!", "func(){", "a(", "x[", "if a {"}).Draw(t, "open")
		close := map[string]string{"(": ")", "[": "]", "{": "}", "((": "))", "[(": ")]", "-(": ")", "!": "", "func(){": "}", "a(": ")", "x[": "]", "if a {": "}"}[open]
		n := rapid.IntRange(1, 1500).Draw(t, "depth")
		m := n
		if rapid.Bool().Draw(t, "unbalanced") {
			m = rapid.IntRange(0, n).Draw(t, "closes")
		}
		return Input{"nest", strings.Repeat(open, n) + "1" + strings.Repeat(close, m)}
	default:
		return Input{"valid", wild.Program(t, wild.Opts{Loops: true, Go: true, HugeInts: true, MaxDepth: 3, MaxStmts: 3})}
	}
}

type parseResult struct {
	stmt  ast.Stmt
	err   error
	panic interface{}
	hung  bool
}

var hungOnce sync.Once
var hung bool

func parseBounded(src string) parseResult {
	if hung {
		return parseResult{hung: true}
	}
	ch := make(chan parseResult, 1)
	go func() {
		var r parseResult
		defer func() {
			if p := recover(); p != nil {
				r.panic = p
			}
			ch <- r
		}()
		r.stmt, r.err = parser.ParseSrc(src)
	}()
	tm := time.NewTimer(20 * time.Second)
	defer tm.Stop()
	select {
	case r := <-ch:
		return r
	case <-tm.C:
		hungOnce.Do(func() { hung = true })
		return parseResult{hung: true}
	}
}

func lineInfo(src string) (nlines int, runesInLine func(int) int) {
	lines := strings.Split(string([]rune(src)), "\n")
	return len(lines), func(l int) int { return utf8.RuneCountInString(lines[l-1]) }
}

func errString(err error) string {
	if err == nil {
		return "<nil>"
	}
	if pe, ok := err.(*parser.Error); ok {
		return fmt.Sprintf("%s@%d:%d", pe.Message, pe.Pos.Line, pe.Pos.Column)
	}
	return fmt.Sprintf("%T:%v", err, err)
}

func normMsg(s string) string {
	if len(s) > 60 {
		s = s[:60]
	}
	return s
}

// debugSwitch: every so often, between two parses (never during one), the host calls
// parser.EnableDebug(0) - the default level - as an embedding program may. A call that does not
// come back is remembered; the parses after it tell whether ParseSrc still terminates.
var totalCalls, debugSwitchStuck int

func debugSwitch() {
	totalCalls++
	if totalCalls%50 != 0 || debugSwitchStuck > 0 {
		return
	}
	done := make(chan struct{})
	go func() {
		parser.EnableDebug(0)
		close(done)
	}()
	select {
	case <-done:
	case <-time.After(3 * time.Second):
		debugSwitchStuck++
	}
}

func oracleTotal(c Input, o *h.Obs) *h.Fail {
	o.Key = c.Src
	o.Class("input_" + c.Kind)
	debugSwitch()
	r := parseBounded(c.Src)
	if r.hung {
		note := ""
		if debugSwitchStuck > 0 {
			note = "\n(a call of parser.EnableDebug(0) made between two earlier parses has not returned either: the parses before it left shared state behind)"
		}
		return h.Failf("C15|hang", "ParseSrc did not return within 20 s for input %q%s", c.Src, note)
	}
	if r.panic != nil {
		return h.Failf("C15|panic|"+normMsg(fmt.Sprint(r.panic)), "ParseSrc panicked: %v\ninput: %q", r.panic, c.Src)
	}
	ntok := len(strings.Fields(c.Src))
	if r.err == nil {
		o.Class("parses")
		o.NonTrivial = ntok >= 3
	} else {
		pe, ok := r.err.(*parser.Error)
		if !ok {
			return h.Failf("C15|error-type|"+fmt.Sprintf("%T", r.err), "ParseSrc returned an error of type %T (%v), want *parser.Error\ninput: %q", r.err, r.err, c.Src)
		}
		nlines, runes := lineInfo(c.Src)
		if pe.Pos.Line < 1 || pe.Pos.Line > nlines {
			return h.Failf("C15|error-line-out-of-range", "error %q at line %d, input has %d line(s)\ninput: %q", pe.Message, pe.Pos.Line, nlines, c.Src)
		}
		if pe.Pos.Column < 1 || pe.Pos.Column > runes(pe.Pos.Line)+1 {
			return h.Failf("C15|error-column-out-of-range", "error %q at %d:%d, that line has %d rune(s)\ninput: %q", pe.Message, pe.Pos.Line, pe.Pos.Column, runes(pe.Pos.Line), c.Src)
		}
		o.Class("rejected")
		o.NonTrivial = ntok >= 3 && !(pe.Pos.Line == 1 && pe.Pos.Column == 1)
	}
	// statelessness: a second parse gives the same tree / the same error
	r2 := parseBounded(c.Src)
	if r2.hung || r2.panic != nil {
		return h.Failf("C15|second-parse-differs", "second parse hung or panicked: %v\ninput: %q", r2.panic, c.Src)
	}
	if errString(r.err) != errString(r2.err) {
		return h.Failf("C15|second-parse-differs|error", "first parse: %s, second parse: %s\ninput: %q", errString(r.err), errString(r2.err), c.Src)
	}
	if r.err == nil {
		d1, d2 := dump.Dump(r.stmt, dump.Opts{Positions: true}), dump.Dump(r2.stmt, dump.Opts{Positions: true})
		if d1 != d2 {
			return h.Failf("C15|second-parse-differs|tree", "two parses of the same text differ\ninput: %q\nfirst:  %s\nsecond: %s", c.Src, d1, d2)
		}
	}
	return nil
}

// ---------- concurrency ----------

type Batch struct {
	Srcs []string `json:"srcs"`
	// Rounds > 1: large sources; most goroutines parse Srcs[0] again and again while a few
	// parse the other texts (results of earlier calls must never show up in later ones)
	Rounds int `json:"rounds,omitempty"`
}

// largeEvery: one batch in this many is a large one (32 goroutines, 10-25 rounds over long sources). A
// large batch costs about 16 core-seconds; the thorough tier runs 12 shards of 4000 batches at once,
// so it draws them more rarely (about 200 in all) to stay within its time budget.
var largeEvery = 12

// mix64 spreads rapid's draws (which favour small numbers) over the whole range.
func mix64(u uint64) uint64 {
	u ^= u >> 30
	u *= 0xBF58476D1CE4E5B9
	u ^= u >> 27
	u *= 0x94D049BB133111EB
	u ^= u >> 31
	return u
}

func genBatch(t *rapid.T) Batch {
	n := rapid.IntRange(2, 4).Draw(t, "n")
	b := Batch{}
	if mix64(rapid.Uint64().Draw(t, "large"))%uint64(largeEvery) == 7 {
		b.Rounds = rapid.IntRange(10, 25).Draw(t, "rounds")
		for i := 0; i < n; i++ {
			unit := genValid(t, "unit") + "\n"
			if strings.TrimSpace(unit) == "" {
				unit = "u = 1\n"
			}
			size := rapid.SampledFrom([]int{4096, 4200, 6000}).Draw(t, "size")
			src := strings.Repeat(unit, size/len(unit)+1) + fmt.Sprintf("mark = %d\n", i)
			b.Srcs = append(b.Srcs, src)
		}
		return b
	}
	rawHeavy := rapid.IntRange(0, 3).Draw(t, "rawheavy") == 0
	for i := 0; i < n; i++ {
		src := genInput(t).Src
		if rawHeavy {
			// texts in which the scanner spends its time collecting raw strings and block comments, every
			// one with a content of its own: whatever a scanner keeps while it collects them is its own
			var sb strings.Builder
			lines := rapid.IntRange(20, 60).Draw(t, "rawlines")
			for l := 0; l < lines; l++ {
				fmt.Fprintf(&sb, "r%d = `raw string %d of text %d, long enough to take a while to collect` /* block comment %d-%d */\n", l, l, i, i, l)
			}
			src = sb.String() + genValid(t, "rawtail")
		}
		b.Srcs = append(b.Srcs, src)
	}
	return b
}

func oracleConcurrent(c Batch, o *h.Obs) *h.Fail {
	o.Key = strings.Join(c.Srcs, "\x00")
	o.NonTrivial = true
	solo := make([]string, len(c.Srcs))
	for i, s := range c.Srcs {
		r := parseBounded(s)
		if r.hung || r.panic != nil {
			o.Excluded = "input does not parse cleanly alone (judged by the total sub-check)"
			return nil
		}
		solo[i] = errString(r.err)
		if r.err == nil {
			if c.Rounds > 1 {
				solo[i] = tailDump(r.stmt)
			} else {
				solo[i] = dump.Dump(r.stmt, dump.Opts{Positions: true})
			}
		}
	}
	G := 8
	rounds := 1
	if c.Rounds > 1 {
		G, rounds = 32, c.Rounds
		o.Class("large_sources_parsed_repeatedly")
	}
	got := make([][]string, G)
	var wg sync.WaitGroup
	for g := 0; g < G; g++ {
		wg.Add(1)
		go func(g int) {
			defer wg.Done()
			defer func() {
				if p := recover(); p != nil {
					got[g] = []string{fmt.Sprintf("PANIC %v", p)}
				}
			}()
			for k := 0; k < len(c.Srcs)*rounds; k++ {
				i := (k + g) % len(c.Srcs)
				if rounds > 1 {
					// seven eighths of the goroutines keep to text 0, the others cycle over the rest
					i = 0
					if g%8 == 7 && len(c.Srcs) > 1 {
						i = 1 + (k+g)%(len(c.Srcs)-1)
					}
				}
				st, err := parser.ParseSrc(c.Srcs[i])
				s := errString(err)
				if err == nil {
					if rounds > 1 {
						// the whole dump of a large tree per call would dominate the run: its statement
						// count and the last statement (the text's own marker) identify the text
						s = tailDump(st)
					} else {
						s = dump.Dump(st, dump.Opts{Positions: true})
					}
				}
				if rounds > 1 && len(got[g]) > 0 && got[g][len(got[g])-1] == fmt.Sprintf("%d\x00%s", i, s) {
					continue
				}
				got[g] = append(got[g], fmt.Sprintf("%d\x00%s", i, s))
			}
		}(g)
	}
	wg.Wait()
	for g := 0; g < G; g++ {
		for _, e := range got[g] {
			var i int
			parts := strings.SplitN(e, "\x00", 2)
			if len(parts) != 2 {
				return h.Failf("C15|concurrent-parse|panic", "goroutine %d: %s\ninputs: %q", g, e, c.Srcs)
			}
			fmt.Sscanf(parts[0], "%d", &i)
			if parts[1] != solo[i] {
				return h.Failf("C15|concurrent-parse-differs", "input %q parsed concurrently gives\n%s\nalone it gives\n%s", c.Srcs[i], parts[1], solo[i])
			}
		}
	}
	return nil
}

// tailDump identifies a large tree: number of top-level statements and the dump of the last one.
func tailDump(st ast.Stmt) string {
	ss, ok := stmtsOf(st)
	if !ok || len(ss) == 0 {
		return dump.Dump(st, dump.Opts{Positions: true})
	}
	return fmt.Sprintf("%d statements, last: %s", len(ss), dump.Dump(ss[len(ss)-1], dump.Opts{Positions: true}))
}

// ---------- compositionality ----------

type Pair struct {
	A string `json:"a"`
	B string `json:"b"`
}

func genValid(t *rapid.T, label string) string {
	src := genValid0(t, label)
	if rapid.IntRange(0, 3).Draw(t, label+"_extra") == 0 {
		// raw strings and block comments with a text of their own (the scanner collects them), statements
		// followed by a '#' or '//' comment on the same line with more statements on the next lines
		k := rapid.IntRange(0, 99999).Draw(t, label+"_rawid")
		extra := []string{
			fmt.Sprintf("rs = `raw %d text`", k),
			fmt.Sprintf("rs = `raw %d\nsecond line %d` + `tail%d`", k, k+1, k+2),
			fmt.Sprintf("/* comment %d */\nrs = `r%d`", k, k),
			fmt.Sprintf("xc = %d # trailing %d\nyc = 2", k, k),
			fmt.Sprintf("xc = %d // trailing %d\nyc = 2 # end", k, k),
			fmt.Sprintf("xc = %d # trailing", k),
			fmt.Sprintf("func rf() {\n return `%d` # c\n}\nrf()", k),
		}[rapid.IntRange(0, 6).Draw(t, label+"_extrakind")]
		if rapid.Bool().Draw(t, label+"_extrafirst") || strings.TrimSpace(src) == "" {
			src = extra + "\n" + src
		} else {
			src = strings.TrimRight(src, "; \n") + "\n" + extra
		}
	}
	if rapid.IntRange(0, 7).Draw(t, label+"_head") == 0 {
		// a first line that is a comment to the language but special to tools (interpreter line,
		// byte order mark look-alikes, editor mode lines)
		src = rapid.SampledFrom([]string{"#!/usr/bin/env anko", "#!anko -e", "#!", "# -*- mode: anko -*-", "//!", "#!\r"}).Draw(t, label+"_headline") + "\n" + src
	}
	return src
}

func genValid0(t *rapid.T, label string) string {
	switch rapid.IntRange(0, 11).Draw(t, label) {
	case 0:
		return ""
	case 1:
		return "# only a comment"
	case 2:
		return "// c\n/* multi\nline */"
	case 3:
		return wild.Program(t, wild.Opts{MaxDepth: 2, MaxStmts: 2}) + ";"
	case 4:
		return "\n\n" + wild.Program(t, wild.Opts{MaxDepth: 2, MaxStmts: 2})
	case 5:
		// leading empty statements / terminators in every combination
		lead := rapid.SampledFrom([]string{";", ";;", "\n;", ";\n;", "# c\n;", ";\n\n", "; ;", "/* c */;"}).Draw(t, "lead")
		n := rapid.IntRange(1, 2).Draw(t, "nst")
		return lead + wild.Program(t, wild.Opts{MaxDepth: 2, MaxStmts: n})
	default:
		return wild.Program(t, wild.Opts{Loops: true, Go: true, HugeInts: true, MaxDepth: 3, MaxStmts: 3})
	}
}

func genPair(t *rapid.T) Pair { return Pair{genValid(t, "a"), genValid(t, "b")} }

func stmtsOf(s ast.Stmt) ([]ast.Stmt, bool) {
	if s == nil {
		return nil, true
	}
	if ss, ok := s.(*ast.StmtsStmt); ok {
		if ss == nil {
			return nil, true
		}
		return ss.Stmts, true
	}
	return nil, false
}

func oracleCompose(c Pair, o *h.Obs) *h.Fail {
	o.Key = c.A + "\x00" + c.B
	ra, rb := parseBounded(c.A), parseBounded(c.B)
	if ra.hung || rb.hung || ra.panic != nil || rb.panic != nil {
		o.Excluded = "part does not parse cleanly (judged by the total sub-check)"
		return nil
	}
	if ra.err != nil || rb.err != nil {
		o.Excluded = "generator produced unparseable text (harness problem): " + errString(ra.err) + " / " + errString(rb.err)
		return nil
	}
	sa, oka := stmtsOf(ra.stmt)
	sb, okb := stmtsOf(rb.stmt)
	if !oka || !okb {
		o.Excluded = "ParseSrc returned a non-list root"
		return nil
	}
	joined := c.A + "\n" + c.B
	rj := parseBounded(joined)
	if rj.hung || rj.panic != nil {
		return h.Failf("C15|compose|panic-or-hang", "A and B parse, A+\\n+B panics/hangs: %v\nA: %q\nB: %q", rj.panic, c.A, c.B)
	}
	if rj.err != nil {
		return h.Failf("C15|compose|joined-rejected", "A and B each parse, their concatenation is rejected: %s\nA: %q\nB: %q", errString(rj.err), c.A, c.B)
	}
	sj, okj := stmtsOf(rj.stmt)
	if !okj {
		o.Excluded = "ParseSrc returned a non-list root"
		return nil
	}
	shift := strings.Count(c.A, "\n") + 1
	var want []string
	for _, s := range sa {
		want = append(want, dump.Dump(s, dump.Opts{Positions: true}))
	}
	for _, s := range sb {
		want = append(want, dump.Dump(s, dump.Opts{Positions: true, LineShift: shift}))
	}
	o.NonTrivial = len(sa) >= 1 && len(sb) >= 1 && shift >= 2
	o.Class(fmt.Sprintf("a_stmts_%d", min(len(sa), 3)))
	o.Class(fmt.Sprintf("b_stmts_%d", min(len(sb), 3)))
	if len(sj) != len(want) {
		return h.Failf("C15|compose|statement-count", "parse(A) has %d statements, parse(B) %d, parse(A+\\n+B) %d\nA: %q\nB: %q", len(sa), len(sb), len(sj), c.A, c.B)
	}
	for i, s := range sj {
		got := dump.Dump(s, dump.Opts{Positions: true})
		if got != want[i] {
			clause := "structure"
			if dump.Dump(s, dump.Opts{}) == stripPos(sa, sb, i) {
				clause = "positions"
			}
			return h.Failf("C15|compose|"+clause, "statement %d of parse(A+\\n+B) differs from the corresponding statement of A / shifted B\nA: %q\nB: %q\ngot:  %s\nwant: %s", i, c.A, c.B, got, want[i])
		}
	}
	return nil
}

func stripPos(sa, sb []ast.Stmt, i int) string {
	if i < len(sa) {
		return dump.Dump(sa[i], dump.Opts{})
	}
	return dump.Dump(sb[i-len(sa)], dump.Opts{})
}

func TestC15(t *testing.T) {
	c := h.New(t, "C15")
	defer c.Finish()
	c.Rule("total: byte strings (random bytes, token soups over the full token vocabulary incl. unterminated strings/comments/NUL/non-UTF-8, truncations/deletions/insertions/duplications/splices of generated valid programs, bracket nests up to 1500 deep, valid programs); non-trivial = >= 3 whitespace-separated chunks and (parses, or rejected at a position other than 1:1). concurrent: batches parsed from 8 goroutines vs alone. compose: pairs of generated valid programs (incl. empty, comment-only, trailing ';', leading blank lines); non-trivial = both have >= 1 statement and A spans >= 2 lines. distinct by text")
	h.Run(c, "total", c.N(45000, 150000), genInput, oracleTotal)
	if c.Thorough() {
		largeEvery = 240
	}
	h.Run(c, "concurrent", c.N(1500, 4000), genBatch, oracleConcurrent)
	h.Run(c, "compose", c.N(12000, 50000), genPair, oracleCompose)
}
