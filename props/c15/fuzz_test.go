package c15

import (
	"strings"
	"os"
	"path/filepath"
	"testing"

	"verif/internal/h"
)

// FuzzC15Parse is the coverage-guided supplement of the thorough tier: Go's native fuzzer
// mutates byte strings (seeded with the repository's example scripts and the token
// vocabulary) and every input goes through the same oracle as the `total` sub-check
// (no panic, no hang, *parser.Error with an in-range position, same result twice).
func FuzzC15Parse(f *testing.F) {
	repo := os.Getenv("VERIF_REPO_DIR")
	if repo == "" {
		repo = "/repo"
	}
	for _, pat := range []string{"_example/scripts/*.ank", "core/testdata/*.ank"} {
		files, _ := filepath.Glob(filepath.Join(repo, pat))
		for _, fn := range files {
			if b, err := os.ReadFile(fn); err == nil && len(b) < 8192 {
				f.Add(b)
			}
		}
	}
	for _, tok := range vocab {
		f.Add([]byte(tok))
	}
	f.Add([]byte("a = /* c\n */ b +"))
	f.Add([]byte(";\n;x = 1"))
	f.Add([]byte("x++; y--\nz++"))
	// chains of ++ / --: the parser shares the operand node of `x--` (it stands for x = x - 1), so the
	// tree of a chain is a graph that is exponentially larger when rendered as a tree (see internal/dump)
	f.Add([]byte("\"\"" + strings.Repeat("-", 400)))
	f.Add([]byte("a" + strings.Repeat("+", 301) + "\nb" + strings.Repeat("-", 77)))
	// hostile constants: a backslash in a quoted string followed by the ends of the ASCII range
	for _, q := range []string{"\"", "'"} {
		for _, r := range []string{"\x00", "\x7f", "\x80", "\xff", "~", "\n"} {
			f.Add([]byte(q + "\\" + r + q))
			f.Add([]byte(q + "\\" + r))
		}
	}
	f.Fuzz(func(t *testing.T, data []byte) {
		if len(data) > 4096 {
			return
		}
		if fail := oracleTotal(Input{Kind: "fuzz", Src: string(data)}, &h.Obs{}); fail != nil {
			t.Fatalf("%s\n%s", fail.Sig, fail.Msg)
		}
	})
}
