// Eighth round: sub-checks "cancel8" (new cores and wrappers, own case stream) and "history" (earlier runs of the
// process / of the environment, then a cancellable run).
package c02

import (
	"context"
	"fmt"
	"sort"
	"strings"
	"sync/atomic"
	"time"

	"github.com/mattn/anko/env"
	"github.com/mattn/anko/vm"
	"pgregory.net/rapid"

	"verif/internal/h"
)

// ---------- cores ----------

func isCore8(core string) bool {
	return core == "expr_recursion" || core == "expr_recursion_quiet" || core == "module_race"
}

// exprShapes: recursions in which an invocation consists of ONE expression (or nearly): the work is done in ternaries,
// && / ||, arithmetic and nested calls, not in statements. The call that starts it is a single statement, no loop.
var exprShapes = []string{"ret_ternary", "ret_logic", "ret_helper", "ret_mutual", "ret_fn5", "ret_variadic", "ret_anon_var", "ret_in_module", "ret_closure", "ret_call_stmt", "expr_stmt", "if_return"}

// shapeGroup: the form of the function bodies of an expression recursion
func shapeGroup(shape string) string {
	switch shape {
	case "expr_stmt":
		return "one-expression-statement"
	case "if_return":
		return "if-and-return"
	}
	return "one-return-statement"
}

// exprSrc renders an expression recursion; leaf is what an invocation at the bottom evaluates: the host call tickz()
// (spinning core) or the constant 0 (quiet core: nothing calls the host, only the return of the run is observed)
func exprSrc(shape, leaf string, quiet bool) string {
	call := "erx = er(90)"
	var defs string
	switch shape {
	case "ret_ternary":
		defs = "func er(n) {\n return n < 2 ? n + " + leaf + " : er(n - 1) + er(n - 2)\n}"
	case "ret_logic":
		defs = "func er(n) {\n return (n < 1 && " + leaf + " == 0) || (er(n - 1) && er(n - 2))\n}"
	case "ret_helper":
		defs = "func ead(a, b) {\n return a + b\n}\nfunc er(n) {\n return n < 2 ? " + leaf + " : ead(er(n - 1), er(n - 2))\n}"
	case "ret_mutual":
		defs = "func er(n) {\n return n < 2 ? " + leaf + " : erb(n - 1) + erb(n - 2)\n}\nfunc erb(n) {\n return er(n)\n}"
	case "ret_fn5":
		defs = "func er(n, a, b, c, d) {\n return n < 2 ? " + leaf + " : er(n - 1, a, b, c, d) + er(n - 2, a, b, c, d)\n}"
		call = "erx = er(90, 1, 2, 3, 4)"
	case "ret_variadic":
		defs = "func er(n...) {\n return n[0] < 2 ? " + leaf + " : er(n[0] - 1) + er(n[0] - 2)\n}"
	case "ret_anon_var":
		defs = "er = func(n) {\n return n < 2 ? " + leaf + " : er(n - 1) + er(n - 2)\n}"
	case "ret_in_module":
		defs = "module erm {\n func er(n) {\n  return n < 2 ? " + leaf + " : er(n - 1) + er(n - 2)\n }\n}"
		call = "erx = erm.er(90)"
	case "ret_closure":
		defs = "func ermk() {\n return func(n) {\n  return n < 2 ? " + leaf + " : er(n - 1) + er(n - 2)\n }\n}\ner = ermk()"
	case "ret_call_stmt":
		defs = "func er(n) {\n return n < 2 ? " + leaf + " : er(n - 1) + er(n - 2)\n}"
		call = "er(90)"
	case "expr_stmt":
		// no return statement at all: the body is one expression statement
		defs = "func er(n) {\n n < 2 ? " + leaf + " : er(n - 1) + er(n - 2)\n}"
	case "if_return":
		defs = "func er(n) {\n if n < 2 {\n  return " + leaf + "\n }\n return er(n - 1) + er(n - 2)\n}"
	default:
		panic("unknown expression recursion " + shape)
	}
	if quiet {
		return defs + "\nentered()\n" + call
	}
	return defs + "\n" + call
}

// module race: the main flow (first role) and one or two goroutines of the script work on ONE module at the same time,
// each in a loop of its own that calls nothing of the host. Copying the module (assigning it), writing a member,
// writing through a function of the module, reading, and writing the scope the module lives in.
var raceRoles = []string{"copy_let", "copy_let", "copy_var", "write_member", "write_member", "write_const", "write_via_func", "read_member", "call_func", "write_outer"}

func roleStmt(role string, i int) string {
	switch role {
	case "copy_let":
		return fmt.Sprintf("snap%d = stats", i)
	case "copy_var":
		return fmt.Sprintf("var snapv%d = stats", i)
	case "write_member":
		return "stats.hits = stats.hits + 1"
	case "write_const":
		return fmt.Sprintf("stats.hits = %d", i)
	case "write_via_func":
		return "stats.bump()"
	case "read_member":
		return fmt.Sprintf("seen%d = stats.hits", i)
	case "call_func":
		return fmt.Sprintf("seen%d = stats.get()", i)
	case "write_outer":
		return "outerv = outerv + 1"
	}
	panic("unknown role " + role)
}

func isCopier(role string) bool { return strings.HasPrefix(role, "copy_") }
func isWriter(role string) bool { return strings.HasPrefix(role, "write_") }

func moduleRaceSrc(roles []string) string {
	if len(roles) < 2 {
		roles = []string{"copy_let", "write_member"}
	}
	var b strings.Builder
	b.WriteString("module stats {\n hits = 0\n func bump() {\n  hits = hits + 1\n }\n func get() {\n  return hits\n }\n}\nouterv = 0\n")
	for i := 1; i < len(roles); i++ {
		fmt.Fprintf(&b, "go func() {\n for {\n  %s\n }\n}()\n", roleStmt(roles[i], i))
	}
	fmt.Fprintf(&b, "entered()\nfor {\n %s\n}", roleStmt(roles[0], 0))
	return b.String()
}

func core8Src(c Case) string {
	switch c.Core {
	case "expr_recursion":
		return exprSrc(c.Shape, "tickz()", false)
	case "expr_recursion_quiet":
		return exprSrc(c.Shape, "0", true)
	case "module_race":
		return moduleRaceSrc(c.Roles)
	}
	panic("unknown core " + c.Core)
}

// ---------- wrappers ----------

// Deferred calls of a frame that has ALREADY failed: the core runs inside a deferred call, and the body of the frame
// ended with a real error (throw, runtime error) or a deferred call registered later (so run earlier) failed. The
// interruption of the deferred call is what the run must report, not the error the frame already had.
var wrappers8 = []string{"defer_then_throw", "defer_then_throw_top", "defer_then_error", "defer_named_then_throw", "defer_behind_throwing_defer", "defer_behind_throwing_defer_top", "defer_then_throw_fn5", "defer_then_throw_variadic", "defer_then_throw_named_frame", "defer_then_throw_module", "defer_then_failing_catch"}

// ownFrame8: wrappers that register the deferred call in the CURRENT frame, and what is rendered instead when that
// frame would be a joined goroutine's (see deferFrameIsGoroutine)
var ownFrame8 = map[string]string{"defer_then_throw_top": "defer_then_throw", "defer_behind_throwing_defer_top": "defer_behind_throwing_defer"}

func wrap8(w, body string, level int, fn, sent string) (string, bool) {
	// the deferred call that runs the core
	dcall := "defer func() {\n" + indent(body) + sent + "\n}()"
	switch w {
	case "defer_then_throw":
		return "func() {\n" + indent(dcall) + "\n throw \"x\"\n}()" + sent, true
	case "defer_then_throw_top":
		return dcall + "\nthrow \"x\"", true
	case "defer_then_error":
		return "func() {\n" + indent(dcall) + "\n nosuchfn()\n}()" + sent, true
	case "defer_named_then_throw":
		return "func " + fn + "() {\n if warmup == 1 {\n  return 0\n }\n" + indent(body) + sent + "\n return 1\n}\nfunc() {\n defer " + fn + "()\n throw \"x\"\n}()" + sent, true
	case "defer_behind_throwing_defer":
		return "func() {\n" + indent(dcall) + "\n defer func() {\n  throw \"y\"\n }()\n return 1\n}()" + sent, true
	case "defer_behind_throwing_defer_top":
		return dcall + "\ndefer func() {\n throw \"y\"\n}()" + sent, true
	case "defer_then_throw_fn5":
		return "func(a, b, c, d, e) {\n" + indent(dcall) + "\n throw \"x\"\n}(1, 2, 3, 4, 5)" + sent, true
	case "defer_then_throw_variadic":
		return "func(a...) {\n" + indent(dcall) + "\n throw \"x\"\n}(1, 2)" + sent, true
	case "defer_then_throw_named_frame":
		return "func " + fn + "() {\n if warmup == 1 {\n  return 0\n }\n" + indent(dcall) + "\n throw \"x\"\n}\n" + fn + "()" + sent, true
	case "defer_then_throw_module":
		// (whether the deferred calls of a module body that failed are run is not specified: where they are not, the
		// core is not reached and the case is not judged)
		return fmt.Sprintf("module mdt%d {\n%s\n throw \"x\"\n}", level, indent(dcall)) + sent, true
	case "defer_then_failing_catch":
		// the error the frame ends with comes out of a catch block
		return "func() {\n" + indent(dcall) + "\n try {\n  throw \"x\"\n } catch e {\n  throw \"z\"\n }\n}()" + sent, true
	}
	return "", false
}

// failedFrameKind: the case has a wrapper of this family and msg is the error its frame ended with: which kind of frame
// (the innermost such wrapper decides)
func failedFrameKind(c Case, msg string) string {
	if msg != "x" && msg != "y" && msg != "z" && !strings.Contains(msg, "nosuchfn") {
		return ""
	}
	for _, w := range c.Wrappers {
		if _, ok := wrap8(w, "", 0, "", ""); !ok {
			continue
		}
		switch {
		case strings.HasSuffix(w, "_top"):
			return "current"
		case strings.HasSuffix(w, "_module"):
			return "module"
		}
		return "function"
	}
	return ""
}

// ---------- generator of "cancel8" ----------

var spinCores8 = []string{"expr_recursion", "expr_recursion", "expr_recursion", "loop", "loop_cond", "recursion", "throw_spin", "forin_map", "fanout_recv"}
var blockCores8 = []string{"module_race", "module_race", "module_race", "expr_recursion_quiet", "recv", "send", "range_chan", "quiet_loop"}

func oldWrapper(t *rapid.T) string {
	for {
		if w := rapid.SampledFrom(wrappers).Draw(t, "oldwrapper"); w != "callback" {
			return w
		}
	}
}

func gen8(t *rapid.T) Case {
	c := Case{}
	c.Mode = rapid.SampledFrom([]string{"A", "A", "B", "B"}).Draw(t, "mode")
	if c.Mode == "B" && rapid.IntRange(0, 2).Draw(t, "blocked") != 0 {
		c.Core = rapid.SampledFrom(blockCores8).Draw(t, "core")
	} else {
		c.Core = rapid.SampledFrom(spinCores8).Draw(t, "core")
	}
	n := rapid.IntRange(0, 3).Draw(t, "nwrap")
	for i := 0; i < n; i++ {
		if rapid.Bool().Draw(t, "new") {
			c.Wrappers = append(c.Wrappers, rapid.SampledFrom(wrappers8).Draw(t, "wrapper"))
		} else {
			c.Wrappers = append(c.Wrappers, oldWrapper(t))
		}
	}
	c.K = rapid.IntRange(1, 40).Draw(t, "k")
	c.DelayUs = rapid.SampledFrom([]int{0, 1, 10, 50, 200, 1000, 2000}).Draw(t, "delay")
	c.Procs = rapid.SampledFrom([]int{0, 0, 1, 2, 4}).Draw(t, "procs")
	c.Stale = rapid.IntRange(0, 3).Draw(t, "stale") == 0
	c.Tail = rapid.Bool().Draw(t, "tail")
	if rapid.IntRange(0, 3).Draw(t, "pre?") == 0 {
		c.Pre = append(c.Pre, rapid.SampledFrom(preKinds).Draw(t, "pre"))
	}
	switch c.Core {
	case "expr_recursion", "expr_recursion_quiet":
		c.Shape = rapid.SampledFrom(exprShapes).Draw(t, "shape")
	case "module_race":
		nr := rapid.SampledFrom([]int{2, 2, 3}).Draw(t, "nroles")
		for i := 0; i < nr; i++ {
			c.Roles = append(c.Roles, rapid.SampledFrom(raceRoles).Draw(t, "role"))
		}
		// the loops need some time to meet, and processors to run on at the same time
		c.DelayUs = rapid.SampledFrom([]int{500, 2000, 5000}).Draw(t, "racedelay")
		c.Procs = rapid.SampledFrom([]int{0, 0, 2, 4}).Draw(t, "raceprocs")
		c.Pre = nil
	case "quiet_loop":
		c.Head = rapid.SampledFrom(quietHeads).Draw(t, "head")
		c.Body = rapid.SampledFrom(quietBodies).Draw(t, "body")
	}
	return c
}

func oracle8(c Case, o *h.Obs) *h.Fail { return judge("cancel8", c, nil, o) }

func classes8(c Case, hist []Hist, o *h.Obs) {
	if c.Shape != "" {
		o.Class("expr_shape_" + c.Shape)
	}
	if c.Core == "module_race" {
		cp, wr := false, false
		for _, r := range c.Roles {
			o.Class("race_role_" + r)
			cp = cp || isCopier(r)
			wr = wr || isWriter(r)
		}
		if cp && wr {
			o.Class("module_race_with_a_copier_and_a_writer")
		}
		o.Class(fmt.Sprintf("module_race_flows_%d", len(c.Roles)))
	}
	failed := false
	for i, w := range c.Wrappers {
		if _, ok := wrap8(w, "", 0, "", ""); ok {
			failed = true
			if c.Tail {
				o.Class("deferred_call_of_a_failed_frame_in_tail_position")
			}
			if i == len(c.Wrappers)-1 {
				o.Class("deferred_call_of_a_failed_frame_outermost")
			}
		}
	}
	if failed {
		o.Class("deferred_call_of_a_failed_frame")
	}
	for _, hi := range hist {
		if hi.SameEnv {
			o.Class("earlier_run_same_env_" + hi.Kind)
		} else {
			o.Class("earlier_run_other_env_" + hi.Kind)
		}
	}
	if hist != nil {
		o.Class(fmt.Sprintf("earlier_runs_%d", len(hist)))
		if usesReflectPath(c) {
			o.Class("earlier_runs_then_a_function_literal_of_the_reflect_path")
		}
	}
}

// usesReflectPath: the program evaluates a function literal that is variadic or has five or more parameters
func usesReflectPath(c Case) bool {
	src := source(c)
	return strings.Contains(src, "...)") || strings.Contains(src, "(a, b, c, d, e)") || strings.Contains(src, "(n, a, b, c, d)")
}

// ---------- earlier runs ("history") ----------

// Hist is one earlier run: a complete call of the interpreter that ends by itself (most of them with an ordinary
// script error, some because their own context is cancelled), in the environment of the cancellable run or in another
// one. Nothing is asserted about it except that it returns.
type Hist struct {
	Kind    string `json:"kind"`
	SameEnv bool   `json:"same_env,omitempty"`
}

type HCase struct {
	History []Hist `json:"history"`
	Later   Case   `json:"later"`
}

var histKindsAll = []string{"too_many_params", "too_many_params_variadic", "too_many_params_named", "max_params_ok", "parse_error", "throw_top", "error_in_fn5", "error_in_variadic", "wrong_arg_count_fn5", "failed_type_path", "failed_module_body", "error_in_deferred", "throw_with_defer", "host_panic", "host_panic_in_fn5", "cancelled_spin", "cancelled_blocked", "cancelled_in_fn5", "cancelled_in_deferred", "failed_member_assign", "failed_goroutine_joined", "error_in_for_in", "failed_make_type", "error_in_module_variadic", "module_copy", "ok_run"}

func params(n int) string {
	ps := make([]string, n)
	for i := range ps {
		ps[i] = fmt.Sprintf("hp%d", i)
	}
	return strings.Join(ps, ", ")
}

func histSrc(kind string) string {
	switch kind {
	case "too_many_params":
		return "func(" + params(126) + ") {\n}"
	case "too_many_params_variadic":
		return "hbv = func(" + params(140) + "...) {\n return 1\n}"
	case "too_many_params_named":
		return "func hbig(" + params(200) + ") {\n return 1\n}\nhbig()"
	case "max_params_ok":
		return "hmax = func(" + params(125) + ") {\n return hp0\n}"
	case "parse_error":
		return "for {"
	case "throw_top":
		return "throw \"h\""
	case "error_in_fn5":
		return "func(a, b, c, d, e) {\n nosuchfn()\n}(1, 2, 3, 4, 5)"
	case "error_in_variadic":
		return "func(a...) {\n return a[7]\n}(1)"
	case "wrong_arg_count_fn5":
		return "func(a, b, c, d, e) {\n return a\n}(1)"
	case "failed_type_path":
		return "module hma {\n hx = 0\n}\nmake(hma.nosuch.T)"
	case "failed_module_body":
		return "module hmb {\n nosuchfn()\n}"
	case "error_in_deferred":
		return "func() {\n defer func() {\n  nosuchfn()\n }()\n return 1\n}()"
	case "throw_with_defer":
		return "func() {\n defer id(1)\n throw \"h\"\n}()"
	case "host_panic":
		return "boom()"
	case "host_panic_in_fn5":
		return "func(a, b, c, d, e) {\n boom()\n}(1, 2, 3, 4, 5)"
	case "cancelled_spin":
		return "for {\n hcancel()\n}"
	case "cancelled_blocked":
		return "hlater()\nhv = <-never"
	case "cancelled_in_fn5":
		return "func(a, b, c, d, e) {\n for {\n  hcancel()\n }\n}(1, 2, 3, 4, 5)"
	case "cancelled_in_deferred":
		return "func() {\n defer func() {\n  for {\n   hcancel()\n  }\n }()\n return 1\n}()"
	case "failed_member_assign":
		return "module hmc {\n hx = 1\n}\nhmc.nosuch.y = 1"
	case "failed_goroutine_joined":
		return "hch = make(chan int64, 1)\ngo func() {\n try {\n  nosuchfn()\n } catch he {\n }\n hch <- 1\n}()\n<-hch"
	case "error_in_for_in":
		return "for hv in 1 {\n}"
	case "failed_make_type":
		return "make(nosuchtype)"
	case "error_in_module_variadic":
		return "module hmd {\n func hf(a...) {\n  nosuchfn()\n }\n}\nhmd.hf(1)"
	case "module_copy":
		return "module hme {\n hx = 1\n}\nhsnap = hme\nhme.hx = 2"
	case "ok_run":
		return "hx = 1"
	}
	panic("unknown earlier run " + kind)
}

func newHistEnv() *env.Env {
	e := env.NewEnv()
	e.Define("never", make(chan interface{}))
	e.Define("id", func(x interface{}) interface{} { return x })
	e.Define("boom", func() { panic("boom") })
	return e
}

// execWatched runs src in e under a context of its own. setup (may be nil) receives the cancel function before the run
// starts. A run that has not ended after patience is cancelled: hung = it did not return within patience of that
// cancellation either; slow = it returned only then.
func execWatched(e *env.Env, src string, patience time.Duration, setup func(cancel func())) (err error, hung, slow bool) {
	ctx, cancel := context.WithCancel(context.Background())
	// the context of an earlier run that ended by itself is NEVER cancelled afterwards (as the background context it
	// stands for): whatever the run left behind (a function value that remembers the context of its first call, say)
	// must not be stopped by it; the cancel function is kept, not called
	keptCancels = append(keptCancels, cancel)
	if setup != nil {
		setup(cancel)
	}
	done := make(chan error, 1)
	go func() {
		_, err := vm.ExecuteContext(ctx, e, nil, src)
		done <- err
	}()
	select {
	case err = <-done:
		return err, false, false
	case <-time.After(patience):
	}
	cancel()
	select {
	case err = <-done:
		return err, false, true
	case <-time.After(patience):
	}
	return nil, true, false
}

// runEarlier executes one earlier run. The kinds named cancelled_* cancel their own context (from inside the third
// call of hcancel(), or asynchronously 100 microseconds after hlater()).
func runEarlier(e *env.Env, src string, patience time.Duration) (hung bool, infra string) {
	_, hung, slow := execWatched(e, src, patience, func(cancel func()) {
		var n atomic.Int64
		e.Define("hcancel", func() {
			if n.Add(1) == 3 {
				cancel()
			}
		})
		e.Define("hlater", func() {
			go func() {
				time.Sleep(100 * time.Microsecond)
				cancel()
			}()
		})
	})
	if slow {
		return false, "did not end by itself"
	}
	return hung, ""
}

func histKinds(hist []Hist) string {
	ks := []string{}
	for _, hi := range hist {
		ks = append(ks, hi.Kind)
	}
	sort.Strings(ks)
	return strings.Join(ks, "+")
}

func histNote(hist []Hist) string {
	var parts []string
	for _, hi := range hist {
		where := "another environment"
		if hi.SameEnv {
			where = "the same environment"
		}
		src := histSrc(hi.Kind)
		if len(src) > 120 {
			src = src[:60] + " ... " + src[len(src)-40:]
		}
		parts = append(parts, fmt.Sprintf("%s (in %s): %q", hi.Kind, where, src))
	}
	return strings.Join(parts, "; ")
}

var keptCancels []context.CancelFunc
var hungHist = map[string]bool{}
var histHangs int // runs of the history sub-check that did not return
var poisoned bool // state of the process is damaged (reported): the search of the history sub-check is over
var seenKind = map[string]bool{}
var canaryOK map[string]bool // later runs that returned properly before any earlier run was made

// canaries: the simplest cancellable runs, one per way a script function / frame comes about. The first time a kind of
// earlier run is used in the process, every canary is run right after it (kind x canary is covered systematically,
// the random cases cover kind x everything else).
var canaryWrappers = []string{"fn0", "fn5", "fnvar", "go_join", "go_join5", "module", "deferred", "deferred_spread", "try_body"}

func canary(w string) Case {
	return Case{Core: "loop", Wrappers: []string{w}, Mode: "A", K: 2}
}

func canaryRuns(w string) bool {
	r := runCaseH(canary(w), time.Second, nil)
	return r.infra == "" && r.earlierHung == "" && r.cancelled && r.returned
}

func genH(t *rapid.T) HCase {
	var hc HCase
	n := rapid.SampledFrom([]int{1, 1, 2, 3}).Draw(t, "nhist")
	for i := 0; i < n; i++ {
		hc.History = append(hc.History, Hist{Kind: rapid.SampledFrom(histKindsAll).Draw(t, "kind"), SameEnv: rapid.Bool().Draw(t, "sameenv")})
	}
	if rapid.Bool().Draw(t, "later8") {
		hc.Later = gen8(t)
	} else {
		hc.Later = gen(t)
	}
	if hc.Later.Core == "deep_recursion" {
		hc.Later.Core = "recursion" // (half a second per case)
		hc.Later.K = 1 + hc.Later.K%40
	}
	return hc
}

func oracleH(hc HCase, o *h.Obs) *h.Fail {
	replay := ctxRef.InReplay()
	if poisoned && !replay {
		o.Excluded = "the state of the process is damaged by an earlier run (reported): the search is over"
		return nil
	}
	if histHangs >= 3 && !replay {
		o.Excluded = "three runs of this sub-check did not return (reported): the search is over"
		return nil
	}
	if canaryOK == nil {
		canaryOK = map[string]bool{}
		for _, w := range canaryWrappers {
			canaryOK[w] = canaryRuns(w)
		}
	}
	for _, hi := range hc.History {
		if seenKind[hi.Kind] && !replay {
			continue
		}
		seenKind[hi.Kind] = true
		// first use of this kind in the process: the earlier run alone, in an environment of its own, then the canaries
		if hung, _ := runEarlier(newHistEnv(), histSrc(hi.Kind), 3*time.Second); hung {
			continue // (reported by the case itself below)
		}
		for _, w := range canaryWrappers {
			if !canaryOK[w] || canaryRuns(w) {
				continue
			}
			one := []Hist{{Kind: hi.Kind}}
			f := h.Failf("C02|no-return|after-earlier-run:"+hi.Kind+"|later-run:"+w, "after an earlier run of the process (%s) a run that returned before does not return any more when its context is cancelled\nearlier run: %s\nsource of the cancellable run:\n%s", hi.Kind, histNote(one), source(canary(w)))
			if replay {
				return f
			}
			ctxRef.Violation("history", f, HCase{History: one, Later: canary(w)})
			leaked = true
			poisoned = true
			o.Excluded = "the state of the process is damaged by an earlier run (reported): the search is over"
			return nil
		}
	}
	return judge("history", hc.Later, hc.History, o)
}
