// C02 — cancelling the context always stops a running script.
// A case is a spinning or blocked core wrapped in up to three constructs; the context is
// cancelled either from inside the k-th tick() host call (deterministic) or asynchronously
// after the core was entered. Oracle: ExecuteContext returns within the bound with the
// error "execution interrupted", and no host call (tick / sentinel p) happens after the
// cancellation became visible.
package c02

import (
	"context"
	"fmt"
	"runtime"
	"sort"
	"strings"
	"sync"
	"sync/atomic"
	"testing"
	"time"

	"github.com/mattn/anko/env"
	"github.com/mattn/anko/vm"
	"pgregory.net/rapid"

	"verif/internal/h"
)

type Case struct {
	Core     string   `json:"core"`
	Wrappers []string `json:"wrappers"` // innermost first
	Mode     string   `json:"mode"`     // A: cancel inside the K-th tick; B: asynchronous
	K        int      `json:"k"`
	DelayUs  int      `json:"delay_us"`
	Procs    int      `json:"procs"`
	// Stale: the outermost wrapper's function is DEFINED by an earlier run of the same
	// environment (vm.Execute, background context) and only CALLED by the cancellable run
	Stale bool `json:"stale,omitempty"`
	// Tail: no statement follows the core at any level (no sentinel probes, no closing probe):
	// nothing polls the context after the interrupted construct, so an interruption that the
	// construct drops shows as a nil / wrong error of the whole run
	Tail bool `json:"tail,omitempty"`
	// Pre: go statements placed in front of the core (same frame): goroutines that were started earlier by the
	// run and have ended in some way (or are blocked) by the time the cancellation lands
	Pre []string `json:"pre,omitempty"`
	// Cap, Senders, PaceNs: parameters of the racing cores (several senders / receivers on one buffered channel)
	Cap     int `json:"cap,omitempty"`
	Senders int `json:"senders,omitempty"`
	PaceNs  int `json:"pace_ns,omitempty"`
	// Head, Body: loop form and body of the quiet loops (loops that make no host call at all)
	Head string `json:"head,omitempty"`
	Body string `json:"body,omitempty"`
	// Shape: form of the function bodies of the expression recursions; Roles: what the main flow (first) and the
	// goroutines of a module race do with the shared module (eighth round, round8_test.go)
	Shape string   `json:"shape,omitempty"`
	Roles []string `json:"roles,omitempty"`
}

var spinCores = []string{"loop", "loop_cond", "cfor", "cfor_nocond", "forin_nested", "forin_map", "recursion", "loop_in_switch", "loop_nested_break", "loop_continue", "fanout_range", "fanout_recv", "fanout_recv2", "pipeline_relay", "deep_recursion", "fail_after_tick", "member_after_tick", "throw_spin", "fail_in_finally_try", "tick_sequence"}
var blockCores = []string{"recv", "send", "recv2", "range_chan", "recv_stmt", "drain_two", "drain_three", "forward_blocked", "forward_full", "module_write_after_failed_path", "send_race_host_room", "send_race_host_room", "send_race_script_room", "send_race_script_room", "recv_race_host_item", "quiet_loop", "quiet_loop"}

// quiet loops: head x body; nothing in them calls the host, only the return of the run is observed
var quietHeads = []string{"loop", "loop_cond", "cfor_nocond", "cfor", "forin_slice_in_loop", "forin_map_in_loop"}
var quietBodies = []string{"empty", "continue", "continue_first", "assign", "if_continue", "else_continue", "assign_continue", "inner_break", "inner_forin_continue", "switch_continue", "try_continue", "catch_continue"}

// preKinds are the go statements that may precede the core: the goroutine ends normally, with an error, with a
// Go panic of a host function (captured by the go statement when not in debug mode), or stays blocked
var preKinds = []string{"go_host_ok", "go_host_panic", "go_host_panic_args", "go_fn_ok", "go_fn_error", "go_fn_throw", "go_fn_host_panic", "go_fn_blocked", "go_fn5_error", "go_named_host_panic"}

func isRace(core string) bool {
	return strings.HasPrefix(core, "send_race") || strings.HasPrefix(core, "recv_race")
}
var wrappers = []string{"fn0", "fn2", "fn4", "fn5", "fnvar", "anon", "go_join", "go_join5", "try_body", "catch", "finally", "coalesce_l", "coalesce_r", "ternary", "deferred", "list_elem", "go_arg", "module", "if", "switch_case", "forin_once", "try_empty_catch", "try_empty_catch_e", "try_empty_finally", "deferred_implicit", "deferred_top", "deferred_twice", "return_call", "finally_after_throwing_catch", "finally_after_returning_catch", "callback", "defer_spin_behind", "defer_block_behind", "deferred_spread", "recv_ok_target", "recv_ok_target_new"}

func gen(t *rapid.T) Case {
	c := Case{Procs: 0}
	c.Mode = rapid.SampledFrom([]string{"A", "A", "A", "B"}).Draw(t, "mode")
	if c.Mode == "B" && rapid.Bool().Draw(t, "blocked") {
		c.Core = rapid.SampledFrom(blockCores).Draw(t, "core")
	} else {
		c.Core = rapid.SampledFrom(spinCores).Draw(t, "core")
	}
	n := rapid.IntRange(0, 3).Draw(t, "nwrap")
	for i := 0; i < n; i++ {
		w := rapid.SampledFrom(wrappers).Draw(t, "wrapper")
		c.Wrappers = append(c.Wrappers, w)
	}
	c.K = rapid.IntRange(1, 40).Draw(t, "k")
	c.DelayUs = rapid.SampledFrom([]int{0, 1, 10, 50, 200, 1000, 2000}).Draw(t, "delay")
	c.Procs = rapid.SampledFrom([]int{0, 0, 1, 2, 4}).Draw(t, "procs")
	c.Stale = rapid.IntRange(0, 3).Draw(t, "stale") == 0
	c.Tail = rapid.IntRange(0, 2).Draw(t, "tail") == 0
	if rapid.IntRange(0, 2).Draw(t, "pre?") == 0 {
		np := rapid.SampledFrom([]int{1, 1, 2}).Draw(t, "npre")
		for i := 0; i < np; i++ {
			c.Pre = append(c.Pre, rapid.SampledFrom(preKinds).Draw(t, "pre"))
		}
	}
	if isRace(c.Core) {
		c.Cap = rapid.IntRange(1, 3).Draw(t, "cap")
		c.Senders = rapid.IntRange(1, 3).Draw(t, "senders")
		c.PaceNs = rapid.SampledFrom([]int{1000, 3000, 10000}).Draw(t, "pace")
		// the racing goroutines need some time to meet
		c.DelayUs = rapid.SampledFrom([]int{200, 1000, 2000}).Draw(t, "racedelay")
		// no go statements in front of these cores: a run that does not return is then the core's
		c.Pre = nil
	}
	if c.Core == "quiet_loop" {
		c.Head = rapid.SampledFrom(quietHeads).Draw(t, "head")
		c.Body = rapid.SampledFrom(quietBodies).Draw(t, "body")
	}
	if c.Core == "tick_sequence" {
		// a straight line ends by itself: only a cancellation placed inside one of its calls is decisive
		c.Mode = "A"
	}
	if c.Core == "deep_recursion" {
		if rapid.IntRange(0, 9).Draw(t, "deep?") != 0 {
			c.Core = "recursion" // the deep core costs more than half a second per case: kept rare
		} else {
			// the cancellation lands tens of thousands of frames deep: unwinding must stay fast
			c.Mode = "A"
			c.K = rapid.IntRange(20000, 30000).Draw(t, "deepk")
		}
	}
	return c
}

func hasCallback(c Case) bool {
	for _, w := range c.Wrappers {
		if w == "callback" {
			return true
		}
	}
	return false
}

// ---------- rendering ----------

func preSrc(kind string) string {
	switch kind {
	case "go_host_ok":
		return "go id(1)"
	case "go_host_panic":
		return "go boom()"
	case "go_host_panic_args":
		return "go boomv(1, 2)"
	case "go_fn_ok":
		return "go func() {\n pv = 1\n}()"
	case "go_fn_error":
		return "go func() {\n nosuchfn()\n}()"
	case "go_fn_throw":
		return "go func() {\n throw \"g\"\n}()"
	case "go_fn_host_panic":
		return "go func() {\n boom()\n}()"
	case "go_fn_blocked":
		return "go func() {\n pv = <-pnever\n}()"
	case "go_fn5_error":
		return "go func(a, b, c, d, e) {\n nosuchfn()\n}(1, 2, 3, 4, 5)"
	case "go_named_host_panic":
		return "func pg(a) {\n boomv(a)\n}\ngo pg(1)"
	}
	panic("unknown prelude " + kind)
}

// raceSrc renders the racing cores: the main flow and c.Senders goroutines of the script work on ONE buffered
// channel at the same time. The main flow itself makes the room (or the item) its next operation needs, so once it is
// blocked nobody serves the channel any more: the run stays blocked until the cancellation.
func raceSrc(c Case) string {
	capacity, senders := c.Cap, c.Senders
	if capacity < 1 {
		capacity = 1
	}
	if senders < 1 {
		senders = 1
	}
	var b strings.Builder
	switch c.Core {
	case "send_race_host_room":
		// rc is a channel of the host; roomch() (host) takes one value out of it when there is one and returns it
		for i := 0; i < senders; i++ {
			b.WriteString("go func() {\n for {\n  rc <- pace()\n }\n}()\n")
		}
		b.WriteString("entered()\nfor {\n roomch() <- 1\n}")
	case "send_race_script_room":
		fmt.Fprintf(&b, "sc = make(chan int64, %d)\n", capacity)
		for i := 0; i < senders; i++ {
			b.WriteString("go func() {\n for {\n  sc <- pace()\n }\n}()\n")
		}
		b.WriteString("entered()\nsc <- 1\nfor {\n sv = <-sc\n sc <- 1\n}")
	case "recv_race_host_item":
		// itemch() (host) puts one value into rc when there is room and returns it
		for i := 0; i < senders; i++ {
			b.WriteString("go func() {\n for {\n  pace()\n  gv = <-rc\n }\n}()\n")
		}
		b.WriteString("entered()\nfor {\n sv = <-itemch()\n}")
	default:
		panic("unknown racing core " + c.Core)
	}
	return b.String()
}

// quietSrc renders a loop that spins without any host call: head x body.
func quietSrc(head, body string) string {
	var b string
	switch body {
	case "empty":
		b = ""
	case "continue":
		b = "continue"
	case "continue_first":
		b = "continue\nqx = 1"
	case "assign":
		b = "qx = 1"
	case "if_continue":
		b = "if qz == 0 {\n continue\n}"
	case "else_continue":
		b = "if qz == 1 {\n qx = 2\n} else {\n continue\n}"
	case "assign_continue":
		b = "qx = 1\ncontinue"
	case "inner_break":
		b = "for {\n break\n}"
	case "inner_forin_continue":
		b = "for qe in [1, 2] {\n continue\n}"
	case "switch_continue":
		b = "switch qz {\ncase 0:\n continue\n}"
	case "try_continue":
		b = "try {\n continue\n} catch qerr {\n}"
	case "catch_continue":
		b = "try {\n throw 1\n} catch qerr {\n continue\n}"
	default:
		panic("unknown quiet body " + body)
	}
	blk := func(h string) string {
		if b == "" {
			return h + " {\n}"
		}
		return h + " {\n" + indent(b) + "\n}"
	}
	pre := "qz = 0\nentered()\n"
	switch head {
	case "loop":
		return pre + blk("for")
	case "loop_cond":
		return "qc = true\n" + pre + blk("for qc")
	case "cfor_nocond":
		return pre + blk("for qi = 0; ; qi++")
	case "cfor":
		return pre + blk("for qi = 0; qi >= 0; qi++")
	case "forin_slice_in_loop":
		return pre + "for {\n" + indent(blk("for qv in big")) + "\n}"
	case "forin_map_in_loop":
		return pre + "for {\n" + indent(blk("for qk, qv in bigm")) + "\n}"
	}
	panic("unknown quiet head " + head)
}

func coreOf(c Case) string {
	var body string
	if c.Core == "quiet_loop" {
		body = quietSrc(c.Head, c.Body)
	} else if isRace(c.Core) {
		body = raceSrc(c)
	} else if isCore8(c.Core) {
		body = core8Src(c)
	} else {
		body = coreSrc(c.Core)
	}
	for i := len(c.Pre) - 1; i >= 0; i-- {
		body = preSrc(c.Pre[i]) + "\n" + body
	}
	return body
}

func coreSrc(core string) string {
	switch core {
	case "loop":
		return "for {\n tick()\n}"
	case "loop_cond":
		return "cnd = 1\nfor cnd {\n tick()\n}"
	case "cfor":
		return "for ci = 0; ci >= 0; ci++ {\n tick()\n}"
	case "cfor_nocond":
		return "for ci = 0; ; ci++ {\n tick()\n}"
	case "forin_nested":
		return "for ea in big {\n for eb in big {\n  for ec in big {\n   tick()\n  }\n }\n}"
	case "forin_map":
		return "for {\n for mk, mv in bigm {\n  tick()\n }\n}"
	case "deep_recursion":
		return "func deep(n) {\n tick()\n return deep(n + 1) + 1\n}\ndeep(0)"
	case "recursion":
		return "func rec(n) {\n tick()\n if n % 50 == 49 {\n  return n\n }\n return rec(n + 1)\n}\nfor {\n rec(0)\n}"
	case "tick_sequence":
		// no loop at all: a straight line of statements that are calls by name of a host function; every
		// statement polls the context, so nothing after the one in flight runs
		return strings.Repeat("tick()\n", 63) + "tick()"
	case "fail_after_tick":
		// the cancellation lands in the middle of a statement that then fails with an ordinary error inside a
		// try body: the ordinary error goes to the (empty) catch block, the interruption must still end the run
		return "for {\n try {\n  fv = [tick(), nosuch]\n } catch fe {\n }\n}"
	case "member_after_tick":
		return "for {\n try {\n  tick().nosuch\n } catch {\n }\n}"
	case "throw_spin":
		return "for {\n try {\n  tick()\n  throw \"x1\"\n } catch fe {\n }\n}"
	case "fail_in_finally_try":
		return "for {\n try {\n  fv = tick() + nosuch\n } catch fe {\n  fv = fe\n } finally {\n  fv = 0\n }\n}"
	case "loop_in_switch":
		return "for {\n switch 1 {\n case 1:\n  tick()\n }\n}"
	case "loop_nested_break":
		return "for {\n for {\n  tick()\n  break\n }\n}"
	case "loop_continue":
		return "for {\n tick()\n continue\n}"
	case "fanout_range":
		// a buffered channel fed by a spinning producer and drained by TWO consumers
		return "wch = make(chan int64, 3)\ngo func() {\n for {\n  wch <- 1\n }\n}()\ngo func() {\n for wv in wch {\n  tick()\n }\n}()\nfor wv in wch {\n tick()\n}"
	case "fanout_recv":
		return "wch = make(chan int64, 3)\ngo func() {\n for {\n  wch <- 1\n }\n}()\ngo func() {\n for {\n  wv = <-wch\n  tick()\n }\n}()\nfor {\n wv = <-wch\n tick()\n}"
	case "fanout_recv2":
		return "wch = make(chan int64, 2)\ngo func() {\n for {\n  wch <- 1\n }\n}()\ngo func() {\n for {\n  wv, wok = <-wch\n  tick()\n }\n}()\nfor wv in wch {\n tick()\n}"
	case "pipeline_relay":
		return "wa = make(chan int64, 2)\nwb = make(chan int64, 2)\ngo func() {\n for {\n  wa <- 1\n }\n}()\ngo func() {\n for {\n  wb <- <-wa\n }\n}()\nfor wv in wb {\n tick()\n}"
	case "drain_two":
		// consumers with EMPTY bodies: nothing but the loop itself can notice the cancellation
		return "wch = make(chan int64, 3)\ngo func() {\n for {\n  wch <- 1\n }\n}()\ngo func() {\n for wv in wch {\n }\n}()\nentered()\nfor wv in wch {\n}"
	case "drain_three":
		return "wch = make(chan int64, 2)\ngo func() {\n for {\n  wch <- 1\n }\n}()\ngo func() {\n for wv in wch {\n }\n}()\ngo func() {\n for wv in wch {\n }\n}()\nentered()\nfor wv in wch {\n}"
	case "forward_blocked":
		// channel-to-channel send: the value is received from fa, the send half blocks
		return "fa = make(chan int64, 1)\nfa <- 1\nentered()\nnever <- fa"
	case "forward_full":
		return "fa = make(chan int64, 4)\nfb = make(chan int64, 1)\nfa <- 1\nfa <- 2\nfa <- 3\nentered()\nfor {\n fb <- fa\n}"
	case "module_write_after_failed_path":
		// a type path whose first element is a module and whose second element does not exist fails; writing
		// into the module afterwards must not block (then spins until the cancellation)
		return "module ma {\n mx = 0\n}\ntry {\n make(ma.nosuch.T)\n} catch me {\n}\nentered()\nma.mx = 1\nfor {\n tick()\n}"
	case "recv":
		return "entered()\nbv = <-never"
	case "send":
		return "entered()\nnever <- 1"
	case "recv2":
		return "entered()\nbv, bok = <-never"
	case "range_chan":
		return "entered()\nfor bv in never {\n p(777)\n}"
	case "recv_stmt":
		return "entered()\nid(<-never)"
	}
	panic("unknown core " + core)
}

func indent(s string) string {
	return " " + strings.ReplaceAll(s, "\n", "\n ")
}

var sentinel int64 = 1000

// wrap puts body (statements) inside wrapper w and appends a sentinel probe that must
// never run once the context is cancelled.
func wrap(w string, body string, level int, tail bool) string {
	fn := fmt.Sprintf("w%d", level)
	sent := fmt.Sprintf("\np(%d)", sentinel+int64(level))
	if tail {
		sent = ""
	}
	def := func(params string) string {
		// warmup is 0 except during the earlier run of a Stale case, which calls the function once (it returns
		// at once) before the cancellable run calls it for real
		return "func " + fn + "(" + params + ") {\n if warmup == 1 {\n  return 0\n }\n" + indent(body) + sent + "\n return 1\n}\n"
	}
	switch w {
	case "fn0":
		return def("") + fn + "()" + sent
	case "fn2":
		return def("a, b") + fn + "(1, 2)" + sent
	case "fn4":
		return def("a, b, c, d") + fn + "(1, 2, 3, 4)" + sent
	case "fn5":
		return def("a, b, c, d, e") + fn + "(1, 2, 3, 4, 5)" + sent
	case "fnvar":
		return def("a...") + fn + "(1, 2)" + sent
	case "anon":
		return "func() {\n" + indent(body) + sent + "\n return 1\n}()" + sent
	case "go_join":
		return fmt.Sprintf("dn%d = make(chan int64)\ngo func() {\n%s%s\n dn%d <- 1\n}()\n<-dn%d", level, indent(body), sent, level, level) + sent
	case "go_join5":
		return fmt.Sprintf("dn%d = make(chan int64)\ngo func(a, b, c, d, e) {\n%s%s\n dn%d <- 1\n}(1, 2, 3, 4, 5)\n<-dn%d", level, indent(body), sent, level, level) + sent
	case "try_body":
		return "try {\n" + indent(body) + sent + "\n} catch e {" + sent + "\n}" + sent
	case "catch":
		return "try {\n throw 1\n} catch e {\n" + indent(body) + sent + "\n}" + sent
	case "finally":
		return "try {\n q = 1\n} catch e {\n q = 2\n} finally {\n" + indent(body) + sent + "\n}" + sent
	case "coalesce_l":
		return def("") + "cv = " + fn + "() ?? p(" + fmt.Sprint(sentinel+int64(level)) + ")" + sent
	case "coalesce_r":
		return def("") + "cv = nil ?? " + fn + "()" + sent
	case "ternary":
		return def("") + "cv = true ? " + fn + "() : 0" + sent
	case "deferred":
		return def("") + "func() {\n defer " + fn + "()\n return 2\n}()" + sent
	case "list_elem":
		return def("") + "cv = [" + fn + "(), p(" + fmt.Sprint(sentinel+int64(level)) + ")]" + sent
	case "go_arg":
		return def("") + "cv = id(" + fn + "())" + sent
	case "module":
		return fmt.Sprintf("module md%d {\n%s%s\n}", level, indent(body), sent) + sent
	case "if":
		return "if 1 {\n" + indent(body) + sent + "\n} else {" + sent + "\n}" + sent
	case "switch_case":
		return "switch 2 {\ncase 1:" + sent + "\ncase 2:\n" + indent(body) + sent + "\ndefault:" + sent + "\n}" + sent
	case "forin_once":
		return "for once in [1] {\n" + indent(body) + sent + "\n}" + sent
	case "try_empty_catch":
		return def("") + "try {\n " + fn + "()\n} catch {\n}" + sent
	case "try_empty_catch_e":
		return def("") + "try {\n " + fn + "()\n} catch e {\n}" + sent
	case "try_empty_finally":
		return def("") + "try {\n " + fn + "()\n} catch e {\n} finally {\n}" + sent
	case "deferred_implicit":
		return def("") + "func() {\n defer " + fn + "()\n}()" + sent
	case "deferred_top":
		return def("") + "defer " + fn + "()" + sent
	case "deferred_twice":
		return def("") + "func() {\n defer id(1)\n defer " + fn + "()\n defer id(2)\n return 2\n}()" + sent
	case "return_call":
		return def("") + "func() {\n return " + fn + "()\n}()" + sent
	case "finally_after_throwing_catch":
		// whether a finally block runs after a catch block that itself failed is not specified; where
		// it does, an interruption inside it must not be replaced by the catch block's error
		// (the error of the catch block is contained by an outer try, so that an enclosing goroutine
		// wrapper still signals its completion)
		return def("") + "try {\n try {\n  throw 1\n } catch e {\n  throw 2\n } finally {\n  " + fn + "()\n }\n} catch e2 {\n}" + sent
	case "finally_after_returning_catch":
		return def("") + "func() {\n try {\n  throw 1\n } catch e {\n  return 3\n } finally {\n  " + fn + "()\n }\n}()" + sent
	case "callback":
		return def("") + "call(" + fn + ")" + sent
	case "deferred_spread":
		// a deferred call of a variadic script function with a spread list
		return def("a...") + "func() {\n defer " + fn + "([1, 2]...)\n return 2\n}()" + sent
	case "recv_ok_target":
		// the core runs while the TARGET of the ok flag of a two-value receive is being evaluated
		return def("") + "okch = make(chan int64, 1)\nokch <- 1\nokm = {}\nokv = 0\nokv, okm[" + fn + "()] = <-okch" + sent
	case "recv_ok_target_new":
		// the same with a value target that is a new name (binding a new name must not clear the interruption)
		return def("") + "okch = make(chan int64, 1)\nokch <- 1\nokm = {}\nokw, okm[" + fn + "()] = <-okch" + sent
	case "defer_spin_behind":
		// the frame that is interrupted has registered a deferred SCRIPT function that would spin: it runs
		// under the same cancelled context and ends at its first statement
		return "func() {\n defer func() {\n  for {\n   tick()\n  }\n }()\n" + indent(body) + sent + "\n return 1\n}()" + sent
	case "defer_block_behind":
		return "func() {\n defer func() {\n  dbv = <-never\n }()\n" + indent(body) + sent + "\n return 1\n}()" + sent
	}
	if s, ok := wrap8(w, body, level, fn, sent); ok {
		return s
	}
	panic("unknown wrapper " + w)
}

func source(c Case) string {
	body := coreOf(c)
	for i, w := range c.Wrappers {
		if w == "deferred_top" && deferFrameIsGoroutine(c.Wrappers[i+1:]) {
			// a defer statement whose function frame is the joined goroutine's would run after the
			// goroutine has signalled completion: the main flow legitimately carries on (and may end
			// the run) while the deferred core is still active. Rendered with its own frame instead.
			w = "deferred"
		}
		if alt, ok := ownFrame8[w]; ok && deferFrameIsGoroutine(c.Wrappers[i+1:]) {
			w = alt // the same for the eighth-round wrappers that register deferred calls in the current frame
		}
		body = wrap(w, body, i+1, c.Tail)
	}
	if c.Tail {
		return body + "\n"
	}
	return body + "\np(999)\n"
}

// deferFrameIsGoroutine reports whether the nearest enclosing wrapper that opens a function
// frame (outer lists the enclosing wrappers, nearest first) is a joined goroutine.
func deferFrameIsGoroutine(outer []string) bool {
	for _, w := range outer {
		switch w {
		case "try_body", "catch", "finally", "module", "if", "switch_case", "forin_once":
			continue
		case "go_join", "go_join5":
			return true
		default:
			return false
		}
	}
	return false
}

// sourceParts splits the program into the definition of the outermost wrapper's function
// and the rest, when the outermost wrapper defines a named function first.
func sourceParts(c Case) (defs, rest string, ok bool) {
	src := source(c)
	if len(c.Wrappers) == 0 {
		return "", src, false
	}
	head := fmt.Sprintf("func w%d(", len(c.Wrappers))
	if !strings.HasPrefix(src, head) {
		return "", src, false
	}
	// the definition ends at the first line that is exactly "}" (inner lines are indented)
	i := strings.Index(src, "\n}\n")
	if i < 0 {
		return "", src, false
	}
	return src[:i+3], src[i+3:], true
}

// ---------- execution ----------

type result struct {
	returned   bool
	err        error
	runaway    bool
	postTicks  int64
	postProbes int64
	ticks      int64
	lateness   time.Duration
	entered    bool
	infra      string
	cancelled  bool // the harness did cancel the context
	// forced: the place of the cancellation was not reached within the patience (mode A: the k-th tick, mode B: the
	// entry of the core) and the run had not ended either: the context was cancelled all the same
	forced bool
	// earlierHung: an earlier run of the case (history kind, or "definition run") did not end by itself, was
	// cancelled and did not return within the bound either
	earlierHung string
	// ended: the goroutine that made the call is over (the call returned, or the harness ended it from inside tick())
	ended bool
}

const runawayLimit = 50

func runCase(c Case, bound time.Duration) result { return runCaseH(c, bound, nil) }

// runCaseH runs the earlier runs hist (eighth round), then the case.
func runCaseH(c Case, bound time.Duration, hist []Hist) result {
	src := source(c)
	if c.Procs > 0 && !leaked {
		// (a run that did not return may still keep a processor busy: later cases then leave GOMAXPROCS alone)
		defer runtime.GOMAXPROCS(runtime.GOMAXPROCS(c.Procs))
	}
	var ticks, post, postP atomic.Int64
	var cancelled, runaway atomic.Bool
	var cancelAt, returnAt atomic.Int64 // on the monotonic clock, relative to base
	base := time.Now()
	ctx, cancel := context.WithCancel(context.Background())
	defer cancel()
	enteredCh := make(chan struct{})
	var enteredOnce sync.Once
	doCancel := func() {
		cancelAt.Store(int64(time.Since(base)) + 1)
		cancel()
		// only now is the cancellation visible to every statement that starts: host calls
		// are counted as "after the cancellation" from here on
		cancelled.Store(true)
	}
	e := env.NewEnv()
	big := make([]interface{}, 200)
	bigm := map[interface{}]interface{}{}
	for i := range big {
		big[i] = int64(i)
		if i < 40 {
			bigm[int64(i)] = int64(i)
		}
	}
	e.Define("big", big)
	e.Define("bigm", bigm)
	e.Define("never", make(chan interface{}))
	e.Define("pnever", make(chan interface{})) // a second channel nobody serves, for goroutines started in front of the core
	e.Define("id", func(x interface{}) interface{} { return x })
	e.Define("call", func(f func()) { f() })
	e.Define("entered", func() { enteredOnce.Do(func() { close(enteredCh) }) })
	tickFn := func() {
		n := ticks.Add(1)
		if cancelled.Load() {
			if post.Add(1) > runawayLimit {
				runaway.Store(true)
				runtime.Goexit()
			}
			return
		}
		if n == 1 {
			enteredOnce.Do(func() { close(enteredCh) })
		}
		if c.Mode == "A" && n == int64(c.K) {
			doCancel()
		}
	}
	e.Define("tick", tickFn)
	// the same call with a result, for use inside expressions
	e.Define("tickz", func() int64 { tickFn(); return 0 })
	e.Define("warmup", int64(0))
	// host functions that panic: a go statement captures the panic (not in debug mode)
	e.Define("boom", func() { panic("boom") })
	e.Define("boomv", func(a ...interface{}) int64 { var m map[string]int64; m["x"] = 1; return 0 })
	if isRace(c.Core) {
		capacity := c.Cap
		if capacity < 1 {
			capacity = 1
		}
		rc := make(chan int64, capacity)
		e.Define("rc", rc)
		// pace() keeps the calling goroutine busy for a short, varying time (a pseudo-random sequence fixed by the case)
		var paceState atomic.Uint64
		paceState.Store(uint64(c.PaceNs)*2654435761 + uint64(c.Senders)*97 + uint64(capacity))
		paceNs := uint64(c.PaceNs)
		if paceNs < 1 {
			paceNs = 1
		}
		e.Define("pace", func() int64 {
			x := paceState.Add(0x9E3779B97F4A7C15)
			x ^= x >> 29
			x *= 0xBF58476D1CE4E5B9
			x ^= x >> 32
			d := time.Duration(x % paceNs)
			for t0 := time.Now(); time.Since(t0) < d; {
			}
			return 2
		})
		e.Define("roomch", func() chan int64 {
			select {
			case <-rc:
			default:
			}
			return rc
		})
		e.Define("itemch", func() chan int64 {
			select {
			case rc <- 3:
			default:
			}
			return rc
		})
	}
	e.Define("p", func(id int64) int64 {
		if cancelled.Load() {
			postP.Add(1)
		}
		return id
	})
	var res result
	for _, hi := range hist {
		he := e
		if !hi.SameEnv {
			he = newHistEnv()
		}
		if hung, infra := runEarlier(he, histSrc(hi.Kind), bound); hung {
			res.earlierHung = hi.Kind
			return res
		} else if infra != "" {
			res.infra = "earlier run " + hi.Kind + ": " + infra
			return res
		}
	}
	if c.Stale {
		if defs, rest, ok := sourceParts(c); ok {
			// an earlier run of the same environment defines the function
			pre := defs
			if call := strings.SplitN(rest, "\n", 2)[0]; strings.HasPrefix(call, fmt.Sprintf("w%d(", len(c.Wrappers))) && strings.HasSuffix(call, ")") {
				// ... and calls it once, under its own (background) context
				pre = "warmup = 1\n" + defs + call + "\nwarmup = 0\n"
			}
			// (run under a context of its own that is cancelled only when the run does not end by itself)
			if err, hung, slow := execWatched(e, pre, bound, nil); hung {
				res.earlierHung = "definition run"
				return res
			} else if slow {
				res.infra = "definition run did not end by itself"
				return res
			} else if err != nil {
				res.infra = "definition run failed: " + err.Error()
				return res
			}
			src = rest
		}
	}
	done := make(chan struct{})
	go func() {
		defer close(done)
		_, err := vm.ExecuteContext(ctx, e, nil, src)
		returnAt.Store(int64(time.Since(base)) + 1)
		res.err = err
		res.returned = true
	}()
	if c.Mode == "B" {
		select {
		case <-enteredCh:
			res.entered = true
		case <-done:
		case <-time.After(10 * time.Second):
			// the run neither reached its core nor ended: its context is cancelled all the same
			res.forced = true
			doCancel()
		}
		if res.entered {
			if c.DelayUs > 0 {
				time.Sleep(time.Duration(c.DelayUs) * time.Microsecond)
			}
			doCancel()
		}
	}
	select {
	case <-done:
	case <-time.After(bound + 2*time.Second):
		if cancelAt.Load() == 0 {
			// mode A, the k-th tick was not reached and the run has not ended: its context is cancelled all the same
			res.forced = true
			doCancel()
			select {
			case <-done:
			case <-time.After(bound + 2*time.Second):
			}
		}
	}
	select {
	case <-done:
		res.ended = true
		// the time between the cancellation and the return of the call itself (both taken on the monotonic clock,
		// the second on the goroutine that made the call)
		if at := cancelAt.Load(); at != 0 && returnAt.Load() > at {
			res.lateness = time.Duration(returnAt.Load() - at)
		}
	default:
		res.returned = false
		// stop a runaway script for good so that it does not disturb later cases
		cancelled.Store(true)
		post.Store(runawayLimit)
	}
	res.cancelled = cancelAt.Load() != 0
	res.runaway = runaway.Load()
	res.postTicks = post.Load()
	res.postProbes = postP.Load()
	res.ticks = ticks.Load()
	return res
}

func oracle(c Case, o *h.Obs) *h.Fail { return judge("cancel", c, nil, o) }

// judge runs the case (after the earlier runs hist, eighth round) and decides it; check is the name of the
// sub-check the case belongs to (failures that are reported unshrunk are recorded under it).
func judge(check string, c Case, hist []Hist, o *h.Obs) *h.Fail {
	src := source(c)
	o.Key = fmt.Sprintf("%s|%s|%d|%d|%d|%v", src, c.Mode, c.K, c.DelayUs, c.Procs, c.Stale)
	if isRace(c.Core) {
		o.Key += fmt.Sprintf("|%d", c.PaceNs)
	}
	for _, hi := range hist {
		o.Key += fmt.Sprintf("|%s/%v", hi.Kind, hi.SameEnv)
	}
	// the case as it is saved with a failure that is reported unshrunk
	saved := func(c Case) interface{} {
		if check == "history" {
			return HCase{History: hist, Later: c}
		}
		return c
	}
	o.Note = fmt.Sprintf("mode=%s k=%d delay=%dus procs=%d\n%s", c.Mode, c.K, c.DelayUs, c.Procs, src)
	if c.Mode == "B" && c.Core == "tick_sequence" {
		o.Excluded = "a straight-line core needs the cancellation placed inside one of its calls"
		return nil
	}
	if c.Mode == "A" && !isSpin(c.Core) {
		o.Excluded = "blocked core needs asynchronous cancellation"
		return nil
	}
	if hasCallback(c) && !ctxRef.InReplay() {
		// known finding F-callback-ctx: excluded from the search by construction
		o.Excluded = "callback wrapper (known finding F-callback-ctx)"
		return nil
	}
	if (hungCores[c.Core] || (c.Core == "quiet_loop" && hungCores["quiet_loop:"+c.Body])) && !ctxRef.InReplay() {
		o.Excluded = "core already reported as not returning after cancellation"
		return nil
	}
	if !ctxRef.InReplay() {
		for _, k := range c.Pre {
			if hungPre[k] {
				o.Excluded = "go statement in front of the core already part of a run reported as not returning"
				return nil
			}
		}
	}
	if !ctxRef.InReplay() && (slowSites[c.Core+"|"+strings.Join(c.Wrappers, ">")] || slowSites["core:"+c.Core]) {
		o.Excluded = "site already reported as running on and not returning after cancellation"
		return nil
	}
	if !ctxRef.InReplay() {
		for _, hi := range hist {
			if hungHist[hi.Kind] {
				o.Excluded = "earlier run already part of a run reported as not returning"
				return nil
			}
		}
	}
	const bound = 3 * time.Second
	r := runCaseH(c, bound, hist)
	if r.earlierHung != "" {
		// an earlier run of the case did not end, was cancelled and did not return: reported as found, once per kind
		f := h.Failf("C02|no-return|earlier-run:"+r.earlierHung, "an earlier run of the case (%s) did not end by itself within %v; its context was then cancelled and ExecuteContext did not return within %v of that cancellation\nearlier runs: %s\nsource of the cancellable run:\n%s", r.earlierHung, bound, bound, histNote(hist), src)
		if !ctxRef.InReplay() {
			ctxRef.Violation(check, f, saved(c))
			leaked = true
			histHangs++
			for _, hi := range hist {
				hungHist[hi.Kind] = true
			}
			if r.earlierHung == "definition run" {
				markHung(c)
			}
			return nil
		}
		return f
	}
	if r.infra != "" {
		o.Excluded = "infrastructure: " + r.infra
		return nil
	}
	o.Class("core_" + c.Core)
	o.Class("mode_" + c.Mode)
	for i, w := range c.Wrappers {
		o.Class("wrapper_" + w)
		if i == 0 {
			o.Class("innermost_" + w + "_around_" + c.Core)
		}
	}
	o.Class(fmt.Sprintf("depth_%d", len(c.Wrappers)))
	if c.Tail {
		o.Class("tail_position_nothing_follows_the_core")
	}
	for _, k := range c.Pre {
		o.Class("pre_" + k)
	}
	o.Class(fmt.Sprintf("pre_count_%d", len(c.Pre)))
	classes8(c, hist, o)
	if isRace(c.Core) {
		o.Class(fmt.Sprintf("race_cap_%d_goroutines_%d", c.Cap, c.Senders))
	}
	if c.Core == "quiet_loop" {
		o.Class("quiet_head_" + c.Head)
		o.Class("quiet_body_" + c.Body)
	}
	if c.Stale {
		if _, _, ok := sourceParts(c); ok {
			o.Class("function_defined_by_an_earlier_run_" + c.Wrappers[len(c.Wrappers)-1])
		}
	}
	if !r.cancelled {
		// the run ended by itself before the cancellation could be placed (e.g. a finally block
		// that this implementation does not enter after a failing catch block)
		o.Excluded = "core not reached: the run ended before the cancellation"
		return nil
	}
	if r.forced && r.returned {
		// only a run that does not return after this cancellation of last resort is judged
		o.Excluded = "core not reached within the patience: the context was cancelled all the same and the run returned"
		ctxRef.AddClass("place_of_cancellation_not_reached_in_time_"+c.Core, 1)
		return nil
	}
	o.NonTrivial = len(c.Wrappers) >= 1 && (r.ticks >= int64(c.K) || r.entered || c.Mode == "A")
	site := c.Core + "|" + strings.Join(c.Wrappers, ">")
	sig := func(clause string) string {
		if hasCallback(c) {
			return "C02|callback-runs-under-background-context"
		}
		if clause == "no-return" || clause == "late-return" {
			if len(c.Pre) > 0 {
				// go statements precede the core: one signature per set of them, whatever the core and the wrappers
				ks := append([]string{}, c.Pre...)
				sort.Strings(ks)
				return "C02|" + clause + "|after:" + strings.Join(ks, "+")
			}
			if c.Core == "quiet_loop" {
				// one signature per loop body, whatever the loop form and the wrappers
				return "C02|" + clause + "|quiet_loop|body=" + c.Body
			}
			if c.Core == "expr_recursion" || c.Core == "expr_recursion_quiet" {
				return "C02|" + clause + "|" + c.Core + "|body=" + shapeGroup(c.Shape)
			}
			// a hang costs seconds per run: one signature per core, whatever the wrappers
			return "C02|" + clause + "|" + c.Core
		}
		if c.Core == "expr_recursion" && (clause == "keeps-running" || clause == "ticks-after-cancel") {
			// one signature per form of the function bodies, whatever the wrappers
			return "C02|" + clause + "|expr_recursion|body=" + shapeGroup(c.Shape)
		}
		if clause == "wrong-error" && r.err != nil {
			// the error a failed frame already had came out instead of the interruption of its deferred call: one
			// signature per kind of frame, whatever the core and the other wrappers
			if fk := failedFrameKind(c, r.err.Error()); fk != "" {
				return "C02|wrong-error|error-of-the-failed-frame-kept|frame=" + fk
			}
		}
		return "C02|" + clause + "|" + site
	}
	detail := fmt.Sprintf("mode=%s k=%d delay=%dus procs=%d ticks=%d post-cancel ticks=%d post-cancel probes=%d\nsource:\n%s", c.Mode, c.K, c.DelayUs, c.Procs, r.ticks, r.postTicks, r.postProbes, src)
	if r.forced {
		detail = "(the place of the cancellation was not reached within the patience and the run had not ended: the context was cancelled all the same)\n" + detail
	}
	if len(hist) > 0 {
		detail = "earlier runs: " + histNote(hist) + "\n" + detail
	}
	if r.runaway && !r.ended && !ctxRef.InReplay() {
		// the script ran on AND the call did not return: every re-execution costs seconds (and the minimisation does not
		// look at the clock inside one of its steps), so it is reported as found, unshrunk, once per site
		f := h.Failf(sig("keeps-running"), "the script kept calling tick() after the context was cancelled (stopped by the harness after %d calls), and ExecuteContext did not return within %v of the cancellation\n%s", runawayLimit, bound+2*time.Second, detail)
		ctxRef.Violation(check, f, saved(c))
		leaked = true
		slowSites[site] = true
		if len(slowSites) >= 8 {
			slowSites["core:"+c.Core] = true
		}
		return nil
	}
	if r.runaway {
		return h.Failf(sig("keeps-running"), "the script kept calling tick() after the context was cancelled (stopped by the harness after %d calls)\n%s", runawayLimit, detail)
	}
	if !r.returned {
		if !ctxRef.InReplay() && len(hist) > 0 {
			// is it the earlier runs? The same case is run once more without them: when it returns then, the earlier
			// runs are what is reported (one signature per set of kinds)
			if rb := runCaseH(c, bound, nil); rb.infra == "" && rb.earlierHung == "" && rb.returned {
				f := h.Failf("C02|no-return|after-earlier-run:"+histKinds(hist), "ExecuteContext did not return within %v of the cancellation; the same run without the earlier runs returned\n%s", bound+2*time.Second, detail)
				ctxRef.Violation(check, f, saved(c))
				leaked = true
				histHangs++
				for _, hi := range hist {
					hungHist[hi.Kind] = true
				}
				return nil
			}
			histHangs++
		}
		if !ctxRef.InReplay() && len(c.Pre) > 0 {
			// which part keeps the run from returning? The same program without the go statements in front of the
			// core is run once: when it does not return either, it is the one that is reported
			bare := c
			bare.Pre = nil
			if hungCores[bare.Core] || (bare.Core == "quiet_loop" && hungCores["quiet_loop:"+bare.Body]) {
				return nil // already reported
			}
			if rb := runCase(bare, bound); rb.infra == "" && rb.cancelled && !rb.returned {
				c, r, src = bare, rb, source(bare)
				detail = fmt.Sprintf("mode=%s k=%d delay=%dus procs=%d ticks=%d post-cancel ticks=%d post-cancel probes=%d\nsource:\n%s", c.Mode, c.K, c.DelayUs, c.Procs, r.ticks, r.postTicks, r.postProbes, src)
			}
		}
		f := h.Failf(sig("no-return"), "ExecuteContext did not return within %v of the cancellation\n%s", bound+2*time.Second, detail)
		if !ctxRef.InReplay() {
			// every reproduction of a hang costs seconds, so it is reported as found
			// (unshrunk) and further cases with this core are not executed again
			ctxRef.Violation(check, f, saved(c))
			markHung(c)
			return nil
		}
		return f
	}
	if r.lateness > bound && !ctxRef.InReplay() {
		// a late return is confirmed by running the case once more before it is reported (a stall of the machine
		// is not the interpreter's); a case that is not late again is counted and not judged
		r = runCaseH(c, bound, hist)
		if r.infra != "" || r.earlierHung != "" || !r.cancelled || (r.returned && r.lateness <= bound) {
			o.Excluded = "late return not confirmed when the case was run again"
			ctxRef.AddClass(fmt.Sprintf("late_return_not_confirmed_%s", c.Core), 1)
			return nil
		}
		if !r.returned {
			r.lateness = bound + 2*time.Second
		}
	}
	if r.lateness > bound {
		// every re-execution costs seconds: reported as found, unshrunk, once per core
		f := h.Failf(sig("late-return"), "ExecuteContext returned %v after the cancellation (bound %v)\n%s", r.lateness, bound, detail)
		if !ctxRef.InReplay() {
			ctxRef.Violation(check, f, saved(c))
			markHung(c)
			return nil
		}
		return f
	}
	if r.err == nil || r.err.Error() != "execution interrupted" {
		return h.Failf(sig("wrong-error"), "ExecuteContext returned error %v, want \"execution interrupted\"\n%s", r.err, detail)
	}
	if r.postProbes > 0 {
		return h.Failf(sig("statement-after-cancel"), "a probe statement ran after the cancellation: the interruption was swallowed and execution carried on\n%s", detail)
	}
	allowed := int64(0)
	if c.Mode == "B" {
		allowed = 2 // a tick may be in flight when the asynchronous cancel lands
	}
	if strings.HasPrefix(c.Core, "fanout") {
		allowed += 2 // a second consumer goroutine may have its own tick in flight
	}
	if r.postTicks > allowed {
		return h.Failf(sig("ticks-after-cancel"), "%d tick() calls happened after the cancellation (allowed %d)\n%s", r.postTicks, allowed, detail)
	}
	return nil
}

func isSpin(core string) bool {
	for _, s := range spinCores {
		if s == core {
			return true
		}
	}
	return core == "expr_recursion"
}

// replaying is set when a saved case is replayed (the callback wrapper is then judged
// instead of excluded, so that the known finding can be reproduced).
var ctxRef *h.Ctx
var hungCores = map[string]bool{}
var hungPre = map[string]bool{}
var slowSites = map[string]bool{} // sites (core|wrappers) whose run kept ticking and did not return: not executed again
var leaked bool // a run of this process did not return after its cancellation

// markHung keeps the process from paying for the same hang again: without go statements in front of the core the
// core is not executed again, with them those go statements are not generated again (the core stays in use)
func markHung(c Case) {
	leaked = true
	if len(c.Pre) > 0 {
		for _, k := range c.Pre {
			hungPre[k] = true
		}
		return
	}
	if c.Core == "quiet_loop" {
		hungCores["quiet_loop:"+c.Body] = true
		return
	}
	hungCores[c.Core] = true
}

func TestC02(t *testing.T) {
	c := h.New(t, "C02")
	defer c.Finish()
	ctxRef = c
	c.Rule("program = core wrapped in 0..3 constructs; cores: for{}, for cond{}, C-style loops, nested for-in over slices/maps, recursion, loops in switch / with break / continue, buffered channels fed by a spinning producer goroutine and drained by two consumers (for-in, receive, two-value receive) or relayed through a second channel (spinning), blocked receive / send / two-value receive / range over a channel nobody serves; wrappers: script functions of arity 0,2,4 (direct path), 5 and variadic (reflect path), anonymous call, go + join (both go paths), try body / catch / finally, ?? on either side, ternary, deferred call, list element, Go-call argument, module body, if, switch case, for-in body; every level is followed by a sentinel probe. cancel: mode A from inside the k-th tick() host call, mode B asynchronously d microseconds after the core was entered; GOMAXPROCS in {default,1,2,4}; in a quarter of the cases the outermost function is defined by an earlier run (background context) of the same environment and only called by the cancellable run. non-trivial = at least one wrapper and the cancel landed while the core was active; distinct = (source, mode, k, delay, procs). The callback wrapper (script function converted to a Go func) is the known finding F-callback-ctx: excluded from generation, reproduced from a committed replay")
	c.Rule("added after the seventh round: (a) in a third of the cases one or two go statements stand in front of the core (same frame): a host function that returns / panics (with and without arguments; the go statement captures the panic), a script function that ends normally / with a runtime error / with a thrown error / in a panicking host function / stays blocked on a channel of its own, through the direct and the reflect call path and by name; whatever became of those goroutines, the cancelled run must return; (b) racing cores (asynchronous mode, cancel 200..2000 us after entry): the main flow and 1..3 goroutines of the script send to ONE buffered channel (capacity 1..3) at the same time, the goroutines paced by a host call that takes 0..10 us; the main flow makes the room for its own next send (a host call in channel position that takes one value out, or a receive statement of its own), so once the main flow is blocked in its send nobody serves the channel and the run stays blocked until the cancellation; the mirror image for receives (the main flow puts the one item it then receives, the goroutines receive as well); (c) quiet loops (asynchronous mode): loop form {for, for cond, C-style with and without condition, for-in over a slice / a map inside for{}} x body {empty, continue, continue first, assignment, if / else branch that continues, assignment then continue, inner loop that breaks, inner for-in that continues, switch case / try body / catch block that continues}: nothing in them calls the host, the run must return with the interruption error")
	t0 := time.Now()
	lap := func(name string) {
		c.Extra("seconds_"+name, float64(int(time.Since(t0).Seconds()*10))/10)
		t0 = time.Now()
	}
	h.Run(c, "cancel", c.N(6400, 32000), gen, oracle)
	lap("cancel")
	c.Rule("added after the eighth round, sub-check cancel8 (own case stream; cores and wrappers of the earlier rounds are mixed in): (a) expression recursions: an invocation consists of one return expression (ternary, && / ||, a helper call, mutual recursion, five-parameter / variadic / anonymous / module / closure functions), of one expression statement, or of if + return; started by ONE statement (no loop), with a host call at the leaves (cancel inside its k-th call or asynchronously) or without any host call (asynchronous); (b) module races (asynchronous, 500..5000 us after entry): the main flow and one or two goroutines of the script each loop over one operation on ONE module: copy it (assignment / var), write a member, write through a function of the module, read, call, write the enclosing scope; (c) wrappers in which the core runs inside a deferred call of a frame that has ALREADY failed: body ended by throw / a runtime error / an error thrown from a catch block, or a deferred call registered later threw; anonymous, named, five-parameter, variadic frames, the current frame (top level), a module body; half of the cases in tail position; the run must report the interruption, not the error the frame already had. A place of cancellation that is not reached within the patience (and a run that has not ended) gets its context cancelled all the same: only 'does not return' is judged then")
	h.Run(c, "cancel8", c.N(1300, 6500), gen8, oracle8)
	lap("cancel8")
	c.Rule("added after the eighth round, sub-check history: 1..3 EARLIER runs (complete calls of the interpreter that end by themselves: 126 / 140 / 200 parameters rejected, 125 accepted, parse error, throw, runtime errors in five-parameter / variadic / deferred / module functions, wrong argument count, failed type path / module body / member assignment / make, host panics, runs whose own context is cancelled while spinning / blocked / in a deferred call, a joined goroutine that failed, a module copy, a successful run), each in the environment of the cancellable run or in another one, then a case of cancel / cancel8. The first time a kind of earlier run is used in the process every canary (for { tick() } in a function of arity 0 / 5 / variadic, goroutine, module, deferred call, try) is run right after it. A run that does not return is run again without the earlier runs to tell what it depends on; earlier runs and definition runs are watched (cancelled when they do not end; not returning then is reported)")
	h.Run(c, "history", c.N(500, 2500), genH, oracleH)
	lap("history")
}
