// C18 — the command-line tool reports exactly what the library computes.
// Differential oracle: the built anko executable (from the tree under test) vs
// vm.Execute in-process on the same source in an equally prepared environment
// (core.Import, bundled packages, args), with print/println/printf redirected to a buffer.
package c18

import (
	"bytes"
	"context"
	"errors"
	"fmt"
	"os"
	"os/exec"
	"path/filepath"
	"regexp"
	"sort"
	"strings"
	"sync"
	"syscall"
	"testing"
	"time"

	"github.com/mattn/anko/core"
	"github.com/mattn/anko/env"
	_ "github.com/mattn/anko/packages"
	"github.com/mattn/anko/vm"
	"pgregory.net/rapid"

	"verif/internal/h"
	"verif/internal/prog"
	"verif/internal/wild"
)

type Case struct {
	Kind string   `json:"kind"`
	Src  string   `json:"src"`
	Mode string   `json:"mode"` // file | e | missing | directory | below-file | fifo | dev-stdin | dev-fd
	Args []string `json:"args"`
	// Expect: for kind explicit-stdout the standard output is known by construction (the bundled
	// os.Stdout value cannot be captured in-process: it was bound when the package table was built)
	Expect string `json:"expect,omitempty"`
	// Inc: contents of the file @DIR@/inc.ank the script may load
	Inc string `json:"inc,omitempty"`
	// Fail: (kinds with an output given by construction) the script ends with a run error after
	// having printed Expect
	Fail bool `json:"fail,omitempty"`
	// Never: texts the script sends somewhere else than to standard output (standard error, a
	// file, a buffer it never prints)
	Never []string `json:"never,omitempty"`
	// Tags: class labels decided by the generator
	Tags []string `json:"tags,omitempty"`
}

// the probe functions of the generated programs, written in anko itself so that their
// effect is visible on standard output
const scriptProbes = `func p(a...) {
  if len(a) > 1 {
    println("p", a[0], a[1])
    return a[1]
  }
  println("p", a[0])
  return a[0]
}
func pfail(id) {
  println("pfail", id)
  throw "pfail"
}
`

var argPool = []string{"a", "b c", "", "42", "x=1", "héllo", "*", "'q'", "--", "arg-with-dash"}

// genModeArgs draws the way the script is supplied and its trailing arguments
func genModeArgs(t *rapid.T) Case {
	c := Case{Mode: rapid.SampledFrom([]string{"file", "file", "e"}).Draw(t, "mode")}
	n := rapid.IntRange(0, 3).Draw(t, "nargs")
	for i := 0; i < n; i++ {
		a := rapid.SampledFrom(argPool).Draw(t, "arg")
		if c.Mode == "e" && strings.HasPrefix(a, "-") {
			a = "x" + a // in -e mode a dash argument would be taken as a flag
		}
		c.Args = append(c.Args, a)
	}
	return c
}

// kinds whose script may as well be handed over as a file that is not a regular file
var streamable = map[string]bool{"model-program": true, "mutated-program": true, "wild-program": true, "tiny": true,
	"scope-builtins": true, "explicit-stdout": true, "other-streams": true, "odd-sources": true,
	"unfinished-line": true, "reload": true, "own-signal": true}

func isStream(mode string) bool { return mode == "fifo" || mode == "dev-stdin" || mode == "dev-fd" }

// maybeStream: the file argument names something that can be read but is not a regular file - a
// named pipe, /dev/stdin connected to a pipe (`gen | anko /dev/stdin a b`), /dev/fd/3 connected to a
// pipe (the shell's `anko <(gen) a b`). Its size is not known before it has been read to its end.
func maybeStream(t *rapid.T, c *Case, oneIn int) {
	if c.Mode != "file" || !streamable[c.Kind] || strings.ContainsRune(c.Src, 0) {
		return
	}
	if rapid.IntRange(0, oneIn-1).Draw(t, "stream") == 0 {
		c.Mode = rapid.SampledFrom([]string{"fifo", "dev-stdin", "dev-fd"}).Draw(t, "streammode")
	}
}

func gen(t *rapid.T) Case {
	c := genModeArgs(t)
	k := rapid.IntRange(0, 18).Draw(t, "kind")
	switch {
	case k == 18:
		c.Kind = "other-streams"
		genOtherStreams(t, &c)
	case k == 17:
		// the TYPES of the bundled packages (the in-process reference shares the package tables with the
		// command, so the expected output is given by construction)
		c.Kind = "explicit-stdout"
		ps := [][2]string{
			{"http = import(\"net/http\")\nc = make(http.Cookie)\nc.Name = \"n1\"\nprintln(c.Name)\n", "n1\n"},
			{"http = import(\"net/http\")\nc = make(http.Client)\nprintln(c.Timeout)\n", "0s\n"},
			{"u = import(\"net/url\")\nv = make(u.Values)\nv.Set(\"a\", \"1\")\nprintln(v.Get(\"a\"))\n", "1\n"},
			{"u = import(\"net/url\")\nx = make(u.URL)\nx.Host = \"h\"\nprintln(x.Host)\n", "h\n"},
			{"t = import(\"time\")\nd = make(t.Duration)\nprintln(d)\n", "0s\n"},
			{"s = import(\"sync\")\nw = make(s.WaitGroup)\nprintln(1)\n", "1\n"},
			{"s = import(\"sort\")\nx = make(s.StringSlice)\nprintln(len(x))\n", "0\n"},
		}
		pk := ps[rapid.IntRange(0, len(ps)-1).Draw(t, "pkgtype")]
		c.Src, c.Expect = pk[0], pk[1]
	case k == 15:
		// sources that are unusual as TEXTS: a very long line, a leading byte order mark, error messages
		// with per cent signs (the diagnostic line is the message, not a format)
		c.Kind = "odd-sources"
		switch rapid.IntRange(0, 3).Draw(t, "odd") {
		case 0:
			c.Mode = "file"
			n := rapid.SampledFrom([]int{65530, 65536, 65537, 70000, 140000}).Draw(t, "linelen")
			c.Src = "s = \"" + strings.Repeat("a", n) + "\"\nprintln(len(s))\nprintln(\"end\")\n"
		case 1:
			c.Mode = "file"
			c.Src = rapid.SampledFrom([]string{"\xEF\xBB\xBF", "\xEF\xBB\xBF\xEF\xBB\xBF", "\xFE\xFF", "\xFF\xFE"}).Draw(t, "bom") + "println(1)\nprintln(\"end\")\n"
		default:
			txt := rapid.SampledFrom([]string{"100%", "%d items", "50%s", "%", "a%%b%", "%v%", "rate 5 %", "%!s(MISSING)"}).Draw(t, "pct")
			c.Src = "println(\"a\")\nprintln(\"b\")\nthrow \"" + txt + "\"\n"
			if rapid.Bool().Draw(t, "viaerr") {
				c.Src = "println(\"a\")\nprintln(\"b\")\nx = nosuch_" + strings.ReplaceAll(strings.ReplaceAll(txt, "%", "p"), " ", "_") + "\n"
			}
		}
	case k == 16:
		// the script lives in a sub-directory and is named by a relative path: relative paths inside the
		// script still resolve against the directory the command was started in
		c.Kind = "relative-file"
		c.Mode = "file"
		c.Inc = "println(\"inc\")\n"
		c.Src = "os = import(\"os\")\nwd, err = os.Getwd()\nprintln(wd)\nload(\"inc.ank\")\nprintln(\"end\")\n"
		c.Expect = "@DIR@\ninc\nend\n"
	case k == 12:
		// builtins that reach back into the script's own scope: defined(name), load(file)
		c.Kind = "scope-builtins"
		v := rapid.SampledFrom([]string{"dv", "x", "args", "nosuch", "println"}).Draw(t, "dname")
		c.Src = "dv = 5\nx = \"s\"\nprintln(defined(\"" + v + "\"), defined(\"dv\"), defined(\"args\"), defined(\"nosuch\"))\nfunc f() {\n  var loc = 1\n  return [defined(\"loc\"), defined(\"dv\")]\n}\nprintln(f())\n"
		switch rapid.IntRange(0, 4).Draw(t, "load") {
		case 4:
			// the loaded file does not parse: load hands back the parser's error as a run error
			c.Inc = "println(\"inc\")\nx = (\n"
			c.Src += "println(\"before load\")\nif !defined(\"seen\") {\n  seen = 1\n  load(\"@DIR@/inc.ank\")\n}\nprintln(\"after load\")\n"
		case 0:
			c.Inc = "println(\"inc sees\", dv, len(args))\ninc_made = dv + 1\n"
			c.Src += "load(\"@DIR@/inc.ank\")\nprintln(\"after load\", inc_made)\n"
		case 1:
			c.Inc = "println(\"inc\")\nthrow \"from inc\"\n"
			c.Src += "load(\"@DIR@/inc.ank\")\nprintln(\"not reached\")\n"
		case 2:
			c.Src += "load(\"@DIR@/missing.ank\")\nprintln(\"not reached\")\n"
		}
	case k == 13:
		// output written through the bundled os.Stdout value, interleaved with the core builtins
		c.Kind = "explicit-stdout"
		var src, exp strings.Builder
		src.WriteString("os = import(\"os\")\nfmt = import(\"fmt\")\nio = import(\"io\")\n")
		n := rapid.IntRange(1, 6).Draw(t, "nwrites")
		for i := 0; i < n; i++ {
			txt := rapid.SampledFrom([]string{"a", "line", "x y", "é", "42", ""}).Draw(t, "txt") + fmt.Sprint(i)
			switch rapid.IntRange(0, 5).Draw(t, "how") {
			case 0:
				src.WriteString("println(\"" + txt + "\")\n")
				exp.WriteString(txt + "\n")
			case 1:
				src.WriteString("print(\"" + txt + "\")\n")
				exp.WriteString(txt)
			case 2:
				src.WriteString("os.Stdout.WriteString(\"" + txt + "\\n\")\n")
				exp.WriteString(txt + "\n")
			case 3:
				src.WriteString("fmt.Fprintln(os.Stdout, \"" + txt + "\", " + fmt.Sprint(i) + ")\n")
				exp.WriteString(txt + " " + fmt.Sprint(i) + "\n")
			case 4:
				src.WriteString("fmt.Fprintf(os.Stdout, \"%s|\", \"" + txt + "\")\n")
				exp.WriteString(txt + "|")
			default:
				src.WriteString("io.WriteString(os.Stdout, \"" + txt + ";\")\n")
				exp.WriteString(txt + ";")
			}
		}
		// the script may end with a run error, also right after a write that did not finish its line
		switch rapid.SampledFrom([]string{"ok", "ok", "ok", "throw", "undefined"}).Draw(t, "end13") {
		case "throw":
			src.WriteString("throw \"stop\"\n")
			c.Fail = true
		case "undefined":
			src.WriteString("noSuchFunction()\n")
			c.Fail = true
		}
		c.Src, c.Expect = src.String(), exp.String()
		if c.Fail {
			if strings.HasSuffix(c.Expect, "\n") {
				c.Tags = append(c.Tags, "explicit_fail_after_newline")
			} else {
				c.Tags = append(c.Tags, "explicit_fail_midline")
			}
		}
	case k == 14:
		// a script path that exists in some form but cannot be read as a file
		c.Kind = "unreadable-file"
		c.Mode = rapid.SampledFrom([]string{"directory", "below-file"}).Draw(t, "unreadable")
		c.Src = "println(\"must not run\")\n"
	case k <= 5:
		c.Kind = "model-program"
		p, _ := prog.Generate(t, prog.Profile{Scopes: true, Control: true, Errors: true, IncDec: true, MaxDepth: 3, MaxStmts: 4})
		extra := ""
		switch rapid.IntRange(0, 6).Draw(t, "extra") {
		case 0:
			extra = "println(args)\nprintln(len(args))\n"
		case 1:
			extra = "for ar in args {\n  print(ar, \";\")\n}\nprintln()\n"
		case 2:
			extra = "strs = import(\"strings\")\nprintln(strs.ToUpper(\"abc\"), strs.Repeat(\"x\", 3))\n"
		case 3:
			extra = "math = import(\"math\")\nprintf(\"%v %v\\n\", math.Abs(-2.5), len(args))\n"
		case 4:
			// output through a bundled package interleaved with the core builtins
			extra = "fmt = import(\"fmt\")\nprintln(\"core 1\")\nfmt.Println(\"pkg 1\")\nprint(\"core 2;\")\nfmt.Printf(\"pkg %d\\n\", 2)\nprintln(\"core 3\")\n"
		case 5:
			extra = "fmt = import(\"fmt\")\nfmt.Print(\"x\", 1, \"\\n\")\nfor fi = 0; fi < 2; fi++ {\n  println(fi)\n  fmt.Println(\"pkg\", fi)\n}\n"
		}
		c.Src = scriptProbes + extra + prog.Print(p)
		if rapid.IntRange(0, 3).Draw(t, "tail") == 0 {
			c.Src += "println(args[" + fmt.Sprint(rapid.IntRange(0, 3).Draw(t, "argi")) + "])\n"
		}
	case k <= 7:
		c.Kind = "mutated-program"
		p, _ := prog.Generate(t, prog.Profile{Control: true, Errors: true, MaxDepth: 2, MaxStmts: 3})
		r := []rune(scriptProbes + prog.Print(p))
		at := rapid.IntRange(len([]rune(scriptProbes)), len(r)-1).Draw(t, "at")
		switch rapid.IntRange(0, 2).Draw(t, "mut") {
		case 0:
			r = r[:at]
		case 1:
			end := at + rapid.IntRange(1, 5).Draw(t, "span")
			if end > len(r) {
				end = len(r)
			}
			r = append(append([]rune{}, r[:at]...), r[end:]...)
		default:
			ins := []rune(rapid.SampledFrom([]string{"(", ")", "{", "}", "\"", "else", "=", "...", "`", "1e", "0x"}).Draw(t, "ins"))
			r = append(append(append([]rune{}, r[:at]...), ins...), r[at:]...)
		}
		c.Src = string(r)
	case k <= 8:
		c.Kind = "wild-program"
		c.Src = "println(\"start\", len(args))\n" + wild.Program(t, wild.Opts{Loops: false, Go: false, Prelude: true, MaxDepth: 3, MaxStmts: 3}) + "\nprintln(\"end\")\n"
	case k <= 10:
		c.Kind = "tiny"
		c.Src = rapid.SampledFrom([]string{"println('a'); x = 'b'", "'println(1)'", "x = 'q'\nprintln(x)\n'tail'", "'", "''", "println(\"it's\")", "func sum(n) {\n  if n == 0 {\n    return 0\n  }\n  return n + sum(n - 1)\n}\nprintln(sum(1000))", "func sum(n) {\n  if n == 0 {\n    return 0\n  }\n  return n + sum(n - 1)\n}\nprintln(sum(25000))", "func ev(n) {\n  if n == 0 {\n    return true\n  }\n  return od(n - 1)\n}\nfunc od(n) {\n  if n == 0 {\n    return false\n  }\n  return ev(n - 1)\n}\nprintln(ev(60000))",
			"1", "println(1)", "throw \"x\"", "x", "1 +", "println(\"a\"); throw 1", "#c", " ", "\n", "return 3", "println(args)", "printf(\"%d\\n\", 7)", "print(\"no newline\")", "println(\"é\")"}).Draw(t, "tiny")
	default:
		c.Kind = "missing-file"
		c.Mode = "missing"
		c.Src = ""
	}
	if c.Mode == "e" && (strings.ContainsRune(c.Src, 0) || strings.TrimSpace(c.Src) == "" && c.Src == "") {
		c.Mode = "file"
	}
	maybeStream(t, &c, 7)
	return c
}

// genOtherStreams: a script that, between its prints, sends text to places OTHER than standard output
// through the bundled packages - standard error (os.Stderr, fmt.Fprint*), the process-wide standard
// logger of the bundled log package (which Go documents to write to standard error until told
// otherwise), loggers of its own - and that may re-configure the standard logger (prefix, flags,
// output: a buffer, a file, standard error and a buffer, standard output); it ends normally or with
// a run error. The generator follows the logger's state, so the standard output is known by
// construction: exactly the texts the script sent there, in order.
func genOtherStreams(t *rapid.T, c *Case) {
	var src, exp strings.Builder
	src.WriteString("os = import(\"os\")\nfmt = import(\"fmt\")\nlog = import(\"log\")\nio = import(\"io\")\nbytes = import(\"bytes\")\n")
	tag := map[string]bool{}
	dest, prefix, flags := "stderr", "", 3
	buffered := "" // what the script's buffer holds
	haveBuf, haveFile := false, false
	var pendingNever []string // texts in the buffer: they reach standard output only if the script prints the buffer
	word := func() string {
		return rapid.SampledFrom([]string{"a", "line", "x y", "é", "100%", ""}).Draw(t, "word")
	}
	ensureBuf := func() {
		if !haveBuf {
			src.WriteString("buf = bytes.NewBufferString(\"\")\n")
			haveBuf = true
		}
	}
	n := 9 - rapid.IntRange(1, 7).Draw(t, "nsteps") // mostly long
	for i := 0; i < n; i++ {
		// (listed by weight: rapid prefers the front of a list)
		switch rapid.SampledFrom([]int{7, 2, 0, 9, 3, 1, 7, 5, 8, 4, 6, 0}).Draw(t, "step") {
		case 0:
			txt := fmt.Sprintf("out%d %s", i, word())
			switch rapid.IntRange(0, 2).Draw(t, "print") {
			case 0:
				src.WriteString("println(\"" + txt + "\")\n")
			case 1:
				src.WriteString("print(\"" + txt + "\\n\")\n")
			default:
				src.WriteString("fmt.Println(\"" + txt + "\")\n")
			}
			exp.WriteString(txt + "\n")
		case 1:
			txt := fmt.Sprintf("err%d %s", i, word())
			if rapid.Bool().Draw(t, "viafmt") {
				src.WriteString("fmt.Fprintln(os.Stderr, \"" + txt + "\")\n")
			} else {
				src.WriteString("os.Stderr.WriteString(\"" + txt + "\\n\")\n")
			}
			c.Never = append(c.Never, txt)
			tag["streams_stderr_write"] = true
		case 2, 3, 4:
			// the standard logger
			txt := fmt.Sprintf("log%d %s", i, word())
			line := txt
			switch rapid.IntRange(0, 2).Draw(t, "logcall") {
			case 0:
				src.WriteString("log.Println(\"" + txt + "\")\n")
			case 1:
				src.WriteString("log.Print(\"" + txt + "\")\n")
			default:
				src.WriteString("log.Printf(\"%s|%d\", \"" + txt + "\", " + fmt.Sprint(i) + ")\n")
				line = txt + "|" + fmt.Sprint(i)
			}
			tag["streams_log_to_"+dest] = true
			switch dest {
			case "stdout":
				exp.WriteString(prefix + line + "\n") // flags are 0 whenever the output is standard output
			case "buf", "stderr+buf":
				buffered += prefix + line + "\n"
				pendingNever = append(pendingNever, txt)
			default:
				c.Never = append(c.Never, txt)
			}
		case 5:
			prefix = fmt.Sprintf("pfx%d: ", i)
			src.WriteString("log.SetPrefix(\"" + prefix + "\")\n")
			tag["streams_set_prefix"] = true
		case 6:
			f := 0
			if dest == "stderr" || dest == "file" {
				f = rapid.SampledFrom([]int{0, 3, 1, 7, 16}).Draw(t, "flags") // date, time, microseconds, file name: not predictable
			}
			flags = f
			src.WriteString("log.SetFlags(" + fmt.Sprint(f) + ")\n")
			tag["streams_set_flags"] = true
		case 7:
			// a new output for the standard logger
			nd := rapid.SampledFrom([]string{"buf", "file", "stderr+buf", "stdout", "stderr"}).Draw(t, "dest")
			set := ""
			switch nd {
			case "buf":
				ensureBuf()
				set = "log.SetOutput(buf)\n"
			case "stderr+buf":
				ensureBuf()
				set = "log.SetOutput(io.MultiWriter(os.Stderr, buf))\n"
			case "file":
				if !haveFile {
					src.WriteString("lf, lerr = os.Create(\"@DIR@/script.log\")\n")
					haveFile = true
				}
				set = "log.SetOutput(lf)\n"
			case "stdout":
				set = "log.SetOutput(os.Stdout)\n"
			default:
				set = "log.SetOutput(os.Stderr)\n"
			}
			if nd == "buf" || nd == "stderr+buf" || nd == "stdout" {
				// what lands there is compared: no time stamps
				if rapid.Bool().Draw(t, "flagsfirst") {
					set = "log.SetFlags(0)\n" + set
				} else {
					set += "log.SetFlags(0)\n"
				}
				flags = 0
			}
			src.WriteString(set)
			dest = nd
			tag["streams_set_output_"+nd] = true
		case 8:
			// a logger of the script's own
			txt := fmt.Sprintf("own%d %s", i, word())
			if rapid.Bool().Draw(t, "ownout") {
				src.WriteString(fmt.Sprintf("l%d = log.New(os.Stdout, \"n%d \", 0)\nl%d.Println(\"%s\")\n", i, i, i, txt))
				exp.WriteString(fmt.Sprintf("n%d ", i) + txt + "\n")
				tag["streams_own_logger_stdout"] = true
			} else {
				src.WriteString(fmt.Sprintf("l%d = log.New(os.Stderr, \"n%d \", 0)\nl%d.Println(\"%s\")\n", i, i, i, txt))
				c.Never = append(c.Never, txt)
				tag["streams_own_logger_stderr"] = true
			}
		default:
			if haveBuf {
				// the script prints what its buffer holds
				src.WriteString("print(buf.String())\nbuf.Reset()\n")
				exp.WriteString(buffered)
				buffered = ""
				pendingNever = nil
				tag["streams_buffer_printed"] = true
			} else {
				src.WriteString("println(log.Prefix() + \"|\")\n")
				exp.WriteString(prefix + "|\n")
			}
		}
	}
	_ = flags
	c.Never = append(c.Never, pendingNever...)
	end := rapid.SampledFrom([]string{"ok", "ok", "throw", "undefined", "index"}).Draw(t, "end")
	src.WriteString("println(\"last\")\n")
	exp.WriteString("last\n")
	switch end {
	case "throw":
		src.WriteString("throw \"stop\"\n")
	case "undefined":
		src.WriteString("noSuchFunction()\n")
	case "index":
		src.WriteString("v = [1, 2]\nprintln(v[5])\n")
	}
	c.Fail = end != "ok"
	if c.Fail {
		src.WriteString("println(\"not reached\")\n")
		tag["streams_fails_with_logger_on_"+dest] = true
	}
	tag["streams_end_"+end] = true
	for k := range tag {
		c.Tags = append(c.Tags, k)
	}
	sort.Strings(c.Tags)
	c.Src, c.Expect = src.String(), exp.String()
}

// ankoQuote spells a text as a double-quoted anko string literal
func ankoQuote(s string) string {
	s = strings.ReplaceAll(s, "\\", "\\\\")
	s = strings.ReplaceAll(s, "\"", "\\\"")
	s = strings.ReplaceAll(s, "\n", "\\n")
	return "\"" + s + "\""
}

// failingEnds: ways a script stops with a run error (name -> statements)
var failingEnds = map[string]string{
	"throw":     "throw \"stop\"\n",
	"undefined": "noSuchFunction()\n",
	"index":     "v = [1, 2]\nprintln(v[5])\n",
	"incdec":    "1++\n",
	"nilcall":   "nx = nil\nnx.y()\n",
	"loadmiss":  "load(\"@DIR@/no-such-file.ank\")\n",
}

// genProcess: the second sub-check's cases - scripts whose visible behaviour depends on what the
// PROCESS around the interpreter does besides running the source: where the cursor stands when the
// run ends, files the script changes and loads again, signals the script handles itself.
func genProcess(t *rapid.T) Case {
	c := genModeArgs(t)
	switch rapid.IntRange(0, 2).Draw(t, "pkind") {
	case 0:
		c.Kind = "unfinished-line"
		genUnfinishedLine(t, &c)
	case 1:
		c.Kind = "reload"
		genReload(t, &c)
	default:
		c.Kind = "own-signal"
		genOwnSignal(t, &c)
	}
	sort.Strings(c.Tags)
	maybeStream(t, &c, 7)
	return c
}

// genUnfinishedLine: a few writes to standard output through the core builtins and the bundled
// packages, any of which may leave its line unfinished; the script then ends normally or with a run
// error (at top level, inside a function, inside a block). Standard output is known by construction
// (what print / printf / println write is Go's fmt by documentation): the texts in order - and, for
// a failing script, one diagnostic line that starts where the script's output stopped.
func genUnfinishedLine(t *rapid.T, c *Case) {
	var src, exp strings.Builder
	src.WriteString("os = import(\"os\")\nfmt = import(\"fmt\")\n")
	if rapid.Bool().Draw(t, "lead") {
		src.WriteString("println(\"start\")\nprintln(len(args))\n")
		exp.WriteString(fmt.Sprintln("start") + fmt.Sprintln(len(c.Args)))
	}
	n := rapid.IntRange(0, 4).Draw(t, "nwrites")
	write := func(i int, how int) {
		txt := rapid.SampledFrom([]string{"a", "total: ", "x y", "é", "42", "100%", "tab\t"}).Draw(t, "txt") + fmt.Sprint(i)
		q := ankoQuote(txt)
		switch how {
		case 0:
			src.WriteString("println(" + q + ")\n")
			exp.WriteString(fmt.Sprintln(txt))
		case 1:
			src.WriteString("print(" + q + ")\n")
			exp.WriteString(fmt.Sprint(txt))
		case 2:
			src.WriteString("print(" + q + ", " + fmt.Sprint(i) + ", " + q + ")\n")
			exp.WriteString(fmt.Sprint(txt, int64(i), txt))
		case 3:
			src.WriteString("printf(\"%s of %d\", " + q + ", " + fmt.Sprint(i) + ")\n")
			exp.WriteString(fmt.Sprintf("%s of %d", txt, int64(i)))
		case 4:
			src.WriteString("printf(\"%v|%v\\n\", " + q + ", " + fmt.Sprint(i) + ")\n")
			exp.WriteString(fmt.Sprintf("%v|%v\n", txt, int64(i)))
		case 5:
			src.WriteString("print(" + ankoQuote(txt+"\n") + ")\n")
			exp.WriteString(txt + "\n")
		case 6:
			src.WriteString("print(" + ankoQuote(txt+"\nmore") + ")\n")
			exp.WriteString(txt + "\nmore")
		case 7:
			src.WriteString("println()\n")
			exp.WriteString("\n")
		case 8:
			src.WriteString("print()\n")
		case 9:
			src.WriteString("fmt.Print(" + q + ")\n")
			exp.WriteString(txt)
		default:
			src.WriteString("os.Stdout.WriteString(" + q + ")\n")
			exp.WriteString(txt)
		}
	}
	for i := 0; i < n; i++ {
		write(i, rapid.IntRange(0, 10).Draw(t, "how"))
	}
	end := rapid.SampledFrom([]string{"throw", "ok", "undefined", "incdec", "index", "nilcall", "loadmiss", "ok"}).Draw(t, "end")
	where := rapid.SampledFrom([]string{"top", "func", "block", "top"}).Draw(t, "where")
	// the last write: mostly one that leaves its line unfinished
	last := rapid.SampledFrom([]int{1, 3, 2, 6, 0, 9, 10, 8, 4}).Draw(t, "lasthow")
	stop := failingEnds[end]
	switch where {
	case "func":
		src.WriteString("func work(k) {\n")
		write(n, last)
		src.WriteString(stop + "return k\n}\nwork(1)\n")
	case "block":
		src.WriteString("if len(args) >= 0 {\n")
		write(n, last)
		src.WriteString(stop + "}\n")
	default:
		write(n, last)
		src.WriteString(stop)
	}
	c.Fail = end != "ok"
	if c.Fail {
		src.WriteString("println(\"not reached\")\n")
	}
	c.Src, c.Expect = src.String(), exp.String()
	shape := "midline"
	if c.Expect == "" {
		shape = "nothing_printed"
	} else if strings.HasSuffix(c.Expect, "\n") {
		shape = "after_newline"
	}
	if c.Fail {
		c.Tags = append(c.Tags, "unfinished_fail_"+shape, "unfinished_fail_in_"+where)
	} else {
		c.Tags = append(c.Tags, "unfinished_ok_"+shape)
	}
	c.Tags = append(c.Tags, "unfinished_end_"+end)
}

// genReload: the script writes small anko files into its scratch directory (io/ioutil.WriteFile,
// os.Create + WriteString, os.OpenFile with O_APPEND, os.Rename), runs them with load(), changes them
// and runs them again under the same path. load is documented to run the file it is given: every load
// prints what the file holds at that moment. The generator follows the files' contents, so standard
// output is known by construction.
func genReload(t *rapid.T, c *Case) {
	type file struct {
		exists bool
		lines  []string // what running the file prints
		ver    int      // the value it leaves in its variable
		fails  bool     // ends with a throw
		text   string
		loaded string // the text it had when it was last loaded under this path ("" = never)
	}
	paths := []string{"@DIR@/m0.ank", "@DIR@/m1.ank", "@DIR@/inc.ank"}
	names := []string{"m0", "m1", "inc"}
	fs := make([]file, 3)
	var src, exp strings.Builder
	tag := map[string]bool{}
	src.WriteString("ioutil = import(\"io/ioutil\")\nos = import(\"os\")\nshared = 7\nver = 0\nprintln(\"start\", len(args))\n")
	exp.WriteString(fmt.Sprintln("start", len(c.Args)))
	shared := 7
	if rapid.Bool().Draw(t, "given") {
		// a file the script finds when it starts
		c.Inc = "println(\"inc v0\")\nver = 100\n"
		fs[2] = file{exists: true, lines: []string{"inc v0"}, ver: 100, text: c.Inc}
		tag["reload_file_given"] = true
	}
	version := 0
	content := func(i int, failing bool) (string, []string) {
		version++
		var b strings.Builder
		var lines []string
		b.WriteString(fmt.Sprintf("println(\"%s v%d\")\n", names[i], version))
		lines = append(lines, fmt.Sprintf("%s v%d", names[i], version))
		if rapid.Bool().Draw(t, "seesshared") {
			b.WriteString("println(\"sees\", shared)\n")
			lines = append(lines, "sees @SHARED@")
		}
		b.WriteString(fmt.Sprintf("ver = %d\n", version))
		if failing {
			b.WriteString(fmt.Sprintf("throw \"%s v%d stops\"\n", names[i], version))
		}
		return b.String(), lines
	}
	pick := func(label string, need func(f file) bool) int {
		var ok []int
		for _, i := range []int{0, 0, 1, 2} { // mostly the same file
			if need(fs[i]) {
				ok = append(ok, i)
			}
		}
		if len(ok) == 0 {
			return -1
		}
		return rapid.SampledFrom(ok).Draw(t, label)
	}
	failed := false
	doWrite := func(i int, failing bool) {
		txt, lines := content(i, failing)
		if rapid.Bool().Draw(t, "viacreate") {
			src.WriteString(fmt.Sprintf("wf, werr = os.Create(\"%s\")\nwf.WriteString(%s)\nwf.Close()\n", paths[i], ankoQuote(txt)))
			tag["reload_write_os_create"] = true
		} else {
			src.WriteString(fmt.Sprintf("ioutil.WriteFile(\"%s\", toByteSlice(%s), 420)\n", paths[i], ankoQuote(txt)))
			tag["reload_write_ioutil"] = true
		}
		fs[i].exists, fs[i].lines, fs[i].ver, fs[i].fails, fs[i].text = true, lines, version, failing, txt
	}
	doLoad := func(i int) {
		if rapid.IntRange(0, 3).Draw(t, "viavar") == 0 {
			src.WriteString(fmt.Sprintf("pa = \"%s\"\nload(pa)\n", paths[i]))
		} else {
			src.WriteString(fmt.Sprintf("load(\"%s\")\n", paths[i]))
		}
		for _, l := range fs[i].lines {
			exp.WriteString(strings.ReplaceAll(l, "@SHARED@", fmt.Sprint(shared)) + "\n")
		}
		switch {
		case fs[i].loaded == "":
			tag["reload_first_load_of_path"] = true
		case fs[i].loaded == fs[i].text:
			tag["reload_same_text_again"] = true
		default:
			tag["reload_changed_between_loads"] = true
			if fs[i].fails {
				tag["reload_changed_to_failing"] = true
			}
		}
		fs[i].loaded = fs[i].text
		if fs[i].fails {
			failed = true
			return
		}
		src.WriteString("println(\"now\", ver)\n")
		exp.WriteString(fmt.Sprintln("now", fs[i].ver))
	}
	// (listed by weight: rapid prefers the front of a list and the low end of a range)
	if first := pick("first", func(file) bool { return true }); !fs[first].exists || rapid.Bool().Draw(t, "firstwrite") {
		doWrite(first, false)
		doLoad(first)
	} else {
		doLoad(first)
	}
	n := 9 - rapid.IntRange(1, 7).Draw(t, "nsteps")
	for s := 0; s < n && !failed; s++ {
		switch rapid.SampledFrom([]string{"again", "load", "write", "append", "again", "rename", "bump", "load", "write"}).Draw(t, "step") {
		case "write":
			i := pick("wfile", func(file) bool { return true })
			doWrite(i, fs[i].loaded != "" && rapid.IntRange(0, 5).Draw(t, "failing") == 0)
		case "again":
			// a path that was loaded before gets a new text and is loaded again
			i := pick("gfile", func(f file) bool { return f.loaded != "" })
			if i < 0 {
				continue
			}
			doWrite(i, rapid.IntRange(0, 3).Draw(t, "failing") == 0)
			doLoad(i)
		case "append":
			i := pick("afile", func(f file) bool { return f.exists && !f.fails })
			if i < 0 {
				continue
			}
			line := fmt.Sprintf("%s more %d", names[i], s)
			add := "println(\"" + line + "\")\n"
			src.WriteString(fmt.Sprintf("af, aerr = os.OpenFile(\"%s\", os.O_APPEND + os.O_WRONLY, 420)\naf.WriteString(%s)\naf.Close()\n", paths[i], ankoQuote(add)))
			fs[i].lines = append(append([]string{}, fs[i].lines...), line)
			fs[i].text += add
			tag["reload_append"] = true
		case "rename":
			i := pick("rfile", func(f file) bool { return f.exists })
			if i < 0 {
				continue
			}
			j := (i + 1 + rapid.IntRange(0, 1).Draw(t, "rto")) % 3
			src.WriteString(fmt.Sprintf("os.Rename(\"%s\", \"%s\")\n", paths[i], paths[j]))
			keep := fs[j].loaded
			gone := fs[i].loaded
			fs[j] = fs[i]
			fs[j].loaded = keep
			fs[i] = file{loaded: gone}
			tag["reload_rename"] = true
		case "bump":
			shared++
			src.WriteString("shared++\n")
		default:
			i := pick("lfile", func(f file) bool { return f.exists })
			if i < 0 {
				continue
			}
			doLoad(i)
		}
	}
	if failed {
		c.Fail = true
		src.WriteString("println(\"not reached\")\n")
		tag["reload_end_loaded_file_throws"] = true
	} else {
		src.WriteString("println(\"last\")\n")
		exp.WriteString("last\n")
		if rapid.IntRange(0, 3).Draw(t, "endthrow") == 0 {
			src.WriteString("throw \"stop\"\n")
			c.Fail = true
			tag["reload_end_throw"] = true
		} else {
			tag["reload_end_ok"] = true
		}
	}
	for k := range tag {
		c.Tags = append(c.Tags, k)
	}
	c.Src, c.Expect = src.String(), exp.String()
}

// genOwnSignal: the script installs its own handler for the interrupt signal (signal.Notify of the
// bundled os/signal package on a buffered channel), sends that signal to its own process
// (os.FindProcess(os.Getpid()).Signal), receives it from its channel and carries on - more work,
// more prints, possibly more rounds. Go documents that a signal for which Notify was called is
// relayed to the channel instead of ending the process, so the script runs to its end and its
// standard output is known by construction. (One signal is sent and received at a time: pending
// signals of the same number are merged by the kernel.)
func genOwnSignal(t *rapid.T, c *Case) {
	var src, exp strings.Builder
	src.WriteString("os = import(\"os\")\nsignal = import(\"os/signal\")\ntime = import(\"time\")\nprintln(\"start\", len(args))\n")
	exp.WriteString(fmt.Sprintln("start", len(c.Args)))
	src.WriteString(fmt.Sprintf("sigs = make(chan os.Signal, %d)\nsignal.Notify(sigs, os.Interrupt)\nme, ferr = os.FindProcess(os.Getpid())\n", rapid.IntRange(1, 4).Draw(t, "cap")))
	rounds := rapid.IntRange(1, 3).Draw(t, "rounds")
	for r := 0; r < rounds; r++ {
		src.WriteString(fmt.Sprintf("println(\"round\", %d)\nme.Signal(os.Interrupt)\ngot = <-sigs\nprintln(\"caught\", got)\n", r))
		exp.WriteString(fmt.Sprintln("round", r) + fmt.Sprintln("caught", os.Interrupt))
		switch rapid.SampledFrom([]string{"loop", "sleep", "loop", "prints"}).Draw(t, "work") {
		case "sleep":
			ms := rapid.SampledFrom([]int{2, 5, 20}).Draw(t, "ms")
			src.WriteString(fmt.Sprintf("time.Sleep(%d * time.Millisecond)\n", ms))
			c.Tags = append(c.Tags, "signal_then_sleep")
		case "loop":
			k := rapid.SampledFrom([]int{3000, 20000, 60000}).Draw(t, "iters")
			src.WriteString(fmt.Sprintf("n = 0\nfor i = 0; i < %d; i++ {\n  n += i\n}\nprintln(n)\n", k))
			exp.WriteString(fmt.Sprintln(int64(k) * int64(k-1) / 2))
			c.Tags = append(c.Tags, "signal_then_loop")
		default:
			for i := 0; i < 5; i++ {
				src.WriteString(fmt.Sprintf("println(\"w\", %d)\n", i))
				exp.WriteString(fmt.Sprintln("w", i))
			}
			c.Tags = append(c.Tags, "signal_then_prints")
		}
		src.WriteString(fmt.Sprintf("println(\"worked\", %d)\n", r))
		exp.WriteString(fmt.Sprintln("worked", r))
	}
	if rapid.Bool().Draw(t, "stop") {
		src.WriteString("signal.Stop(sigs)\n")
		c.Tags = append(c.Tags, "signal_stop_at_end")
	}
	src.WriteString("println(\"last\")\n")
	exp.WriteString("last\n")
	end := rapid.SampledFrom([]string{"ok", "ok", "throw", "undefined"}).Draw(t, "end")
	if end != "ok" {
		src.WriteString(failingEnds[end] + "println(\"not reached\")\n")
		c.Fail = true
	}
	c.Tags = append(c.Tags, fmt.Sprintf("signal_rounds_%d", rounds), "signal_end_"+end)
	// (labels may repeat over the rounds)
	sort.Strings(c.Tags)
	out := c.Tags[:0]
	for i, tg := range c.Tags {
		if i == 0 || tg != c.Tags[i-1] {
			out = append(out, tg)
		}
	}
	c.Tags = out
	c.Src, c.Expect = src.String(), exp.String()
}

// supplied: how one case's script reaches the command
type supplied struct {
	argv  []string
	stdin *os.File   // the command's standard input (nil: an empty one)
	extra []*os.File // descriptors 3.. of the command
	after func()     // to be called when the command has finished
}

// supply hands the script over in the case's mode. A regular file s.ank is written in every mode.
// For the modes that are not a regular file a goroutine plays the other end: it writes the source and
// closes, whatever the command does with its end; after() lets it go and waits for it.
func supply(dir, src, mode string, args []string) (supplied, error) {
	f := filepath.Join(dir, "s.ank")
	os.WriteFile(f, []byte(src), 0o644)
	var s supplied
	s.after = func() {}
	var wg sync.WaitGroup
	feed := func(w *os.File) {
		wg.Add(1)
		go func() {
			defer wg.Done()
			w.WriteString(src)
			w.Close()
		}()
	}
	switch mode {
	case "e":
		s.argv = append([]string{"-e", src}, args...)
	case "fifo":
		p := filepath.Join(dir, "s.fifo")
		if err := syscall.Mkfifo(p, 0o600); err != nil {
			return s, err
		}
		wg.Add(1)
		go func() {
			defer wg.Done()
			w, err := os.OpenFile(p, os.O_WRONLY, 0) // waits for the reader
			if err != nil {
				return
			}
			w.WriteString(src)
			w.Close()
		}()
		s.argv = append([]string{p}, args...)
		s.after = func() {
			// if nobody ever opened the pipe for reading the writer is still waiting
			// (opening the read end lets it go; what it then writes is taken off the pipe so that a
			// long source cannot make it wait again; closing the read end ends it in any case)
			if fd, err := syscall.Open(p, syscall.O_RDONLY|syscall.O_NONBLOCK, 0); err == nil {
				buf := make([]byte, 1<<16)
				for i := 0; i < 2000; i++ {
					n, rerr := syscall.Read(fd, buf)
					if n == 0 && rerr == nil {
						break // no writer (any more)
					}
					if rerr == syscall.EAGAIN {
						time.Sleep(time.Millisecond)
					} else if rerr != nil && rerr != syscall.EINTR {
						break
					}
				}
				syscall.Close(fd)
			}
			wg.Wait()
		}
	case "dev-stdin", "dev-fd":
		r, w, err := os.Pipe()
		if err != nil {
			return s, err
		}
		feed(w)
		if mode == "dev-stdin" {
			s.stdin = r
			s.argv = append([]string{"/dev/stdin"}, args...)
		} else {
			s.extra = []*os.File{r}
			s.argv = append([]string{"/dev/fd/3"}, args...)
		}
		s.after = func() {
			r.Close() // a writer that is still writing gets an error instead of waiting
			wg.Wait()
		}
	default:
		s.argv = append([]string{f}, args...)
	}
	return s, nil
}

func ankoBinary() string {
	return filepath.Join(filepath.Dir(os.Getenv("VERIF_SCRATCH")), "anko")
}

var addrRe = regexp.MustCompile(`0x[0-9a-f]{6,}`)

// canon sorts runs of lines printed by probes with negative ids (multi-entry map loops) and
// masks pointer addresses (a thrown or printed pointer formats as its address, which
// differs between two processes).
func canon(out string) string {
	out = addrRe.ReplaceAllString(out, "0xADDR")
	lines := strings.Split(out, "\n")
	i := 0
	for i < len(lines) {
		if !strings.HasPrefix(lines[i], "p -") {
			i++
			continue
		}
		j := i
		for j < len(lines) && strings.HasPrefix(lines[j], "p -") {
			j++
		}
		sort.Strings(lines[i:j])
		i = j
	}
	// a printed or thrown scope (an imported package, a module) formats as "Has parent" / "No parent"
	// followed by its symbols in map order: the run of `name = value` lines is sorted
	for i := 0; i < len(lines); i++ {
		if !strings.HasSuffix(lines[i], "Has parent") && !strings.HasSuffix(lines[i], "No parent") {
			continue
		}
		j := i + 1
		for j < len(lines) && symLine.MatchString(lines[j]) {
			j++
		}
		sort.Strings(lines[i+1 : j])
		i = j - 1
	}
	return strings.Join(lines, "\n")
}

var symLine = regexp.MustCompile(`^[A-Za-z_][A-Za-z0-9_]* = `)

type inproc struct {
	out     string
	err     error
	timeout bool
}

// runInProcess executes src with vm.Execute in an environment prepared like anko.go does
// (args, core.Import, blank import of packages). The process's standard output is
// redirected to a temporary file for the duration of the run, so everything the script
// prints - through the core builtins or through bundled packages such as fmt / os - is
// captured in the order it was written.
func runInProcess(src string, args []string) inproc {
	e := env.NewEnv()
	if args == nil {
		args = []string{}
	}
	e.Define("args", args)
	core.Import(e)
	var r inproc
	f, err := os.CreateTemp(os.Getenv("VERIF_SCRATCH"), "c18-stdout-")
	if err != nil {
		r.err = fmt.Errorf("HOST PANIC cannot capture stdout: %v", err)
		return r
	}
	defer os.Remove(f.Name())
	saved := os.Stdout
	os.Stdout = f
	// the core print builtins were bound to fmt.Print* when core.Import ran; they write to
	// os.Stdout at call time, so the redirection covers them as well
	ctx, cancel := context.WithTimeout(context.Background(), 2*time.Second)
	func() {
		defer func() {
			if p := recover(); p != nil {
				r.err = fmt.Errorf("HOST PANIC %v", p)
			}
		}()
		_, r.err = vm.ExecuteContext(ctx, e, nil, src)
	}()
	r.timeout = ctx.Err() != nil
	cancel()
	os.Stdout = saved
	f.Close()
	b, _ := os.ReadFile(f.Name())
	r.out = string(b)
	return r
}

func oracle(c Case, o *h.Obs) *h.Fail {
	o.Key = c.Mode + "\x00" + strings.Join(c.Args, "\x01") + "\x00" + c.Src
	o.Class("kind_" + c.Kind)
	o.Class("mode_" + c.Mode)
	for _, tg := range c.Tags {
		o.Class(tg)
	}
	bin := ankoBinary()
	if _, err := os.Stat(bin); err != nil {
		o.Excluded = "anko binary was not built (harness problem)"
		return nil
	}
	dir, err := os.MkdirTemp(os.Getenv("VERIF_SCRATCH"), "c18-")
	if err != nil {
		o.Excluded = "tempdir: " + err.Error()
		return nil
	}
	defer os.RemoveAll(dir)

	var argv []string
	var want inproc
	wantCode := 0
	src := strings.ReplaceAll(c.Src, "@DIR@", dir)
	if c.Inc != "" {
		os.WriteFile(filepath.Join(dir, "inc.ank"), []byte(c.Inc), 0o644)
	}
	cmdDir := ""
	sup := supplied{after: func() {}}
	byConstruction := c.Kind == "explicit-stdout" || c.Kind == "other-streams" || c.Kind == "unfinished-line" || c.Kind == "reload" || c.Kind == "own-signal"
	if c.Kind == "relative-file" {
		os.Mkdir(filepath.Join(dir, "sub"), 0o755)
		os.WriteFile(filepath.Join(dir, "sub", "s.ank"), []byte(src), 0o644)
		argv = append([]string{filepath.Join("sub", "s.ank")}, c.Args...)
		cmdDir = dir
		real, err := filepath.EvalSymlinks(dir)
		if err != nil {
			real = dir
		}
		want = inproc{out: strings.ReplaceAll(c.Expect, "@DIR@", real)}
	} else if byConstruction {
		want = inproc{out: c.Expect}
		if c.Fail {
			want.err = errors.New("the script ends with a run error by construction")
		}
	} else {
		switch c.Mode {
		case "directory":
			d := filepath.Join(dir, "adir.ank")
			os.Mkdir(d, 0o755)
			argv = append([]string{d}, c.Args...)
			wantCode = 2
		case "below-file":
			f := filepath.Join(dir, "s.ank")
			os.WriteFile(f, []byte(src), 0o644)
			argv = append([]string{filepath.Join(f, "x.ank")}, c.Args...)
			wantCode = 2
		case "missing":
			argv = append([]string{filepath.Join(dir, "does-not-exist.ank")}, c.Args...)
			wantCode = 2
		case "file", "fifo", "dev-stdin", "dev-fd":
			want = runInProcess(src, c.Args)
		default:
			if c.Src == "" {
				o.Excluded = "-e with an empty source starts the interactive mode"
				return nil
			}
			want = runInProcess(src, c.Args)
		}
	}
	if want.timeout {
		o.Excluded = "script does not finish within 2 s in-process"
		return nil
	}
	if want.err != nil && strings.HasPrefix(want.err.Error(), "HOST PANIC") {
		o.Excluded = "in-process run panicked (C01's subject)"
		return nil
	}
	if wantCode != 2 && want.err != nil {
		wantCode = 4
	}
	if argv == nil {
		// (the in-process run may have changed the files the script works on)
		if c.Inc != "" {
			os.WriteFile(filepath.Join(dir, "inc.ank"), []byte(c.Inc), 0o644)
		}
		sup, err = supply(dir, src, c.Mode, c.Args)
		if err != nil {
			sup.after()
			o.Excluded = "cannot hand the script over in mode " + c.Mode + ": " + err.Error()
			return nil
		}
		argv = sup.argv
	}

	ctx, cancel := context.WithTimeout(context.Background(), 20*time.Second)
	defer cancel()
	cmd := exec.CommandContext(ctx, bin, argv...)
	if sup.stdin != nil {
		cmd.Stdin = sup.stdin
	} else {
		cmd.Stdin = strings.NewReader("")
	}
	cmd.ExtraFiles = sup.extra
	cmd.Dir = cmdDir
	var stdout, stderr bytes.Buffer
	cmd.Stdout, cmd.Stderr = &stdout, &stderr
	runErr := cmd.Run()
	sup.after()
	if ctx.Err() != nil {
		return h.Failf("C18|cli-hangs|"+c.Kind, "the command did not finish within 20 s although the library finishes\nargv: %q\nsource:\n%s", argv, c.Src)
	}
	code := 0
	if runErr != nil {
		ee, ok := runErr.(*exec.ExitError)
		if !ok {
			o.Excluded = "cannot start the binary: " + runErr.Error()
			return nil
		}
		code = ee.ExitCode()
	}
	got := stdout.String()
	lines := strings.Count(want.out, "\n")
	o.NonTrivial = lines >= 2 && (want.err != nil || len(c.Args) > 0 || strings.Contains(c.Src, "import("))
	o.Class(fmt.Sprintf("exit_%d", wantCode))
	detail := fmt.Sprintf("argv: %q\nexit status %d (want %d)\nstdout: %q\nlibrary error: %v\nlibrary output: %q\nsource:\n%s", argv, code, wantCode, got, want.err, want.out, src)
	// clauses about the kinds added later get signatures of their own
	ks := ""
	if c.Kind == "unfinished-line" || c.Kind == "reload" || c.Kind == "own-signal" {
		ks = "|" + c.Kind
	}
	if isStream(c.Mode) {
		// The file argument names a pipe. The statement has two outcomes for a file argument: the file
		// cannot be read (2, one diagnostic line, nothing of the script runs), or its text is the source.
		// A command that declines to read anything but regular files is taken to be within the first;
		// what it may not do is to run something that is not the text the pipe delivers.
		if code == 2 && wantCode != 2 && strings.Count(got, "\n") == 1 && strings.HasSuffix(got, "\n") && strings.TrimSpace(got) != "" {
			o.Class("stream_file_refused")
			return nil
		}
		o.Class("stream_file_read_as_source")
	}
	if code != wantCode {
		return h.Failf(fmt.Sprintf("C18|exit-status|%s|want%d|got%d%s", c.Mode, wantCode, code, ks), "%s", detail)
	}
	if c.Kind == "other-streams" {
		ks = "|other-streams"
		for _, nv := range c.Never {
			if strings.Contains(got, nv) {
				return h.Failf("C18|stdout|text-sent-elsewhere|"+c.Mode, "standard output holds %q, which the script did not print there (it sent it to standard error, to a file, or to a buffer it never printed)\n%s", nv, detail)
			}
		}
	}
	switch wantCode {
	case 2:
		// one diagnostic line and nothing else (its wording is not fixed by the statement)
		if strings.TrimSpace(got) == "" || strings.Count(got, "\n") != 1 || !strings.HasSuffix(got, "\n") || strings.Contains(got, "must not run") {
			return h.Failf("C18|readfile-diagnostic", "%s", detail)
		}
	case 0:
		if canon(got) != canon(want.out) {
			return h.Failf("C18|stdout|success|"+c.Mode+ks, "%s", detail)
		}
	case 4:
		// everything the script printed, then ONE diagnostic line; its wording is not fixed by the
		// statement (today: "Execute error: " + the library's error text). An error text that spans
		// several lines makes the diagnostic span as many.
		g, w := canon(got), canon(want.out)
		if !strings.HasPrefix(g, w) {
			return h.Failf("C18|stdout|output-before-error|"+c.Mode+ks, "%s", detail)
		}
		rest := g[len(w):]
		nl := strings.Count(rest, "\n")
		if rest == "" || strings.TrimSpace(rest) == "" || !strings.HasSuffix(rest, "\n") || (nl != 1 && nl != 1+strings.Count(want.err.Error(), "\n")) {
			return h.Failf("C18|stdout|diagnostic-line|"+c.Mode+ks, "after the script's own output the command must print exactly one diagnostic line; it printed %q\n%s", rest, detail)
		}
		if strings.Contains(rest, "Execute error: ") {
			o.Class("diagnostic_line_in_todays_wording")
		}
	}
	return nil
}

func TestC18(t *testing.T) {
	c := h.New(t, "C18")
	defer c.Finish()
	c.Rule("scripts: programs from the model generator (scopes/control/errors profiles) whose probes are written in anko on top of println, optionally echoing args / using bundled packages; mutated programs (truncated, span deleted, token inserted: mostly parse errors); full-grammar programs after the value-universe prelude (mostly run-time errors; no loops, no goroutines); tiny scripts; a missing file; scripts that between their prints write to standard error, log through the bundled log package (standard logger with its prefix / flags / output re-configured, loggers of their own) and end normally or with a run error, standard output given by construction. Supplied as a file with 0-3 trailing arguments or with -e. non-trivial = the script prints >= 2 lines and (fails, or has arguments, or imports a package); distinct by (mode, args, source)")
	h.Run(c, "cli", c.N(1500, 12000), gen, oracle)
	c.Rule("cli-process: scripts whose visible behaviour depends on what the process around the interpreter does besides running the source - (unfinished-line) writes through print / printf / println / fmt.Print / os.Stdout that may leave the last line unfinished, then a normal end or a run error at top level, in a function or in a block; (reload) anko files written, appended to, renamed and re-written by the script and run with load() again under the same path; (own-signal) signal.Notify for the interrupt signal, the signal sent to the script's own process, received from the channel, followed by more work. Standard output and verdict are given by construction. In both sub-checks one file-mode case in seven hands the script over as a named pipe, as /dev/stdin or as /dev/fd/3 connected to a pipe")
	h.Run(c, "cli-process", c.N(240, 1920), genProcess, oracle)
}
