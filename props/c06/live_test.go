package c06

// Sub-check "live-slot": the item of `in`, the subject of `switch` and the left operand of `==` are
// READ FROM A SLOT (element of an untyped list, of a typed slice, of a nested list, struct field
// reached through a pointer, map entry, dereferenced pointer, plain variable) while the other
// side - the list of `in`, the case expression, the right operand - is computed by a function that
// overwrites that very slot and returns the value to compare with.
//
// The statement: "membership (`in`) and `switch` case matching use the same relation" as `==`, and
// `!=` is its exact negation. The three uses are written over the same two operand expressions and
// each is evaluated from the same fresh state (the slot is set up again before every form), so they
// must give the same answer; which of the two values the slot held (before / after the store) takes
// part is a matter of evaluation order and is NOT asserted here (C07 owns that). What is asserted
// about the value: the answer is the relation applied to one of the two values the slot held, i.e.
// it equals ref(old, ret) or ref(new, ret) where the statement defines both.

import (
	"fmt"
	"math"
	"strings"

	"pgregory.net/rapid"

	"verif/internal/ank"
	"verif/internal/h"
)

type LiveCase struct {
	Old   Val    `json:"old"`   // what the slot holds when the form starts
	New   Val    `json:"new"`   // what the function stores into the slot
	Ret   Val    `json:"ret"`   // what the function returns (the value compared with)
	Slot  string `json:"slot"`  // kind of slot, see liveSlots
	Shape string `json:"shape"` // how (old, new, ret) were related by the generator (class counter only)
}

// lPoint is handed to the script as a pointer: its fields are slots.
type lPoint struct {
	I int64
	F float64
	S string
	B bool
	X interface{}
}

var liveSlots = []string{"list-elem", "list-elem-last", "typed-elem", "iface-slice-elem", "nested-elem", "map-list-elem",
	"field-iface", "field-typed", "map-entry", "map-dot", "deref", "variable"}

func isLiveSlot(s string) bool {
	for _, x := range liveSlots {
		if x == s {
			return true
		}
	}
	return false
}

func primTyped(v Val) bool { return v.K == "int" || v.K == "float" || v.K == "str" || v.K == "bool" }

// slotFits: a statically typed slot takes only values of its own type.
func slotFits(slot string, old, nw Val) bool {
	switch slot {
	case "typed-elem", "field-typed":
		return primTyped(old) && old.K == nw.K
	}
	return true
}

func goElemType(k string) string {
	switch k {
	case "int":
		return "int64"
	case "float":
		return "float64"
	case "str":
		return "string"
	}
	return "bool"
}

// liveTexts returns the statements that (re)build the slot holding old, the slot expression, and the
// statement storing new into it.
func liveTexts(c LiveCase) (setup, slot, store string) {
	o, n := lit(c.Old), lit(c.New)
	switch c.Slot {
	case "list-elem":
		return "b = [" + o + "]", "b[0]", "b[0] = " + n
	case "list-elem-last":
		return "b = [nil, 0, " + o + "]", "b[2]", "b[2] = " + n
	case "typed-elem":
		return "b = []" + goElemType(c.Old.K) + "{" + o + "}", "b[0]", "b[0] = " + n
	case "iface-slice-elem":
		return "b = []interface{" + o + "}", "b[0]", "b[0] = " + n
	case "nested-elem":
		return "b = [[" + o + "]]", "b[0][0]", "b[0][0] = " + n
	case "map-list-elem":
		return "m = {\"k\": [" + o + "]}", "m.k[0]", "m.k[0] = " + n
	case "field-iface":
		return "p.X = " + o, "p.X", "p.X = " + n
	case "field-typed":
		f := map[string]string{"int": "I", "float": "F", "str": "S", "bool": "B"}[c.Old.K]
		return "p." + f + " = " + o, "p." + f, "p." + f + " = " + n
	case "map-entry":
		return "m = {\"k\": " + o + "}", "m[\"k\"]", "m[\"k\"] = " + n
	case "map-dot":
		return "m = {\"k\": " + o + "}", "m.k", "m.k = " + n
	case "deref":
		return "v = " + o + "\nq = &v", "*q", "*q = " + n
	}
	return "v = " + o, "v", "v = " + n
}

var liveForms = []string{"slot == g()", "slot != g()", "slot in [g()]", "switch slot {case g()}", "g() == slot", "g() != slot", "g() in [slot]", "switch g() {case slot}", "slot in typed[g()]"}

const (
	lEq = iota
	lNe
	lIn
	lSw
	lREq
	lRNe
	lRIn
	lRSw
	lTIn
)

func liveSource(c LiveCase) string {
	setup, slot, store := liveTexts(c)
	ret := lit(c.Ret)
	var b strings.Builder
	b.WriteString("g = func() {\n " + store + "\n return " + ret + "\n}\n")
	form := func(i int, expr string) {
		fmt.Fprintf(&b, "%s\nr%d = %s\n", setup, i, expr)
	}
	sw := func(i int, subj, cs string) {
		fmt.Fprintf(&b, "%s\nr%d = false\nswitch %s {\ncase %s:\n r%d = true\n}\n", setup, i, subj, cs, i)
	}
	form(lEq, slot+" == g()")
	form(lNe, slot+" != g()")
	form(lIn, slot+" in [g()]")
	sw(lSw, slot, "g()")
	form(lREq, "g() == "+slot)
	form(lRNe, "g() != "+slot)
	form(lRIn, "g() in ["+slot+"]")
	sw(lRSw, "g()", slot)
	n := 8
	if primTyped(c.Ret) {
		form(lTIn, slot+" in "+typedList(c.Ret.K, "g()"))
		n = 9
	}
	rs := make([]string, n)
	for i := range rs {
		rs[i] = fmt.Sprintf("r%d", i)
	}
	b.WriteString("[" + strings.Join(rs, ", ") + "]")
	return b.String()
}

// unequalTo draws a value that is (most often) not equal to v: of the same primitive type where v is
// a primitive, a changed copy where v is a container.
func unequalTo(t *rapid.T, v Val) Val {
	switch {
	case v.isContainer():
		if rapid.IntRange(0, 3).Draw(t, "uc") == 0 {
			return genPrim(t, false)
		}
		m, _ := mutate(t, v)
		return m
	case v.K == "nil":
		return genPrim(t, false)
	case v.K == "float" && math.IsNaN(v.f()):
		return vFloat(genFloat(t, false))
	}
	if rapid.IntRange(0, 4).Draw(t, "up") == 0 {
		return genPrim(t, false)
	}
	return differentSameType(t, v)
}

func genLive(t *rapid.T) LiveCase {
	var c LiveCase
	var base Case
	for {
		base = genCase(t)
		if len(base.Reslice) == 0 {
			break
		}
	}
	// base.A and base.B are related the way the pairs of the main check are (often equal, often
	// through a coercion); the third value is, most often, unequal to the compared one
	if d, w, _ := ref(base.A, base.B); d && !w && base.A.K != "nil" && rapid.IntRange(0, 2).Draw(t, "partner") > 0 {
		// an unequal pair says little here: compare with a partner that equals A instead
		base.B = base.A.clone()
		if base.A.isNum() {
			switch rapid.IntRange(0, 3).Draw(t, "how") {
			case 0:
				base.B = otherKind(base.A)
			case 1:
				if !(base.A.K == "float" && (math.IsNaN(base.A.f()) || math.IsInf(base.A.f(), 0))) {
					base.B = vStr(spell(t, base.A))
				}
			}
		} else if base.A.K == "str" {
			if cl, n := numeral(base.A.S); (cl == "int" || cl == "float") && rapid.Bool().Draw(t, "asnum") {
				base.B = n
			}
		}
	}
	switch uniform(t, 8, "lshape") {
	case 0, 1, 2:
		c.Shape = "old-related-to-ret"
		c.Old, c.Ret = base.A, base.B
		c.New = unequalTo(t, c.Old)
	case 3, 4, 5:
		c.Shape = "new-related-to-ret"
		c.New, c.Ret = base.A, base.B
		c.Old = unequalTo(t, c.New)
	case 6:
		c.Shape = "both-related-to-ret"
		c.Old, c.Ret = base.A, base.B
		c.New = c.Old.clone()
		if c.New.isNum() && rapid.Bool().Draw(t, "otherkind") {
			c.New = otherKind(c.New)
		}
	default:
		c.Shape = "any"
		c.Old, c.Ret = base.A, base.B
		c.New = genAny(t, true)
	}
	var fit []string
	for _, s := range liveSlots {
		if slotFits(s, c.Old, c.New) {
			fit = append(fit, s)
		}
	}
	c.Slot = fit[uniform(t, len(fit), "slot")]
	// the statically typed slots are only reachable with old and new of one primitive type: prefer them then
	if slotFits("typed-elem", c.Old, c.New) && rapid.IntRange(0, 2).Draw(t, "typedslot") == 0 {
		c.Slot = []string{"typed-elem", "field-typed"}[uniform(t, 2, "which")]
	}
	return c
}

func oracleLive(c LiveCase, o *h.Obs) *h.Fail {
	if !valid(c.Old, 0) || !valid(c.New, 0) || !valid(c.Ret, 0) || !isLiveSlot(c.Slot) || !slotFits(c.Slot, c.Old, c.New) {
		o.Excluded = "malformed_case"
		return nil
	}
	src := liveSource(c)
	o.Key = src
	dOld, wOld, _ := ref(c.Old, c.Ret)
	dNew, wNew, _ := ref(c.New, c.Ret)
	discriminates := dOld && dNew && wOld != wNew
	o.NonTrivial = discriminates
	o.Class("live:slot:" + c.Slot)
	o.Class("live:shape:" + c.Shape)
	o.Class("live:old:" + c.Old.K)
	o.Class("live:ret:" + c.Ret.K)
	if c.Old.K != c.Ret.K || c.New.K != c.Ret.K {
		o.Class("live:cross-type")
	}
	switch {
	case discriminates && wOld:
		o.Class("live:old_equals_ret_new_does_not")
	case discriminates:
		o.Class("live:new_equals_ret_old_does_not")
	case dOld && dNew && wOld:
		o.Class("live:both_equal_ret")
	case dOld && dNew:
		o.Class("live:neither_equals_ret")
	default:
		o.Class("live:no_reference_value")
	}

	e := newEnv()
	if err := e.Define("p", &lPoint{}); err != nil {
		panic(err) // harness problem
	}
	got, err := ank.Exec(e, src)
	sig := "|" + c.Slot
	if hp, ok := ank.IsHostPanic(err); ok {
		return h.Failf("C06|host-panic|live-slot"+sig, "source:\n%s\nescaped panic: %v", src, hp.Value)
	}
	if err != nil {
		return h.Failf("C06|error|live-slot"+sig, "source:\n%s\nanko error: %v", src, err)
	}
	list, ok := got.([]interface{})
	if !ok || (len(list) != 8 && len(list) != 9) {
		return h.Failf("C06|non-list|live-slot", "source:\n%s\nresult: %s", src, ank.Describe(got))
	}
	r := make([]bool, len(list))
	for i, x := range list {
		bv, ok := x.(bool)
		if !ok {
			return h.Failf("C06|non-bool|live-slot"+sig, "source:\n%s\n`%s` did not yield a bool: %s", src, liveForms[i], ank.Describe(x))
		}
		r[i] = bv
	}
	show := func() string {
		var sb strings.Builder
		for i, v := range r {
			fmt.Fprintf(&sb, "  %-26s = %v\n", liveForms[i], v)
		}
		return sb.String()
	}
	setup, slot, store := liveTexts(c)
	fail := func(law, msg string) *h.Fail {
		return h.Failf("C06|live-slot:"+law+sig, "%s\nslot: %s set up by `%s`; g() does `%s` and returns %s; every form starts from the slot set up afresh\nanko:\n%s\nsource:\n%s",
			msg, slot, strings.ReplaceAll(setup, "\n", "; "), store, lit(c.Ret), show(), src)
	}
	// the forms that disagree with `==` over the same operands are named together in the signature
	group := func(eq, ne, in, sw, tin int, suffix string, left, right string) *h.Fail {
		var broken, msgs []string
		note := func(law, msg string) {
			broken = append(broken, law)
			msgs = append(msgs, msg)
		}
		if r[ne] == r[eq] {
			note("negation", left+" != "+right+" is not the negation of "+left+" == "+right)
		}
		if r[in] != r[eq] {
			note("in", left+" in ["+right+"] disagrees with "+left+" == "+right)
		} else if tin >= 0 && tin < len(r) && r[tin] != r[eq] {
			// named only when membership in an untyped list is all right
			note("in-typed", left+" in "+typedList(c.Ret.K, right)+" disagrees with "+left+" == "+right)
		}
		if r[sw] != r[eq] {
			note("switch", "switch "+left+" { case "+right+" } disagrees with "+left+" == "+right)
		}
		if len(broken) == 0 {
			return nil
		}
		return fail(strings.Join(broken, "+")+suffix, strings.Join(msgs, "; "))
	}
	if f := group(lEq, lNe, lIn, lSw, lTIn, "", "slot", "g()"); f != nil {
		return f
	}
	if f := group(lREq, lRNe, lRIn, lRSw, -1, "-reversed", "g()", "slot"); f != nil {
		return f
	}
	if dOld && dNew {
		for _, i := range []int{lEq, lIn, lSw, lREq, lRIn, lRSw, lTIn} {
			if i < len(r) && r[i] != wOld && r[i] != wNew {
				return fail("ref", fmt.Sprintf("`%s` is %v, but the slot only ever held %s and %s, and the statement defines %s == %s as %v and %s == %s as %v", liveForms[i], r[i], lit(c.Old), lit(c.New), lit(c.Old), lit(c.Ret), wOld, lit(c.New), lit(c.Ret), wNew))
			}
		}
	}
	if r[lEq] {
		o.Class("live:anko:slot==g()_true")
	} else {
		o.Class("live:anko:slot==g()_false")
	}
	if r[lEq] != r[lREq] {
		o.Class("live:anko:slot==g()_differs_from_g()==slot")
	}
	return nil
}
