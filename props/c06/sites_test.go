// C06, sub-check "sites": one switch statement and one `in` expression with SEVERAL alternatives,
// some written as literals and some reading variables, evaluated several times in a row while the
// variables change in between.
//
// "membership (`in`) and `switch` case matching use the same relation [as ==]": at every evaluation
// the case that is taken has a value that == the subject at that moment, no case is taken only when
// no case value == the subject, and `x in [c1, ..., cn]` is true exactly when x == ci for some i.
// What `==` says for each (subject, alternative) pair is asked of the interpreter itself, in a fresh
// program in which every operand is a literal and every comparison site is evaluated once.
// Which of several matching cases is taken is not asserted here (the statement speaks of the
// relation, not of the order of the cases).
package c06

import (
	"fmt"
	"strings"

	"pgregory.net/rapid"

	"verif/internal/ank"
	"verif/internal/h"
)

// SiteAlt is one alternative: a case expression of the switch and, at the same time, an element of the list.
type SiteAlt struct {
	Lit  *Val   `json:"lit,omitempty"`  // written out as a literal
	Var  int    `json:"var"`            // otherwise: reads variable 0 or 1 ...
	Form string `json:"form,omitempty"` // ... as: var, paren, call, elem, entry
}

// SiteStep: optionally store V into variable Set, then evaluate both sites for subject X.
type SiteStep struct {
	Set int `json:"set"` // -1: nothing is assigned before this evaluation
	V   Val `json:"v"`
	X   Val `json:"x"`
}

type SiteCase struct {
	Carrier string      `json:"carrier"` // func: the sites are the body of a function called once per step; loop: body of a for-in over the steps
	Default bool        `json:"default"`
	Clauses [][]SiteAlt `json:"clauses"`
	Init    []Val       `json:"init"` // initial values of the two variables
	Steps   []SiteStep  `json:"steps"`
}

var siteForms = []string{"var", "var", "paren", "call", "elem", "entry"}

func isSiteForm(s string) bool {
	for _, f := range siteForms {
		if f == s {
			return true
		}
	}
	return false
}

func genSites(t *rapid.T) SiteCase {
	num := genNum(t, false)
	near := func(label string) Val {
		switch rapid.IntRange(0, 11).Draw(t, label) {
		case 0, 1:
			return num
		case 2:
			return otherKind(num)
		case 3, 4:
			return vStr(spell(t, num))
		case 5, 6:
			return neighbour(t, num)
		case 7:
			return vStr(spell(t, neighbour(t, num)))
		case 8:
			return otherKind(neighbour(t, num))
		case 9:
			return genAny(t, false)
		default:
			return genPrim(t, false)
		}
	}
	c := SiteCase{Carrier: "func"}
	if rapid.IntRange(0, 2).Draw(t, "carrier") == 0 {
		c.Carrier = "loop"
	}
	c.Default = rapid.Bool().Draw(t, "default")
	var lits []Val
	nc := 1 + uniform(t, 4, "nclauses")
	for i := 0; i < nc; i++ {
		na := 1
		if rapid.IntRange(0, 3).Draw(t, "two?") == 0 {
			na = 2
		}
		var cl []SiteAlt
		for j := 0; j < na; j++ {
			if rapid.Bool().Draw(t, "literal?") {
				v := near("litv")
				lits = append(lits, v)
				cl = append(cl, SiteAlt{Lit: &v})
			} else {
				cl = append(cl, SiteAlt{Var: uniform(t, 2, "var"), Form: siteForms[uniform(t, len(siteForms), "form")]})
			}
		}
		c.Clauses = append(c.Clauses, cl)
	}
	cur := []Val{near("init0"), near("init1")}
	c.Init = []Val{cur[0].clone(), cur[1].clone()}
	ns := 3 + uniform(t, 6, "nsteps")
	for i := 0; i < ns; i++ {
		st := SiteStep{Set: -1, V: vNil()}
		if i > 0 && rapid.Bool().Draw(t, "set?") {
			st.Set = uniform(t, 2, "setvar")
			if len(lits) > 0 && rapid.IntRange(0, 3).Draw(t, "setlit?") == 0 {
				st.V = lits[uniform(t, len(lits), "whichlit")].clone()
			} else {
				st.V = near("setv")
			}
			cur[st.Set] = st.V.clone()
		}
		k := uniform(t, 12, "xk")
		switch {
		case k < 4 && i > 0:
			st.X = c.Steps[i-1].X.clone() // the subject of the evaluation before
		case k < 7:
			st.X = cur[uniform(t, 2, "xvar")].clone()
		case k < 10 && len(lits) > 0:
			st.X = lits[uniform(t, len(lits), "xlit")].clone()
		default:
			st.X = near("xv")
		}
		c.Steps = append(c.Steps, st)
	}
	return c
}

func siteAltText(a SiteAlt) string {
	if a.Lit != nil {
		return lit(*a.Lit)
	}
	n := fmt.Sprint(a.Var)
	switch a.Form {
	case "paren":
		return "(y" + n + ")"
	case "call":
		return "g" + n + "()"
	case "elem":
		return "ys[" + n + "]"
	case "entry":
		return "mp.k" + n
	}
	return "y" + n
}

// siteBody is the pair of sites, over subject x: it leaves the number of the clause taken in k
// (0: default, -1: nothing) and the answer of `in` in m.
func siteBody(c SiteCase, ind string) string {
	var sb strings.Builder
	var all []string
	sb.WriteString(ind + "k = -1\n" + ind + "switch x {\n")
	for i, cl := range c.Clauses {
		texts := make([]string, len(cl))
		for j, a := range cl {
			texts[j] = siteAltText(a)
		}
		all = append(all, texts...)
		fmt.Fprintf(&sb, "%scase %s:\n%s k = %d\n", ind, strings.Join(texts, ", "), ind, i+1)
	}
	if c.Default {
		sb.WriteString(ind + "default:\n" + ind + " k = 0\n")
	}
	sb.WriteString(ind + "}\n" + ind + "m = x in [" + strings.Join(all, ", ") + "]\n")
	return sb.String()
}

func siteStore(v int, text string) string {
	n := fmt.Sprint(v)
	return "y" + n + " = " + text + "; ys[" + n + "] = " + text + "; mp.k" + n + " = " + text + "\n"
}

func sitesSource(c SiteCase) string {
	var sb strings.Builder
	i0, i1 := lit(c.Init[0]), lit(c.Init[1])
	sb.WriteString("y0 = " + i0 + "; y1 = " + i1 + "\nys = [" + i0 + ", " + i1 + "]\nmp = {\"k0\": " + i0 + ", \"k1\": " + i1 + "}\n")
	sb.WriteString("g0 = func() { return y0 }\ng1 = func() { return y1 }\nr = []\n")
	if c.Carrier == "loop" {
		// every step carries the values both variables have at that step
		cur := []Val{c.Init[0], c.Init[1]}
		recs := make([]string, len(c.Steps))
		for i, st := range c.Steps {
			if st.Set >= 0 {
				cur[st.Set] = st.V
			}
			recs[i] = "[" + lit(st.X) + ", " + lit(cur[0]) + ", " + lit(cur[1]) + "]"
		}
		sb.WriteString("steps = [" + strings.Join(recs, ", ") + "]\nfor st in steps {\n")
		sb.WriteString(" " + siteStore(0, "st[1]") + " " + siteStore(1, "st[2]") + " x = st[0]\n")
		sb.WriteString(siteBody(c, " "))
		sb.WriteString(" r += [[k, m]]\n}\nr")
		return sb.String()
	}
	sb.WriteString("f = func(x) {\n" + siteBody(c, " ") + " return [k, m]\n}\n")
	for _, st := range c.Steps {
		if st.Set >= 0 {
			sb.WriteString(siteStore(st.Set, lit(st.V)))
		}
		sb.WriteString("r += [f(" + lit(st.X) + ")]\n")
	}
	sb.WriteString("r")
	return sb.String()
}

// sitesReference: for every step the list [x == c1, ..., x == cn] with every operand spelled as a literal.
func sitesReference(c SiteCase) string {
	cur := []Val{c.Init[0], c.Init[1]}
	rows := make([]string, len(c.Steps))
	for i, st := range c.Steps {
		if st.Set >= 0 {
			cur[st.Set] = st.V
		}
		var cmp []string
		for _, cl := range c.Clauses {
			for _, a := range cl {
				v := cur[a.Var]
				if a.Lit != nil {
					v = *a.Lit
				}
				cmp = append(cmp, lit(st.X)+" == "+lit(v))
			}
		}
		rows[i] = "[" + strings.Join(cmp, ", ") + "]"
	}
	return "[" + strings.Join(rows, ",\n") + "]"
}

func sitesWellFormed(c SiteCase) bool {
	if (c.Carrier != "func" && c.Carrier != "loop") || len(c.Clauses) == 0 || len(c.Clauses) > 8 || len(c.Init) != 2 || len(c.Steps) == 0 || len(c.Steps) > 16 {
		return false
	}
	if !valid(c.Init[0], 0) || !valid(c.Init[1], 0) {
		return false
	}
	for _, cl := range c.Clauses {
		if len(cl) == 0 || len(cl) > 4 {
			return false
		}
		for _, a := range cl {
			if a.Lit != nil {
				if !valid(*a.Lit, 0) {
					return false
				}
			} else if a.Var < 0 || a.Var > 1 || !isSiteForm(a.Form) {
				return false
			}
		}
	}
	for _, st := range c.Steps {
		if st.Set < -1 || st.Set > 1 || !valid(st.X, 0) || (st.Set >= 0 && !valid(st.V, 0)) {
			return false
		}
	}
	return true
}

func oracleSites(c SiteCase, o *h.Obs) *h.Fail {
	if !sitesWellFormed(c) {
		o.Excluded = "malformed_case"
		return nil
	}
	src := sitesSource(c)
	o.Key = src
	o.Class("sites:carrier:" + c.Carrier)
	if c.Default {
		o.Class("sites:with-default")
	} else {
		o.Class("sites:without-default")
	}
	// flattened alternatives
	var clauseOf []int
	var isLit []bool
	var varOf []int
	nlit, nvar := 0, 0
	for i, cl := range c.Clauses {
		for _, a := range cl {
			clauseOf = append(clauseOf, i+1)
			isLit = append(isLit, a.Lit != nil)
			varOf = append(varOf, a.Var)
			if a.Lit != nil {
				nlit++
			} else {
				nvar++
				o.Class("sites:alternative:" + a.Form)
			}
		}
	}
	switch {
	case nvar == 0:
		o.Class("sites:alternatives:all-literal")
	case nlit == 0:
		o.Class("sites:alternatives:none-literal")
	default:
		o.Class("sites:alternatives:mixed")
	}
	fail := func(clause, format string, args ...interface{}) *h.Fail {
		return h.Failf("C06|sites|"+clause+"|"+c.Carrier, "%s\nsource:\n%s\nreference (every operand a literal, every site evaluated once):\n%s", fmt.Sprintf(format, args...), src, sitesReference(c))
	}
	run := func(what, src string) ([]interface{}, *h.Fail) {
		got, err := ank.Exec(newEnv(), src)
		if hp, ok := ank.IsHostPanic(err); ok {
			return nil, h.Failf("C06|host-panic|sites", "%s:\n%s\nescaped panic: %v", what, src, hp.Value)
		}
		if err != nil {
			return nil, h.Failf("C06|error|sites", "%s:\n%s\nanko error: %v", what, src, err)
		}
		list, ok := got.([]interface{})
		if !ok || len(list) != len(c.Steps) {
			return nil, h.Failf("C06|non-list|sites", "%s:\n%s\nresult: %s", what, src, ank.Describe(got))
		}
		return list, nil
	}
	got, f := run("source", src)
	if f != nil {
		return f
	}
	want, f := run("reference", sitesReference(c))
	if f != nil {
		return f
	}
	changedSinceEval := []bool{false, false} // variable assigned since the evaluation before
	everChanged := false
	readChanged := false
	for i, st := range c.Steps {
		if st.Set >= 0 {
			changedSinceEval[st.Set] = true
			everChanged = true
		}
		row, ok := want[i].([]interface{})
		if !ok || len(row) != len(clauseOf) {
			return h.Failf("C06|non-list|sites", "reference:\n%s\nrow %d: %s", sitesReference(c), i+1, ank.Describe(want[i]))
		}
		eq := make([]bool, len(row))
		any := false
		matching := map[int]bool{}
		firstMatch := -1
		for j, e := range row {
			b, ok := e.(bool)
			if !ok {
				return h.Failf("C06|non-bool|sites", "reference:\n%s\nrow %d: %s", sitesReference(c), i+1, ank.Describe(want[i]))
			}
			eq[j] = b
			if b {
				any = true
				matching[clauseOf[j]] = true
				if firstMatch < 0 {
					firstMatch = j
				}
			}
		}
		pair, ok := got[i].([]interface{})
		if !ok || len(pair) != 2 {
			return h.Failf("C06|non-list|sites", "source:\n%s\nstep %d: %s", src, i+1, ank.Describe(got[i]))
		}
		k64, ok1 := pair[0].(int64)
		m, ok2 := pair[1].(bool)
		k := int(k64)
		if !ok1 || !ok2 || k < -1 || k > len(c.Clauses) || (k == 0 && !c.Default) || (k == -1 && c.Default) {
			return h.Failf("C06|non-list|sites", "source:\n%s\nstep %d: %s", src, i+1, ank.Describe(got[i]))
		}
		// counters
		sameSubject := i > 0 && lit(c.Steps[i-1].X) == lit(st.X)
		changed := changedSinceEval[0] || changedSinceEval[1]
		switch {
		case !any:
			o.Class("sites:step:no-alternative-equal")
		case isLit[firstMatch]:
			o.Class("sites:step:first-equal-alternative-is-literal")
		default:
			o.Class("sites:step:first-equal-alternative-reads-variable")
		}
		if len(matching) > 1 {
			o.Class("sites:step:several-clauses-equal")
		}
		if sameSubject {
			o.Class("sites:step:same-subject-as-before")
			if changed {
				o.Class("sites:step:same-subject-after-a-variable-changed")
			}
		}
		if i == 0 && any && isLit[firstMatch] {
			for j := firstMatch + 1; j < len(isLit); j++ {
				if !isLit[j] {
					o.Class("sites:first-evaluation-stops-at-a-literal-before-a-variable")
					break
				}
			}
		}
		for j := range varOf {
			if !isLit[j] && changedSinceEval[varOf[j]] {
				readChanged = true
			}
		}
		// the statement
		x := lit(st.X)
		if k >= 1 && !matching[k] {
			return fail("switch:case-taken-has-no-value-equal-to-the-subject", "evaluation %d, subject %s: the switch takes clause %d, but %s == <value> is false for every value of that clause at that moment (== per alternative: %v)", i+1, x, k, x, eq)
		}
		if k < 1 && any {
			return fail("switch:no-case-taken-although-a-case-value-equals-the-subject", "evaluation %d, subject %s: the switch takes no case (k = %d), but %s == <value> is true for a case value at that moment (== per alternative: %v)", i+1, x, k, x, eq)
		}
		if m != any {
			return fail(fmt.Sprintf("in:%v-although-some-element-equal-is-%v", m, any), "evaluation %d, subject %s: `in` over the list of all alternatives answers %v (== per alternative: %v)", i+1, x, m, eq)
		}
		changedSinceEval[0], changedSinceEval[1] = false, false
	}
	if everChanged {
		o.Class("sites:a-variable-changed-between-evaluations")
	}
	o.NonTrivial = readChanged
	return nil
}
