package c06

// Sub-check "kinds": the laws of the relation for values of EVERY Go numeric kind a script can hold
// (elements of typed slices it makes itself, results of host functions: float32, int32, uint8,
// uint64, plain int, ...) against each other and against the int64 / float64 / string / bool / nil
// values of the language. The statement gives a reference value only for the language's own types,
// but symmetry, negation, and the agreement of `in` and `switch` with `==` hold "for every pair of
// values": this check asserts exactly these laws and nothing about which pairs are equal.

import (
	"fmt"
	"math"
	"strconv"
	"strings"

	"pgregory.net/rapid"

	"verif/internal/ank"
	"verif/internal/h"
)

type KindOperand struct {
	Kind string `json:"kind"` // int64 float64 str bool nil | float32 int32 int16 int8 int uint8 uint16 uint32 uint64 uint
	Num  string `json:"num"`  // the number, spelled as an anko numeric literal (ignored for bool / nil)
	Via  string `json:"via"`  // typed kinds only: slice (element of a typed slice literal) | host (result of a Go function) | parse (uint64 / uint only: result of a Go function that reads the decimal spelling, the only way to a value above MaxInt64)
	Held string `json:"held"` // lit (used where it stands) | var | elem (read back from an untyped list)
}

type KindsCase struct {
	A KindOperand `json:"a"`
	B KindOperand `json:"b"`
}

var typedKinds = []string{"float32", "float32", "int32", "int16", "int8", "int", "uint8", "uint16", "uint32", "uint64", "uint"}
var plainKinds = []string{"int64", "float64", "float64", "str", "bool", "nil"}

// numbers: exact and inexact binary fractions, values that float32 cannot hold exactly, limits of
// the narrow kinds and their neighbours
var kindNums = []string{"0", "1", "2", "1.5", "0.5", "1.1", "0.1", "2.7", "3", "100", "127", "128", "255", "256", "32767", "65535", "65536", "16777216", "16777217", "2147483647", "4294967295",
	"9007199254740993", "9223372036854775807", "1e10", "3.4e38", "1e-3"}

// integers above MaxInt64: only an unsigned 64-bit kind holds them
var bigUnsigned = []string{"9223372036854775807", "9223372036854775808", "9223372036854775809", "12297829382473034410", "18446744073709551614", "18446744073709551615"}

func isWideUnsigned(kind string) bool { return kind == "uint64" || kind == "uint" }

// fitNums[kind]: the numbers of kindNums the kind can hold
var fitNums = func() map[string][]string {
	m := map[string][]string{}
	for _, k := range typedKinds {
		if _, done := m[k]; done {
			continue
		}
		for _, n := range kindNums {
			if kindFits(k, n) {
				m[k] = append(m[k], n)
			}
		}
	}
	return m
}()

// genSameKind: both operands of ONE typed Go kind, over numbers the kind holds (so the case is
// not lost to the range guard): equal, different, of opposite sign; for the 64-bit unsigned kinds
// half of the pairs lie above MaxInt64.
func genSameKind(t *rapid.T) KindsCase {
	k := rapid.SampledFrom(typedKinds).Draw(t, "samekind")
	var c KindsCase
	c.A.Kind, c.B.Kind = k, k
	if isWideUnsigned(k) && rapid.Bool().Draw(t, "big") {
		c.A.Via, c.B.Via = "parse", "parse"
		c.A.Num = rapid.SampledFrom(bigUnsigned).Draw(t, "anum")
		c.B.Num = rapid.SampledFrom(bigUnsigned).Draw(t, "bnum")
	} else {
		c.A.Via = rapid.SampledFrom([]string{"slice", "host"}).Draw(t, "avia")
		c.B.Via = rapid.SampledFrom([]string{"slice", "host"}).Draw(t, "bvia")
		c.A.Num = rapid.SampledFrom(fitNums[k]).Draw(t, "anum")
		c.B.Num = rapid.SampledFrom(fitNums[k]).Draw(t, "bnum")
	}
	if rapid.IntRange(0, 2).Draw(t, "samenum") == 0 {
		c.B.Num = c.A.Num
	}
	if !strings.HasPrefix(k, "uint") {
		// the negative limits are one below the negated positive ones; -max always fits
		if rapid.IntRange(0, 3).Draw(t, "aneg") == 0 {
			c.A.Num = "-" + c.A.Num
		}
		if rapid.IntRange(0, 3).Draw(t, "bneg") == 0 {
			c.B.Num = "-" + c.B.Num
		}
	}
	c.A.Held = rapid.SampledFrom([]string{"lit", "var", "var", "elem"}).Draw(t, "aheld")
	c.B.Held = rapid.SampledFrom([]string{"lit", "var", "var", "elem"}).Draw(t, "bheld")
	return c
}

func genKindOperand(t *rapid.T, label string) KindOperand {
	o := KindOperand{}
	if rapid.IntRange(0, 9).Draw(t, label+"typed") < 6 {
		o.Kind = rapid.SampledFrom(typedKinds).Draw(t, label+"kind")
		o.Via = rapid.SampledFrom([]string{"slice", "host"}).Draw(t, label+"via")
	} else {
		o.Kind = rapid.SampledFrom(plainKinds).Draw(t, label+"kind")
	}
	o.Num = rapid.SampledFrom(kindNums).Draw(t, label+"num")
	if rapid.IntRange(0, 3).Draw(t, label+"neg") == 0 && !strings.HasPrefix(o.Kind, "uint") {
		o.Num = "-" + o.Num
	}
	o.Held = rapid.SampledFrom([]string{"lit", "var", "var", "elem"}).Draw(t, label+"held")
	if isWideUnsigned(o.Kind) && rapid.IntRange(0, 2).Draw(t, label+"big") == 0 {
		o.Via = "parse"
		o.Num = rapid.SampledFrom(bigUnsigned).Draw(t, label+"bignum")
	}
	return o
}

func genKinds(t *rapid.T) KindsCase {
	if rapid.IntRange(0, 3).Draw(t, "kshape") == 0 {
		return genSameKind(t)
	}
	c := KindsCase{A: genKindOperand(t, "a")}
	c.B = genKindOperand(t, "b")
	if rapid.Bool().Draw(t, "samenum") && c.B.Via != "parse" {
		c.B.Num = strings.TrimPrefix(c.A.Num, "-")
		if strings.HasPrefix(c.A.Num, "-") && !strings.HasPrefix(c.B.Kind, "uint") {
			c.B.Num = c.A.Num
		}
	}
	return c
}

// fits reports whether the number can be handed to the kind without leaving its range (the host
// functions take a float64 / int64 and convert with Go's conversion, which is only defined in range).
func kindFits(kind, num string) bool {
	f, err := strconv.ParseFloat(num, 64)
	if err != nil {
		return false
	}
	isInt := f == math.Trunc(f) && !strings.ContainsAny(num, ".e")
	lim := map[string][2]float64{"int32": {-2147483648, 2147483647}, "int16": {-32768, 32767}, "int8": {-128, 127}, "int": {-9.2e18, 9.2e18}, "int64": {-9.2e18, 9.2e18},
		"uint8": {0, 255}, "uint16": {0, 65535}, "uint32": {0, 4294967295}, "uint64": {0, 9.2e18}, "uint": {0, 9.2e18}}
	switch kind {
	case "float32":
		return math.Abs(f) <= 3.4e38
	case "float64", "str", "bool", "nil":
		return true
	}
	l, ok := lim[kind]
	return ok && isInt && f >= l[0] && f <= l[1]
}

// operandFits: kindFits, or for a parsed operand: the spelling is an unsigned 64-bit integer
func operandFits(o KindOperand) bool {
	if o.Via == "parse" {
		if !isWideUnsigned(o.Kind) {
			return false
		}
		_, err := strconv.ParseUint(o.Num, 10, 64)
		return err == nil
	}
	return kindFits(o.Kind, o.Num)
}

func aboveMaxInt64(o KindOperand) bool {
	if o.Via != "parse" {
		return false
	}
	u, err := strconv.ParseUint(o.Num, 10, 64)
	return err == nil && u > math.MaxInt64
}

// goValue: the Go value of a typed operand, where Go's own conversions define it without any
// doubt: an integer kind holding an integer in its range; a float32 when converting the number
// as an integer and as a float64 gives the same float32.
func goValue(o KindOperand) (interface{}, bool) {
	if !operandFits(o) {
		return nil, false
	}
	if strings.HasPrefix(o.Kind, "uint") {
		u, err := strconv.ParseUint(o.Num, 10, 64)
		if err != nil {
			return nil, false
		}
		switch o.Kind {
		case "uint8":
			return uint8(u), true
		case "uint16":
			return uint16(u), true
		case "uint32":
			return uint32(u), true
		case "uint64":
			return uint64(u), true
		case "uint":
			return uint(u), true
		}
		return nil, false
	}
	if strings.HasPrefix(o.Kind, "int") {
		i, err := strconv.ParseInt(o.Num, 10, 64)
		if err != nil {
			return nil, false
		}
		switch o.Kind {
		case "int8":
			return int8(i), true
		case "int16":
			return int16(i), true
		case "int32":
			return int32(i), true
		case "int":
			return int(i), true
		}
		return nil, false
	}
	if o.Kind == "float32" {
		f, err := strconv.ParseFloat(o.Num, 64)
		if err != nil {
			return nil, false
		}
		if i, err := strconv.ParseInt(o.Num, 10, 64); err == nil && float32(i) != float32(f) {
			return nil, false
		}
		return float32(f), true
	}
	return nil, false
}

func kindExpr(o KindOperand) string {
	switch o.Kind {
	case "nil":
		return "nil"
	case "bool":
		if strings.HasPrefix(o.Num, "-") || o.Num == "0" {
			return "false"
		}
		return "true"
	case "str":
		return strconv.Quote(o.Num)
	case "int64":
		if strings.ContainsAny(o.Num, ".e") {
			return "toInt(" + o.Num + ")"
		}
		return "(" + o.Num + ")"
	case "float64":
		if !strings.ContainsAny(o.Num, ".e") {
			return "toFloat(" + o.Num + ")"
		}
		return "(" + o.Num + ")"
	}
	if o.Via == "host" {
		return "to_" + o.Kind + "(" + o.Num + ")"
	}
	if o.Via == "parse" {
		return "parse_" + o.Kind + "(" + strconv.Quote(o.Num) + ")"
	}
	return "[]" + o.Kind + "{" + o.Num + "}[0]"
}

func kindsSource(c KindsCase) string {
	var b strings.Builder
	name := func(o KindOperand, v string) string {
		e := kindExpr(o)
		switch o.Held {
		case "var":
			b.WriteString(v + " = " + e + "\n")
			return v
		case "elem":
			b.WriteString(v + "l = [0, " + e + "]\n")
			return v + "l[1]"
		}
		return e
	}
	a, bb := name(c.A, "a"), name(c.B, "b")
	b.WriteString("sw = func(x, y) {\n switch x {\n case y:\n  return true\n }\n return false\n}\n")
	fmt.Fprintf(&b, "[%s == %s, %s == %s, %s != %s, %s != %s, %s in [%s], %s in [%s], sw(%s, %s), sw(%s, %s)]", a, bb, bb, a, a, bb, bb, a, a, bb, bb, a, a, bb, bb, a)
	return b.String()
}

func oracleKinds(c KindsCase, o *h.Obs) *h.Fail {
	okKind := func(k string) bool {
		for _, x := range append(append([]string{}, typedKinds...), plainKinds...) {
			if x == k {
				return true
			}
		}
		return false
	}
	if !okKind(c.A.Kind) || !okKind(c.B.Kind) {
		o.Excluded = "malformed_case"
		return nil
	}
	if !operandFits(c.A) || !operandFits(c.B) {
		o.Excluded = "the number is outside the range of the kind"
		return nil
	}
	src := kindsSource(c)
	o.Key = src
	typed := func(k string) bool { return k != "int64" && k != "float64" && k != "str" && k != "bool" && k != "nil" }
	o.NonTrivial = typed(c.A.Kind) || typed(c.B.Kind)
	o.Class("kinds:" + c.A.Kind + "_vs_" + c.B.Kind)
	e := newEnv()
	e.Define("to_float32", func(x float64) float32 { return float32(x) })
	e.Define("to_int32", func(x int64) int32 { return int32(x) })
	e.Define("to_int16", func(x int64) int16 { return int16(x) })
	e.Define("to_int8", func(x int64) int8 { return int8(x) })
	e.Define("to_int", func(x int64) int { return int(x) })
	e.Define("to_uint8", func(x int64) uint8 { return uint8(x) })
	e.Define("to_uint16", func(x int64) uint16 { return uint16(x) })
	e.Define("to_uint32", func(x int64) uint32 { return uint32(x) })
	e.Define("to_uint64", func(x int64) uint64 { return uint64(x) })
	e.Define("to_uint", func(x int64) uint { return uint(x) })
	e.Define("parse_uint64", func(s string) uint64 { u, _ := strconv.ParseUint(s, 10, 64); return u })
	e.Define("parse_uint", func(s string) uint { u, _ := strconv.ParseUint(s, 10, 64); return uint(u) })
	got, err := ank.Exec(e, src)
	if hp, ok := ank.IsHostPanic(err); ok {
		return h.Failf("C06|host-panic|kinds", "source:\n%s\nescaped panic: %v", src, hp.Value)
	}
	if err != nil {
		// building the operand failed (a literal the typed slice does not take): nothing was compared
		o.Excluded = "the operands could not be built"
		o.NonTrivial = false
		return nil
	}
	list, ok := got.([]interface{})
	if !ok || len(list) != 8 {
		return h.Failf("C06|non-list|kinds", "source:\n%s\nresult: %s", src, ank.Describe(got))
	}
	r := make([]bool, 8)
	for i, x := range list {
		bv, ok := x.(bool)
		if !ok {
			return h.Failf("C06|non-bool|kinds", "source:\n%s\nresult %d is %s", src, i+1, ank.Describe(x))
		}
		r[i] = bv
	}
	pair := c.A.Kind + "|" + c.B.Kind
	fail := func(law, msg string) *h.Fail {
		return h.Failf("C06|"+law+"|kinds|"+pair, "%s\nsource:\n%s\nresults (a == b, b == a, a != b, b != a, a in [b], b in [a], switch a {case b}, switch b {case a}): %v", msg, src, r)
	}
	// reference value: "two values of the same primitive type are equal exactly when Go's == says
	// so" - both operands of ONE typed Go kind, the values taken from Go's own conversions
	if c.A.Kind == c.B.Kind && typed(c.A.Kind) {
		if va, ok := goValue(c.A); ok {
			if vb, ok := goValue(c.B); ok {
				want := va == vb // interface comparison: same dynamic type, Go's == on the values
				o.Class("kinds:ref:same-kind")
				o.Class(fmt.Sprintf("kinds:ref:same-kind:expected:%v", want))
				if aboveMaxInt64(c.A) || aboveMaxInt64(c.B) {
					o.Class("kinds:ref:same-kind:unsigned_above_MaxInt64")
				}
				if r[0] != want || r[1] != want {
					return h.Failf("C06|ref:same-prim-kind|kinds|"+c.A.Kind, "two values of the Go type %s: Go's == says %v (%v against %v); anko says a == b is %v, b == a is %v\nsource:\n%s", c.A.Kind, want, va, vb, r[0], r[1], src)
				}
			}
		}
	}
	if r[0] != r[1] {
		return fail("law:symmetry", "a == b and b == a disagree")
	}
	if r[2] == r[0] || r[3] == r[1] {
		return fail("law:negation", "!= is not the negation of ==")
	}
	if r[4] != r[0] || r[5] != r[1] {
		return fail("law:in", "membership disagrees with ==")
	}
	if r[6] != r[0] || r[7] != r[1] {
		return fail("law:switch", "switch case matching disagrees with ==")
	}
	if r[0] {
		o.Class("kinds:equal_pair")
	}
	if aboveMaxInt64(c.A) || aboveMaxInt64(c.B) {
		o.Class("kinds:operand_above_MaxInt64")
	}
	return nil
}
