package c06

// Sub-check "kinds": the laws of the relation for values of EVERY Go numeric kind a script can hold
// (elements of typed slices it makes itself, results of host functions: float32, int32, uint8,
// uint64, plain int, ...) against each other and against the int64 / float64 / string / bool / nil
// values of the language. The statement gives a reference value only for the language's own types,
// but symmetry, negation, and the agreement of `in` and `switch` with `==` hold "for every pair of
// values": this check asserts exactly these laws and nothing about which pairs are equal.

import (
	"fmt"
	"math"
	"strconv"
	"strings"

	"pgregory.net/rapid"

	"verif/internal/ank"
	"verif/internal/h"
)

type KindOperand struct {
	Kind string `json:"kind"` // int64 float64 str bool nil | float32 int32 int16 int8 int uint8 uint16 uint32 uint64 uint
	Num  string `json:"num"`  // the number, spelled as an anko numeric literal (ignored for bool / nil)
	Via  string `json:"via"`  // typed kinds only: slice (element of a typed slice literal) | host (result of a Go function)
	Held string `json:"held"` // lit (used where it stands) | var | elem (read back from an untyped list)
}

type KindsCase struct {
	A KindOperand `json:"a"`
	B KindOperand `json:"b"`
}

var typedKinds = []string{"float32", "float32", "int32", "int16", "int8", "int", "uint8", "uint16", "uint32", "uint64", "uint"}
var plainKinds = []string{"int64", "float64", "float64", "str", "bool", "nil"}

// numbers: exact and inexact binary fractions, values that float32 cannot hold exactly, limits of
// the narrow kinds and their neighbours
var kindNums = []string{"0", "1", "2", "1.5", "0.5", "1.1", "0.1", "2.7", "3", "100", "127", "128", "255", "256", "32767", "65535", "65536", "16777216", "16777217", "2147483647", "4294967295",
	"9007199254740993", "9223372036854775807", "1e10", "3.4e38", "1e-3"}

func genKindOperand(t *rapid.T, label string) KindOperand {
	o := KindOperand{}
	if rapid.IntRange(0, 9).Draw(t, label+"typed") < 6 {
		o.Kind = rapid.SampledFrom(typedKinds).Draw(t, label+"kind")
		o.Via = rapid.SampledFrom([]string{"slice", "host"}).Draw(t, label+"via")
	} else {
		o.Kind = rapid.SampledFrom(plainKinds).Draw(t, label+"kind")
	}
	o.Num = rapid.SampledFrom(kindNums).Draw(t, label+"num")
	if rapid.IntRange(0, 3).Draw(t, label+"neg") == 0 && !strings.HasPrefix(o.Kind, "uint") {
		o.Num = "-" + o.Num
	}
	o.Held = rapid.SampledFrom([]string{"lit", "var", "var", "elem"}).Draw(t, label+"held")
	return o
}

func genKinds(t *rapid.T) KindsCase {
	c := KindsCase{A: genKindOperand(t, "a")}
	c.B = genKindOperand(t, "b")
	if rapid.Bool().Draw(t, "samenum") {
		c.B.Num = strings.TrimPrefix(c.A.Num, "-")
		if strings.HasPrefix(c.A.Num, "-") && !strings.HasPrefix(c.B.Kind, "uint") {
			c.B.Num = c.A.Num
		}
	}
	return c
}

// fits reports whether the number can be handed to the kind without leaving its range (the host
// functions take a float64 / int64 and convert with Go's conversion, which is only defined in range).
func kindFits(kind, num string) bool {
	f, err := strconv.ParseFloat(num, 64)
	if err != nil {
		return false
	}
	isInt := f == math.Trunc(f) && !strings.ContainsAny(num, ".e")
	lim := map[string][2]float64{"int32": {-2147483648, 2147483647}, "int16": {-32768, 32767}, "int8": {-128, 127}, "int": {-9.2e18, 9.2e18}, "int64": {-9.2e18, 9.2e18},
		"uint8": {0, 255}, "uint16": {0, 65535}, "uint32": {0, 4294967295}, "uint64": {0, 9.2e18}, "uint": {0, 9.2e18}}
	switch kind {
	case "float32":
		return math.Abs(f) <= 3.4e38
	case "float64", "str", "bool", "nil":
		return true
	}
	l, ok := lim[kind]
	return ok && isInt && f >= l[0] && f <= l[1]
}

func kindExpr(o KindOperand) string {
	switch o.Kind {
	case "nil":
		return "nil"
	case "bool":
		if strings.HasPrefix(o.Num, "-") || o.Num == "0" {
			return "false"
		}
		return "true"
	case "str":
		return strconv.Quote(o.Num)
	case "int64":
		if strings.ContainsAny(o.Num, ".e") {
			return "toInt(" + o.Num + ")"
		}
		return "(" + o.Num + ")"
	case "float64":
		if !strings.ContainsAny(o.Num, ".e") {
			return "toFloat(" + o.Num + ")"
		}
		return "(" + o.Num + ")"
	}
	if o.Via == "host" {
		return "to_" + o.Kind + "(" + o.Num + ")"
	}
	return "[]" + o.Kind + "{" + o.Num + "}[0]"
}

func kindsSource(c KindsCase) string {
	var b strings.Builder
	name := func(o KindOperand, v string) string {
		e := kindExpr(o)
		switch o.Held {
		case "var":
			b.WriteString(v + " = " + e + "\n")
			return v
		case "elem":
			b.WriteString(v + "l = [0, " + e + "]\n")
			return v + "l[1]"
		}
		return e
	}
	a, bb := name(c.A, "a"), name(c.B, "b")
	b.WriteString("sw = func(x, y) {\n switch x {\n case y:\n  return true\n }\n return false\n}\n")
	fmt.Fprintf(&b, "[%s == %s, %s == %s, %s != %s, %s != %s, %s in [%s], %s in [%s], sw(%s, %s), sw(%s, %s)]", a, bb, bb, a, a, bb, bb, a, a, bb, bb, a, a, bb, bb, a)
	return b.String()
}

func oracleKinds(c KindsCase, o *h.Obs) *h.Fail {
	okKind := func(k string) bool {
		for _, x := range append(append([]string{}, typedKinds...), plainKinds...) {
			if x == k {
				return true
			}
		}
		return false
	}
	if !okKind(c.A.Kind) || !okKind(c.B.Kind) {
		o.Excluded = "malformed_case"
		return nil
	}
	if !kindFits(c.A.Kind, c.A.Num) || !kindFits(c.B.Kind, c.B.Num) {
		o.Excluded = "the number is outside the range of the kind"
		return nil
	}
	src := kindsSource(c)
	o.Key = src
	typed := func(k string) bool { return k != "int64" && k != "float64" && k != "str" && k != "bool" && k != "nil" }
	o.NonTrivial = typed(c.A.Kind) || typed(c.B.Kind)
	o.Class("kinds:" + c.A.Kind + "_vs_" + c.B.Kind)
	e := newEnv()
	e.Define("to_float32", func(x float64) float32 { return float32(x) })
	e.Define("to_int32", func(x int64) int32 { return int32(x) })
	e.Define("to_int16", func(x int64) int16 { return int16(x) })
	e.Define("to_int8", func(x int64) int8 { return int8(x) })
	e.Define("to_int", func(x int64) int { return int(x) })
	e.Define("to_uint8", func(x int64) uint8 { return uint8(x) })
	e.Define("to_uint16", func(x int64) uint16 { return uint16(x) })
	e.Define("to_uint32", func(x int64) uint32 { return uint32(x) })
	e.Define("to_uint64", func(x int64) uint64 { return uint64(x) })
	e.Define("to_uint", func(x int64) uint { return uint(x) })
	got, err := ank.Exec(e, src)
	if hp, ok := ank.IsHostPanic(err); ok {
		return h.Failf("C06|host-panic|kinds", "source:\n%s\nescaped panic: %v", src, hp.Value)
	}
	if err != nil {
		// building the operand failed (a literal the typed slice does not take): nothing was compared
		o.Excluded = "the operands could not be built"
		o.NonTrivial = false
		return nil
	}
	list, ok := got.([]interface{})
	if !ok || len(list) != 8 {
		return h.Failf("C06|non-list|kinds", "source:\n%s\nresult: %s", src, ank.Describe(got))
	}
	r := make([]bool, 8)
	for i, x := range list {
		bv, ok := x.(bool)
		if !ok {
			return h.Failf("C06|non-bool|kinds", "source:\n%s\nresult %d is %s", src, i+1, ank.Describe(x))
		}
		r[i] = bv
	}
	pair := c.A.Kind + "|" + c.B.Kind
	fail := func(law, msg string) *h.Fail {
		return h.Failf("C06|"+law+"|kinds|"+pair, "%s\nsource:\n%s\nresults (a == b, b == a, a != b, b != a, a in [b], b in [a], switch a {case b}, switch b {case a}): %v", msg, src, r)
	}
	if r[0] != r[1] {
		return fail("law:symmetry", "a == b and b == a disagree")
	}
	if r[2] == r[0] || r[3] == r[1] {
		return fail("law:negation", "!= is not the negation of ==")
	}
	if r[4] != r[0] || r[5] != r[1] {
		return fail("law:in", "membership disagrees with ==")
	}
	if r[6] != r[0] || r[7] != r[1] {
		return fail("law:switch", "switch case matching disagrees with ==")
	}
	if r[0] {
		o.Class("kinds:equal_pair")
	}
	return nil
}
