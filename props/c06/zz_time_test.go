package c06

import (
	"fmt"
	"testing"
	"time"

	"verif/internal/h"
)

func TestZZ(t *testing.T) {
	c := h.New(t, "C06")
	defer c.Finish()
	t0 := time.Now()
	h.Run(c, "pairs", 50000, genCase, oracle)
	h.Run(c, "stateless", 8000, genHist, oracleHist)
	h.Run(c, "kinds", 12000, genKinds, oracleKinds)
	h.Run(c, "foreign", 6000, genForeign, oracleForeign)
	h.Run(c, "live-slot", 5000, genLive, oracleLive)
	t1 := time.Now()
	h.Run(c, "sites", 5000, genSites, oracleSites)
	t2 := time.Now()
	fmt.Printf("OLD %v NEW %v ratio %.3f\n", t1.Sub(t0), t2.Sub(t1), float64(t2.Sub(t1))/float64(t1.Sub(t0)))
}
