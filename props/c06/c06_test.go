// C06 — equality is one coherent relation.
//
// A case is an ordered pair (a, b) of value descriptors. Each pair is evaluated
// by anko in `a == b`, `b == a`, `a != b`, `b != a`, `a in [b]`, `b in [a]`,
// `switch a { case b: … }`, `switch b { case a: … }` and (numeric pairs)
// `a <= b && a >= b`, `b <= a && b >= a`; once with the operands spelled as
// literals, once with the operands held in variables.
//
// Oracle, two layers:
//   - algebraic laws, always: symmetry, `!=` is the negation of `==`, `in` and
//     `switch` agree with `==`, the answer does not depend on the operand form;
//   - reference values, only where the property statement defines them (ref()).
package c06

import (
	"fmt"
	"math"
	"math/big"
	"regexp"
	"strconv"
	"strings"
	"testing"
	"unicode"

	"github.com/mattn/anko/env"
	"pgregory.net/rapid"

	"verif/internal/ank"
	"verif/internal/h"
	"verif/internal/vals"
)

// ---------------------------------------------------------------- descriptors

// Val is a JSON-serialisable value descriptor.
type Val struct {
	K  string `json:"k"`            // nil bool int float str slice map
	B  bool   `json:"b,omitempty"`  // bool payload
	I  int64  `json:"i,omitempty"`  // int payload
	FB uint64 `json:"fb,omitempty"` // float payload (IEEE bits)
	S  string `json:"s,omitempty"`  // string payload
	E  []Val  `json:"e,omitempty"`  // slice elements / map values
	MK []Val  `json:"mk,omitempty"` // map keys (str or int), parallel to E
}

// Case is an ordered pair plus the label of the generator shape that made it
// (the label is only used as a class counter).
type Case struct {
	A   Val    `json:"a"`
	B   Val    `json:"b"`
	Rel string `json:"rel,omitempty"`
	// Reslice [lo, hi]: A is a slice and B is not a value of its own but `a[lo:hi]`, a view that
	// shares A's storage (B holds the elements that view has)
	Reslice []int `json:"reslice,omitempty"`
}

func vNil() Val            { return Val{K: "nil"} }
func vBool(b bool) Val     { return Val{K: "bool", B: b} }
func vInt(i int64) Val     { return Val{K: "int", I: i} }
func vFloat(f float64) Val { return Val{K: "float", FB: math.Float64bits(f)} }
func vStr(s string) Val    { return Val{K: "str", S: s} }

func (v Val) f() float64        { return math.Float64frombits(v.FB) }
func (v Val) isContainer() bool { return v.K == "slice" || v.K == "map" }
func (v Val) isNum() bool       { return v.K == "int" || v.K == "float" }

func (v Val) clone() Val {
	c := v
	if v.E != nil {
		c.E = make([]Val, len(v.E))
		for i := range v.E {
			c.E[i] = v.E[i].clone()
		}
	}
	if v.MK != nil {
		c.MK = make([]Val, len(v.MK))
		copy(c.MK, v.MK)
	}
	return c
}

// lit spells a descriptor as an anko expression evaluating to that value.
func lit(v Val) string {
	switch v.K {
	case "nil":
		return "nil"
	case "bool":
		if v.B {
			return "true"
		}
		return "false"
	case "int":
		return vals.IntLit(v.I)
	case "float":
		return vals.FloatLit(v.f())
	case "str":
		return vals.StrLit(v.S)
	case "slice":
		parts := make([]string, len(v.E))
		for i, e := range v.E {
			parts[i] = lit(e)
		}
		return "[" + strings.Join(parts, ", ") + "]"
	case "map":
		parts := make([]string, len(v.E))
		for i, e := range v.E {
			parts[i] = lit(v.MK[i]) + ": " + lit(e)
		}
		return "{" + strings.Join(parts, ", ") + "}"
	}
	panic("bad kind " + v.K)
}

func valid(v Val, depth int) bool {
	if depth > 8 {
		return false
	}
	switch v.K {
	case "nil", "bool", "int", "float", "str":
		return len(v.E) == 0 && len(v.MK) == 0
	case "slice":
		if len(v.MK) != 0 {
			return false
		}
	case "map":
		if len(v.MK) != len(v.E) {
			return false
		}
		seen := map[string]bool{}
		for _, k := range v.MK {
			if k.K != "str" && k.K != "int" {
				return false
			}
			ks := lit(k)
			if seen[ks] {
				return false
			}
			seen[ks] = true
		}
	default:
		return false
	}
	for _, e := range v.E {
		if !valid(e, depth+1) {
			return false
		}
	}
	return true
}

// ------------------------------------------------------------------ reference

var (
	reIntNumeral = regexp.MustCompile(`^[+-]?[0-9]+$`)
	reDecNumeral = regexp.MustCompile(`^[+-]?[0-9]+(\.[0-9]+)?([eE][+-]?[0-9]+)?$`)
	// a decimal numeral whose integer part or fraction part is left empty (".5", "5.", "-.5e3")
	reBarePointNumeral = regexp.MustCompile(`^[+-]?([0-9]+\.[0-9]*|\.[0-9]+)([eE][+-]?[0-9]+)?$`)
	reHexFloat         = regexp.MustCompile(`^[+-]?0[xX][0-9a-fA-F_]*(\.[0-9a-fA-F_]*)?[pP][+-]?[0-9_]+$`)
	reBasedInt         = regexp.MustCompile(`^[+-]?0([xX][0-9a-fA-F_]+|[bB][01_]+|[oO][0-7_]+)$`)
	reDigitSeparators  = regexp.MustCompile(`^[+-]?[0-9]+(_[0-9]+)*(\.[0-9]+(_[0-9]+)*)?([eE][+-]?[0-9]+(_[0-9]+)*)?$`)
)

// numeral classifies a string.
//
//	"int" / "float": strict decimal numeral, n is the number it denotes
//	"plain": not a numeral in any spelling (no digit, not an Inf/NaN word)
//	"padded-numeral": a strict decimal numeral with white space before and/or after it
//	"not-decimal:<how>": a spelling of a number (or something close to one) that is NOT a decimal
//	    numeral - optional sign, digits with an optional fraction, optional exponent - also not after
//	    white space around it is taken off: hexadecimal float, 0x/0b/0o integer, digits separated by
//	    '_', an Inf/NaN word, anything else with a digit in it ("1x", "1e", "1.0.0", "1,000", "--1")
//	"int-numeral-outside-int64", "float-numeral-overflow", "float-numeral-underflow": decimal numerals
//	    denoting a number the number types do not hold; ref() decides them where both readings of the
//	    statement (exact denotation / rounded to a float64 first) agree
//	anything else: a spelling the statement is silent about (laws only):
//	    a numeral with an empty integer or fraction part (".5", "5."), digits outside ASCII
func numeral(s string) (class string, n Val) {
	if reIntNumeral.MatchString(s) {
		i, err := strconv.ParseInt(s, 10, 64)
		if err != nil {
			return "int-numeral-outside-int64", Val{}
		}
		return "int", vInt(i)
	}
	if reDecNumeral.MatchString(s) {
		f, err := strconv.ParseFloat(s, 64)
		if err != nil || math.IsInf(f, 0) {
			return "float-numeral-overflow", Val{}
		}
		if f == 0 {
			mant := s
			if i := strings.IndexAny(mant, "eE"); i >= 0 {
				mant = mant[:i]
			}
			if strings.ContainsAny(mant, "123456789") {
				return "float-numeral-underflow", Val{}
			}
		}
		return "float", vFloat(f)
	}
	t := strings.TrimSpace(s)
	if t != s && reDecNumeral.MatchString(t) {
		return "padded-numeral", Val{}
	}
	if reBarePointNumeral.MatchString(t) {
		// whether "5." and ".5" are decimal numerals is a matter of reading
		return "bare-point-numeral", Val{}
	}
	ascii := false
	for _, r := range s {
		if r >= '0' && r <= '9' {
			ascii = true
		} else if r > unicode.MaxASCII && (unicode.IsDigit(r) || unicode.IsNumber(r)) {
			// "١" is a decimal digit of another script: the statement does not say which digits it means
			return "non-ascii-digits", Val{}
		}
	}
	w := strings.TrimLeft(strings.ToLower(t), "+-")
	switch w {
	case "inf", "infinity":
		return "not-decimal:inf-word", Val{}
	case "nan":
		return "not-decimal:nan-word", Val{}
	}
	if !ascii {
		return "plain", Val{}
	}
	switch {
	case reHexFloat.MatchString(t):
		return "not-decimal:hex-float", Val{}
	case reBasedInt.MatchString(t):
		return "not-decimal:based-int", Val{}
	case reDigitSeparators.MatchString(t):
		return "not-decimal:digit-separators", Val{}
	}
	return "not-decimal:malformed", Val{}
}

// numEq is the numeric rule of the statement.
func numEq(a, b Val) bool {
	switch {
	case a.K == "int" && b.K == "int":
		return a.I == b.I
	case a.K == "float" && b.K == "float":
		return a.f() == b.f()
	case a.K == "int":
		return float64(a.I) == b.f()
	default:
		return a.f() == float64(b.I)
	}
}

const (
	sEQ = iota
	sNEQ
	sUNDEF
)

// structEq compares two descriptors structurally.
// sEQ: identical shape, every pair of corresponding leaves has the same primitive
// type and is Go-equal (or both nil). sNEQ: they differ in a way every reading of
// "structurally" rejects (length, key set of one key type, container kind, nil
// against non-nil, a same-typed leaf pair with different values). sUNDEF: the only
// differences are between leaves of different types (the statement does not say
// whether leaves inside containers compare by type identity or by ==).
func structEq(a, b Val) (int, string) {
	ac, bc := a.isContainer(), b.isContainer()
	switch {
	case ac && bc:
		if a.K != b.K {
			return sNEQ, "kind"
		}
		if len(a.E) != len(b.E) {
			return sNEQ, "length"
		}
		if a.K == "slice" {
			res, why := sEQ, ""
			for i := range a.E {
				r, w := structEq(a.E[i], b.E[i])
				if r == sNEQ {
					return sNEQ, w
				}
				if r == sUNDEF {
					res, why = sUNDEF, w
				}
			}
			return res, why
		}
		// maps: match keys by spelling (type and value)
		idx := map[string]int{}
		kinds := map[string]bool{}
		for i, k := range b.MK {
			idx[lit(k)] = i
			kinds[k.K] = true
		}
		missing := false
		for _, k := range a.MK {
			kinds[k.K] = true
			if _, ok := idx[lit(k)]; !ok {
				missing = true
			}
		}
		if missing {
			if len(kinds) == 1 {
				return sNEQ, "keys"
			}
			return sUNDEF, "cross-type-key"
		}
		res, why := sEQ, ""
		for i, k := range a.MK {
			r, w := structEq(a.E[i], b.E[idx[lit(k)]])
			if r == sNEQ {
				return sNEQ, w
			}
			if r == sUNDEF {
				res, why = sUNDEF, w
			}
		}
		return res, why
	case ac || bc:
		if a.K == "nil" || b.K == "nil" {
			return sNEQ, "nil-leaf"
		}
		return sUNDEF, "vs-leaf"
	}
	// two leaves
	if a.K == "nil" && b.K == "nil" {
		return sEQ, ""
	}
	if a.K == "nil" || b.K == "nil" {
		return sNEQ, "nil-leaf"
	}
	if a.K != b.K {
		return sUNDEF, "cross-type-leaf"
	}
	switch a.K {
	case "bool":
		if a.B == b.B {
			return sEQ, ""
		}
	case "int":
		if a.I == b.I {
			return sEQ, ""
		}
	case "float":
		if math.IsNaN(a.f()) || math.IsNaN(b.f()) {
			return sUNDEF, "nan-leaf"
		}
		if a.f() == b.f() {
			return sEQ, ""
		}
	case "str":
		if a.S == b.S {
			return sEQ, ""
		}
	}
	return sNEQ, "leaf"
}

// ref returns the value the statement defines for a == b, or defined=false with
// the reason why the statement is silent. ref is symmetric by construction.
func ref(a, b Val) (defined, want bool, clause string) {
	an, bn := a.K == "nil", b.K == "nil"
	if an && bn {
		return true, true, "nil-nil"
	}
	if an || bn {
		return true, false, "nil-other"
	}
	ac, bc := a.isContainer(), b.isContainer()
	if ac && bc {
		r, why := structEq(a, b)
		switch r {
		case sEQ:
			return true, true, "container-copy"
		case sNEQ:
			return true, false, "container-differs-" + why
		}
		return false, false, "container-" + why
	}
	if a.K == "bool" && b.K == "bool" {
		return true, a.B == b.B, "same-prim-bool"
	}
	if a.K == "bool" || b.K == "bool" {
		return false, false, "bool-vs-other"
	}
	if ac || bc {
		return false, false, "container-vs-prim"
	}
	if a.K == b.K {
		switch a.K {
		case "int":
			return true, a.I == b.I, "same-prim-int"
		case "float":
			return true, a.f() == b.f(), "same-prim-float"
		default:
			return true, a.S == b.S, "same-prim-str"
		}
	}
	if a.isNum() && b.isNum() {
		return true, numEq(a, b), "int-float"
	}
	// string against number
	s, n := a, b
	if s.K != "str" {
		s, n = b, a
	}
	cls, d := numeral(s.S)
	switch cls {
	case "int", "float":
		want := numEq(d, n)
		if cls == "float" && n.K == "int" && want {
			// The numeral is not in integer form, the number is an integer: the rule above
			// rounds the numeral to a float64 first. When the real number the numeral
			// spells is not exactly the integer ("9.007199254740992e15" against
			// 9007199254740993, "1.00000000000000000001" against 1) a reading that compares
			// the exact denotation says false; the statement does not choose.
			if r, ok := new(big.Rat).SetString(s.S); !ok || r.Cmp(new(big.Rat).SetInt64(n.I)) != 0 {
				return false, false, "str-num-float-numeral-rounds-to-int"
			}
		}
		return true, want, "str-num-" + cls + "-numeral"
	case "plain":
		return true, false, "str-num-not-numeral"
	case "not-decimal:hex-float", "not-decimal:based-int", "not-decimal:digit-separators", "not-decimal:inf-word",
		"not-decimal:nan-word", "not-decimal:malformed":
		// "A string and a number are equal exactly when the string is a decimal numeral denoting that
		// number": a string that is no decimal numeral (whatever strconv may read out of it) equals no number
		return true, false, "str-num-" + strings.ReplaceAll(cls, ":", "-")
	case "padded-numeral":
		// Whether white space around a numeral still leaves "a decimal numeral denoting that number" is a
		// matter of reading (the strict one says the string is no numeral: never equal; the lenient one
		// says it denotes what the numeral inside denotes). Where the numeral inside is defined NOT to
		// equal the number, both readings say "not equal"; where it is equal they differ: laws only.
		if d, w, _ := ref(vStr(strings.TrimSpace(s.S)), n); d && !w {
			return true, false, "str-num-padded-numeral-of-another-number"
		}
		return false, false, "str-num-padded-numeral"
	case "int-numeral-outside-int64":
		// a decimal numeral all the same: it denotes an integer no int64 holds. Against a float64 it
		// is equal when the float is exactly that integer, unequal when the numeral does not even
		// round to the float; in between (rounds to it, is not exactly it) the statement does not choose
		if n.K == "int" {
			// no int64 is that integer; but read as "round the numeral to a float64, then compare the
			// float with the integer" (an integer and a float are equal when <= and >= hold, i.e. as
			// float64) MaxInt64 equals "9223372036854775808": defined only where both readings agree
			if pf, err := strconv.ParseFloat(s.S, 64); err == nil && pf == float64(n.I) {
				return false, false, "str-num-int-numeral-outside-int64-rounds-to-int-as-float"
			}
			return true, false, "str-num-int-numeral-outside-int64-vs-int"
		}
		f := n.f()
		if math.IsNaN(f) || math.IsInf(f, 0) {
			return true, false, "str-num-int-numeral-outside-int64-vs-nonfinite"
		}
		r, ok := new(big.Rat).SetString(s.S)
		if !ok {
			return false, false, "str-num-" + cls
		}
		if r.Cmp(new(big.Rat).SetFloat64(f)) == 0 {
			return true, true, "str-num-int-numeral-outside-int64-exactly-the-float"
		}
		pf, err := strconv.ParseFloat(s.S, 64)
		if err == nil && pf != f {
			return true, false, "str-num-int-numeral-outside-int64-other-float"
		}
		if err != nil && math.IsInf(pf, 0) {
			// an integer numeral of more than 308 digits: beyond every finite float64 (f is finite here)
			return true, false, "str-num-numeral-beyond-float64-vs-finite"
		}
		return false, false, "str-num-int-numeral-outside-int64-rounds-to-float"
	case "float-numeral-overflow":
		// A decimal numeral all the same ("1e999", "1.8e308"): the number it denotes lies beyond the largest
		// finite float64 by more than half a step, so it is none of the finite float64 and no int64, and
		// rounding it gives an infinity, which equals no finite number either: unequal to every finite
		// number under both readings. Against an infinity the readings differ (the numeral does not denote
		// an infinity; rounded it is one), against NaN nothing is asserted.
		if n.K == "int" || !(math.IsNaN(n.f()) || math.IsInf(n.f(), 0)) {
			return true, false, "str-num-numeral-beyond-float64-vs-finite"
		}
		return false, false, "str-num-float-numeral-overflow-vs-nonfinite"
	case "float-numeral-underflow":
		// "1e-400" denotes a number that is not zero and closer to zero than to any other float64: it is no
		// float64 other than (read after rounding) zero. Unequal to every number that is not zero under both
		// readings; against zero they differ.
		if (n.K == "int" && n.I != 0) || (n.K == "float" && n.f() != 0 && !math.IsNaN(n.f())) {
			return true, false, "str-num-numeral-below-float64-vs-nonzero"
		}
		return false, false, "str-num-float-numeral-underflow-vs-zero-or-nan"
	}
	return false, false, "str-num-" + cls
}

// ------------------------------------------------------------------ generator

var nearNumerals = []string{
	"", " ", "1x", "x1", " 1", "1 ", "\t1", "1\n", "0x10", "0X10", "0x1p4", "0b11", "0o17", "1_0", "1_000_000",
	"Inf", "+Inf", "-Inf", "inf", "Infinity", "-infinity", "NaN", "nan", "+nan",
	".5", "5.", "-.5", "1e", "e1", "1e+", "1.0.0", "--1", "+-1", "1,000", "1.5e", "١", "1e400", "-1e400", "1e-400",
	"0x", "0b", "+", "-", ".", "e", "true", "false", "nil", "1/2", "1 000",
	"0x1.8p1", "0X1P+04", "0x.8p1", "-0x1p-1", "0x1p-1", "0x3e8", "0b1", "1_000", "1_0.0", "1_5e-1", "1__0", "_1", "1_", "0_1",
	"infinity", "+Infinity", "INF", "NAN", "-NaN", "Infinit", "in", "na",
}

var whitePads = []string{"", "", "", " ", " ", "  ", "\t", "\n", "\r\n"}

var nearNumbers = []float64{0, 1, -1, 16, 3, 15, 10, 1000, 1000000, 0.5, -0.5, 5, 1.5, 100, 17}

func genFloat(t *rapid.T, nan bool) float64 {
	if nan && rapid.IntRange(0, 11).Draw(t, "nan?") == 0 {
		return math.NaN()
	}
	return vals.Float().Draw(t, "f")
}

func genNum(t *rapid.T, nan bool) Val {
	if rapid.Bool().Draw(t, "isint") {
		return vInt(vals.Int().Draw(t, "i"))
	}
	return vFloat(genFloat(t, nan))
}

func fitsInt64(f float64) bool {
	return f >= -9223372036854775808.0 && f < 9223372036854775808.0
}

// otherKind converts a number to the other numeric type (value kept when representable).
func otherKind(n Val) Val {
	if n.K == "int" {
		return vFloat(float64(n.I))
	}
	f := n.f()
	if math.IsNaN(f) || !fitsInt64(f) {
		return n
	}
	return vInt(int64(f))
}

// neighbour returns a number close to n of the same type.
func neighbour(t *rapid.T, n Val) Val {
	up := rapid.Bool().Draw(t, "up")
	if n.K == "int" {
		if up {
			return vInt(n.I + 1) // wraps at MaxInt64, still an int64
		}
		return vInt(n.I - 1)
	}
	f := n.f()
	if up {
		return vFloat(math.Nextafter(f, math.Inf(1)))
	}
	return vFloat(math.Nextafter(f, math.Inf(-1)))
}

// spell derives a numeral string from a number with strconv.
func spell(t *rapid.T, n Val) string {
	var s string
	if n.K == "int" {
		dec := strconv.FormatInt(n.I, 10)
		switch rapid.IntRange(0, 7).Draw(t, "ispell") {
		case 0, 1, 2:
			s = dec
		case 3:
			s = dec + rapid.SampledFrom([]string{".0", ".00", ".000000"}).Draw(t, "frac")
		case 4:
			s = strconv.FormatFloat(float64(n.I), 'e', -1, 64)
		case 5:
			s = strconv.FormatFloat(float64(n.I), 'E', -1, 64)
		case 6:
			// move trailing zeros into an exponent
			m := strings.TrimRight(dec, "0")
			k := len(dec) - len(m)
			if m == "" || m == "-" {
				m, k = dec, 0
			}
			s = m + rapid.SampledFrom([]string{"e", "E", "e+", "e+0"}).Draw(t, "exp") + strconv.Itoa(k)
		default:
			s = strconv.FormatFloat(float64(n.I), 'g', -1, 64)
		}
	} else {
		f := n.f()
		switch rapid.IntRange(0, 6).Draw(t, "fspell") {
		case 0, 1:
			s = strconv.FormatFloat(f, 'f', -1, 64)
		case 2:
			s = strconv.FormatFloat(f, 'e', -1, 64)
		case 3:
			s = strconv.FormatFloat(f, 'g', -1, 64)
		case 4:
			s = strconv.FormatFloat(f, 'G', -1, 64)
		case 5:
			s = strconv.FormatFloat(f, 'f', -1, 64)
			if !strings.ContainsAny(s, ".IN") {
				s += ".0"
			}
		default:
			s = strconv.FormatFloat(f, 'f', rapid.IntRange(0, 3).Draw(t, "prec"), 64)
		}
	}
	// decorations
	switch rapid.IntRange(0, 9).Draw(t, "deco") {
	case 0:
		if !strings.HasPrefix(s, "-") && !strings.HasPrefix(s, "+") {
			s = "+" + s
		}
	case 1, 2:
		z := rapid.SampledFrom([]string{"0", "00", "0000"}).Draw(t, "zeros")
		if strings.HasPrefix(s, "-") || strings.HasPrefix(s, "+") {
			s = s[:1] + z + s[1:]
		} else {
			s = z + s
		}
	case 3:
		if !strings.HasPrefix(s, "-") && !strings.HasPrefix(s, "+") {
			s = "+0" + s
		}
	}
	return s
}

// outOfRangeSpell writes a decimal numeral whose number no float64 holds: too large (exponent beyond 308,
// more than 308 digits before the point, a mantissa just above the largest float64) or too close to
// zero (exponent below -324, more than 324 zeros after the point). What class the string really is
// in is decided by numeral(), not here.
func outOfRangeSpell(t *rapid.T) (s, how string) {
	sign := []string{"", "", "-", "-", "+"}[uniform(t, 5, "oorsign")]
	e := []string{"e", "E", "e+", "E+", "e+0"}[uniform(t, 5, "oore")]
	mant := []string{"1", "1", "2.5", "9", "1.0", "17", "0.5", "4.9", "123456789", "0.001", "001"}[uniform(t, 11, "oormant")]
	switch uniform(t, 8, "oorform") {
	case 0, 1:
		// exponent far beyond the range
		how = "large-exponent"
		s = sign + mant + e + strconv.Itoa([]int{400, 999, 330, 1000, 5000, 400000, 2147483648}[uniform(t, 7, "oorexp")])
	case 2:
		// just beyond the largest float64 (1.7976931348623157e308; half a step above it is ...158079e308)
		how = "just-above-max"
		s = sign + []string{"1.7976931348623159", "1.8", "1.797693134862315809", "2", "17.976931348623159e-1", "0.18e1", "179769313486231590"}[uniform(t, 7, "oormax")]
		if strings.HasSuffix(s, "590") {
			s += e + "291"
		} else if strings.Contains(s, "e") {
			s = strings.Replace(s, "e-1", "e307", 1)
			s = strings.Replace(s, "e1", "e309", 1)
		} else {
			s += e + "308"
		}
		if rapid.IntRange(0, 3).Draw(t, "oor309") == 0 {
			s = sign + mant + e + strconv.Itoa(312+uniform(t, 6, "oorexp2"))
		}
	case 3:
		// written out: more than 308 digits before the point
		how = "long-integer-part"
		s = sign + strconv.Itoa(1+uniform(t, 9, "oorlead")) + strings.Repeat("0", 309+uniform(t, 100, "oorzeros")) +
			[]string{".0", ".5", "", "e0", ".0e+0"}[uniform(t, 5, "oortail")]
	case 4, 5:
		// exponent far below the range
		how = "small-exponent"
		em := []string{"e-", "E-", "e-0"}[uniform(t, 3, "oorem")]
		s = sign + mant + em + strconv.Itoa([]int{400, 999, 340, 1000, 5000, 400000, 2147483648}[uniform(t, 7, "oorexp")])
	case 6:
		// just below half the smallest float64 (4.94e-324; half of it is 2.47e-324)
		how = "just-below-min"
		s = sign + []string{"2e-324", "2.4e-324", "1e-324", "0.2e-323", "24e-325", "2.47e-324"}[uniform(t, 6, "oormin")]
	default:
		how = "long-fraction"
		s = sign + "0." + strings.Repeat("0", 330+uniform(t, 100, "oorzeros")) + strconv.Itoa(1+uniform(t, 9, "oorlead"))
	}
	return s, how
}

func genStr(t *rapid.T) string {
	switch rapid.IntRange(0, 5).Draw(t, "strk") {
	case 0, 1, 2:
		return vals.Str().Draw(t, "s")
	case 3, 4:
		return spell(t, genNum(t, false))
	default:
		return rapid.SampledFrom(nearNumerals).Draw(t, "near")
	}
}

var (
	infWords = []string{"Inf", "+Inf", "-Inf", "inf", "INF", "Infinity", "+Infinity", "-Infinity", "infinity", "-infinity", "+inf", "-inf"}
	nanWords = []string{"NaN", "nan", "NAN", "+NaN", "-nan"}
)

// dropExpPadding turns the exponent FormatFloat writes ("p+04", "e+06") into the shortest one ("p4", "e6").
func dropExpPadding(s string, marks string) string {
	i := strings.LastIndexAny(s, marks)
	if i < 0 {
		return s
	}
	e := s[i+1:]
	sign := ""
	if strings.HasPrefix(e, "-") {
		sign = "-"
	}
	e = strings.TrimLeft(e, "+-")
	e = strings.TrimLeft(e, "0")
	if e == "" {
		e = "0"
	}
	return s[:i+1] + sign + e
}

// separate writes '_' between digits of a decimal spelling: in thousands groups, or in one place.
func separate(t *rapid.T, s string) string {
	// digit runs
	var cuts []int // positions p with digits at p-1 and p
	for p := 1; p < len(s); p++ {
		if s[p-1] >= '0' && s[p-1] <= '9' && s[p] >= '0' && s[p] <= '9' {
			cuts = append(cuts, p)
		}
	}
	if len(cuts) == 0 {
		// a single digit: give it a leading zero to separate
		i := strings.IndexAny(s, "0123456789")
		if i < 0 {
			return s + "_0"
		}
		return s[:i] + "0_" + s[i:]
	}
	if rapid.Bool().Draw(t, "groups") {
		// groups of three counted from the end of the first digit run
		i := strings.IndexAny(s, "0123456789")
		j := i
		for j < len(s) && s[j] >= '0' && s[j] <= '9' {
			j++
		}
		if j-i > 3 {
			var sb strings.Builder
			sb.WriteString(s[:i])
			for k := i; k < j; k++ {
				if k > i && (j-k)%3 == 0 {
					sb.WriteByte('_')
				}
				sb.WriteByte(s[k])
			}
			sb.WriteString(s[j:])
			return sb.String()
		}
	}
	p := cuts[rapid.IntRange(0, len(cuts)-1).Draw(t, "cut")]
	return s[:p] + "_" + s[p:]
}

// nonDecimalSpell spells the number n in a way strconv (or a programmer) may read as n but that is
// not a decimal numeral. how names the family.
func nonDecimalSpell(t *rapid.T, n Val) (s, how string) {
	f := n.f()
	if n.K == "int" {
		f = float64(n.I)
	}
	whole := n.K == "int" || (f == math.Trunc(f) && fitsInt64(f))
	k := uniform(t, 10, "ndk")
	switch {
	case k <= 2:
		how = "hex-float"
		format := byte('x')
		if rapid.IntRange(0, 3).Draw(t, "upper") == 0 {
			format = 'X'
		}
		s = strconv.FormatFloat(f, format, -1, 64)
		if math.IsInf(f, 0) || math.IsNaN(f) {
			return s, "inf-nan-word"
		}
		if rapid.Bool().Draw(t, "shortexp") {
			s = dropExpPadding(s, "pP")
		}
	case k <= 5:
		how = "digit-separators"
		var d string
		if n.K == "int" {
			d = strconv.FormatInt(n.I, 10)
			if rapid.IntRange(0, 3).Draw(t, "frac") == 0 {
				d += ".0"
			}
		} else {
			if math.IsInf(f, 0) || math.IsNaN(f) {
				return strconv.FormatFloat(f, 'g', -1, 64), "inf-nan-word"
			}
			d = strconv.FormatFloat(f, 'f', -1, 64)
			if rapid.IntRange(0, 3).Draw(t, "exp") == 0 {
				d = strconv.FormatFloat(f, 'e', -1, 64)
			}
		}
		s = separate(t, d)
	case k <= 7 && whole:
		how = "based-int"
		i := int64(f)
		if n.K == "int" {
			i = n.I
		}
		base, prefix := 16, "0x"
		switch rapid.IntRange(0, 5).Draw(t, "base") {
		case 0:
			prefix = "0X"
		case 1:
			base, prefix = 2, "0b"
		case 2:
			base, prefix = 8, "0o"
		}
		d := strconv.FormatInt(i, base)
		if strings.HasPrefix(d, "-") {
			s = "-" + prefix + d[1:]
		} else {
			s = prefix + d
		}
	default:
		how = "malformed"
		var d string
		if n.K == "int" {
			d = strconv.FormatInt(n.I, 10)
		} else {
			if math.IsInf(f, 0) || math.IsNaN(f) {
				return strconv.FormatFloat(f, 'g', -1, 64), "inf-nan-word"
			}
			d = strconv.FormatFloat(f, 'g', -1, 64)
		}
		switch rapid.IntRange(0, 7).Draw(t, "mal") {
		case 0:
			s = d + rapid.SampledFrom([]string{"x", "f", "L", "i", "d", "%", "h"}).Draw(t, "suffix")
		case 1:
			if strings.ContainsAny(d, "eE") {
				s = d + "e1"
			} else {
				s = d + rapid.SampledFrom([]string{"e", "e+", "E-", "p0"}).Draw(t, "tail")
			}
		case 2:
			s = rapid.SampledFrom([]string{"--", "+-", "-+", "++", "$", "#", "="}).Draw(t, "lead") + strings.TrimLeft(d, "-")
		case 3:
			s = d + ".0.0"
		case 4:
			// thousands written with a comma, or a decimal comma
			s = strings.ReplaceAll(separate(t, d), "_", ",")
		case 5:
			s = strings.ReplaceAll(separate(t, d), "_", " ")
		case 6:
			s = strings.ReplaceAll(separate(t, d), "_", "'")
		default:
			s = d + "/1"
		}
	}
	return s, how
}

func genPrim(t *rapid.T, nan bool) Val {
	switch rapid.IntRange(0, 9).Draw(t, "pk") {
	case 0:
		return vNil()
	case 1:
		return vBool(rapid.Bool().Draw(t, "b"))
	case 2, 3, 4:
		return vInt(vals.Int().Draw(t, "i"))
	case 5, 6:
		return vFloat(genFloat(t, nan))
	default:
		return vStr(genStr(t))
	}
}

// genLeaf: leaves of containers; small values are frequent, NaN never.
func genLeaf(t *rapid.T) Val {
	switch rapid.IntRange(0, 11).Draw(t, "lk") {
	case 0:
		return vNil()
	case 1:
		return vBool(rapid.Bool().Draw(t, "b"))
	case 2, 3:
		return vInt(rapid.Int64Range(-2, 5).Draw(t, "si"))
	case 4:
		return vInt(vals.Int().Draw(t, "i"))
	case 5:
		return vFloat(float64(rapid.Int64Range(-4, 10).Draw(t, "sf")) / 2)
	case 6:
		return vFloat(vals.Float().Draw(t, "f"))
	case 7, 8:
		return vStr(rapid.SampledFrom([]string{"", "a", "b", "ab", "1", "1.0", "0", "true", "日本"}).Draw(t, "ss"))
	default:
		return vStr(genStr(t))
	}
}

var strKeys = []string{"a", "b", "c", "k", "", "1", "x y", "A"}

func genContainer(t *rapid.T, depth int) Val {
	n := []int{0, 1, 1, 2, 2, 2, 3, 3, 4}[uniform(t, 9, "n")]
	v := Val{K: "slice"}
	isMap := rapid.IntRange(0, 2).Draw(t, "map?") == 0
	if isMap {
		v.K = "map"
	}
	v.E = make([]Val, 0, n)
	for i := 0; i < n; i++ {
		if depth > 1 && rapid.IntRange(0, 3).Draw(t, "nest?") == 0 {
			v.E = append(v.E, genContainer(t, depth-1))
		} else {
			v.E = append(v.E, genLeaf(t))
		}
	}
	if isMap {
		style := rapid.IntRange(0, 3).Draw(t, "keystyle") // 0,1 strings; 2 ints; 3 mixed
		off := rapid.IntRange(0, len(strKeys)-1).Draw(t, "keyoff")
		v.MK = make([]Val, n)
		for i := 0; i < n; i++ {
			useInt := style == 2 || (style == 3 && i%2 == 1)
			if useInt {
				v.MK[i] = vInt(int64(i))
			} else {
				v.MK[i] = vStr(strKeys[(off+i)%len(strKeys)])
			}
		}
	}
	return v
}

func genAny(t *rapid.T, nan bool) Val {
	if rapid.IntRange(0, 3).Draw(t, "cont?") == 0 {
		return genContainer(t, rapid.IntRange(1, 3).Draw(t, "depth"))
	}
	return genPrim(t, nan)
}

// --- container mutation

type path []int

func collect(v Val, p path, pred func(Val) bool, out *[]path) {
	if pred(v) {
		*out = append(*out, append(path{}, p...))
	}
	for i := range v.E {
		collect(v.E[i], append(p, i), pred, out)
	}
}

func at(v *Val, p path) *Val {
	for _, i := range p {
		v = &v.E[i]
	}
	return v
}

func pick(t *rapid.T, v Val, pred func(Val) bool) (path, bool) {
	var ps []path
	collect(v, nil, pred, &ps)
	if len(ps) == 0 {
		return nil, false
	}
	return ps[rapid.IntRange(0, len(ps)-1).Draw(t, "path")], true
}

// differentSameType returns a value of the same primitive type that Go's == tells apart.
func differentSameType(t *rapid.T, l Val) Val {
	switch l.K {
	case "bool":
		return vBool(!l.B)
	case "int":
		if rapid.Bool().Draw(t, "near") {
			return vInt(l.I + 1)
		}
		o := vals.Int().Draw(t, "oi")
		if o == l.I {
			o++
		}
		return vInt(o)
	case "float":
		f := l.f()
		var g float64
		switch rapid.IntRange(0, 2).Draw(t, "fm") {
		case 0:
			g = math.Nextafter(f, math.Inf(1))
		case 1:
			g = -f
		default:
			g = vals.Float().Draw(t, "of")
		}
		if g == f || math.IsNaN(g) {
			if f == 0 {
				g = 1
			} else if math.IsInf(f, 0) {
				g = 0
			} else {
				g = f / 2 // differs for every finite non-zero f
				if g == f {
					g = 0
				}
			}
		}
		return vFloat(g)
	default:
		if rapid.Bool().Draw(t, "app") {
			return vStr(l.S + "x")
		}
		return vStr("y" + l.S)
	}
}

func isPrimNonNil(v Val) bool { return !v.isContainer() && v.K != "nil" }

var mutations = []string{"copy", "copy", "copy", "leaf-same-type", "leaf-same-type", "leaf-same-type",
	"leaf-num-type", "leaf-to-nil", "leaf-cross-type", "length", "length", "key-rename", "kind-switch", "reorder"}

// mutate returns a copy of container a changed in one place; label names the change.
func mutate(t *rapid.T, a Val) (Val, string) {
	b := a.clone()
	m := mutations[uniform(t, len(mutations), "mut")]
	switch m {
	case "leaf-same-type":
		if p, ok := pick(t, b, func(v Val) bool { return isPrimNonNil(v) && !(v.K == "float" && math.IsNaN(v.f())) }); ok && len(p) > 0 {
			l := at(&b, p)
			*l = differentSameType(t, *l)
			return b, m
		}
	case "leaf-num-type":
		if p, ok := pick(t, b, func(v Val) bool { return v.isNum() }); ok && len(p) > 0 {
			l := at(&b, p)
			*l = otherKind(*l)
			return b, m
		}
	case "leaf-to-nil":
		if p, ok := pick(t, b, func(v Val) bool { return v.K != "nil" }); ok && len(p) > 0 {
			*at(&b, p) = vNil()
			return b, m
		}
	case "leaf-cross-type":
		if p, ok := pick(t, b, isPrimNonNil); ok && len(p) > 0 {
			l := at(&b, p)
			switch l.K {
			case "int":
				*l = vStr(strconv.FormatInt(l.I, 10))
			case "float":
				*l = vStr(strconv.FormatFloat(l.f(), 'g', -1, 64))
			case "bool":
				if l.B {
					*l = vInt(1)
				} else {
					*l = vInt(0)
				}
			default:
				if c, n := numeral(l.S); c == "int" || c == "float" {
					*l = n
				} else {
					*l = vBool(l.S != "")
				}
			}
			return b, m
		}
	case "key-rename":
		if p, ok := pick(t, b, func(v Val) bool { return v.K == "map" && len(v.E) > 0 }); ok {
			n := at(&b, p)
			i := rapid.IntRange(0, len(n.MK)-1).Draw(t, "ki")
			if n.MK[i].K == "int" {
				n.MK[i] = vInt(n.MK[i].I + 100)
			} else {
				n.MK[i] = vStr(n.MK[i].S + "_")
			}
			return b, m
		}
	case "kind-switch":
		// top level: slice <-> map with the same elements
		if b.K == "slice" {
			b.K = "map"
			b.MK = make([]Val, len(b.E))
			for i := range b.E {
				b.MK[i] = vInt(int64(i))
			}
		} else {
			b.K = "slice"
			b.MK = nil
		}
		return b, m
	case "reorder":
		if p, ok := pick(t, b, func(v Val) bool { return v.isContainer() && len(v.E) >= 2 }); ok {
			n := at(&b, p)
			i := rapid.IntRange(0, len(n.E)-2).Draw(t, "ri")
			n.E[i], n.E[i+1] = n.E[i+1], n.E[i]
			if n.K == "map" { // same map written in another order
				n.MK[i], n.MK[i+1] = n.MK[i+1], n.MK[i]
			}
			return b, m
		}
	case "copy":
		return b, m
	}
	// length change (also the fallback when the wanted mutation has no site)
	p, _ := pick(t, b, func(v Val) bool { return v.isContainer() })
	n := at(&b, p)
	if len(n.E) > 0 && rapid.Bool().Draw(t, "drop") {
		n.E = n.E[:len(n.E)-1]
		if n.K == "map" {
			n.MK = n.MK[:len(n.MK)-1]
		}
	} else {
		if n.K == "map" {
			n.MK = append(n.MK, vStr(fmt.Sprintf("new%d", len(n.E))))
		}
		n.E = append(n.E, genLeaf(t))
	}
	return b, "length"
}

// uniform draws an index in [0,n), n <= 64, without rapid's bias towards small
// integers (rapid.Bool is a plain bit); all-false still shrinks to index 0.
func uniform(t *rapid.T, n int, label string) int {
	v := 0
	for i := 0; i < 12; i++ {
		v <<= 1
		if rapid.Bool().Draw(t, label) {
			v |= 1
		}
	}
	return v % n
}

var shapes = []string{
	"same", "same",
	"int-float", "int-float", "int-float",
	"num-numeral", "num-numeral", "num-numeral", "num-numeral",
	"num-near-numeral",
	"num-nondecimal", "num-nondecimal",
	"num-padded-numeral",
	"num-out-of-range-numeral",
	"str-str",
	"nil-any",
	"bool-any",
	"prim-prim", "prim-prim",
	"container-mutated", "container-mutated", "container-mutated", "container-mutated",
	"container-any",
	"int-neighbours",
	"reslice",
}

func genCase(t *rapid.T) Case {
	rel := shapes[uniform(t, len(shapes), "shape")]
	var a, b Val
	switch rel {
	case "same":
		a = genAny(t, true)
		b = a.clone()
	case "int-float":
		var i int64
		var f float64
		if rapid.IntRange(0, 2).Draw(t, "from") < 2 {
			i = vals.Int().Draw(t, "i")
			f = float64(i)
		} else {
			f = genFloat(t, true)
			switch {
			case math.IsNaN(f):
				i = 0
			case fitsInt64(f):
				i = int64(f)
			case f > 0:
				i = math.MaxInt64
			default:
				i = math.MinInt64
			}
		}
		switch rapid.IntRange(0, 7).Draw(t, "tweak") {
		case 0:
			f = math.Nextafter(f, math.Inf(1))
		case 1:
			f = math.Nextafter(f, math.Inf(-1))
		case 2:
			i++
		case 3:
			i--
		case 4:
			f = genFloat(t, true)
		}
		a, b = vInt(i), vFloat(f)
	case "num-numeral":
		x := genNum(t, false)
		y := x
		switch rapid.IntRange(0, 7).Draw(t, "via") {
		case 0, 1:
			y = otherKind(x)
		case 2:
			y = neighbour(t, x)
		case 3:
			y = neighbour(t, otherKind(x))
		case 4:
			y = genNum(t, true)
		}
		a, b = x, vStr(spell(t, y))
	case "num-padded-numeral":
		// a numeral of the number itself, of its other kind, of a neighbour (most often: beyond 2^53
		// neighbours are one float64) or of another number, with white space around it
		x := genNum(t, false)
		y := x
		switch uniform(t, 8, "pvia") {
		case 0:
			y = otherKind(x)
		case 1, 2, 3, 4:
			y = neighbour(t, x)
		case 5:
			y = neighbour(t, otherKind(x))
		case 6:
			y = genNum(t, false)
		}
		lead := whitePads[uniform(t, len(whitePads), "lead")]
		trail := whitePads[uniform(t, len(whitePads), "trail")]
		if lead == "" && trail == "" {
			if rapid.Bool().Draw(t, "padside") {
				lead = " "
			} else {
				trail = " "
			}
		}
		a, b = x, vStr(lead+spell(t, y)+trail)
	case "num-nondecimal":
		// the number itself (or its other kind, or a neighbour, or any number) spelled as a hexadecimal
		// float, with digit separators, as a 0x/0b/0o integer, or broken; an infinity or NaN against the words
		var x, y Val
		var s, how string
		if uniform(t, 6, "words") == 0 {
			how = "inf-nan-word"
			if rapid.IntRange(0, 3).Draw(t, "nanword") == 0 {
				s = nanWords[uniform(t, len(nanWords), "nw")]
				x = vFloat(math.NaN())
			} else {
				s = infWords[uniform(t, len(infWords), "iw")]
				x = vFloat(math.Inf(1))
				if strings.HasPrefix(s, "-") {
					x = vFloat(math.Inf(-1))
				}
			}
			switch rapid.IntRange(0, 5).Draw(t, "against") {
			case 0:
				x = vFloat(-x.f()) // the other infinity (NaN stays NaN)
			case 1:
				x = genNum(t, true)
			}
		} else {
			x = genNum(t, false)
			y = x
			switch rapid.IntRange(0, 7).Draw(t, "via") {
			case 0, 1:
				y = otherKind(x)
			case 2:
				y = neighbour(t, x)
			case 3:
				y = genNum(t, false)
			}
			s, how = nonDecimalSpell(t, y)
		}
		if rapid.IntRange(0, 7).Draw(t, "pad") == 0 {
			s = whitePads[3+uniform(t, len(whitePads)-3, "lead")] + s
			if rapid.Bool().Draw(t, "both") {
				s += whitePads[3+uniform(t, len(whitePads)-3, "trail")]
			}
		}
		a, b = x, vStr(s)
		rel += ":" + how
	case "num-out-of-range-numeral":
		// a decimal numeral no float64 holds, against zero (what a failed conversion leaves behind), the
		// limits of the number types, any number, an infinity
		s, how := outOfRangeSpell(t)
		var n Val
		switch uniform(t, 8, "oornum") {
		case 0, 1, 2:
			n = []Val{vInt(0), vFloat(0), vFloat(math.Copysign(0, -1))}[uniform(t, 3, "zero")]
		case 3, 4:
			n = []Val{vFloat(math.MaxFloat64), vFloat(-math.MaxFloat64), vFloat(math.SmallestNonzeroFloat64), vFloat(-math.SmallestNonzeroFloat64),
				vInt(math.MaxInt64), vInt(math.MinInt64), vInt(1), vInt(-1), vFloat(1)}[uniform(t, 9, "limit")]
		case 5, 6:
			n = genNum(t, true)
		default:
			n = vFloat(math.Inf(1 - 2*uniform(t, 2, "neg")))
		}
		if rapid.IntRange(0, 9).Draw(t, "pad") == 0 {
			s = whitePads[3+uniform(t, len(whitePads)-3, "lead")] + s
		}
		a, b = n, vStr(s)
		rel += ":" + how
	case "num-near-numeral":
		s := rapid.SampledFrom(nearNumerals).Draw(t, "near")
		var n Val
		switch rapid.IntRange(0, 3).Draw(t, "nn") {
		case 0:
			n = genNum(t, true)
		case 1:
			n = vFloat(rapid.SampledFrom([]float64{math.Inf(1), math.Inf(-1), math.NaN(), 0}).Draw(t, "special"))
		default:
			f := rapid.SampledFrom(nearNumbers).Draw(t, "nnum")
			n = vFloat(f)
			if f == math.Trunc(f) && rapid.Bool().Draw(t, "asint") {
				n = vInt(int64(f))
			}
		}
		a, b = n, vStr(s)
	case "str-str":
		x := genNum(t, false)
		s1 := spell(t, x)
		var s2 string
		switch rapid.IntRange(0, 3).Draw(t, "s2") {
		case 0:
			s2 = s1
		case 1:
			s2 = spell(t, x) // another spelling of the same number: different strings
		case 2:
			s2 = genStr(t)
		default:
			s1 = genStr(t)
			s2 = genStr(t)
		}
		a, b = vStr(s1), vStr(s2)
	case "nil-any":
		a = vNil()
		if rapid.IntRange(0, 5).Draw(t, "nn") == 0 {
			b = vNil()
		} else {
			b = genAny(t, true)
		}
	case "bool-any":
		a = vBool(rapid.Bool().Draw(t, "b"))
		if rapid.IntRange(0, 3).Draw(t, "bb") == 0 {
			b = vBool(rapid.Bool().Draw(t, "b2"))
		} else {
			b = genAny(t, true)
		}
	case "prim-prim":
		a = genPrim(t, true)
		b = genPrim(t, true)
	case "container-mutated":
		a = genContainer(t, rapid.IntRange(1, 3).Draw(t, "depth"))
		var m string
		b, m = mutate(t, a)
		rel += ":" + m
	case "int-neighbours":
		// two int64 values that are equal or next to each other; beyond 2^53 neighbours collapse to one float64
		i := vals.Int().Draw(t, "i")
		if rapid.Bool().Draw(t, "huge") {
			i = rapid.SampledFrom([]int64{1 << 53, 1<<53 + 1, -(1 << 53) - 1, 1 << 60, 1<<62 + 1, math.MaxInt64, math.MaxInt64 - 1, math.MinInt64, math.MinInt64 + 1}).Draw(t, "hugei")
		}
		a, b = vInt(i), vInt(i+rapid.Int64Range(-2, 2).Draw(t, "delta"))
	case "reslice":
		// a slice against a view of itself: same storage, possibly fewer elements
		n := rapid.IntRange(0, 4).Draw(t, "len")
		a = Val{K: "slice"}
		for i := 0; i < n; i++ {
			a.E = append(a.E, genLeaf(t))
		}
		lo := rapid.IntRange(0, n).Draw(t, "lo")
		if rapid.IntRange(0, 2).Draw(t, "fromzero") > 0 {
			lo = 0
		}
		hi := rapid.IntRange(lo, n).Draw(t, "hi")
		b = Val{K: "slice"}
		for _, e := range a.E[lo:hi] {
			b.E = append(b.E, e.clone())
		}
		return Case{A: a, B: b, Rel: rel, Reslice: []int{lo, hi}}
	case "container-any":
		a = genContainer(t, rapid.IntRange(1, 2).Draw(t, "depth"))
		switch rapid.IntRange(0, 3).Draw(t, "other") {
		case 0:
			b = genContainer(t, rapid.IntRange(1, 2).Draw(t, "depth2"))
		case 1:
			// a container against its own first element / an empty container against empties
			if len(a.E) > 0 {
				b = a.E[0].clone()
			} else {
				b = rapid.SampledFrom([]Val{vStr(""), vInt(0), vBool(false), vNil(), {K: "slice"}, {K: "map"}, vFloat(0)}).Draw(t, "empty")
			}
		default:
			b = genPrim(t, false)
		}
	}
	if rapid.Bool().Draw(t, "swap") {
		a, b = b, a
	}
	return Case{A: a, B: b, Rel: rel}
}

// --------------------------------------------------------------------- oracle

// the forms evaluated for a pair, in this order
var formNames = []string{"a == b", "b == a", "a != b", "b != a", "a in [b]", "b in [a]", "switch a {case b}", "switch b {case a}", "a <= b && a >= b", "b <= a && b >= a"}

const (
	fEqAB = iota
	fEqBA
	fNeAB
	fNeBA
	fInAB
	fInBA
	fSwAB
	fSwBA
	fCmpAB
	fCmpBA
)

// script builds the anko source evaluating all forms over the operand texts x and y.
func script(prelude, x, y string, numeric bool, ta, tb string) string {
	var sb strings.Builder
	sb.WriteString(prelude)
	sb.WriteString("s1 = nil\ns2 = nil\n")
	sb.WriteString("switch " + x + " {\ncase " + y + ":\n s1 = true\ndefault:\n s1 = false\n}\n")
	sb.WriteString("switch " + y + " {\ncase " + x + ":\n s2 = true\ndefault:\n s2 = false\n}\n")
	forms := []string{
		x + " == " + y, y + " == " + x, x + " != " + y, y + " != " + x,
		x + " in [" + y + "]", y + " in [" + x + "]", "s1", "s2",
	}
	if numeric {
		forms = append(forms, x+" <= "+y+" && "+x+" >= "+y, y+" <= "+x+" && "+y+" >= "+x)
	}
	// membership in a statically typed slice holding exactly the other operand
	forms = append(forms, x+" in "+typedList(tb, y), y+" in "+typedList(ta, x))
	sb.WriteString("[" + strings.Join(forms, ", ") + "]")
	return sb.String()
}

// typedList spells a one-element slice literal of the element's own static type
// (untyped for nil and containers).
func typedList(kind, elem string) string {
	switch kind {
	case "int":
		return "[]int64{" + elem + "}"
	case "float":
		return "[]float64{" + elem + "}"
	case "str":
		return "[]string{" + elem + "}"
	case "bool":
		return "[]bool{" + elem + "}"
	}
	return "[" + elem + "]"
}

func newEnv() *env.Env { return env.NewEnv() }

func magnitude(v Val) float64 {
	switch v.K {
	case "int":
		return math.Abs(float64(v.I))
	case "float":
		if math.IsNaN(v.f()) {
			return 0
		}
		return math.Abs(v.f())
	}
	return 0
}

func strClass(s string) string {
	c, _ := numeral(s)
	switch c {
	case "int", "float":
		form := c + "-numeral"
		t := strings.TrimLeft(s, "+-")
		if strings.HasPrefix(s, "+") {
			form += ",plus"
		}
		if len(t) > 1 && t[0] == '0' && t[1] != '.' && t[1] != 'e' && t[1] != 'E' {
			form += ",leading-zero"
		}
		if strings.Contains(s, ".") {
			form += ",fraction"
		}
		if strings.ContainsAny(s, "eE") {
			form += ",exponent"
		}
		return form
	}
	return c
}

func oracle(c Case, o *h.Obs) *h.Fail {
	a, b := c.A, c.B
	if !valid(a, 0) || !valid(b, 0) {
		o.Excluded = "malformed_case"
		return nil
	}
	la, lb := lit(a), lit(b)
	o.Key = la + "  ~  " + lb
	ka, kb := a.K, b.K
	sigTail := "|" + ka + "|" + kb
	numeric := a.isNum() && b.isNum()
	big := magnitude(a) >= 1e6 || magnitude(b) >= 1e6
	o.NonTrivial = ka != kb || (a.isContainer() && b.isContainer()) || big

	defined, want, clause := ref(a, b)
	if d2, w2, c2 := ref(b, a); d2 != defined || w2 != want || c2 != clause {
		panic("reference is not symmetric for " + o.Key) // harness bug, reported as incomplete
	}

	o.Class("pair:" + ka + "×" + kb)
	if defined {
		o.Class("clause:ref:" + clause)
		o.Class(fmt.Sprintf("expected:%v", want))
	} else {
		o.Class("clause:laws-only:" + clause)
	}
	if c.Rel != "" {
		o.Class("shape:" + c.Rel)
	}
	if big {
		o.Class("number>=1e6")
	}
	if magnitude(a) > 1<<53 || magnitude(b) > 1<<53 {
		o.Class("number>2^53")
	}
	if ka != kb {
		o.Class("cross-type")
	}
	for _, v := range []Val{a, b} {
		if v.K == "str" {
			o.Class("str:" + strClass(v.S))
		}
		if v.K == "float" && math.IsNaN(v.f()) {
			o.Class("NaN-operand")
		}
	}

	if len(c.Reslice) == 2 {
		lo, hi := c.Reslice[0], c.Reslice[1]
		if a.K != "slice" || lo < 0 || hi < lo || hi > len(a.E) || len(b.E) != hi-lo {
			o.Excluded = "malformed_case"
			return nil
		}
		o.Class("b_is_a_view_of_a")
	}
	modes := []struct{ name, src string }{
		{"literal", script("", la, lb, numeric, ka, kb)},
		{"variable", script("a = "+la+"\nb = "+lb+"\n", "a", "b", numeric, ka, kb)},
		// operands read from list elements reach equal() as interface-kinded values
		{"element", script("ea = ["+la+"]\neb = ["+lb+"]\n", "ea[0]", "eb[0]", numeric, ka, kb)},
	}
	if len(c.Reslice) == 2 {
		view := fmt.Sprintf("a[%d:%d]", c.Reslice[0], c.Reslice[1])
		modes = []struct{ name, src string }{
			{"variable and a view of it", script("a = "+la+"\nb = "+view+"\n", "a", "b", numeric, ka, kb)},
			{"variable and a view expression", script("a = "+la+"\n", "a", view, numeric, ka, kb)},
			{"elements holding the slice and its view", script("a = "+la+"\nea = [a]\neb = ["+view+"]\n", "ea[0]", "eb[0]", numeric, ka, kb)},
		}
	}
	var first []bool
	for mi, m := range modes {
		got, err := ank.Exec(newEnv(), m.src)
		if hp, ok := ank.IsHostPanic(err); ok {
			return h.Failf("C06|host-panic"+sigTail, "a = %s\nb = %s\noperands as %s\nsource:\n%s\nescaped panic: %v", la, lb, m.name, m.src, hp.Value)
		}
		if err != nil {
			return h.Failf("C06|error"+sigTail, "a = %s\nb = %s\noperands as %s\nsource:\n%s\nanko error: %v", la, lb, m.name, m.src, err)
		}
		list, ok := got.([]interface{})
		nforms := 10
		if numeric {
			nforms = 12
		}
		fTInAB, fTInBA := nforms-2, nforms-1
		names := append(append([]string{}, formNames[:nforms-2]...), "a in typed[b]", "b in typed[a]")
		if !ok || len(list) != nforms {
			return h.Failf("C06|non-bool"+sigTail, "a = %s\nb = %s\noperands as %s\nsource:\n%s\nresult is not a list of %d values: %s", la, lb, m.name, m.src, nforms, ank.Describe(got))
		}
		r := make([]bool, nforms)
		for i, e := range list {
			bv, ok := e.(bool)
			if !ok {
				return h.Failf("C06|non-bool"+sigTail, "a = %s\nb = %s\noperands as %s\n`%s` did not yield a bool: %s", la, lb, m.name, names[i], ank.Describe(e))
			}
			r[i] = bv
		}
		show := func() string {
			var sb strings.Builder
			for i, v := range r {
				fmt.Fprintf(&sb, "  %-22s = %v\n", names[i], v)
			}
			return sb.String()
		}
		fail := func(cl, detail string) *h.Fail {
			return h.Failf("C06|"+cl+sigTail, "a = %s\nb = %s\noperands as %s\n%s\nanko:\n%s", la, lb, m.name, detail, show())
		}
		// reference values (only where the statement defines them)
		if defined {
			if r[fEqAB] != want {
				return fail("ref:"+clause, fmt.Sprintf("the statement defines a == b as %v (%s); anko says %v", want, clause, r[fEqAB]))
			}
			if r[fEqBA] != want {
				return fail("ref:"+clause, fmt.Sprintf("the statement defines b == a as %v (%s); anko says %v", want, clause, r[fEqBA]))
			}
		}
		// laws, always
		if r[fEqAB] != r[fEqBA] {
			return fail("law:symmetry", "a == b and b == a differ")
		}
		if r[fNeAB] != !r[fEqAB] {
			return fail("law:negation", "a != b is not the negation of a == b")
		}
		if r[fNeBA] != !r[fEqBA] {
			return fail("law:negation", "b != a is not the negation of b == a")
		}
		if r[fInAB] != r[fEqAB] {
			return fail("law:in", "a in [b] disagrees with a == b")
		}
		if r[fInBA] != r[fEqBA] {
			return fail("law:in", "b in [a] disagrees with b == a")
		}
		if r[fTInAB] != r[fEqAB] {
			return fail("law:in-typed", "a in "+typedList(kb, "b")+" disagrees with a == b")
		}
		if r[fTInBA] != r[fEqBA] {
			return fail("law:in-typed", "b in "+typedList(ka, "a")+" disagrees with b == a")
		}
		if r[fSwAB] != r[fEqAB] {
			return fail("law:switch", "switch a { case b } disagrees with a == b")
		}
		if r[fSwBA] != r[fEqBA] {
			return fail("law:switch", "switch b { case a } disagrees with b == a")
		}
		if numeric && ka != kb {
			if r[fCmpAB] != r[fEqAB] {
				return fail("law:le-and-ge", "integer/float pair: a == b disagrees with a <= b && a >= b")
			}
			if r[fCmpBA] != r[fEqBA] {
				return fail("law:le-and-ge", "integer/float pair: b == a disagrees with b <= a && b >= a")
			}
		}
		if mi == 0 {
			first = r
			if r[fEqAB] {
				o.Class("anko:equal")
			} else {
				o.Class("anko:not-equal")
			}
		} else {
			for i := range r {
				if numeric && (i == fCmpAB || i == fCmpBA) {
					continue // <=,>= belong to C05; only == and its uses are compared across forms
				}
				if r[i] != first[i] {
					return h.Failf("C06|law:operand-form"+sigTail, "a = %s\nb = %s\n`%s` is %v with literal operands and %v with operands as %s", la, lb, names[i], first[i], r[i], m.name)
				}
			}
		}
	}
	return nil
}

// ---------------------------------------------------- sub-check "stateless"

// HistCase: one comparison site (a function comparing its parameter with a literal) evaluated for
// several values in a row. Equality is a relation between two values: what the same source
// location compared earlier must not matter.
type HistCase struct {
	Lit Val   `json:"lit"`
	Xs  []Val `json:"xs"`
}

func genHist(t *rapid.T) HistCase {
	num := genNum(t, false)
	var c HistCase
	switch rapid.IntRange(0, 3).Draw(t, "litk") {
	case 0, 1:
		c.Lit = vStr(spell(t, num))
	case 2:
		c.Lit = num
	default:
		c.Lit = genPrim(t, false)
	}
	n := rapid.IntRange(2, 5).Draw(t, "nxs")
	for i := 0; i < n; i++ {
		var x Val
		switch rapid.IntRange(0, 7).Draw(t, "xk") {
		case 0:
			x = num
		case 1:
			x = otherKind(num)
		case 2, 3:
			x = vStr(spell(t, num))
		case 4:
			x = neighbour(t, num)
		case 5:
			x = vStr(spell(t, neighbour(t, num)))
		case 6:
			x = c.Lit.clone()
		default:
			x = genPrim(t, false)
		}
		c.Xs = append(c.Xs, x)
	}
	return c
}

func histScript(l string, xs []string) string {
	var sb strings.Builder
	sb.WriteString("f = func(x) {\n s = false\n switch x {\n case " + l + ":\n  s = true\n }\n return [x == " + l + ", " + l + " == x, x != " + l + ", " + l + " != x, x in [" + l + "], " + l + " in [x], s]\n}\n")
	calls := make([]string, len(xs))
	for i, x := range xs {
		calls[i] = "f(" + x + ")"
	}
	sb.WriteString("[" + strings.Join(calls, ", ") + "]")
	return sb.String()
}

func oracleHist(c HistCase, o *h.Obs) *h.Fail {
	if !valid(c.Lit, 0) || c.Lit.isContainer() || len(c.Xs) == 0 {
		o.Excluded = "malformed_case"
		return nil
	}
	l := lit(c.Lit)
	xs := make([]string, len(c.Xs))
	kinds := map[string]bool{}
	for i, x := range c.Xs {
		if !valid(x, 0) {
			o.Excluded = "malformed_case"
			return nil
		}
		xs[i] = lit(x)
		kinds[x.K] = true
	}
	src := histScript(l, xs)
	o.Key = src
	o.NonTrivial = len(kinds) >= 2
	o.Class("literal:" + c.Lit.K)
	run := func(src string) ([]string, *h.Fail) {
		got, err := ank.Exec(newEnv(), src)
		if hp, ok := ank.IsHostPanic(err); ok {
			return nil, h.Failf("C06|host-panic|stateless", "source:\n%s\nescaped panic: %v", src, hp.Value)
		}
		if err != nil {
			return nil, h.Failf("C06|error|stateless", "source:\n%s\nanko error: %v", src, err)
		}
		list, ok := got.([]interface{})
		if !ok {
			return nil, h.Failf("C06|non-list|stateless", "source:\n%s\nresult: %s", src, ank.Describe(got))
		}
		out := make([]string, len(list))
		for i, e := range list {
			out[i] = ank.Describe(e)
		}
		return out, nil
	}
	all, f := run(src)
	if f != nil {
		return f
	}
	if len(all) != len(xs) {
		return h.Failf("C06|non-list|stateless", "source:\n%s\n%d results for %d calls", src, len(all), len(xs))
	}
	for i, x := range xs {
		one, f := run(histScript(l, []string{x}))
		if f != nil {
			return f
		}
		if len(one) != 1 || one[0] != all[i] {
			return h.Failf("C06|law:history|"+c.Lit.K, "one comparison site evaluated for several values in a row gives another result for value %d (%s) than the same site evaluated for that value alone in a fresh program\nsource:\n%s\nin a row: %s\nalone:    %v\n(order: x == L, L == x, x != L, L != x, x in [L], L in [x], switch x {case L})", i+1, x, src, all[i], one)
		}
	}
	return nil
}

func TestC06(t *testing.T) {
	c := h.New(t, "C06")
	defer c.Finish()
	c.Rule("ordered pairs (a,b) over nil, bool, int64/float64 edge pools (NaN included), numeral strings derived with strconv from those numbers (sign, leading zeros, fraction, exponent), near-numerals, numerals with white space around them (of the number, its other kind, a neighbour), decimal numerals no float64 holds (exponent beyond 308 or below -324, more than 308 digits, just above the largest / below half the smallest float64) against zero, the limits of the number types, any number and the infinities, plain strings, nested slices/maps (depth<=3) paired as copies / one same-typed leaf changed / one leaf changed in numeric type only / length changed / key renamed / kind switched / reordered; every pair evaluated as a==b, b==a, a!=b, b!=a, a in [b], b in [a], switch a{case b}, switch b{case a} and (numeric) a<=b&&a>=b, with literal and with variable operands; laws always asserted, reference value only where the statement defines one; non-trivial = cross-type pair, or both containers, or a number of magnitude >= 1e6; distinct by the spelling of (a,b)")
	h.Run(c, "pairs", c.N(50000, 500000), genCase, oracle)
	c.Rule("stateless: a function comparing its parameter with one literal (==, != both ways, in, switch case) is called for 2-5 values in a row (the number the literal denotes, its other numeric kind, other spellings, neighbours, arbitrary primitives); the results must equal those of the same function evaluated for each value alone in a fresh program; non-trivial = the values are of >= 2 kinds")
	h.Run(c, "stateless", c.N(8000, 80000), genHist, oracleHist)
	c.Rule("kinds: ordered pairs whose operands are values of every Go numeric kind a script can hold (float32, int8..int32, int, uint8..uint64: element of a typed slice literal or result of a host function) or int64 / float64 / numeral string / bool / nil, over numbers chosen at the limits of the narrow kinds and where float32 is inexact, held as expression / variable / list element; a quarter of the pairs have both operands of ONE typed kind over numbers that kind holds (for uint64/uint half of them above MaxInt64, made by a Go function reading the decimal spelling); the laws are asserted for every pair (symmetry, != as negation, in and switch agree with ==), a reference value only for two operands of one typed Go kind (Go's == on the two values, taken from Go's own conversions); non-trivial = at least one operand of a Go kind other than int64/float64/string/bool")
	h.Run(c, "kinds", c.N(12000, 120000), genKinds, oracleKinds)
	c.Rule("foreign: ordered pairs in which at least one operand is not a value of the language's own types: a pointer made with & from a variable holding a language value (pairs of language values drawn like those of `pairs`, one or both behind a pointer or a pointer to a pointer), a script or Go function, struct, pointer to struct, Go array, channel, complex number, uintptr, value of a named int/float/string/bool type, typed slice/map, []byte, error, time, duration, typed nil values, against each other and against bool / nil / numbers / strings / lists / maps; held as expression / variable / list element; only the laws are asserted (symmetry, != as negation, in and switch agree with ==), never which pairs are equal; non-trivial = at least one operand is a pointer or a host value")
	h.Run(c, "foreign", c.N(6000, 60000), genForeign, oracleForeign)
	c.Rule("live-slot: the item of `in`, the subject of `switch` and the left operand of == / != are read from a slot (element of an untyped list, of a typed slice, of a []interface{} literal, of a nested list, of a list in a map, field of a struct behind a pointer - typed or interface -, map entry, dereferenced pointer, variable) while the list / case expression / right operand is a call of a function that stores another value into that slot and returns the compared value; (old, compared) or (new, compared) drawn like the pairs of `pairs`, the third value mostly unequal to its partner; every form starts from the slot set up afresh; asserted: slot in [g()], slot in typed[g()], switch slot {case g()} agree with slot == g(), the same with g() on the left, != is the negation, and every answer is the statement's value for (old, compared) or for (new, compared) where both are defined - which of the two is not asserted; non-trivial = the statement defines old == compared and new == compared and they differ")
	h.Run(c, "live-slot", c.N(5000, 50000), genLive, oracleLive)
	c.Rule("sites: one switch statement of 1-4 clauses (1-2 case expressions each, with or without default) and one `in` over the list of all its case expressions, body of a function or of a for-in loop, evaluated 3-8 times in a row; each case expression is a literal or reads one of two variables (plainly, in parentheses, through a function, a list element, a map entry); between evaluations a variable may get another value; subjects are the subject of the evaluation before, the present value of a variable, the value of a literal case, or a value near the case's number (other numeric kind, numeral spellings, neighbours, arbitrary primitives and containers); asserted at every evaluation: the clause taken holds a value v with subject == v, no clause is taken only when subject == v for no case value, and `in` is true exactly when subject == v for some v - with == asked of the interpreter in a fresh program over literals; which of several matching clauses is taken is not asserted; non-trivial = a case expression reads a variable that was assigned between two evaluations")
	h.Run(c, "sites", c.N(5000, 50000), genSites, oracleSites)
}
