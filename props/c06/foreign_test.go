package c06

// Sub-check "foreign": the laws of the relation for values that are not of the language's own
// primitive and container types but that a script can hold all the same: a pointer made with `&`
// from a variable (a pointer to the interface box of the variable), script and Go functions,
// structs and pointers to structs, Go arrays, channels, complex numbers, uintptr, values of named
// types, typed slices/maps, errors, typed nil values. The statement says "`==` is symmetric and
// `!=` is its exact negation for every pair of values, and membership (`in`) and `switch` case
// matching use the same relation": exactly these laws are asserted, and nothing about which pairs
// are equal (the statement defines no reference value for such operands).

import (
	"errors"
	"fmt"
	"strings"
	"time"

	"pgregory.net/rapid"

	"verif/internal/ank"
	"verif/internal/h"
)

// FOperand is one operand of a foreign pair.
type FOperand struct {
	// Kind: "val" (the language value V itself), "ptr" (`&v` of a variable holding V), "pptr"
	// (`&p` of a variable holding such a pointer), or the name of an entry of the host table
	Kind string `json:"kind"`
	V    Val    `json:"v"`
	Held string `json:"held"` // lit (used where it stands) | var | elem (read back from an untyped list)
}

type ForeignCase struct {
	A     FOperand `json:"a"`
	B     FOperand `json:"b"`
	Shape string   `json:"shape,omitempty"`
}

type (
	fPoint struct{ X, Y int64 }
	fInt   int64
	fStr   string
	fBool  bool
	fFloat float64
)

// hostTable: values of Go kinds and types outside int64/float64/string/bool/[]interface{}/map
// that a host can hand to a script. Built afresh for every case (no state shared between cases).
func hostTable() map[string]interface{} {
	var box interface{} = int64(1)
	var boxF interface{} = false
	return map[string]interface{}{
		"func-host":         func(x int64) int64 { return x },
		"struct":            fPoint{1, 2},
		"struct-zero":       fPoint{},
		"struct-ptr":        &fPoint{1, 2},
		"array":             [2]int64{1, 2},
		"array-empty":       [0]int64{},
		"chan-host":         make(chan int64, 1),
		"complex":           complex(1, 0),
		"complex-zero":      complex(0, 0),
		"uintptr":           uintptr(1),
		"uintptr-zero":      uintptr(0),
		"named-int":         fInt(1),
		"named-int-zero":    fInt(0),
		"named-float":       fFloat(1),
		"named-str":         fStr("1"),
		"named-str-empty":   fStr(""),
		"named-bool-true":   fBool(true),
		"named-bool-false":  fBool(false),
		"bytes":             []byte("1"),
		"typed-slice":       []int64{1},
		"typed-slice-empty": []int64{},
		"typed-map":         map[string]int64{"a": 1},
		"typed-map-empty":   map[string]int64{},
		"error":             errors.New("1"),
		"time":              time.Unix(1, 0).UTC(),
		"duration":          time.Duration(1),
		"box-ptr-int":       &box,
		"box-ptr-false":     &boxF,
		"nil-func":          (func())(nil),
		"nil-ptr":           (*fPoint)(nil),
		"nil-map":           (map[string]int64)(nil),
		"nil-slice":         ([]int64)(nil),
		"nil-chan":          (chan int64)(nil),
	}
}

// scriptMade: foreign values the script makes itself (spelled in the prelude)
var scriptMade = map[string]string{
	"func-script": "func(x) { return x }",
	"chan-script": "make(chan int64, 1)",
}

var foreignKinds = func() []string {
	var ks []string
	for k := range hostTable() {
		ks = append(ks, k)
	}
	for k := range scriptMade {
		ks = append(ks, k)
	}
	// deterministic order
	for i := 1; i < len(ks); i++ {
		for j := i; j > 0 && ks[j] < ks[j-1]; j-- {
			ks[j], ks[j-1] = ks[j-1], ks[j]
		}
	}
	return ks
}()

func isForeignKind(k string) bool {
	for _, x := range foreignKinds {
		if x == k {
			return true
		}
	}
	return false
}

// partners: language values a foreign operand is most likely to meet a coercion branch with
var foreignPartners = []Val{
	vBool(false), vBool(false), vBool(true), vBool(true), vNil(), vInt(0), vInt(1), vFloat(0), vFloat(1), vStr(""), vStr("1"), vStr("0"),
	vStr("false"), vStr("true"), {K: "slice"}, {K: "slice", E: []Val{vInt(1)}}, {K: "map"}, {K: "slice", E: []Val{vInt(1), vInt(2)}},
}

func genHeld(t *rapid.T, label string) string {
	return rapid.SampledFrom([]string{"lit", "var", "var", "elem"}).Draw(t, label)
}

func genForeign(t *rapid.T) ForeignCase {
	var c ForeignCase
	switch rapid.IntRange(0, 9).Draw(t, "fshape") {
	case 0, 1, 2, 3, 4:
		// a pair of language values drawn like the pairs of the main check (equal through a coercion,
		// neighbours, copies, ...), one or both of them behind a pointer
		c.Shape = "pointer-pair"
		var base Case
		for {
			base = genCase(t)
			if len(base.Reslice) == 0 {
				break
			}
		}
		c.A = FOperand{Kind: "ptr", V: base.A}
		c.B = FOperand{Kind: "val", V: base.B}
		switch rapid.IntRange(0, 7).Draw(t, "wrap") {
		case 0:
			c.B.Kind = "ptr"
		case 1:
			c.A.Kind = "pptr"
		}
		if rapid.Bool().Draw(t, "fswap") {
			c.A.Kind, c.B.Kind = c.B.Kind, c.A.Kind
		}
	case 5, 6, 7:
		c.Shape = "foreign-value"
		c.A = FOperand{Kind: foreignKinds[uniform(t, len(foreignKinds), "fk")]}
		if rapid.IntRange(0, 3).Draw(t, "partner") > 0 {
			c.B = FOperand{Kind: "val", V: foreignPartners[uniform(t, len(foreignPartners), "fp")]}
		} else {
			c.B = FOperand{Kind: "val", V: genAny(t, false)}
		}
		if rapid.IntRange(0, 5).Draw(t, "bptr") == 0 {
			c.B.Kind = "ptr"
		}
		if rapid.Bool().Draw(t, "fswap") {
			c.A, c.B = c.B, c.A
		}
	default:
		c.Shape = "foreign-foreign"
		c.A = FOperand{Kind: foreignKinds[uniform(t, len(foreignKinds), "fk")]}
		c.B = FOperand{Kind: foreignKinds[uniform(t, len(foreignKinds), "fk2")]}
		if rapid.IntRange(0, 3).Draw(t, "samefk") == 0 {
			c.B.Kind = c.A.Kind
		}
	}
	c.A.Held = genHeld(t, "aheld")
	c.B.Held = genHeld(t, "bheld")
	return c
}

// foreignOperand writes what the operand needs into the prelude and returns the operand text.
func foreignOperand(b *strings.Builder, o FOperand, n string) string {
	var e string
	switch o.Kind {
	case "val":
		e = lit(o.V)
	case "ptr":
		b.WriteString("v" + n + " = " + lit(o.V) + "\n")
		e = "&v" + n
	case "pptr":
		b.WriteString("v" + n + " = " + lit(o.V) + "\nq" + n + " = &v" + n + "\n")
		e = "&q" + n
	default:
		if s, ok := scriptMade[o.Kind]; ok {
			b.WriteString("m" + n + " = " + s + "\n")
			e = "m" + n
		} else {
			e = "h_" + strings.ReplaceAll(o.Kind, "-", "_")
		}
	}
	switch o.Held {
	case "var":
		b.WriteString(n + " = " + e + "\n")
		return n
	case "elem":
		b.WriteString("l" + n + " = [0, " + e + "]\n")
		return "l" + n + "[1]"
	}
	return e
}

func foreignSource(c ForeignCase) string {
	var b strings.Builder
	x := foreignOperand(&b, c.A, "a")
	y := foreignOperand(&b, c.B, "b")
	b.WriteString("s1 = nil\ns2 = nil\n")
	b.WriteString("switch " + x + " {\ncase " + y + ":\n s1 = true\ndefault:\n s1 = false\n}\n")
	b.WriteString("switch " + y + " {\ncase " + x + ":\n s2 = true\ndefault:\n s2 = false\n}\n")
	fmt.Fprintf(&b, "[%s == %s, %s == %s, %s != %s, %s != %s, %s in [%s], %s in [%s], s1, s2]", x, y, y, x, x, y, y, x, x, y, y, x)
	return b.String()
}

func foreignLabel(o FOperand) string {
	switch o.Kind {
	case "val":
		return o.V.K
	case "ptr", "pptr":
		return o.Kind + "-to-" + o.V.K
	}
	return o.Kind
}

func oracleForeign(c ForeignCase, o *h.Obs) *h.Fail {
	for _, op := range []FOperand{c.A, c.B} {
		switch op.Kind {
		case "val", "ptr", "pptr":
			if !valid(op.V, 0) {
				o.Excluded = "malformed_case"
				return nil
			}
		default:
			if !isForeignKind(op.Kind) {
				o.Excluded = "malformed_case"
				return nil
			}
		}
		if op.Held != "lit" && op.Held != "var" && op.Held != "elem" {
			o.Excluded = "malformed_case"
			return nil
		}
	}
	src := foreignSource(c)
	o.Key = src
	la, lb := foreignLabel(c.A), foreignLabel(c.B)
	// one signature per unordered pair of operand classes
	sa, sb := la, lb
	if sb < sa {
		sa, sb = sb, sa
	}
	o.NonTrivial = c.A.Kind != "val" || c.B.Kind != "val"
	o.Class("foreign:shape:" + c.Shape)
	for _, op := range []FOperand{c.A, c.B} {
		switch op.Kind {
		case "val":
			o.Class("foreign:operand:value-" + op.V.K)
		case "ptr", "pptr":
			o.Class("foreign:operand:" + op.Kind)
		default:
			o.Class("foreign:operand:" + op.Kind)
		}
	}
	if (c.A.Kind == "ptr") != (c.B.Kind == "ptr") {
		p, v := c.A, c.B
		if p.Kind != "ptr" {
			p, v = v, p
		}
		if v.Kind == "val" && p.V.K != v.V.K {
			o.Class("foreign:pointer_against_value_of_another_type")
			if d, w, _ := ref(p.V, v.V); d && w {
				o.Class("foreign:pointer_against_value_of_another_type_that_equals_the_pointee")
			}
		}
	}
	if (isForeignKind(c.A.Kind) && c.B.Kind == "val" && c.B.V.K == "bool") || (isForeignKind(c.B.Kind) && c.A.Kind == "val" && c.A.V.K == "bool") {
		o.Class("foreign:host_value_against_bool")
	}

	e := newEnv()
	tab := hostTable()
	for _, op := range []FOperand{c.A, c.B} {
		if v, ok := tab[op.Kind]; ok {
			if err := e.Define("h_"+strings.ReplaceAll(op.Kind, "-", "_"), v); err != nil {
				panic(err) // harness problem
			}
		}
	}
	got, err := ank.Exec(e, src)
	if hp, ok := ank.IsHostPanic(err); ok {
		return h.Failf("C06|host-panic|foreign|"+sa+"|"+sb, "source:\n%s\nescaped panic: %v", src, hp.Value)
	}
	if err != nil {
		return h.Failf("C06|error|foreign|"+sa+"|"+sb, "source:\n%s\nanko error: %v", src, err)
	}
	list, ok := got.([]interface{})
	if !ok || len(list) != 8 {
		return h.Failf("C06|non-list|foreign", "source:\n%s\nresult: %s", src, ank.Describe(got))
	}
	r := make([]bool, 8)
	for i, x := range list {
		bv, ok := x.(bool)
		if !ok {
			return h.Failf("C06|non-bool|foreign|"+sa+"|"+sb, "source:\n%s\nresult %d is %s", src, i+1, ank.Describe(x))
		}
		r[i] = bv
	}
	fail := func(law, msg string) *h.Fail {
		return h.Failf("C06|"+law+"|foreign|"+sa+"|"+sb, "%s\na: %s, b: %s\nsource:\n%s\nresults (a == b, b == a, a != b, b != a, a in [b], b in [a], switch a {case b}, switch b {case a}): %v", msg, la, lb, src, r)
	}
	if r[0] != r[1] {
		return fail("law:symmetry", "a == b and b == a disagree")
	}
	if r[2] == r[0] || r[3] == r[1] {
		return fail("law:negation", "!= is not the negation of ==")
	}
	if r[4] != r[0] || r[5] != r[1] {
		return fail("law:in", "membership disagrees with ==")
	}
	if r[6] != r[0] || r[7] != r[1] {
		return fail("law:switch", "switch case matching disagrees with ==")
	}
	if r[0] {
		o.Class("foreign:equal_pair")
	}
	return nil
}
