package c19

import (
	"context"
	"fmt"
	"math"
	"runtime/debug"
	"strings"
	"sync"
	"time"

	"pgregory.net/rapid"

	"verif/internal/ank"
	"verif/internal/h"
	"verif/internal/vals"
)

// Sub-check "conv_overlap": what a conversion builtin returns is a function of its
// argument - also while other calls of conversion builtins are in progress. 2-6 calls
// (each with an argument of its own; typed-slice forms with lists of up to 200 elements
// so that a call lasts long enough to overlap) are first made alone and then repeated
// at the same time:
//
//	envs    every call in an environment of its own, one host goroutine per call
//	shared  all calls in one environment (the arguments under different names), one host goroutine per call
//	script  one script that starts one `go func` per call and collects the results over a channel
//
// Every result is judged against the same Go reference as in "conv". Nothing is shared
// between the calls by the check itself: every argument is a Go value (or literal) of its own.
type OverlapCase struct {
	Mode   string        `json:"mode"`   // envs | shared | script
	Rounds int           `json:"rounds"` // executions per call in the overlapping phase
	Reps   int           `json:"reps"`   // calls per execution
	W      []OverlapCall `json:"w"`
}

// OverlapCall is one call F(A); Len > 0: A is an untyped list that is repeated
// cyclically up to Len elements before it is bound.
type OverlapCall struct {
	F   string `json:"f"`
	A   Arg    `json:"a"`
	Len int    `json:"len,omitempty"`
}

func (c OverlapCall) conv() ConvCase {
	if c.Len <= 0 || c.A.V.K != "list" || len(c.A.V.E) == 0 {
		return ConvCase{F: c.F, A: c.A}
	}
	out := V{K: "list"}
	for i := 0; i < c.Len; i++ {
		out.E = append(out.E, c.A.V.E[i%len(c.A.V.E)])
	}
	return ConvCase{F: c.F, A: Arg{V: out, Prov: c.A.Prov}}
}

var typedSliceFuncs = []string{"toIntSlice", "toFloatSlice", "toStringSlice", "toBoolSlice"}

func isTypedSliceFunc(f string) bool {
	return f == "toIntSlice" || f == "toFloatSlice" || f == "toStringSlice" || f == "toBoolSlice"
}

// genLongList draws an untyped list for the typed-slice forms: a short generated list
// and the length up to which it is repeated cyclically.
func genLongList(t *rapid.T, f string) (V, int) {
	base := V{K: "list"}
	n := rapid.IntRange(1, 4).Draw(t, "nbase")
	for i := 0; i < n; i++ {
		switch rapid.IntRange(0, 7).Draw(t, "ek") {
		case 0:
			base.E = append(base.E, genGo(t, convGoNames))
		case 1:
			base.E = append(base.E, genValue(t, 1, false))
		case 2, 3:
			// an element of a kind that converts to the element type of f
			switch f {
			case "toBoolSlice":
				base.E = append(base.E, V{K: "b", B: rapid.Bool().Draw(t, "b")})
			case "toStringSlice":
				base.E = append(base.E, V{K: "s", S: genStr(t)})
			default:
				if rapid.Bool().Draw(t, "fl") {
					base.E = append(base.E, V{K: "f", FB: math.Float64bits(vals.Float().Draw(t, "f"))})
				} else {
					base.E = append(base.E, V{K: "i", I: vals.Int().Draw(t, "i")})
				}
			}
		default:
			base.E = append(base.E, genScalar(t))
		}
	}
	l := rapid.SampledFrom([]int{0, 1, 4, 16, 64, 64, 200, 200}).Draw(t, "len")
	if l == 0 {
		l = n
	}
	return base, l
}

func genOverlap(t *rapid.T) OverlapCase {
	c := OverlapCase{
		Mode:   rapid.SampledFrom([]string{"envs", "envs", "shared", "script"}).Draw(t, "mode"),
		Rounds: rapid.SampledFrom([]int{2, 4, 8}).Draw(t, "rounds"),
		Reps:   rapid.SampledFrom([]int{1, 4}).Draw(t, "reps"),
	}
	k := rapid.IntRange(2, 6).Draw(t, "workers")
	// which functions: one typed-slice form for all calls, typed-slice forms, one function of the whole family, any
	fk := rapid.IntRange(0, 9).Draw(t, "fk")
	common := ""
	switch {
	case fk <= 4:
		common = rapid.SampledFrom(typedSliceFuncs).Draw(t, "f")
	case fk == 7:
		common = rapid.SampledFrom(convFuncs).Draw(t, "f")
	}
	for i := 0; i < k; i++ {
		f := common
		if f == "" {
			if fk <= 6 {
				f = rapid.SampledFrom(typedSliceFuncs).Draw(t, "f")
			} else {
				f = rapid.SampledFrom(convFuncs).Draw(t, "f")
			}
		}
		var w OverlapCall
		if isTypedSliceFunc(f) {
			v, l := genLongList(t, f)
			prov := "go"
			if hasLit(v) && l <= 16 {
				prov = rapid.SampledFrom([]string{"go", "var", "lit"}).Draw(t, "prov")
			}
			if rapid.IntRange(0, 5).Draw(t, "hop?") == 0 {
				prov += rapid.SampledFrom([]string{">elem", ">mapv", ">ret"}).Draw(t, "hop")
			}
			w = OverlapCall{F: f, A: Arg{V: v, Prov: prov}, Len: l}
		} else {
			cc := genConvFor(t, f) // an argument for f as "conv" draws it
			w = OverlapCall{F: cc.F, A: cc.A}
		}
		c.W = append(c.W, w)
	}
	return c
}

type overlapWorker struct {
	c    ConvCase
	s    *script
	call string // the call expression
	src  string // what is executed in the overlapping phase
	key  string // sources and host definitions, for messages
	r    ref
	mask []bool
}

func overlapOracle(c OverlapCase, o *h.Obs, replayed bool) *h.Fail {
	if len(c.W) < 2 || c.Rounds < 1 || c.Reps < 1 {
		o.Excluded = "overlap:degenerate_case"
		return nil
	}
	rounds := c.Rounds
	if replayed {
		rounds *= 50 // a replay is one case: give the calls time to meet
	}
	ws := make([]*overlapWorker, len(c.W))
	var shared *script
	if c.Mode != "envs" {
		shared = newScript()
	}
	var keys []string
	for i, oc := range c.W {
		wc := oc.conv()
		w := &overlapWorker{c: wc, s: shared}
		if w.s == nil {
			w.s = newScript()
		}
		npre := len(w.s.pre)
		ndef := len(w.s.defs)
		w.call, w.r, w.mask = convExpect(wc, w.s, &h.Obs{})
		// preparatory statements run once, before any call
		pre := strings.Join(w.s.pre[npre:], "\n")
		if pre != "" {
			if _, err := w.s.run(pre); err != nil {
				if f := hostPanic(wc.F, pre, err); f != nil {
					return f
				}
				return h.Failf("C19|conv_overlap|harness-setup", "setup:\n%s\nerror: %v", pre, err)
			}
		}
		w.key = fmt.Sprintf("call %d: %s", i, strings.TrimSpace(pre+"\n"+w.call))
		if d := w.s.defs[ndef:]; len(d) > 0 {
			if oc.Len > len(oc.A.V.E) && len(d) == 1 {
				// the host-defined list, described by its period
				w.key += fmt.Sprintf("\n# %s= %d elements, cyclic repetition of %s", d[0][:strings.Index(d[0], "=")], oc.Len, descr(oc.A.V))
			} else {
				w.key += "\n# " + strings.Join(d, "; ")
			}
		}
		keys = append(keys, w.key)
		ws[i] = w
	}
	o.Key = "mode " + c.Mode + fmt.Sprintf(" rounds %d reps %d\n", c.Rounds, c.Reps) + strings.Join(keys, "\n")
	o.Note = trimNote(o.Key)

	// classes
	o.Class("overlap:mode=" + c.Mode)
	o.Class("overlap:calls=%d", len(ws))
	sameF, allTyped, judged, maxLen := true, true, 0, 0
	for _, w := range ws {
		o.Class("overlap:builtin:" + w.c.F)
		if w.c.F != ws[0].c.F {
			sameF = false
		}
		if !isTypedSliceFunc(w.c.F) {
			allTyped = false
		} else if len(w.c.A.V.E) > maxLen {
			maxLen = len(w.c.A.V.E)
		}
		if w.r.judge {
			judged++
		}
		if !smallLiteral(w.c.A.V) {
			o.NonTrivial = true
		}
	}
	switch {
	case sameF && allTyped:
		o.Class("overlap:all_calls_of_one_typed_slice_form")
	case allTyped:
		o.Class("overlap:typed_slice_forms_mixed")
	case sameF:
		o.Class("overlap:all_calls_of_one_other_builtin")
	default:
		o.Class("overlap:builtins_mixed")
	}
	switch {
	case maxLen >= 200:
		o.Class("overlap:longest_list>=200")
	case maxLen >= 64:
		o.Class("overlap:longest_list>=64")
	case maxLen >= 16:
		o.Class("overlap:longest_list>=16")
	case allTyped:
		o.Class("overlap:longest_list<16")
	}
	o.Class("overlap:judged_calls=%d", judged)
	if judged == 0 {
		o.Class("overlap:no_judged_call(no_crash_only)")
	}

	// phase 1: every call alone
	for _, w := range ws {
		got, err := w.s.run(w.call)
		if f := hostPanic(w.c.F, w.key, err); f != nil {
			return f
		}
		if !w.r.judge {
			continue
		}
		if f := convJudge(w.c.F, "", w.key, got, err, w.r, w.mask); f != nil {
			return f
		}
	}

	// phase 2: the calls at the same time
	if c.Mode == "script" {
		return overlapScript(c, ws, rounds, o)
	}
	for _, w := range ws {
		if c.Reps == 1 {
			w.src = w.call
		} else {
			w.src = "[" + strings.TrimSuffix(strings.Repeat(w.call+", ", c.Reps), ", ") + "]"
		}
	}
	fails := make([]*h.Fail, len(ws))
	start := make(chan struct{})
	var wg sync.WaitGroup
	for i, w := range ws {
		wg.Add(1)
		go func(i int, w *overlapWorker) {
			defer wg.Done()
			<-start
			for r := 0; r < rounds && fails[i] == nil; r++ {
				got, err := w.s.run(w.src)
				if f := hostPanic(w.c.F, w.key, err); f != nil {
					fails[i] = f
					return
				}
				if !w.r.judge {
					continue
				}
				fails[i] = judgeOverlapResults(w, c.Reps, got, err, o.Key)
			}
		}(i, w)
	}
	close(start)
	wg.Wait()
	for _, f := range fails {
		if f != nil {
			f.NoShrink = true // whether the calls meet is up to the scheduler
			return f
		}
	}
	return nil
}

// judgeOverlapResults judges what one execution in the overlapping phase returned:
// one result (reps == 1) or a list of reps results.
func judgeOverlapResults(w *overlapWorker, reps int, got interface{}, err error, key string) (fail *h.Fail) {
	const when = "-while-other-calls-run"
	// a result that cannot even be read (a string whose header is torn) faults in the comparison
	defer debug.SetPanicOnFault(debug.SetPanicOnFault(true))
	defer func() {
		if r := recover(); r != nil {
			fail = h.Failf("C19|"+w.c.F+"|unreadable-result"+when+"|"+w.r.class, "%s\n%s\nGo reference (and the result of the call made alone): %s\nreading a result of this call obtained while the other calls ran faults", key, "failing "+strings.SplitN(w.key, "\n", 2)[0], trimNote(ank.Describe(w.r.want)))
		}
	}()
	var results []interface{}
	if reps == 1 || err != nil {
		results = []interface{}{got}
	} else {
		l, ok := got.([]interface{})
		if !ok || len(l) != reps {
			return h.Failf("C19|conv_overlap|harness-shape", "%s\nexecuted: %s\nunexpected result shape", key, w.src)
		}
		results = l
	}
	for _, g := range results {
		if err == nil && sameTypedSlice(g, w.r.want, w.mask) {
			continue
		}
		if f := convJudge(w.c.F, when, w.key, g, err, w.r, w.mask); f != nil {
			// the message names the call and its reference only: which of the results differed, and
			// how, depends on the scheduler
			f.Msg = fmt.Sprintf("%s\n%s\nGo reference (and the result of the call made alone): %s\na result of this call obtained while the other calls ran differs from it", key, "failing "+strings.SplitN(w.key, "\n", 2)[0], trimNote(ank.Describe(w.r.want)))
			return f
		}
	}
	return nil
}

// overlapScript: one script, one script goroutine per judged call.
func overlapScript(c OverlapCase, ws []*overlapWorker, rounds int, o *h.Obs) *h.Fail {
	var b strings.Builder
	var judged []*overlapWorker
	for _, w := range ws {
		if w.r.judge {
			judged = append(judged, w)
		}
	}
	if len(judged) < 2 {
		o.Class("overlap:script:fewer_than_two_judged_calls(not_run)")
		return nil
	}
	n := rounds * c.Reps
	fmt.Fprintf(&b, "done = make(chan interface, %d)\n", len(judged))
	for i, w := range judged {
		fmt.Fprintf(&b, "go func() { r%d = []; for i%d = 0; i%d < %d; i%d++ { r%d += [%s] }; done <- [%d, r%d] }()\n", i, i, i, n, i, i, w.call, i, i)
	}
	fmt.Fprintf(&b, "out = []\nfor k = 0; k < %d; k++ { out += [<-done] }\nout", len(judged))
	src := b.String()
	key := o.Key + "\nscript:\n" + src
	ctx, cancel := context.WithTimeout(context.Background(), 20*time.Second)
	defer cancel()
	got, err := ank.ExecCtx(ctx, ws[0].s.e, src)
	if f := hostPanic("conv_overlap", key, err); f != nil {
		return f
	}
	if ctx.Err() != nil {
		o.Excluded = "overlap:script_not_finished_in_20s"
		return nil
	}
	if err != nil {
		return h.Failf("C19|conv_overlap|script-error", "%s\nerror: %v", key, err)
	}
	fail := judgeScriptResults(judged, n, got, key)
	if fail != nil {
		fail.NoShrink = true
	}
	return fail
}

func judgeScriptResults(judged []*overlapWorker, n int, got interface{}, key string) (fail *h.Fail) {
	// a result that cannot even be read (a string whose header is torn) faults in the comparison
	defer debug.SetPanicOnFault(debug.SetPanicOnFault(true))
	defer func() {
		if r := recover(); r != nil {
			fail = h.Failf("C19|conv_overlap|unreadable-result-while-other-calls-run", "%s\nreading a result obtained while the other script goroutines ran faults", key)
		}
	}()
	out, ok := got.([]interface{})
	if !ok || len(out) != len(judged) {
		return h.Failf("C19|conv_overlap|harness-shape", "%s\nunexpected result %s", key, trimNote(ank.Describe(got)))
	}
	seen := map[int64]bool{}
	for _, e := range out {
		pair, ok := e.([]interface{})
		if !ok || len(pair) != 2 {
			return h.Failf("C19|conv_overlap|harness-shape", "%s\nunexpected result %s", key, trimNote(ank.Describe(got)))
		}
		idx, ok1 := pair[0].(int64)
		res, ok2 := pair[1].([]interface{})
		if !ok1 || !ok2 || idx < 0 || idx >= int64(len(judged)) || seen[idx] || len(res) != n {
			return h.Failf("C19|conv_overlap|harness-shape", "%s\nunexpected result %s", key, trimNote(ank.Describe(got)))
		}
		seen[idx] = true
		w := judged[idx]
		for _, g := range res {
			if sameTypedSlice(g, w.r.want, w.mask) {
				continue
			}
			if f := convJudge(w.c.F, "-while-other-calls-run", w.key, g, nil, w.r, w.mask); f != nil && (fail == nil || f.Sig < fail.Sig) {
				f.Msg = fmt.Sprintf("%s\n%s\nGo reference (and the result of the call made alone): %s\na result of this call obtained while the other script goroutines ran differs from it", key, "failing "+strings.SplitN(w.key, "\n", 2)[0], trimNote(ank.Describe(w.r.want)))
				fail = f
				break
			}
		}
	}
	return fail
}

// sameTypedSlice is the comparison of convJudge for the four result types of the typed-slice
// forms without reflection (false: not decided here, convJudge decides).
func sameTypedSlice(got, want interface{}, mask []bool) bool {
	switch w := want.(type) {
	case []int64:
		g, ok := got.([]int64)
		if !ok || len(g) != len(w) || len(mask) != len(w) {
			return false
		}
		for i := range w {
			if mask[i] && g[i] != w[i] {
				return false
			}
		}
		return true
	case []float64:
		g, ok := got.([]float64)
		if !ok || len(g) != len(w) || len(mask) != len(w) {
			return false
		}
		for i := range w {
			if mask[i] && math.Float64bits(g[i]) != math.Float64bits(w[i]) {
				return false
			}
		}
		return true
	case []string:
		g, ok := got.([]string)
		if !ok || len(g) != len(w) || len(mask) != len(w) {
			return false
		}
		for i := range w {
			if mask[i] && g[i] != w[i] {
				return false
			}
		}
		return true
	case []bool:
		g, ok := got.([]bool)
		if !ok || len(g) != len(w) || len(mask) != len(w) {
			return false
		}
		for i := range w {
			if mask[i] && g[i] != w[i] {
				return false
			}
		}
		return true
	}
	return false
}

func trimNote(s string) string {
	if len(s) > 600 {
		return s[:600] + " ..."
	}
	return s
}
