package c19

import (
	"fmt"
	"strings"

	"github.com/mattn/anko/core"
	"github.com/mattn/anko/env"
	"pgregory.net/rapid"

	"verif/internal/ank"
	"verif/internal/h"
)

// Sub-check "range_history": every call of range yields the progression, also after
// earlier results have been modified in place (element store, in-place append): results
// must not share storage with each other or with anything process-wide. Small bounds
// only (no call here can run long), so it runs in-process.
type RangeHist struct {
	Steps []RangeStep `json:"steps"`
}

type RangeStep struct {
	N     int64 `json:"n"` // range(N) (one argument) or range(0, N, 1) when Three
	Three bool  `json:"three"`
	Mut   int   `json:"mut"` // 0 none, 1 store at Idx, 2 append, 3 store through a function, 4 re-slice and store
	Idx   int   `json:"idx"`
	Val   int64 `json:"val"`
}

func genRangeHist(t *rapid.T) RangeHist {
	n := rapid.IntRange(2, 5).Draw(t, "nsteps")
	var hst RangeHist
	for i := 0; i < n; i++ {
		hst.Steps = append(hst.Steps, RangeStep{
			N:     int64(rapid.IntRange(0, 70).Draw(t, "n")),
			Three: rapid.IntRange(0, 3).Draw(t, "three") == 0,
			Mut:   rapid.IntRange(0, 4).Draw(t, "mut"),
			Idx:   rapid.IntRange(0, 69).Draw(t, "idx"),
			Val:   int64(rapid.IntRange(100, 999).Draw(t, "val")),
		})
	}
	return hst
}

func rangeHistOracle(c RangeHist, o *h.Obs) *h.Fail {
	var b strings.Builder
	b.WriteString("func setAt(s, i, v) { s[i] = v }\n")
	muts := 0
	for i, st := range c.Steps {
		if st.Three {
			fmt.Fprintf(&b, "r%d = range(0, %d, 1)\n", i, st.N)
		} else {
			fmt.Fprintf(&b, "r%d = range(%d)\n", i, st.N)
		}
		fmt.Fprintf(&b, "s%d = []\nfor v in r%d { s%d += v }\n", i, i, i)
		if st.N > 0 {
			idx := int64(st.Idx) % st.N
			switch st.Mut {
			case 1:
				fmt.Fprintf(&b, "r%d[%d] = %d\n", i, idx, st.Val)
				muts++
			case 2:
				fmt.Fprintf(&b, "x%d = r%d[:%d]\nx%d += %d\n", i, i, idx, i, st.Val)
				muts++
			case 3:
				fmt.Fprintf(&b, "setAt(r%d, %d, %d)\n", i, idx, st.Val)
				muts++
			case 4:
				fmt.Fprintf(&b, "y%d = r%d[%d:]\ny%d[0] = %d\n", i, i, idx, i, st.Val)
				muts++
			}
		}
	}
	b.WriteString("[")
	for i := range c.Steps {
		if i > 0 {
			b.WriteString(", ")
		}
		fmt.Fprintf(&b, "s%d", i)
	}
	b.WriteString("]")
	src := b.String()
	o.Key = src
	o.NonTrivial = muts >= 1 && len(c.Steps) >= 2
	o.Class("range_history")
	e := env.NewEnv()
	core.Import(e)
	got, err := ank.Exec(e, src)
	if hp, ok := ank.IsHostPanic(err); ok {
		return h.Failf("C19|range-history|panic", "source:\n%s\nescaped panic: %v", src, hp.Value)
	}
	if err != nil {
		return h.Failf("C19|range-history|unexpected-error", "source:\n%s\nerror: %v", src, err)
	}
	list, ok := got.([]interface{})
	if !ok || len(list) != len(c.Steps) {
		return h.Failf("C19|range-history|shape", "source:\n%s\nresult: %s", src, ank.Describe(got))
	}
	for i, st := range c.Steps {
		want := make([]interface{}, 0, st.N)
		for v := int64(0); v < st.N; v++ {
			want = append(want, v)
		}
		if ank.Describe(list[i]) != ank.Describe(want) {
			return h.Failf("C19|range-history|wrong-progression-after-earlier-results-were-modified", "call %d (range up to %d) did not yield 0..%d: an earlier result that was modified in place shows through\nsource:\n%s\ngot  %s\nwant %s", i, st.N, st.N-1, src, ank.Describe(list[i]), ank.Describe(want))
		}
	}
	return nil
}
