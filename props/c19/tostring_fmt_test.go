package c19

// Sub-check "tostring_fmt": toString follows Go's default formatting for values whose default
// formatting is decided by methods - fmt.Formatter, error, fmt.Stringer (asked by fmt in that order),
// fmt.GoStringer (not asked by %v) and combinations of them, on struct, pointer, integer, float,
// string, byte-slice, slice and map kinds, with value and pointer receivers, nil receivers and
// methods that panic (fmt reports those in the text). The values are bound by the host or made by
// the script through constructors of the bundled packages (math/big NewFloat / NewInt / NewRat /
// ParseFloat and methods of their results, errors.New, time, net, net/url, regexp, os, bytes).
// Reference: fmt.Sprint of the very value (string(b) for a []byte).

import (
	"fmt"
	"math"
	"math/big"
	"net"
	"reflect"
	"strconv"
	"strings"
	"time"

	_ "github.com/mattn/anko/packages"
	"pgregory.net/rapid"

	"verif/internal/ank"
	"verif/internal/h"
	"verif/internal/vals"
)

// ---------- host types ----------

type fOnly struct {
	N int64
	S string
}

func (v fOnly) Format(st fmt.State, verb rune) {
	fmt.Fprintf(st, "fOnly.Format<%d %q %c>", v.N, v.S, verb)
}

type fStr struct {
	N int64
	S string
}

func (v fStr) Format(st fmt.State, verb rune) { fmt.Fprintf(st, "fStr.Format<%d %q>", v.N, v.S) }
func (v fStr) String() string                 { return fmt.Sprintf("fStr.String<%d>", v.N) }

type fErr struct {
	N int64
	S string
}

func (v fErr) Format(st fmt.State, verb rune) { fmt.Fprintf(st, "fErr.Format<%d %q>", v.N, v.S) }
func (v fErr) Error() string                  { return "fErr.Error<" + v.S + ">" }

type fStrErr struct {
	N int64
	S string
}

func (v fStrErr) Format(st fmt.State, verb rune) { fmt.Fprintf(st, "fStrErr.Format<%d>", v.N) }
func (v fStrErr) String() string                 { return "fStrErr.String<" + v.S + ">" }
func (v fStrErr) Error() string                  { return "fStrErr.Error<" + v.S + ">" }

type fGo struct{ N int64 }

func (v fGo) Format(st fmt.State, verb rune) { fmt.Fprintf(st, "fGo.Format<%d>", v.N) }
func (v fGo) GoString() string               { return "fGo.GoString" }

type fInt int64

func (v fInt) Format(st fmt.State, verb rune) { fmt.Fprintf(st, "fInt.Format<%x>", int64(v)) }
func (v fInt) String() string                 { return "fInt.String<" + strconv.FormatInt(int64(v), 10) + ">" }

// fFloat is formatted like *big.Float: %v gives the shortest text, String ten digits.
type fFloat float64

func (v fFloat) Format(st fmt.State, verb rune) {
	st.Write([]byte(strconv.FormatFloat(float64(v), 'g', -1, 64)))
}
func (v fFloat) String() string { return strconv.FormatFloat(float64(v), 'g', 10, 64) }

type fBytes []byte

func (v fBytes) Format(st fmt.State, verb rune) { fmt.Fprintf(st, "fBytes.Format<%d bytes>", len(v)) }
func (v fBytes) String() string                 { return "fBytes.String<" + string(v) + ">" }

type pfStr struct{ N int64 }

func (v *pfStr) Format(st fmt.State, verb rune) {
	if v == nil {
		st.Write([]byte("pfStr.Format<nil receiver>"))
		return
	}
	fmt.Fprintf(st, "pfStr.Format<%d>", v.N)
}
func (v *pfStr) String() string { return "pfStr.String" }

type pfDeref struct{ N int64 }

func (v *pfDeref) Format(st fmt.State, verb rune) { fmt.Fprintf(st, "pfDeref.Format<%d>", v.N) } // panics on a nil receiver
func (v *pfDeref) Error() string                  { return "pfDeref.Error" }

type fPanic struct{ S string }

func (v fPanic) Format(st fmt.State, verb rune) { panic("fPanic: " + v.S) }
func (v fPanic) String() string                 { return "fPanic.String" }

type sOnly struct {
	N int64
	S string
}

func (v sOnly) String() string { return fmt.Sprintf("sOnly.String<%d %q>", v.N, v.S) }

type eOnly struct{ S string }

func (v eOnly) Error() string { return "eOnly.Error<" + v.S + ">" }

type sErr struct{ S string }

func (v sErr) String() string { return "sErr.String<" + v.S + ">" }
func (v sErr) Error() string  { return "sErr.Error<" + v.S + ">" }

type gOnly struct {
	N int64
	S string
}

func (v gOnly) GoString() string { return "gOnly.GoString" }

type gStr struct{ N int64 }

func (v gStr) GoString() string { return "gStr.GoString" }
func (v gStr) String() string   { return "gStr.String<" + strconv.FormatInt(v.N, 10) + ">" }

type sInt int64

func (v sInt) String() string { return "sInt.String<" + strconv.FormatInt(int64(v), 16) + ">" }

type eStr string

func (v eStr) Error() string { return "eStr.Error<" + string(v) + ">" }

type sStr string

func (v sStr) String() string { return "sStr.String<" + strings.ToUpper(string(v)) + ">" }

type sBytes []byte

func (v sBytes) String() string { return "sBytes.String<" + strconv.Itoa(len(v)) + ">" }

type sSlice []int64

func (v sSlice) String() string { return "sSlice.String<" + strconv.Itoa(len(v)) + ">" }

type sMap map[string]int64

func (v sMap) String() string { return "sMap.String<" + strconv.Itoa(len(v)) + ">" }

type psOnly struct{ N int64 }

func (v *psOnly) String() string {
	if v == nil {
		return "psOnly.String<nil receiver>"
	}
	return "psOnly.String<" + strconv.FormatInt(v.N, 10) + ">"
}

type sPanic struct{ S string }

func (v sPanic) String() string { panic("sPanic: " + v.S) }

type ePanic struct{ S string }

func (v ePanic) Error() string { panic(fmt.Errorf("ePanic: %s", v.S)) }

type embS struct {
	sOnly
	X int64
}

type embF struct {
	fStr
	X int64
}

type holder struct {
	A fStr
	B sOnly
	C *big.Float
	D int64
}

var fmtHostNames = []string{
	"fOnly", "fStr", "fErr", "fStrErr", "fGo", "fInt", "fFloat", "fFloat", "fBytes", "pfStr", "pfStr.value", "pfStr.nil", "pfDeref", "pfDeref.nil", "fPanic",
	"sOnly", "sOnly.ptr", "sOnly.nilptr", "eOnly", "sErr", "gOnly", "gStr", "sInt", "eStr", "sStr", "sBytes", "sSlice", "sMap", "psOnly", "psOnly.value", "psOnly.nil", "sPanic", "ePanic",
	"embS", "embF", "holder", "errorf", "wrapped",
	"big.Float", "big.Float", "big.Float", "big.Float.prec", "big.Float.quo", "big.Float.nil", "big.Int", "big.Int.big", "big.Rat", "big.Accuracy", "big.RoundingMode",
	"time.Duration", "time.Time", "time.Month", "net.IP", "net.IPMask", "net.HardwareAddr",
}

type fmtPayload struct {
	I  int64  `json:"i,omitempty"`
	J  int64  `json:"j,omitempty"`
	FB uint64 `json:"fb,omitempty"`
	GB uint64 `json:"gb,omitempty"`
	S  string `json:"s,omitempty"`
	P  uint   `json:"p,omitempty"`
}

func (p fmtPayload) f() float64 { return math.Float64frombits(p.FB) }
func (p fmtPayload) g() float64 { return math.Float64frombits(p.GB) }

func finite(f float64) float64 {
	if math.IsNaN(f) || math.IsInf(f, 0) {
		return 0.1
	}
	return f
}

// fmtHostValue builds the host value named n from the payload; ok=false: the value cannot be built (counted).
func fmtHostValue(n string, p fmtPayload) (v interface{}, ok bool) {
	defer func() {
		if recover() != nil { // math/big raises ErrNaN for 0/0, Inf-Inf ...
			v, ok = nil, false
		}
	}()
	switch n {
	case "fOnly":
		return fOnly{p.I, p.S}, true
	case "fStr":
		return fStr{p.I, p.S}, true
	case "fErr":
		return fErr{p.I, p.S}, true
	case "fStrErr":
		return fStrErr{p.I, p.S}, true
	case "fGo":
		return fGo{p.I}, true
	case "fInt":
		return fInt(p.I), true
	case "fFloat":
		return fFloat(p.f()), true
	case "fBytes":
		return fBytes(p.S), true
	case "pfStr":
		return &pfStr{p.I}, true
	case "pfStr.value":
		return pfStr{p.I}, true
	case "pfStr.nil":
		return (*pfStr)(nil), true
	case "pfDeref":
		return &pfDeref{p.I}, true
	case "pfDeref.nil":
		return (*pfDeref)(nil), true
	case "fPanic":
		return fPanic{p.S}, true
	case "sOnly":
		return sOnly{p.I, p.S}, true
	case "sOnly.ptr":
		return &sOnly{p.I, p.S}, true
	case "sOnly.nilptr":
		return (*sOnly)(nil), true
	case "eOnly":
		return eOnly{p.S}, true
	case "sErr":
		return sErr{p.S}, true
	case "gOnly":
		return gOnly{p.I, p.S}, true
	case "gStr":
		return gStr{p.I}, true
	case "sInt":
		return sInt(p.I), true
	case "eStr":
		return eStr(p.S), true
	case "sStr":
		return sStr(p.S), true
	case "sBytes":
		return sBytes(p.S), true
	case "sSlice":
		return sSlice{p.I, p.J}, true
	case "sMap":
		return sMap{p.S: p.I}, true
	case "psOnly":
		return &psOnly{p.I}, true
	case "psOnly.value":
		return psOnly{p.I}, true
	case "psOnly.nil":
		return (*psOnly)(nil), true
	case "sPanic":
		return sPanic{p.S}, true
	case "ePanic":
		return ePanic{p.S}, true
	case "embS":
		return embS{sOnly{p.I, p.S}, p.J}, true
	case "embF":
		return embF{fStr{p.I, p.S}, p.J}, true
	case "holder":
		return holder{fStr{p.I, p.S}, sOnly{p.J, p.S}, big.NewFloat(finite(p.f())), p.J}, true
	case "errorf":
		return fmt.Errorf("errorf %d: %s", p.I, p.S), true
	case "wrapped":
		return fmt.Errorf("outer %q: %w", p.S, eOnly{p.S}), true
	case "big.Float":
		return big.NewFloat(finite(p.f())), true
	case "big.Float.prec":
		return new(big.Float).SetPrec(p.P).SetFloat64(finite(p.f())), true
	case "big.Float.quo":
		return new(big.Float).SetPrec(p.P).Quo(big.NewFloat(finite(p.f())), big.NewFloat(finite(p.g()))), true
	case "big.Float.nil":
		return (*big.Float)(nil), true
	case "big.Int":
		return big.NewInt(p.I), true
	case "big.Int.big":
		return new(big.Int).Mul(big.NewInt(p.I), big.NewInt(p.J)), true
	case "big.Rat":
		if p.J == 0 {
			return nil, false
		}
		return big.NewRat(p.I, p.J), true
	case "big.Accuracy":
		return big.Accuracy(int8(p.I%3) - 0), true
	case "big.RoundingMode":
		return big.RoundingMode(byte(uint64(p.I) % 7)), true
	case "time.Duration":
		return time.Duration(p.I), true
	case "time.Time":
		return time.Unix(int64(int32(p.I)), int64(uint32(p.J)%1000000000)).UTC(), true
	case "time.Month":
		return time.Month(int8(p.I)), true
	case "net.IP":
		if p.I%2 == 0 {
			return net.IPv4(byte(p.I), byte(p.J), byte(p.I>>8), byte(p.J>>8)), true
		}
		return net.IP([]byte(p.S)), true
	case "net.IPMask":
		return net.CIDRMask(int(uint64(p.I)%33), 32), true
	case "net.HardwareAddr":
		return net.HardwareAddr([]byte(p.S)), true
	}
	panic("fmtHostValue: " + n)
}

// ---------- values made by the script through the bundled packages ----------

type fmtCtor struct {
	name string
	pkgs []string                  // import lines
	expr func(p fmtPayload) string // "" : not constructible from this payload
}

func fl(f float64) string { return floatLit(finite(f)) }

var safePatterns = []string{"a+", "^x[0-9]*$", "(ab|c)?d", `\d{2,3}`, "", "日本.", "[^a-z]+"}
var urlTexts = []string{"http://a/b?c=d", "https://user:pw@host:8080/p%20q?x=1&y=2#frag", "/rel/path", "mailto:x@y.z", "", "http://[::1]:80/", "a b"}
var ipTexts = []string{"1.2.3.4", "::1", "2001:db8::68", "255.255.255.255", "0.0.0.0", "not an ip", "::ffff:10.0.0.1"}

func pick(list []string, i int64) string { return list[int(uint64(i)%uint64(len(list)))] }

var fmtCtors = []fmtCtor{
	{"math/big.NewFloat", []string{"big=math/big"}, func(p fmtPayload) string { return "big.NewFloat(" + fl(p.f()) + ")" }},
	{"math/big.NewFloat", []string{"big=math/big"}, func(p fmtPayload) string { return "big.NewFloat(" + fl(p.f()) + ")" }},
	{"math/big.NewFloat", []string{"big=math/big"}, func(p fmtPayload) string { return "big.NewFloat(" + fl(p.f()) + ")" }},
	{"math/big.NewFloat.SetPrec", []string{"big=math/big"}, func(p fmtPayload) string {
		return "big.NewFloat(" + fl(p.f()) + ").SetPrec(" + fmt.Sprint(p.P) + ")"
	}},
	{"math/big.NewFloat.Quo", []string{"big=math/big"}, func(p fmtPayload) string {
		return "big.NewFloat(1.0).Quo(big.NewFloat(" + fl(p.f()) + "), big.NewFloat(" + fl(p.g()) + "))"
	}},
	{"math/big.NewFloat.Mul", []string{"big=math/big"}, func(p fmtPayload) string {
		return "big.NewFloat(1.0).SetPrec(" + fmt.Sprint(p.P) + ").Mul(big.NewFloat(" + fl(p.f()) + "), big.NewFloat(" + fl(p.g()) + "))"
	}},
	{"math/big.NewFloat.Add", []string{"big=math/big"}, func(p fmtPayload) string {
		return "big.NewFloat(0.0).Add(big.NewFloat(" + fl(p.f()) + "), big.NewFloat(" + fl(p.g()) + "))"
	}},
	{"math/big.NewFloat.SetInt64", []string{"big=math/big"}, func(p fmtPayload) string {
		return "big.NewFloat(0.0).SetInt64(" + intLit(p.I) + ")"
	}},
	{"math/big.ParseFloat", []string{"big=math/big"}, func(p fmtPayload) string {
		return "big.ParseFloat(" + vals.StrLit(strconv.FormatFloat(finite(p.f()), 'g', -1, 64)) + ", 10, " + fmt.Sprint(p.P) + ", big.ToNearestEven)[0]"
	}},
	{"math/big.NewInt", []string{"big=math/big"}, func(p fmtPayload) string { return "big.NewInt(" + intLit(p.I) + ")" }},
	{"math/big.NewInt.Mul", []string{"big=math/big"}, func(p fmtPayload) string {
		return "big.NewInt(0).Mul(big.NewInt(" + intLit(p.I) + "), big.NewInt(" + intLit(p.J) + "))"
	}},
	{"math/big.NewRat", []string{"big=math/big"}, func(p fmtPayload) string {
		if p.J == 0 {
			return ""
		}
		return "big.NewRat(" + intLit(p.I) + ", " + intLit(p.J) + ")"
	}},
	{"math/big.NewRat.SetFloat64", []string{"big=math/big"}, func(p fmtPayload) string {
		return "big.NewRat(1, 1).SetFloat64(" + fl(p.f()) + ")"
	}},
	{"math/big.constant", []string{"big=math/big"}, func(p fmtPayload) string {
		return "big." + pick([]string{"Above", "Below", "Exact", "ToZero", "ToNearestEven", "AwayFromZero", "ToNegativeInf"}, p.I)
	}},
	{"errors.New", []string{"errors=errors"}, func(p fmtPayload) string { return "errors.New(" + vals.StrLit(p.S) + ")" }},
	{"toDuration", nil, func(p fmtPayload) string { return "toDuration(" + intLit(p.I) + ")" }},
	{"time.constant", []string{"time=time"}, func(p fmtPayload) string {
		return "time." + pick([]string{"Second", "Millisecond", "Hour", "March", "December", "Saturday", "Monday", "Nanosecond"}, p.I)
	}},
	{"time.Unix", []string{"time=time"}, func(p fmtPayload) string {
		return "time.Unix(" + intLit(int64(int32(p.I))) + ", " + intLit(int64(uint32(p.J)%1000000000)) + ")" + pick([]string{"", ".UTC()", ".Month()", ".Weekday()", ".UTC().Location()"}, p.J)
	}},
	{"net.ParseIP", []string{"net=net"}, func(p fmtPayload) string { return "net.ParseIP(" + vals.StrLit(pick(ipTexts, p.I)) + ")" }},
	{"net.IPv4", []string{"net=net"}, func(p fmtPayload) string {
		return fmt.Sprintf("net.IPv4(%d, %d, %d, %d)", byte(p.I), byte(p.J), byte(p.I>>8), byte(p.J>>8))
	}},
	{"net.CIDRMask", []string{"net=net"}, func(p fmtPayload) string {
		return fmt.Sprintf("net.CIDRMask(%d, 32)", uint64(p.I)%33)
	}},
	{"net/url.Parse", []string{"url=net/url"}, func(p fmtPayload) string { return "url.Parse(" + vals.StrLit(pick(urlTexts, p.I)) + ")[0]" }},
	{"net/url.User", []string{"url=net/url"}, func(p fmtPayload) string {
		if p.I%2 == 0 {
			return "url.User(" + vals.StrLit(p.S) + ")"
		}
		return "url.UserPassword(" + vals.StrLit(p.S) + ", \"pw\")"
	}},
	{"regexp.MustCompile", []string{"regexp=regexp"}, func(p fmtPayload) string {
		return "regexp.MustCompile(" + vals.StrLit(pick(safePatterns, p.I)) + ")"
	}},
	{"os.constant", []string{"os=os"}, func(p fmtPayload) string {
		return "os." + pick([]string{"ModeDir", "ModePerm", "ModeSymlink", "Interrupt", "Kill", "ModeAppend"}, p.I)
	}},
	{"bytes.NewBufferString", []string{"bytes=bytes"}, func(p fmtPayload) string { return "bytes.NewBufferString(" + vals.StrLit(p.S) + ")" }},
}

// ---------- case ----------

type FmtCase struct {
	Src  string     `json:"src"` // host | ctor
	N    string     `json:"n,omitempty"`
	C    int        `json:"c,omitempty"` // index into fmtCtors
	P    fmtPayload `json:"p"`
	Via  string     `json:"via"`            // var | direct | elem | mapv | ret
	Wrap string     `json:"wrap,omitempty"` // "" | list | map : the value is an element of the argument (fmt formats it at depth 1)
}

var fmtFloats = []float64{1.0 / 3.0, 2.0 / 3.0, 123456789.125, 1e30, 1e-30, 0.1, 0.5, 1234567890123.0, 12345678901.5, 1e21, 1e20, 3.141592653589793, 2.718281828459045, 0, -1.0 / 7.0, 1e100, 4.9e-324, 100, 255.75}

func genFmtPayload(t *rapid.T) fmtPayload {
	var p fmtPayload
	p.I = vals.Int().Draw(t, "i")
	p.J = vals.Int().Draw(t, "j")
	fdraw := func(label string) float64 {
		switch rapid.IntRange(0, 3).Draw(t, label+"k") {
		case 0, 1:
			return rapid.SampledFrom(fmtFloats).Draw(t, label)
		case 2:
			return finite(vals.Float().Draw(t, label))
		default:
			// a quotient of small integers: most need more than ten digits
			return float64(rapid.Int64Range(-50, 50).Draw(t, label+"n")) / float64(rapid.Int64Range(1, 97).Draw(t, label+"d"))
		}
	}
	p.FB = math.Float64bits(fdraw("f"))
	p.GB = math.Float64bits(fdraw("g"))
	p.S = vals.Str().Draw(t, "s")
	p.P = rapid.SampledFrom([]uint{53, 53, 24, 64, 100, 200, 10, 4, 1, 0}).Draw(t, "prec")
	return p
}

func genFmt(t *rapid.T) FmtCase {
	c := FmtCase{P: genFmtPayload(t)}
	if rapid.Bool().Draw(t, "host") {
		c.Src = "host"
		c.N = rapid.SampledFrom(fmtHostNames).Draw(t, "name")
	} else {
		c.Src = "ctor"
		c.C = rapid.IntRange(0, len(fmtCtors)-1).Draw(t, "ctor")
	}
	c.Via = rapid.SampledFrom([]string{"var", "var", "direct", "direct", "elem", "mapv", "ret"}).Draw(t, "via")
	if rapid.IntRange(0, 7).Draw(t, "wrap") == 0 {
		c.Wrap = rapid.SampledFrom([]string{"list", "map"}).Draw(t, "wrapk")
	}
	return c
}

// methodSet names the formatting interfaces of x in the order fmt asks them.
func methodSet(x interface{}) string {
	var parts []string
	if _, ok := x.(fmt.Formatter); ok {
		parts = append(parts, "Formatter")
	}
	if _, ok := x.(error); ok {
		parts = append(parts, "error")
	}
	if _, ok := x.(fmt.Stringer); ok {
		parts = append(parts, "Stringer")
	}
	if _, ok := x.(fmt.GoStringer); ok {
		parts = append(parts, "GoStringer")
	}
	if len(parts) == 0 {
		return "none"
	}
	return strings.Join(parts, "+")
}

// methodText: what the first of Error / String answers (ok=false: neither exists, or it panics).
func methodText(x interface{}) (s string, ok bool) {
	defer func() {
		if recover() != nil {
			s, ok = "", false
		}
	}()
	switch v := x.(type) {
	case error:
		return v.Error(), true
	case fmt.Stringer:
		return v.String(), true
	}
	return "", false
}

func fmtOracle(c FmtCase, o *h.Obs) *h.Fail {
	s := newScript()
	var valueExpr, label string
	switch c.Src {
	case "host":
		gv, ok := fmtHostValue(c.N, c.P)
		if !ok {
			o.Excluded = "value_cannot_be_built"
			return nil
		}
		if err := s.e.Define("hv", gv); err != nil {
			panic(err)
		}
		s.defs = append(s.defs, fmt.Sprintf("hv=%s%+v", c.N, c.P))
		valueExpr, label = "hv", "host:"+c.N
	case "ctor":
		if c.C < 0 || c.C >= len(fmtCtors) {
			o.Excluded = "malformed_case"
			return nil
		}
		ct := fmtCtors[c.C]
		valueExpr = ct.expr(c.P)
		if valueExpr == "" {
			o.Excluded = "value_cannot_be_built"
			return nil
		}
		for _, imp := range ct.pkgs {
			kv := strings.SplitN(imp, "=", 2)
			s.pre = append(s.pre, kv[0]+" = import(\""+kv[1]+"\")")
		}
		label = "ctor:" + ct.name
	default:
		o.Excluded = "malformed_case"
		return nil
	}
	// x is the value; arg is how the call reaches it
	s.pre = append(s.pre, "x = "+valueExpr)
	arg := "x"
	switch c.Via {
	case "var":
	case "direct":
		arg = valueExpr // for a constructor: a second value made the same way
	case "elem":
		s.pre = append(s.pre, "hl = [0, x]")
		arg = "hl[1]"
	case "mapv":
		s.pre = append(s.pre, "hm = {\"k\": x}")
		arg = "hm.k"
	case "ret":
		s.pre = append(s.pre, "hf = func() { return x }")
		arg = "hf()"
	default:
		o.Excluded = "malformed_case"
		return nil
	}
	switch c.Wrap {
	case "":
	case "list":
		arg = "[" + arg + ", 1]"
	case "map":
		arg = "{\"k\": " + arg + "}"
	default:
		o.Excluded = "malformed_case"
		return nil
	}
	// first the value is made and bound (a failure here is not toString's), then toString is called on it in the
	// same environment; the argument itself is handed back: the reference is computed from the very value
	build := s.src("arg = " + arg + "\n[arg, x]")
	call := "toString(arg)"
	src := build + "\n" + call
	o.Key = s.key(src)
	o.Class("builtin:toString")
	o.Class("tostring_fmt:value=" + label)
	o.Class("tostring_fmt:via=" + c.Via)
	if c.Wrap != "" {
		o.Class("tostring_fmt:value_is_element_of_a_" + c.Wrap)
	}

	built, err := s.run(build)
	if err != nil {
		// math/big raises ErrNaN, a constructor rejects its argument ...: toString is not reached
		o.Excluded = "value_cannot_be_built"
		return nil
	}
	l, ok := built.([]interface{})
	if !ok || len(l) != 2 {
		return h.Failf("C19|toString|harness-shape", "source:\n%s\nunexpected result %s", o.Key, ank.Describe(built))
	}
	l = []interface{}{nil, l[0], l[1]}
	got, err := s.run(call)
	if f := hostPanic("toString", src, err); f != nil {
		return f
	}
	l[0] = got
	x := l[2]
	ms := methodSet(x)
	if err != nil {
		return h.Failf("C19|toString|unexpected-error|"+ms, "source:\n%s\nvalue: %s (formatting methods: %s)\nanko error: %v", o.Key, label, ms, err)
	}
	o.Class("tostring_fmt:methods=" + ms)
	o.Class("tostring_fmt:kind=" + reflect.ValueOf(&x).Elem().Elem().Kind().String())
	o.NonTrivial = ms != "none"
	var want string
	if b, isBytes := l[1].([]byte); isBytes {
		want = string(b)
	} else {
		want = fmt.Sprint(l[1])
	}
	if c.Wrap == "" {
		if _, isF := x.(fmt.Formatter); isF {
			if mt, has := methodText(x); has && mt != want {
				o.Class("tostring_fmt:Formatter_and_String/Error_give_different_texts")
			} else if has {
				o.Class("tostring_fmt:Formatter_and_String/Error_give_the_same_text")
			}
		}
		if strings.Contains(want, "PANIC=") {
			o.Class("tostring_fmt:method_panics(fmt_reports_it_in_the_text)")
		}
		if want == "<nil>" {
			o.Class("tostring_fmt:nil_receiver-><nil>")
		}
	}
	gs, isStr := l[0].(string)
	if !isStr || gs != want {
		where := "argument"
		if c.Wrap != "" {
			where = "element"
		}
		return h.Failf("C19|toString|wrong-result|fmt.Sprint|"+where+"|"+ms, "source:\n%s\nvalue: %s (formatting methods: %s)\nfmt.Sprint(v) = %q\ntoString(v)  = %s", o.Key, label, ms, want, ank.Describe(l[0]))
	}
	return nil
}
