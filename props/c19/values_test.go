package c19

// Value model shared by the builtin sub-checks: a JSON-serialisable description
// of a value that has (a) the Go value anko is expected to hold for it and
// (b) - for the kinds a script can spell - an anko source spelling.

import (
	"errors"
	"fmt"
	"math"
	"reflect"
	"sort"
	"strings"
	"time"

	"github.com/mattn/anko/core"
	"github.com/mattn/anko/env"
	"pgregory.net/rapid"

	"verif/internal/ank"
	"verif/internal/vals"
)

// V describes one value.
//
//	K = nil | i | f | s | b            scalars of the script universe
//	    list                            []interface{}            literal [a, b]
//	    map                             map[interface{}]interface{}  literal {k: v}
//	    ti tf ts tb tby                 []int64 []float64 []string []bool []byte   literal []T{...}
//	    msi mis msx                     map[string]int64, map[int64]string, map[string]interface{}
//	    go                              a value only the host can define (N names the pool entry)
type V struct {
	K  string `json:"k"`
	I  int64  `json:"i,omitempty"`
	FB uint64 `json:"fb,omitempty"`
	S  string `json:"s,omitempty"`
	B  bool   `json:"b,omitempty"`
	E  []V    `json:"e,omitempty"`  // elements / map values
	KS []V    `json:"ks,omitempty"` // map keys
	N  string `json:"n,omitempty"`  // go pool entry
}

type myInt int64
type myFloat float64
type myStr string
type myBool bool
type myStruct struct {
	A int64
	B string
}
type mySlice []int64
type myMap map[string]int64

func (v V) f() float64 { return math.Float64frombits(v.FB) }

var badUTF8 = []string{"\xff", "a\xffb", "\xc3", "\xed\xa0\x80", "\xf8\x88\x80\x80\x80", "é\xfe"}

// goNames lists the host-only pool. Every entry is built deterministically from
// the payload fields of V (I, FB, S).
var goNames = []string{
	"int", "int8", "int16", "int32", "uint", "uint8", "uint16", "uint32", "uint64", "uintptr",
	"float32", "complex128", "dur", "myint", "myfloat", "mystr", "mybool", "bytes", "runes",
	"arr3", "arr0", "struct", "pstruct", "pint", "nilptr", "nilslice", "niltyped", "nilmap", "nilimap", "nilfunc", "nilchan",
	"chan", "func", "err", "time", "nested", "mapmap", "badutf8", "myslice", "mymap",
	"mapint", "mapbool", "mapfloat", "maparr", "mapmystr", "strs3", "month",
	"mapnan", "mapinan",
}

// goValue returns the Go value described by v. Values with identity (pointers,
// channels, functions) are created fresh on every call.
func goValue(v V) interface{} {
	switch v.K {
	case "nil":
		return nil
	case "i":
		return v.I
	case "f":
		return v.f()
	case "s":
		return v.S
	case "b":
		return v.B
	case "list":
		out := make([]interface{}, len(v.E))
		for i, e := range v.E {
			out[i] = goValue(e)
		}
		return out
	case "map":
		out := map[interface{}]interface{}{}
		for i, k := range v.KS {
			out[goValue(k)] = goValue(v.E[i])
		}
		return out
	case "ti":
		out := make([]int64, len(v.E))
		for i, e := range v.E {
			out[i] = e.I
		}
		return out
	case "tf":
		out := make([]float64, len(v.E))
		for i, e := range v.E {
			out[i] = e.f()
		}
		return out
	case "ts":
		out := make([]string, len(v.E))
		for i, e := range v.E {
			out[i] = e.S
		}
		return out
	case "tb":
		out := make([]bool, len(v.E))
		for i, e := range v.E {
			out[i] = e.B
		}
		return out
	case "tby":
		out := make([]byte, len(v.E))
		for i, e := range v.E {
			out[i] = byte(e.I)
		}
		return out
	case "msi":
		out := map[string]int64{}
		for i, k := range v.KS {
			out[k.S] = v.E[i].I
		}
		return out
	case "mis":
		out := map[int64]string{}
		for i, k := range v.KS {
			out[k.I] = v.E[i].S
		}
		return out
	case "msx":
		out := map[string]interface{}{}
		for i, k := range v.KS {
			out[k.S] = goValue(v.E[i])
		}
		return out
	case "go":
		return goPool(v)
	}
	panic("goValue: bad kind " + v.K)
}

func goPool(v V) interface{} {
	i := v.I
	switch v.N {
	case "int":
		return int(i)
	case "int8":
		return int8(i)
	case "int16":
		return int16(i)
	case "int32":
		return int32(i)
	case "uint":
		return uint(i)
	case "uint8":
		return uint8(i)
	case "uint16":
		return uint16(i)
	case "uint32":
		return uint32(i)
	case "uint64":
		return uint64(i)
	case "uintptr":
		return uintptr(uint16(i))
	case "float32":
		return float32(v.f())
	case "complex128":
		return complex(float64(int8(i)), 0.5)
	case "dur":
		return time.Duration(i)
	case "month":
		return time.Month(int8(i))
	case "myint":
		return myInt(i)
	case "myfloat":
		return myFloat(v.f())
	case "mystr":
		return myStr(v.S)
	case "mybool":
		return myBool(i%2 == 0)
	case "bytes":
		return []byte(v.S)
	case "runes":
		return []rune(v.S)
	case "arr3":
		return [3]int64{i, i + 1, i + 2}
	case "arr0":
		return [0]string{}
	case "struct":
		return myStruct{A: i, B: v.S}
	case "pstruct":
		return &myStruct{A: i, B: v.S}
	case "pint":
		p := new(int64)
		*p = i
		return p
	case "nilptr":
		return (*int64)(nil)
	case "nilslice":
		return []interface{}(nil)
	case "niltyped":
		return []int64(nil)
	case "nilmap":
		return map[string]int64(nil)
	case "nilimap":
		return map[interface{}]interface{}(nil)
	case "nilfunc":
		return (func())(nil)
	case "nilchan":
		return (chan int64)(nil)
	case "chan":
		n := int(uint64(i) % 5)
		ch := make(chan int64, 5)
		for k := 0; k < n; k++ {
			ch <- int64(k)
		}
		return ch
	case "func":
		return func(a int) string { return fmt.Sprint(a) }
	case "err":
		return errors.New(v.S)
	case "time":
		return time.Unix(int64(int32(i)), 0).UTC()
	case "nested":
		return [][]int64{{i}, {}, {1, 2}}
	case "mapmap":
		return map[string][]string{v.S: {"x"}, "k": nil}
	case "badutf8":
		return badUTF8[int(uint64(i)%uint64(len(badUTF8)))]
	case "myslice":
		return mySlice{i, i}
	case "mymap":
		return myMap{v.S: i}
	case "mapint":
		return map[int]bool{int(i): true, 0: false, -1: true}
	case "mapbool":
		return map[bool]int64{true: i, false: 0}
	case "mapfloat":
		return map[float64]string{0.5: "a", float64(int32(i)): v.S, 1e300: "c"}
	case "mapnan":
		// NaN keys never look themselves up: two of them are two entries
		return map[float64]string{math.NaN(): "a", math.NaN(): "b", 0.5: v.S}
	case "mapinan":
		return map[interface{}]interface{}{math.NaN(): i, "k": v.S, math.NaN(): nil}
	case "maparr":
		return map[[2]int64]string{{i, 0}: "a", {0, i}: v.S, {1, 1}: "c"}
	case "mapmystr":
		return map[myStr]myInt{myStr(v.S): 1, "k": 2}
	case "strs3":
		return [3]string{v.S, "", "z"}
	}
	panic("goPool: bad name " + v.N)
}

// hasLit reports whether v can be spelled as anko source.
func hasLit(v V) bool {
	switch v.K {
	case "go":
		return false
	case "f":
		return !math.IsNaN(v.f())
	case "list", "msx":
		for _, e := range v.E {
			if !hasLit(e) {
				return false
			}
		}
	case "map":
		for i := range v.E {
			if !hasLit(v.E[i]) || !hasLit(v.KS[i]) {
				return false
			}
		}
	case "tf":
		for _, e := range v.E {
			if math.IsNaN(e.f()) {
				return false
			}
		}
	}
	return true
}

func intLit(i int64) string {
	if i < 0 {
		return "(" + vals.IntLit(i) + ")"
	}
	return vals.IntLit(i)
}

func floatLit(f float64) string {
	s := vals.FloatLit(f)
	if strings.HasPrefix(s, "-") {
		return "(" + s + ")"
	}
	return s
}

// lit spells v as an anko expression.
func lit(v V) string {
	switch v.K {
	case "nil":
		return "nil"
	case "i":
		return intLit(v.I)
	case "f":
		return floatLit(v.f())
	case "s":
		return vals.StrLit(v.S)
	case "b":
		if v.B {
			return "true"
		}
		return "false"
	case "list":
		return "[" + joinLits(v.E) + "]"
	case "map", "msi", "mis", "msx":
		parts := make([]string, len(v.E))
		for i := range v.E {
			parts[i] = lit(v.KS[i]) + ": " + lit(v.E[i])
		}
		body := "{" + strings.Join(parts, ", ") + "}"
		switch v.K {
		case "msi":
			return "map[string]int64" + body
		case "mis":
			return "map[int64]string" + body
		case "msx":
			return "map[string]interface" + body
		}
		return body
	case "ti":
		return "[]int64{" + joinLits(v.E) + "}"
	case "tf":
		return "[]float64{" + joinLits(v.E) + "}"
	case "ts":
		return "[]string{" + joinLits(v.E) + "}"
	case "tb":
		return "[]bool{" + joinLits(v.E) + "}"
	case "tby":
		return "[]byte{" + joinLits(v.E) + "}"
	}
	panic("lit: bad kind " + v.K)
}

func joinLits(es []V) string {
	parts := make([]string, len(es))
	for i, e := range es {
		parts[i] = lit(e)
	}
	return strings.Join(parts, ", ")
}

// kindLabel is the class label of the argument kind.
func kindLabel(v V) string {
	switch v.K {
	case "go":
		return "go:" + v.N
	case "i":
		return "int64"
	case "f":
		return "float64"
	case "s":
		return "string"
	case "b":
		return "bool"
	case "list":
		return "[]interface{}"
	case "map":
		return "map[interface{}]interface{}"
	case "ti":
		return "[]int64"
	case "tf":
		return "[]float64"
	case "ts":
		return "[]string"
	case "tb":
		return "[]bool"
	case "tby":
		return "[]byte"
	case "msi":
		return "map[string]int64"
	case "mis":
		return "map[int64]string"
	case "msx":
		return "map[string]interface{}"
	}
	return v.K
}

// smallLiteral: the argument set the repository's .ank tests use.
func smallLiteral(v V) bool {
	switch v.K {
	case "i":
		return v.I >= 0 && v.I <= 3
	case "s":
		return v.S == "1" || v.S == "a"
	}
	return false
}

// ---------- generators ----------

var extraStrs = []string{
	"12", "-7", "+5", "007", "-0", "0.0", "-0.0", "1.9", "-1.9", "2.5", "0.5", "-0.5", ".5", "5.", "1e3", "1E3", "1e-3", "-2.5e2", "1.5e+2",
	"9223372036854775807", "-9223372036854775808", "9223372036854775808", "-9223372036854775809", "9007199254740993", "123456789012345678",
	"1e18", "9.2e18", "9.3e18", "1e19", "-1e19", "1e308", "1e309", "1e400", "-1e400", "1e-400", "4.9e-324", "0.1", "0.30000000000000004",
	"inf", "-inf", "+Inf", "Infinity", "nan", "NaN", "0x1p4", "0x10", "0b11", "0o7", "1_0", "1_000.5", "१२", "１２",
	"", " ", " 1", "1 ", "1x", "x1", "--1", "+-1", "1..2", "1e", "e3", "1e+", ".", "-", "+", "1,5", "true", "yes", "nil", "a", "abc", "é", "日本", "\x00", "A", " ", "😀x",
}

func genStr(t *rapid.T) string {
	switch rapid.IntRange(0, 9).Draw(t, "strk") {
	case 0, 1, 2:
		return rapid.SampledFrom(extraStrs).Draw(t, "xs")
	case 3, 4:
		return vals.Str().Draw(t, "s")
	case 5:
		// integer numeral with optional sign / leading zeros
		s := fmt.Sprint(vals.Int().Draw(t, "n"))
		switch rapid.IntRange(0, 3).Draw(t, "dec") {
		case 0:
			if !strings.HasPrefix(s, "-") {
				s = "+" + s
			}
		case 1:
			if strings.HasPrefix(s, "-") {
				s = "-00" + s[1:]
			} else {
				s = "00" + s
			}
		}
		return s
	case 6, 7:
		// float numeral in one of the strconv formats
		f := vals.Float().Draw(t, "fl")
		fm := rapid.SampledFrom([]byte{'g', 'e', 'f', 'E', 'G'}).Draw(t, "fmt")
		prec := rapid.SampledFrom([]int{-1, -1, 0, 1, 3, 17}).Draw(t, "prec")
		s := fmtFloat(f, fm, prec)
		if len(s) > 40 {
			s = fmtFloat(f, 'g', -1)
		}
		return s
	case 8:
		// a numeral with a blemish
		s := fmt.Sprint(rapid.Int64Range(-999, 999).Draw(t, "n"))
		return rapid.SampledFrom([]string{" ", "x", "_", "\n", "\t", "0x", "e", "."}).Draw(t, "bl") + s + rapid.SampledFrom([]string{"", " ", "x", "_", "e", ".", "..", "f", "L"}).Draw(t, "br")
	default:
		return rapid.StringOfN(rapid.RuneFrom([]rune("0123456789+-.eE_x aé日")), 0, 8, -1).Draw(t, "soup")
	}
}

func genScalar(t *rapid.T) V {
	switch rapid.IntRange(0, 11).Draw(t, "sck") {
	case 0, 1, 2:
		return V{K: "i", I: vals.Int().Draw(t, "i")}
	case 3, 4, 5:
		f := vals.Float().Draw(t, "f")
		return V{K: "f", FB: math.Float64bits(f)}
	case 6, 7, 8, 9:
		return V{K: "s", S: genStr(t)}
	case 10:
		return V{K: "b", B: rapid.Bool().Draw(t, "b")}
	default:
		return V{K: "nil"}
	}
}

func genKey(t *rapid.T) V {
	switch rapid.IntRange(0, 9).Draw(t, "keyk") {
	case 0, 1, 2:
		return V{K: "s", S: vals.Str().Draw(t, "ks")}
	case 3, 4, 5:
		return V{K: "i", I: vals.Int().Draw(t, "ki")}
	case 6:
		return V{K: "b", B: rapid.Bool().Draw(t, "kb")}
	case 7, 8:
		// non-zero, non-NaN float keys (0.0 and -0.0 are one Go map key)
		f := vals.Float().Draw(t, "kf")
		if f == 0 || math.IsNaN(f) {
			f = 0.25
		}
		return V{K: "f", FB: math.Float64bits(f)}
	default:
		return V{K: "i", I: rapid.Int64Range(0, 3).Draw(t, "ksmall")}
	}
}

func genList(t *rapid.T, depth int) V {
	n := rapid.IntRange(0, 5).Draw(t, "n")
	v := V{K: "list"}
	for i := 0; i < n; i++ {
		v.E = append(v.E, genValue(t, depth-1, false))
	}
	return v
}

func genMap(t *rapid.T, depth int) V {
	n := rapid.IntRange(0, 5).Draw(t, "n")
	v := V{K: "map"}
	for i := 0; i < n; i++ {
		v.KS = append(v.KS, genKey(t))
		v.E = append(v.E, genValue(t, depth-1, false))
	}
	return v
}

func genTyped(t *rapid.T, depth int) V {
	k := rapid.SampledFrom([]string{"ti", "tf", "ts", "tb", "tby", "msi", "mis", "msx"}).Draw(t, "tk")
	n := rapid.IntRange(0, 5).Draw(t, "n")
	v := V{K: k}
	for i := 0; i < n; i++ {
		switch k {
		case "ti":
			v.E = append(v.E, V{K: "i", I: vals.Int().Draw(t, "i")})
		case "tf":
			v.E = append(v.E, V{K: "f", FB: math.Float64bits(vals.Float().Draw(t, "f"))})
		case "ts":
			v.E = append(v.E, V{K: "s", S: genStr(t)})
		case "tb":
			v.E = append(v.E, V{K: "b", B: rapid.Bool().Draw(t, "b")})
		case "tby":
			v.E = append(v.E, V{K: "i", I: rapid.Int64Range(0, 255).Draw(t, "by")})
		case "msi":
			v.KS = append(v.KS, V{K: "s", S: vals.Str().Draw(t, "k")})
			v.E = append(v.E, V{K: "i", I: vals.Int().Draw(t, "i")})
		case "mis":
			v.KS = append(v.KS, V{K: "i", I: vals.Int().Draw(t, "k")})
			v.E = append(v.E, V{K: "s", S: vals.Str().Draw(t, "s")})
		case "msx":
			v.KS = append(v.KS, V{K: "s", S: vals.Str().Draw(t, "k")})
			v.E = append(v.E, genValue(t, depth-1, false))
		}
	}
	return v
}

func genGo(t *rapid.T, names []string) V {
	v := V{K: "go", N: rapid.SampledFrom(names).Draw(t, "goname")}
	v.I = vals.Int().Draw(t, "gi")
	v.FB = math.Float64bits(vals.Float().Draw(t, "gf"))
	v.S = vals.Str().Draw(t, "gs")
	return v
}

// genValue draws any value; withGo adds the host-only pool.
func genValue(t *rapid.T, depth int, withGo bool) V {
	hi := 9
	if withGo {
		hi = 13
	}
	k := rapid.IntRange(0, hi).Draw(t, "vk")
	if depth <= 0 && k >= 6 && k <= 9 {
		k = 0
	}
	switch {
	case k <= 5:
		return genScalar(t)
	case k == 6:
		return genList(t, depth)
	case k == 7:
		return genMap(t, depth)
	case k <= 9:
		return genTyped(t, depth)
	default:
		return genGo(t, goNames)
	}
}

// ---------- evaluation helpers ----------

// Arg is one argument of a generated call: a value and how it reaches the call.
type Arg struct {
	V    V      `json:"v"`
	Prov string `json:"prov"` // lit | var | go, optionally followed by a hop the value takes before it is used: >elem | >mapv | >ret
}

func genProv(t *rapid.T, v V) string {
	p := "go"
	if hasLit(v) {
		p = rapid.SampledFrom([]string{"lit", "lit", "var", "go"}).Draw(t, "prov")
	}
	// the value may reach the builtin through a container or a function result: an element of an untyped
	// list, an entry of an untyped map, the result of a script function (it is the same value there)
	if rapid.IntRange(0, 3).Draw(t, "hop?") == 0 {
		p += rapid.SampledFrom([]string{">elem", ">mapv", ">ret"}).Draw(t, "hop")
	}
	return p
}

// script assembles source text and host definitions for a call with args.
type script struct {
	e     *env.Env
	pre   []string
	defs  []string // description of host definitions (for the distinctness key)
	nvars int
	// lastGo: the name under which the last host-defined argument was bound
	lastGo string
}

func newScript() *script {
	e := env.NewEnv()
	core.Import(e)
	return &script{e: e}
}

// argExpr returns the expression text for a; host values are defined on the way.
func (s *script) argExpr(a Arg) string {
	prov, hop := a.Prov, ""
	if i := strings.Index(prov, ">"); i >= 0 {
		prov, hop = a.Prov[:i], a.Prov[i+1:]
	}
	base := s.baseExpr(Arg{V: a.V, Prov: prov})
	if hop == "" {
		return base
	}
	name := fmt.Sprintf("h%d", s.nvars)
	s.nvars++
	switch hop {
	case "elem":
		s.pre = append(s.pre, name+" = [0, "+base+"]")
		return name + "[1]"
	case "mapv":
		s.pre = append(s.pre, name+" = {\"k\": "+base+"}")
		return name + ".k"
	default:
		s.pre = append(s.pre, name+" = func() { return "+base+" }")
		return name + "()"
	}
}

func (s *script) baseExpr(a Arg) string {
	switch a.Prov {
	case "lit":
		return lit(a.V)
	case "var":
		name := fmt.Sprintf("v%d", s.nvars)
		s.nvars++
		s.pre = append(s.pre, name+" = "+lit(a.V))
		return name
	default:
		name := fmt.Sprintf("g%d", s.nvars)
		s.nvars++
		gv := goValue(a.V)
		if err := s.e.Define(name, gv); err != nil {
			panic(err)
		}
		s.defs = append(s.defs, name+"="+descr(a.V))
		s.lastGo = name
		return name
	}
}

// hostValue returns the Go value the script holds for argument a when it was
// defined from the host (identity matters for pointers/channels): it is read
// back from the environment.
func (s *script) hostValue(name string) interface{} {
	v, err := s.e.Get(name)
	if err != nil {
		panic(err)
	}
	return v
}

func (s *script) src(expr string) string {
	return strings.Join(append(append([]string{}, s.pre...), expr), "\n")
}

func (s *script) key(src string) string {
	if len(s.defs) == 0 {
		return src
	}
	return src + "\n# " + strings.Join(s.defs, "; ")
}

func (s *script) run(src string) (interface{}, error) {
	return ank.Exec(s.e, src)
}

// descr is a deterministic rendering of a described value (no addresses).
func descr(v V) string {
	if v.K == "go" {
		return fmt.Sprintf("go:%s(i=%d,f=%x,s=%q)", v.N, v.I, v.FB, v.S)
	}
	if hasLit(v) {
		return kindLabel(v) + ":" + lit(v)
	}
	return fmt.Sprintf("%s:%+v", kindLabel(v), v)
}

// same reports whether two Go values are identical in dynamic type and value
// (floats by bit pattern, NaN equal to NaN, containers element-wise, nil slices
// and maps distinguished from empty ones only by length).
func same(a, b interface{}) bool {
	return sameRV(reflect.ValueOf(a), reflect.ValueOf(b))
}

func sameRV(a, b reflect.Value) bool {
	if !a.IsValid() || !b.IsValid() {
		return a.IsValid() == b.IsValid()
	}
	if a.Type() != b.Type() {
		return false
	}
	switch a.Kind() {
	case reflect.Float32, reflect.Float64:
		x, y := a.Float(), b.Float()
		return math.Float64bits(x) == math.Float64bits(y) || (math.IsNaN(x) && math.IsNaN(y))
	case reflect.Interface:
		if a.IsNil() || b.IsNil() {
			return a.IsNil() == b.IsNil()
		}
		return sameRV(a.Elem(), b.Elem())
	case reflect.Slice, reflect.Array:
		if a.Len() != b.Len() {
			return false
		}
		for i := 0; i < a.Len(); i++ {
			if !sameRV(a.Index(i), b.Index(i)) {
				return false
			}
		}
		return true
	case reflect.Map:
		if a.Len() != b.Len() {
			return false
		}
		for _, k := range a.MapKeys() {
			bv := b.MapIndex(k)
			if !bv.IsValid() || !sameRV(a.MapIndex(k), bv) {
				return false
			}
		}
		return true
	case reflect.Func, reflect.Chan, reflect.Ptr, reflect.UnsafePointer:
		return a.Pointer() == b.Pointer()
	}
	if a.CanInterface() && b.CanInterface() && a.Type().Comparable() {
		return a.Interface() == b.Interface()
	}
	return reflect.DeepEqual(a.Interface(), b.Interface())
}

func sortedStrings(a []string) []string {
	out := append([]string{}, a...)
	sort.Strings(out)
	return out
}
