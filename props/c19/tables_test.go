package c19

// Exhaustive check of the bundled package tables (env.Packages, env.PackageTypes):
// every function entry must be the Go function of that name in that package,
// every type entry the Go type of that name; variables and constants must be
// valid, interfaceable values. Also: what `import("pkg")` hands to a script is,
// symbol by symbol, the table entry.

import (
	"encoding/json"
	"flag"
	"fmt"
	"reflect"
	"runtime"
	"sort"

	"github.com/mattn/anko/env"
	_ "github.com/mattn/anko/packages"

	"verif/internal/ank"
	"verif/internal/h"
)

// importPath maps the key under which a table is offered to `import` to the Go
// import path of the package it mirrors.
var importPath = map[string]string{
	"bytes": "bytes", "encoding/json": "encoding/json", "errors": "errors", "flag": "flag", "fmt": "fmt",
	"io": "io", "io/ioutil": "io/ioutil", "log": "log", "math": "math", "math/big": "math/big", "math/rand": "math/rand",
	"net": "net", "net/http": "net/http", "net/http/cookiejar": "net/http/cookiejar", "net/url": "net/url",
	"os": "os", "os/exec": "os/exec", "os/signal": "os/signal", "path": "path", "path/filepath": "path/filepath",
	"regexp": "regexp", "runtime": "runtime", "sort": "sort", "strconv": "strconv", "strings": "strings", "sync": "sync", "time": "time",
}

const ankoPackages = "github.com/mattn/anko/packages"

// helper types that anko's packages directory defines itself
var ownTypes = map[string]bool{"sort.SortFuncsStruct": true}

// entries that are package-level variables of function type in Go (their value
// is a function literal, so there is no function of that name): compared by
// code pointer with the Go variable.
var funcVariables = map[string]func() reflect.Value{
	"flag.Usage": func() reflect.Value { return reflect.ValueOf(flag.Usage) },
}

type TableCase struct {
	Pkg  string `json:"pkg"`
	Name string `json:"name"`
	Type bool   `json:"type,omitempty"` // entry of PackageTypes
}

func pathOf(pkg string) string {
	if p, ok := importPath[pkg]; ok {
		return p
	}
	return pkg // anko's convention: the key is the import path
}

func tableOracle(c TableCase, o *h.Obs) *h.Fail {
	o.Key = c.Pkg + "." + c.Name
	o.NonTrivial = true
	if c.Type {
		o.Key = "type " + o.Key
	}
	if _, ok := importPath[c.Pkg]; !ok {
		o.Class("table:package_not_in_fixed_map(key_used_as_import_path)")
	}
	path := pathOf(c.Pkg)
	// what import("pkg") offers
	e := env.NewEnv()
	modv, err := ank.Exec(e, fmt.Sprintf("import(%q)", c.Pkg))
	if f := hostPanic("table", "import "+c.Pkg, err); f != nil {
		return f
	}
	if err != nil {
		return h.Failf("C19|table|import-error|"+c.Pkg, "import(%q) failed: %v", c.Pkg, err)
	}
	mod, ok := modv.(*env.Env)
	if !ok {
		return h.Failf("C19|table|import-not-a-module|"+c.Pkg, "import(%q) returned %s", c.Pkg, ank.Describe(modv))
	}

	if c.Type {
		t, ok := env.PackageTypes[c.Pkg][c.Name]
		if !ok {
			o.Excluded = "entry_not_in_current_tree"
			return nil
		}
		o.Class("table:type")
		if t == nil {
			return h.Failf("C19|table|nil-type|"+o.Key, "%s: nil reflect.Type", o.Key)
		}
		et := t
		if et.Kind() == reflect.Ptr {
			et = et.Elem()
			o.Class("table:type_listed_as_pointer")
		}
		wantPath := path
		if ownTypes[c.Pkg+"."+c.Name] {
			wantPath = ankoPackages
			o.Class("table:anko_helper_type")
		}
		if et.Name() != c.Name || et.PkgPath() != wantPath {
			return h.Failf("C19|table|wrong-type|"+c.Pkg+"."+c.Name, "PackageTypes[%q][%q] is %s (name %q, package %q); expected type %s of package %q", c.Pkg, c.Name, t, et.Name(), et.PkgPath(), c.Name, wantPath)
		}
		mt, err := mod.Type(c.Name)
		if err != nil || mt != t {
			return h.Failf("C19|table|import-type-differs|"+c.Pkg+"."+c.Name, "type %s of import(%q) is %v (err %v), table has %s", c.Name, c.Pkg, mt, err, t)
		}
		return nil
	}

	v, ok := env.Packages[c.Pkg][c.Name]
	if !ok {
		o.Excluded = "entry_not_in_current_tree"
		return nil
	}
	if !v.IsValid() || !v.CanInterface() {
		return h.Failf("C19|table|invalid-value|"+o.Key, "Packages[%q][%q] is not a valid interfaceable value", c.Pkg, c.Name)
	}
	mv, err := mod.GetValue(c.Name)
	if err != nil || !mv.IsValid() || mv.Type() != v.Type() {
		return h.Failf("C19|table|import-value-differs|"+o.Key, "%s of import(%q): %v (err %v); table has a %s", c.Name, c.Pkg, mv, err, v.Type())
	}
	if v.Kind() != reflect.Func {
		o.Class("table:variable_or_constant")
		o.Class("table:value_kind=" + v.Kind().String())
		isFloat := v.Kind() == reflect.Float32 || v.Kind() == reflect.Float64 || v.Kind() == reflect.Complex64 || v.Kind() == reflect.Complex128
		if v.Type().Comparable() && !isFloat && v.Kind() != reflect.Interface && mv.Interface() != v.Interface() {
			return h.Failf("C19|table|import-value-differs|"+o.Key, "%s of import(%q) is %v, table has %v", c.Name, c.Pkg, mv, v)
		}
		// the Go identifier of that name, referenced at compile time
		ref, ok := refValues[c.Pkg+"."+c.Name]
		if !ok {
			if fr, isFunc := funcRefs[c.Pkg+"."+c.Name]; isFunc && reflect.ValueOf(fr).Kind() == reflect.Func {
				// the Go identifier of that name is a function; the table lists something that is not one
				return h.Failf("C19|table|function-entry-not-a-function|"+o.Key, "Packages[%q][%q] is a %s value (%v); the Go identifier %s.%s is a function of type %T", c.Pkg, c.Name, v.Type(), v, path, c.Name, fr)
			}
			o.Class("table:variable_without_reference_value")
			return nil
		}
		o.Class("table:variable_compared_with_go_identifier")
		rv := reflect.ValueOf(ref)
		if rv.Type() != v.Type() {
			return h.Failf("C19|table|wrong-value|"+o.Key, "Packages[%q][%q] has type %s; the Go identifier %s.%s has type %s", c.Pkg, c.Name, v.Type(), path, c.Name, rv.Type())
		}
		same := false
		switch v.Kind() {
		case reflect.Ptr, reflect.Chan, reflect.UnsafePointer:
			same = v.Pointer() == rv.Pointer()
		default:
			same = reflect.DeepEqual(v.Interface(), ref)
		}
		if !same {
			return h.Failf("C19|table|wrong-value|"+o.Key, "Packages[%q][%q] is %v; the Go identifier %s.%s is %v", c.Pkg, c.Name, v, path, c.Name, rv)
		}
		return nil
	}
	if v.IsNil() {
		return h.Failf("C19|table|nil-func|"+o.Key, "Packages[%q][%q] is a nil func", c.Pkg, c.Name)
	}
	if mv.Pointer() != v.Pointer() {
		return h.Failf("C19|table|import-value-differs|"+o.Key, "%s of import(%q) is another function than the table entry", c.Name, c.Pkg)
	}
	if gv, ok := funcVariables[c.Pkg+"."+c.Name]; ok {
		o.Class("table:function_variable")
		if v.Pointer() != gv().Pointer() {
			return h.Failf("C19|table|wrong-function|"+o.Key, "Packages[%q][%q] does not hold the value of the Go variable %s.%s", c.Pkg, c.Name, path, c.Name)
		}
		return nil
	}
	o.Class("table:function")
	if fr, ok := funcRefs[c.Pkg+"."+c.Name]; ok {
		o.Class("table:function_compared_with_go_identifier")
		if rf := reflect.ValueOf(fr); rf.Kind() != reflect.Func || rf.Type() != v.Type() || rf.Pointer() != v.Pointer() {
			return h.Failf("C19|table|wrong-function|"+o.Key, "Packages[%q][%q] (type %s) is not the Go function %s.%s (type %T)", c.Pkg, c.Name, v.Type(), path, c.Name, fr)
		}
	}
	fn := runtime.FuncForPC(v.Pointer())
	if fn == nil {
		return h.Failf("C19|table|unknown-function|"+o.Key, "Packages[%q][%q]: no function information", c.Pkg, c.Name)
	}
	want := path + "." + c.Name
	if fn.Name() != want {
		return h.Failf("C19|table|wrong-function|"+o.Key, "Packages[%q][%q] is bound to Go function %s; expected %s", c.Pkg, c.Name, fn.Name(), want)
	}
	return nil
}

// tableEntries lists every entry of both tables in a deterministic order.
func tableEntries() []TableCase {
	var out []TableCase
	var pkgs []string
	for p := range env.Packages {
		pkgs = append(pkgs, p)
	}
	sort.Strings(pkgs)
	for _, p := range pkgs {
		var names []string
		for n := range env.Packages[p] {
			names = append(names, n)
		}
		sort.Strings(names)
		for _, n := range names {
			out = append(out, TableCase{Pkg: p, Name: n})
		}
	}
	pkgs = nil
	for p := range env.PackageTypes {
		pkgs = append(pkgs, p)
	}
	sort.Strings(pkgs)
	for _, p := range pkgs {
		var names []string
		for n := range env.PackageTypes[p] {
			names = append(names, n)
		}
		sort.Strings(names)
		for _, n := range names {
			out = append(out, TableCase{Pkg: p, Name: n, Type: true})
		}
	}
	return out
}

func runTables(c *h.Ctx) {
	c.RegisterReplay("tables", func(raw json.RawMessage) (*h.Fail, error) {
		var tc TableCase
		if err := json.Unmarshal(raw, &tc); err != nil {
			return nil, err
		}
		if !tc.Type {
			// the history of the search: every rebinding form on this very entry first
			for _, f := range rebindForms {
				ank.Exec(env.NewEnv(), fmt.Sprintf(f, tc.Pkg, tc.Name))
			}
		}
		return tableOracle(tc, &h.Obs{}), nil
	})
	if replaying() {
		return
	}
	entries := tableEntries()
	// history: before the entries are compared, scripts in throw-away environments rebind symbols
	// of what import() handed them (directly, through a parameter, through a container element):
	// what later imports offer must still be the table entries
	nreb := rebindImported(c, entries)
	nf, nt := 0, 0
	for _, tc := range entries {
		o := &h.Obs{}
		f := tableOracle(tc, o)
		o.Class("table:pkg=" + tc.Pkg)
		c.Record("tables", o, func() string { b, _ := json.Marshal(tc); return string(b) })
		if f != nil {
			c.Violation("tables", f, tc)
		}
		if tc.Type {
			nt++
		} else {
			nf++
		}
	}
	// a type table without a value table of the same name can not be imported
	for p := range env.PackageTypes {
		if _, ok := env.Packages[p]; !ok {
			c.Violation("tables", h.Failf("C19|table|types-without-package|"+p, "PackageTypes[%q] exists but Packages[%q] does not: the types can not be imported", p, p), TableCase{Pkg: p, Type: true})
		}
	}
	if c.Shard == 0 {
		c.Extra("exhaustive_table_entries", len(entries))
		c.Extra("exhaustive_table_value_entries", nf)
		c.Extra("exhaustive_table_type_entries", nt)
		c.Extra("exhaustive_table_packages", len(env.Packages))
		c.Extra("import_rebinding_scripts_run_before_the_comparison", nreb)
		c.Extra("package_tables_exhaustive_note", "package tables: every entry of env.Packages and env.PackageTypes of the tree under test was checked")
	}
}

// rebindImported runs, for a seed-dependent choice of function entries of every package, scripts that
// assign to a member of the imported package scope without copying it first. Returns the number run.
func rebindImported(c *h.Ctx, entries []TableCase) int {
	forms := rebindForms
	n := 0
	x := c.Seed*0x9E3779B97F4A7C15 + 12345
	for _, tc := range entries {
		if tc.Type {
			continue
		}
		x ^= x << 13
		x ^= x >> 7
		x ^= x << 17
		if x%5 != 0 {
			continue
		}
		src := fmt.Sprintf(forms[(x>>8)%uint64(len(forms))], tc.Pkg, tc.Name)
		ank.Exec(env.NewEnv(), src) // errors do not matter here
		n++
	}
	return n
}

var rebindForms = []string{
	"import(%q).%s = nil",
	"func(m) { m.%[2]s = 1 }(import(%[1]q))",
	"libs = {\"p\": import(%[1]q)}\nlibs[\"p\"].%[2]s = \"rebound\"",
	"[import(%[1]q)][0].%[2]s = func() { return 0 }",
}
