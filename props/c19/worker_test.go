package c19

// Sandbox worker for the range sub-check. The range builtin is a native Go loop:
// a context cannot interrupt it, and a loop that wraps around the int64 limits
// appends to a slice practically forever. So every range call is executed in a
// child process (this same test binary, started with VERIF_C19_WORKER=1) that
//   - runs the source with vm.ExecuteContext under a 5 s deadline,
//   - has a heap watchdog (live heap > 128 MiB => answer "runaway" and exit),
// and the parent kills the child when no answer arrives within the bound.

import (
	"bufio"
	"bytes"
	"context"
	"encoding/json"
	"fmt"
	"io"
	"os"
	"os/exec"
	"runtime"
	"sync"
	"testing"
	"time"

	"github.com/mattn/anko/core"
	"github.com/mattn/anko/env"

	"verif/internal/ank"
)

const (
	hangBound      = 5 * time.Second
	reconfirmBound = 10 * time.Second
	heapBound      = 128 << 20
	maxReturned    = 1200
)

type wreq struct {
	Src  string           `json:"src"`
	Vars map[string]int64 `json:"vars,omitempty"`
	Hist *histReq         `json:"hist,omitempty"` // a history of the result_history sub-check instead of Src
}

type wresp struct {
	HasErr  bool      `json:"has_err,omitempty"`
	Err     string    `json:"err,omitempty"`
	Panic   string    `json:"panic,omitempty"`
	Typ     string    `json:"typ,omitempty"`
	IsList  bool      `json:"is_list,omitempty"`
	Len     int       `json:"len,omitempty"`
	Val     []int64   `json:"val,omitempty"` // first maxReturned elements
	Runaway bool      `json:"runaway,omitempty"`
	Ctx     bool      `json:"ctx,omitempty"` // the 5 s context expired inside the child
	Hist    *histResp `json:"hist,omitempty"`
}

func TestMain(m *testing.M) {
	if os.Getenv("VERIF_C19_WORKER") == "1" {
		workerMain()
		os.Exit(0)
	}
	code := m.Run()
	stopWorker()
	os.Exit(code)
}

func workerMain() {
	out := bufio.NewWriter(os.Stdout)
	var outMu sync.Mutex
	send := func(r wresp) {
		outMu.Lock()
		defer outMu.Unlock()
		b, _ := json.Marshal(r)
		out.Write(b)
		out.WriteByte('\n')
		out.Flush()
	}
	go func() {
		var ms runtime.MemStats
		for {
			time.Sleep(10 * time.Millisecond)
			runtime.ReadMemStats(&ms)
			if ms.HeapAlloc > heapBound {
				send(wresp{Runaway: true})
				os.Exit(0)
			}
		}
	}()
	in := bufio.NewReaderSize(os.Stdin, 1<<20)
	for {
		line, err := in.ReadBytes('\n')
		if len(line) > 0 {
			var req wreq
			if jerr := json.Unmarshal(line, &req); jerr != nil {
				send(wresp{HasErr: true, Panic: "worker: bad request: " + jerr.Error()})
			} else {
				send(workerExec(req))
			}
		}
		if err != nil {
			return
		}
	}
}

func workerExec(req wreq) wresp {
	if req.Hist != nil {
		return wresp{Hist: histExec(req.Hist)}
	}
	e := env.NewEnv()
	core.Import(e)
	for k, v := range req.Vars {
		e.Define(k, v)
	}
	ctx, cancel := context.WithTimeout(context.Background(), hangBound)
	defer cancel()
	v, err := ank.ExecCtx(ctx, e, req.Src)
	var r wresp
	if hp, ok := ank.IsHostPanic(err); ok {
		r.Panic = ank.NormPanic(hp.Value)
		if r.Panic == "" {
			r.Panic = "panic"
		}
		return r
	}
	if ctx.Err() != nil {
		r.Ctx = true
	}
	if err != nil {
		r.HasErr = true
		r.Err = err.Error()
		return r
	}
	r.Typ = fmt.Sprintf("%T", v)
	if l, ok := v.([]int64); ok {
		r.IsList = true
		r.Len = len(l)
		if len(l) > maxReturned {
			l = l[:maxReturned]
		}
		r.Val = l
	}
	return r
}

// ---------- parent side ----------

type workerProc struct {
	cmd    *exec.Cmd
	in     io.WriteCloser
	lines  chan []byte
	stderr *bytes.Buffer
}

var (
	wmu sync.Mutex
	wp  *workerProc
)

func startWorker() (*workerProc, error) {
	cmd := exec.Command(os.Args[0])
	var envv []string
	for _, kv := range os.Environ() {
		if len(kv) >= 9 && kv[:9] == "VERIF_OUT" {
			continue
		}
		envv = append(envv, kv)
	}
	cmd.Env = append(envv, "VERIF_C19_WORKER=1")
	in, err := cmd.StdinPipe()
	if err != nil {
		return nil, err
	}
	outp, err := cmd.StdoutPipe()
	if err != nil {
		return nil, err
	}
	w := &workerProc{cmd: cmd, in: in, lines: make(chan []byte, 4), stderr: &bytes.Buffer{}}
	cmd.Stderr = w.stderr
	if err := cmd.Start(); err != nil {
		return nil, err
	}
	go func() {
		rd := bufio.NewReaderSize(outp, 1<<20)
		for {
			line, err := rd.ReadBytes('\n')
			if len(line) > 0 {
				w.lines <- line
			}
			if err != nil {
				close(w.lines)
				return
			}
		}
	}()
	return w, nil
}

func (w *workerProc) kill() {
	w.in.Close()
	if w.cmd.Process != nil {
		w.cmd.Process.Kill()
	}
	go func() {
		for range w.lines {
		}
	}()
	w.cmd.Wait()
}

func stopWorker() {
	wmu.Lock()
	defer wmu.Unlock()
	if wp != nil {
		wp.kill()
		wp = nil
	}
}

type callStatus int

const (
	callOK callStatus = iota
	callTimeout
	callDied
	callInfra
)

// workerCall sends one request. fresh forces a new child (re-confirmation).
func workerCall(req wreq, bound time.Duration, fresh bool) (wresp, callStatus, string) {
	wmu.Lock()
	defer wmu.Unlock()
	if fresh && wp != nil {
		wp.kill()
		wp = nil
	}
	if wp == nil {
		w, err := startWorker()
		if err != nil {
			return wresp{}, callInfra, "cannot start worker: " + err.Error()
		}
		wp = w
	}
	b, _ := json.Marshal(req)
	b = append(b, '\n')
	if _, err := wp.in.Write(b); err != nil {
		msg := "write to worker: " + err.Error() + "; stderr: " + wp.stderr.String()
		wp.kill()
		wp = nil
		return wresp{}, callDied, msg
	}
	select {
	case line, ok := <-wp.lines:
		if !ok {
			wp.kill()
			msg := "worker exited; stderr: " + wp.stderr.String()
			wp = nil
			return wresp{}, callDied, msg
		}
		var r wresp
		if err := json.Unmarshal(line, &r); err != nil {
			wp.kill()
			wp = nil
			return wresp{}, callInfra, "bad worker answer: " + err.Error()
		}
		if r.Runaway {
			// the child exits after this answer
			wp.kill()
			wp = nil
		}
		return r, callOK, ""
	case <-time.After(bound):
		wp.kill()
		wp = nil
		return wresp{}, callTimeout, ""
	}
}
