package c19

// Sub-check "result_history": the answer of a builtin is the Go answer for its argument, whatever
// was done with earlier answers. A history takes the address of the result of a builtin call
// directly (`&len(a)`, `&toInt(s)`, `&(f(a))`, `&keys(m)[0]`, `&g()` of a script function returning
// it, `&(true ? f(a) : nil)`), stores something else through that pointer (`*p = w`, or a host
// function writing through it), and evaluates the builtin again: in the same run, and in later
// runs of the same process in fresh environments.
//
// Such a history can corrupt state of the whole process when a result shares storage with
// something process-wide, so it never runs in the test process: it is executed by the sandbox
// child of the range sub-check. A child in which a history failed is killed at once (it may be
// poisoned) and the history is repeated in a fresh child; the next case gets a fresh child too.

import (
	"fmt"
	"math"
	"reflect"
	"strings"
	"sync"
	"unicode/utf8"

	"github.com/mattn/anko/core"
	"github.com/mattn/anko/env"
	"pgregory.net/rapid"

	"verif/internal/ank"
	"verif/internal/h"
	"verif/internal/vals"
)

type ResHist struct {
	Steps []ResStep `json:"steps"`
	Later int       `json:"later"` // later runs in fresh environments
}

type ResStep struct {
	F     string `json:"f"`
	A     V      `json:"a"`     // the argument; for range: a list of 1-3 integers, the arguments
	Arg   string `json:"arg"`   // lit | var
	Form  string `json:"form"`  // direct | paren | ret | tern | elem | bound (control: the result is bound to a name first)
	Idx   int    `json:"idx"`   // elem: index (modulo the length)
	Store string `json:"store"` // deref | poke
	W     V      `json:"w"`     // what is stored: a scalar of the kind of the result
}

// ---------- wire ----------

type histReq struct {
	Runs []string `json:"runs"`           // sources; each runs in a fresh environment of the same process
	Sort [][]bool `json:"sort,omitempty"` // per run, per element of the result list: the element is a set (keys)
}

type histRun struct {
	HasErr bool     `json:"has_err,omitempty"`
	Err    string   `json:"err,omitempty"`
	Panic  string   `json:"panic,omitempty"`
	Shape  string   `json:"shape,omitempty"` // result is not a list: its description
	Vals   []string `json:"vals,omitempty"`
}

type histResp struct {
	Runs []histRun `json:"runs"`
}

// canon describes a value with its dynamic type; a nil slice and an empty one are the same.
func canon(v interface{}, set bool) string {
	return canonRV(reflect.ValueOf(v), set)
}

func canonRV(rv reflect.Value, set bool) string {
	if !rv.IsValid() {
		return "nil"
	}
	switch rv.Kind() {
	case reflect.Interface:
		if rv.IsNil() {
			return "nil"
		}
		return canonRV(rv.Elem(), set)
	case reflect.Slice, reflect.Array:
		parts := make([]string, rv.Len())
		for i := range parts {
			parts[i] = canonRV(rv.Index(i), false)
		}
		if set {
			parts = sortedStrings(parts)
		}
		return rv.Type().String() + "[" + strings.Join(parts, ", ") + "]"
	}
	return ank.Describe(rv.Interface())
}

// histExec runs in the child.
func histExec(req *histReq) *histResp {
	resp := &histResp{}
	for ri, src := range req.Runs {
		e := env.NewEnv()
		core.Import(e)
		e.Define("poke", func(p interface{}, v interface{}) (done bool) {
			defer func() {
				if recover() != nil {
					done = false
				}
			}()
			rv := reflect.ValueOf(p)
			if rv.Kind() != reflect.Ptr || rv.IsNil() {
				return false
			}
			el := rv.Elem()
			val := reflect.ValueOf(v)
			switch {
			case !val.IsValid():
				el.Set(reflect.Zero(el.Type()))
			case val.Type().AssignableTo(el.Type()):
				el.Set(val)
			case val.Type().ConvertibleTo(el.Type()):
				el.Set(val.Convert(el.Type()))
			default:
				return false
			}
			return true
		})
		var run histRun
		v, err := ank.Exec(e, src)
		if hp, ok := ank.IsHostPanic(err); ok {
			run.Panic = ank.NormPanic(hp.Value)
			if run.Panic == "" {
				run.Panic = "panic"
			}
		} else if err != nil {
			run.HasErr, run.Err = true, err.Error()
		} else if l, ok := v.([]interface{}); !ok {
			run.Shape = ank.Describe(v)
		} else {
			for i, x := range l {
				set := ri < len(req.Sort) && i < len(req.Sort[ri]) && req.Sort[ri][i]
				run.Vals = append(run.Vals, canon(x, set))
			}
		}
		resp.Runs = append(resp.Runs, run)
	}
	return resp
}

// ---------- generator ----------

var histBuiltins = []string{"len", "len", "len", "len", "len", "toInt", "toInt", "toInt", "toFloat", "toString", "toRune", "toChar", "typeOf", "kindOf",
	"keys", "keys", "range", "range", "toIntSlice", "toFloatSlice", "toStringSlice", "toBoolSlice", "toByteSlice", "toRuneSlice"}

func listResult(f string) bool {
	switch f {
	case "keys", "range", "toIntSlice", "toFloatSlice", "toStringSlice", "toBoolSlice", "toByteSlice", "toRuneSlice":
		return true
	}
	return false
}

// litOnly replaces a value that has no source spelling.
func litOnly(v V) V {
	if hasLit(v) {
		return v
	}
	return V{K: "list", E: []V{{K: "i", I: 1}, {K: "s", S: "x"}}}
}

func intsList(n int, from int64) V {
	v := V{K: "list"}
	for i := 0; i < n; i++ {
		v.E = append(v.E, V{K: "i", I: from + int64(i)})
	}
	return v
}

func genHistArg(t *rapid.T, f string) V {
	switch f {
	case "len":
		n := rapid.SampledFrom([]int{0, 0, 1, 1, 2, 2, 3, 4, 5, 7, 16, 100, 300}).Draw(t, "n")
		switch rapid.IntRange(0, 5).Draw(t, "lk") {
		case 0, 1:
			return intsList(n, rapid.Int64Range(-2, 9).Draw(t, "from"))
		case 2:
			return V{K: "s", S: strings.Repeat(rapid.SampledFrom([]string{"a", "é", "ab"}).Draw(t, "unit"), n)}
		case 3:
			v := V{K: "map"}
			if n > 16 {
				n = 16
			}
			for i := 0; i < n; i++ {
				v.KS = append(v.KS, V{K: "i", I: int64(i)})
				v.E = append(v.E, V{K: "s", S: "v"})
			}
			return v
		case 4:
			return litOnly(genTyped(t, 1))
		default:
			return V{K: "s", S: genStr(t)}
		}
	case "toInt":
		switch rapid.IntRange(0, 4).Draw(t, "ik") {
		case 0:
			return V{K: "i", I: rapid.Int64Range(-3, 4200).Draw(t, "i")}
		case 1:
			return V{K: "s", S: fmt.Sprint(rapid.Int64Range(-3, 4200).Draw(t, "i"))}
		case 2:
			return V{K: "f", FB: math.Float64bits(float64(rapid.Int64Range(-30, 42000).Draw(t, "n")) / 8)}
		default:
			return litOnly(genScalar(t))
		}
	case "toFloat", "toString", "typeOf", "kindOf":
		if rapid.IntRange(0, 3).Draw(t, "cont") == 0 {
			return litOnly(genValue(t, 1, false))
		}
		return litOnly(genScalar(t))
	case "toRune", "toByteSlice", "toRuneSlice":
		return V{K: "s", S: genStr(t)}
	case "toChar":
		if rapid.Bool().Draw(t, "pool") {
			cp := rapid.SampledFrom(codePoints).Draw(t, "cp")
			if cp < 0 || cp > 0x10ffff {
				cp = 65
			}
			return V{K: "i", I: cp}
		}
		return V{K: "i", I: rapid.Int64Range(0, 0x10ffff).Draw(t, "cp")}
	case "keys":
		if rapid.Bool().Draw(t, "typed") {
			v := V{K: rapid.SampledFrom([]string{"msi", "mis"}).Draw(t, "tk")}
			n := rapid.IntRange(0, 4).Draw(t, "n")
			for i := 0; i < n; i++ {
				if v.K == "msi" {
					v.KS = append(v.KS, V{K: "s", S: vals.Str().Draw(t, "k")})
					v.E = append(v.E, V{K: "i", I: int64(i)})
				} else {
					v.KS = append(v.KS, V{K: "i", I: vals.Int().Draw(t, "k")})
					v.E = append(v.E, V{K: "s", S: "v"})
				}
			}
			return v
		}
		return litOnly(genMap(t, 1))
	case "range":
		v := V{K: "list"}
		switch rapid.IntRange(0, 2).Draw(t, "argc") {
		case 0:
			v.E = []V{{K: "i", I: rapid.Int64Range(0, 20).Draw(t, "stop")}}
		case 1:
			v.E = []V{{K: "i", I: rapid.Int64Range(-5, 10).Draw(t, "start")}, {K: "i", I: rapid.Int64Range(-5, 20).Draw(t, "stop")}}
		default:
			step := rapid.Int64Range(-4, 4).Draw(t, "step")
			if step == 0 {
				step = 1
			}
			v.E = []V{{K: "i", I: rapid.Int64Range(-5, 20).Draw(t, "start")}, {K: "i", I: rapid.Int64Range(-5, 20).Draw(t, "stop")}, {K: "i", I: step}}
		}
		return v
	default: // typed-slice forms
		if rapid.Bool().Draw(t, "typed") {
			v := genTyped(t, 1)
			for v.K[0] == 'm' {
				v = genTyped(t, 1)
			}
			return litOnly(v)
		}
		return litOnly(genList(t, 1))
	}
}

func genHistW(t *rapid.T, f string) V {
	kind := "i"
	switch f {
	case "toFloat", "toFloatSlice":
		kind = "f"
	case "toString", "typeOf", "kindOf", "toChar", "toStringSlice":
		kind = "s"
	case "toBoolSlice":
		kind = "b"
	case "keys":
		kind = rapid.SampledFrom([]string{"i", "s", "f"}).Draw(t, "wk")
	}
	switch kind {
	case "f":
		return V{K: "f", FB: math.Float64bits(float64(rapid.Int64Range(-100, 1000).Draw(t, "wf")) / 4)}
	case "s":
		return V{K: "s", S: rapid.SampledFrom([]string{"w", "int64", "string", "", "zz", "9", "slice", "float64"}).Draw(t, "ws")}
	case "b":
		return V{K: "b", B: rapid.Bool().Draw(t, "wb")}
	}
	if f == "toRune" || f == "toByteSlice" || f == "toRuneSlice" {
		return V{K: "i", I: rapid.Int64Range(0, 127).Draw(t, "wi")}
	}
	return V{K: "i", I: rapid.SampledFrom([]int64{0, 1, 2, 3, 5, 9, 4095, 4096, -1, 77, 1000}).Draw(t, "wi")}
}

func genResHist(t *rapid.T) ResHist {
	n := rapid.SampledFrom([]int{1, 1, 2, 2, 3}).Draw(t, "nsteps")
	hst := ResHist{Later: rapid.IntRange(1, 2).Draw(t, "later")}
	for i := 0; i < n; i++ {
		f := rapid.SampledFrom(histBuiltins).Draw(t, "f")
		st := ResStep{F: f, A: genHistArg(t, f), W: genHistW(t, f)}
		st.Arg = rapid.SampledFrom([]string{"lit", "var"}).Draw(t, "arg")
		forms := []string{"direct", "direct", "direct", "paren", "ret", "tern", "bound"}
		if listResult(f) {
			forms = []string{"elem", "elem", "elem", "direct", "paren", "ret", "tern", "bound"}
		}
		st.Form = rapid.SampledFrom(forms).Draw(t, "form")
		st.Idx = rapid.IntRange(0, 40).Draw(t, "idx")
		st.Store = rapid.SampledFrom([]string{"deref", "deref", "poke"}).Draw(t, "store")
		hst.Steps = append(hst.Steps, st)
	}
	return hst
}

// ---------- oracle ----------

// Every failing history costs two fresh children. After histBudget failures that name a builtin, histories
// with a step calling that builtin are excluded unexecuted (counted); the other builtins are searched on.
const histBudget = 4

var (
	histMu    sync.Mutex
	histSpent = map[string]int{} // builtin (or "*" for failures that name none) -> failing histories
)

func histCharge(f *h.Fail) {
	parts := strings.SplitN(f.Sig, "|", 3)
	key := "*"
	if len(parts) > 1 && parts[1] != "result-history" {
		key = parts[1]
	}
	histMu.Lock()
	histSpent[key]++
	histMu.Unlock()
}

// histRef computes the Go answer of builtin f for the argument v: the call text for argument
// expression a, the answer, whether it is judged and whether it is a set.
func histRef(st ResStep, a string, o *h.Obs) (call string, want interface{}, judged, set bool, n int) {
	x := goValue(st.A)
	switch st.F {
	case "len":
		rv := reflect.ValueOf(x)
		switch rv.Kind() {
		case reflect.String, reflect.Slice, reflect.Map:
			return "len(" + a + ")", int64(rv.Len()), true, false, 0
		}
		return "", nil, false, false, 0
	case "typeOf", "kindOf":
		tn, kn := typeNames(x)
		if st.F == "kindOf" {
			tn = kn
		}
		return st.F + "(" + a + ")", tn, true, false, 0
	case "keys":
		rv := reflect.ValueOf(x)
		if rv.Kind() != reflect.Map {
			return "", nil, false, false, 0
		}
		ks := make([]interface{}, 0, rv.Len())
		for _, k := range rv.MapKeys() {
			ks = append(ks, k.Interface())
		}
		return "keys(" + a + ")", ks, true, true, len(ks)
	case "range":
		l, ok := x.([]interface{})
		if !ok || len(l) < 1 || len(l) > 3 {
			return "", nil, false, false, 0
		}
		var args []int64
		var parts []string
		for _, e := range l {
			i, ok := e.(int64)
			if !ok || i < -100 || i > 100 {
				return "", nil, false, false, 0
			}
			args = append(args, i)
			parts = append(parts, intLit(i))
		}
		start, stop, step := int64(0), args[0], int64(1)
		if len(args) >= 2 {
			start, stop = args[0], args[1]
		}
		if len(args) == 3 {
			step = args[2]
		}
		if step == 0 {
			return "", nil, false, false, 0
		}
		out := []int64{}
		for i := start; (step > 0 && i < stop) || (step < 0 && i > stop); i += step {
			out = append(out, i)
		}
		return "range(" + strings.Join(parts, ", ") + ")", out, true, false, len(out)
	}
	// the conversion builtins: the reference of the conv sub-check
	_, r, mask := convExpect(ConvCase{F: st.F, A: Arg{V: st.A, Prov: "lit"}}, newScript(), o)
	if !r.judge {
		return st.F + "(" + a + ")", nil, false, false, 0
	}
	for _, m := range mask {
		if !m {
			return st.F + "(" + a + ")", nil, false, false, 0
		}
	}
	if listResult(st.F) {
		n = reflect.ValueOf(r.want).Len()
	}
	return st.F + "(" + a + ")", r.want, true, false, n
}

func histOracle(c ResHist, o *h.Obs) *h.Fail {
	if len(c.Steps) == 0 || len(c.Steps) > 6 || c.Later < 0 || c.Later > 4 {
		o.Excluded = "malformed_case"
		return nil
	}
	type evalT struct {
		call   string
		want   string
		judged bool
		set    bool
		f      string
	}
	if !replaying() {
		histMu.Lock()
		spent := ""
		if histSpent["*"] >= 2*histBudget {
			spent = "any"
		}
		for _, st := range c.Steps {
			if histSpent[st.F] >= histBudget {
				spent = st.F
			}
		}
		histMu.Unlock()
		if spent != "" {
			o.Excluded = "result_history_failures_already_reported(" + spent + ")"
			return nil
		}
	}
	var first, later strings.Builder
	var evals []evalT
	first.WriteString("errs = 0\n")
	for i, st := range c.Steps {
		if !hasLit(st.A) || !hasLit(st.W) {
			o.Excluded = "malformed_case"
			return nil
		}
		a := lit(st.A)
		if st.F == "range" {
			a = ""
		} else if st.Arg == "var" {
			fmt.Fprintf(&first, "a%d = %s\n", i, a)
			fmt.Fprintf(&later, "a%d = %s\n", i, a)
			a = fmt.Sprintf("a%d", i)
		}
		call, want, judged, set, n := histRef(st, a, o)
		if call == "" {
			o.Excluded = "malformed_case"
			return nil
		}
		w := st.W
		if judged && !listResult(st.F) && fmt.Sprint(goValue(w)) == fmt.Sprint(want) {
			// what is stored differs from the answer
			switch w.K {
			case "i":
				w.I++
			case "f":
				w = V{K: "f", FB: math.Float64bits(w.f() + 1)}
			case "s":
				w.S += "!"
			case "b":
				w.B = !w.B
			}
		}
		form := st.Form
		if form == "elem" && (!listResult(st.F) || n == 0) {
			form = "direct"
		}
		var target string
		wl := lit(w)
		switch form {
		case "direct":
			target = "&" + call
		case "paren":
			target = "&(" + call + ")"
		case "ret":
			fmt.Fprintf(&first, "func g%d() { return %s }\n", i, call)
			target = fmt.Sprintf("&g%d()", i)
		case "tern":
			target = "&(true ? " + call + " : nil)"
		case "elem":
			target = fmt.Sprintf("&%s[%d]", call, st.Idx%n)
		case "bound":
			fmt.Fprintf(&first, "b%d = %s\n", i, call)
			target = fmt.Sprintf("&b%d", i)
		default:
			o.Excluded = "malformed_case"
			return nil
		}
		if listResult(st.F) && form != "elem" {
			wl = "[" + wl + "]"
		}
		store := fmt.Sprintf("*p%d = %s", i, wl)
		switch st.Store {
		case "deref":
		case "poke":
			store = fmt.Sprintf("poke(p%d, %s)", i, wl)
		default:
			o.Excluded = "malformed_case"
			return nil
		}
		fmt.Fprintf(&first, "try {\n p%d = %s\n %s\n} catch e {\n errs += 1\n}\n", i, target, store)
		ws := ""
		if judged {
			ws = canon(want, set)
		}
		evals = append(evals, evalT{call: call, want: ws, judged: judged, set: set, f: st.F})

		o.Class("result_history:builtin=" + st.F)
		o.Class("result_history:address_of=" + form)
		o.Class("result_history:store=" + st.Store)
		o.Class("result_history:argument=" + st.Arg)
		if !judged {
			o.Class("result_history:answer_not_judged(reference_undefined)")
		}
		if iv, ok := want.(int64); ok && judged {
			if iv >= -1 && iv <= 4095 {
				o.Class("result_history:answer_is_a_small_integer(-1..4095)")
			} else {
				o.Class("result_history:answer_is_a_large_integer")
			}
		}
		if st.F == "len" && st.A.K == "s" && utf8.RuneCountInString(st.A.S) != len(st.A.S) {
			o.Class("len:string_with_multibyte_runes")
		}
	}
	// the answers again: in the run of the writes ...
	calls := make([]string, len(evals))
	sortMask := []bool{false}
	for i, ev := range evals {
		calls[i] = ev.call
		sortMask = append(sortMask, ev.set)
	}
	first.WriteString("[errs, " + strings.Join(calls, ", ") + "]")
	// ... and in later runs, each in a fresh environment
	later.WriteString("[0, " + strings.Join(calls, ", ") + "]")
	req := histReq{Runs: []string{first.String()}, Sort: [][]bool{sortMask}}
	for i := 0; i < c.Later; i++ {
		req.Runs = append(req.Runs, later.String())
		req.Sort = append(req.Sort, sortMask)
	}
	src := strings.Join(req.Runs, "\n# ---- a later run, fresh environment ----\n")
	o.Key = src
	o.NonTrivial = true
	o.Class("result_history:steps=%d", len(c.Steps))
	o.Class("result_history:later_runs=%d", c.Later)

	judgeResp := func(resp *histResp) (*h.Fail, int) {
		if len(resp.Runs) != len(req.Runs) {
			return h.Failf("C19|result-history|harness-shape", "source:\n%s\nthe child answered %d of %d runs", src, len(resp.Runs), len(req.Runs)), 0
		}
		prepErrs := 0
		for ri, run := range resp.Runs {
			when := "same-run"
			if ri > 0 {
				when = "later-run"
			}
			if run.Panic != "" {
				return h.Failf("C19|result-history|host-panic|"+run.Panic, "source:\n%s\nescaped panic in run %d: %s", src, ri, run.Panic), 0
			}
			if run.HasErr {
				for _, ev := range evals {
					if !ev.judged {
						return nil, -1 // an answer outside the judged domain may be an error
					}
				}
				return h.Failf("C19|result-history|unexpected-error|"+when, "source:\n%s\nrun %d: every call has a valid argument, anko error: %s", src, ri, run.Err), 0
			}
			if run.Shape != "" || len(run.Vals) != len(evals)+1 {
				return h.Failf("C19|result-history|harness-shape", "source:\n%s\nrun %d: unexpected result %s %v", src, ri, run.Shape, run.Vals), 0
			}
			if ri == 0 && run.Vals[0] != "int64(0)" {
				prepErrs++
			}
			for i, ev := range evals {
				if ev.judged && run.Vals[i+1] != ev.want {
					also := ""
					for rj := ri + 1; rj < len(resp.Runs); rj++ {
						if lr := resp.Runs[rj]; len(lr.Vals) == len(evals)+1 && lr.Vals[i+1] != ev.want {
							also += fmt.Sprintf("\nrun %d (a later run of the process, fresh environment) answers %s too", rj, lr.Vals[i+1])
						}
					}
					return h.Failf("C19|"+ev.f+"|wrong-result-after-write-through-pointer-to-an-earlier-result|"+when,
						"source:\n%s\nrun %d, %s\nGo answer: %s\nanko:      %s%s\n(the address of an earlier result of the call was taken and another value stored through it)", src, ri, ev.call, ev.want, run.Vals[i+1], also), 0
				}
			}
		}
		return nil, prepErrs
	}

	call := func(fresh bool) (*histResp, string) {
		resp, st, _ := workerCall(wreq{Hist: &req}, hangBound, fresh)
		switch st {
		case callInfra:
			return nil, "worker_infrastructure"
		case callTimeout:
			return nil, "inconclusive_timeout"
		case callDied:
			return nil, "died"
		}
		if resp.Hist == nil {
			return nil, "worker_infrastructure"
		}
		return resp.Hist, ""
	}
	resp, why := call(false)
	if why == "died" {
		// a child that dies is a crash of the host: once more, alone in a fresh child
		resp, why = call(true)
		if why == "died" {
			stopWorker()
			df := h.Failf("C19|result-history|process-died", "source:\n%s\nthe process executing the history died twice", src)
			df.NoShrink = true
			histCharge(df)
			return df
		}
	}
	if why != "" {
		stopWorker()
		o.Excluded = why
		return nil
	}
	f, prep := judgeResp(resp)
	if f == nil {
		if prep < 0 {
			o.Excluded = "error_with_an_answer_outside_the_judged_domain"
			return nil
		}
		if prep > 0 {
			o.Class("result_history:a_step_of_the_history_failed(the_answers_are_judged_all_the_same)")
		}
		return nil
	}
	// the child may be poisoned now: it is discarded, and the history repeated alone in a fresh one
	resp2, why2 := call(true)
	stopWorker()
	if why2 != "" {
		o.Excluded = "not_reconfirmed:" + why2
		return nil
	}
	f2, _ := judgeResp(resp2)
	histCharge(f)
	if f2 == nil {
		nf := h.Failf("C19|result-history|wrong-result-only-after-earlier-histories-of-the-process", "%s\nnot reproduced by the same history alone in a fresh process: an earlier history of the process changed the answer", f.Msg)
		nf.NoShrink = true
		return nf
	}
	f2.NoShrink = true // every attempt of a shrink costs fresh processes; the message names the call that answered wrongly
	return f2
}
