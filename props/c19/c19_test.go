// C19 — core builtins and bundled package tables agree with their Go counterparts.
//
// Sub-checks (all differential against native Go):
//
//	range    int64 progressions of at most 1000 elements, executed in a sandbox child
//	keys     generated maps, set equality
//	len      Go len
//	typeof   typeOf / kindOf against reflect
//	conv     toInt toFloat toString toRune toChar toByteSlice toRuneSlice to{Int,Float,String,Bool}Slice
//	misuse   wrong argument count / type: an error, never a crash
//	tables   every entry of env.Packages / env.PackageTypes (exhaustive)
package c19

import (
	"os"
	"testing"

	"verif/internal/h"
)

func replaying() bool { return os.Getenv("VERIF_REPLAY") != "" }

func TestC19(t *testing.T) {
	c := h.New(t, "C19")
	defer c.Finish()
	c.Rule("builtins: calls of range (0-6 int64 arguments built so that the exact progression has <= 1000 elements, ends placed at and around the int64 limits, both step signs, step pointing away, zero step, wrong counts; a few float/string arguments judged only as error-or-list), keys, len, typeOf/kindOf and the toX family on values of the script universe (int64/float64/string edge pools, numeral and near-numeral strings, nil, bool, nested untyped and typed slices and maps) spelled as literal, script variable or host-defined variable, plus a pool of host-defined Go values (other numeric types, named types, arrays, pointers, channels, functions, nil containers, invalid UTF-8); expected results computed natively in Go; non-trivial = some argument outside {0,1,2,3,\"1\",\"a\"}; distinct by source text plus host definitions")
	c.Rule("tables: every (package, name) entry of env.Packages and env.PackageTypes of the tree under test, enumerated completely; each entry is one distinct non-trivial case (key = package.name)")

	runTables(c)
	h.Run(c, "range", c.N(15000, 60000), genRange, rangeOracle)
	c.Rule("range_history: 2-5 calls of range with bounds <= 70 (one- and three-argument forms); after each call its result is read element by element and then modified in place (element store, in-place append to a re-slice, store through a function parameter, store through a tail slice): every later call must still yield the progression; non-trivial = >= 2 calls and >= 1 modification")
	h.Run(c, "range_history", c.N(6000, 30000), genRangeHist, rangeHistOracle)
	h.Run(c, "keys", c.N(12000, 50000), genKeys, keysOracle)
	h.Run(c, "len", c.N(12000, 50000), genLen, lenOracle)
	h.Run(c, "typeof", c.N(12000, 50000), genType, typeOracle)
	h.Run(c, "conv", c.N(50000, 200000), genConv, convOracle)
	h.Run(c, "misuse", c.N(12000, 50000), genMisuse, misuseOracle)
}
