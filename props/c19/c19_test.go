// C19 — core builtins and bundled package tables agree with their Go counterparts.
//
// Sub-checks (all differential against native Go):
//
//	range    int64 progressions of at most 1000 elements, executed in a sandbox child
//	keys     generated maps, set equality
//	len      Go len
//	typeof   typeOf / kindOf against reflect
//	conv     toInt toFloat toString toRune toChar toByteSlice toRuneSlice to{Int,Float,String,Bool}Slice
//	misuse   wrong argument count / type: an error, never a crash
//	conv_overlap  the conversion builtins while other calls of them are in progress (other environments, shared environment, script goroutines)
//	tostring_fmt  toString of values whose default formatting goes through Format / Error / String methods
//	result_history  the builtins again after the address of an earlier result was taken and written through (in the sandbox child)
//	tables   every entry of env.Packages / env.PackageTypes (exhaustive)
package c19

import (
	"os"
	"testing"

	"verif/internal/h"
)

func replaying() bool { return os.Getenv("VERIF_REPLAY") != "" }

func TestC19(t *testing.T) {
	c := h.New(t, "C19")
	defer c.Finish()
	c.Rule("builtins: calls of range (0-6 int64 arguments built so that the exact progression has <= 1000 elements, ends placed at and around the int64 limits, both step signs, step pointing away, zero step, wrong counts; a few float/string arguments judged only as error-or-list), keys, len, typeOf/kindOf and the toX family on values of the script universe (int64/float64/string edge pools, numeral and near-numeral strings, nil, bool, nested untyped and typed slices and maps) spelled as literal, script variable or host-defined variable, plus a pool of host-defined Go values (other numeric types, named types, arrays, pointers, channels, functions, nil containers, invalid UTF-8); expected results computed natively in Go; non-trivial = some argument outside {0,1,2,3,\"1\",\"a\"}; distinct by source text plus host definitions")
	c.Rule("tables: every (package, name) entry of env.Packages and env.PackageTypes of the tree under test, enumerated completely; each entry is one distinct non-trivial case (key = package.name)")

	runTables(c)
	h.Run(c, "range", c.N(15000, 60000), genRange, rangeOracle)
	c.Rule("range_history: 2-5 calls of range with bounds <= 70 (one- and three-argument forms); after each call its result is read element by element and then modified in place (element store, in-place append to a re-slice, store through a function parameter, store through a tail slice): every later call must still yield the progression; non-trivial = >= 2 calls and >= 1 modification")
	h.Run(c, "range_history", c.N(6000, 30000), genRangeHist, rangeHistOracle)
	h.Run(c, "keys", c.N(12000, 50000), genKeys, keysOracle)
	h.Run(c, "len", c.N(12000, 50000), genLen, lenOracle)
	h.Run(c, "typeof", c.N(12000, 50000), genType, typeOracle)
	h.Run(c, "conv", c.N(50000, 200000), genConv, convOracle)
	c.Rule("misuse, mode rangetype (1 in 8): range with 1-3 arguments (plain or as a spread list literal) of which at least one - at any position - is a string, a bool, a list, a map or a typed slice, the others integers in -5..20; every argument is spelled as literal, variable, host-defined variable, element, map entry or result of a script function: an error is required")
	h.Run(c, "misuse", c.N(12000, 50000), genMisuse, misuseOracle)
	c.Rule("conv_overlap: 2-6 calls of conversion builtins (in half of the cases all of one typed-slice form, else typed-slice forms mixed or any builtin of the family; typed-slice arguments are untyped lists of 1-200 elements), each with an argument of its own, made alone and then repeated 2-32 times at the same time - in environments of their own, in one shared environment, or as script goroutines of one script; every result is judged against the Go reference of its own argument; non-trivial = some argument outside the small-literal set")
	h.Run(c, "conv_overlap", c.N(500, 4000), genOverlap, func(tc OverlapCase, o *h.Obs) *h.Fail {
		return overlapOracle(tc, o, c.InReplay()) // a replayed case (--replay, regression replays) is repeated more often
	})
	c.Rule("tostring_fmt: toString of a value whose default formatting is decided by methods - host-bound values of struct, pointer, integer, float, string, byte-slice, slice and map kinds implementing fmt.Formatter, error, fmt.Stringer, fmt.GoStringer and combinations (value and pointer receivers, nil receivers, panicking methods, embedding), bundled types bound by the host (*big.Float/*big.Int/*big.Rat, time, net), and values the script makes through bundled constructors (math/big NewFloat/NewInt/NewRat/ParseFloat and Quo/Mul/Add/SetPrec of their results, errors.New, toDuration, time, net, net/url, regexp, os, bytes); the value reaches toString as variable, directly, through a list element, a map entry or a function result, or (1 in 8) as an element of a list or map argument; expected: fmt.Sprint of the very value; non-trivial = the value has at least one formatting method")
	h.Run(c, "tostring_fmt", c.N(8000, 40000), genFmt, fmtOracle)
	c.Rule("result_history: 1-3 steps, each taking the address of the result of a builtin call (len, toInt, toFloat, toString, toRune, toChar, typeOf, kindOf, keys, range, the typed-slice and byte/rune slice forms; valid arguments, lengths and integers mostly in the cached small range) directly - &f(a), &(f(a)), &g() of a script function returning it, &(true ? f(a) : nil), &f(a)[i] for list results; control: bound to a name first - and storing another value of the same kind through the pointer (*p = w, or a host function writing through it); then every call is evaluated again in the same run and in 1-2 later runs of the same process in fresh environments: every answer is the Go answer. Executed in the sandbox child, never in the test process; a child in which a history failed is discarded and the history repeated alone in a fresh one")
	h.Run(c, "result_history", c.N(4000, 20000), genResHist, histOracle)
}
