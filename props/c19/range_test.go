package c19

import (
	"fmt"
	"math"
	"math/big"
	"strings"
	"sync"

	"pgregory.net/rapid"

	"verif/internal/h"
	"verif/internal/vals"
)

// RangeCase is one range call. Args are int64; Weird (when set) replaces the
// argument list by raw source texts of other kinds (only "error or list, never
// a crash or hang" is asserted for those).
type RangeCase struct {
	Args  []int64  `json:"args"`
	Form  string   `json:"form"` // lit | var
	Weird []string `json:"weird,omitempty"`
}

var (
	bigMax = big.NewInt(math.MaxInt64)
	bigMin = big.NewInt(math.MinInt64)
)

func clampBig(b *big.Int) int64 {
	if b.Cmp(bigMax) > 0 {
		return math.MaxInt64
	}
	if b.Cmp(bigMin) < 0 {
		return math.MinInt64
	}
	return b.Int64()
}

func genStep(t *rapid.T) int64 {
	switch rapid.IntRange(0, 19).Draw(t, "stepk") {
	case 0:
		return 0
	case 1, 2, 3:
		return 1
	case 4, 5:
		return -1
	case 6, 7, 8:
		s := rapid.Int64Range(2, 10).Draw(t, "small")
		if rapid.Bool().Draw(t, "neg") {
			s = -s
		}
		return s
	case 9, 10:
		s := rapid.Int64Range(11, 1000000).Draw(t, "medium")
		if rapid.Bool().Draw(t, "neg") {
			s = -s
		}
		return s
	case 11, 12, 13:
		sh := rapid.IntRange(1, 62).Draw(t, "sh")
		s := int64(1)<<uint(sh) + rapid.Int64Range(-2, 2).Draw(t, "d")
		if rapid.Bool().Draw(t, "neg") {
			s = -s
		}
		if s == 0 {
			s = 3
		}
		return s
	case 14, 15:
		return rapid.SampledFrom([]int64{math.MaxInt64, math.MinInt64, math.MaxInt64 - 1, math.MinInt64 + 1, math.MaxInt64 / 2, math.MinInt64 / 2, math.MaxInt64/2 + 1, math.MinInt64/2 - 1, math.MaxInt64 / 3, math.MinInt64 / 3}).Draw(t, "huge")
	default:
		s := vals.Int().Draw(t, "any")
		if s == 0 {
			s = -7
		}
		return s
	}
}

func genCount(t *rapid.T) int64 {
	switch rapid.IntRange(0, 10).Draw(t, "cntk") {
	case 10:
		return 0
	case 1, 2:
		return rapid.Int64Range(1, 3).Draw(t, "tiny")
	case 0, 3, 4, 5:
		return rapid.Int64Range(4, 40).Draw(t, "few")
	case 6:
		return rapid.SampledFrom([]int64{999, 1000, 500}).Draw(t, "edge")
	default:
		return rapid.Int64Range(0, 1000).Draw(t, "any")
	}
}

// genStart picks a start so that - for the wanted count n and step - the
// progression lies where the interesting end conditions are.
func genStart(t *rapid.T, step, n int64) int64 {
	span := new(big.Int).Mul(big.NewInt(step), big.NewInt(n)) // distance covered
	near := rapid.Int64Range(0, 12).Draw(t, "slack")
	if rapid.IntRange(0, 3).Draw(t, "slackk") == 0 {
		// slack of up to two steps
		a := new(big.Int).Abs(big.NewInt(step))
		a.Mul(a, big.NewInt(2))
		if a.IsInt64() && a.Int64() > 0 {
			near = rapid.Int64Range(0, a.Int64()).Draw(t, "slack2")
		}
	}
	switch rapid.IntRange(0, 13).Draw(t, "startk") {
	case 0, 1, 2, 3:
		// the n-th term would overshoot the limit by less than one step: the last
		// element lies within one step of MaxInt64 (MinInt64) and the term after it
		// does not fit into int64
		a := new(big.Int).Abs(big.NewInt(step))
		over := int64(0)
		if a.Cmp(big.NewInt(1)) > 0 {
			a.Sub(a, big.NewInt(1))
			over = rapid.Int64Range(1, clampBig(a)).Draw(t, "over")
			if rapid.IntRange(0, 2).Draw(t, "overk") == 0 {
				over = rapid.Int64Range(1, min64(clampBig(a), 9)).Draw(t, "oversmall")
			}
		}
		if n == 0 {
			over = 0
		}
		if step >= 0 {
			b := new(big.Int).Sub(bigMax, span)
			b.Add(b, big.NewInt(over))
			return clampBig(b)
		}
		b := new(big.Int).Sub(bigMin, span)
		b.Sub(b, big.NewInt(over))
		return clampBig(b)
	case 4, 5:
		// the progression ends `near` below MaxInt64 (step>0) / above MinInt64 (step<0)
		if step >= 0 {
			b := new(big.Int).Sub(bigMax, span)
			b.Sub(b, big.NewInt(near))
			return clampBig(b)
		}
		b := new(big.Int).Sub(bigMin, span)
		b.Add(b, big.NewInt(near))
		return clampBig(b)
	case 6:
		return math.MaxInt64 - near
	case 7:
		return math.MinInt64 + near
	case 8:
		// the progression starts at the far limit and moves inwards
		if step >= 0 {
			return math.MinInt64 + near
		}
		return math.MaxInt64 - near
	case 9, 10:
		return rapid.Int64Range(-5, 5).Draw(t, "zeroish")
	case 11:
		return rapid.Int64Range(-100000, 100000).Draw(t, "smallish")
	default:
		return vals.Int().Draw(t, "any")
	}
}

func min64(a, b int64) int64 {
	if a < b {
		return a
	}
	return b
}

var weirdArgs = []string{"1.5", "2.0", "7.9", "(-3.5)", "1e2", `"3"`, `"a"`, `""`, "nil", "true", "false", "[1]", "[]", "{}", `{"a": 1}`, "func(){}", "[]int64{1, 5}", `"5.5"`, "0.0", "4", "10", "(-2)", "1"}

func genRange(t *rapid.T) RangeCase {
	c := RangeCase{Form: rapid.SampledFrom([]string{"lit", "lit", "var"}).Draw(t, "form")}
	k := rapid.IntRange(0, 39).Draw(t, "argk")
	switch {
	case k == 37:
		return c // no argument
	case k >= 38:
		// too many arguments
		n := rapid.IntRange(4, 6).Draw(t, "n")
		for i := 0; i < n; i++ {
			c.Args = append(c.Args, rapid.Int64Range(-3, 20).Draw(t, "a"))
		}
		return c
	case k == 35 || k == 36:
		n := rapid.IntRange(1, 3).Draw(t, "n")
		for i := 0; i < n; i++ {
			c.Weird = append(c.Weird, rapid.SampledFrom(weirdArgs).Draw(t, "w"))
		}
		return c
	case k >= 31:
		// range(stop)
		c.Args = []int64{rapid.Int64Range(-5, 1000).Draw(t, "stop")}
		if rapid.IntRange(0, 9).Draw(t, "neg") == 0 {
			c.Args[0] = -vals.Int().Draw(t, "negstop")
			if c.Args[0] > 1000 {
				c.Args[0] = math.MinInt64
			}
		}
		return c
	}
	nargs := 3
	step := int64(1)
	if k >= 24 {
		nargs = 2
	} else {
		step = genStep(t)
	}
	n := genCount(t)
	eff := step
	if eff == 0 {
		eff = 1
	}
	start := genStart(t, eff, n)
	var stop int64
	switch rapid.IntRange(0, 9).Draw(t, "dir") {
	case 9:
		stop = start
	case 7, 8:
		// step points away from stop
		d := rapid.SampledFrom([]int64{1, 2, 1000, math.MaxInt64}).Draw(t, "away")
		b := big.NewInt(start)
		if eff > 0 {
			b.Sub(b, big.NewInt(d))
		} else {
			b.Add(b, big.NewInt(d))
		}
		stop = clampBig(b)
	default:
		// exactly n elements (before clamping): stop in (start+(n-1)*step, start+n*step]
		b := new(big.Int).Mul(big.NewInt(eff), big.NewInt(n))
		b.Add(b, big.NewInt(start))
		if n > 0 {
			abs := new(big.Int).Abs(big.NewInt(eff))
			var back int64
			switch rapid.IntRange(0, 3).Draw(t, "backk") {
			case 0:
				back = 0
			case 1:
				abs.Sub(abs, big.NewInt(1))
				back = clampBig(abs)
			default:
				abs.Sub(abs, big.NewInt(1))
				back = rapid.Int64Range(0, clampBig(abs)).Draw(t, "back")
			}
			if eff > 0 {
				b.Sub(b, big.NewInt(back))
			} else {
				b.Add(b, big.NewInt(back))
			}
		}
		stop = clampBig(b)
	}
	if nargs == 2 {
		c.Args = []int64{start, stop}
	} else {
		c.Args = []int64{start, stop, step}
	}
	return c
}

// refRange is the reference: the progression computed with unbounded integers.
// ok=false: the call must fail. long=true: more than limit elements.
func refRange(args []int64, limit int) (out []int64, wantErr bool, long bool) {
	var start, stop, step int64 = 0, 0, 1
	switch len(args) {
	case 1:
		stop = args[0]
	case 2:
		start, stop = args[0], args[1]
	case 3:
		start, stop, step = args[0], args[1], args[2]
		if step == 0 {
			return nil, true, false
		}
	default:
		return nil, true, false
	}
	out = []int64{}
	cur := big.NewInt(start)
	bstop := big.NewInt(stop)
	bstep := big.NewInt(step)
	for {
		c := cur.Cmp(bstop)
		if (step > 0 && c >= 0) || (step < 0 && c <= 0) {
			return out, false, false
		}
		if len(out) >= limit {
			return out, false, true
		}
		out = append(out, cur.Int64()) // cur is strictly between start and stop: fits
		cur.Add(cur, bstep)
	}
}

func rangeSource(c RangeCase) (string, map[string]int64) {
	if c.Weird != nil {
		return "range(" + strings.Join(c.Weird, ", ") + ")", nil
	}
	parts := make([]string, len(c.Args))
	var vars map[string]int64
	for i, a := range c.Args {
		if c.Form == "var" {
			if vars == nil {
				vars = map[string]int64{}
			}
			name := fmt.Sprintf("a%d", i)
			vars[name] = a
			parts[i] = name
		} else {
			parts[i] = vals.IntLit(a)
		}
	}
	return "range(" + strings.Join(parts, ", ") + ")", vars
}

// hang verdicts are deterministic per request; remember them so that shrinking
// does not pay the bound again and again.
var (
	hangMu    sync.Mutex
	hangCache = map[string]bool{}
	// number of confirmed hangs per call shape. Every hanging case costs up to the
	// full bound, so once a shape has produced hangBudget confirmed hangs in this
	// process (they are reported), further cases of that shape are excluded and
	// counted instead of executed; the search goes on in the other shapes.
	hangShapes = map[string]int{}
)

const hangBudget = 6

func rangeOracle(c RangeCase, o *h.Obs) *h.Fail {
	src, vars := rangeSource(c)
	key := src
	if vars != nil {
		key = fmt.Sprintf("%s # %v", src, c.Args)
	}
	o.Key = key
	o.Class("builtin:range")
	o.Class("range:argc=%d", len(c.Args)+len(c.Weird))

	var want []int64
	var wantErr bool
	weird := c.Weird != nil
	if weird {
		o.Class("range:non_int_argument")
		o.NonTrivial = true
	} else {
		var long bool
		want, wantErr, long = refRange(c.Args, 1000)
		if long {
			o.Excluded = "range_longer_than_1000"
			return nil
		}
		o.Class("range:form=" + c.Form)
		for _, a := range c.Args {
			if a < 0 || a > 3 {
				o.NonTrivial = true
			}
		}
		if len(c.Args) == 0 || len(c.Args) > 3 {
			o.NonTrivial = true
			o.Class("range:wrong_count")
		}
		if !wantErr {
			var start, stop, step int64 = 0, c.Args[0], 1
			if len(c.Args) >= 2 {
				start, stop = c.Args[0], c.Args[1]
			}
			if len(c.Args) == 3 {
				step = c.Args[2]
			}
			if step > 0 {
				o.Class("range:step>0")
			} else {
				o.Class("range:step<0")
			}
			if step != 1 && step != -1 {
				o.Class("range:|step|>1")
			}
			switch n := len(want); {
			case n == 0:
				o.Class("range:len=0")
				if (step > 0 && stop < start) || (step < 0 && stop > start) {
					o.Class("range:empty_step_points_away")
				} else if start == stop {
					o.Class("range:empty_start==stop")
				}
			case n == 1:
				o.Class("range:len=1")
			case n <= 10:
				o.Class("range:len=2..10")
			case n <= 100:
				o.Class("range:len=11..100")
			default:
				o.Class("range:len=101..1000")
			}
			if len(want) > 0 {
				last := big.NewInt(want[len(want)-1])
				next := new(big.Int).Add(last, big.NewInt(step))
				if !next.IsInt64() {
					o.Class("range:next_term_overflows_int64")
				}
				if next.Cmp(big.NewInt(stop)) == 0 {
					o.Class("range:stop_is_a_term")
				}
				if want[len(want)-1] > math.MaxInt64-2000 || want[0] > math.MaxInt64-2000 {
					o.Class("range:within_2000_of_MaxInt64")
				}
				if want[len(want)-1] < math.MinInt64+2000 || want[0] < math.MinInt64+2000 {
					o.Class("range:within_2000_of_MinInt64")
				}
			}
		} else if len(c.Args) == 3 {
			o.Class("range:zero_step")
		}
	}

	shape := fmt.Sprintf("argc=%d", len(c.Args)+len(c.Weird))
	if !weird && !wantErr {
		sign := "+"
		if len(c.Args) == 3 && c.Args[2] < 0 {
			sign = "-"
		}
		over := false
		if len(want) > 0 && len(c.Args) == 3 {
			over = !new(big.Int).Add(big.NewInt(want[len(want)-1]), big.NewInt(c.Args[2])).IsInt64()
		}
		shape += fmt.Sprintf(",step%s,next_term_overflows=%v,empty=%v", sign, over, len(want) == 0)
	}
	req := wreq{Src: src, Vars: vars}
	hangMu.Lock()
	known := hangCache[key]
	spent := hangShapes[shape] >= hangBudget
	hangMu.Unlock()
	if spent && !known {
		o.Classes = nil
		o.Excluded = "range_shape_already_reported_hanging(" + shape + ")"
		return nil
	}
	hangFail := func() *h.Fail {
		return h.Failf("C19|range|hang", "source: %s   (args %v)\nthe call did not return: no answer within %v, or the live heap grew beyond 128 MiB, although the progression has at most 1000 elements (re-confirmed in a fresh process)", src, c.Args, hangBound)
	}
	if known {
		return hangFail()
	}
	resp, st, msg := workerCall(req, hangBound, false)
	if st == callInfra {
		o.Excluded = "worker_infrastructure"
		return nil
	}
	if st == callTimeout || st == callDied || resp.Runaway || resp.Ctx {
		// re-confirm once, alone in a fresh child
		resp2, st2, msg2 := workerCall(req, reconfirmBound, true)
		switch {
		case st2 == callInfra:
			o.Excluded = "worker_infrastructure"
			return nil
		case st2 == callTimeout || resp2.Runaway || (st2 == callOK && resp2.Ctx):
			hangMu.Lock()
			hangCache[key] = true
			hangShapes[shape]++
			hangMu.Unlock()
			return hangFail()
		case st2 == callDied:
			return h.Failf("C19|range|process-died", "source: %s   (args %v)\nthe process executing the call died twice: %s / %s", src, c.Args, firstLine(msg), firstLine(msg2))
		}
		// answered normally the second time: the first bound was hit by load, not by the call
		o.Class("range:slow_first_attempt_reconfirmed_ok")
		resp = resp2
	}
	if resp.Panic != "" {
		return h.Failf("C19|range|host-panic|"+resp.Panic, "source: %s   (args %v)\nescaped panic: %s", src, c.Args, resp.Panic)
	}
	if weird {
		if resp.HasErr {
			o.Class("range:non_int_argument->error")
			return nil
		}
		if !resp.IsList {
			return h.Failf("C19|range|non-int-argument|neither-error-nor-list", "source: %s\nresult is neither an error nor a []int64: %s", src, resp.Typ)
		}
		o.Class("range:non_int_argument->list")
		return nil
	}
	argc := fmt.Sprintf("argc=%d", len(c.Args))
	if wantErr {
		o.Class("range:error_expected")
		if !resp.HasErr {
			why := "wrong-count"
			if len(c.Args) == 3 {
				why = "zero-step"
			}
			return h.Failf("C19|range|missing-error|"+why, "source: %s   (args %v)\nexpected an error, got %s of length %d: %v", src, c.Args, resp.Typ, resp.Len, resp.Val)
		}
		return nil
	}
	if resp.HasErr {
		return h.Failf("C19|range|unexpected-error|"+argc, "source: %s   (args %v)\nreference: %v\nanko error: %s", src, c.Args, want, resp.Err)
	}
	if !resp.IsList {
		return h.Failf("C19|range|wrong-type|"+argc, "source: %s   (args %v)\nexpected []int64, got %s", src, c.Args, resp.Typ)
	}
	if resp.Len != len(want) {
		kind := "too-long"
		if resp.Len < len(want) {
			kind = "too-short"
		}
		return h.Failf("C19|range|wrong-length|"+kind+"|"+argc, "source: %s   (args %v)\nreference (%d elements): %v\nanko (%d elements): %v", src, c.Args, len(want), tail(want), resp.Len, tail(resp.Val))
	}
	for i := range want {
		if resp.Val[i] != want[i] {
			return h.Failf("C19|range|wrong-element|"+argc, "source: %s   (args %v)\nelement %d: reference %d, anko %d", src, c.Args, i, want[i], resp.Val[i])
		}
	}
	return nil
}

func tail(a []int64) string {
	if len(a) <= 8 {
		return fmt.Sprint(a)
	}
	return fmt.Sprintf("[%d %d %d ... %d %d %d]", a[0], a[1], a[2], a[len(a)-3], a[len(a)-2], a[len(a)-1])
}

func firstLine(s string) string {
	if i := strings.IndexByte(s, '\n'); i >= 0 {
		s = s[:i]
	}
	if len(s) > 200 {
		s = s[:200]
	}
	return s
}
