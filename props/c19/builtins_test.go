package c19

// keys, len, typeOf/kindOf, the toX family and misuse of the builtins:
// differential against native Go.

import (
	"errors"
	"fmt"
	"math"
	"reflect"
	"regexp"
	"runtime"
	"strconv"
	"strings"
	"time"
	"unicode/utf8"

	"pgregory.net/rapid"

	"verif/internal/ank"
	"verif/internal/h"
	"verif/internal/vals"
)

func fmtFloat(f float64, fm byte, prec int) string { return strconv.FormatFloat(f, fm, prec, 64) }

func hostPanic(prop string, src string, err error) *h.Fail {
	if hp, ok := ank.IsHostPanic(err); ok {
		return h.Failf("C19|"+prop+"|host-panic|"+ank.NormPanic(hp.Value), "source:\n%s\nescaped panic: %v", src, hp.Value)
	}
	return nil
}

func classesFor(o *h.Obs, f string, a Arg) {
	o.Class("builtin:" + f)
	o.Class("argkind:" + kindLabel(a.V))
	o.Class("prov:" + a.Prov)
	if !smallLiteral(a.V) {
		o.NonTrivial = true
	}
}

// ---------------------------------------------------------------- keys

type KeysCase struct {
	M Arg `json:"m"`
}

var goMapNames = []string{"mapint", "mapbool", "mapfloat", "maparr", "mapmystr", "mymap", "mapmap", "nilmap", "nilimap", "mapnan", "mapinan"}

func genKeys(t *rapid.T) KeysCase {
	var v V
	switch rapid.IntRange(0, 9).Draw(t, "mk") {
	case 0, 1, 2, 3:
		v = genMap(t, 2)
		if rapid.IntRange(0, 3).Draw(t, "big") == 0 {
			// a larger map with distinct integer keys
			n := rapid.IntRange(6, 40).Draw(t, "n")
			base := vals.Int().Draw(t, "base")
			for i := 0; i < n; i++ {
				v.KS = append(v.KS, V{K: "i", I: base + int64(i)*rapid.Int64Range(1, 3).Draw(t, "gap")})
				v.E = append(v.E, V{K: "i", I: int64(i)})
			}
		}
	case 4, 5, 6, 7:
		v = genTyped(t, 1)
		for v.K[0] != 'm' {
			v = V{K: rapid.SampledFrom([]string{"msi", "mis", "msx"}).Draw(t, "tk")}
			n := rapid.IntRange(0, 6).Draw(t, "n")
			for i := 0; i < n; i++ {
				switch v.K {
				case "msi":
					v.KS = append(v.KS, V{K: "s", S: vals.Str().Draw(t, "k")})
					v.E = append(v.E, V{K: "i", I: vals.Int().Draw(t, "i")})
				case "mis":
					v.KS = append(v.KS, V{K: "i", I: vals.Int().Draw(t, "k")})
					v.E = append(v.E, V{K: "s", S: vals.Str().Draw(t, "s")})
				default:
					v.KS = append(v.KS, V{K: "s", S: vals.Str().Draw(t, "k")})
					v.E = append(v.E, genScalar(t))
				}
			}
		}
	default:
		v = genGo(t, goMapNames)
	}
	return KeysCase{M: Arg{V: v, Prov: genProv(t, v)}}
}

func keysOracle(c KeysCase, o *h.Obs) *h.Fail {
	s := newScript()
	expr := "keys(" + s.argExpr(c.M) + ")"
	src := s.src(expr)
	o.Key = s.key(src)
	classesFor(o, "keys", c.M)
	o.NonTrivial = true

	m := reflect.ValueOf(goValue(c.M.V))
	var want []string
	for _, k := range m.MapKeys() {
		want = append(want, ank.Describe(k.Interface()))
	}
	want = sortedStrings(want)
	switch n := len(want); {
	case n == 0:
		o.Class("keys:empty")
	case n <= 3:
		o.Class("keys:1..3")
	default:
		o.Class("keys:>3")
	}
	if len(c.M.V.KS) > m.Len() {
		o.Class("keys:duplicate_key_in_literal")
	}

	got, err := s.run(src)
	if f := hostPanic("keys", src, err); f != nil {
		return f
	}
	if err != nil {
		return h.Failf("C19|keys|unexpected-error|"+kindLabel(c.M.V), "source:\n%s\nanko error: %v\nexpected keys: %v", o.Key, err, want)
	}
	l, ok := got.([]interface{})
	if !ok {
		return h.Failf("C19|keys|wrong-type", "source:\n%s\nexpected []interface{}, got %s", o.Key, ank.Describe(got))
	}
	var have []string
	for _, k := range l {
		have = append(have, ank.Describe(k))
	}
	have = sortedStrings(have)
	if len(have) != len(want) {
		kind := "too-many"
		if len(have) < len(want) {
			kind = "too-few"
		}
		return h.Failf("C19|keys|wrong-count|"+kind, "source:\n%s\nGo map keys (%d): %v\nanko keys (%d): %v", o.Key, len(want), want, len(have), have)
	}
	for i := range want {
		if want[i] != have[i] {
			return h.Failf("C19|keys|wrong-key-set", "source:\n%s\nGo map keys: %v\nanko keys: %v", o.Key, want, have)
		}
	}
	return nil
}

// ---------------------------------------------------------------- len

type LenCase struct {
	A Arg `json:"a"`
}

var goLenNames = []string{"bytes", "runes", "arr3", "arr0", "nilslice", "niltyped", "nilmap", "nilimap", "nilchan", "chan", "nested", "mapmap", "badutf8", "myslice", "mymap", "mystr", "mapint", "maparr", "strs3"}

func genLen(t *rapid.T) LenCase {
	var v V
	switch rapid.IntRange(0, 11).Draw(t, "lk") {
	case 0, 1, 2:
		v = V{K: "s", S: genStr(t)}
		if rapid.IntRange(0, 4).Draw(t, "long") == 0 {
			v.S = strings.Repeat(v.S+"é", rapid.IntRange(2, 300).Draw(t, "rep"))
		}
	case 3, 4:
		v = genList(t, 2)
		if rapid.IntRange(0, 3).Draw(t, "long") == 0 {
			n := rapid.IntRange(6, 300).Draw(t, "n")
			for i := 0; i < n; i++ {
				v.E = append(v.E, V{K: "i", I: int64(i)})
			}
		}
	case 5:
		v = genMap(t, 2)
	case 6, 7:
		v = genTyped(t, 1)
	case 8, 9:
		v = genGo(t, goLenNames)
	default:
		// not a container: an error is expected
		v = genValue(t, 0, true)
	}
	return LenCase{A: Arg{V: v, Prov: genProv(t, v)}}
}

func lenOracle(c LenCase, o *h.Obs) *h.Fail {
	s := newScript()
	expr := "len(" + s.argExpr(c.A) + ")"
	src := s.src(expr)
	o.Key = s.key(src)
	classesFor(o, "len", c.A)

	rv := reflect.ValueOf(goValue(c.A.V))
	wantErr := true
	var want int64
	if rv.IsValid() {
		switch rv.Kind() {
		case reflect.String, reflect.Slice, reflect.Array, reflect.Map, reflect.Chan:
			wantErr = false
			want = int64(rv.Len())
		}
	}
	got, err := s.run(src)
	if f := hostPanic("len", src, err); f != nil {
		return f
	}
	if wantErr {
		o.Class("len:not_a_container->error_expected")
		if err == nil {
			return h.Failf("C19|len|missing-error|"+kindLabel(c.A.V), "source:\n%s\nGo has no len for this value; anko returned %s", o.Key, ank.Describe(got))
		}
		return nil
	}
	switch {
	case want == 0:
		o.Class("len:0")
	case want <= 3:
		o.Class("len:1..3")
	default:
		o.Class("len:>3")
	}
	if rv.Kind() == reflect.String && utf8.RuneCountInString(rv.String()) != rv.Len() {
		o.Class("len:string_with_multibyte_runes")
	}
	if err != nil {
		return h.Failf("C19|len|unexpected-error|"+kindLabel(c.A.V), "source:\n%s\nGo len: %d\nanko error: %v", o.Key, want, err)
	}
	if g, ok := got.(int64); !ok || g != want {
		return h.Failf("C19|len|wrong-result|"+rv.Kind().String(), "source:\n%s\nGo len: %d\nanko: %s", o.Key, want, ank.Describe(got))
	}
	return nil
}

// ---------------------------------------------------------------- typeOf / kindOf

type TypeCase struct {
	A    Arg    `json:"a"`
	Expr string `json:"expr,omitempty"` // script expression building the value (replaces A)
}

var typeExprs = []string{
	`func(){}`, `func(a){ return a }`, `func(a, b, c, d, e){ }`, `func(a...){ }`,
	`make(chan int64)`, `make(chan string, 2)`, `make(chan bool, 1)`, `make(chan interface)`,
	`new(int64)`, `new(string)`, `new([]string)`, `new(struct{A int64})`, `make(*int64)`,
	`make(struct{A int64, B string})`, `make(struct{A []string})`,
	`make([]int32, 2)`, `make([]interface, 1)`, `make(map[string]bool)`, `make([][]float64)`, `make(map[int64][]string)`,
	`make(int32)`, `make(uint64)`, `make(uint32)`, `make(float32)`, `make(byte)`, `make(rune)`, `make(int)`, `make(uint)`, `make(bool)`, `make(string)`,
	`import("strings")`, `import("time").Second`, `import("time").Now()`, `import("os").Stdout`, `import("strings").ToLower`,
	`import("errors").New("x")`, `import("math/big").NewInt(5)`,
	`toDuration(5)`, `toByteSlice("a")`, `toRuneSlice("a")`, `toRune("a")`, `1 == 1`, `"ab"[0]`, `[1,2][0]`, `keys({})`, `range(2)`,
	`1 / 2`, `1 + 1.5`, `"a" + 1`, `[]int64{1}[0:1]`, `typeOf`, `typeOf(1)`, `nil`, `[][]int64{[]int64{1}}`,
}

func genType(t *rapid.T) TypeCase {
	switch rapid.IntRange(0, 9).Draw(t, "tk") {
	case 0, 1:
		return TypeCase{Expr: rapid.SampledFrom(typeExprs).Draw(t, "expr")}
	case 2, 3, 4:
		v := genGo(t, goNames)
		return TypeCase{A: Arg{V: v, Prov: "go"}}
	default:
		v := genValue(t, 2, false)
		return TypeCase{A: Arg{V: v, Prov: genProv(t, v)}}
	}
}

func typeNames(x interface{}) (string, string) {
	t := reflect.TypeOf(x)
	if t == nil {
		return "nil", "nil"
	}
	return t.String(), t.Kind().String()
}

func typeOracle(c TypeCase, o *h.Obs) *h.Fail {
	s := newScript()
	o.Class("builtin:typeOf")
	o.Class("builtin:kindOf")
	var src string
	var wantT, wantK string
	if c.Expr != "" {
		src = "x = " + c.Expr + "\n[typeOf(x), kindOf(x), x]"
		o.Key = src
		o.NonTrivial = true
		o.Class("argkind:script_expression")
		o.Class("prov:expr")
	} else {
		a := s.argExpr(c.A)
		src = s.src("[typeOf(" + a + "), kindOf(" + a + ")]")
		o.Key = s.key(src)
		classesFor(o, "typeOf", c.A)
		wantT, wantK = typeNames(goValue(c.A.V))
	}
	got, err := s.run(src)
	if f := hostPanic("typeOf", src, err); f != nil {
		return f
	}
	if err != nil {
		return h.Failf("C19|typeOf|unexpected-error", "source:\n%s\nanko error: %v", o.Key, err)
	}
	l, ok := got.([]interface{})
	if !ok || len(l) < 2 {
		return h.Failf("C19|typeOf|harness-shape", "source:\n%s\nunexpected result %s", o.Key, ank.Describe(got))
	}
	if c.Expr != "" {
		wantT, wantK = typeNames(l[2])
	}
	if wantT != wantK {
		o.Class("typeOf:type_name_differs_from_kind_name")
	}
	if gt, ok := l[0].(string); !ok || gt != wantT {
		return h.Failf("C19|typeOf|wrong-type-name|kind="+wantK, "source:\n%s\nreflect.TypeOf(v).String() = %q\ntypeOf(v) = %s", o.Key, wantT, ank.Describe(l[0]))
	}
	if gk, ok := l[1].(string); !ok || gk != wantK {
		return h.Failf("C19|kindOf|wrong-kind-name|kind="+wantK, "source:\n%s\nreflect.TypeOf(v).Kind().String() = %q\nkindOf(v) = %s", o.Key, wantK, ank.Describe(l[1]))
	}
	return nil
}

// ---------------------------------------------------------------- toX

type ConvCase struct {
	F string `json:"f"`
	A Arg    `json:"a"`
}

var convFuncs = []string{"toInt", "toInt", "toInt", "toFloat", "toFloat", "toString", "toString", "toRune", "toChar", "toByteSlice", "toRuneSlice", "toIntSlice", "toFloatSlice", "toStringSlice", "toBoolSlice"}

// host-only values that a script can also obtain (numeric types of make(T),
// durations, byte and rune slices, arrays, pointers ...) - the conversion
// builtins are only judged on the kinds the statement names.
var convGoNames = []string{"int", "int8", "int16", "int32", "uint", "uint8", "uint16", "uint32", "uint64", "float32", "dur", "month", "bytes", "runes",
	"arr3", "nilslice", "niltyped", "nilmap", "nested", "mapmap", "badutf8", "struct", "pstruct", "pint", "nilptr", "chan", "func", "err", "time", "complex128", "myint", "myfloat"}

var codePoints = []int64{0, 1, 9, 10, 32, 65, 97, 127, 128, 233, 255, 0x7ff, 0x800, 0x3042, 0xd7ff, 0xd800, 0xdbff, 0xdfff, 0xe000, 0xfffd, 0xfffe, 0xffff, 0x10000, 0x1f600, 0x10ffff, 0x110000, -1, -65, math.MaxInt32, math.MinInt32, math.MaxInt32 + 1, math.MinInt32 - 1, 1<<32 + 65}

func genSliceArg(t *rapid.T) V {
	switch rapid.IntRange(0, 9).Draw(t, "slk") {
	case 0, 1, 2, 3:
		return genList(t, 2)
	case 4, 5:
		// list with host-only elements
		n := rapid.IntRange(0, 5).Draw(t, "n")
		v := V{K: "list"}
		for i := 0; i < n; i++ {
			if rapid.Bool().Draw(t, "goelem") {
				v.E = append(v.E, genGo(t, convGoNames))
			} else {
				v.E = append(v.E, genValue(t, 1, false))
			}
		}
		return v
	case 6, 7, 8:
		v := genTyped(t, 1)
		for v.K[0] == 'm' {
			v = genTyped(t, 1)
		}
		return v
	default:
		return genGo(t, []string{"nilslice", "niltyped", "nested", "bytes", "runes", "arr3", "myslice", "strs3"})
	}
}

func genConv(t *rapid.T) ConvCase {
	return genConvFor(t, rapid.SampledFrom(convFuncs).Draw(t, "f"))
}

// genConvFor draws an argument for the conversion builtin f.
func genConvFor(t *rapid.T, f string) ConvCase {
	var v V
	switch f {
	case "toRune", "toByteSlice", "toRuneSlice":
		if rapid.IntRange(0, 9).Draw(t, "bad") == 0 {
			v = V{K: "go", N: "badutf8", I: rapid.Int64Range(0, 20).Draw(t, "bi")}
		} else {
			v = V{K: "s", S: genStr(t)}
		}
	case "toChar":
		switch rapid.IntRange(0, 5).Draw(t, "ck") {
		case 0, 1, 2:
			v = V{K: "i", I: rapid.SampledFrom(codePoints).Draw(t, "cp") + rapid.Int64Range(-1, 1).Draw(t, "d")}
		case 3:
			v = V{K: "i", I: rapid.Int64Range(0, 0x10ffff).Draw(t, "cp")}
		case 4:
			v = V{K: "i", I: vals.Int().Draw(t, "i")}
		default:
			v = V{K: "go", N: rapid.SampledFrom([]string{"int", "int32", "uint8", "uint16", "uint32", "int16"}).Draw(t, "n"), I: rapid.SampledFrom(codePoints).Draw(t, "cp")}
		}
	case "toIntSlice", "toFloatSlice", "toStringSlice", "toBoolSlice":
		v = genSliceArg(t)
	default:
		switch rapid.IntRange(0, 9).Draw(t, "ak") {
		case 0, 1, 2, 3, 4, 5:
			v = genValue(t, 2, false)
		case 6:
			v = V{K: "s", S: genStr(t)}
		default:
			v = genGo(t, convGoNames)
		}
	}
	return ConvCase{F: f, A: Arg{V: v, Prov: genProv(t, v)}}
}

var decimalRe = regexp.MustCompile(`^[+-]?([0-9]+(\.[0-9]*)?|\.[0-9]+)([eE][+-]?[0-9]+)?$`)

const two63 = 9223372036854775808.0

// verdict of a reference computation
type ref struct {
	want  interface{}
	judge bool
	class string
}

func skip(class string) ref                 { return ref{judge: false, class: class} }
func judge(w interface{}, class string) ref { return ref{want: w, judge: true, class: class} }

func truncToInt(f float64) (int64, bool) {
	if math.IsNaN(f) || f >= two63 || f < -two63 {
		return 0, false
	}
	return int64(math.Trunc(f)), true
}

func refToInt(x interface{}) ref {
	rv := reflect.ValueOf(x)
	if !rv.IsValid() {
		return judge(int64(0), "nil->0")
	}
	switch rv.Kind() {
	case reflect.Int, reflect.Int8, reflect.Int16, reflect.Int32, reflect.Int64:
		return judge(rv.Int(), "integer")
	case reflect.Uint, reflect.Uint8, reflect.Uint16, reflect.Uint32, reflect.Uint64, reflect.Uintptr:
		return judge(int64(rv.Uint()), "unsigned")
	case reflect.Float32, reflect.Float64:
		i, ok := truncToInt(rv.Float())
		if !ok {
			return skip("float_outside_int64(implementation-defined)")
		}
		if rv.Float() != math.Trunc(rv.Float()) {
			return judge(i, "float_with_fraction")
		}
		return judge(i, "float_integral")
	case reflect.String:
		if rv.Type() != reflect.TypeOf("") {
			return skip("named_string_type")
		}
		s := rv.String()
		if i, err := strconv.ParseInt(s, 10, 64); err == nil {
			return judge(i, "string_int_numeral")
		}
		f, err := strconv.ParseFloat(s, 64)
		if err == nil {
			if !decimalRe.MatchString(s) {
				return skip("string_strconv_accepts_but_not_a_decimal_numeral")
			}
			i, ok := truncToInt(f)
			if !ok {
				return skip("string_numeral_outside_int64")
			}
			if f != math.Trunc(f) {
				return judge(i, "string_float_numeral_with_fraction")
			}
			return judge(i, "string_float_numeral_integral")
		}
		if errors.Is(err, strconv.ErrRange) {
			return skip("string_numeral_outside_float64")
		}
		return judge(int64(0), "string_non_numeric->0")
	case reflect.Slice, reflect.Array, reflect.Map:
		return judge(int64(0), "container->0")
	case reflect.Bool:
		return skip("bool(not_in_statement)")
	}
	return skip("kind_not_in_statement")
}

func refToFloat(x interface{}) ref {
	rv := reflect.ValueOf(x)
	if !rv.IsValid() {
		return judge(float64(0), "nil->0")
	}
	switch rv.Kind() {
	case reflect.Int, reflect.Int8, reflect.Int16, reflect.Int32, reflect.Int64:
		return judge(float64(rv.Int()), "integer")
	case reflect.Uint, reflect.Uint8, reflect.Uint16, reflect.Uint32, reflect.Uint64, reflect.Uintptr:
		return judge(float64(rv.Uint()), "unsigned")
	case reflect.Float32, reflect.Float64:
		return judge(rv.Float(), "float")
	case reflect.String:
		if rv.Type() != reflect.TypeOf("") {
			return skip("named_string_type")
		}
		s := rv.String()
		f, err := strconv.ParseFloat(s, 64)
		if err == nil {
			if !decimalRe.MatchString(s) {
				return skip("string_strconv_accepts_but_not_a_decimal_numeral")
			}
			return judge(f, "string_numeral")
		}
		if errors.Is(err, strconv.ErrRange) {
			return skip("string_numeral_outside_float64")
		}
		return judge(float64(0), "string_non_numeric->0")
	case reflect.Slice, reflect.Array, reflect.Map:
		return judge(float64(0), "container->0")
	case reflect.Bool:
		return skip("bool(not_in_statement)")
	}
	return skip("kind_not_in_statement")
}

func runeString(x int64) string {
	if x < 0 || x > utf8.MaxRune || (x >= 0xd800 && x <= 0xdfff) {
		return "�"
	}
	return string(rune(x))
}

// refElem converts one element to the target element type by Go's conversion
// rules; ok=false: the conversion result is implementation-defined (not compared).
func refElem(target string, x interface{}) (interface{}, bool) {
	rv := reflect.ValueOf(x)
	k := reflect.Invalid
	if rv.IsValid() {
		k = rv.Kind()
	}
	isInt := k >= reflect.Int && k <= reflect.Int64
	isUint := k >= reflect.Uint && k <= reflect.Uintptr
	isFloat := k == reflect.Float32 || k == reflect.Float64
	switch target {
	case "int":
		switch {
		case isInt:
			return rv.Int(), true
		case isUint:
			return int64(rv.Uint()), true
		case isFloat:
			i, ok := truncToInt(rv.Float())
			return i, ok
		}
		return int64(0), true
	case "float":
		switch {
		case isInt:
			return float64(rv.Int()), true
		case isUint:
			return float64(rv.Uint()), true
		case isFloat:
			return rv.Float(), true
		}
		return float64(0), true
	case "string":
		switch {
		case k == reflect.String:
			return rv.String(), true
		case isInt:
			return runeString(rv.Int()), true
		case isUint:
			u := rv.Uint()
			if u > utf8.MaxRune {
				return "�", true
			}
			return runeString(int64(u)), true
		case k == reflect.Slice && rv.Type() == reflect.TypeOf([]byte(nil)):
			return string(x.([]byte)), true
		case k == reflect.Slice && rv.Type() == reflect.TypeOf([]rune(nil)):
			return string(x.([]rune)), true
		}
		return "", true
	case "bool":
		if k == reflect.Bool {
			return rv.Bool(), true
		}
		return false, true
	}
	panic("refElem: " + target)
}

func convOracle(c ConvCase, o *h.Obs) *h.Fail {
	s := newScript()
	call, r, mask := convExpect(c, s, o)
	src := s.src(call)
	o.Key = s.key(src)
	classesFor(o, c.F, c.A)

	got, err := s.run(src)
	if f := hostPanic(c.F, src, err); f != nil {
		return f
	}
	o.Class("conv:%s:%s", c.F, r.class)
	if !r.judge {
		o.Class("conv:not_judged(no_crash_only)")
		return nil
	}
	return convJudge(c.F, "", o.Key, got, err, r, mask)
}

// convExpect binds the argument of the call in s (host definitions and preparatory
// statements on the way) and computes the Go reference for it: the text of the call
// expression, the verdict of the reference and - for the typed-slice forms - the
// elements that are compared.
func convExpect(c ConvCase, s *script, o *h.Obs) (string, ref, []bool) {
	a := s.argExpr(c.A)
	var x interface{}
	if strings.HasPrefix(c.A.Prov, "go") {
		x = s.hostValue(s.lastGo) // the very object the script sees (identity for pointers, channels)
	} else {
		x = goValue(c.A.V)
	}
	rv := reflect.ValueOf(x)

	var r ref
	var mask []bool // typed-slice forms: elements that are compared
	switch c.F {
	case "toInt":
		r = refToInt(x)
	case "toFloat":
		r = refToFloat(x)
	case "toString":
		if b, ok := x.([]byte); ok {
			r = judge(string(b), "[]byte->string(b)")
		} else {
			r = judge(fmt.Sprint(x), "fmt.Sprint")
		}
	case "toRune":
		str, ok := x.(string)
		switch {
		case !ok:
			r = skip("argument_not_a_string")
		case str == "":
			r = judge(rune(0), "empty_string->0")
		default:
			first := []rune(str)[0]
			cls := "first_rune_ascii"
			if first >= 0x80 {
				cls = "first_rune_multibyte"
			}
			if !utf8.ValidString(str) {
				cls = "invalid_utf8"
			}
			r = judge(first, cls)
		}
	case "toChar":
		switch {
		case !rv.IsValid() || rv.Kind() < reflect.Int || rv.Kind() > reflect.Uint64:
			r = skip("argument_not_an_integer")
		default:
			var n int64
			if rv.Kind() <= reflect.Int64 {
				n = rv.Int()
			} else if rv.Uint() > math.MaxInt32 {
				n = math.MaxInt64
			} else {
				n = int64(rv.Uint())
			}
			if n < math.MinInt32 || n > math.MaxInt32 {
				r = skip("integer_outside_rune_range")
			} else {
				cls := "valid_code_point"
				if runeString(n) == "�" && n != 0xfffd {
					cls = "invalid_code_point->U+FFFD"
				}
				r = judge(runeString(n), cls)
			}
		}
	case "toByteSlice":
		if str, ok := x.(string); ok {
			r = judge([]byte(str), "string")
		} else {
			r = skip("argument_not_a_string")
		}
	case "toRuneSlice":
		if str, ok := x.(string); ok {
			cls := "string"
			if !utf8.ValidString(str) {
				cls = "invalid_utf8"
			}
			r = judge([]rune(str), cls)
		} else {
			r = skip("argument_not_a_string")
		}
	case "toIntSlice", "toFloatSlice", "toStringSlice", "toBoolSlice":
		if !rv.IsValid() || (rv.Kind() != reflect.Slice && rv.Kind() != reflect.Array) {
			r = skip("argument_not_a_slice")
			break
		}
		target := map[string]string{"toIntSlice": "int", "toFloatSlice": "float", "toStringSlice": "string", "toBoolSlice": "bool"}[c.F]
		n := rv.Len()
		mask = make([]bool, n)
		var out reflect.Value
		switch target {
		case "int":
			out = reflect.ValueOf(make([]int64, n))
		case "float":
			out = reflect.ValueOf(make([]float64, n))
		case "string":
			out = reflect.ValueOf(make([]string, n))
		default:
			out = reflect.ValueOf(make([]bool, n))
		}
		conv, zero, undef := 0, 0, 0
		for i := 0; i < n; i++ {
			ev := rv.Index(i)
			var e interface{}
			if ev.Kind() == reflect.Interface {
				if !ev.IsNil() {
					e = ev.Elem().Interface()
				}
			} else {
				e = ev.Interface()
			}
			w, ok := refElem(target, e)
			mask[i] = ok
			if ok {
				out.Index(i).Set(reflect.ValueOf(w))
				if reflect.ValueOf(w).IsZero() {
					zero++
				} else {
					conv++
				}
			} else {
				undef++
			}
		}
		cls := "elements"
		if n == 0 {
			cls = "empty"
		}
		r = judge(out.Interface(), cls)
		if conv > 0 {
			o.Class("conv:%s:has_converted_element", c.F)
		}
		if zero > 0 {
			o.Class("conv:%s:has_zero_element", c.F)
		}
		if undef > 0 {
			o.Class("conv:%s:has_element_not_compared", c.F)
		}
	default:
		panic("convOracle: " + c.F)
	}
	return c.F + "(" + a + ")", r, mask
}

// convJudge compares the result of a judged conversion call with its reference. when
// ("" or a suffix such as "-while-other-calls-run") goes into the clause of the signature.
func convJudge(f, when, key string, got interface{}, err error, r ref, mask []bool) *h.Fail {
	if err != nil {
		return h.Failf("C19|"+f+"|unexpected-error"+when+"|"+r.class, "source:\n%s\nGo reference: %s\nanko error: %v", key, ank.Describe(r.want), err)
	}
	okRes := false
	if mask != nil {
		grv := reflect.ValueOf(got)
		wrv := reflect.ValueOf(r.want)
		if grv.IsValid() && grv.Type() == wrv.Type() && grv.Len() == wrv.Len() {
			okRes = true
			for i := range mask {
				if mask[i] && !sameRV(grv.Index(i), wrv.Index(i)) {
					okRes = false
				}
			}
		}
	} else {
		okRes = same(got, r.want)
	}
	if !okRes {
		return h.Failf("C19|"+f+"|wrong-result"+when+"|"+r.class, "source:\n%s\nGo reference: %s\nanko: %s", key, ank.Describe(r.want), ank.Describe(got))
	}
	return nil
}

// ---------------------------------------------------------------- misuse

type MisuseCase struct {
	F    string `json:"f"`
	Mode string `json:"mode"` // count | type | any | forms | rangetype
	Args []Arg  `json:"args"`
	// Form (mode forms): how the variadic builtin range is called with the integer arguments
	// Ints: spread | go | gospread | defer | deferspread
	Form string  `json:"form,omitempty"`
	Ints []int64 `json:"ints,omitempty"`
}

// parameter type of every builtin taking exactly one argument
var unary = map[string]string{
	"keys": "map", "typeOf": "any", "kindOf": "any", "defined": "string", "load": "string",
	"toBool": "any", "toString": "any", "toInt": "any", "toFloat": "any",
	"toChar": "rune", "toRune": "string", "toByteSlice": "string", "toRuneSlice": "string",
	"toBoolSlice": "slice", "toStringSlice": "slice", "toIntSlice": "slice", "toFloatSlice": "slice",
	"toDuration": "int64", "len": "len",
}

var unaryNames = func() []string {
	var n []string
	for k := range unary {
		n = append(n, k)
	}
	return sortedStrings(n)
}()

// mustReject reports whether an argument of kind v can under no reading be
// converted to the parameter type, so that the call has to fail.
func mustReject(param string, v V) bool {
	isMap := v.K == "map" || v.K == "msi" || v.K == "mis" || v.K == "msx"
	isTypedSlice := v.K == "ti" || v.K == "tf" || v.K == "ts" || v.K == "tb"
	switch param {
	case "map":
		if v.K == "go" {
			return reflect.ValueOf(goValue(v)).Kind() != reflect.Map
		}
		return !isMap
	case "string":
		return v.K == "f" || v.K == "b" || isMap || v.K == "list" || isTypedSlice
	case "rune":
		return v.K == "b" || isMap || v.K == "list" || isTypedSlice || v.K == "tby" || (v.K == "s" && len(v.S) > 1)
	case "int64":
		return v.K == "b" || isMap || v.K == "list" || isTypedSlice || v.K == "tby" || v.K == "s"
	case "slice":
		return v.K == "i" || v.K == "f" || v.K == "s" || v.K == "b" || isMap
	}
	return false
}

func genMisuse(t *rapid.T) MisuseCase {
	if rapid.Uint64().Draw(t, "forms")%8 == 0 {
		// the variadic builtin in every call form, with too few / too many / zero-step / fine arguments
		c := MisuseCase{F: "range", Mode: "forms", Form: rapid.SampledFrom([]string{"spread", "go", "gospread", "defer", "deferspread"}).Draw(t, "form")}
		for n := rapid.IntRange(0, 5).Draw(t, "nints"); n > 0; n-- {
			c.Ints = append(c.Ints, rapid.Int64Range(-2, 6).Draw(t, "int"))
		}
		if len(c.Ints) == 3 && rapid.Bool().Draw(t, "zerostep") {
			c.Ints[2] = 0
		}
		return c
	}
	if rapid.Uint64().Draw(t, "rangetype")%8 == 0 {
		return genRangeWrongType(t)
	}
	f := rapid.SampledFrom(unaryNames).Draw(t, "f")
	c := MisuseCase{F: f}
	switch rapid.IntRange(0, 2).Draw(t, "mode") {
	case 0:
		c.Mode = "count"
		n := rapid.SampledFrom([]int{0, 0, 2, 2, 3}).Draw(t, "n")
		for i := 0; i < n; i++ {
			v := genValue(t, 1, f != "load")
			c.Args = append(c.Args, Arg{V: v, Prov: genProv(t, v)})
		}
	case 1:
		c.Mode = "type"
		v := genValue(t, 1, f == "keys")
		c.Args = []Arg{{V: v, Prov: genProv(t, v)}}
	default:
		c.Mode = "any"
		if f == "load" {
			// load reads files: only a path that does not exist
			c.Args = []Arg{{V: V{K: "s", S: "/nonexistent/c19/" + vals.Str().Draw(t, "p")}, Prov: "lit"}}
			break
		}
		v := genValue(t, 2, true)
		c.Args = []Arg{{V: v, Prov: genProv(t, v)}}
	}
	if f == "load" {
		// never hand load something that could name an existing file
		for i := range c.Args {
			if c.Args[i].V.K == "s" || c.Args[i].V.K == "tby" || c.Args[i].V.K == "i" || c.Args[i].V.K == "nil" {
				c.Args[i] = Arg{V: V{K: "s", S: "/nonexistent/c19/x"}, Prov: "lit"}
			}
		}
	}
	return c
}

// genNotInt64 draws a value that under no reading is an int64 (mustReject("int64", v) holds).
func genNotInt64(t *rapid.T) V {
	switch rapid.IntRange(0, 7).Draw(t, "badk") {
	case 0, 1, 2:
		return V{K: "s", S: genStr(t)}
	case 3:
		return V{K: "b", B: rapid.Bool().Draw(t, "b")}
	case 4:
		return genList(t, 1)
	case 5:
		return genMap(t, 1)
	default:
		v := genTyped(t, 1)
		return v
	}
}

// genRangeWrongType: the variadic builtin range with one to three arguments of which at least
// one cannot be an int64, at any position; every argument - wrong or fine - is a literal, a
// variable, a host-defined variable, an element, a map entry or the result of a script function.
func genRangeWrongType(t *rapid.T) MisuseCase {
	c := MisuseCase{F: "range", Mode: "rangetype"}
	if rapid.IntRange(0, 3).Draw(t, "spread") == 0 {
		c.Form = "spread"
	}
	n := rapid.IntRange(1, 3).Draw(t, "n")
	bad := rapid.IntRange(1, 1<<n-1).Draw(t, "bad")
	if rapid.IntRange(0, 2).Draw(t, "one") > 0 {
		bad = 1 << rapid.IntRange(0, n-1).Draw(t, "pos") // mostly one wrong argument
	}
	for i := 0; i < n; i++ {
		var v V
		if bad&(1<<i) != 0 {
			v = genNotInt64(t)
		} else {
			v = V{K: "i", I: rapid.Int64Range(-5, 20).Draw(t, "int")}
			if i == 2 && v.I == 0 {
				v.I = 1
			}
		}
		c.Args = append(c.Args, Arg{V: v, Prov: genProv(t, v)})
	}
	return c
}

// misuseRangeType: a range call with an argument that cannot be an int64 is an error, wherever the
// argument stands and however it and the arguments after it are spelled.
func misuseRangeType(c MisuseCase, o *h.Obs) *h.Fail {
	if c.F != "range" || len(c.Args) < 1 || len(c.Args) > 3 || (c.Form != "" && c.Form != "spread") {
		o.Excluded = "malformed_case"
		return nil
	}
	s := newScript()
	parts := make([]string, len(c.Args))
	var wrong []string
	lastWrong := -1
	for i, a := range c.Args {
		parts[i] = s.argExpr(a)
		if mustReject("int64", a.V) {
			wrong = append(wrong, kindLabel(a.V))
			lastWrong = i
		}
	}
	if lastWrong < 0 {
		o.Excluded = "malformed_case"
		return nil
	}
	call := "range(" + strings.Join(parts, ", ") + ")"
	if c.Form == "spread" {
		call = "range([" + strings.Join(parts, ", ") + "]...)"
	}
	src := s.src(call)
	o.Key = s.key(src)
	o.NonTrivial = true
	o.Class("builtin:range")
	o.Class("misuse:mode=rangetype")
	o.Class("misuse:rangetype:argc=%d", len(c.Args))
	o.Class("misuse:rangetype:wrong_arguments=%d", len(wrong))
	o.Class("misuse:rangetype:wrong_kind=" + wrong[0])
	if c.Form == "spread" {
		o.Class("misuse:rangetype:spread_list")
	}
	if lastWrong < len(c.Args)-1 {
		o.Class("misuse:rangetype:fine_argument_after_the_wrong_one")
		for _, a := range c.Args[lastWrong+1:] {
			o.Class("misuse:rangetype:following_argument_prov=" + a.Prov)
		}
	} else {
		o.Class("misuse:rangetype:wrong_argument_last")
	}
	for i, a := range c.Args {
		if mustReject("int64", a.V) {
			o.Class("misuse:rangetype:wrong_argument_prov=" + a.Prov)
			o.Class("misuse:rangetype:wrong_position=%d", i)
		}
	}
	got, err := s.run(src)
	if f := hostPanic("misuse:range", src, err); f != nil {
		return f
	}
	if err == nil {
		form := "plain"
		if c.Form == "spread" {
			form = "spread"
		}
		cat := wrong[0] // string | bool | slice | map
		if strings.HasPrefix(cat, "[]") {
			cat = "slice"
		} else if strings.HasPrefix(cat, "map[") {
			cat = "map"
		}
		return h.Failf("C19|misuse|missing-error|wrong-type|range|"+form+"|"+cat, "source:\n%s\nan argument of range cannot be an int64 (%s); expected an error, got %s", o.Key, strings.Join(wrong, ", "), ank.Describe(got))
	}
	return nil
}

func misuseOracle(c MisuseCase, o *h.Obs) *h.Fail {
	if c.Mode == "forms" {
		return misuseForms(c, o)
	}
	if c.Mode == "rangetype" {
		return misuseRangeType(c, o)
	}
	s := newScript()
	parts := make([]string, len(c.Args))
	for i, a := range c.Args {
		parts[i] = s.argExpr(a)
		o.Class("argkind:" + kindLabel(a.V))
	}
	src := s.src(c.F + "(" + strings.Join(parts, ", ") + ")")
	o.Key = s.key(src)
	o.NonTrivial = true
	o.Class("builtin:" + c.F)
	o.Class("misuse:mode=" + c.Mode)
	o.Class("misuse:argc=%d", len(c.Args))

	got, err := s.run(src)
	if f := hostPanic("misuse:"+c.F, src, err); f != nil {
		return f
	}
	if err != nil {
		o.Class("misuse:->error")
	} else {
		o.Class("misuse:->value")
	}
	param := unary[c.F]
	switch {
	case len(c.Args) != 1:
		if err == nil {
			return h.Failf(fmt.Sprintf("C19|misuse|missing-error|wrong-count|%s|argc=%d", c.F, len(c.Args)), "source:\n%s\n%s takes one argument; expected an error, got %s", o.Key, c.F, ank.Describe(got))
		}
	case c.F == "load":
		if err == nil {
			return h.Failf("C19|misuse|missing-error|load", "source:\n%s\nexpected an error, got %s", o.Key, ank.Describe(got))
		}
	case param == "len":
		// judged by the len sub-check
	case mustReject(param, c.Args[0].V):
		o.Class("misuse:unconvertible_argument")
		if err == nil {
			return h.Failf("C19|misuse|missing-error|wrong-type|"+c.F+"|"+kindLabel(c.Args[0].V), "source:\n%s\nthe argument cannot be a %s; expected an error, got %s", o.Key, param, ank.Describe(got))
		}
	}
	return nil
}

// misuseForms: range(...) called through a spread list, a go statement, a deferred call. Invalid
// arguments (none, more than three, a zero step) are an error of the call - or, for go and defer,
// at least never a crash of the process.
func misuseForms(c MisuseCase, o *h.Obs) *h.Fail {
	if c.F != "range" || len(c.Ints) > 8 {
		o.Excluded = "malformed_case"
		return nil
	}
	parts := make([]string, len(c.Ints))
	for i, v := range c.Ints {
		parts[i] = fmt.Sprint(v)
	}
	plain := strings.Join(parts, ", ")
	list := "[" + plain + "]..."
	var src string
	switch c.Form {
	case "spread":
		src = "range(" + list + ")"
	case "go":
		src = "go range(" + plain + ")\nsettle()\n1"
	case "gospread":
		src = "go range(" + list + ")\nsettle()\n1"
	case "defer":
		src = "func() {\n defer range(" + plain + ")\n return 1\n}()"
	case "deferspread":
		src = "func() {\n defer range(" + list + ")\n return 1\n}()"
	default:
		o.Excluded = "malformed_case"
		return nil
	}
	o.Key = src
	o.NonTrivial = true
	o.Class("builtin:range")
	o.Class("misuse:form=" + c.Form)
	invalid := len(c.Ints) == 0 || len(c.Ints) > 3 || (len(c.Ints) == 3 && c.Ints[2] == 0)
	if invalid {
		o.Class("misuse:invalid_range_arguments")
	}
	s := newScript()
	s.e.Define("settle", func() {
		// give a goroutine started by the script time to run (and, if it panics, to kill the process)
		for i := 0; i < 20; i++ {
			runtime.Gosched()
		}
		time.Sleep(200 * time.Microsecond)
	})
	got, err := s.run(src)
	if f := hostPanic("misuse:range:"+c.Form, src, err); f != nil {
		return f
	}
	if c.Form == "spread" && invalid && err == nil {
		return h.Failf("C19|misuse|missing-error|range|spread", "source:\n%s\nexpected an error, got %s", src, ank.Describe(got))
	}
	if c.Form == "spread" && !invalid && err != nil {
		return h.Failf("C19|misuse|unexpected-error|range|spread", "source:\n%s\nerror: %v", src, err)
	}
	return nil
}
