// C16 — script channels and goroutines deliver every message once, in order.
//
// Pipeline specifications (JSON-serialisable) are rendered to anko source and
// executed under several GOMAXPROCS values, several times each. The expected
// sequence is computed from the specification alone (native Go arithmetic and
// conversions); anko is never asked what it should have produced.
package c16

import (
	"fmt"
	"os"
	"strings"
	"testing"

	"pgregory.net/rapid"

	"verif/internal/h"
)

// ---------------------------------------------------------------------------
// specification
// ---------------------------------------------------------------------------

// Chan is one script channel: make(chan <Type>, <Buf>).
type Chan struct {
	Buf  int    `json:"buf"`
	Type string `json:"type"` // int64 | float64 | string | interface
}

// Proc is one goroutine of the program, started with a go statement.
type Proc struct {
	Role string `json:"role"` // src | xf | wk (fan-out worker, see fanout_test.go)
	// src: item i is  int: i+a   float: i+a+0.75   str: "s"+(i+a)
	Src string `json:"src,omitempty"`
	N   int    `json:"n,omitempty"`
	// xf: out <- g(v) for every v received
	G    string `json:"g,omitempty"`    // id | add | mul | half | addf | str | tag
	Recv string `json:"recv,omitempty"` // forin | ok2 | expr | relay | restart (xf); forin | ok2 | expr | cnt2 | cntx (wk)
	M    int    `json:"m,omitempty"`    // restart: the for-in is left by break after M items and started again
	A    int64  `json:"a"`              // parameter `a`, passed by value and changed by the caller right after go

	Start    string `json:"start"` // named | var | lit | item | member
	// Spread: the go call passes its trailing arguments as a spread list `go f(a, [b, c]...)`
	// (for a variadic callee exactly the variadic tail)
	Spread bool `json:"spread,omitempty"`
	GIn      bool   `json:"gin,omitempty"`   // input channel referenced as global instead of parameter
	GOut     bool   `json:"gout,omitempty"`  // output channel referenced as global
	GDone    bool   `json:"gdone,omitempty"` // done channel referenced as global
	GJoin    bool   `json:"gjoin,omitempty"` // join channel referenced as global (fan-in sources)
	Extra    int    `json:"extra,omitempty"` // unused extra parameters
	Variadic bool   `json:"variadic,omitempty"`
	VarArgs  int    `json:"varargs,omitempty"`
	ArgExpr  bool   `json:"argexpr,omitempty"` // pass `a+0` / `n+0` expressions instead of plain variables
	Y        [3]int `json:"y"`                 // yield(j) at start / between receive and send / after send
	YGo      int    `json:"ygo,omitempty"`     // yield(j) by the caller after the go statement and the argument change
}

// Cons is the final consumer (the main script goroutine).
type Cons struct {
	Recv    string `json:"recv"`    // forin | ok2 | expr | counted | early
	Collect string `json:"collect"` // list | out
	Y       int    `json:"y,omitempty"`
	Early   *Early `json:"early,omitempty"`
}

// Early describes a consumer that leaves its `for v in ch` early and then goes
// on reading the same channel: R times a for-in that is left after M items by
// break / return from a function holding the loop / throw caught outside the
// loop, then a final loop of style Then until the channel is closed.
type Early struct {
	M    int    `json:"m"`
	R    int    `json:"r"`
	How  string `json:"how"`  // break | return | throw
	Then string `json:"then"` // forin | ok2 | expr
}

// Post is an operation on a closed and drained channel, done by the main
// goroutine after every script goroutine has signalled completion.
type Post struct {
	Op string `json:"op"` // rx | rx2 | forin | send | close
	Ch int    `json:"ch"`
}

// Case is one program.
type Case struct {
	Variant string `json:"variant"` // pipeline | fanin
	Srcs    []Proc `json:"srcs"`
	Xfs     []Proc `json:"xfs"`
	Chans   []Chan `json:"chans"` // Chans[0] is written by the sources, Chans[j+1] by Xfs[j]
	DoneBuf int    `json:"donebuf"`
	JoinBuf int    `json:"joinbuf,omitempty"`
	Cons    Cons   `json:"cons"`
	Post    []Post `json:"post,omitempty"`
	Procs   []int  `json:"procs"` // GOMAXPROCS values the program is run under
	// Prefill: the consumer starts only after every goroutine has finished (all
	// items fit into the last channel's buffer), so the buffer is certainly full
	// and the channel already closed when the first receive happens.
	Prefill bool `json:"prefill,omitempty"`
}

// ---------------------------------------------------------------------------
// model values
// ---------------------------------------------------------------------------

// mv is a model value: k is 'i' int64, 'f' float64, 's' string, 'b' bool,
// 'n' nil, 'x' anything else (rendered in s).
type mv struct {
	k byte
	i int64
	f float64
	s string
	b bool
}

func (v mv) String() string {
	switch v.k {
	case 'i':
		return fmt.Sprintf("int64(%d)", v.i)
	case 'f':
		return fmt.Sprintf("float64(%v)", v.f)
	case 's':
		return fmt.Sprintf("string(%q)", v.s)
	case 'b':
		return fmt.Sprintf("bool(%v)", v.b)
	case 'n':
		return "nil"
	}
	return "other(" + v.s + ")"
}

func (v mv) eq(w mv) bool {
	if v.k != w.k {
		return false
	}
	switch v.k {
	case 'i':
		return v.i == w.i
	case 'f':
		return v.f == w.f
	case 's', 'x':
		return v.s == w.s
	case 'b':
		return v.b == w.b
	}
	return true
}

// sameNumber reports whether both are numbers with the same mathematical value
// but different dynamic types (a conversion problem, not a delivery problem).
func sameNumber(v, w mv) bool {
	if v.k == w.k {
		return false
	}
	num := func(x mv) (float64, bool) {
		switch x.k {
		case 'i':
			return float64(x.i), true
		case 'f':
			return x.f, true
		}
		return 0, false
	}
	a, ok1 := num(v)
	b, ok2 := num(w)
	return ok1 && ok2 && a == b
}

func fromGo(x interface{}) mv {
	switch t := x.(type) {
	case nil:
		return mv{k: 'n'}
	case int64:
		return mv{k: 'i', i: t}
	case float64:
		return mv{k: 'f', f: t}
	case string:
		return mv{k: 's', s: t}
	case bool:
		return mv{k: 'b', b: t}
	}
	return mv{k: 'x', s: fmt.Sprintf("%T:%v", x, x)}
}

func toF(v mv) float64 {
	if v.k == 'i' {
		return float64(v.i)
	}
	return v.f
}

func sprint(v mv) string {
	switch v.k {
	case 'i':
		return fmt.Sprint(v.i)
	case 'f':
		return fmt.Sprint(v.f)
	}
	return v.s
}

// convKind is the static kind a value of kind k has after being sent on a
// channel of element type t; ok=false when Go defines no such conversion (or
// one we deliberately do not rely on: integer -> string).
func convKind(k byte, t string) (byte, bool) {
	switch t {
	case "interface":
		return k, true
	case "int64":
		if k == 'i' || k == 'f' {
			return 'i', true
		}
	case "float64":
		if k == 'i' || k == 'f' {
			return 'f', true
		}
	case "string":
		if k == 's' {
			return 's', true
		}
	}
	return 0, false
}

// conv applies Go's conversion to the element type.
func conv(v mv, t string) mv {
	switch t {
	case "int64":
		if v.k == 'f' {
			return mv{k: 'i', i: int64(v.f)}
		}
	case "float64":
		if v.k == 'i' {
			return mv{k: 'f', f: float64(v.i)}
		}
	}
	return v
}

func srcKind(s string) byte {
	switch s {
	case "int":
		return 'i'
	case "float":
		return 'f'
	}
	return 's'
}

func srcVal(p Proc, i int) mv {
	x := int64(i) + p.A
	switch p.Src {
	case "int":
		return mv{k: 'i', i: x}
	case "float":
		return mv{k: 'f', f: float64(x) + 0.75}
	}
	return mv{k: 's', s: "s" + fmt.Sprint(x)}
}

// gKind is the kind of g(v) for v of kind k; ok=false if g is not used on k.
func gKind(g string, k byte) (byte, bool) {
	num := k == 'i' || k == 'f'
	switch g {
	case "id":
		return k, true
	case "add", "mul":
		return k, num
	case "half", "addf":
		return 'f', num
	case "str", "tag":
		return 's', true
	}
	return 0, false
}

func gVal(p Proc, v mv) mv {
	switch p.G {
	case "add":
		if v.k == 'i' {
			return mv{k: 'i', i: v.i + p.A}
		}
		return mv{k: 'f', f: v.f + float64(p.A)}
	case "mul":
		if v.k == 'i' {
			return mv{k: 'i', i: v.i * p.A}
		}
		return mv{k: 'f', f: v.f * float64(p.A)}
	case "half":
		return mv{k: 'f', f: toF(v) / 2}
	case "addf":
		return mv{k: 'f', f: toF(v) + 0.5}
	case "str":
		return mv{k: 's', s: sprint(v)}
	case "tag":
		return mv{k: 's', s: sprint(v) + "_" + fmt.Sprint(p.A)}
	}
	return v
}

// ---------------------------------------------------------------------------
// static validation + expectation
// ---------------------------------------------------------------------------

var chanTypes = []string{"int64", "float64", "string", "interface"}

func oneOf(s string, set ...string) bool {
	for _, x := range set {
		if s == x {
			return true
		}
	}
	return false
}

// validate checks that the case is inside the generated domain (a hand-edited
// replay file could leave it) and returns the kind of value on every channel.
func validate(c Case) (kinds []byte, problem string) {
	if !oneOf(c.Variant, "pipeline", "fanin") {
		return nil, "variant"
	}
	if len(c.Chans) != len(c.Xfs)+1 || len(c.Srcs) < 1 || len(c.Srcs) > 4 || len(c.Xfs) > 3 {
		return nil, "shape"
	}
	if c.Variant == "pipeline" && len(c.Srcs) != 1 {
		return nil, "pipeline with several sources"
	}
	for _, ch := range c.Chans {
		if ch.Buf < 0 || ch.Buf > 3 || !oneOf(ch.Type, chanTypes...) {
			return nil, "chan"
		}
	}
	if c.DoneBuf < 0 || c.DoneBuf > 8 || c.JoinBuf < 0 || c.JoinBuf > 4 {
		return nil, "aux chan"
	}
	total := 0
	k := srcKind(c.Srcs[0].Src)
	for _, s := range c.Srcs {
		if s.Role != "src" || !oneOf(s.Src, "int", "float", "str") || s.Src != c.Srcs[0].Src || s.N < 0 || s.N > 200 {
			return nil, "src"
		}
		total += s.N
	}
	if total > 200 {
		return nil, "too many items"
	}
	var ok bool
	if k, ok = convKind(k, c.Chans[0].Type); !ok {
		return nil, "conversion not defined"
	}
	kinds = append(kinds, k)
	for j, x := range c.Xfs {
		if x.Role != "xf" || !oneOf(x.Recv, "forin", "ok2", "expr", "relay", "restart") {
			return nil, "xf"
		}
		if x.Recv == "restart" && (x.M < 1 || x.M > 250) {
			return nil, "restart count"
		}
		if x.Recv == "relay" && x.G != "id" {
			return nil, "relay must be identity"
		}
		if k, ok = gKind(x.G, k); !ok {
			return nil, "g not defined on kind"
		}
		if k, ok = convKind(k, c.Chans[j+1].Type); !ok {
			return nil, "conversion not defined"
		}
		kinds = append(kinds, k)
	}
	for _, p := range append(append([]Proc{}, c.Srcs...), c.Xfs...) {
		if !oneOf(p.Start, "named", "var", "lit", "item", "member") || p.Extra < 0 || p.Extra > 4 || p.VarArgs < 0 || p.VarArgs > 2 || p.YGo < 0 || p.YGo > 3 {
			return nil, "proc"
		}
		for _, y := range p.Y {
			if y < 0 || y > 3 {
				return nil, "yield"
			}
		}
		if p.A < -3000 || p.A > 5000 {
			return nil, "a"
		}
	}
	if !oneOf(c.Cons.Recv, "forin", "ok2", "expr", "counted", "early") || !oneOf(c.Cons.Collect, "list", "out") || c.Cons.Y < 0 || c.Cons.Y > 3 {
		return nil, "cons"
	}
	if e := c.Cons.Early; (c.Cons.Recv == "early") != (e != nil) {
		return nil, "early"
	} else if e != nil && (e.M < 1 || e.M > 250 || e.R < 1 || e.R > 3 || !oneOf(e.How, "break", "return", "throw") || !oneOf(e.Then, "forin", "ok2", "expr")) {
		return nil, "early"
	}
	if c.Prefill && total > c.Chans[len(c.Chans)-1].Buf {
		return nil, "prefill does not fit"
	}
	if len(c.Post) > 8 {
		return nil, "post"
	}
	for _, p := range c.Post {
		if !oneOf(p.Op, "rx", "rx2", "forin", "send", "close") || p.Ch < 0 || p.Ch >= len(c.Chans) {
			return nil, "post"
		}
	}
	if len(c.Procs) == 0 || len(c.Procs) > 4 {
		return nil, "procs"
	}
	for _, p := range c.Procs {
		if p < 1 || p > 64 {
			return nil, "procs"
		}
	}
	return kinds, ""
}

// expect computes, per source, the sequence the final consumer must see.
func expect(c Case) [][]mv {
	out := make([][]mv, len(c.Srcs))
	for si, s := range c.Srcs {
		seq := make([]mv, 0, s.N)
		for i := 0; i < s.N; i++ {
			v := conv(srcVal(s, i), c.Chans[0].Type)
			for j, x := range c.Xfs {
				v = conv(gVal(x, v), c.Chans[j+1].Type)
			}
			seq = append(seq, v)
		}
		out[si] = seq
	}
	return out
}

// arity is the number of declared parameters; reflectPath tells which go path
// of callExpr the start goes through.
func (p Proc) arity(fanin bool) int {
	n := 0
	if p.Role == "wk" {
		// fanin here means: forwards to a results channel and signals a worker-join channel
		n = 1 // cap
		if !p.GIn {
			n++
		}
		if fanin && !p.GOut {
			n++
		}
		if fanin && !p.GJoin {
			n++
		}
	} else if p.Role == "src" {
		n = 2 // n, a
		if !p.GOut {
			n++
		}
		if fanin && !p.GJoin {
			n++
		}
	} else {
		n = 1 // a
		if p.Recv == "relay" {
			n++
		}
		if !p.GIn {
			n++
		}
		if !p.GOut {
			n++
		}
	}
	if !p.GDone {
		n++
	}
	n += p.Extra
	if p.Variadic {
		n++
	}
	return n
}

func (p Proc) reflectPath(fanin bool) bool { return p.Variadic || p.arity(fanin) > 4 }

// ---------------------------------------------------------------------------
// rendering
// ---------------------------------------------------------------------------

func makeChan(ch Chan, zeroForm bool) string {
	if ch.Buf == 0 && !zeroForm {
		return "make(chan " + ch.Type + ")"
	}
	return fmt.Sprintf("make(chan %s, %d)", ch.Type, ch.Buf)
}

func yieldStmt(ind string, j int) string {
	if j <= 0 {
		return ""
	}
	return fmt.Sprintf("%syield(%d)\n", ind, j)
}

// sendLit is a literal that may be sent on a channel of the given type.
func sendLit(t string) string {
	switch t {
	case "float64":
		return "1.5"
	case "string":
		return `"z"`
	}
	return "1"
}

func render(c Case) string {
	var b strings.Builder
	fanin := c.Variant == "fanin"
	for j, ch := range c.Chans {
		fmt.Fprintf(&b, "c%d = %s\n", j, makeChan(ch, j%2 == 1))
	}
	fmt.Fprintf(&b, "dn = %s\n", makeChan(Chan{Buf: c.DoneBuf, Type: "int64"}, false))
	if fanin {
		fmt.Fprintf(&b, "jn = %s\n", makeChan(Chan{Buf: c.JoinBuf, Type: "int64"}, false))
	}
	k := 0
	for _, s := range c.Srcs {
		renderProc(&b, k, s, renderCtx{out: "c0", join: fanin})
		k++
	}
	if fanin {
		// the closer: waits for every source on the join channel, then closes c0
		fmt.Fprintf(&b, "go func(pj, co, m, pd) {\n\ttry {\n\t\tfor i%d = 0; i%d < m; i%d++ {\n\t\t\t<-pj\n\t\t}\n\t\tclose(co)\n\t} catch e%d {\n\t\tgerr(%d, \"\" + e%d)\n\t}\n\tpd <- 1\n}(jn, c0, %d, dn)\n", k, k, k, k, k, k, len(c.Srcs))
		k++
	}
	for j, x := range c.Xfs {
		renderProc(&b, k, x, renderCtx{in: fmt.Sprintf("c%d", j), out: fmt.Sprintf("c%d", j+1)})
		k++
	}
	goroutines := k
	last := fmt.Sprintf("c%d", len(c.Chans)-1)
	total := 0
	for _, s := range c.Srcs {
		total += s.N
	}
	collect := "res += [mv]"
	if c.Cons.Collect == "out" {
		collect = "out(mv)"
	}
	b.WriteString("res = []\nmv = \"S\"\n")
	join := fmt.Sprintf("for mj = 0; mj < %d; mj++ {\n\t<-dn\n}\n", goroutines)
	if c.Prefill {
		b.WriteString(join)
	}
	body := "\ttick()\n\t" + collect + "\n" + yieldStmt("\t", c.Cons.Y)
	recv := c.Cons.Recv
	if e := c.Cons.Early; recv == "early" && e != nil {
		leave := "break"
		if e.How == "throw" {
			leave = "throw \"stop\""
		}
		seg := fmt.Sprintf("\tec = 0\n\tfor mv in %s {\n%s\t\tec++\n\t\tif ec >= %d {\n\t\t\t%s\n\t\t}\n\t}\n", last, indent(body), e.M, leave)
		switch e.How {
		case "throw":
			seg = "\ttry {\n" + indent(seg) + "\t} catch ee {\n\t}\n"
		case "return":
			fmt.Fprintf(&b, "func econs(ch, m) {\n\tek = 0\n\tfor ev in ch {\n%s\t\tek++\n\t\tif ek >= m {\n\t\t\treturn ek\n\t\t}\n\t}\n\treturn ek\n}\n", indent(strings.ReplaceAll(body, "mv", "ev")))
			seg = fmt.Sprintf("\tem = %d\n\tecons(%s, em)\n", e.M, last)
		}
		fmt.Fprintf(&b, "for er = 0; er < %d; er++ {\n%s}\n", e.R, seg)
		recv = e.Then
	}
	switch recv {
	case "forin":
		fmt.Fprintf(&b, "for mv in %s {\n%s}\n", last, body)
	case "ok2":
		fmt.Fprintf(&b, "for {\n\tmv, mok = <-%s\n\tif !mok {\n\t\tbreak\n\t}\n%s}\n", last, body)
	case "expr":
		fmt.Fprintf(&b, "for {\n\tmv = (<-%s)\n\tif mv == nil {\n\t\tbreak\n\t}\n%s}\n", last, body)
	case "counted":
		fmt.Fprintf(&b, "for mj = 0; mj < %d; mj++ {\n\tmv = <-%s\n%s}\n", total, last, body)
	}
	b.WriteString("lastv = nil\n")
	if recv == "ok2" {
		b.WriteString("lastv = mv\n")
	}
	if !c.Prefill {
		b.WriteString(join)
	}
	b.WriteString("obs = []\n")
	for i, p := range c.Post {
		ch := fmt.Sprintf("c%d", p.Ch)
		switch p.Op {
		case "rx":
			fmt.Fprintf(&b, "obs += [(<-%s)]\n", ch)
		case "rx2":
			fmt.Fprintf(&b, "w%d = \"W\"\nw%d, k%d = <-%s\nobs += [w%d, k%d]\n", i, i, i, ch, i, i)
		case "forin":
			fmt.Fprintf(&b, "q%d = 0\nfor qv in %s {\n\ttick()\n\tq%d++\n}\nobs += [q%d]\n", i, ch, i, i)
		case "send":
			fmt.Fprintf(&b, "f%d = 0\ntry {\n\t%s <- %s\n} catch ex {\n\tf%d = 1\n}\nobs += [f%d]\n", i, ch, sendLit(c.Chans[p.Ch].Type), i, i)
		case "close":
			fmt.Fprintf(&b, "f%d = 0\ntry {\n\tclose(%s)\n} catch ex {\n\tf%d = 1\n}\nobs += [f%d]\n", i, ch, i, i)
		}
	}
	b.WriteString("[res, lastv, obs]\n")
	return b.String()
}

func indent(s string) string {
	if s == "" {
		return s
	}
	return "\t" + strings.ReplaceAll(strings.TrimSuffix(s, "\n"), "\n", "\n\t") + "\n"
}

// renderCtx names the channels a goroutine works on.
type renderCtx struct {
	in, out string
	join    bool // src: signal the join channel instead of closing out; wk: signal the worker-join channel wj
	mark    bool // src: call markclosed() right before close(out)
	fwdOut  bool // wk: forward to the host function out() instead of a channel
}

func renderProc(b *strings.Builder, k int, p Proc, rc renderCtx) {
	in, out, fanin := rc.in, rc.out, rc.join
	var params, args []string
	add := func(param, arg string) {
		params = append(params, param)
		args = append(args, arg)
	}
	val := func(name string) string {
		if p.ArgExpr {
			return name + " + 0"
		}
		return name
	}
	ci, co, pd, pj := in, out, "dn", "jn"
	var pre, post string // caller: before go / right after go
	pre = fmt.Sprintf("a%d = %d\n", k, p.A)
	post = fmt.Sprintf("a%d = a%d + 100\n", k, k)
	if p.Role == "wk" {
		pre = fmt.Sprintf("n%d = %d\n", k, p.N)
		post = fmt.Sprintf("n%d = 0\n", k)
		pj = "wj"
		if !p.GIn {
			ci = "ci"
			add("ci", in)
		}
		if !rc.fwdOut && !p.GOut {
			co = "co"
			add("co", out)
		}
		add("cap", val(fmt.Sprintf("n%d", k)))
		if !p.GDone {
			pd = "pd"
			add("pd", "dn")
		}
		if !rc.fwdOut && !p.GJoin {
			pj = "pj"
			add("pj", "wj")
		}
	} else if p.Role == "src" {
		pre += fmt.Sprintf("n%d = %d\n", k, p.N)
		post += fmt.Sprintf("n%d = 0\n", k)
		if !p.GOut {
			co = "co"
			add("co", out)
		}
		add("n", val(fmt.Sprintf("n%d", k)))
		add("a", val(fmt.Sprintf("a%d", k)))
		if !p.GDone {
			pd = "pd"
			add("pd", "dn")
		}
		if fanin && !p.GJoin {
			pj = "pj"
			add("pj", "jn")
		}
	} else {
		if !p.GIn {
			ci = "ci"
			add("ci", in)
		}
		if !p.GOut {
			co = "co"
			add("co", out)
		}
		add("a", val(fmt.Sprintf("a%d", k)))
		if p.Recv == "relay" {
			// the count is not known to a transformer in general; here the spec gives it
			pre += fmt.Sprintf("t%d = TOTAL\n", k)
			post += fmt.Sprintf("t%d = 0\n", k)
			add("cnt", val(fmt.Sprintf("t%d", k)))
		}
		if !p.GDone {
			pd = "pd"
			add("pd", "dn")
		}
	}
	for e := 0; e < p.Extra; e++ {
		add(fmt.Sprintf("x%d", e), fmt.Sprint(e))
	}
	if p.Variadic {
		params = append(params, "rest...")
		for e := 0; e < p.VarArgs; e++ {
			args = append(args, fmt.Sprint(7+e))
		}
	}

	var body strings.Builder
	body.WriteString("\ttry {\n")
	body.WriteString(yieldStmt("\t\t", p.Y[0]))
	if p.Role == "wk" {
		v := fmt.Sprintf("v%d", k)
		fwd := fmt.Sprintf("%s <- %s", co, v)
		if rc.fwdOut {
			fwd = "out(" + v + ")"
		}
		inner := "\t\t\ttick()\n" + yieldStmt("\t\t\t", p.Y[1]) + "\t\t\t" + fwd + "\n" + yieldStmt("\t\t\t", p.Y[2])
		rx2 := fmt.Sprintf("\t\t\t%s, ok%d = <-%s\n\t\t\tif !ok%d {\n\t\t\t\tbreak\n\t\t\t}\n", v, k, ci, k)
		rxe := fmt.Sprintf("\t\t\t%s = (<-%s)\n\t\t\tif %s == nil {\n\t\t\t\tgotnil(%d)\n\t\t\t\tbreak\n\t\t\t}\n", v, ci, v, k)
		counted := fmt.Sprintf("\t\tfor j%d = 0; j%d < cap; j%d++ {\n", k, k, k)
		switch p.Recv {
		case "forin":
			fmt.Fprintf(&body, "\t\tfor %s in %s {\n%s\t\t}\n", v, ci, inner)
		case "ok2":
			fmt.Fprintf(&body, "\t\tfor {\n%s%s\t\t}\n", rx2, inner)
		case "expr":
			fmt.Fprintf(&body, "\t\tfor {\n%s%s\t\t}\n", rxe, inner)
		case "cnt2":
			body.WriteString(counted + rx2 + inner + "\t\t}\n")
		case "cntx":
			body.WriteString(counted + rxe + inner + "\t\t}\n")
		}
		if !rc.fwdOut {
			fmt.Fprintf(&body, "\t\t%s <- 1\n", pj)
		}
	} else if p.Role == "src" {
		var e string
		switch p.Src {
		case "int":
			e = fmt.Sprintf("i%d + a", k)
		case "float":
			e = fmt.Sprintf("i%d + a + 0.75", k)
		default:
			e = fmt.Sprintf("\"s\" + (i%d + a)", k)
		}
		fmt.Fprintf(&body, "\t\tfor i%d = 0; i%d < n; i%d++ {\n%s\t\t\t%s <- %s\n%s\t\t}\n", k, k, k, yieldStmt("\t\t\t", p.Y[1]), co, e, yieldStmt("\t\t\t", p.Y[2]))
		if fanin {
			fmt.Fprintf(&body, "\t\t%s <- 1\n", pj)
		} else {
			if rc.mark {
				body.WriteString("\t\tmarkclosed()\n")
			}
			fmt.Fprintf(&body, "\t\tclose(%s)\n", co)
		}
	} else {
		v := fmt.Sprintf("v%d", k)
		var e string
		switch p.G {
		case "add":
			e = v + " + a"
		case "mul":
			e = v + " * a"
		case "half":
			e = v + " / 2"
		case "addf":
			e = v + " + 0.5"
		case "str":
			e = `"" + ` + v
		case "tag":
			e = v + ` + "_" + a`
		default:
			e = v
		}
		inner := "\t\t\ttick()\n" + yieldStmt("\t\t\t", p.Y[1]) + fmt.Sprintf("\t\t\t%s <- %s\n", co, e) + yieldStmt("\t\t\t", p.Y[2])
		switch p.Recv {
		case "forin":
			fmt.Fprintf(&body, "\t\tfor %s in %s {\n%s\t\t}\n", v, ci, inner)
		case "ok2":
			fmt.Fprintf(&body, "\t\tfor {\n\t\t\t%s, ok%d = <-%s\n\t\t\tif !ok%d {\n\t\t\t\tbreak\n\t\t\t}\n%s\t\t}\n", v, k, ci, k, inner)
		case "expr":
			fmt.Fprintf(&body, "\t\tfor {\n\t\t\t%s = (<-%s)\n\t\t\tif %s == nil {\n\t\t\t\tbreak\n\t\t\t}\n%s\t\t}\n", v, ci, v, inner)
		case "restart":
			fmt.Fprintf(&body, "\t\tfor {\n\t\t\tk%d = 0\n\t\t\tfin%d = true\n\t\t\tfor %s in %s {\n%s\t\t\t\tk%d++\n\t\t\t\tif k%d >= %d {\n\t\t\t\t\tfin%d = false\n\t\t\t\t\tbreak\n\t\t\t\t}\n\t\t\t}\n\t\t\tif fin%d {\n\t\t\t\tbreak\n\t\t\t}\n\t\t}\n", k, k, v, ci, indent(inner), k, k, p.M, k, k)
		case "relay":
			fmt.Fprintf(&body, "\t\tfor j%d = 0; j%d < cnt; j%d++ {\n%s\t\t\t%s <- <-%s\n%s\t\t}\n", k, k, k, yieldStmt("\t\t\t", p.Y[1]), co, ci, yieldStmt("\t\t\t", p.Y[2]))
		}
		fmt.Fprintf(&body, "\t\tclose(%s)\n", co)
	}
	fmt.Fprintf(&body, "\t} catch e%d {\n\t\tgerr(%d, \"\" + e%d)\n\t}\n\t%s <- 1\n", k, k, k, pd)

	fn := "(" + strings.Join(params, ", ") + ") {\n" + body.String() + "}"
	call := "(" + strings.Join(args, ", ") + ")"
	if p.Spread && len(args) > 0 {
		j := len(args) / 2
		if p.Variadic {
			j = len(params) - 1
		}
		if j <= len(args) {
			head := append(append([]string{}, args[:j]...), "["+strings.Join(args[j:], ", ")+"]...")
			call = "(" + strings.Join(head, ", ") + ")"
		}
	}
	b.WriteString(pre)
	switch p.Start {
	case "named":
		fmt.Fprintf(b, "func g%d%s\ngo g%d%s\n", k, fn, k, call)
	case "var":
		fmt.Fprintf(b, "g%d = func%s\ngo g%d%s\n", k, fn, k, call)
	case "item":
		fmt.Fprintf(b, "g%d = [func%s]\ngo g%d[0]%s\n", k, fn, k, call)
	case "member":
		fmt.Fprintf(b, "g%d = {\"f\": func%s}\ngo g%d.f%s\n", k, fn, k, call)
	default:
		fmt.Fprintf(b, "go func%s%s\n", fn, call)
	}
	b.WriteString(post)
	b.WriteString(yieldStmt("", p.YGo))
}

func source(c Case) string {
	total := 0
	for _, s := range c.Srcs {
		total += s.N
	}
	return strings.ReplaceAll(render(c), "TOTAL", fmt.Sprint(total))
}

// ---------------------------------------------------------------------------
// generator
// ---------------------------------------------------------------------------

func genN(t *rapid.T, label string, max int) int {
	switch rapid.IntRange(0, 9).Draw(t, label+"_band") {
	case 0, 1, 2, 3, 4:
		return rapid.IntRange(0, min(12, max)).Draw(t, label)
	case 5, 6, 7:
		return rapid.IntRange(min(13, max), min(60, max)).Draw(t, label)
	default:
		return rapid.IntRange(min(61, max), max).Draw(t, label)
	}
}

// genM draws after how many items a for-in is left early (1 and 2 are common).
func genM(t *rapid.T, label string) int {
	if rapid.IntRange(0, 2).Draw(t, label+"_small") != 0 {
		return rapid.IntRange(1, 2).Draw(t, label)
	}
	return rapid.IntRange(1, 40).Draw(t, label)
}

func genYield(t *rapid.T, label string) int {
	if rapid.IntRange(0, 2).Draw(t, label+"?") != 0 {
		return 0
	}
	return rapid.IntRange(1, 3).Draw(t, label)
}

func genChan(t *rapid.T, k byte, label string) (Chan, byte) {
	var types []string
	switch k {
	case 'i':
		types = []string{"int64", "int64", "float64", "interface"}
	case 'f':
		types = []string{"float64", "float64", "int64", "interface"}
	default:
		types = []string{"string", "string", "interface"}
	}
	ch := Chan{Type: rapid.SampledFrom(types).Draw(t, label+"_type")}
	if rapid.IntRange(0, 2).Draw(t, label+"_unbuf") == 0 {
		ch.Buf = 0
	} else {
		ch.Buf = rapid.IntRange(0, 3).Draw(t, label+"_buf")
	}
	nk, _ := convKind(k, ch.Type)
	return ch, nk
}

// genLaunch draws how the goroutine is started and makes the arity fit the
// wanted go path (direct: <= 4 fixed parameters; reflect: >= 5 or variadic).
func genLaunch(t *rapid.T, p *Proc, fanin bool) {
	p.Start = rapid.SampledFrom([]string{"named", "named", "lit", "lit", "var", "item", "member"}).Draw(t, "start")
	p.GIn = rapid.IntRange(0, 3).Draw(t, "gin") == 0
	p.GOut = rapid.IntRange(0, 3).Draw(t, "gout") == 0
	p.GDone = rapid.IntRange(0, 2).Draw(t, "gdone") == 0
	p.GJoin = rapid.IntRange(0, 2).Draw(t, "gjoin") == 0
	if p.Role == "src" {
		p.GIn = false
	}
	if p.Role == "xf" || !fanin {
		p.GJoin = false
	}
	p.ArgExpr = rapid.IntRange(0, 3).Draw(t, "argexpr") == 0
	p.Spread = rapid.IntRange(0, 3).Draw(t, "spreadcall") == 0
	wantReflect := rapid.Bool().Draw(t, "reflect_path")
	if wantReflect {
		if rapid.IntRange(0, 2).Draw(t, "variadic") == 0 {
			p.Variadic = true
			p.VarArgs = rapid.IntRange(0, 2).Draw(t, "varargs")
			p.Extra = rapid.IntRange(0, 1).Draw(t, "extra")
		} else {
			need := 5 - p.arity(fanin)
			if need < 0 {
				need = 0
			}
			p.Extra = need + rapid.IntRange(0, 1).Draw(t, "extra")
			if p.Extra > 4 {
				p.Extra = 4
			}
		}
		return
	}
	if p.arity(fanin) > 4 {
		p.GDone = true
	}
	if p.arity(fanin) > 4 {
		p.GJoin = true
	}
	if p.arity(fanin) > 4 {
		p.GIn = true
	}
	if room := 4 - p.arity(fanin); room > 0 {
		p.Extra = rapid.IntRange(0, room).Draw(t, "extra")
	}
}

func genCase(t *rapid.T) Case {
	c := Case{Variant: "pipeline", Procs: []int{1, 2, 16}}
	if rapid.IntRange(0, 3).Draw(t, "fanin") == 0 {
		c.Variant = "fanin"
	}
	fanin := c.Variant == "fanin"
	src := rapid.SampledFrom([]string{"int", "int", "float", "float", "str"}).Draw(t, "src")
	m := 1
	if fanin {
		m = rapid.IntRange(2, 4).Draw(t, "m")
	}
	budget := 200
	for p := 0; p < m; p++ {
		s := Proc{Role: "src", Src: src}
		if fanin {
			s.N = genN(t, "n", min(budget, 70))
			s.A = int64(p+1)*1000 + rapid.Int64Range(0, 5).Draw(t, "a")
		} else {
			s.N = genN(t, "n", 200)
			s.A = rapid.Int64Range(-6, 6).Draw(t, "a")
		}
		budget -= s.N
		for i := range s.Y {
			s.Y[i] = genYield(t, "y")
		}
		s.YGo = genYield(t, "ygo")
		genLaunch(t, &s, fanin)
		c.Srcs = append(c.Srcs, s)
	}
	k := srcKind(src)
	ch, k := genChan(t, k, "c0")
	c.Chans = append(c.Chans, ch)
	nx := rapid.IntRange(0, 3).Draw(t, "stages")
	for j := 0; j < nx; j++ {
		x := Proc{Role: "xf"}
		var gs []string
		if k == 's' {
			gs = []string{"id", "str", "tag", "tag"}
		} else {
			gs = []string{"id", "add", "add", "mul", "mul", "half", "addf", "str", "tag"}
		}
		x.G = rapid.SampledFrom(gs).Draw(t, "g")
		switch x.G {
		case "mul":
			x.A = rapid.SampledFrom([]int64{2, 3, -1, -2}).Draw(t, "a")
		default:
			x.A = rapid.Int64Range(-5, 5).Draw(t, "a")
		}
		recvs := []string{"forin", "forin", "ok2", "expr", "restart", "restart"}
		if x.G == "id" {
			recvs = append(recvs, "relay", "relay")
		}
		x.Recv = rapid.SampledFrom(recvs).Draw(t, "recv")
		if x.Recv == "restart" {
			x.M = genM(t, "restart_m")
		}
		for i := range x.Y {
			x.Y[i] = genYield(t, "y")
		}
		x.YGo = genYield(t, "ygo")
		genLaunch(t, &x, fanin)
		k, _ = gKind(x.G, k)
		ch, k = genChan(t, k, "cx")
		c.Chans = append(c.Chans, ch)
		c.Xfs = append(c.Xfs, x)
	}
	goroutines := m + nx
	if fanin {
		goroutines++
		c.JoinBuf = rapid.IntRange(0, m).Draw(t, "joinbuf")
	}
	c.DoneBuf = rapid.IntRange(0, goroutines).Draw(t, "donebuf")
	c.Cons = Cons{
		Recv:    rapid.SampledFrom([]string{"forin", "forin", "ok2", "ok2", "expr", "counted", "early", "early", "early", "early"}).Draw(t, "crecv"),
		Collect: rapid.SampledFrom([]string{"list", "list", "out"}).Draw(t, "collect"),
		Y:       genYield(t, "cy"),
	}
	if c.Cons.Recv == "early" {
		c.Cons.Early = &Early{
			M:    genM(t, "early_m"),
			R:    rapid.SampledFrom([]int{1, 1, 2, 3}).Draw(t, "early_r"),
			How:  rapid.SampledFrom([]string{"break", "break", "return", "throw"}).Draw(t, "early_how"),
			Then: rapid.SampledFrom([]string{"forin", "forin", "ok2", "expr"}).Draw(t, "early_then"),
		}
	}
	if rapid.IntRange(0, 3).Draw(t, "prefill") == 0 {
		// everything fits into the last buffer: producer side finishes before the consumer starts
		c.Prefill = true
		lastCh := &c.Chans[len(c.Chans)-1]
		lastCh.Buf = rapid.IntRange(1, 3).Draw(t, "prefill_buf")
		room := lastCh.Buf
		for i := range c.Srcs {
			c.Srcs[i].N = rapid.IntRange(0, room).Draw(t, "prefill_n")
			if i == len(c.Srcs)-1 && rapid.IntRange(0, 2).Draw(t, "prefill_full") != 0 {
				c.Srcs[i].N = room
			}
			room -= c.Srcs[i].N
		}
	}
	np := rapid.IntRange(0, 4).Draw(t, "npost")
	for i := 0; i < np; i++ {
		c.Post = append(c.Post, Post{
			Op: rapid.SampledFrom([]string{"rx", "rx2", "forin", "send", "close"}).Draw(t, "post"),
			Ch: rapid.IntRange(0, len(c.Chans)-1).Draw(t, "postch"),
		})
	}
	return c
}

// ---------------------------------------------------------------------------
// judging
// ---------------------------------------------------------------------------

func showSeq(s []mv, around int) string {
	lo, hi := around-3, around+4
	if lo < 0 {
		lo = 0
	}
	if hi > len(s) {
		hi = len(s)
	}
	parts := []string{}
	for i := lo; i < hi; i++ {
		parts = append(parts, fmt.Sprintf("[%d]=%s", i, s[i]))
	}
	return fmt.Sprintf("len %d: … %s …", len(s), strings.Join(parts, " "))
}

func multisetDiff(want, got []mv) (missing, extra int) {
	cnt := map[string]int{}
	for _, v := range want {
		cnt[v.String()]++
	}
	for _, v := range got {
		cnt[v.String()]--
	}
	for _, n := range cnt {
		if n > 0 {
			missing += n
		} else {
			extra -= n
		}
	}
	return
}

// judgeDelivery compares the received sequence with the per-source expectation.
func judgeDelivery(c Case, exp [][]mv, got []mv) (clause, detail string) {
	if len(exp) == 1 {
		want := exp[0]
		for i := 0; i < len(want) && i < len(got); i++ {
			if want[i].eq(got[i]) {
				continue
			}
			cl := "wrong-value"
			missing, extra := multisetDiff(want, got)
			switch {
			case sameNumber(want[i], got[i]):
				cl = "conversion"
			case missing == 0 && extra == 0:
				cl = "order"
			case i+1 < len(want) && want[i+1].eq(got[i]) && extra == 0:
				cl = "lost"
			case i > 0 && want[i-1].eq(got[i]) && missing == 0:
				cl = "duplicate"
			}
			return cl, fmt.Sprintf("first difference at index %d: expected %s, received %s\nexpected %s\nreceived %s", i, want[i], got[i], showSeq(want, i), showSeq(got, i))
		}
		if len(got) < len(want) {
			return "lost", fmt.Sprintf("%d of %d items never arrived (a prefix did)\nexpected %s\nreceived %s", len(want)-len(got), len(want), showSeq(want, len(got)), showSeq(got, len(got)))
		}
		if len(got) > len(want) {
			return "duplicate", fmt.Sprintf("%d items more than sent\nexpected %s\nreceived %s", len(got)-len(want), showSeq(want, len(want)), showSeq(got, len(want)))
		}
		return "", ""
	}
	var all []mv
	for _, s := range exp {
		all = append(all, s...)
	}
	missing, extra := multisetDiff(all, got)
	if missing > 0 || extra > 0 {
		cl := "wrong-value"
		switch {
		case extra == 0:
			cl = "lost"
		case missing == 0:
			cl = "duplicate"
		}
		return cl, fmt.Sprintf("multiset differs: %d expected items missing, %d unexpected items; %d expected, %d received\nreceived %s", missing, extra, len(all), len(got), showSeq(got, 0))
	}
	// per-source order: got must be an interleaving. Greedy matching is exact when
	// no value is expected from two different sources.
	owner := map[string]int{}
	for si, s := range exp {
		for _, v := range s {
			if o, ok := owner[v.String()]; ok && o != si {
				return "", "" // ambiguous (not generated): multiset equality only
			}
			owner[v.String()] = si
		}
	}
	next := make([]int, len(exp))
	for gi, v := range got {
		si := owner[v.String()]
		if next[si] >= len(exp[si]) || !exp[si][next[si]].eq(v) {
			return "order", fmt.Sprintf("received[%d]=%s overtakes an earlier item of source %d (its item #%d was due)\nreceived %s", gi, v, si, next[si], showSeq(got, gi))
		}
		next[si]++
	}
	return "", ""
}

func postExpect(op string) []mv {
	switch op {
	case "rx":
		return []mv{{k: 'n'}}
	case "rx2":
		return []mv{{k: 's', s: "W"}, {k: 'b', b: false}}
	case "forin":
		return []mv{{k: 'i', i: 0}}
	}
	return []mv{{k: 'i', i: 1}} // send / close: the catch block ran
}

func judge(c Case, exp [][]mv, r *runResult) *h.Fail {
	v := c.Variant
	src := r.src
	if r.hostPanic != "" {
		return h.Failf("C16|host-panic|"+v+"|"+r.hostPanicNorm, "a Go panic escaped into the host\nsource:\n%s\npanic: %s", src, r.hostPanic)
	}
	if r.runaway {
		return h.Failf("C16|runaway-loop|"+v, "the receive loops of the program ran more iterations than there are messages (a loop over a channel does not end, or messages are multiplied)\nsource:\n%s", src)
	}
	if len(r.gerrs) > 0 {
		g := r.gerrs[0]
		return h.Failf("C16|goroutine-error|"+v+"|"+normMsg(g), "a script goroutine failed with an error although every operation it does is defined\nsource:\n%s\nerror: %s", src, g)
	}
	if r.err != "" {
		return h.Failf("C16|unexpected-error|"+v+"|"+normMsg(r.err), "the main script failed\nsource:\n%s\nerror: %s", src, r.err)
	}
	top, ok := r.value.([]interface{})
	if !ok || len(top) != 3 {
		return h.Failf("C16|result-shape|"+v, "source:\n%s\nresult is not the 3-element list the script builds: %T %v", src, r.value, r.value)
	}
	var got []mv
	if c.Cons.Collect == "out" {
		for _, x := range r.outs {
			got = append(got, fromGo(x))
		}
	} else {
		lst, ok := top[0].([]interface{})
		if !ok {
			return h.Failf("C16|result-shape|"+v, "source:\n%s\nres is %T", src, top[0])
		}
		for _, x := range lst {
			got = append(got, fromGo(x))
		}
	}
	if cl, detail := judgeDelivery(c, exp, got); cl != "" {
		return h.Failf("C16|"+cl+"|"+v, "%s\nsource:\n%s", detail, src)
	}
	finalRecv, finalItems := c.Cons.Recv, len(got)
	if e := c.Cons.Early; e != nil {
		// the early segments take exactly min(R*M, total) items (delivery was just verified)
		finalRecv = e.Then
		finalItems = len(got) - min(e.R*e.M, len(got))
	}
	if finalRecv == "ok2" {
		want := mv{k: 's', s: "S"}
		if finalItems > 0 {
			// the variable keeps the last value that was really received
			want = got[len(got)-1]
		}
		if lv := fromGo(top[1]); !lv.eq(want) {
			return h.Failf("C16|ok-false-touches-value|"+v, "after `mv, mok = <-c` reported mok=false the value variable is %s, expected it untouched: %s\nsource:\n%s", lv, want, src)
		}
	}
	obs, ok := top[2].([]interface{})
	if !ok {
		return h.Failf("C16|result-shape|"+v, "source:\n%s\nobs is %T", src, top[2])
	}
	pos := 0
	for i, p := range c.Post {
		want := postExpect(p.Op)
		if pos+len(want) > len(obs) {
			return h.Failf("C16|result-shape|"+v, "source:\n%s\nobs too short: %v", src, obs)
		}
		for j, w := range want {
			if g := fromGo(obs[pos+j]); !g.eq(w) {
				return h.Failf("C16|after-close-"+p.Op+"|"+v, "post operation #%d (%s on the closed and drained channel c%d) observed %s, expected %s\nsource:\n%s", i, p.Op, p.Ch, g, w, src)
			}
		}
		pos += len(want)
	}
	if pos != len(obs) {
		return h.Failf("C16|result-shape|"+v, "source:\n%s\nobs too long: %v", src, obs)
	}
	return nil
}

func normMsg(s string) string {
	var b strings.Builder
	for _, r := range s {
		if r >= '0' && r <= '9' {
			continue
		}
		b.WriteRune(r)
	}
	s = b.String()
	if len(s) > 100 {
		s = s[:100]
	}
	return s
}

// ---------------------------------------------------------------------------
// oracle
// ---------------------------------------------------------------------------

func bufClass(b int) string {
	switch {
	case b == 0:
		return "buf_0"
	case b == 1:
		return "buf_1"
	}
	return "buf_2to3"
}

func nClass(n int) string {
	switch {
	case n == 0:
		return "n_0"
	case n == 1:
		return "n_1"
	case n <= 12:
		return "n_2to12"
	case n <= 60:
		return "n_13to60"
	}
	return "n_61to200"
}

func classify(c Case, kinds []byte, o *h.Obs) {
	fanin := c.Variant == "fanin"
	o.Class("variant_" + c.Variant)
	total, sumBuf, unbuf := 0, 0, false
	for _, s := range c.Srcs {
		total += s.N
	}
	o.Class(nClass(total))
	o.Class("stages_%d", len(c.Xfs)+1)
	for j, ch := range c.Chans {
		o.Class("elem_" + ch.Type)
		o.Class(bufClass(ch.Buf))
		sumBuf += ch.Buf
		if ch.Buf == 0 {
			unbuf = true
		}
		// conversions really applied on this channel
		before := srcKind(c.Srcs[0].Src)
		if j > 0 {
			before, _ = gKind(c.Xfs[j-1].G, kinds[j-1])
		}
		if before != kinds[j] {
			o.Class("convert_%c_to_%s", before, ch.Type)
		}
	}
	if fanin {
		o.Class("fanin_m_%d", len(c.Srcs))
	}
	goroutines := 1 + len(c.Srcs) + len(c.Xfs)
	if fanin {
		goroutines++
	}
	o.Class("goroutines_%d", goroutines)
	o.NonTrivial = goroutines >= 2 && (unbuf || total > sumBuf)
	if unbuf {
		o.Class("has_unbuffered_channel")
	}
	if total > sumBuf {
		o.Class("n_exceeds_buffer_sum")
	}
	for _, p := range append(append([]Proc{}, c.Srcs...), c.Xfs...) {
		if p.reflectPath(fanin) {
			o.Class("go_path_reflect")
			if p.Variadic {
				o.Class("go_variadic")
			} else {
				o.Class("go_arity_ge5")
			}
		} else {
			o.Class("go_path_direct")
		}
		o.Class("go_start_" + p.Start)
		if p.Spread {
			o.Class("go_call_with_spread_list_" + p.Start)
		}
		if p.ArgExpr {
			o.Class("go_arg_is_expression")
		}
		if p.Role == "xf" {
			o.Class("stage_recv_" + p.Recv)
			o.Class("g_" + p.G)
		}
		if p.Y[0]+p.Y[1]+p.Y[2]+p.YGo > 0 {
			o.Class("goroutine_with_yield")
		}
	}
	o.Class("consumer_" + c.Cons.Recv)
	if e := c.Cons.Early; e != nil {
		o.Class("early_leave_by_" + e.How)
		o.Class("early_then_" + e.Then)
		o.Class("early_segments_%d", e.R)
		switch {
		case e.M == 1:
			o.Class("early_m_1")
		case e.M == 2:
			o.Class("early_m_2")
		default:
			o.Class("early_m_3to40")
		}
		if e.R*e.M < total {
			o.Class("early_exit_really_leaves_items_behind")
		}
		if c.Chans[len(c.Chans)-1].Buf >= 2 {
			o.Class("early_on_channel_with_buffer_ge2")
		}
	}
	if c.Prefill {
		o.Class("prefilled_and_closed_before_consumer_starts")
		if c.Cons.Early != nil && total >= 2 {
			o.Class("early_on_prefilled_buffer_with_ge2_items")
		}
	}
	o.Class("collect_" + c.Cons.Collect)
	for _, p := range c.Post {
		o.Class("after_close_" + p.Op)
	}
}

func oracleFor(reps int) func(Case, *h.Obs) *h.Fail {
	return func(c Case, o *h.Obs) *h.Fail {
		kinds, problem := validate(c)
		if problem != "" {
			o.Excluded = "outside_domain"
			return nil
		}
		src := source(c)
		o.Key = fmt.Sprintf("%s\n// GOMAXPROCS %v", src, c.Procs)
		o.Note = o.Key
		if hangSeen["pipeline"] && !ctxRef.InReplay() {
			// a hanging case costs a minute: once one was reported, this process runs no further pipelines
			o.Excluded = "a run that does not finish was already reported by this process"
			return nil
		}
		classify(c, kinds, o)
		exp := expect(c)
		total := 0
		for _, s := range c.Srcs {
			total += s.N
		}
		// receive-loop iterations: every transformer and the consumer see each item once
		tickLimit := int64(2*(total+2)*(len(c.Xfs)+2) + 64)
		for _, procs := range c.Procs {
			var fail *h.Fail
			withProcs(procs, func() {
				for rep := 0; rep < reps && fail == nil; rep++ {
					o.Class("runs_gomaxprocs_%d", procs)
					r := runOnce(src, runDeadline, tickLimit)
					if r.stuck != "" {
						o.Class("stuck_first_run")
						first := r.stuck
						r = runOnce(src, 5*runDeadline, tickLimit)
						if r.stuck != "" || first == "deadlock" {
							again := "it did not finish again"
							if r.stuck == "" {
								again = "that run finished"
							}
							fail = h.Failf("C16|stuck|"+c.Variant, "the run did not finish: %s (GOMAXPROCS=%d, repetition %d); re-run alone with 5x the bound: %s\nsource:\n%s", describeStuck(first), procs, rep, again, src)
							fail.NoShrink = true // every re-execution of a hanging case costs up to a minute
							hangSeen["pipeline"] = true
							return
						}
						o.Class("stuck_not_reproduced")
					}
					if !r.quiesced {
						o.Class("goroutines_slow_to_exit")
					}
					if f := judge(c, exp, r); f != nil {
						f.Msg = fmt.Sprintf("GOMAXPROCS=%d repetition %d\n%s", procs, rep, f.Msg)
						fail = f
					}
				}
			})
			if fail != nil {
				return fail
			}
		}
		return nil
	}
}

func describeStuck(kind string) string {
	if kind == "deadlock" {
		return "every script goroutine was blocked in a channel operation in two consecutive snapshots (a message was lost or a close was not seen)"
	}
	return "the deadline passed"
}

// hangSeen: a sub-check of this process has reported a run that does not finish (see the oracles).
var hangSeen = map[string]bool{}
var ctxRef *h.Ctx

// only: development aid - C16_ONLY=join,capacity generates cases for just those sub-checks (unset: all of them).
func only(name string, n int) int {
	if v := os.Getenv("C16_ONLY"); v != "" && !oneOf(name, strings.Split(v, ",")...) {
		return 0
	}
	return n
}

func TestC16(t *testing.T) {
	c := h.New(t, "C16")
	defer c.Finish()
	ctxRef = c
	reps := 3
	if c.Thorough() {
		reps = 20
	}
	c.Extra("repetitions_per_gomaxprocs", float64(reps))
	c.Rule(fmt.Sprintf("pipelines: 1 source goroutine (or 2..4 sources into one channel + closer goroutine with a join channel), 0..3 transformer goroutines, n in 0..200 items, buffers 0..3, element types int64/float64/string/interface, every goroutine started by go (named/var/literal/item/member; <=4 params direct path, >=5 or variadic reflect path) with value arguments the caller changes right after the go statement; yield(j) at generated points; each program run under GOMAXPROCS 1,2,16 x %d repetitions with -race; non-trivial = >=2 goroutines and (>=1 unbuffered channel or n > sum of buffers); distinct by (source text, GOMAXPROCS list)", reps))
	c.Rule("closed: one goroutine, one channel, generated send/receive/close sequence that never blocks, modelled as a FIFO with a closed flag; non-trivial = at least one operation after close while an item is still buffered or an error-raising operation")
	h.Run(c, "pipeline", only("pipeline", c.N(400, 700)), genCase, oracleFor(reps))
	h.Run(c, "closed", only("closed", c.N(1500, 20000)), genClosed, oracleClosed)
	c.Rule(fmt.Sprintf("fanout: 1..3 sources (200..1000 items in all) into one channel with buffer 1..3, 2..4 worker goroutines consuming it concurrently (for-in / two-value loop / receive-expression loop until nil / capped two-value / capped receive-expression; at least one worker ends only on close), forwarding to a results channel or host out(); GOMAXPROCS 1,2,16 x %d; non-trivial = items > buffer", reps))
	h.Run(c, "fanout", only("fanout", c.N(36, 40)), genFan, oracleFan(reps))
	c.Rule("twins: 2..4 independent pipelines (1..3 forwarding stages, 0..150 items, buffers 0..2) running at once from ONE source text (one stage function, one runner function); items are int64 or *int64 with every third a nil pointer; a stage hands an item on by a literal call, a parenthesised call, a member call, an element call, a named call or a plain send; every pipeline must deliver exactly its own items in order; GOMAXPROCS 2,4,16 x 1..3; non-trivial = >= 2 items per pipeline")
	h.Run(c, "twins", only("twins", c.N(150, 1500)), genTwins, oracleTwins)
	c.Rule("drained: a channel of every kind of element type (pointers, slices, maps, interface, channel, scalars), closed and drained: a receive expression (as an argument, assigned, as a list / map element, returned by a function) yields the untyped nil; close twice (also in a loop) is an error; close of a pointer to a channel or of a nil channel is an error, never a crash. goargs: 4-40 go calls of a worker with 1-5 parameters whose first argument has a side effect (a receive from a jobs channel, a host counter): the workers receive every job number exactly once and the counter is called once per go call; 257-320 goroutines parked on a gate all run concurrently with their caller; all cases non-trivial")
	h.Run(c, "drained", only("drained", c.N(1200, 12000)), genDrained, oracleDrained)
	h.Run(c, "goargs", only("goargs", c.N(120, 1200)), genGoArgs, oracleGoArgs)
	c.Rule("join: one consumer (top level / called function / go-started function) over 2..4 channels of 0..8 items each (producer goroutine with buffer 0..3, or buffer filled beforehand, closed or still open), its statements generated: loops over a channel (for-in / two-value / receive-expression, run to the close or left by break after 1..3 items) whose bodies hold receives from any channel (receive expression assigned / as a list element / as an argument / as the operand of a send, two-value and one-value receive statements), nested loops, channels made, filled and closed in the body, function literals called in the body; every receive and loop end is recorded and compared with an interpreter of the consumer over FIFO queues; at the end every channel is drained; GOMAXPROCS two of 1,2,16; non-trivial = some loop asks for its next item after a receive happened in its body")
	h.Run(c, "join", only("join", c.N(250, 2500)), genJoin, oracleJoin)
	c.Rule("capacity: make(chan T, n) takes n items while nobody receives: n from 0 to 2^17+1, in the thorough tier to 2^20+1 (edge values around powers of two, sizes that do not fit into 16 bits), filled by the main goroutine, by 2..4 workers joined before the first receive, or (large n) by the host with Go's non-blocking send for all but the last 1..200 items; then close and drain; non-trivial = filled to the brim with at least 2 items")
	h.Run(c, "capacity", only("capacity", c.N(20, 150)), genCapFor(c.Thorough()), oracleCap)
	c.Rule("heldsend: 1..3 sender goroutines, each sending N = b+1..b+4 times the content of one slot (element of a typed slice / of a nested slice, struct field, field of a struct element, pointer target, a whole struct, a struct element, a list element; int64/float64/string/bool) on its own channel with buffer b in 0..2 (element type of the slot, interface, or the other numeric type); the main flow, in rounds, waits until a stopped-world goroutine snapshot shows every sender that still has a send pending parked in a select, stores the next value into every slot (host poke, directly / from a called function / from a helper goroutine), then receives one item per channel; send k must deliver the value the slot held when send k ran: w[0] for k <= b, w[k-b] after that; non-trivial = every case (at least one send is parked while its slot is overwritten)")
	h.Run(c, "heldsend", only("heldsend", c.N(160, 1600)), genHeld, oracleHeld)
	c.Rule("loopvar: a producer (goroutine, or the buffer filled and closed beforehand) sends items 1..N (N in 0..30; int64, float64, string, bool, a struct type, pointers to it, int64 on chan interface; buffer 0..3) through 0..2 stage goroutines to a consumer (top level / called function / goroutine), every one of them a for-in over its input channel whose body changes the loop variable in place (0..3 of: v = v * 3, v += 7, v++, v--, v = -v, v = v, an assignment inside a nested block, v = f(v), s += \"!\", b = !b) and hands it on at once, or one round late after keeping it under another name (bound directly or through a function parameter), or (consumer) remembers the first item until the end; the recorded sequence must be the sent items with every loop's operations applied once each; GOMAXPROCS two of 1,2,16 x 1..2; non-trivial = N >= 2 and some loop assigns its variable or keeps an item")
	h.Run(c, "loopvar", only("loopvar", c.N(220, 2200)), genLV, oracleLV)
}
