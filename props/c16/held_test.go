package c16

// Sub-check "heldsend": the value a send delivers is the value its operand had when the send
// statement ran, also when the send blocks and the place the operand was read from is stored
// into before a receiver arrives.
//
// A sender goroutine sends N times the content of one slot (an element of a typed slice, of a
// nested slice, a struct field, a field of a struct element, what a pointer points to, a whole
// struct, an element of a list) on its own channel with buffer b < N. The main flow works in
// rounds: waitparked(k) - a host function - returns once a runtime.Stack snapshot (taken with the
// world stopped) shows exactly k goroutines that execute script code parked in a select; the only
// channel operation a sender ever executes is its send, so a parked sender HAS evaluated the
// operand of the send it is parked in (the interpreter evaluates both operands before it calls
// reflect.Select) and stays parked until the main flow receives. Only then the main flow stores
// the next value into the slot, and only then it receives one item. The sender wakes up after
// that receive (channel synchronisation), so the operand of its next send is read after the store
// of this round and - because the main flow waits for it to park again - before the store of the
// next round. Every send therefore has exactly one possible value, whatever the schedule:
// send k carries w[0] for k <= b and w[k-b] after that. Nothing is asserted when the handshake
// does not complete in time (excluded, counted).
//
// The store is made by the host function poke(pointer, value), compiled with go:norace: it is
// ordered after the sender's read by the stopped-world snapshot, which the race detector cannot
// know about (a plain script store would be reported by it as a race on the unchanged tree).

import (
	"bytes"
	"fmt"
	"runtime"
	"strings"
	"sync/atomic"
	"time"

	"pgregory.net/rapid"

	"verif/internal/ank"
	"verif/internal/h"
)

type HeldSender struct {
	Slot  string `json:"slot"`  // elem | nested | field | sfield | deref | whole | welem | listitem
	Typ   string `json:"typ"`   // int64 | float64 | string | bool: type of the slot (for whole / welem: of the field that is stored and reported)
	Chan  string `json:"chan"`  // same | interface | conv (int64 slot on chan float64, float64 slot on chan int64)
	Buf   int    `json:"buf"`   // 0..2
	N     int    `json:"n"`     // sends, Buf+1 .. Buf+4
	Form  string `json:"form"`  // loop | unrolled | paren (operand in parentheses)
	Start string `json:"start"` // lit | named | var
}

type HeldCase struct {
	Senders []HeldSender `json:"senders"`
	By      string       `json:"by"` // main | func | helper: who calls poke
	Rx      string       `json:"rx"` // expr | ok2
	Procs   []int        `json:"procs"`
	Reps    int          `json:"reps"`
}

var heldField = map[string]string{"int64": "N", "float64": "F", "string": "S", "bool": "B"}

func heldAddressable(slot string) bool { return slot != "listitem" }

// heldVal is w[r] of sender j.
func heldVal(typ string, j, r int) mv {
	x := int64(1000*(j+1) + r)
	switch typ {
	case "float64":
		return mv{k: 'f', f: float64(x) + 0.5}
	case "string":
		return mv{k: 's', s: fmt.Sprintf("w%d_%d", j, r)}
	case "bool":
		return mv{k: 'b', b: r%2 == 0}
	}
	return mv{k: 'i', i: x}
}

func heldLit(v mv) string {
	switch v.k {
	case 'f':
		return fmt.Sprintf("%.1f", v.f)
	case 's':
		return fmt.Sprintf("%q", v.s)
	case 'b':
		return fmt.Sprint(v.b)
	}
	return fmt.Sprint(v.i)
}

func heldChanType(s HeldSender) string {
	whole := s.Slot == "whole" || s.Slot == "welem"
	switch {
	case s.Chan == "interface":
		return "interface"
	case whole:
		return "Item"
	case s.Chan == "conv" && s.Typ == "int64":
		return "float64"
	case s.Chan == "conv" && s.Typ == "float64":
		return "int64"
	}
	return s.Typ
}

// heldDelivered is what the receiver sees of a sent value v.
func heldDelivered(s HeldSender, v mv) mv {
	if s.Slot == "whole" || s.Slot == "welem" {
		return v
	}
	return conv(v, heldChanType(s))
}

func validHeld(c HeldCase) bool {
	if len(c.Senders) < 1 || len(c.Senders) > 3 || !oneOf(c.By, "main", "func", "helper") || !oneOf(c.Rx, "expr", "ok2") || len(c.Procs) < 1 || len(c.Procs) > 3 || c.Reps < 1 || c.Reps > 5 {
		return false
	}
	for _, p := range c.Procs {
		if p < 1 || p > 64 {
			return false
		}
	}
	for _, s := range c.Senders {
		if !oneOf(s.Slot, "elem", "nested", "field", "sfield", "deref", "whole", "welem", "listitem") || !oneOf(s.Typ, "int64", "float64", "string", "bool") ||
			!oneOf(s.Chan, "same", "interface", "conv") || s.Buf < 0 || s.Buf > 3 || s.N <= s.Buf || s.N > s.Buf+6 ||
			!oneOf(s.Form, "loop", "unrolled", "paren") || !oneOf(s.Start, "lit", "named", "var") {
			return false
		}
		if s.Chan == "conv" && (!oneOf(s.Typ, "int64", "float64") || s.Slot == "whole" || s.Slot == "welem") {
			return false
		}
	}
	return true
}

// heldSlot returns the declarations of sender j's slot, the operand expression, and the
// expression of the pointer poke stores through.
func heldSlot(s HeldSender, j int) (decl, operand, ptr string) {
	w0 := heldLit(heldVal(s.Typ, j, 0))
	f := heldField[s.Typ]
	switch s.Slot {
	case "elem":
		return fmt.Sprintf("xs%d = make([]%s, 3)\nxs%d[1] = %s\n", j, s.Typ, j, w0), fmt.Sprintf("xs%d[1]", j), fmt.Sprintf("&xs%d[1]", j)
	case "nested":
		return fmt.Sprintf("xx%d = make([][]%s, 2)\nxx%d[1] = make([]%s, 2)\nxx%d[1][0] = %s\n", j, s.Typ, j, s.Typ, j, w0), fmt.Sprintf("xx%d[1][0]", j), fmt.Sprintf("&xx%d[1][0]", j)
	case "field":
		return fmt.Sprintf("it%d = make(Item)\nit%d.%s = %s\n", j, j, f, w0), fmt.Sprintf("it%d.%s", j, f), fmt.Sprintf("&it%d.%s", j, f)
	case "sfield":
		return fmt.Sprintf("ps%d = make([]Item, 2)\nps%d[1].%s = %s\n", j, j, f, w0), fmt.Sprintf("ps%d[1].%s", j, f), fmt.Sprintf("&ps%d[1].%s", j, f)
	case "deref":
		return fmt.Sprintf("p%d = new(%s)\n*p%d = %s\n", j, s.Typ, j, w0), fmt.Sprintf("*p%d", j), fmt.Sprintf("p%d", j)
	case "whole":
		return fmt.Sprintf("it%d = make(Item)\nit%d.%s = %s\n", j, j, f, w0), fmt.Sprintf("it%d", j), fmt.Sprintf("&it%d.%s", j, f)
	case "welem":
		return fmt.Sprintf("ps%d = make([]Item, 2)\nps%d[1].%s = %s\n", j, j, f, w0), fmt.Sprintf("ps%d[1]", j), fmt.Sprintf("&ps%d[1].%s", j, f)
	}
	// listitem: an element of a list of interface values (the value read from it is not addressable)
	return fmt.Sprintf("l%d = [0, %s]\n", j, w0), fmt.Sprintf("l%d[1]", j), fmt.Sprintf("&l%d[1]", j)
}

func heldSource(c HeldCase) string {
	var b strings.Builder
	b.WriteString("make(type Item, make(struct { N int64, F float64, S string, B bool }))\n")
	if c.By == "func" {
		b.WriteString("func st(p, v) {\n\tpoke(p, v)\n}\n")
	}
	if c.By == "helper" {
		b.WriteString("okc = make(chan int64, 1)\n")
	}
	rounds := 0
	ptrs := make([]string, len(c.Senders))
	for j, s := range c.Senders {
		decl, operand, ptr := heldSlot(s, j)
		ptrs[j] = ptr
		b.WriteString(decl)
		fmt.Fprintf(&b, "c%d = make(chan %s, %d)\nr%d = []\n", j, heldChanType(s), s.Buf, j)
		if s.Form == "paren" {
			operand = "(" + operand + ")"
		}
		var body strings.Builder
		body.WriteString("\ttry {\n")
		if s.Form == "unrolled" {
			for i := 0; i < s.N; i++ {
				fmt.Fprintf(&body, "\t\tc%d <- %s\n", j, operand)
			}
		} else {
			fmt.Fprintf(&body, "\t\tfor i%d = 0; i%d < %d; i%d++ {\n\t\t\tc%d <- %s\n\t\t}\n", j, j, s.N, j, j, operand)
		}
		fmt.Fprintf(&body, "\t} catch e%d {\n\t\tgerr(%d, \"\" + e%d)\n\t}\n\tclose(c%d)\n", j, j, j, j)
		switch s.Start {
		case "named":
			fmt.Fprintf(&b, "func s%d() {\n%s}\ngo s%d()\n", j, body.String(), j)
		case "var":
			fmt.Fprintf(&b, "s%d = func() {\n%s}\ngo s%d()\n", j, body.String(), j)
		default:
			fmt.Fprintf(&b, "go func() {\n%s}()\n", body.String())
		}
		if s.N-s.Buf > rounds {
			rounds = s.N - s.Buf
		}
	}
	for r := 0; r < rounds; r++ {
		active := 0
		for _, s := range c.Senders {
			if r < s.N-s.Buf {
				active++
			}
		}
		fmt.Fprintf(&b, "if !waitparked(%d) {\n\tthrow \"HANDSHAKE\"\n}\n", active)
		for j, s := range c.Senders {
			if r >= s.N-s.Buf {
				continue
			}
			lit := heldLit(heldVal(s.Typ, j, r+1))
			switch c.By {
			case "func":
				fmt.Fprintf(&b, "st(%s, %s)\n", ptrs[j], lit)
			case "helper":
				fmt.Fprintf(&b, "go func(p, v) {\n\tpoke(p, v)\n\tokc <- 1\n}(%s, %s)\n<-okc\n", ptrs[j], lit)
			default:
				fmt.Fprintf(&b, "poke(%s, %s)\n", ptrs[j], lit)
			}
		}
		for j, s := range c.Senders {
			if r >= s.N-s.Buf {
				continue
			}
			if c.Rx == "ok2" {
				fmt.Fprintf(&b, "g%d, k%d = <-c%d\n", j, j, j)
			} else {
				fmt.Fprintf(&b, "g%d = <-c%d\n", j, j)
			}
			fmt.Fprintf(&b, "r%d += [%s]\n", j, heldReport(s, fmt.Sprintf("g%d", j)))
		}
	}
	var names []string
	for j, s := range c.Senders {
		fmt.Fprintf(&b, "for d%d in c%d {\n\ttick()\n\tr%d += [%s]\n}\n", j, j, j, heldReport(s, fmt.Sprintf("d%d", j)))
		names = append(names, fmt.Sprintf("r%d", j))
	}
	b.WriteString("[" + strings.Join(names, ", ") + "]\n")
	return b.String()
}

func heldReport(s HeldSender, name string) string {
	if s.Slot == "whole" || s.Slot == "welem" {
		return name + "." + heldField[s.Typ]
	}
	return name
}

// heldExpect: send k carries w[0] for k <= Buf, w[k-Buf] afterwards.
func heldExpect(s HeldSender, j int) []mv {
	var out []mv
	for k := 0; k < s.N; k++ {
		r := k - s.Buf
		if r < 0 {
			r = 0
		}
		out = append(out, heldDelivered(s, heldVal(s.Typ, j, r)))
	}
	return out
}

func genHeld(t *rapid.T) HeldCase {
	c := HeldCase{
		By:   rapid.SampledFrom([]string{"main", "main", "func", "helper"}).Draw(t, "by"),
		Rx:   rapid.SampledFrom([]string{"expr", "expr", "ok2"}).Draw(t, "rx"),
		Reps: rapid.IntRange(1, 2).Draw(t, "reps"),
	}
	c.Procs = rapid.SampledFrom([][]int{{1, 16}, {2, 16}, {1, 2}, {2}, {16}}).Draw(t, "procs")
	ns := rapid.SampledFrom([]int{1, 1, 1, 2, 2, 3}).Draw(t, "senders")
	for j := 0; j < ns; j++ {
		s := HeldSender{
			Slot:  rapid.SampledFrom([]string{"elem", "elem", "nested", "field", "field", "sfield", "deref", "deref", "whole", "welem", "listitem"}).Draw(t, "slot"),
			Typ:   rapid.SampledFrom([]string{"int64", "int64", "float64", "string", "string", "bool"}).Draw(t, "typ"),
			Chan:  rapid.SampledFrom([]string{"same", "same", "same", "interface", "conv"}).Draw(t, "chan"),
			Form:  rapid.SampledFrom([]string{"loop", "loop", "unrolled", "paren"}).Draw(t, "form"),
			Start: rapid.SampledFrom([]string{"lit", "lit", "named", "var"}).Draw(t, "start"),
		}
		if rapid.IntRange(0, 1).Draw(t, "buffered") == 1 {
			s.Buf = rapid.IntRange(1, 2).Draw(t, "buf")
		}
		s.N = s.Buf + rapid.IntRange(1, 4).Draw(t, "blocked")
		if s.Chan == "conv" && (!oneOf(s.Typ, "int64", "float64") || s.Slot == "whole" || s.Slot == "welem") {
			s.Chan = "same"
		}
		c.Senders = append(c.Senders, s)
	}
	return c
}

// parkedScriptGoroutines counts the goroutines that execute script code and are parked in a
// select (-1: the dump cannot be read).
func parkedScriptGoroutines(buf []byte) int {
	n := runtime.Stack(buf, true)
	if n >= len(buf) {
		return -1
	}
	cnt := 0
	for _, g := range bytes.Split(buf[:n], []byte("\n\n")) {
		if !bytes.Contains(g, []byte(vmMarker)) {
			continue
		}
		if bytes.Contains(g, []byte("frames elided")) {
			return -1
		}
		head := g
		if i := bytes.IndexByte(g, '\n'); i >= 0 {
			head = g[:i]
		}
		i := bytes.IndexByte(head, '[')
		if i < 0 || !bytes.HasPrefix(head, []byte("goroutine ")) {
			return -1
		}
		if bytes.HasPrefix(head[i+1:], []byte("select")) && !bytes.HasPrefix(head[i+1:], []byte("select (no cases)")) {
			cnt++
		}
	}
	return cnt
}

// poke stores v through p without the race detector seeing the store (see the head of the file).
//
//go:norace
func poke(p interface{}, v interface{}) bool {
	switch q := p.(type) {
	case *int64:
		if x, ok := v.(int64); ok {
			*q = x
			return true
		}
	case *float64:
		if x, ok := v.(float64); ok {
			*q = x
			return true
		}
	case *string:
		if x, ok := v.(string); ok {
			*q = x
			return true
		}
	case *bool:
		if x, ok := v.(bool); ok {
			*q = x
			return true
		}
	case *interface{}:
		*q = v
		return true
	}
	return false
}

const heldHandshakeWait = 5 * time.Second

var heldHandshakeLost bool

func oracleHeld(c HeldCase, o *h.Obs) *h.Fail {
	if !validHeld(c) {
		o.Excluded = "malformed_case"
		return nil
	}
	src := heldSource(c)
	o.Key = fmt.Sprintf("%s|%v|%d", src, c.Procs, c.Reps)
	o.Note = src
	if (hangSeen["heldsend"] || heldHandshakeLost) && !ctxRef.InReplay() {
		o.Excluded = "a run that does not finish or a handshake that does not complete was already seen by this process"
		return nil
	}
	o.NonTrivial = true
	o.Class("heldsend_senders_%d", len(c.Senders))
	o.Class("heldsend_store_by_" + c.By)
	o.Class("heldsend_rx_" + c.Rx)
	ticks := int64(64)
	for _, s := range c.Senders {
		o.Class("heldsend_slot_" + s.Slot)
		o.Class("heldsend_slot_" + s.Slot + "_" + s.Typ)
		o.Class("heldsend_chan_" + s.Chan)
		o.Class("heldsend_" + bufClass(s.Buf))
		o.Class("heldsend_blocked_sends_%d", s.N-s.Buf)
		o.Class("heldsend_form_" + s.Form)
		if heldAddressable(s.Slot) && s.Chan == "same" {
			o.Class("heldsend_addressable_operand_of_the_channels_own_type")
		}
		ticks += int64(s.N + 2)
	}
	for _, procs := range c.Procs {
		for rep := 0; rep < c.Reps; rep++ {
			var lost, badPoke int64
			dump := make([]byte, 1<<20) // used by the main script goroutine only
			if n := parkedScriptGoroutines(dump); n != 0 {
				// a script goroutine of an earlier run is still parked in a channel operation (or the
				// dump cannot be read): the count the handshake relies on would be off
				o.Excluded = "heldsend_goroutines_of_an_earlier_run_still_parked"
				return nil
			}
			extra := map[string]interface{}{
				"waitparked": func(k int64) bool {
					deadline := time.Now().Add(heldHandshakeWait)
					for i := 0; ; i++ {
						if int64(parkedScriptGoroutines(dump)) == k {
							return true
						}
						if time.Now().After(deadline) {
							atomic.StoreInt64(&lost, 1)
							return false
						}
						if i < 20 {
							runtime.Gosched()
						} else {
							time.Sleep(100 * time.Microsecond)
						}
					}
				},
				"poke": func(p interface{}, v interface{}) {
					if !poke(p, v) {
						atomic.StoreInt64(&badPoke, 1)
					}
				},
			}
			var r *runResult
			withProcs(procs, func() { r = runOnceWith(src, runDeadline, ticks, extra) })
			o.Class("heldsend_runs_gomaxprocs_%d", procs)
			head := fmt.Sprintf("GOMAXPROCS=%d repetition %d\nsource:\n%s", procs, rep, src)
			if atomic.LoadInt64(&lost) == 1 {
				// the senders were not seen parked in time: nothing can be said about this run
				heldHandshakeLost = true
				o.Excluded = "heldsend_handshake_not_completed_in_time"
				return nil
			}
			switch {
			case r.hostPanic != "":
				return h.Failf("C16|heldsend|host-panic|"+r.hostPanicNorm, "%s\n%s", head, r.hostPanic)
			case len(r.gerrs) > 0:
				return h.Failf("C16|heldsend|goroutine-error|"+normMsg(r.gerrs[0]), "%s\nerrors inside script goroutines: %q", head, r.gerrs)
			case r.runaway:
				return h.Failf("C16|heldsend|runaway", "%s\na for-in over a closed channel iterated more often than there are items", head)
			case r.stuck != "":
				f := h.Failf("C16|heldsend|stuck", "%s\nthe run did not finish (%s)", head, r.stuck)
				f.NoShrink = true
				hangSeen["heldsend"] = true
				return f
			case r.err != "":
				return h.Failf("C16|heldsend|error|"+normMsg(r.err), "%s\nerror: %s", head, r.err)
			case atomic.LoadInt64(&badPoke) == 1:
				return h.Failf("C16|heldsend|pointer-shape", "%s\nthe address of the slot is not a pointer to a value of the slot's type", head)
			}
			lists, ok := r.value.([]interface{})
			if !ok || len(lists) != len(c.Senders) {
				return h.Failf("C16|heldsend|result-shape", "%s\nresult: %s", head, ank.Describe(r.value))
			}
			for j, s := range c.Senders {
				lst, ok := lists[j].([]interface{})
				if !ok {
					return h.Failf("C16|heldsend|result-shape", "%s\nresult: %s", head, ank.Describe(r.value))
				}
				want := heldExpect(s, j)
				var got []mv
				for _, x := range lst {
					got = append(got, fromGo(x))
				}
				for k := 0; k < len(want) && k < len(got); k++ {
					if want[k].eq(got[k]) {
						continue
					}
					rr := k - s.Buf
					if rr < 0 {
						rr = 0
					}
					if late := heldDelivered(s, heldVal(s.Typ, j, rr+1)); late.eq(got[k]) {
						return h.Failf("C16|heldsend|late-value", "%s\nsender %d, send #%d (operand %s): the sender was parked in this send - its operand had been read as %s - when the slot was overwritten; the receiver got the value stored afterwards, %s\nexpected %s\nreceived %s", head, j, k, s.Slot, want[k], got[k], showSeq(want, k), showSeq(got, k))
					}
					return h.Failf("C16|heldsend|wrong-value", "%s\nsender %d, send #%d (operand %s): expected %s, received %s\nexpected %s\nreceived %s", head, j, k, s.Slot, want[k], got[k], showSeq(want, k), showSeq(got, k))
				}
				if len(got) != len(want) {
					return h.Failf("C16|heldsend|count", "%s\nsender %d sent %d items, %d were received\nreceived %s", head, j, len(want), len(got), showSeq(got, 0))
				}
			}
		}
	}
	return nil
}
