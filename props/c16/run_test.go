package c16

import (
	"bytes"
	"context"
	"runtime"
	"sort"
	"strings"
	"sync"
	"sync/atomic"
	"time"

	"github.com/mattn/anko/env"

	"verif/internal/ank"
)

// runDeadline bounds one execution. A run that is still going then (or whose
// script goroutines are all blocked, see deadlocked) did not deliver a message.
const runDeadline = 10 * time.Second

type runResult struct {
	src           string
	value         interface{}
	err           string   // error of the main script ("" if none or if the run was cancelled by the harness)
	gerrs         []string // errors caught inside script goroutines, sorted
	outs          []interface{}
	stuck         string // "" | "deadlock" | "deadline"
	nilOnOpen     int64  // receive expressions that yielded nil before markclosed() was called
	runaway       bool   // a receive loop iterated more often than the specification allows
	hostPanic     string
	hostPanicNorm string
	quiesced      bool
}

// withProcs runs fn with runtime.GOMAXPROCS set to n and restores it.
func withProcs(n int, fn func()) {
	prev := runtime.GOMAXPROCS(n)
	defer runtime.GOMAXPROCS(prev)
	fn()
}

// hlevel is a named integer type the host offers as a type name.
type hlevel int64

// backgroundRun: runOnce executes the script under context.Background() (set by a sub-check for
// the duration of one case).
var backgroundRun bool

const vmMarker = "github.com/mattn/anko/vm."

// deadlocked takes a consistent snapshot of all goroutines (runtime.Stack stops
// the world) and reports whether at least one goroutine is executing anko code
// and every such goroutine is parked in a select. Script channel operations are
// reflect.Select calls over (ctx.Done(), channel); the host never touches the
// script's channels, so in that state nothing but the deadline can wake them.
func deadlocked() bool {
	buf := make([]byte, 4<<20)
	n := runtime.Stack(buf, true)
	if n >= len(buf) {
		return false // truncated dump: cannot tell
	}
	seen := 0
	for _, g := range bytes.Split(buf[:n], []byte("\n\n")) {
		if !bytes.Contains(g, []byte(vmMarker)) {
			continue
		}
		if bytes.Contains(g, []byte("frames elided")) {
			return false
		}
		head := g
		if i := bytes.IndexByte(g, '\n'); i >= 0 {
			head = g[:i]
		}
		// "goroutine 12 [select]:" / "goroutine 12 [select, 2 minutes]:"
		i := bytes.IndexByte(head, '[')
		if i < 0 || !bytes.HasPrefix(head, []byte("goroutine ")) {
			return false
		}
		if !bytes.HasPrefix(head[i+1:], []byte("select")) || bytes.HasPrefix(head[i+1:], []byte("select (no cases)")) {
			return false
		}
		seen++
	}
	return seen > 0
}

// runOnce executes src in a fresh environment.
// tickLimit bounds the number of tick() calls: every receive loop of a generated
// program calls tick() once per iteration, and the specification bounds the number
// of iterations, so more calls mean a loop that runs without messages.
func runOnce(src string, deadline time.Duration, tickLimit int64) *runResult {
	return runOnceWith(src, deadline, tickLimit, nil)
}

// runOnceWith is runOnce with additional host bindings.
func runOnceWith(src string, deadline time.Duration, tickLimit int64, extra map[string]interface{}) *runResult {
	r := &runResult{src: src}
	base := runtime.NumGoroutine()
	ctx, cancel := context.WithTimeout(context.Background(), deadline)
	defer cancel()

	var mu sync.Mutex
	sealed := false // set once the result has been taken: late host calls are dropped
	var outs []interface{}
	var gerrs []string
	e := env.NewEnv()
	for name, v := range extra {
		e.Define(name, v)
	}
	e.Define("yield", func(j int64) {
		for ; j > 0; j-- {
			runtime.Gosched()
		}
	})
	var ticks, runaway int64
	e.Define("tick", func() {
		if atomic.AddInt64(&ticks, 1) > tickLimit {
			atomic.StoreInt64(&runaway, 1)
			cancel()
		}
	})
	// markclosed() is called by the goroutine that closes the shared channel, right
	// before close; gotnil(id) by a worker whose receive expression yielded nil.
	// The flag write happens before the close, which happens before any receive
	// that observes the close, so nil with the flag unset is nil on an open channel.
	var closedFlag, nilOnOpen int64
	e.Define("markclosed", func() { atomic.StoreInt64(&closedFlag, 1) })
	e.Define("gotnil", func(id int64) {
		if atomic.LoadInt64(&closedFlag) == 0 {
			atomic.AddInt64(&nilOnOpen, 1)
		}
	})
	e.Define("pval", func(v interface{}) int64 {
		switch x := v.(type) {
		case *int64:
			if x != nil {
				return *x
			}
		case int64:
			return x
		case hlevel:
			return int64(x)
		}
		return -999999
	})
	e.DefineType("hlevel", hlevel(0))
	e.Define("out", func(v interface{}) {
		mu.Lock()
		if !sealed {
			outs = append(outs, v)
		}
		mu.Unlock()
	})
	e.Define("gerr", func(id int64, msg string) {
		mu.Lock()
		if !sealed {
			gerrs = append(gerrs, msg)
		}
		mu.Unlock()
		cancel() // no point in waiting for the deadline: the pipeline is broken
	})

	// watchdog: deadlock detection by goroutine snapshot
	var dead int32
	stop := make(chan struct{})
	wdDone := make(chan struct{})
	go func() {
		defer close(wdDone)
		t := time.NewTimer(100 * time.Millisecond)
		defer t.Stop()
		hits := 0
		for {
			select {
			case <-stop:
				return
			case <-ctx.Done():
				return
			case <-t.C:
				if deadlocked() {
					hits++
				} else {
					hits = 0
				}
				if hits >= 2 {
					atomic.StoreInt32(&dead, 1)
					cancel()
					return
				}
				t.Reset(50 * time.Millisecond)
			}
		}
	}()

	var v interface{}
	var err error
	if backgroundRun {
		// the script runs under context.Background(), as with vm.Execute: nothing can cancel it, so
		// it runs on a goroutine of its own and is given up after the deadline
		type res struct {
			v   interface{}
			err error
		}
		ch := make(chan res, 1)
		go func() {
			v, err := ank.ExecCtx(context.Background(), e, src)
			ch <- res{v, err}
		}()
		select {
		case rr := <-ch:
			v, err = rr.v, rr.err
		case <-ctx.Done():
			select {
			case rr := <-ch:
				v, err = rr.v, rr.err
			case <-time.After(2 * time.Second):
				err = context.DeadlineExceeded
			}
		}
	} else {
		v, err = ank.ExecCtx(ctx, e, src)
	}
	ctxErr := ctx.Err()
	close(stop)
	<-wdDone
	cancel()

	// every goroutine the script started must be gone before the next case
	for i := 0; i < 4000; i++ {
		if runtime.NumGoroutine() <= base {
			r.quiesced = true
			break
		}
		if i < 50 {
			runtime.Gosched()
		} else {
			time.Sleep(500 * time.Microsecond)
		}
	}
	mu.Lock()
	sealed = true
	r.outs = outs
	r.gerrs = append([]string{}, gerrs...)
	mu.Unlock()
	sort.Strings(r.gerrs)
	r.nilOnOpen = atomic.LoadInt64(&nilOnOpen)
	r.value = v
	if hp, ok := ank.IsHostPanic(err); ok {
		r.hostPanic = strings.TrimSpace(strings.SplitN(hp.Error(), "\n", 2)[0])
		r.hostPanicNorm = ank.NormPanic(hp.Value)
	} else if err != nil {
		switch {
		case atomic.LoadInt64(&runaway) == 1:
			r.runaway = true
		case len(r.gerrs) > 0:
			// cancelled by gerr: the goroutine error is what gets reported
		case atomic.LoadInt32(&dead) == 1:
			r.stuck = "deadlock"
		case ctxErr == context.DeadlineExceeded:
			r.stuck = "deadline"
		default:
			r.err = err.Error()
		}
	}

	return r
}
