package c16

import (
	"fmt"
	"testing"

	"github.com/mattn/anko/env"
	"verif/internal/ank"
)

func TestScratch(t *testing.T) {
	srcs := []string{
		`[0 == nil, 0.0 == nil, "" == nil, "s" == nil, nil == nil]`,
		`x = [(nil)]; x += [nil]; x`,
		`c = make(chan int64); close(c); x = [(<-c)]; x`,
		`r = make(chan interface); fs = [func(a){ r <- a }]; go fs[0](3); <-r`,
		`r = make(chan interface); m = {"f": func(a){ r <- a }}; go m.f(4); <-r`,
		`func f(a, rest...) { r <- len(rest) }; r = make(chan interface); go f(1); <-r`,
		`c = make(chan int64, 0); go func(){ c <- 1 }(); <-c`,
		`w = "W"; c = make(chan string,1); close(c); w, wok = <-c; [w, wok]`,
		`c = make(chan string,1); n = 0; close(c); for q in c { n++ }; n`,
		`a = 3; b = a + 100; x = "s" + (1 + a); y = 2 + "_" + a; z = 2.5 + "_" + a;[b, x, y, z]`,
		`func f(co, n) { try { for i = 0; i < n; i++ { co <- i } ; close(co) } catch e { gerr(1, "" + e) } }; c = make(chan int64); go f(c, 3); r = []; for { v, ok = <-c; if !ok { break }; r += [v] }; r`,
	}
	for _, s := range srcs {
		e := env.NewEnv()
		v, err := ank.Exec(e, s)
		fmt.Printf("%s\n   => %s  err=%v\n", s, ank.Describe(v), err)
	}
}
