package c16

// Sub-check "twins": K independent pipelines run at the same time, all of them executing the
// SAME source text (one stage function, one runner function). Every item must come out of the
// pipeline it was put into, exactly once and in order: the goroutines share the syntax tree, so
// whatever an implementation keeps on a tree node (a prepared call, a cached callee) must never
// leak from one goroutine into another. Items are int64 values or pointers (nil pointers among
// them) and are forwarded by every anonymous-call form of the language.

import (
	"fmt"
	"strings"

	"pgregory.net/rapid"

	"verif/internal/ank"
	"verif/internal/h"
)

type TwinsCase struct {
	K      int    `json:"k"`      // pipelines running concurrently (2..4)
	Stages int    `json:"stages"` // forwarding stages per pipeline (1..3)
	N      int    `json:"n"`      // items per pipeline
	Buf    int    `json:"buf"`    // buffer of the stage channels (0..2)
	Fwd    string `json:"fwd"`    // how a stage hands an item on: lit | paren | member | item | named | send
	Elem   string `json:"elem"`   // int | ptr (pointer items, every third one a nil pointer) | level (a named int64 type defined by the host)
	Rx     string `json:"rx"`     // forin | ok2
	Procs  int    `json:"procs"`
	Reps   int    `json:"reps"`
}

func genTwins(t *rapid.T) TwinsCase {
	return TwinsCase{
		K:      rapid.IntRange(2, 4).Draw(t, "k"),
		Stages: rapid.IntRange(1, 3).Draw(t, "stages"),
		N:      rapid.SampledFrom([]int{0, 1, 2, 5, 20, 60, 150}).Draw(t, "n"),
		Buf:    rapid.IntRange(0, 2).Draw(t, "buf"),
		Fwd:    rapid.SampledFrom([]string{"lit", "lit", "paren", "member", "member", "item", "named", "send"}).Draw(t, "fwd"),
		Elem:   rapid.SampledFrom([]string{"int", "int", "ptr", "level"}).Draw(t, "elem"),
		Rx:     rapid.SampledFrom([]string{"forin", "forin", "ok2"}).Draw(t, "rx"),
		Procs:  rapid.SampledFrom([]int{2, 4, 16}).Draw(t, "procs"),
		Reps:   rapid.IntRange(1, 3).Draw(t, "reps"),
	}
}

func twinsSource(c TwinsCase) string {
	var b strings.Builder
	typ := "int64"
	if c.Elem == "ptr" {
		typ = "*int64"
	}
	if c.Elem == "level" {
		// a named type over int64 defined by the host: plain int64 values are converted when sent
		typ = "hlevel"
	}
	// what a stage does with one item v: add a to it (through the pointer for pointer items; a nil
	// pointer is handed on as it is) and hand it to the next channel
	step := "w = v + a"
	if c.Elem == "level" {
		step = "w = pval(v) + a"
	}
	if c.Elem == "ptr" {
		// pval reads the number behind an item whether the loop variable holds the pointer or (as
		// for-in does for non-nil pointer items, like over slices) what it points to
		step = "w = nilp\n\t\tif v != nil {\n\t\t\tw = new(int64)\n\t\t\t*w = pval(v) + a\n\t\t}"
	}
	var fwdDef, fwd string
	switch c.Fwd {
	case "lit":
		fwd = "func(x) { co <- x }(w)"
	case "paren":
		fwdDef = "\tput = func(x) { co <- x }\n"
		fwd = "(put)(w)"
	case "member":
		fwdDef = "\thd = {\"put\": func(x) { co <- x }}\n"
		fwd = "hd.put(w)"
	case "item":
		fwdDef = "\tfs = [func(x) { co <- x }]\n"
		fwd = "fs[0](w)"
	case "named":
		fwdDef = "\tput = func(x) { co <- x }\n"
		fwd = "put(w)"
	default:
		fwd = "co <- w"
	}
	b.WriteString("func stage(ci, co, a) {\n\ttry {\n\t\tnilp = make([]*int64, 1)[0]\n" + strings.ReplaceAll(fwdDef, "\t", "\t\t"))
	if c.Rx == "forin" {
		b.WriteString("\t\tfor v in ci {\n\t\ttick()\n\t\t" + step + "\n\t\t" + fwd + "\n\t\t}\n")
	} else {
		// the flag exists before the loop: the receive statement inside the loop body assigns it, so
		// after the loop (left through !ok) it is false
		b.WriteString("\t\tok = true\n\t\tfor {\n\t\ttick()\n\t\tv, ok = <-ci\n\t\tif !ok {\n\t\t\tbreak\n\t\t}\n\t\t" + step + "\n\t\t" + fwd + "\n\t\t}\n\t\tif ok {\n\t\t\tthrow \"the ok flag of the two-value receive is still true after the channel was closed and drained\"\n\t\t}\n")
	}
	b.WriteString("\t} catch e {\n\t\tgerr(0, \"\" + e)\n\t}\n\tclose(co)\n}\n")
	// the runner of one pipeline
	b.WriteString("func run(tag, n, res) {\n")
	for s := 0; s <= c.Stages; s++ {
		fmt.Fprintf(&b, "\tc%d = make(chan %s, %d)\n", s, typ, c.Buf)
	}
	for s := 0; s < c.Stages; s++ {
		add := "1"
		if s == 0 {
			add = "tag * 1000"
		}
		fmt.Fprintf(&b, "\tgo stage(c%d, c%d, %s)\n", s, s+1, add)
	}
	b.WriteString("\tgo func() {\n\t\tfor i = 0; i < n; i++ {\n")
	if c.Elem == "ptr" {
		b.WriteString("\t\t\tif i % 3 == 2 {\n\t\t\t\tc0 <- make([]*int64, 1)[0]\n\t\t\t} else {\n\t\t\t\tp = new(int64)\n\t\t\t\t*p = i\n\t\t\t\tc0 <- p\n\t\t\t}\n")
	} else {
		b.WriteString("\t\t\tc0 <- i\n")
	}
	b.WriteString("\t\t}\n\t\tclose(c0)\n\t}()\n\tl = []\n")
	fmt.Fprintf(&b, "\tfor v in c%d {\n\t\ttick()\n", c.Stages)
	if c.Elem == "ptr" {
		b.WriteString("\t\tif v == nil {\n\t\t\tl += [\"nil\"]\n\t\t} else {\n\t\t\tl += [pval(v)]\n\t\t}\n")
	} else if c.Elem == "level" {
		b.WriteString("\t\tl += [pval(v)]\n")
	} else {
		b.WriteString("\t\tl += [v]\n")
	}
	b.WriteString("\t}\n\tres <- l\n}\n")
	fmt.Fprintf(&b, "rs = []\nfor t = 0; t < %d; t++ {\n\trs += [make(chan interface, 1)]\n}\n", c.K)
	fmt.Fprintf(&b, "for t = 0; t < %d; t++ {\n\tgo run(t + 1, %d, rs[t])\n}\nall = []\nfor t = 0; t < %d; t++ {\n\tall += [<-rs[t]]\n}\nall\n", c.K, c.N, c.K)
	return b.String()
}

func twinsExpect(c TwinsCase) string {
	var pipes []string
	for t := 1; t <= c.K; t++ {
		var items []string
		for i := 0; i < c.N; i++ {
			if c.Elem == "ptr" && i%3 == 2 {
				items = append(items, "string(\"nil\")")
				continue
			}
			items = append(items, fmt.Sprintf("int64(%d)", i+t*1000+(c.Stages-1)))
		}
		pipes = append(pipes, "[]interface {}["+strings.Join(items, ", ")+"]")
	}
	return "[]interface {}[" + strings.Join(pipes, ", ") + "]"
}

func oracleTwins(c TwinsCase, o *h.Obs) *h.Fail {
	if c.K < 2 || c.K > 4 || c.Stages < 1 || c.Stages > 3 || c.N < 0 || c.N > 200 || c.Buf < 0 || c.Buf > 3 || c.Reps < 1 || c.Reps > 5 || c.Procs < 1 {
		o.Excluded = "malformed_case"
		return nil
	}
	src := twinsSource(c)
	o.Key = fmt.Sprintf("%s|%d|%d", src, c.Procs, c.Reps)
	if hangSeen["twins"] && !ctxRef.InReplay() {
		o.Excluded = "a run that does not finish was already reported by this process"
		return nil
	}
	o.NonTrivial = c.N >= 2
	o.Class("twins_forward_" + c.Fwd)
	o.Class("twins_elem_" + c.Elem)
	want := twinsExpect(c)
	limit := int64(c.K*(c.Stages+1)*(c.N+2) + 50)
	for rep := 0; rep < c.Reps; rep++ {
		var r *runResult
		withProcs(c.Procs, func() { r = runOnce(src, runDeadline, limit) })
		head := fmt.Sprintf("%d pipelines from one source text, GOMAXPROCS=%d, repetition %d\nsource:\n%s", c.K, c.Procs, rep+1, src)
		switch {
		case r.hostPanic != "":
			return h.Failf("C16|twins|host-panic|"+r.hostPanicNorm, "%s\n%s", head, r.hostPanic)
		case len(r.gerrs) > 0:
			return h.Failf("C16|twins|goroutine-error|"+c.Fwd+"|"+c.Elem, "%s\nerrors inside script goroutines: %q", head, r.gerrs)
		case r.runaway:
			return h.Failf("C16|twins|runaway|"+c.Fwd, "%s\na receive loop iterated more often than there are items", head)
		case r.stuck != "":
			if r.stuck == "deadline" {
				// confirm alone before calling it a lost message
				var r2 *runResult
				withProcs(c.Procs, func() { r2 = runOnce(src, 3*runDeadline, limit) })
				if r2.stuck == "" && r2.err == "" && len(r2.gerrs) == 0 {
					o.Class("twins_deadline_not_confirmed")
					continue
				}
			}
			f := h.Failf("C16|twins|stuck|"+c.Fwd+"|"+c.Elem, "%s\nthe run did not finish (%s): a message was lost or a stage died", head, r.stuck)
			f.NoShrink = true
			hangSeen["twins"] = true
			return f
		case r.err != "":
			return h.Failf("C16|twins|error|"+c.Fwd+"|"+c.Elem, "%s\nerror: %s", head, r.err)
		}
		if got := ank.Describe(r.value); got != want {
			return h.Failf("C16|twins|delivery|"+c.Fwd+"|"+c.Elem, "%s\nevery pipeline must deliver exactly its own items in order\nwant %s\ngot  %s", head, want, got)
		}
	}
	return nil
}
