package c16

// Two small sub-checks over clauses the pipeline generators do not reach:
//
//	drained  what a receive on a closed and drained channel yields for EVERY element type (nil - the
//	         untyped nil, also for channels of pointers, slices, maps), and close on operands that are
//	         not an open channel (twice, through a pointer, nil): an error, never a crash
//	goargs   `go` calls whose arguments have side effects (a receive from a jobs channel, a host
//	         counter) or are list elements the caller assigns right afterwards: evaluated exactly once, before the goroutine starts; and many goroutines alive at
//	         once (300 parked on a gate): every one of them runs concurrently with its caller

import (
	"fmt"
	"sort"
	"strings"

	"pgregory.net/rapid"

	"verif/internal/ank"
	"verif/internal/h"
)

type DrainedCase struct {
	Elem  string `json:"elem"`  // *int64 | []int64 | map[string]int64 | *string | interface | int64 | string
	Buf   int    `json:"buf"`   // 0..2
	Items int    `json:"items"` // zero values sent (and received back) before the close: 0..Buf
	Form  string `json:"form"`  // arg | var | elem | ret : where the receive expression stands
	Close string `json:"close"` // once | twice | twice-in-loop | ptr | ptr-twice | nilchan
}

func genDrained(t *rapid.T) DrainedCase {
	c := DrainedCase{
		Elem:  rapid.SampledFrom([]string{"*int64", "[]int64", "map[string]int64", "*string", "interface", "int64", "string", "[]interface", "chan int64"}).Draw(t, "elem"),
		Buf:   rapid.IntRange(0, 2).Draw(t, "buf"),
		Form:  rapid.SampledFrom([]string{"arg", "var", "elem", "ret"}).Draw(t, "form"),
		Close: rapid.SampledFrom([]string{"once", "once", "twice", "twice-in-loop", "ptr", "ptr-twice", "nilchan"}).Draw(t, "close"),
	}
	c.Items = rapid.IntRange(0, c.Buf).Draw(t, "items")
	return c
}

func oracleDrained(c DrainedCase, o *h.Obs) *h.Fail {
	if c.Buf < 0 || c.Buf > 3 || c.Items < 0 || c.Items > c.Buf || strings.ContainsAny(c.Elem, "`\n;") {
		o.Excluded = "malformed_case"
		return nil
	}
	var b strings.Builder
	wantErrs := 0
	switch c.Close {
	case "ptr", "ptr-twice":
		// a pointer to a channel is not a channel: close of it is an error however often it is tried
		fmt.Fprintf(&b, "pc = new(chan %s)\n", c.Elem)
		n := 1
		if c.Close == "ptr-twice" {
			n = 2
		}
		for i := 0; i < n; i++ {
			b.WriteString("close(pc)\n")
		}
		b.WriteString("out(\"end\")\n")
	case "nilchan":
		fmt.Fprintf(&b, "nc = make([]chan %s, 1)[0]\nclose(nc)\nout(\"end\")\n", c.Elem)
	default:
		fmt.Fprintf(&b, "c = make(chan %s, %d)\n", c.Elem, c.Buf)
		for i := 0; i < c.Items; i++ {
			b.WriteString("c <- nil\n")
		}
		for i := 0; i < c.Items; i++ {
			b.WriteString("<-c\n")
		}
		switch c.Close {
		case "once":
			b.WriteString("close(c)\n")
		case "twice":
			b.WriteString("close(c)\ntry {\n close(c)\n out(\"no error\")\n} catch e {\n out(\"error\")\n}\n")
			wantErrs = 1
		default:
			b.WriteString("for i = 0; i < 2; i++ {\n try {\n  close(c)\n  out(\"closed\")\n } catch e {\n  out(\"error\")\n }\n}\n")
		}
		switch c.Form {
		case "arg":
			b.WriteString("out(isnil(<-c))\nout(isnil(<-c))\n")
		case "var":
			// (`w = <-c` without the parentheses is the receive STATEMENT, which leaves w untouched on a closed channel)
			b.WriteString("v = (<-c)\nout(isnil(v))\nw = [(<-c)][0]\nout(isnil(w))\n")
		case "elem":
			b.WriteString("l = [(<-c), 1]\nout(isnil(l[0]))\nout(isnil({\"k\": (<-c)}.k))\n")
		default:
			b.WriteString("func rx() { return <-c }\nout(isnil(rx()))\nout(isnil(rx()))\n")
		}
		b.WriteString("out(\"end\")\n")
	}
	src := b.String()
	o.Key = src
	o.NonTrivial = true
	o.Class("drained_elem_" + strings.NewReplacer("*", "ptr_", "[]", "slice_", "[", "_", "]", "_", " ", "_").Replace(c.Elem))
	o.Class("drained_close_" + c.Close)
	r := runOnceWith(src, runDeadline, 64, map[string]interface{}{"isnil": func(x interface{}) bool { return x == nil }})
	head := "source:\n" + src
	switch {
	case r.hostPanic != "":
		return h.Failf("C16|drained|host-panic|"+c.Close, "%s\na Go panic escaped into the host: %s", head, r.hostPanic)
	case r.stuck != "":
		f := h.Failf("C16|drained|stuck", "%s\nthe run did not finish (%s): a receive on a closed channel blocked", head, r.stuck)
		f.NoShrink = true
		return f
	}
	outs := make([]string, len(r.outs))
	for i, x := range r.outs {
		outs[i] = fmt.Sprint(x)
	}
	got := strings.Join(outs, ",")
	switch c.Close {
	case "ptr", "ptr-twice", "nilchan":
		// the close must fail with an error (the script ends there), whatever the text
		if r.err == "" {
			return h.Failf("C16|drained|close-accepted|"+c.Close, "%s\nclose of an operand that is not an open channel went through without an error; outputs: %s", head, got)
		}
		return nil
	}
	if r.err != "" {
		return h.Failf("C16|drained|error", "%s\nerror: %s\noutputs so far: %s", head, r.err, got)
	}
	want := "true,true,end"
	switch c.Close {
	case "twice":
		want = "error," + want
	case "twice-in-loop":
		want = "closed,error," + want
	}
	_ = wantErrs
	if got != want {
		return h.Failf("C16|drained|wrong-outputs|"+c.Form, "%s\na receive expression on a closed and drained channel yields nil (the untyped nil, whatever the element type); closing twice is an error\nwant outputs %s\ngot          %s", head, want, got)
	}
	return nil
}

// ---------------------------------------------------------------- goargs

type GoArgsCase struct {
	N      int    `json:"n"`      // go calls (4..40), or parked goroutines (for Form many: 260..320)
	Params int    `json:"params"` // parameters of the worker (1..5): 1..4 take the direct path
	Form   string `json:"form"`   // recv (go w(<-jobs, ...)) | counter (go w(next(), ...)) | incr (go w(k++ ...)) | many
	Procs  int    `json:"procs"`
	// elem form only. Var: 0 fixed parameters | 1 the worker is variadic (w(all...), the element is all[0]) |
	// 2 the element travels in the variadic tail (w(j, rest...)). Typed: the list is a []int64
	Var   int  `json:"var,omitempty"`
	Typed bool `json:"typed,omitempty"`
}

func genGoArgs(t *rapid.T) GoArgsCase {
	c := GoArgsCase{N: rapid.IntRange(4, 40).Draw(t, "n"), Params: rapid.IntRange(1, 5).Draw(t, "params"),
		Form: rapid.SampledFrom([]string{"recv", "recv", "counter", "counter", "many", "elem", "elem"}).Draw(t, "form"), Procs: rapid.SampledFrom([]int{1, 2, 16}).Draw(t, "procs")}
	if c.Form == "many" {
		c.N = rapid.SampledFrom([]int{257, 260, 300, 320}).Draw(t, "many")
	}
	if c.Form == "elem" {
		c.Var = rapid.SampledFrom([]int{0, 0, 1, 2}).Draw(t, "variadic")
		c.Typed = rapid.Bool().Draw(t, "typed")
	}
	return c
}

func oracleGoArgs(c GoArgsCase, o *h.Obs) *h.Fail {
	if c.N < 1 || c.N > 400 || c.Params < 1 || c.Params > 6 {
		o.Excluded = "malformed_case"
		return nil
	}
	var b strings.Builder
	if c.Form == "many" {
		// N goroutines parked on a gate the caller opens afterwards: all of them must be alive at once
		fmt.Fprintf(&b, "gate = make(chan int64)\ndone = make(chan int64, %d)\nfor i = 0; i < %d; i++ {\n go func(k) {\n  <-gate\n  done <- k\n }(i)\n}\nfor i = 0; i < %d; i++ {\n gate <- 1\n}\ns = 0\nfor i = 0; i < %d; i++ {\n s += <-done\n}\ns\n", c.N, c.N, c.N, c.N)
	} else {
		extra, extraArgs := "", ""
		for i := 2; i < c.Params; i++ {
			extra += fmt.Sprintf(", x%d", i)
			extraArgs += fmt.Sprintf(", %d", i)
		}
		if c.Params == 1 {
			b.WriteString("func w(j) {\n res <- j\n}\n")
		} else {
			b.WriteString("func w(j, out" + extra + ") {\n out <- j\n}\n")
		}
		fmt.Fprintf(&b, "res = make(chan interface, %d)\n", c.N)
		arg := "next()"
		after := ""
		if c.Form == "elem" {
			// the argument is a list element the caller assigns right after the go statement: the worker gets the
			// value the element had when the go statement ran
			fmt.Fprintf(&b, "items = []\nfor i = 0; i < %d; i++ {\n items += [i]\n}\n", c.N)
			if c.Typed {
				fmt.Fprintf(&b, "items = make([]int64, %d)\nfor i = 0; i < %d; i++ {\n items[i] = i\n}\n", c.N, c.N)
			}
			arg, after = "items[i]", "\n items[i] = -1"
		}
		if c.Form == "elem" && c.Var > 0 {
			// the same through a variadic worker: the values of a variadic tail are arguments like any other
			b.Reset()
			if c.Var == 1 {
				b.WriteString("func w(all...) {\n res <- all[0]\n}\n")
			} else {
				b.WriteString("func w(j, rest...) {\n res <- rest[0]\n}\n")
			}
			fmt.Fprintf(&b, "res = make(chan interface, %d)\n", c.N)
			if c.Typed {
				fmt.Fprintf(&b, "items = make([]int64, %d)\nfor i = 0; i < %d; i++ {\n items[i] = i\n}\n", c.N, c.N)
			} else {
				fmt.Fprintf(&b, "items = []\nfor i = 0; i < %d; i++ {\n items += [i]\n}\n", c.N)
			}
			call := "go w(items[i], 7)"
			if c.Var == 2 {
				call = "go w(7, items[i], 8)"
			}
			fmt.Fprintf(&b, "for i = 0; i < %d; i++ {\n %s\n items[i] = -1\n}\nl = []\nfor i = 0; i < %d; i++ {\n l += [<-res]\n}\nl\n", c.N, call, c.N)
		} else {
			if c.Form == "recv" {
				fmt.Fprintf(&b, "jobs = make(chan int64, %d)\nfor i = 0; i < %d; i++ {\n jobs <- i\n}\nclose(jobs)\n", c.N, c.N)
				arg = "<-jobs"
			}
			call := "go w(" + arg + ", res" + extraArgs + ")"
			if c.Params == 1 {
				call = "go w(" + arg + ")"
			}
			call += after
			fmt.Fprintf(&b, "for i = 0; i < %d; i++ {\n %s\n}\nl = []\nfor i = 0; i < %d; i++ {\n l += [<-res]\n}\nl\n", c.N, call, c.N)
		}
	}
	src := b.String()
	o.Key = fmt.Sprintf("%s|%d", src, c.Procs)
	o.NonTrivial = true
	o.Class(fmt.Sprintf("goargs_%s_params%d", c.Form, c.Params))
	if c.Form == "elem" {
		o.Class(fmt.Sprintf("goargs_elem_variadic%d_typed%v", c.Var, c.Typed))
	}
	var counter int64
	var r *runResult
	withProcs(c.Procs, func() {
		r = runOnceWith(src, runDeadline, int64(4*c.N+64), map[string]interface{}{"next": func() int64 { counter++; return counter - 1 }})
	})
	head := fmt.Sprintf("GOMAXPROCS=%d\nsource:\n%s", c.Procs, src)
	switch {
	case r.hostPanic != "":
		return h.Failf("C16|goargs|host-panic", "%s\n%s", head, r.hostPanic)
	case r.stuck != "":
		f := h.Failf("C16|goargs|stuck|"+c.Form, "%s\nthe run did not finish (%s): a go call did not start its callee on a goroutine of its own, or consumed more than its own arguments", head, r.stuck)
		f.NoShrink = true
		return f
	case r.err != "":
		return h.Failf("C16|goargs|error|"+c.Form, "%s\nerror: %s", head, r.err)
	}
	if c.Form == "many" {
		want := int64(c.N * (c.N - 1) / 2)
		if g, ok := r.value.(int64); !ok || g != want {
			return h.Failf("C16|goargs|wrong-value|many", "%s\nsum of the goroutines' numbers: want %d, got %s", head, want, ank.Describe(r.value))
		}
		return nil
	}
	list, ok := r.value.([]interface{})
	if !ok || len(list) != c.N {
		return h.Failf("C16|goargs|wrong-shape|"+c.Form, "%s\nresult: %s", head, ank.Describe(r.value))
	}
	var nums []int
	for _, x := range list {
		n, ok := x.(int64)
		if !ok {
			return h.Failf("C16|goargs|argument-lost|"+c.Form, "%s\na worker received %s instead of a job number: the argument of its go call was evaluated more than once (or not before the goroutine started)\nresult: %s", head, ank.Describe(x), ank.Describe(r.value))
		}
		nums = append(nums, int(n))
	}
	sort.Ints(nums)
	for i, n := range nums {
		if n != i {
			return h.Failf("C16|goargs|wrong-arguments|"+c.Form, "%s\nevery go call evaluates its argument exactly once: the workers must have received 0..%d, each once\nsorted: %v", head, c.N-1, nums)
		}
	}
	if c.Form == "counter" && counter != int64(c.N) {
		return h.Failf("C16|goargs|argument-evaluated-again|counter", "%s\nthe host counter in argument position was called %d times for %d go calls", head, counter, c.N)
	}
	return nil
}
