package c16

import (
	"fmt"
	"strings"

	"pgregory.net/rapid"

	"verif/internal/h"
)

// FanCase is the fan-out variant: sources feed one buffered channel, several
// worker goroutines consume it concurrently, each in its own receive style, and
// forward what they got to a results channel (closed by a second closer once
// every worker has signalled) or to the host function out().
type FanCase struct {
	Srcs     []Proc `json:"srcs"`    // role src
	Ch       Chan   `json:"ch"`      // the shared channel, buffer 1..3
	Workers  []Proc `json:"workers"` // role wk; N is the cap of cnt2/cntx workers
	Fwd      string `json:"fwd"`     // chan | out
	Rs       Chan   `json:"rs"`      // results channel (Fwd == chan)
	Collect  string `json:"collect"` // list | out (Fwd == chan)
	DoneBuf  int    `json:"donebuf"`
	JoinBuf  int    `json:"joinbuf"`
	WJoinBuf int    `json:"wjoinbuf"`
	Procs    []int  `json:"procs"`
}

func validateFan(c FanCase) string {
	if len(c.Srcs) < 1 || len(c.Srcs) > 3 || len(c.Workers) < 2 || len(c.Workers) > 4 {
		return "shape"
	}
	if c.Ch.Buf < 1 || c.Ch.Buf > 3 || !oneOf(c.Ch.Type, chanTypes...) || !oneOf(c.Fwd, "chan", "out") {
		return "chan"
	}
	total := 0
	for _, s := range c.Srcs {
		if s.Role != "src" || !oneOf(s.Src, "int", "float", "str") || s.Src != c.Srcs[0].Src || s.N < 0 || s.N > 1000 || s.A < 0 || s.A > 50000 {
			return "src"
		}
		total += s.N
	}
	if total > 1000 {
		return "too many items"
	}
	k, ok := convKind(srcKind(c.Srcs[0].Src), c.Ch.Type)
	if !ok {
		return "conversion"
	}
	if c.Fwd == "chan" {
		if _, ok := convKind(k, c.Rs.Type); !ok || c.Rs.Buf < 0 || c.Rs.Buf > 3 || !oneOf(c.Collect, "list", "out") {
			return "results chan"
		}
	}
	unbounded := false
	for _, w := range c.Workers {
		if w.Role != "wk" || !oneOf(w.Recv, "forin", "ok2", "expr", "cnt2", "cntx") || w.N < 0 || w.N > 1000 {
			return "worker"
		}
		if oneOf(w.Recv, "forin", "ok2") {
			unbounded = true
		}
	}
	if !unbounded {
		return "no worker that only ends on close" // items could legitimately stay behind
	}
	for _, p := range append(append([]Proc{}, c.Srcs...), c.Workers...) {
		if !oneOf(p.Start, "named", "var", "lit", "item", "member") || p.Extra < 0 || p.Extra > 4 || p.VarArgs < 0 || p.VarArgs > 2 || p.YGo < 0 || p.YGo > 3 {
			return "proc"
		}
		for _, y := range p.Y {
			if y < 0 || y > 3 {
				return "yield"
			}
		}
	}
	if c.DoneBuf < 0 || c.DoneBuf > 10 || c.JoinBuf < 0 || c.JoinBuf > 4 || c.WJoinBuf < 0 || c.WJoinBuf > 4 {
		return "aux chan"
	}
	if len(c.Procs) == 0 || len(c.Procs) > 4 {
		return "procs"
	}
	for _, p := range c.Procs {
		if p < 1 || p > 64 {
			return "procs"
		}
	}
	return ""
}

func (c FanCase) total() int {
	n := 0
	for _, s := range c.Srcs {
		n += s.N
	}
	return n
}

func renderFan(c FanCase) string {
	var b strings.Builder
	toChan := c.Fwd == "chan"
	multi := len(c.Srcs) > 1
	fmt.Fprintf(&b, "c0 = %s\n", makeChan(c.Ch, false))
	if toChan {
		fmt.Fprintf(&b, "rs = %s\nwj = %s\n", makeChan(c.Rs, true), makeChan(Chan{Buf: c.WJoinBuf, Type: "int64"}, false))
	}
	fmt.Fprintf(&b, "dn = %s\n", makeChan(Chan{Buf: c.DoneBuf, Type: "int64"}, false))
	if multi {
		fmt.Fprintf(&b, "jn = %s\n", makeChan(Chan{Buf: c.JoinBuf, Type: "int64"}, false))
	}
	k := 0
	closer := func(joinCh, ch string, m int, mark string) {
		fmt.Fprintf(&b, "go func(pj, co, m, pd) {\n\ttry {\n\t\tfor i%d = 0; i%d < m; i%d++ {\n\t\t\t<-pj\n\t\t}\n%s\t\tclose(co)\n\t} catch e%d {\n\t\tgerr(%d, \"\" + e%d)\n\t}\n\tpd <- 1\n}(%s, %s, %d, dn)\n", k, k, k, mark, k, k, k, joinCh, ch, m)
		k++
	}
	// workers first or sources first: both orders occur (decided by the first worker's YGo parity)
	workers := func() {
		for _, w := range c.Workers {
			renderProc(&b, k, w, renderCtx{in: "c0", out: "rs", join: toChan, fwdOut: !toChan})
			k++
		}
		if toChan {
			closer("wj", "rs", len(c.Workers), "")
		}
	}
	sources := func() {
		for _, s := range c.Srcs {
			renderProc(&b, k, s, renderCtx{out: "c0", join: multi, mark: !multi})
			k++
		}
		if multi {
			closer("jn", "c0", len(c.Srcs), "\t\tmarkclosed()\n")
		}
	}
	if c.Workers[0].YGo%2 == 0 {
		sources()
		workers()
	} else {
		workers()
		sources()
	}
	b.WriteString("res = []\n")
	if toChan {
		collect := "res += [mv]"
		if c.Collect == "out" {
			collect = "out(mv)"
		}
		fmt.Fprintf(&b, "for mv in rs {\n\ttick()\n\t%s\n}\n", collect)
	}
	fmt.Fprintf(&b, "for mj = 0; mj < %d; mj++ {\n\t<-dn\n}\nres\n", k)
	return b.String()
}

func genFan(t *rapid.T) FanCase {
	c := FanCase{Procs: []int{1, 2, 16}}
	src := rapid.SampledFrom([]string{"int", "int", "float", "str"}).Draw(t, "src")
	m := rapid.SampledFrom([]int{1, 1, 2, 3}).Draw(t, "m")
	total := rapid.IntRange(200, 1000).Draw(t, "total")
	multi := m > 1
	for p := 0; p < m; p++ {
		s := Proc{Role: "src", Src: src, N: total / m, A: int64(p+1) * 10000}
		if p == 0 {
			s.N += total % m
		}
		if rapid.IntRange(0, 4).Draw(t, "y?") == 0 {
			s.Y[rapid.IntRange(0, 2).Draw(t, "ypos")] = 1
		}
		s.YGo = genYield(t, "ygo")
		genLaunch(t, &s, multi)
		c.Srcs = append(c.Srcs, s)
	}
	k := srcKind(src)
	c.Ch, k = genChan(t, k, "c0")
	c.Ch.Buf = rapid.IntRange(1, 3).Draw(t, "buf")
	c.Fwd = rapid.SampledFrom([]string{"chan", "out"}).Draw(t, "fwd")
	toChan := c.Fwd == "chan"
	if toChan {
		c.Rs, _ = genChan(t, k, "rs")
		c.Collect = rapid.SampledFrom([]string{"list", "out"}).Draw(t, "collect")
	}
	nw := rapid.IntRange(2, 4).Draw(t, "workers")
	unbounded := rapid.IntRange(0, nw-1).Draw(t, "unbounded")
	for w := 0; w < nw; w++ {
		x := Proc{Role: "wk"}
		if w == unbounded {
			x.Recv = rapid.SampledFrom([]string{"forin", "ok2"}).Draw(t, "wrecv")
		} else {
			x.Recv = rapid.SampledFrom([]string{"forin", "ok2", "expr", "expr", "expr", "cnt2", "cntx", "cntx"}).Draw(t, "wrecv")
		}
		if oneOf(x.Recv, "cnt2", "cntx") {
			x.N = rapid.IntRange(0, total).Draw(t, "cap")
		}
		if rapid.IntRange(0, 4).Draw(t, "y?") == 0 {
			x.Y[rapid.IntRange(0, 2).Draw(t, "ypos")] = 1
		}
		x.YGo = genYield(t, "ygo")
		genLaunch(t, &x, toChan)
		c.Workers = append(c.Workers, x)
	}
	c.DoneBuf = rapid.IntRange(0, 4).Draw(t, "donebuf")
	c.JoinBuf = rapid.IntRange(0, m).Draw(t, "joinbuf")
	c.WJoinBuf = rapid.IntRange(0, nw).Draw(t, "wjoinbuf")
	return c
}

func oracleFan(reps int) func(FanCase, *h.Obs) *h.Fail {
	return func(c FanCase, o *h.Obs) *h.Fail {
		if validateFan(c) != "" {
			o.Excluded = "outside_domain"
			return nil
		}
		src := renderFan(c)
		o.Key = fmt.Sprintf("%s\n// GOMAXPROCS %v", src, c.Procs)
		o.Note = o.Key
		if hangSeen["fanout"] && !ctxRef.InReplay() {
			o.Excluded = "a run that does not finish was already reported by this process"
			return nil
		}
		total := c.total()
		toChan := c.Fwd == "chan"
		o.NonTrivial = total > c.Ch.Buf
		o.Class("variant_fanout")
		o.Class("fanout_workers_%d", len(c.Workers))
		o.Class("fanout_sources_%d", len(c.Srcs))
		o.Class("fanout_shared_" + bufClass(c.Ch.Buf))
		o.Class("fanout_elem_" + c.Ch.Type)
		o.Class("fanout_forward_" + c.Fwd)
		exprWorkers := 0
		for _, w := range c.Workers {
			o.Class("fanout_worker_" + w.Recv)
			if oneOf(w.Recv, "expr", "cntx") {
				exprWorkers++
			}
			if w.reflectPath(toChan) {
				o.Class("go_path_reflect")
			} else {
				o.Class("go_path_direct")
			}
		}
		o.Class("fanout_receive_expression_workers_%d", exprWorkers)
		var want []mv
		for _, s := range c.Srcs {
			for i := 0; i < s.N; i++ {
				v := conv(srcVal(s, i), c.Ch.Type)
				if toChan {
					v = conv(v, c.Rs.Type)
				}
				want = append(want, v)
			}
		}
		tickLimit := int64(4*total + 64)
		for _, procs := range c.Procs {
			var fail *h.Fail
			withProcs(procs, func() {
				for rep := 0; rep < reps && fail == nil; rep++ {
					o.Class("fanout_runs_gomaxprocs_%d", procs)
					r := runOnce(src, runDeadline, tickLimit)
					if r.stuck != "" && r.nilOnOpen == 0 {
						o.Class("stuck_first_run")
						first := r.stuck
						r = runOnce(src, 5*runDeadline, tickLimit)
						if r.stuck != "" || first == "deadlock" {
							again := "it did not finish again"
							if r.stuck == "" {
								again = "that run finished"
							}
							fail = h.Failf("C16|stuck|fanout", "the run did not finish: %s (GOMAXPROCS=%d, repetition %d); re-run alone with 5x the bound: %s\nsource:\n%s", describeStuck(first), procs, rep, again, src)
							fail.NoShrink = true // every re-execution of a hanging case costs up to a minute
							hangSeen["fanout"] = true
							return
						}
						o.Class("stuck_not_reproduced")
					}
					if f := judgeFan(c, want, r); f != nil {
						f.Msg = fmt.Sprintf("GOMAXPROCS=%d repetition %d\n%s", procs, rep, f.Msg)
						fail = f
					}
				}
			})
			if fail != nil {
				return fail
			}
		}
		return nil
	}
}

func judgeFan(c FanCase, want []mv, r *runResult) *h.Fail {
	src := r.src
	switch {
	case r.hostPanic != "":
		return h.Failf("C16|host-panic|fanout|"+r.hostPanicNorm, "a Go panic escaped into the host\nsource:\n%s\npanic: %s", src, r.hostPanic)
	case r.nilOnOpen > 0:
		return h.Failf("C16|receive-expression-nil-on-open-channel", "%d time(s) a receive expression `v = (<-c0)` yielded nil although the channel had not been closed yet (the closing goroutine calls markclosed() right before close(c0))\nsource:\n%s", r.nilOnOpen, src)
	case r.runaway:
		return h.Failf("C16|runaway-loop|fanout", "the receive loops ran more iterations than there are messages\nsource:\n%s", src)
	case len(r.gerrs) > 0:
		return h.Failf("C16|goroutine-error|fanout|"+normMsg(r.gerrs[0]), "a script goroutine failed with an error although every operation it does is defined\nsource:\n%s\nerror: %s", src, r.gerrs[0])
	case r.stuck != "":
		f := h.Failf("C16|stuck|fanout", "the run did not finish (%s)\nsource:\n%s", r.stuck, src)
		f.NoShrink = true
		hangSeen["fanout"] = true
		return f
	case r.err != "":
		return h.Failf("C16|unexpected-error|fanout|"+normMsg(r.err), "the main script failed\nsource:\n%s\nerror: %s", src, r.err)
	}
	var got []mv
	if c.Fwd == "out" || c.Collect == "out" {
		for _, x := range r.outs {
			got = append(got, fromGo(x))
		}
	} else {
		lst, ok := r.value.([]interface{})
		if !ok {
			return h.Failf("C16|result-shape|fanout", "source:\n%s\nresult is %T", src, r.value)
		}
		for _, x := range lst {
			got = append(got, fromGo(x))
		}
	}
	missing, extra := multisetDiff(want, got)
	if missing == 0 && extra == 0 {
		return nil
	}
	cl := "wrong-value"
	switch {
	case extra == 0:
		cl = "lost"
	case missing == 0:
		cl = "duplicate"
	}
	return h.Failf("C16|"+cl+"|fanout", "multiset differs: %d expected items missing, %d unexpected items; %d expected, %d received\nsource:\n%s", missing, extra, len(want), len(got), src)
}
