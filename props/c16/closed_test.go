package c16

import (
	"fmt"
	"strings"

	"pgregory.net/rapid"

	"verif/internal/h"
)

// COp is one operation of the single-goroutine sub-check.
//
//	send   e = 0; try { c <- LIT } catch ex { e = 1 }; obs += [e]
//	close  e = 0; try { close(c) } catch ex { e = 1 }; obs += [e]
//	rx     obs += [(<-c)]
//	rx2    w = "W"; w, k = <-c; obs += [w, k]
//	fwd    d <- c; if len(d) > 0 { obs += [(<-d)] } else { obs += ["none"] }
//	       (the channel-to-channel form: one item is received from c and sent to d, a buffered channel
//	       of interface elements; from a closed and drained c nothing is received, so nothing is sent)
//	forin  for q in c { obs += [q] }; obs += ["E"]
//	forinb n = 0; for q in c { obs += [q]; n++; if n >= V { break } }; obs += ["B"]
//	       (for-in left early after V items; what is still buffered must stay in the channel)
type COp struct {
	Op  string `json:"op"`
	V   int64  `json:"v,omitempty"`   // send: the item number; forinb: items after which the loop is left
	Lit string `json:"lit,omitempty"` // send: spelling kind of the literal: int | float | str
	// Bare: (last operation only, send/close on the closed channel) not wrapped in
	// try/catch: the script must end with an error value returned to the host.
	Bare bool `json:"bare,omitempty"`
}

// ClosedCase is a straight-line program over one channel that never blocks.
type ClosedCase struct {
	Ch  Chan  `json:"ch"`
	Ops []COp `json:"ops"`
}

func closedLit(op COp) (string, mv) {
	switch op.Lit {
	case "float":
		// V + 0.75 for V >= 0, V - 0.75 for V < 0 (so truncation differs from floor)
		if op.V < 0 {
			return fmt.Sprintf("(%d - 0.75)", op.V), mv{k: 'f', f: float64(op.V) - 0.75}
		}
		return fmt.Sprintf("(%d + 0.75)", op.V), mv{k: 'f', f: float64(op.V) + 0.75}
	case "str":
		return fmt.Sprintf("\"t%d\"", op.V), mv{k: 's', s: fmt.Sprintf("t%d", op.V)}
	case "nil":
		// a nil item (channels of interface elements only): a message like any other
		return "nil", mv{k: 'n'}
	}
	if op.V < 0 {
		return fmt.Sprintf("(%d)", op.V), mv{k: 'i', i: op.V}
	}
	return fmt.Sprint(op.V), mv{k: 'i', i: op.V}
}

func genClosed(t *rapid.T) ClosedCase {
	c := ClosedCase{Ch: Chan{Type: rapid.SampledFrom(chanTypes).Draw(t, "type"), Buf: rapid.IntRange(0, 3).Draw(t, "buf")}}
	var lits []string
	switch c.Ch.Type {
	case "int64", "float64":
		lits = []string{"int", "float"}
	case "string":
		lits = []string{"str"}
	default:
		lits = []string{"int", "float", "str", "nil"}
	}
	n := rapid.IntRange(1, 12).Draw(t, "nops")
	qlen, closed, alreadyClosed := 0, false, false
	next := int64(-2)
	for i := 0; i < n; i++ {
		var cand []string
		if !closed {
			if qlen < c.Ch.Buf {
				cand = append(cand, "send", "send", "send")
			}
			if qlen > 0 {
				cand = append(cand, "rx", "rx2", "forinb", "fwd")
			}
			if qlen > 1 {
				cand = append(cand, "forinb", "forinb", "forinb")
			}
			cand = append(cand, "close")
		} else {
			cand = []string{"send", "close", "rx", "rx", "rx2", "rx2", "forin", "forinb", "forinb", "fwd", "fwd"}
		}
		op := COp{Op: rapid.SampledFrom(cand).Draw(t, "op")}
		switch op.Op {
		case "forinb":
			if closed {
				op.V = int64(rapid.IntRange(1, 3).Draw(t, "leave_after"))
			} else {
				op.V = int64(rapid.IntRange(1, max(1, qlen-1)).Draw(t, "leave_after")) // never blocks: that many are buffered
			}
			qlen -= min(qlen, int(op.V))
		case "send":
			op.V = next
			next++
			op.Lit = rapid.SampledFrom(lits).Draw(t, "lit")
			if !closed {
				qlen++
			}
		case "rx", "rx2", "fwd":
			if qlen > 0 {
				qlen--
			}
		case "forin":
			qlen = 0
		case "close":
			closed = true
		}
		if closed && i == n-1 && (op.Op == "send" || (op.Op == "close" && i > 0 && alreadyClosed)) {
			op.Bare = rapid.IntRange(0, 1).Draw(t, "bare") == 0
		}
		if op.Op == "close" {
			alreadyClosed = true
		}
		c.Ops = append(c.Ops, op)
	}
	return c
}

func renderClosed(c ClosedCase) string {
	var b strings.Builder
	fmt.Fprintf(&b, "c = %s\nobs = []\n", makeChan(c.Ch, len(c.Ops)%2 == 0))
	for _, op := range c.Ops {
		if op.Op == "fwd" {
			b.WriteString("d = make(chan interface, 4)\n")
			break
		}
	}
	for i, op := range c.Ops {
		if op.Bare {
			b.WriteString("out(obs)\n")
			if op.Op == "send" {
				lit, _ := closedLit(op)
				fmt.Fprintf(&b, "c <- %s\n", lit)
			} else {
				b.WriteString("close(c)\n")
			}
			continue
		}
		switch op.Op {
		case "send":
			lit, _ := closedLit(op)
			fmt.Fprintf(&b, "e%d = 0\ntry {\n\tc <- %s\n} catch ex {\n\te%d = 1\n}\nobs += [e%d]\n", i, lit, i, i)
		case "close":
			fmt.Fprintf(&b, "e%d = 0\ntry {\n\tclose(c)\n} catch ex {\n\te%d = 1\n}\nobs += [e%d]\n", i, i, i)
		case "rx":
			b.WriteString("obs += [(<-c)]\n")
		case "fwd":
			b.WriteString("d <- c\nif len(d) > 0 {\n\tobs += [(<-d)]\n} else {\n\tobs += [\"none\"]\n}\n")
		case "rx2":
			fmt.Fprintf(&b, "w%d = \"W\"\nw%d, k%d = <-c\nobs += [w%d, k%d]\n", i, i, i, i, i)
		case "forinb":
			fmt.Fprintf(&b, "n%d = 0\nfor q in c {\n\ttick()\n\tobs += [q]\n\tn%d++\n\tif n%d >= %d {\n\t\tbreak\n\t}\n}\nobs += [\"B\"]\n", i, i, i, op.V)
		case "forin":
			b.WriteString("for q in c {\n\ttick()\n\tobs += [q]\n}\nobs += [\"E\"]\n")
		}
	}
	b.WriteString("obs\n")
	return b.String()
}

// modelClosed replays the operations on a FIFO with a closed flag. ok=false if
// an operation would block or is outside the domain.
func modelClosed(c ClosedCase) (want []mv, labels []string, nontrivial bool, ok bool) {
	for i, op := range c.Ops {
		if op.Bare && (i != len(c.Ops)-1 || !oneOf(op.Op, "send", "close")) {
			return nil, nil, false, false
		}
	}
	if c.Ch.Buf < 0 || c.Ch.Buf > 3 || !oneOf(c.Ch.Type, chanTypes...) || len(c.Ops) > 40 {
		return nil, nil, false, false
	}
	var q []mv
	closed := false
	for _, op := range c.Ops {
		switch op.Op {
		case "send":
			if op.Lit == "nil" && c.Ch.Type != "interface" {
				return nil, nil, false, false
			}
			if !oneOf(op.Lit, "int", "float", "str", "nil") || op.V < -1000 || op.V > 1000 {
				return nil, nil, false, false
			}
			_, v := closedLit(op)
			if _, defined := convKind(v.k, c.Ch.Type); !defined {
				return nil, nil, false, false
			}
			if op.Bare && !closed {
				return nil, nil, false, false
			}
			if closed {
				nontrivial = true
				if op.Bare {
					labels = append(labels, "send-on-closed-uncaught")
					continue
				}
				want = append(want, mv{k: 'i', i: 1})
				labels = append(labels, "send-on-closed")
				continue
			}
			if len(q) >= c.Ch.Buf {
				return nil, nil, false, false // would block
			}
			q = append(q, conv(v, c.Ch.Type))
			want = append(want, mv{k: 'i', i: 0})
			if v.k == 'n' {
				labels = append(labels, "send-nil-item")
			} else {
				labels = append(labels, "send")
			}
		case "close":
			if op.Bare && !closed {
				return nil, nil, false, false
			}
			if closed {
				nontrivial = true
				if op.Bare {
					labels = append(labels, "close-of-closed-uncaught")
					continue
				}
				want = append(want, mv{k: 'i', i: 1})
				labels = append(labels, "close-of-closed")
			} else {
				want = append(want, mv{k: 'i', i: 0})
				labels = append(labels, "close")
				closed = true
			}
		case "rx":
			switch {
			case len(q) > 0:
				want = append(want, q[0])
				q = q[1:]
				labels = append(labels, "rx-item")
				nontrivial = nontrivial || closed
			case closed:
				want = append(want, mv{k: 'n'})
				labels = append(labels, "rx-drained")
			default:
				return nil, nil, false, false
			}
		case "fwd":
			switch {
			case len(q) > 0:
				want = append(want, q[0])
				q = q[1:]
				labels = append(labels, "forward-item")
				nontrivial = nontrivial || closed
			case closed:
				want = append(want, mv{k: 's', s: "none"})
				labels = append(labels, "forward-from-drained-sends-nothing")
				nontrivial = true
			default:
				return nil, nil, false, false
			}
		case "rx2":
			switch {
			case len(q) > 0:
				want = append(want, q[0], mv{k: 'b', b: true})
				q = q[1:]
				labels = append(labels, "rx2-item", "rx2-item")
				nontrivial = nontrivial || closed
			case closed:
				want = append(want, mv{k: 's', s: "W"}, mv{k: 'b', b: false})
				labels = append(labels, "rx2-drained", "rx2-drained")
			default:
				return nil, nil, false, false
			}
		case "forinb":
			if op.V < 1 || op.V > 3 || (!closed && len(q) < int(op.V)) {
				return nil, nil, false, false // would block
			}
			take := min(len(q), int(op.V))
			if len(q) > take {
				nontrivial = true
			}
			for _, v := range q[:take] {
				want = append(want, v)
				labels = append(labels, "forin-break-item")
			}
			left := len(q) - take
			q = q[take:]
			want = append(want, mv{k: 's', s: "B"})
			if left > 0 {
				labels = append(labels, "forin-break-leaves-items")
			} else {
				labels = append(labels, "forin-break-end")
			}
		case "forin":
			if !closed {
				return nil, nil, false, false
			}
			nontrivial = nontrivial || len(q) > 0
			for _, v := range q {
				want = append(want, v)
				labels = append(labels, "forin-item")
			}
			q = nil
			want = append(want, mv{k: 's', s: "E"})
			labels = append(labels, "forin-end")
		default:
			return nil, nil, false, false
		}
	}
	return want, labels, nontrivial, true
}

func oracleClosed(c ClosedCase, o *h.Obs) *h.Fail {
	want, labels, nontrivial, ok := modelClosed(c)
	if !ok {
		o.Excluded = "outside_domain"
		return nil
	}
	src := renderClosed(c)
	o.Key = src
	if hangSeen["closed"] && !ctxRef.InReplay() {
		o.Excluded = "a run that does not finish was already reported by this process"
		return nil
	}
	o.NonTrivial = nontrivial
	o.Class("closed_elem_" + c.Ch.Type)
	o.Class("closed_" + bufClass(c.Ch.Buf))
	seen := map[string]bool{}
	for _, l := range labels {
		if !seen[l] {
			seen[l] = true
			o.Class("closed_op_" + l)
		}
	}
	// half of the programs (by their text) run under context.Background(), like vm.Execute does
	bg := len(src)%2 == 0
	if bg {
		o.Class("closed_run_under_background_context")
	}
	backgroundRun = bg
	r := runOnce(src, runDeadline, 64)
	backgroundRun = false
	switch {
	case r.hostPanic != "":
		return h.Failf("C16|host-panic|closed|"+r.hostPanicNorm, "a Go panic escaped into the host\nsource:\n%s\npanic: %s", src, r.hostPanic)
	case r.runaway:
		return h.Failf("C16|runaway-loop|closed", "for-in over the closed channel ran more iterations than items were buffered\nsource:\n%s", src)
	case r.stuck != "":
		f := h.Failf("C16|stuck|closed", "a straight-line program whose operations never block in the model did not finish (%s)\nsource:\n%s", r.stuck, src)
		f.NoShrink = true // every re-execution waits for the deadline again
		hangSeen["closed"] = true
		return f
	}
	bare := len(c.Ops) > 0 && c.Ops[len(c.Ops)-1].Bare
	result := r.value
	if bare {
		// the uncaught send/close must surface as the error value of the run
		if r.err == "" {
			return h.Failf("C16|closed-missing-error|"+c.Ops[len(c.Ops)-1].Op, "the last statement (%s on a closed channel, not inside try) did not make the run return an error; result %v\nsource:\n%s", c.Ops[len(c.Ops)-1].Op, r.value, src)
		}
		if len(r.outs) != 1 {
			return h.Failf("C16|result-shape|closed", "source:\n%s\nout(obs) called %d times", src, len(r.outs))
		}
		result = r.outs[0]
		labels = labels[:len(labels)-1]
	} else if r.err != "" {
		return h.Failf("C16|unexpected-error|closed|"+normMsg(r.err), "source:\n%s\nerror: %s", src, r.err)
	}
	obs, isList := result.([]interface{})
	if !isList {
		return h.Failf("C16|result-shape|closed", "source:\n%s\nresult %T %v", src, result, result)
	}
	for i := 0; i < len(want) && i < len(obs); i++ {
		if g := fromGo(obs[i]); !g.eq(want[i]) {
			cl := labels[i]
			if sameNumber(g, want[i]) {
				cl = "conversion"
			}
			return h.Failf("C16|closed-"+cl, "observation #%d (%s): got %s, expected %s\nsource:\n%s", i, labels[i], g, want[i], src)
		}
	}
	if len(obs) != len(want) {
		cl := "forin-end"
		if len(obs) < len(want) {
			cl = labels[len(obs)]
		}
		return h.Failf("C16|closed-"+cl, "%d observations, expected %d\nsource:\n%s", len(obs), len(want), src)
	}
	return nil
}
