package c16

// Sub-check "join": ONE consumer that receives from several channels in an interleaved way - a loop
// over one channel whose body receives from other channels (receive expressions in every position,
// the two receive statements, nested loops over further channels, loops over channels made in the
// body), at the top level, in a called function or in a go-started function, directly or through a
// function literal called in the body.
//
// Every channel has exactly one receiver (the consumer) and its items come from a producer that
// waits for nothing but its own channel (a goroutine, or the buffer filled beforehand), so whatever
// the schedule the consumer sees a fixed sequence: the reference model is an interpreter of the
// consumer over FIFO queues with a closed flag. The script records every receive as [site, value]
// and every loop end as [site, "E", iterations]; at the end every channel is drained by a loop of its
// own, so an item that was skipped, or taken by a loop that was asked for another channel, shows up.

import (
	"fmt"
	"sort"
	"strings"

	"pgregory.net/rapid"

	"verif/internal/h"
)

// JChan is one channel of the program.
type JChan struct {
	Type string `json:"type"` // int64 | interface | string
	// prod: a goroutine sends N items and closes. pre: the main goroutine puts N items into the buffer
	// and closes before the consumer starts. preopen: as pre, but the channel is closed only after
	// the consumer has finished (the consumer never waits on it when it is empty)
	Kind string `json:"kind"`
	Buf  int    `json:"buf"` // prod: buffer 0..3
	N    int    `json:"n"`   // 0..8
	Y    int    `json:"y,omitempty"`
}

// JNode is one statement of the consumer.
//
//	loop   Style forin: for x in c { rec; Body; leave by break after M items if M > 0 }
//	       Style ok2:   for { v, ok = <-c; if !ok { break }; rec; Body; ... }
//	       Style expr:  for { v = (<-c); if v == nil { break }; rec; Body; ... }
//	rx     one receive from c: Style expr `v = (<-c)` | lit `[S, <-c]` | fcall `idf(<-c)` |
//	       relay `dd <- <-c` then `(<-dd)` | stmt2 `v, ok = <-c` | stmt1 `v = <-c`
//	fresh  c = make(chan T, N); N sends; close(c)     (pre / preopen channels that no enclosing loop reads)
//	call   func() { Body }()
type JNode struct {
	Op    string  `json:"op"`
	Ch    int     `json:"ch"`
	Style string  `json:"style,omitempty"`
	M     int     `json:"m,omitempty"`
	N     int     `json:"n,omitempty"`
	Body  []JNode `json:"body,omitempty"`
}

type JoinCase struct {
	Chans []JChan `json:"chans"`
	Body  []JNode `json:"body"`
	Place string  `json:"place"` // top | func | go
	Procs []int   `json:"procs"`
}

var jTypes = []string{"int64", "interface", "string"}

func jItem(t string, j, i int) mv {
	if t == "string" {
		return mv{k: 's', s: fmt.Sprintf("c%d_%d", j, i)}
	}
	return mv{k: 'i', i: int64(j*100000 + i)}
}

// jOwner is the channel an item value was made for (-1: not an item).
func jOwner(v mv) int {
	switch v.k {
	case 'i':
		if v.i >= 0 {
			return int(v.i / 100000)
		}
	case 's':
		var j, i int
		if n, _ := fmt.Sscanf(v.s, "c%d_%d", &j, &i); n == 2 {
			return j
		}
	}
	return -1
}

// ---------------------------------------------------------------- numbering

type jn struct {
	JNode
	id   int
	body []jn
}

func jNumber(nodes []JNode, next *int) []jn {
	var out []jn
	for _, n := range nodes {
		x := jn{JNode: n, id: *next}
		*next++
		x.body = jNumber(n.Body, next)
		out = append(out, x)
	}
	return out
}

// ---------------------------------------------------------------- model

type jch struct {
	q      []mv
	closed bool
}

type jEntry struct {
	site int
	vals []mv
	what string // kind of observation, for the signature
	ch   int    // channel variable the site reads (-1: none)
}

type jFrame struct {
	style string
	calls int // function literals entered since the loop started
}

type jModel struct {
	c       JoinCase
	vars    []*jch
	next    []int
	trace   []jEntry
	bad     string // "" | domain | blocks | stmt1-on-drained | too-long
	rxOps   int
	frames  []jFrame
	encl    map[int]int
	classes map[string]bool
	nontriv bool
}

const jMaxTrace = 1200

func (m *jModel) rec(site int, what string, ch int, vals ...mv) {
	if len(m.trace) >= jMaxTrace {
		if m.bad == "" {
			m.bad = "too-long"
		}
		return
	}
	m.trace = append(m.trace, jEntry{site: site, vals: vals, what: what, ch: ch})
}

// recv takes the next item of the channel object; ok=false: closed and drained.
func (m *jModel) recv(obj *jch, kind string) (mv, bool) {
	m.rxOps++
	if len(m.frames) > 0 {
		f := m.frames[len(m.frames)-1]
		via := "same_invocation"
		if f.calls > 0 {
			via = "through_function_literal"
		}
		m.classes["join_body_of_"+f.style+"_loop_has_"+kind+"_"+via] = true
	}
	if len(obj.q) > 0 {
		v := obj.q[0]
		obj.q = obj.q[1:]
		return v, true
	}
	if !obj.closed {
		if m.bad == "" {
			m.bad = "blocks"
		}
	}
	return mv{k: 'n'}, false
}

func (m *jModel) exec(nodes []jn) {
	for _, n := range nodes {
		if m.bad != "" {
			return
		}
		if n.Ch < 0 || n.Ch >= len(m.c.Chans) {
			m.bad = "domain"
			return
		}
		site := mv{k: 'i', i: int64(n.id)}
		switch n.Op {
		case "rx":
			v, ok := m.recv(m.vars[n.Ch], "rx_"+n.Style)
			switch n.Style {
			case "expr", "lit", "fcall", "relay":
				m.rec(n.id, "rx-"+n.Style, n.Ch, site, v)
			case "stmt2":
				if ok {
					m.rec(n.id, "rx-stmt2", n.Ch, site, v, mv{k: 'b', b: true})
				} else {
					m.rec(n.id, "rx-stmt2", n.Ch, site, mv{k: 's', s: "U"}, mv{k: 'b', b: false})
				}
			case "stmt1":
				if !ok && m.bad == "" {
					m.bad = "stmt1-on-drained" // the statement does not say what `v = <-c` does then
				}
				m.rec(n.id, "rx-stmt1", n.Ch, site, v)
			default:
				m.bad = "domain"
			}
		case "fresh":
			if m.c.Chans[n.Ch].Kind == "prod" || m.encl[n.Ch] > 0 || n.N < 0 || n.N > 3 {
				m.bad = "domain"
				return
			}
			obj := &jch{closed: true}
			for i := 0; i < n.N; i++ {
				obj.q = append(obj.q, jItem(m.c.Chans[n.Ch].Type, n.Ch, m.next[n.Ch]))
				m.next[n.Ch]++
			}
			m.vars[n.Ch] = obj
			if len(m.frames) > 0 {
				m.classes["join_body_of_"+m.frames[len(m.frames)-1].style+"_loop_makes_a_channel"] = true
			}
		case "call":
			if len(m.frames) > 0 {
				m.frames[len(m.frames)-1].calls++
			}
			m.exec(n.body)
			if len(m.frames) > 0 {
				m.frames[len(m.frames)-1].calls--
			}
		case "loop":
			if !oneOf(n.Style, "forin", "ok2", "expr") || n.M < 0 || n.M > 9 {
				m.bad = "domain"
				return
			}
			obj := m.vars[n.Ch]
			m.encl[n.Ch]++
			count := 0
			last := mv{k: 's', s: "U"}
			for m.bad == "" {
				v, ok := m.recv(obj, "loop_"+n.Style)
				if !ok {
					break
				}
				last = v
				m.rec(n.id, "loop-"+n.Style+"-item", n.Ch, site, v)
				before := m.rxOps
				m.frames = append(m.frames, jFrame{style: n.Style})
				m.exec(n.body)
				m.frames = m.frames[:len(m.frames)-1]
				count++
				if n.M > 0 && count >= n.M {
					break
				}
				if m.rxOps > before {
					// a receive happened in the body and the loop now asks for its next item
					m.nontriv = true
				}
			}
			m.encl[n.Ch]--
			end := []mv{site, {k: 's', s: "E"}, {k: 'i', i: int64(count)}}
			if n.Style == "ok2" {
				end = append(end, last) // the value variable keeps the last item that was received
			}
			m.rec(n.id, "loop-"+n.Style+"-end", n.Ch, end...)
		default:
			m.bad = "domain"
		}
	}
}

func jRun(c JoinCase) *jModel {
	m := &jModel{c: c, encl: map[int]int{}, classes: map[string]bool{}}
	if len(c.Chans) < 2 || len(c.Chans) > 4 || !oneOf(c.Place, "top", "func", "go") || len(c.Procs) < 1 || len(c.Procs) > 3 {
		m.bad = "domain"
		return m
	}
	for _, p := range c.Procs {
		if p < 1 || p > 64 {
			m.bad = "domain"
			return m
		}
	}
	for j, ch := range c.Chans {
		if !oneOf(ch.Type, jTypes...) || !oneOf(ch.Kind, "prod", "pre", "preopen") || ch.Buf < 0 || ch.Buf > 3 || ch.N < 0 || ch.N > 8 || ch.Y < 0 || ch.Y > 3 {
			m.bad = "domain"
			return m
		}
		// a producer goroutine sends all its items and closes whatever the consumer does, and the
		// consumer is the only receiver: for the consumer the channel is a closed queue of N items
		obj := &jch{closed: ch.Kind != "preopen"}
		for i := 0; i < ch.N; i++ {
			obj.q = append(obj.q, jItem(ch.Type, j, i))
		}
		m.vars = append(m.vars, obj)
		m.next = append(m.next, ch.N)
	}
	next := 1
	nodes := jNumber(c.Body, &next)
	if next > 40 {
		m.bad = "domain"
		return m
	}
	m.exec(nodes)
	if m.bad != "" {
		return m
	}
	// the epilogue: what is still open is closed, then every channel is drained by a loop of its own
	for j := range c.Chans {
		obj := m.vars[j]
		obj.closed = true
		site := mv{k: 'i', i: int64(900 + j)}
		for _, v := range obj.q {
			m.rec(900+j, "final-drain-item", j, site, v)
		}
		m.rec(900+j, "final-drain-end", j, site, mv{k: 's', s: "E"}, mv{k: 'i', i: int64(len(obj.q))})
		obj.q = nil
	}
	return m
}

// ---------------------------------------------------------------- rendering

func jItemExpr(t string, j int, idx string) string {
	if t == "string" {
		return fmt.Sprintf("\"c%d_\" + %s", j, idx)
	}
	return fmt.Sprintf("%d + %s", j*100000, idx)
}

func jRenderNodes(b *strings.Builder, c JoinCase, nodes []jn, ind string) {
	for _, n := range nodes {
		s := n.id
		ch := fmt.Sprintf("c%d", n.Ch)
		switch n.Op {
		case "rx":
			switch n.Style {
			case "expr":
				fmt.Fprintf(b, "%sv%d = (<-%s)\n%sres += [[%d, v%d]]\n", ind, s, ch, ind, s, s)
			case "lit":
				fmt.Fprintf(b, "%sres += [[%d, <-%s]]\n", ind, s, ch)
			case "fcall":
				fmt.Fprintf(b, "%sres += [[%d, idf(<-%s)]]\n", ind, s, ch)
			case "relay":
				fmt.Fprintf(b, "%sdd <- <-%s\n%sres += [[%d, (<-dd)]]\n", ind, ch, ind, s)
			case "stmt2":
				fmt.Fprintf(b, "%sv%d = \"U\"\n%sv%d, ok%d = <-%s\n%sres += [[%d, v%d, ok%d]]\n", ind, s, ind, s, s, ch, ind, s, s, s)
			case "stmt1":
				fmt.Fprintf(b, "%sv%d = \"U\"\n%sv%d = <-%s\n%sres += [[%d, v%d]]\n", ind, s, ind, s, ch, ind, s, s)
			}
		case "fresh":
			fmt.Fprintf(b, "%s%s = make(chan %s, %d)\n%so%d = false\n", ind, ch, c.Chans[n.Ch].Type, n.N, ind, n.Ch)
			for i := 0; i < n.N; i++ {
				fmt.Fprintf(b, "%s%s <- %s\n%sk%d++\n", ind, ch, jItemExpr(c.Chans[n.Ch].Type, n.Ch, fmt.Sprintf("k%d", n.Ch)), ind, n.Ch)
			}
			fmt.Fprintf(b, "%sclose(%s)\n", ind, ch)
		case "call":
			fmt.Fprintf(b, "%sfunc() {\n", ind)
			jRenderNodes(b, c, n.body, ind+"\t")
			fmt.Fprintf(b, "%s}()\n", ind)
		case "loop":
			in := ind + "\t"
			fmt.Fprintf(b, "%sn%d = 0\n", ind, s)
			switch n.Style {
			case "forin":
				fmt.Fprintf(b, "%sfor x%d in %s {\n", ind, s, ch)
			case "ok2":
				fmt.Fprintf(b, "%sx%d = \"U\"\n%sok%d = true\n%sfor {\n%sx%d, ok%d = <-%s\n%sif !ok%d {\n%s\tbreak\n%s}\n", ind, s, ind, s, ind, in, s, s, ch, in, s, in, in)
			default:
				fmt.Fprintf(b, "%sfor {\n%sx%d = (<-%s)\n%sif x%d == nil {\n%s\tbreak\n%s}\n", ind, in, s, ch, in, s, in, in)
			}
			fmt.Fprintf(b, "%stick()\n%sres += [[%d, x%d]]\n", in, in, s, s)
			jRenderNodes(b, c, n.body, in)
			fmt.Fprintf(b, "%sn%d++\n", in, s)
			if n.M > 0 {
				fmt.Fprintf(b, "%sif n%d >= %d {\n%s\tbreak\n%s}\n", in, s, n.M, in, in)
			}
			fmt.Fprintf(b, "%s}\n", ind)
			if n.Style == "ok2" {
				fmt.Fprintf(b, "%sres += [[%d, \"E\", n%d, x%d]]\n", ind, s, s, s)
			} else {
				fmt.Fprintf(b, "%sres += [[%d, \"E\", n%d]]\n", ind, s, s)
			}
		}
	}
}

func jRender(c JoinCase) string {
	var b strings.Builder
	b.WriteString("res = []\nidf = func(x) {\n\treturn x\n}\ndd = make(chan interface, 4)\n")
	for j, ch := range c.Chans {
		switch ch.Kind {
		case "prod":
			fmt.Fprintf(&b, "c%d = %s\n", j, makeChan(Chan{Buf: ch.Buf, Type: ch.Type}, j%2 == 1))
		default:
			fmt.Fprintf(&b, "c%d = make(chan %s, %d)\n", j, ch.Type, ch.N)
		}
		fmt.Fprintf(&b, "k%d = %d\no%d = %v\n", j, ch.N, j, ch.Kind == "preopen")
	}
	for j, ch := range c.Chans {
		switch ch.Kind {
		case "prod":
			fmt.Fprintf(&b, "go func(co, n) {\n\ttry {\n\t\tfor i = 0; i < n; i++ {\n\t\t\tco <- %s\n%s\t\t}\n\t\tclose(co)\n\t} catch e {\n\t\tgerr(%d, \"\" + e)\n\t}\n}(c%d, %d)\n", jItemExpr(ch.Type, j, "i"), yieldStmt("\t\t\t", ch.Y), j, j, ch.N)
		default:
			for i := 0; i < ch.N; i++ {
				fmt.Fprintf(&b, "c%d <- %s\n", j, jItemExpr(ch.Type, j, fmt.Sprint(i)))
			}
			if ch.Kind == "pre" {
				fmt.Fprintf(&b, "close(c%d)\n", j)
			}
		}
	}
	next := 1
	nodes := jNumber(c.Body, &next)
	switch c.Place {
	case "func":
		b.WriteString("func cons() {\n")
		jRenderNodes(&b, c, nodes, "\t")
		b.WriteString("}\ncons()\n")
	case "go":
		b.WriteString("dnj = make(chan int64)\ngo func() {\n\ttry {\n")
		jRenderNodes(&b, c, nodes, "\t\t")
		b.WriteString("\t} catch e {\n\t\tgerr(99, \"\" + e)\n\t}\n\tdnj <- 1\n}()\n<-dnj\n")
	default:
		jRenderNodes(&b, c, nodes, "")
	}
	for j := range c.Chans {
		fmt.Fprintf(&b, "if o%d {\n\tclose(c%d)\n}\n", j, j)
	}
	for j := range c.Chans {
		fmt.Fprintf(&b, "m%d = 0\nfor y%d in c%d {\n\ttick()\n\tres += [[%d, y%d]]\n\tm%d++\n}\nres += [[%d, \"E\", m%d]]\n", j, j, j, 900+j, j, j, 900+j, j)
	}
	b.WriteString("res\n")
	return b.String()
}

// ---------------------------------------------------------------- generator

func genJNodes(t *rapid.T, nch int, depth int, inLoop bool, encl map[int]bool, freshable []int, budget *int) []JNode {
	maxN := 3
	if depth == 0 {
		maxN = 3
	} else if depth >= 2 {
		maxN = 2
	}
	lo := 0
	if depth == 0 {
		lo = 1
	}
	k := rapid.IntRange(lo, maxN).Draw(t, "stmts")
	var out []JNode
	for i := 0; i < k && *budget > 0; i++ {
		*budget--
		ops := []string{"loop", "loop", "rx", "rx"}
		if inLoop {
			ops = []string{"rx", "rx", "rx", "rx", "loop", "loop", "fresh", "call"}
		} else if depth == 0 {
			ops = []string{"loop", "loop", "loop", "loop", "rx", "call"}
		}
		if depth >= 3 {
			ops = []string{"rx", "rx", "fresh"}
		}
		n := JNode{Op: rapid.SampledFrom(ops).Draw(t, "op"), Ch: rapid.IntRange(0, nch-1).Draw(t, "ch")}
		switch n.Op {
		case "rx":
			n.Style = rapid.SampledFrom([]string{"expr", "expr", "lit", "fcall", "relay", "stmt2", "stmt2", "stmt1"}).Draw(t, "rxstyle")
		case "fresh":
			var cand []int
			for _, j := range freshable {
				if !encl[j] {
					cand = append(cand, j)
				}
			}
			if len(cand) == 0 {
				n = JNode{Op: "rx", Ch: n.Ch, Style: "expr"}
				break
			}
			n.Ch = rapid.SampledFrom(cand).Draw(t, "freshch")
			n.N = rapid.IntRange(0, 3).Draw(t, "freshn")
		case "call":
			n.Body = genJNodes(t, nch, depth+1, inLoop, encl, freshable, budget)
		case "loop":
			n.Style = rapid.SampledFrom([]string{"forin", "forin", "forin", "forin", "ok2", "expr"}).Draw(t, "loopstyle")
			if rapid.IntRange(0, 3).Draw(t, "leave") == 0 {
				n.M = rapid.IntRange(1, 3).Draw(t, "leave_after")
			}
			was := encl[n.Ch]
			encl[n.Ch] = true
			n.Body = genJNodes(t, nch, depth+1, true, encl, freshable, budget)
			encl[n.Ch] = was
		}
		out = append(out, n)
	}
	return out
}

func jRewrite(nodes []JNode, f func(*JNode)) {
	for i := range nodes {
		f(&nodes[i])
		jRewrite(nodes[i].Body, f)
	}
}

func genJoin(t *rapid.T) JoinCase {
	c := JoinCase{Place: rapid.SampledFrom([]string{"top", "top", "func", "go"}).Draw(t, "place")}
	c.Procs = rapid.SampledFrom([][]int{{1, 16}, {2, 16}, {1, 2}}).Draw(t, "procs")
	nch := rapid.IntRange(2, 4).Draw(t, "chans")
	var freshable []int
	for j := 0; j < nch; j++ {
		ch := JChan{
			Type: rapid.SampledFrom([]string{"int64", "int64", "interface", "interface", "string"}).Draw(t, "type"),
			Kind: rapid.SampledFrom([]string{"prod", "prod", "prod", "pre", "pre", "preopen"}).Draw(t, "kind"),
		}
		if rapid.IntRange(0, 3).Draw(t, "few") == 0 {
			ch.N = rapid.IntRange(0, 1).Draw(t, "n")
		} else {
			ch.N = rapid.IntRange(2, 8).Draw(t, "n")
		}
		if ch.Kind == "prod" {
			ch.Buf = rapid.SampledFrom([]int{0, 0, 1, 2, 3}).Draw(t, "buf")
			ch.Y = genYield(t, "y")
		} else {
			freshable = append(freshable, j)
		}
		c.Chans = append(c.Chans, ch)
	}
	budget := 12
	c.Body = genJNodes(t, nch, 0, false, map[int]bool{}, freshable, &budget)
	// constructive repairs, decided by the reference model alone: a consumer that would wait for ever
	// on an open channel nobody writes gets its channels closed beforehand; a one-value receive
	// statement that would meet a drained channel (not specified) becomes the two-value form
	for pass := 0; pass < 3; pass++ {
		switch jRun(c).bad {
		case "blocks":
			for j := range c.Chans {
				if c.Chans[j].Kind == "preopen" {
					c.Chans[j].Kind = "pre"
				}
			}
		case "stmt1-on-drained":
			jRewrite(c.Body, func(n *JNode) {
				if n.Op == "rx" && n.Style == "stmt1" {
					n.Style = "stmt2"
				}
			})
		}
	}
	return c
}

// ---------------------------------------------------------------- oracle

func jShowEntry(vals []mv) string {
	parts := make([]string, len(vals))
	for i, v := range vals {
		parts[i] = v.String()
	}
	return "[" + strings.Join(parts, ", ") + "]"
}

func jShowTrace(tr [][]mv, around int) string {
	lo, hi := around-4, around+4
	if lo < 0 {
		lo = 0
	}
	if hi > len(tr) {
		hi = len(tr)
	}
	var parts []string
	for i := lo; i < hi; i++ {
		parts = append(parts, fmt.Sprintf("#%d %s", i, jShowEntry(tr[i])))
	}
	return fmt.Sprintf("%d entries: … %s …", len(tr), strings.Join(parts, "  "))
}

func jSameEntry(a, b []mv) bool {
	if len(a) != len(b) {
		return false
	}
	for i := range a {
		if !a[i].eq(b[i]) {
			return false
		}
	}
	return true
}

// jClause names the first difference between the expected and the recorded trace.
func jClause(want jEntry, got []mv) string {
	if got == nil {
		return "record-ends-early"
	}
	if len(got) < 2 || !got[0].eq(want.vals[0]) {
		return "other-statement-ran"
	}
	w, g := want.vals[1], got[1]
	wEnd := len(want.vals) >= 3 && w.k == 's' && w.s == "E"
	gEnd := len(got) >= 3 && g.k == 's' && g.s == "E"
	wItem, gItem := !wEnd && jOwner(w) >= 0, !gEnd && jOwner(g) >= 0
	switch {
	case wEnd && gEnd:
		return "iterations-or-last-value"
	case wItem && gEnd:
		return "loop-ended-with-items-left"
	case wEnd && gItem:
		return "loop-went-on-after-its-end"
	case wItem && gItem && jOwner(g) != jOwner(w):
		return "item-of-another-channel"
	case wItem && gItem && !w.eq(g):
		return "wrong-item-of-the-channel"
	case wItem && gItem:
		return "ok-flag"
	case wItem:
		return "no-item-although-one-was-sent"
	case gItem:
		return "item-from-drained-channel"
	}
	return "drained-observation"
}

func oracleJoin(c JoinCase, o *h.Obs) *h.Fail {
	m := jRun(c)
	if m.bad != "" {
		o.Excluded = "join_" + strings.ReplaceAll(m.bad, "-", "_")
		return nil
	}
	src := jRender(c)
	goroutines := 1
	for _, ch := range c.Chans {
		if ch.Kind == "prod" {
			goroutines++
		}
	}
	if c.Place == "go" {
		goroutines++
	}
	procs := c.Procs
	if goroutines == 1 {
		procs = procs[:1] // one goroutine: nothing to schedule
	}
	o.Key = fmt.Sprintf("%s\n// GOMAXPROCS %v", src, procs)
	o.Note = o.Key
	if hangSeen["join"] && !ctxRef.InReplay() {
		o.Excluded = "a run that does not finish was already reported by this process"
		return nil
	}
	o.NonTrivial = m.nontriv
	o.Class("join_place_" + c.Place)
	o.Class("join_goroutines_%d", goroutines)
	for _, ch := range c.Chans {
		o.Class("join_chan_" + ch.Kind)
	}
	var cls []string
	for cl := range m.classes {
		cls = append(cls, cl)
	}
	sort.Strings(cls)
	for _, cl := range cls {
		o.Class(cl)
	}
	if m.nontriv {
		o.Class("join_loop_asks_for_next_item_after_receives_in_its_body")
	}
	var want [][]mv
	for _, e := range m.trace {
		want = append(want, e.vals)
	}
	tickLimit := int64(len(m.trace) + 64)
	for _, p := range procs {
		var r *runResult
		withProcs(p, func() { r = runOnce(src, runDeadline, tickLimit) })
		head := fmt.Sprintf("GOMAXPROCS=%d\nsource:\n%s", p, src)
		switch {
		case r.hostPanic != "":
			return h.Failf("C16|join|host-panic|"+r.hostPanicNorm, "%s\na Go panic escaped into the host: %s", head, r.hostPanic)
		case r.runaway:
			return h.Failf("C16|join|runaway-loop", "%s\nthe receive loops ran more iterations than there are messages", head)
		case len(r.gerrs) > 0:
			return h.Failf("C16|join|goroutine-error|"+normMsg(r.gerrs[0]), "%s\na script goroutine failed although every operation it does is defined: %s", head, r.gerrs[0])
		case r.stuck != "":
			f := h.Failf("C16|join|stuck", "%s\nthe run did not finish (%s): the consumer waits for a message although, receive by receive, an item or the close of the channel it asks is always on its way", head, r.stuck)
			f.NoShrink = true
			hangSeen["join"] = true
			return f
		case r.err != "":
			return h.Failf("C16|join|error|"+normMsg(r.err), "%s\nerror: %s", head, r.err)
		}
		lst, ok := r.value.([]interface{})
		if !ok {
			return h.Failf("C16|join|result-shape", "%s\nresult is %T", head, r.value)
		}
		var got [][]mv
		for _, x := range lst {
			e, ok := x.([]interface{})
			if !ok {
				return h.Failf("C16|join|result-shape", "%s\nrecord entry is %T", head, x)
			}
			var vals []mv
			for _, y := range e {
				vals = append(vals, fromGo(y))
			}
			got = append(got, vals)
		}
		for i, e := range m.trace {
			var g []mv
			if i < len(got) {
				g = got[i]
			}
			if g != nil && jSameEntry(e.vals, g) {
				continue
			}
			gs := "nothing (the record ends)"
			if g != nil {
				gs = jShowEntry(g)
			}
			return h.Failf("C16|join|"+jClause(e, g)+"|"+e.what, "%s\nthe consumer is the only receiver of every channel and every producer sends its items in order and closes, so what each receive yields is fixed: first difference at record entry #%d (%s on c%d): expected %s, recorded %s\nexpected %s\nrecorded %s", head, i, e.what, e.ch, jShowEntry(e.vals), gs, jShowTrace(want, i), jShowTrace(got, i))
		}
		if len(got) > len(want) {
			return h.Failf("C16|join|record-too-long", "%s\n%d record entries, expected %d\nrecorded %s", head, len(got), len(want), jShowTrace(got, len(want)))
		}
	}
	return nil
}
