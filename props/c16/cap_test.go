package c16

// Sub-check "capacity": make(chan T, n) is a Go channel with room for n items. A program may rely on
// that: n sends complete while nobody receives (fill, close, then drain; or a collector that reads the
// results only after every worker has finished). Sizes are edge values from 0 to a little over 2^17,
// among them sizes that do not fit into 16 bits.
//
//	script    the main goroutine sends N items into make(chan T, Buf) (N <= Buf, mostly N == Buf),
//	          closes and drains
//	workers   W goroutines send N items in all into the results channel and signal a done channel;
//	          the main goroutine waits for all W signals, then closes and drains
//	hostfill  large sizes: the host puts the first N-Tail items into the script's channel with Go's
//	          non-blocking send (`select { case c <- v: default: }`) and tells how many went in, the
//	          script sends the last Tail items itself, closes, receives the first Head items itself
//	          and hands the channel to the host for the rest
//
// Expected: every item exactly once; in order (per worker for workers).
//
// This sub-check does not switch GOMAXPROCS: with the race detector, Go 1.23's runtime now and then
// dies in (*p).destroy -> racectxend(pp.timers.raceCtx) (SIGSEGV in __tsan::ThreadContext::OnFinished)
// when GOMAXPROCS shrinks after a timer has fired on a P that goes away, and the long runs here let
// the watchdog's timer fire on every P (seen about once per 5000 switches that followed such a run).

import (
	"fmt"
	"reflect"
	"strings"
	"sync"

	"pgregory.net/rapid"

	"verif/internal/h"
)

type CapCase struct {
	Type  string `json:"type"` // int64 | float64 | interface
	Buf   int    `json:"buf"`
	Short int    `json:"short,omitempty"` // N = Buf - Short
	Mode  string `json:"mode"`            // script | workers | hostfill
	W     int    `json:"w,omitempty"`
	Tail  int    `json:"tail,omitempty"`
	Head  int    `json:"head,omitempty"`
	Drain string `json:"drain"` // forin | ok2 | expr
}

const capScriptMax = 140000 // items a script sends one by one (13 us each under the race detector)
const capHostMax = 1100000

var capMedium = []int{17, 31, 32, 33, 63, 64, 65, 127, 128, 129, 255, 256, 257, 1000, 1023, 1024, 1025, 4095, 4096, 4097}
var capLarge = []int{65535, 65536, 65537, 65600, 70000, 100000, 131071, 131072, 131073}
var capHuge = []int{262143, 262145, 524289, 1048577}

func capBand(n int) string {
	switch {
	case n <= 16:
		return "0to16"
	case n < 65535:
		return "17to65534"
	case n <= 65536:
		return "65535to65536"
	case n <= capScriptMax:
		return "over_16_bits"
	}
	return "over_2pow17"
}

// genCapFor: the quick tier leaves out the sizes over 2^17 (a second and more each under the race
// detector) and sends a large channel's items one by one from the script less often.
func genCapFor(thorough bool) func(t *rapid.T) CapCase {
	return func(t *rapid.T) CapCase { return genCap(t, thorough) }
}

func genCap(t *rapid.T, thorough bool) CapCase {
	c := CapCase{
		Type:  rapid.SampledFrom([]string{"int64", "int64", "interface", "interface", "float64"}).Draw(t, "type"),
		Drain: rapid.SampledFrom([]string{"forin", "forin", "ok2", "expr"}).Draw(t, "drain"),
		Mode:  "script",
	}
	band := rapid.SampledFrom([]string{"small", "small", "medium", "medium", "medium", "large", "large", "large", "large", "huge"}).Draw(t, "band")
	if band == "huge" && !thorough {
		band = "large"
	}
	switch band {
	case "small":
		c.Buf = rapid.IntRange(0, 16).Draw(t, "buf")
	case "medium":
		if rapid.Bool().Draw(t, "edge") {
			c.Buf = rapid.SampledFrom(capMedium).Draw(t, "buf")
		} else {
			c.Buf = rapid.IntRange(17, 4100).Draw(t, "buf")
		}
	case "large":
		if rapid.Bool().Draw(t, "edge") {
			c.Buf = rapid.SampledFrom(capLarge).Draw(t, "buf")
		} else {
			c.Buf = rapid.IntRange(65535, capScriptMax).Draw(t, "buf")
		}
		c.Mode = "hostfill"
		rare := 15
		if thorough {
			rare = 5
		}
		if rapid.IntRange(0, rare).Draw(t, "all_by_script") == 0 {
			c.Mode = "script"
		}
	default:
		c.Buf = rapid.SampledFrom(capHuge).Draw(t, "buf")
		c.Mode = "hostfill"
	}
	if rapid.IntRange(0, 4).Draw(t, "short") == 0 {
		c.Short = rapid.IntRange(1, 3).Draw(t, "short_by")
		if c.Short > c.Buf {
			c.Short = c.Buf
		}
	}
	n := c.Buf - c.Short
	switch c.Mode {
	case "script":
		if c.Buf <= 4100 && n >= 2 && rapid.IntRange(0, 2).Draw(t, "workers") == 0 {
			c.Mode = "workers"
			c.W = rapid.IntRange(2, 4).Draw(t, "w")
		}
	case "hostfill":
		c.Tail = rapid.IntRange(1, 200).Draw(t, "tail")
		c.Head = rapid.IntRange(0, 200).Draw(t, "head")
	}
	return c
}

func capSource(c CapCase) string {
	var b strings.Builder
	n := c.Buf - c.Short
	fmt.Fprintf(&b, "c = make(chan %s, %d)\n", c.Type, c.Buf)
	switch c.Mode {
	case "script":
		fmt.Fprintf(&b, "for i = 0; i < %d; i++ {\n\tc <- i\n}\n", n)
	case "workers":
		fmt.Fprintf(&b, "dn = make(chan int64)\nfunc w(id, from, to) {\n\ttry {\n\t\tfor i = from; i < to; i++ {\n\t\t\tc <- id * 10000000 + i\n\t\t}\n\t} catch e {\n\t\tgerr(id, \"\" + e)\n\t}\n\tdn <- 1\n}\n")
		for w := 0; w < c.W; w++ {
			fmt.Fprintf(&b, "go w(%d, %d, %d)\n", w+1, w*n/c.W, (w+1)*n/c.W)
		}
		fmt.Fprintf(&b, "for j = 0; j < %d; j++ {\n\t<-dn\n}\n", c.W)
	case "hostfill":
		m := n - c.Tail
		fmt.Fprintf(&b, "went = hfill(c, %d)\nif went == %d {\n\tfor i = %d; i < %d; i++ {\n\t\tc <- i\n\t}\n}\n", m, m, m, n)
	}
	b.WriteString("close(c)\n")
	host := c.Mode == "hostfill"
	// the part of the loop body that records an item; for hostfill the script takes Head items only
	rec, stop := "\tgot(v)\n", ""
	if host {
		b.WriteString("taken = 0\n")
		rec += "\ttaken++\n"
		stop = fmt.Sprintf("\tif taken >= %d {\n\t\tbreak\n\t}\n", c.Head)
	}
	switch c.Drain {
	case "forin":
		if host {
			// the loop is left before it asks for an item it is not going to record
			fmt.Fprintf(&b, "if %d > 0 {\n%s}\n", c.Head, indent("for v in c {\n"+rec+stop+"}\n"))
		} else {
			fmt.Fprintf(&b, "for v in c {\n%s}\n", rec)
		}
	case "ok2":
		fmt.Fprintf(&b, "for {\n%s\tv, ok = <-c\n\tif !ok {\n\t\tbreak\n\t}\n%s}\n", stop, rec)
	default:
		fmt.Fprintf(&b, "for {\n%s\tv = (<-c)\n\tif v == nil {\n\t\tbreak\n\t}\n%s}\n", stop, rec)
	}
	if c.Mode == "hostfill" {
		b.WriteString("hdrain(c)\n")
	}
	b.WriteString("1\n")
	return b.String()
}

func capVal(t string, x int64) mv {
	if t == "float64" {
		return mv{k: 'f', f: float64(x)}
	}
	return mv{k: 'i', i: x}
}

func oracleCap(c CapCase, o *h.Obs) *h.Fail {
	n := c.Buf - c.Short
	max := capScriptMax
	if c.Mode == "hostfill" {
		max = capHostMax
	}
	if !oneOf(c.Type, "int64", "float64", "interface") || !oneOf(c.Mode, "script", "workers", "hostfill") || !oneOf(c.Drain, "forin", "ok2", "expr") ||
		c.Buf < 0 || c.Buf > max || c.Short < 0 || n < 0 ||
		(c.Mode == "workers" && (c.W < 2 || c.W > 4 || c.Buf > 10000)) ||
		(c.Mode == "hostfill" && (c.Tail < 0 || c.Tail > 2000 || c.Tail > n || c.Head < 0 || c.Head > 2000)) {
		o.Excluded = "malformed_case"
		return nil
	}
	src := capSource(c)
	o.Key = src
	if hangSeen["capacity"] && !ctxRef.InReplay() {
		o.Excluded = "a run that does not finish was already reported by this process"
		return nil
	}
	band := capBand(c.Buf)
	o.NonTrivial = n >= 2 && c.Short == 0
	o.Class("capacity_mode_" + c.Mode)
	o.Class("capacity_size_" + band)
	o.Class("capacity_elem_" + c.Type)
	if c.Short == 0 {
		o.Class("capacity_filled_to_the_brim")
	}
	if c.Mode == "script" && c.Buf >= 65535 {
		o.Class("capacity_over_16_bits_all_sent_by_script")
	}

	var mu sync.Mutex
	var got []mv // workers: everything received
	// the other modes: the items are 0, 1, 2, ... in order; compared as they arrive
	count, firstBad := 0, -1
	var badVal mv
	take := func(v mv) {
		if c.Mode == "workers" {
			got = append(got, v)
			return
		}
		if firstBad < 0 && !(count < n && v.eq(capVal(c.Type, int64(count)))) {
			firstBad, badVal = count, v
		}
		count++
	}
	wouldBlockAt := -1
	extra := map[string]interface{}{
		"got": func(v interface{}) {
			mu.Lock()
			take(fromGo(v))
			mu.Unlock()
		},
		// hfill: Go's non-blocking send, m times; returns how many items the channel took
		"hfill": func(ch interface{}, m int64) int64 {
			cv := reflect.ValueOf(ch)
			if cv.Kind() != reflect.Chan {
				return -1
			}
			isFloat := cv.Type().Elem().Kind() == reflect.Float64
			for i := int64(0); i < m; i++ {
				x := reflect.ValueOf(i)
				if isFloat {
					x = reflect.ValueOf(float64(i))
				}
				if !cv.TrySend(x) {
					mu.Lock()
					wouldBlockAt = int(i)
					mu.Unlock()
					return i
				}
			}
			return m
		},
		// hdrain: Go's non-blocking receive until nothing comes (the channel is closed by then)
		"hdrain": func(ch interface{}) {
			cv := reflect.ValueOf(ch)
			if cv.Kind() != reflect.Chan {
				return
			}
			mu.Lock()
			defer mu.Unlock()
			for {
				x, ok := cv.TryRecv()
				if !ok {
					return
				}
				take(fromGo(x.Interface()))
			}
		},
	}
	// GOMAXPROCS is left as it is (see the note at the top of the file)
	head := "source:\n" + src
	r := runOnceWith(src, 3*runDeadline, 1<<40, extra)
	mu.Lock()
	defer mu.Unlock()
	switch {
	case r.hostPanic != "":
		return h.Failf("C16|capacity|host-panic|"+r.hostPanicNorm, "%s\na Go panic escaped into the host: %s", head, r.hostPanic)
	case wouldBlockAt >= 0:
		return h.Failf("C16|capacity|go-send-would-block|"+band, "%s\nthe channel made by make(chan %s, %d) took %d items; the next non-blocking Go send found it full although nobody had received anything: a Go channel of that capacity takes %d", head, c.Type, c.Buf, wouldBlockAt, c.Buf)
	case len(r.gerrs) > 0:
		return h.Failf("C16|capacity|goroutine-error|"+normMsg(r.gerrs[0]), "%s\na worker failed: %s", head, r.gerrs[0])
	case r.stuck != "":
		f := h.Failf("C16|capacity|stuck|"+c.Mode+"|"+band, "%s\nthe run did not finish (%s): %d sends into a channel made with room for %d items wait for a receiver", head, r.stuck, n, c.Buf)
		f.NoShrink = true
		hangSeen["capacity"] = true
		return f
	case r.err != "":
		return h.Failf("C16|capacity|error|"+normMsg(r.err), "%s\nerror: %s", head, r.err)
	}
	if c.Mode != "workers" {
		switch {
		case firstBad >= 0 && firstBad >= n:
			return h.Failf("C16|capacity|duplicate|"+c.Mode, "%s\n%d items were sent; item #%d received is %s", head, n, firstBad, badVal)
		case firstBad >= 0:
			cl := "order-or-lost"
			if sameNumber(badVal, capVal(c.Type, int64(firstBad))) {
				cl = "conversion"
			}
			return h.Failf("C16|capacity|"+cl+"|"+c.Mode, "%s\nthe items are 0, 1, 2, ... %d; item #%d received is %s, expected %s", head, n-1, firstBad, badVal, capVal(c.Type, int64(firstBad)))
		case count != n:
			return h.Failf("C16|capacity|lost|"+c.Mode, "%s\n%d items were sent, %d were received (in order)", head, n, count)
		}
		return nil
	}
	var exp [][]mv
	for w := 0; w < c.W; w++ {
		var seq []mv
		for i := w * n / c.W; i < (w+1)*n/c.W; i++ {
			seq = append(seq, capVal(c.Type, int64(w+1)*10000000+int64(i)))
		}
		exp = append(exp, seq)
	}
	if cl, detail := judgeDelivery(Case{}, exp, got); cl != "" {
		return h.Failf("C16|capacity|"+cl+"|"+c.Mode, "%s\n%s", head, detail)
	}
	return nil
}
