package c16

// Sub-check "loopvar": the items a `for v in ch` hands to its body are the items that were sent,
// one per round, also when the body works on the loop variable in place (`v = v * 3`, `v += "!"`,
// `v++`, `v = v`) or keeps an item under another name for a later round (a stage that forwards
// every item one round late, a consumer that remembers the first item).
//
// A producer (a goroutine, or the main flow filling the buffer before the first receive) sends
// items 1..N on a channel; 0..2 stage goroutines and the final consumer each run a for-in over
// their input channel. What the consumer records is computed from the specification alone: the
// in-place operations are applied to every item once per loop that holds them, keeping an item
// under another name changes nothing.

import (
	"fmt"
	"strings"

	"pgregory.net/rapid"

	"verif/internal/h"
)

// LVLoop is one for-in loop (a stage goroutine or the final consumer).
type LVLoop struct {
	Ops  []string `json:"ops,omitempty"` // in-place operations on the loop variable, in order (scalar items only)
	Mode string   `json:"mode"`          // emit | delay (every item is handed on one round late, kept under another name meanwhile) | first (consumer only: the first item is kept and reported at the end) | keepfn (as delay, the item is bound through a function parameter)
	Out  string   `json:"out,omitempty"` // stage: element type of its output channel: same | interface
	Buf  int      `json:"buf,omitempty"` // stage: buffer of its output channel
	Y    int      `json:"y,omitempty"`   // yield(j) in the body
}

type LVCase struct {
	Elem   string   `json:"elem"` // int64 | float64 | string | bool | item | pitem | interface
	Buf    int      `json:"buf"`
	N      int      `json:"n"`
	Fill   string   `json:"fill"` // goroutine | prefill
	Stages []LVLoop `json:"stages,omitempty"`
	Cons   LVLoop   `json:"cons"`
	Place  string   `json:"place"` // top | func | go
	Procs  []int    `json:"procs"`
	Reps   int      `json:"reps"`
}

// lvKind: 'i' 'f' 's' 'b' scalar kinds, 't' struct items.
func lvKind(elem string) byte {
	switch elem {
	case "int64", "interface":
		return 'i'
	case "float64":
		return 'f'
	case "string":
		return 's'
	case "bool":
		return 'b'
	}
	return 't'
}

var lvOps = map[byte][]string{
	'i': {"mul", "add", "inc", "dec", "neg", "self", "blk", "fn"},
	'f': {"mul", "add", "neg", "self", "blk"},
	's': {"cat", "pre", "self", "blk"},
	'b': {"not", "self"},
}

// lvOpSrc renders one in-place operation on variable v.
func lvOpSrc(kind byte, op, v string) string {
	switch op {
	case "mul":
		if kind == 'f' {
			return v + " = " + v + " * 2"
		}
		return v + " = " + v + " * 3"
	case "add":
		if kind == 'f' {
			return v + " += 0.5"
		}
		return v + " += 7"
	case "inc":
		return v + "++"
	case "dec":
		return v + "--"
	case "neg":
		return v + " = -" + v
	case "self":
		return v + " = " + v
	case "blk":
		switch kind {
		case 'f':
			return "if true {\n\t" + v + " = " + v + " + 100.0\n}"
		case 's':
			return "if true {\n\t" + v + " = " + v + " + \"#\"\n}"
		}
		return "if true {\n\t" + v + " = " + v + " + 100\n}"
	case "fn":
		return v + " = bump(" + v + ")"
	case "cat":
		return v + " += \"!\""
	case "pre":
		return v + " = \"<\" + " + v
	case "not":
		return v + " = !" + v
	}
	return ""
}

func lvOpApply(op string, v mv) mv {
	switch op {
	case "mul":
		if v.k == 'f' {
			v.f *= 2
		} else {
			v.i *= 3
		}
	case "add":
		if v.k == 'f' {
			v.f += 0.5
		} else {
			v.i += 7
		}
	case "inc":
		v.i++
	case "dec":
		v.i--
	case "neg":
		if v.k == 'f' {
			v.f = -v.f
		} else {
			v.i = -v.i
		}
	case "blk":
		switch v.k {
		case 'f':
			v.f += 100
		case 's':
			v.s += "#"
		default:
			v.i += 100
		}
	case "fn":
		v.i += 1000
	case "cat":
		v.s += "!"
	case "pre":
		v.s = "<" + v.s
	case "not":
		v.b = !v.b
	}
	return v
}

func lvItem(kind byte, i int) mv {
	switch kind {
	case 'f':
		return mv{k: 'f', f: float64(i) + 0.25}
	case 's':
		return mv{k: 's', s: fmt.Sprintf("s%d", i)}
	case 'b':
		return mv{k: 'b', b: i%3 == 0}
	case 't':
		return mv{k: 't', i: int64(i), s: fmt.Sprintf("t%d", i)}
	}
	return mv{k: 'i', i: int64(i)}
}

func validLV(c LVCase) bool {
	if !oneOf(c.Elem, "int64", "float64", "string", "bool", "item", "pitem", "interface") || c.Buf < 0 || c.Buf > 3 || c.N < 0 || c.N > 40 ||
		!oneOf(c.Fill, "goroutine", "prefill") || len(c.Stages) > 2 || !oneOf(c.Place, "top", "func", "go") || len(c.Procs) < 1 || len(c.Procs) > 3 || c.Reps < 1 || c.Reps > 5 {
		return false
	}
	if c.Fill == "prefill" && c.N > c.Buf {
		return false
	}
	for _, p := range c.Procs {
		if p < 1 || p > 64 {
			return false
		}
	}
	kind := lvKind(c.Elem)
	loops := append(append([]LVLoop{}, c.Stages...), c.Cons)
	for li, l := range loops {
		stage := li < len(c.Stages)
		if !oneOf(l.Mode, "emit", "delay", "first", "keepfn") || (stage && l.Mode == "first") || len(l.Ops) > 3 || l.Y < 0 || l.Y > 3 || l.Buf < 0 || l.Buf > 3 {
			return false
		}
		if stage && !oneOf(l.Out, "same", "interface") {
			return false
		}
		for _, op := range l.Ops {
			if kind == 't' || !oneOf(op, lvOps[kind]...) {
				return false
			}
		}
	}
	return true
}

func lvChanType(elem string) string {
	switch elem {
	case "item":
		return "Item"
	case "pitem":
		return "*Item"
	}
	return elem
}

// lvLoopSrc renders the for-in of loop k over channel in; emit(x) renders what is done with an
// item that is handed on.
func lvLoopSrc(k int, kind byte, l LVLoop, in string, emit func(x string) string) string {
	v := fmt.Sprintf("v%d", k)
	var b strings.Builder
	if l.Mode == "delay" || l.Mode == "keepfn" {
		fmt.Fprintf(&b, "hv%d = false\npv%d = nil\n", k, k)
	}
	if l.Mode == "keepfn" {
		fmt.Fprintf(&b, "keep%d = func(x) {\n\tpv%d = x\n}\n", k, k)
	}
	if l.Mode == "first" {
		fmt.Fprintf(&b, "cnt%d = 0\nfirst%d = nil\n", k, k)
	}
	fmt.Fprintf(&b, "for %s in %s {\n\ttick()\n", v, in)
	if l.Mode == "first" {
		fmt.Fprintf(&b, "\tif cnt%d == 0 {\n\t\tfirst%d = %s\n\t}\n\tcnt%d++\n", k, k, v, k)
	}
	for _, op := range l.Ops {
		b.WriteString(indent(lvOpSrc(kind, op, v) + "\n"))
	}
	b.WriteString(yieldStmt("\t", l.Y))
	switch l.Mode {
	case "delay", "keepfn":
		fmt.Fprintf(&b, "\tif hv%d {\n%s\t}\n", k, indent(indent(emit(fmt.Sprintf("pv%d", k))+"\n")))
		if l.Mode == "keepfn" {
			fmt.Fprintf(&b, "\tkeep%d(%s)\n", k, v)
		} else {
			fmt.Fprintf(&b, "\tpv%d = %s\n", k, v)
		}
		fmt.Fprintf(&b, "\thv%d = true\n", k)
	default:
		b.WriteString(indent(emit(v) + "\n"))
	}
	b.WriteString("}\n")
	if l.Mode == "delay" || l.Mode == "keepfn" {
		fmt.Fprintf(&b, "if hv%d {\n%s}\n", k, indent(emit(fmt.Sprintf("pv%d", k))+"\n"))
	}
	return b.String()
}

func lvSource(c LVCase) string {
	kind := lvKind(c.Elem)
	var b strings.Builder
	b.WriteString("make(type Item, make(struct { N int64, S string }))\n")
	b.WriteString("func bump(x) {\n\treturn x + 1000\n}\n")
	fmt.Fprintf(&b, "c0 = make(chan %s, %d)\n", lvChanType(c.Elem), c.Buf)
	// the producer
	var item string
	switch kind {
	case 'f':
		item = "\tc0 <- pi + 0.25\n"
	case 's':
		item = "\tc0 <- \"s\" + pi\n"
	case 'b':
		item = "\tc0 <- (pi % 3 == 0)\n"
	case 't':
		item = "\tit = make(Item)\n\tit.N = pi\n\tit.S = \"t\" + pi\n\tc0 <- it\n"
		if c.Elem == "pitem" {
			item = "\tit = make(Item)\n\tit.N = pi\n\tit.S = \"t\" + pi\n\tc0 <- &it\n"
		}
	default:
		item = "\tc0 <- pi\n"
	}
	prod := fmt.Sprintf("for pi = 1; pi <= %d; pi++ {\n%s}\nclose(c0)\n", c.N, item)
	if c.Fill == "prefill" {
		b.WriteString(prod)
	} else {
		b.WriteString("go func() {\n\ttry {\n" + indent(indent(prod)) + "\t} catch e {\n\t\tgerr(0, \"\" + e)\n\t\tclose(c0)\n\t}\n}()\n")
	}
	elem := c.Elem
	for j, st := range c.Stages {
		out := elem
		if st.Out == "interface" {
			out = "interface"
		} else if elem == "pitem" {
			// the loop variable over a channel of pointers is what the pointer points to: the stage hands the struct on
			out = "item"
		}
		fmt.Fprintf(&b, "c%d = make(chan %s, %d)\n", j+1, lvChanType(out), st.Buf)
		co := fmt.Sprintf("c%d", j+1)
		body := lvLoopSrc(j+1, kind, st, fmt.Sprintf("c%d", j), func(x string) string { return co + " <- " + x })
		fmt.Fprintf(&b, "go func() {\n\ttry {\n%s\t} catch e {\n\t\tgerr(%d, \"\" + e)\n\t}\n\tclose(%s)\n}()\n", indent(indent(body)), j+1, co)
		elem = out
	}
	last := fmt.Sprintf("c%d", len(c.Stages))
	rec := func(x string) string {
		if kind == 't' {
			return "res += [" + x + ".N, " + x + ".S]"
		}
		return "res += [" + x + "]"
	}
	k := len(c.Stages) + 1
	loop := lvLoopSrc(k, kind, c.Cons, last, rec)
	if c.Cons.Mode == "first" {
		loop += fmt.Sprintf("if cnt%d > 0 {\n\t%s\n}\n", k, rec(fmt.Sprintf("first%d", k)))
	}
	switch c.Place {
	case "func":
		b.WriteString("func consume() {\n\tres = []\n" + indent(loop) + "\treturn res\n}\nconsume()\n")
	case "go":
		b.WriteString("rc = make(chan interface, 1)\ngo func() {\n\tres = []\n\ttry {\n" + indent(indent(loop)) + "\t} catch e {\n\t\tgerr(9, \"\" + e)\n\t}\n\trc <- res\n}()\n<-rc\n")
	default:
		b.WriteString("res = []\n" + loop + "res\n")
	}
	return b.String()
}

func lvExpect(c LVCase) []mv {
	kind := lvKind(c.Elem)
	items := make([]mv, 0, c.N)
	for i := 1; i <= c.N; i++ {
		items = append(items, lvItem(kind, i))
	}
	var first *mv
	loops := append(append([]LVLoop{}, c.Stages...), c.Cons)
	for li, l := range loops {
		if li == len(loops)-1 && l.Mode == "first" && len(items) > 0 {
			f := items[0]
			first = &f
		}
		for i := range items {
			for _, op := range l.Ops {
				items[i] = lvOpApply(op, items[i])
			}
		}
	}
	if first != nil {
		items = append(items, *first)
	}
	var out []mv
	for _, it := range items {
		if it.k == 't' {
			out = append(out, mv{k: 'i', i: it.i}, mv{k: 's', s: it.s})
		} else {
			out = append(out, it)
		}
	}
	return out
}

func genLVLoop(t *rapid.T, kind byte, stage bool) LVLoop {
	l := LVLoop{Mode: "emit", Y: genYield(t, "y")}
	modes := []string{"emit", "emit", "delay", "keepfn", "first"}
	if stage {
		modes = []string{"emit", "emit", "delay", "keepfn"}
	}
	if kind == 't' {
		modes = append(modes, "delay", "delay", "keepfn")
		if !stage {
			modes = append(modes, "first", "first")
		}
	}
	l.Mode = rapid.SampledFrom(modes).Draw(t, "mode")
	if kind != 't' {
		n := rapid.SampledFrom([]int{0, 1, 1, 1, 2, 3}).Draw(t, "nops")
		for i := 0; i < n; i++ {
			l.Ops = append(l.Ops, rapid.SampledFrom(lvOps[kind]).Draw(t, "op"))
		}
	}
	if stage {
		l.Out = rapid.SampledFrom([]string{"same", "same", "interface"}).Draw(t, "out")
		l.Buf = rapid.SampledFrom([]int{0, 0, 1, 2, 3}).Draw(t, "sbuf")
	}
	return l
}

func genLV(t *rapid.T) LVCase {
	c := LVCase{
		Elem:  rapid.SampledFrom([]string{"int64", "int64", "float64", "string", "string", "bool", "item", "item", "pitem", "interface"}).Draw(t, "elem"),
		Buf:   rapid.SampledFrom([]int{0, 0, 1, 2, 3}).Draw(t, "buf"),
		N:     rapid.SampledFrom([]int{0, 1, 2, 2, 3, 4, 5, 8, 12, 30}).Draw(t, "n"),
		Fill:  "goroutine",
		Place: rapid.SampledFrom([]string{"top", "top", "func", "go"}).Draw(t, "place"),
		Procs: rapid.SampledFrom([][]int{{1, 16}, {2, 16}, {1, 2}}).Draw(t, "procs"),
		Reps:  rapid.IntRange(1, 2).Draw(t, "reps"),
	}
	if rapid.IntRange(0, 3).Draw(t, "prefill") == 0 {
		c.Fill = "prefill"
		c.Buf = rapid.IntRange(1, 3).Draw(t, "prefill_buf")
		c.N = rapid.IntRange(0, c.Buf).Draw(t, "prefill_n")
		if rapid.IntRange(0, 2).Draw(t, "prefill_full") != 0 {
			c.N = c.Buf
		}
	}
	kind := lvKind(c.Elem)
	ns := rapid.SampledFrom([]int{0, 0, 1, 1, 2}).Draw(t, "stages")
	for j := 0; j < ns; j++ {
		c.Stages = append(c.Stages, genLVLoop(t, kind, true))
	}
	c.Cons = genLVLoop(t, kind, false)
	return c
}

// lvConcrete reports whether loop li of the case ranges over a channel whose element type is
// neither an interface nor a pointer.
func lvConcrete(c LVCase, li int) bool {
	elem := c.Elem
	for j := 0; j < li; j++ {
		if c.Stages[j].Out == "interface" {
			elem = "interface"
		} else if elem == "pitem" {
			elem = "item"
		}
	}
	return elem != "interface" && elem != "pitem"
}

func oracleLV(c LVCase, o *h.Obs) *h.Fail {
	if !validLV(c) {
		o.Excluded = "malformed_case"
		return nil
	}
	src := lvSource(c)
	o.Key = fmt.Sprintf("%s|%v|%d", src, c.Procs, c.Reps)
	o.Note = src
	if hangSeen["loopvar"] && !ctxRef.InReplay() {
		o.Excluded = "a run that does not finish was already reported by this process"
		return nil
	}
	kind := lvKind(c.Elem)
	loops := append(append([]LVLoop{}, c.Stages...), c.Cons)
	o.Class("loopvar_elem_" + c.Elem)
	o.Class("loopvar_stages_%d", len(c.Stages))
	o.Class("loopvar_fill_" + c.Fill)
	o.Class("loopvar_consumer_" + c.Place)
	o.Class("loopvar_" + nClass(c.N))
	o.Class("loopvar_" + bufClass(c.Buf))
	works := false // some loop changes its variable in place or keeps an item under another name, and a later round follows
	for li, l := range loops {
		who := "stage"
		if li == len(loops)-1 {
			who = "consumer"
		}
		o.Class("loopvar_%s_mode_%s", who, l.Mode)
		for _, op := range l.Ops {
			o.Class("loopvar_op_" + op)
		}
		touches := len(l.Ops) > 0 || l.Mode != "emit"
		if touches && c.N >= 2 {
			works = true
			conc := "interface_or_pointer"
			if lvConcrete(c, li) {
				conc = "concrete"
			}
			if len(l.Ops) > 0 {
				o.Class("loopvar_assigned_in_body_over_%s_channel", conc)
			}
			if l.Mode != "emit" {
				what := "scalar"
				if kind == 't' {
					what = "struct"
				}
				o.Class("loopvar_%s_item_kept_under_another_name_over_%s_channel", what, conc)
			}
		}
	}
	o.NonTrivial = works
	want := lvExpect(c)
	ticks := int64((c.N+2)*(len(loops)+1) + 32)
	for _, procs := range c.Procs {
		for rep := 0; rep < c.Reps; rep++ {
			var r *runResult
			withProcs(procs, func() { r = runOnce(src, runDeadline, ticks) })
			o.Class("loopvar_runs_gomaxprocs_%d", procs)
			head := fmt.Sprintf("GOMAXPROCS=%d repetition %d\nsource:\n%s", procs, rep, src)
			switch {
			case r.hostPanic != "":
				return h.Failf("C16|loopvar|host-panic|"+r.hostPanicNorm, "%s\n%s", head, r.hostPanic)
			case len(r.gerrs) > 0:
				return h.Failf("C16|loopvar|goroutine-error|"+normMsg(r.gerrs[0]), "%s\nerrors inside script goroutines: %q", head, r.gerrs)
			case r.runaway:
				return h.Failf("C16|loopvar|runaway", "%s\na for-in over a channel iterated more often than there are items", head)
			case r.stuck != "":
				if r.stuck == "deadline" {
					var r2 *runResult
					withProcs(procs, func() { r2 = runOnce(src, 3*runDeadline, ticks) })
					if r2.stuck == "" && r2.err == "" && len(r2.gerrs) == 0 {
						o.Class("loopvar_deadline_not_confirmed")
						continue
					}
				}
				f := h.Failf("C16|loopvar|stuck", "%s\nthe run did not finish (%s)", head, r.stuck)
				f.NoShrink = true
				hangSeen["loopvar"] = true
				return f
			case r.err != "":
				return h.Failf("C16|loopvar|error|"+normMsg(r.err), "%s\nerror: %s", head, r.err)
			}
			lst, ok := r.value.([]interface{})
			if !ok {
				return h.Failf("C16|loopvar|result-shape", "%s\nresult is %T", head, r.value)
			}
			var got []mv
			for _, x := range lst {
				got = append(got, fromGo(x))
			}
			what := "scalar"
			if kind == 't' {
				what = "struct"
			}
			for i := 0; i < len(want) && i < len(got); i++ {
				if !want[i].eq(got[i]) {
					return h.Failf("C16|loopvar|items-differ|"+what, "%s\nwhat the consumer recorded differs at index %d from the items that were sent (with the in-place operations of every loop applied once per item): expected %s, recorded %s\nexpected %s\nrecorded %s", head, i, want[i], got[i], showSeq(want, i), showSeq(got, i))
				}
			}
			if len(got) != len(want) {
				return h.Failf("C16|loopvar|count|"+what, "%s\n%d values expected, %d recorded\nexpected %s\nrecorded %s", head, len(want), len(got), showSeq(want, min(len(want), len(got))), showSeq(got, min(len(want), len(got))))
			}
		}
	}
	return nil
}
