package c01

// Eighth round: two sub-checks with their own case streams.
//
// slots: a string or a slice lives in a slot (element of a typed slice, struct field, pointee, map entry, ...) and an
// index / slice expression over the slot has, as one of its index operands, a call that stores something shorter,
// longer, empty, nil or of another kind into that very slot (or replaces the container the slot is in).
//
// types: type values (what make(type ...) returns) as first-class operands: held in variables, lists, maps,
// channels, struct fields, behind pointers, dereferenced, copied, iterated, compared, and the methods of reflect.Type
// called on all of these (many of them panic inside reflect for the wrong kind: that must come back as an error).

import (
	"fmt"
	"strings"

	"pgregory.net/rapid"
)

// pk draws an index below n without rapid's bias towards small values.
func pk(t *rapid.T, label string, n int) int {
	u := rapid.Uint64().Draw(t, label)
	u ^= u >> 30
	u *= 0xBF58476D1CE4E5B9
	u ^= u >> 27
	u *= 0x94D049BB133111EB
	u ^= u >> 31
	return int(u % uint64(n))
}

func (c *Case) tag(s string) {
	for _, x := range c.Tags {
		if x == s {
			return
		}
	}
	c.Tags = append(c.Tags, s)
}

// ---------- slots ----------

type slotContent struct {
	name string
	typ  string      // the type of the slot where the slot is typed
	long string      // what the slot holds when the statement starts
	repl [][2]string // what an index operand stores instead, and the class of the replacement
	vals []string    // values for stores through an index
}

var slotContents = []slotContent{
	{"string", "string", `"abcdef"`, [][2]string{{`"a"`, "shorter"}, {`""`, "empty"}, {`"ab"`, "shorter"}, {`"abc"`, "shorter"}, {`"abcde"`, "shorter"}, {`"abcdefghijkl"`, "longer"}, {`"é"`, "shorter"}, {`"abcdef"`, "same-length"}},
		[]string{`"x"`, `"xyz"`, `""`, "7", "nil", `"é"`}},
	{"int64s", "[]int64", "[1, 2, 3, 4, 5, 6]", [][2]string{{"[]int64{9}", "shorter"}, {"[]", "empty"}, {"nil", "nil"}, {"make([]int64, 0)", "empty"}, {"make([]int64, 0, 8)", "empty"}, {"make([]int64, 2, 12)", "shorter"}, {"[1, 2, 3, 4, 5]", "shorter"}, {"[1, 2, 3, 4, 5, 6, 7, 8, 9, 10, 11, 12]", "longer"}},
		[]string{"7", "nil", `"x"`, "[9]", "2.5", "[]int64{8, 9}"}},
	{"strings", "[]string", `["a", "b", "c", "d", "e", "f"]`, [][2]string{{`[]string{"z"}`, "shorter"}, {"[]", "empty"}, {"nil", "nil"}, {"make([]string, 0)", "empty"}, {"make([]string, 2, 12)", "shorter"}, {`["a", "b", "c", "d", "e", "f", "g", "h", "i", "j", "k", "l"]`, "longer"}},
		[]string{`"x"`, "nil", "7", `["y"]`, `[]string{"y", "z"}`}},
	{"interfaces", "[]interface", `[1, "a", nil, 2.5, [1], {}]`, [][2]string{{"[nil]", "shorter"}, {"[]", "empty"}, {"nil", "nil"}, {"make([]interface, 0, 8)", "empty"}, {"[1, 2, 3, 4, 5, 6, 7, 8, 9, 10, 11, 12]", "longer"}},
		[]string{`"x"`, "nil", "7", "[9]", "{}"}},
	{"bytes", "[]byte", `toByteSlice("abcdef")`, [][2]string{{`toByteSlice("a")`, "shorter"}, {"make([]byte, 0)", "empty"}, {"nil", "nil"}, {"make([]byte, 2, 12)", "shorter"}, {`toByteSlice("abcdefghijkl")`, "longer"}},
		[]string{"7", "300", "nil", `"x"`, `toByteSlice("yz")`}},
	{"lists", "[][]int64", "[[1], [2], [3], [4], [5], [6]]", [][2]string{{"[[9]]", "shorter"}, {"[]", "empty"}, {"nil", "nil"}, {"make([][]int64, 0, 8)", "empty"}, {"make([][]int64, 12)", "longer"}},
		[]string{"[7]", "nil", "7", "[[8], [9]]"}},
}

// values of another kind than the slot's content (they fit only slots of interface type; elsewhere the store fails
// and the index operand ends in an error)
var slotOtherKind = []string{"nil", "7", `"abcdef"`, "[1, 2]", "{}", "2.5", "true", "make(chan int64)", "func() { return 0 }"}

type slotHome struct {
	class  string
	setup  string // %T is the content type
	use    string // the expression that reads the slot
	assign string // the target that writes it
	// statements that replace the container the slot is in
	container []string
}

var slotHomes = []slotHome{
	{"typed-slice-element", "sz = make([]%T, 1)", "sz[0]", "sz[0]", []string{"sz = make([]%T, 1)", "sz = sz[:0]", "sz = nil"}},
	{"typed-slice-last-element", "sz = make([]%T, 3)", "sz[2]", "sz[2]", []string{"sz = sz[:1]", "sz = make([]%T, 3)"}},
	{"struct-field", "sz = make(struct{A %T})", "sz.A", "sz.A", []string{"sz = make(struct{A %T})", "sz = nil"}},
	{"struct-field", "sz = make(struct{N int64, A %T, Z string})", "sz.A", "sz.A", nil},
	{"pointee", "sz = new(%T)", "(*sz)", "*sz", []string{"sz = new(%T)", "sz = nil"}},
	{"typed-map-entry", "sz = make(map[string]%T)", "sz[\"a\"]", "sz[\"a\"]", []string{"delete(sz, \"a\")", "sz = nil", "sz = make(map[string]%T)"}},
	{"typed-map-entry", "sz = make(map[string]%T)", "sz.a", "sz.a", []string{"delete(sz, \"a\")"}},
	{"field-of-slice-element", "sz = make([]struct{A %T}, 1)", "sz[0].A", "sz[0].A", []string{"sz = make([]struct{A %T}, 1)", "sz = sz[:0]"}},
	{"field-of-field", "sz = make(struct{I struct{A %T}})", "sz.I.A", "sz.I.A", nil},
	{"field-behind-pointer", "sz = new(struct{A %T})", "sz.A", "sz.A", []string{"sz = new(struct{A %T})"}},
	{"pointee-in-slice", "sz = make([]*%T, 1)\nsz[0] = new(%T)", "(*sz[0])", "*sz[0]", []string{"sz[0] = new(%T)", "sz[0] = nil"}},
	{"element-of-element", "sz = make([][]%T, 1)\nsz[0] = make([]%T, 2)", "sz[0][1]", "sz[0][1]", []string{"sz[0] = make([]%T, 2)", "sz[0] = nil", "sz[0] = sz[0][:1]"}},
	{"named-struct-field", "make(type ZT, make(struct{A %T}))\nsz = make(ZT)", "sz.A", "sz.A", []string{"sz = make(ZT)"}},
	{"named-struct-in-slice", "make(type ZT, make(struct{A %T}))\nsz = make([]ZT, 1)", "sz[0].A", "sz[0].A", []string{"sz = make([]ZT, 1)"}},
	{"named-type-element", "make(type ZT, make(%T))\nsz = make([]ZT, 1)", "sz[0]", "sz[0]", nil},
	{"untyped-list-element", "sz = [nil]", "sz[0]", "sz[0]", []string{"sz = [nil]", "sz = []"}},
	{"untyped-map-entry", "sz = {}", "sz.a", "sz.a", []string{"delete(sz, \"a\")", "sz = {}"}},
	{"interface-slice-element", "sz = make([]interface, 1)", "sz[0]", "sz[0]", []string{"sz = sz[:0]"}},
	{"interface-field", "sz = make(struct{A interface})", "sz.A", "sz.A", nil},
	{"variable", "sz = nil", "sz", "sz", []string{"delete(\"sz\")"}},
	{"module-member", "module zm { v = nil }", "zm.v", "zm.v", []string{"module zm { v = nil }"}},
}

// the index results: positions inside, at and beyond both lengths, negative, and not an integer
var slotIndexes = []string{"0", "0", "0", "1", "1", "1", "2", "2", "3", "4", "5", "6", "6", "7", "12", "13", "-1", "1.5", "\"1\"", "nil", "true"}

// statements over the slot. %S reads the slot, %A is the target that writes it, %F is an index operand that replaces
// what is in the slot, %I is any index operand (a constant, len(%S), or one that replaces again), %V a value
var slotForms = [][2]string{
	{"open-upper", "%S[%F:]"}, {"open-upper", "%S[%F:]"}, {"open-upper", "%S[%F:]"}, {"open-lower", "%S[:%F]"}, {"open-lower", "%S[:%F]"},
	{"both-bounds", "%S[%F:%I]"}, {"both-bounds", "%S[%I:%F]"}, {"both-bounds", "%S[%F:%F]"}, {"index", "%S[%F]"}, {"index", "%S[%F]"},
	{"three-index", "%S[%F:%I:%I]"}, {"three-index", "%S[%I:%F:%I]"}, {"three-index", "%S[%I:%I:%F]"}, {"three-index", "%S[:%F:%I]"}, {"three-index", "%S[:%I:%F]"},
	{"chained", "%S[%F:][%I]"}, {"chained", "%S[%I:][%F]"}, {"chained", "%S[%F:][:%I]"}, {"chained", "%S[:%F][%I:]"}, {"chained", "%S[%I:][%F:]"}, {"chained", "%S[%F:][%I:][%I]"}, {"chained", "%S[%F][%I:]"}, {"chained", "%S[%I][%F:]"},
	{"open-upper", "x = %S[%F:]"}, {"open-lower", "var x = %S[:%F]"}, {"open-upper", "x, y = %S[%F:], %S[:%I]"}, {"open-upper", "x, y = %S[%I], %S[%F:]"}, {"open-upper", "x = %S[%F:]\n[x, len(x)]"},
	{"store-index", "%S[%F] = %V"}, {"store-slice", "%S[%F:] = %V"}, {"store-slice", "%S[:%F] = %V"}, {"store-slice", "%S[%F:%I] = %V"}, {"store-slice", "%S[%I:%F] = %V"}, {"store-index", "%S[%F]++"}, {"store-index", "%S[%F] += %V"},
	{"store-index", "%S[%F], %S[%I] = %V, %V"}, {"store-index", "%S[%I] = %S[%F]"}, {"store-back", "%A = %S[%F:]"}, {"store-back", "%A += %S[%F:]"}, {"store-back", "%A = %S[:%F]"}, {"store-index", "%S[%F:][0] = %V"},
	{"open-upper", "len(%S[%F:])"}, {"open-upper", "[%S[%F:], %S[:%I]]"}, {"open-upper", "{\"k\": %S[%F:]}"}, {"open-upper", "id(%S[%F:])"}, {"open-upper", "%S[%F:] + %S[:%I]"}, {"open-upper", "%S[%F:] == %S"}, {"index", "(%S[%F] in %S)"}, {"open-upper", "(%V in %S[%F:])"},
	{"open-upper", "for c in %S[%F:] { c }"}, {"open-upper", "for c in %S[%I:] { %F; c }"}, {"open-lower", "for k, c in %S[:%F] { [k, c] }"}, {"open-upper", "switch %S[%F:] { case %S: 1 }"},
	{"open-upper", "zf(%S[%F:], %S[%I])"}, {"index", "zf(%S[%F], %F)"}, {"open-upper", "go zf(%S[%F:], 1)"}, {"open-lower", "defer zf(%S[:%F], 1)"}, {"open-upper", "throw %S[%F:]"}, {"open-upper", "return %S[%F:]"}, {"open-upper", "(%S[%F:] ?? 1)"}, {"index", "(%S[%F] ? 1 : 2)"},
	{"open-upper", "toString(%S[%F:])"}, {"open-upper", "zc <- %S[%F:]"}, {"index", "-%S[%F]"}, {"index", "\"ab\" * %S[%F]"}, {"open-upper", "zv(%S[%F:]...)"}, {"open-upper", "[]string{%S[%F:]}"}, {"index", "[]int64{%S[%F]}"}, {"open-upper", "toRuneSlice(%S[%F:])"}, {"open-lower", "toByteSlice(%S[:%F])"}, {"open-upper", "keys(%S[%F:])"},
	{"open-upper", "zp = &%S\n(*zp)[%F:]"}, {"open-upper", "%S[%F:][%F:]"}, {"open-upper", "%S[%S[%F:][0]:]"}, {"open-upper", "%S[len(%S[%F:]):]"},
}

// where the statement stands: at top level a Go panic reaches the caller of vm.Execute, inside a script function the
// call turns it into an error
var slotContexts = [][2]string{
	{"top-level", "%s"}, {"top-level", "%s"}, {"top-level", "%s"}, {"top-level", "%s"}, {"top-level", "%s"}, {"top-level", "%s"},
	{"if-block", "if true { %s }"}, {"loop-twice", "for zq in [1, 2] { %s }"}, {"try", "try { %s } catch ze { ze }"},
	{"function", "func zw() { %s }\nzw()"}, {"goroutine", "go func() { %s }()"}, {"deferred", "defer func() { %s }()"}, {"module", "module zn { %s }"},
}

type slotGen struct {
	t    *rapid.T
	c    *Case
	home slotHome
	cont slotContent
}

// replacement draws the statement an index operand runs before it answers
func (g *slotGen) replacement() string {
	switch k := pk(g.t, "replkind", 12); {
	case k == 0 && len(g.home.container) > 0:
		g.c.tag("slots_repl_container")
		return strings.ReplaceAll(g.home.container[pk(g.t, "container", len(g.home.container))], "%T", g.cont.typ)
	case k == 1:
		g.c.tag("slots_repl_other-kind")
		return g.home.assign + " = " + slotOtherKind[pk(g.t, "otherkind", len(slotOtherKind))]
	case k == 2:
		g.c.tag("slots_repl_grown-in-place")
		return g.home.assign + " += " + g.cont.long
	default:
		r := g.cont.repl[pk(g.t, "repl", len(g.cont.repl))]
		g.c.tag("slots_repl_" + r[1])
		return g.home.assign + " = " + r[0]
	}
}

func (g *slotGen) indexValue() string {
	return slotIndexes[pk(g.t, "indexvalue", len(slotIndexes))]
}

// replacing draws an index operand that replaces what is in the slot
func (g *slotGen) replacing() string {
	switch pk(g.t, "fform", 12) {
	case 0:
		return "gz()"
	case 1:
		return "fz() + 1"
	case 2:
		return "func() { " + g.replacement() + "; return " + g.indexValue() + " }()"
	case 3:
		return "cb(func(za) { " + g.replacement() + "; return " + g.indexValue() + " })"
	case 4:
		return "[fz()][0]"
	case 5:
		return "id(gz())"
	default:
		return "fz()"
	}
}

func (g *slotGen) anyIndex() string {
	switch pk(g.t, "iform", 8) {
	case 0:
		return g.replacing()
	case 1:
		return "len(" + g.home.use + ")"
	case 2:
		return "len(" + g.home.use + ") - 1"
	default:
		return g.indexValue()
	}
}

func (g *slotGen) expand(form string) string {
	var b strings.Builder
	for i := 0; i < len(form); i++ {
		if form[i] == '%' && i+1 < len(form) {
			switch form[i+1] {
			case 'S':
				b.WriteString(g.home.use)
			case 'A':
				b.WriteString(g.home.assign)
			case 'F':
				b.WriteString(g.replacing())
			case 'I':
				b.WriteString(g.anyIndex())
			case 'V':
				if pk(g.t, "vform", 5) == 0 {
					b.WriteString(g.home.use)
				} else {
					b.WriteString(g.cont.vals[pk(g.t, "value", len(g.cont.vals))])
				}
			default:
				b.WriteByte('%')
				continue
			}
			i++
			continue
		}
		b.WriteByte(form[i])
	}
	return b.String()
}

func genSlots(t *rapid.T) Case {
	c := Case{Kind: "slots"}
	g := &slotGen{t: t, c: &c}
	g.cont = slotContents[pk(t, "content", len(slotContents))]
	if pk(t, "stringshare", 3) == 0 {
		g.cont = slotContents[0]
	}
	g.home = slotHomes[pk(t, "home", len(slotHomes))]
	c.tag("slots_content_" + g.cont.name)
	c.tag("slots_home_" + g.home.class)
	var b strings.Builder
	b.WriteString(strings.ReplaceAll(g.home.setup, "%T", g.cont.typ))
	b.WriteString("\n" + g.home.assign + " = " + g.cont.long + "\n")
	b.WriteString("func fz() { " + g.replacement() + "; return " + g.indexValue() + " }\n")
	b.WriteString("func gz() { " + g.replacement() + "; return " + g.indexValue() + " }\n")
	b.WriteString("func zf(a, b) { return a }\nfunc zv(a...) { return len(a) }\nzc = make(chan interface, 8)\n")
	n := 1
	if pk(t, "second", 4) == 0 {
		n = 2
	}
	for k := 0; k < n; k++ {
		f := slotForms[pk(t, "form", len(slotForms))]
		ctx := slotContexts[pk(t, "context", len(slotContexts))]
		c.tag("slots_form_" + f[0])
		c.tag("slots_ctx_" + ctx[0])
		if g.cont.name == "string" {
			c.tag("slots_string_" + f[0])
		}
		b.WriteString(strings.Replace(ctx[1], "%s", g.expand(f[1]), 1))
		b.WriteString("\n")
	}
	c.Src = b.String()
	return c
}

// ---------- type values ----------

// what a type is defined from
var typeSources = [][2]string{
	{"int64", "1"}, {"int64", "1"}, {"string", "\"s\""}, {"float64", "1.5"}, {"bool", "true"}, {"interface", "nil"},
	{"slice", "make([]int64)"}, {"slice", "make([]string, 0)"}, {"slice", "[1, \"a\"]"}, {"bytes", "toByteSlice(\"ab\")"},
	{"struct", "make(struct{A int64})"}, {"struct", "make(struct{A int64, B string, C []int64})"}, {"struct", "make(struct{A interface, B struct{C int64}})"},
	{"func", "func() { }"}, {"func", "func(a, b) { return a }"}, {"func", "func(a...) { return a }"}, {"go-func", "keys"}, {"go-func", "takesStrs"}, {"go-func", "cb"},
	{"map", "make(map[string]int64)"}, {"map", "{}"}, {"chan", "make(chan int64)"}, {"chan", "make(chan interface, 1)"},
	{"pointer", "new(int64)"}, {"pointer", "new(struct{A int64})"}, {"pointer", "make(*string)"}, {"module", "zm"}, {"error", "verr()"}, {"nil-error", "nerr()"},
	{"narrow", "make(uint8)"}, {"narrow", "make(float32)"}, {"type-of-type", "make(type ZI, 1)"}, {"type-of-type", "make(type ZJ, make(struct{A int64}))"},
}

// the methods of reflect.Type (and a few names that are none), with arguments; %Y is another type value
var typeMethods = []string{
	"String()", "String()", "Name()", "Name()", "Kind()", "Elem()", "Elem()", "Key()", "Len()", "NumField()", "Field(0)", "Field(1)", "Field(-1)", "Field(99)", "NumMethod()", "NumIn()", "NumOut()", "In(0)", "In(1)", "In(5)", "Out(0)", "Out(1)",
	"Size()", "Bits()", "PkgPath()", "Comparable()", "FieldByName(\"A\")", "FieldByName(\"zz\")", "FieldByIndex([0])", "FieldByIndex([0, 0])", "FieldByIndex([])", "Method(0)", "Method(1)", "Method(99)", "Method(-1)", "MethodByName(\"String\")", "MethodByName(\"Error\")", "MethodByName(\"zz\")",
	"ConvertibleTo(%Y)", "AssignableTo(%Y)", "Implements(%Y)", "ConvertibleTo(nil)", "AssignableTo(1)", "Implements(\"s\")", "IsVariadic()", "ChanDir()", "Align()", "FieldAlign()", "CanSeq()", "CanSeq2()", "OverflowInt(1)", "OverflowFloat(1.5)", "OverflowUint(1)", "OverflowComplex(1)",
	"String(1)", "Elem(1)", "Field()", "Method()", "Implements()", "ConvertibleTo(%Y, %Y)", "zz()", "common()", "uncommon()", "Field(\"A\")", "Field(nil)", "In(nil)", "Method(1.5)", "FieldByName(nil)", "FieldByName(1)", "FieldByNameFunc(func(a) { return true })", "FieldByNameFunc(nil)",
}

// what is done with the result of a method (a reflect.Type again, a StructField, a Method, a Kind, a number ...)
var typeResultUses = []string{"", "", "", ".String()", ".Type", ".Type.String()", ".Name", ".Func", ".Func.Kind()", ".Func.Type()", ".Func.String()", ".Func.IsValid()", ".Func.Interface()", ".Index", ".Tag", ".Tag.Get(\"k\")", ".Kind()", ".Elem()", ".Elem().String()", ".Name()", "[0]", "[1]", "[0].Type", "[0].Type.String()", "[0].Name",
	".NumMethod()", ".Method(0)", ".Field(0)", ".zz", ".Offset", ".Anonymous", ".PkgPath", ".IsExported()", " == nil", " + 1"}

type typeGen struct {
	t     *rapid.T
	c     *Case
	names []string // variables bound to types by the setup
	tn    []string // names of the types
	extra int
}

// typeValue draws an expression that yields (or once yielded, or was copied from) a type value
func (g *typeGen) typeValue(depth int) string {
	base := func() string { return g.names[pk(g.t, "tname", len(g.names))] }
	if depth <= 0 {
		return base()
	}
	sub := func() string { return g.typeValue(depth - 1) }
	k := pk(g.t, "tvform", 40)
	forms := []struct{ class, f string }{
		{"variable", ""}, {"variable", ""}, {"variable", ""}, {"variable", ""}, {"variable", ""}, {"variable", ""},
		{"deref", "*%s"}, {"deref", "(*%s)"}, {"deref", "*%s"}, {"addr", "& %s"}, {"addr-deref", "**& %s"}, {"addr-deref", "*& %s"},
		{"list-element", "[%s][0]"}, {"copy-of-deref", "[*%s][0]"}, {"copy-of-deref", "[*%s][0]"}, {"map-entry", "{\"k\": %s}.k"}, {"copy-of-deref", "{\"k\": *%s}.k"}, {"call-result", "id(%s)"}, {"copy-of-deref", "id(*%s)"},
		{"call-result", "func() { return %s }()"}, {"copy-of-deref", "func() { return *%s }()"}, {"copy-of-deref", "func(a) { return a }(*%s)"}, {"conditional", "(nil ?? %s)"}, {"conditional", "(true ? %s : nil)"}, {"copy-of-deref", "(nil ?? *%s)"},
		{"held-list", "ztl[0]"}, {"held-list", "ztl[1]"}, {"held-map", "ztm.a"}, {"held-field", "zts.A"}, {"held-pointer", "*ztp"}, {"held-pointer", "**ztp"}, {"held-typed-slice", "ztt[0]"}, {"held-typed-slice-nil", "ztt[1]"}, {"held-typed-slice", "*ztt[0]"}, {"held-channel", "(<-ztc)"}, {"held-module", "zm.t"},
		{"method-result", "%s.Elem()"}, {"method-result", "%s.Field(0).Type"}, {"method-result", "%s.In(0)"}, {"inline-definition", "make(type ZX, %s)"},
	}
	f := forms[k]
	g.c.tag("types_value_" + f.class)
	if f.f == "" {
		return base()
	}
	if f.class == "inline-definition" {
		g.extra++
		src := typeSources[pk(g.t, "inlinesrc", len(typeSources))]
		if pk(g.t, "inlineoftype", 3) == 0 {
			return fmt.Sprintf("make(type ZX%d, %s)", g.extra, sub())
		}
		return fmt.Sprintf("make(type ZX%d, %s)", g.extra, src[1])
	}
	if strings.Contains(f.f, "%s") {
		return strings.Replace(f.f, "%s", sub(), 1)
	}
	return f.f
}

func (g *typeGen) method() string {
	m := typeMethods[pk(g.t, "method", len(typeMethods))]
	for strings.Contains(m, "%Y") {
		m = strings.Replace(m, "%Y", g.typeValue(1), 1)
	}
	if i := strings.IndexByte(m, '('); i > 0 {
		g.c.tag("types_method_" + m[:i])
	}
	return m
}

// statements over type values. %Y a type value, %M a method call with arguments, %R what is done with its result,
// %N the name of a defined type, %s any operand of the targeted universe
var typeForms = [][2]string{
	{"method", "%Y.%M%R"}, {"method", "%Y.%M%R"}, {"method", "%Y.%M%R"}, {"method", "%Y.%M%R"}, {"method", "%Y.%M"}, {"method", "%Y.%M.%M"},
	{"method-on-bound-copy", "x = %Y\nx.%M%R"}, {"method-on-bound-copy", "x = %Y\ny = [x][0]\ny.%M%R"}, {"method-on-bound-copy", "x = [%Y]\nx[0].%M%R"}, {"method-on-bound-copy", "x = {\"k\": %Y}\nx.k.%M%R"}, {"method-on-bound-copy", "var x, y = %Y, %Y\n[x.%M, y.%M]"},
	{"method-on-bound-copy", "x = %Y\ny = x\nz = [y, x]\nz[0].%M\nz[1].%M"}, {"method-on-bound-copy", "func zg(a) { return a.%M }\nzg(%Y)"}, {"method-on-bound-copy", "func zg(a...) { return a[0].%M }\nzg(%Y, %Y)"}, {"method-on-bound-copy", "x = %Y\nfunc zg() { return x.%M%R }\nzg()"},
	{"for-in", "for x in [%Y] { x.%M%R }"}, {"for-in", "for x in [%Y, %Y] { y = [x][0]; y.%M%R }"}, {"for-in", "for x in [%Y] { y = x; [y][0].%M }"}, {"for-in", "for x in ztl { x.%M%R }"}, {"for-in", "for x in ztl { y = [x][0]; y.%M%R }"}, {"for-in", "for x in ztt { y = [x][0]; y.%M }"}, {"for-in", "for x in ztt { x.%M }"},
	{"for-in", "for k, v in ztm { v.%M%R }"}, {"for-in", "for k, v in {\"a\": %Y} { y = [v][0]; y.%M }"}, {"for-in", "for x in ztc { y = [x][0]; y.%M%R }"}, {"for-in", "for x in ztc { x.%M }"}, {"for-in", "for x in zcc { y = [x][0]; y.%M%R }"}, {"for-in", "for x in zcc { x.%M }"},
	{"for-in", "for x in [%Y] { zr = x }\nzr.%M"}, {"for-in", "for x in [%Y] { ztl[0] = x }\nztl[0].%M"}, {"for-in", "for x in [[%Y]] { x[0].%M }"}, {"for-in", "for x in [&ztl[0]] { x.%M }"}, {"for-in", "for x in [ztp] { x.%M }"}, {"for-in", "for x in %Y { x }"},
	{"method-value", "x = %Y.String\nx()"}, {"method-value", "x = %Y.Elem\nx().%M"}, {"method-value", "go (%Y).%M"}, {"method-value", "defer (%Y).%M"}, {"method-value", "x = %Y.%M%R\nx.%M"}, {"method-value", "x = %Y\ngo func() { x.%M }()"},
	{"operator", "%Y == %Y"}, {"operator", "%Y != nil"}, {"operator", "%Y + %s"}, {"operator", "%s + %Y"}, {"operator", "\"\" + %Y"}, {"operator", "-%Y"}, {"operator", "!%Y"}, {"operator", "^%Y"}, {"operator", "len(%Y)"}, {"operator", "%Y[0]"}, {"operator", "%Y[0:1]"}, {"operator", "%Y.zz"}, {"operator", "%Y.size"}, {"operator", "%Y.str"},
	{"operator", "%Y(%s)"}, {"operator", "%Y()"}, {"operator", "%Y <- 1"}, {"operator", "(<-%Y)"}, {"operator", "delete(%Y)"}, {"operator", "delete(m, %Y)"}, {"operator", "close(%Y)"}, {"operator", "switch %Y { case %Y: 1 }"}, {"operator", "{%Y: 1}"}, {"operator", "zmm = {}\nzmm[%Y] = 1\nzmm[%Y]"}, {"operator", "(%Y in [%Y])"}, {"operator", "(%Y ? 1 : 2)"}, {"operator", "(%Y ?? 1)"},
	{"operator", "toString(%Y)"}, {"operator", "typeOf(%Y)"}, {"operator", "kindOf(%Y)"}, {"operator", "throw %Y"}, {"operator", "%s(%Y)"}, {"operator", "toInt(%Y)"}, {"operator", "keys(%Y)"}, {"operator", "%Y++"}, {"operator", "x = %Y\nx += 1"},
	{"store", "%Y.zz = %s"}, {"store", "%Y.size = 1"}, {"store", "%Y.String = %s"}, {"store", "%Y[0] = %s"}, {"store", "x = %Y\n*x = %s"}, {"store", "x = & %Y\n*x = %s"}, {"store", "*%Y = %s"}, {"store", "*%Y = *%Y"}, {"store", "x = *%Y\nx.size = 1"}, {"store", "ztl[0] = %s\nztl[0].%M"}, {"store", "ztt[0] = %s\nztt[0].%M"}, {"store", "ztt[1] = %Y\nztt[1].%M"}, {"store", "ztt[0] = nil\nztt[0].%M"},
	{"type-name", "make(%N)"}, {"type-name", "x = make(%N)\nx.%M"}, {"type-name", "make([]%N, 2)"}, {"type-name", "x = make([]%N, 2)\nx[0].%M"}, {"type-name", "new(%N)"}, {"type-name", "x = new(%N)\nx.%M"}, {"type-name", "x = new(%N)\n(*x).%M"}, {"type-name", "make(chan %N, 1)"}, {"type-name", "make(map[%N]string)"}, {"type-name", "x = make(map[string]%N)\nx.a.%M"},
	{"type-name", "[]%N{}"}, {"type-name", "[]%N{%Y, %s}"}, {"type-name", "map[string]%N{\"a\": %Y}"}, {"type-name", "make(struct{A %N})"}, {"type-name", "x = make(struct{A %N})\nx.A = %Y\nx.A.%M"}, {"type-name", "x = make(struct{A %N})\nx.A.%M"}, {"type-name", "make(*%N)"}, {"type-name", "x = make(chan %N, 1)\nx <- %Y\n(<-x).%M"},
	{"type-name", "make(type ZQ, make(%N))\nx = make(ZQ)\nx.%M"}, {"type-name", "x = make(type ZQ, make([]%N, 1))\nx.%M%R\ny = make(ZQ)\ny[0].%M"},
}

func (g *typeGen) expand(form string) string {
	var b strings.Builder
	for i := 0; i < len(form); i++ {
		if form[i] == '%' && i+1 < len(form) {
			switch form[i+1] {
			case 'Y':
				b.WriteString(g.typeValue(2))
			case 'M':
				b.WriteString(g.method())
			case 'R':
				b.WriteString(typeResultUses[pk(g.t, "resultuse", len(typeResultUses))])
			case 'N':
				b.WriteString(g.tn[pk(g.t, "typename", len(g.tn))])
			case 's':
				b.WriteString(pickU(g.t, "operand", typeOperands))
			default:
				b.WriteByte('%')
				continue
			}
			i++
			continue
		}
		b.WriteByte(form[i])
	}
	return b.String()
}

// operands next to type values (no prelude here: names of the setup and literals)
var typeOperands = []string{"1", "0", "-1", "1.5", "\"s\"", "\"\"", "true", "nil", "[]", "[1]", "{}", "zt0", "ztl", "ztm", "zts", "ztp", "ztt", "ztc", "zm", "id", "keys", "typeOf", "func(a) { return a }", "new(int64)", "make(chan int64, 1)", "*zt0", "&zt0", "ztl[0]", "zt0.Kind()", "zt0.String", "verr()", "nerr()"}

func genTypes(t *rapid.T) Case {
	c := Case{Kind: "types"}
	g := &typeGen{t: t, c: &c}
	var b strings.Builder
	b.WriteString("module zm { x = 1; t = make(type ZM, 1.5) }\n")
	n := 1 + pk(t, "ndefs", 3)
	for k := 0; k < n; k++ {
		src := typeSources[pk(t, "typesource", len(typeSources))]
		c.tag("types_of_" + src[0])
		name, tn := fmt.Sprintf("zt%d", k), fmt.Sprintf("ZT%d", k)
		if src[0] == "type-of-type" && k > 0 && pk(t, "ofprevious", 2) == 0 {
			fmt.Fprintf(&b, "%s = make(type %s, zt%d)\n", name, tn, k-1)
		} else {
			fmt.Fprintf(&b, "%s = make(type %s, %s)\n", name, tn, src[1])
		}
		g.names = append(g.names, name)
		g.tn = append(g.tn, tn)
	}
	last := g.names[len(g.names)-1]
	// the type of type values (a pointer type) is ZTT: typed containers of types, whose zero element is a nil type
	b.WriteString("ztl = [zt0, " + last + "]\nztm = {\"a\": " + last + "}\nzts = make(struct{A interface})\nzts.A = zt0\nztp = &zt0\n")
	b.WriteString("make(type ZTT, zt0)\nztt = make([]ZTT, 2)\nztt[0] = " + last + "\nztc = make(chan interface, 4)\nztc <- zt0\nztc <- " + last + "\nclose(ztc)\nzcc = make(chan ZTT, 4)\nzcc <- zt0\nzcc <- nil\nclose(zcc)\n")
	g.tn = append(g.tn, "ZTT", "zm.ZM")
	ns := 1
	if pk(t, "second", 3) == 0 {
		ns = 2
	}
	for k := 0; k < ns; k++ {
		f := typeForms[pk(t, "form", len(typeForms))]
		c.tag("types_form_" + f[0])
		stmt := g.expand(f[1])
		switch pk(t, "context", 8) {
		case 0:
			c.tag("types_ctx_function")
			stmt = "func zw() { " + strings.ReplaceAll(stmt, "\n", "; ") + " }\nzw()"
		case 1:
			c.tag("types_ctx_try")
			stmt = "try { " + strings.ReplaceAll(stmt, "\n", "; ") + " } catch ze { ze }"
		default:
			c.tag("types_ctx_top-level")
		}
		b.WriteString(stmt + "\n")
	}
	c.Src = b.String()
	return c
}
