package c01

import (
	"fmt"
	"os"
	"testing"

	"pgregory.net/rapid"
)

func TestDumpScopes(t *testing.T) {
	dir := os.Getenv("DUMP_DIR")
	if dir == "" {
		t.Skip()
	}
	g := rapid.Custom(genScopes)
	for i := 0; i < 300; i++ {
		c := g.Example(i)
		os.WriteFile(fmt.Sprintf("%s/s%03d.ank", dir, i), []byte(c.Src), 0644)
	}
}
