package c01

import (
	"errors"
	"bufio"
	"bytes"
	"context"
	"encoding/binary"
	"encoding/json"
	"fmt"
	"io"
	"os"
	"os/exec"
	"reflect"
	"runtime"
	"runtime/debug"
	"strings"
	"sync"
	"syscall"
	"testing"
	"time"

	"github.com/mattn/anko/core"
	"github.com/mattn/anko/env"
	"github.com/mattn/anko/parser"
	"github.com/mattn/anko/vm"
)

// The sandbox worker is this test binary re-executed with VERIF_C01_WORKER=1: it reads
// length-prefixed JSON requests on stdin, parses and runs the source in a fresh
// environment in non-debug mode, waits until the goroutines started by the script have
// finished, and answers one JSON line. A Go panic on the calling goroutine is recovered
// and reported; a panic on any other goroutine kills the worker, which the parent
// observes (stderr) and attributes to the case in flight.

type request struct {
	Src string `json:"src"`
}

type response struct {
	Status string `json:"status"` // parse-error | ok | run-error | panic | timeout | leak
	Msg    string `json:"msg,omitempty"`
}

func TestMain(m *testing.M) {
	if os.Getenv("VERIF_C01_WORKER") != "" {
		workerMain()
		return
	}
	os.Exit(m.Run())
}

func workerEnv() *env.Env {
	e := env.NewEnv()
	core.Import(e)
	// builtins that block, exit or allocate without bound on legal arguments are not part of
	// the environment class (their cost is "time inside one host call")
	for _, name := range []string{"range", "load", "print", "println", "printf"} {
		e.Delete(name)
	}
	e.Define("id", func(x interface{}) interface{} { return x })
	e.Define("boom", func(x interface{}) interface{} {
		if x != nil {
			panic(fmt.Sprintf("boom(%v)", x))
		}
		return nil
	})
	e.Define("boomv", func(xs ...interface{}) interface{} {
		if len(xs) > 0 {
			panic(fmt.Sprintf("boomv(%d args)", len(xs)))
		}
		return nil
	})
	e.Define("arr", func(a [2]int64) int64 { return a[0] })
	e.Define("takesInt", func(i int64, s string) string { return s })
	e.Define("takesStrs", func(s ...string) int { return len(s) })
	e.Define("takesPtr", func(p *int32) bool { return p == nil })
	// Go functions whose declared result is an interface type with methods, returning nil (what every
	// `func(...) error` does on success) or a value
	e.Define("nerr", func() error { return nil })
	e.Define("verr", func() error { return errors.New("verr") })
	e.Define("nstr", func() fmt.Stringer { return nil })
	e.Define("nerr2", func(x interface{}) (interface{}, error) { return x, nil })
	e.Define("takesPtrs", func(ps ...*string) int { return len(ps) })
	e.Define("cb", func(f func(int64) int64) int64 { return f(3) })
	e.Define("each", func(l []interface{}, f func(interface{}) interface{}) []interface{} {
		out := make([]interface{}, 0, len(l))
		for _, x := range l {
			out = append(out, f(x))
		}
		return out
	})
	return e
}

func init() {
	// a small bundled package for import("strings") / import("sort")
	env.Packages["strings"] = map[string]reflect.Value{
		"ToUpper": reflect.ValueOf(strings.ToUpper),
		"Split":   reflect.ValueOf(strings.Split),
		"Repeat":  reflect.ValueOf(strings.Repeat),
		"Join":    reflect.ValueOf(strings.Join),
	}
	env.Packages["sort"] = map[string]reflect.Value{
		"Ints": reflect.ValueOf(func(a []int) { _ = a }),
	}
}

func workerMain() {
	// address-space limit: astronomically large allocations die as "out of memory" (excluded class)
	lim := syscall.Rlimit{Cur: 6 << 30, Max: 6 << 30}
	syscall.Setrlimit(syscall.RLIMIT_AS, &lim)
	debug.SetMaxStack(256 << 20)
	in := bufio.NewReader(os.Stdin)
	out := bufio.NewWriter(os.Stdout)
	base := runtime.NumGoroutine()
	for {
		var n uint32
		if err := binary.Read(in, binary.LittleEndian, &n); err != nil {
			return
		}
		buf := make([]byte, n)
		if _, err := io.ReadFull(in, buf); err != nil {
			return
		}
		var req request
		json.Unmarshal(buf, &req)
		resp := runOne(req.Src, base)
		if resp.Status != "panic" && resp.Status != "leak" {
			// did this source leave the process in a state in which harmless programs crash?
			if msg := canaryAfter(base); msg != "" {
				resp = response{Status: "corrupted", Msg: msg}
			}
		}
		b, _ := json.Marshal(resp)
		out.Write(b)
		out.WriteByte('\n')
		out.Flush()
		if resp.Status == "leak" || resp.Status == "corrupted" {
			return // parent restarts a clean worker
		}
	}
}

func runOne(src string, base int) (resp response) {
	ctx, cancel := context.WithTimeout(context.Background(), 250*time.Millisecond)
	defer cancel()
	func() {
		defer func() {
			if r := recover(); r != nil {
				resp = response{Status: "panic", Msg: fmt.Sprintf("%v\n%s", r, firstAnkoFrames(string(debug.Stack())))}
			}
		}()
		stmt, err := parser.ParseSrc(src)
		if err != nil {
			resp = response{Status: "parse-error", Msg: err.Error()}
			return
		}
		_, err = vm.RunContext(ctx, workerEnv(), nil, stmt)
		switch {
		case err == nil:
			resp = response{Status: "ok"}
		case ctx.Err() != nil:
			resp = response{Status: "timeout", Msg: err.Error()}
		default:
			resp = response{Status: "run-error", Msg: err.Error()}
		}
	}()
	// quiescence: goroutines started by the script must be gone before the next case
	deadline := time.Now().Add(300 * time.Millisecond)
	for runtime.NumGoroutine() > base && time.Now().Before(deadline) {
		time.Sleep(200 * time.Microsecond)
	}
	if runtime.NumGoroutine() > base {
		cancel()
		deadline = time.Now().Add(700 * time.Millisecond)
		for runtime.NumGoroutine() > base && time.Now().Before(deadline) {
			time.Sleep(time.Millisecond)
		}
		if runtime.NumGoroutine() > base && resp.Status != "panic" {
			resp.Status = "leak"
		}
	}
	return resp
}

// canarySrc is a harmless program over the value kinds of the prelude; in a healthy process it
// always runs without a Go panic.
const canarySrc = `im = make(map[int64]string)
x = map[int64]string{1: "a"}
y = map[string]int64{}
z = map[int64]chan map[int64]string{}
switch im { case im: 1 }
w = [1, 2] + [3]
v = 1 + 2
u = "a" + 1
t = make(struct{A int64, B string})
t.A = 3
[x[1], len(y), v, u, t.A, w[2], (im == im)]`

func canaryAfter(base int) string {
	r := runOne(canarySrc, base)
	if r.Status == "panic" {
		return "after this source ran, a harmless program panics in the same process: " + r.Msg
	}
	if r.Status == "run-error" || r.Status == "parse-error" {
		return "after this source ran, a harmless program fails in the same process: " + r.Status + " " + r.Msg
	}
	// a timeout or leftover goroutines say nothing about shared state (the machine may be loaded)
	return ""
}

func firstAnkoFrames(stack string) string {
	var keep []string
	for _, l := range strings.Split(stack, "\n") {
		if strings.Contains(l, "github.com/mattn/anko/") && !strings.Contains(l, "\t") {
			keep = append(keep, strings.TrimSpace(l))
			if len(keep) >= 4 {
				break
			}
		}
	}
	return strings.Join(keep, " <- ")
}

// ---------- parent side ----------

type worker struct {
	cmd    *exec.Cmd
	stdin  io.WriteCloser
	stdout *bufio.Reader
	stderr *bytes.Buffer
	mu     sync.Mutex
}

func startWorker() (*worker, error) {
	cmd := exec.Command(os.Args[0], "-test.run", "^$")
	cmd.Env = append(os.Environ(), "VERIF_C01_WORKER=1", "GOTRACEBACK=all", "GOMAXPROCS=4")
	stdin, err := cmd.StdinPipe()
	if err != nil {
		return nil, err
	}
	stdout, err := cmd.StdoutPipe()
	if err != nil {
		return nil, err
	}
	w := &worker{cmd: cmd, stdin: stdin, stdout: bufio.NewReaderSize(stdout, 1<<16), stderr: &bytes.Buffer{}}
	cmd.Stderr = w.stderr
	if err := cmd.Start(); err != nil {
		return nil, err
	}
	return w, nil
}

func (w *worker) kill() {
	if w.cmd.Process != nil {
		w.cmd.Process.Kill()
	}
	w.cmd.Wait()
}

// outcome of one case as seen by the parent
type outcome struct {
	Status string // parse-error ok run-error panic timeout leak | crash oom stack concurrent-map hang died
	Msg    string
}

var theWorker *worker

// recent holds the sources most recently sent to the current worker process: if a failure
// turns out to depend on what ran before it in the same process, the history is reported.
var recent []string

func history() string {
	var b strings.Builder
	for i, s := range recent {
		tail := s
		if strings.HasPrefix(s, wildPrelude) {
			tail = "<prelude> " + s[len(wildPrelude):]
		}
		if len(tail) > 400 {
			tail = tail[:400] + "…"
		}
		fmt.Fprintf(&b, "[-%d] %q\n", len(recent)-i, tail)
	}
	return b.String()
}

func execInWorker(src string) outcome {
	o := execInWorker1(src)
	if theWorker == nil {
		recent = nil
	} else {
		recent = append(recent, src)
		if len(recent) > 25 {
			recent = recent[1:]
		}
	}
	return o
}

func execInWorker1(src string) outcome {
	if theWorker == nil {
		w, err := startWorker()
		if err != nil {
			return outcome{Status: "infra", Msg: err.Error()}
		}
		theWorker = w
	}
	w := theWorker
	b, _ := json.Marshal(request{Src: src})
	var hdr [4]byte
	binary.LittleEndian.PutUint32(hdr[:], uint32(len(b)))
	type rd struct {
		line []byte
		err  error
	}
	ch := make(chan rd, 1)
	go func() {
		if _, err := w.stdin.Write(append(hdr[:], b...)); err != nil {
			ch <- rd{nil, err}
			return
		}
		line, err := w.stdout.ReadBytes('\n')
		ch <- rd{line, err}
	}()
	select {
	case r := <-ch:
		if r.err != nil {
			// worker died
			w.cmd.Wait()
			theWorker = nil
			return classifyDeath(w.stderr.String())
		}
		var resp response
		json.Unmarshal(r.line, &resp)
		if resp.Status == "leak" || resp.Status == "corrupted" {
			w.kill()
			theWorker = nil
		}
		return outcome{Status: resp.Status, Msg: resp.Msg}
	case <-time.After(8 * time.Second):
		w.kill()
		theWorker = nil
		<-ch
		return outcome{Status: "hang", Msg: "no answer within 8 s (time inside a host call or an allocation loop); worker killed"}
	}
}

// faultingAnkoFrame returns the innermost anko frame of the goroutine that detected a fatal
// fault (the first goroutine block of the traceback).
func faultingAnkoFrame(stderr string) string {
	i := strings.Index(stderr, "\ngoroutine ")
	if i < 0 {
		return ""
	}
	block := stderr[i+1:]
	if j := strings.Index(block, "\n\n"); j >= 0 {
		block = block[:j]
	}
	for _, l := range strings.Split(block, "\n") {
		if strings.HasPrefix(l, "github.com/mattn/anko/") {
			if k := strings.LastIndex(l, "("); k > 0 {
				l = l[:k]
			}
			return l
		}
	}
	return ""
}

// faultThroughReflect reports whether the goroutine that detected the fault reached the map through
// package reflect (every script container is a reflect value) before its innermost anko frame.
func faultThroughReflect(stderr string) bool {
	i := strings.Index(stderr, "\ngoroutine ")
	if i < 0 {
		return true
	}
	block := stderr[i+1:]
	if j := strings.Index(block, "\n\n"); j >= 0 {
		block = block[:j]
	}
	for _, l := range strings.Split(block, "\n") {
		if strings.HasPrefix(l, "github.com/mattn/anko/") {
			return false
		}
		if strings.HasPrefix(l, "reflect.") {
			return true
		}
	}
	return true
}

func classifyDeath(stderr string) outcome {
	// the line that names the fault: the runtime prints its own diagnostics ("runtime: nameOff ... not in
	// ranges") BEFORE the "fatal error:" line, so a panic / fatal error line anywhere wins over a "runtime:" line
	first := ""
	for _, l := range strings.Split(stderr, "\n") {
		if strings.HasPrefix(l, "panic:") || strings.HasPrefix(l, "fatal error:") {
			first = l
			break
		}
		if first == "" && strings.HasPrefix(l, "runtime:") {
			first = l
		}
	}
	switch {
	case strings.Contains(stderr, "out of memory") || strings.Contains(stderr, "cannot allocate memory"):
		return outcome{Status: "oom", Msg: first}
	case strings.Contains(stderr, "stack overflow") || strings.Contains(stderr, "goroutine stack exceeds"):
		return outcome{Status: "stack", Msg: first}
	case strings.Contains(stderr, "concurrent map"):
		// Two script goroutines sharing one script container unsynchronised is outside the
		// guarantee; the interpreter's own scope maps (package env, guarded by its locks) are not
		// script containers: a fault detected inside an env method is a crash of the host.
		if site := faultingAnkoFrame(stderr); strings.HasPrefix(site, "github.com/mattn/anko/env.") {
			return outcome{Status: "crash", Msg: first + " [interpreter scope tables]\n" + site}
		} else if site != "" && !faultThroughReflect(stderr) {
			// a map the interpreter keeps for itself (a script container is only ever reached through reflect)
			return outcome{Status: "crash", Msg: first + " [a map of the interpreter itself]\n" + site}
		}
		return outcome{Status: "concurrent-map", Msg: first}
	case strings.HasPrefix(first, "panic:") || strings.HasPrefix(first, "fatal error:"):
		return outcome{Status: "crash", Msg: first + "\n" + firstAnkoFrames(stderr)}
	}
	tail := stderr
	if len(tail) > 400 {
		tail = tail[len(tail)-400:]
	}
	return outcome{Status: "died", Msg: "worker exited without a Go panic report: " + tail}
}
