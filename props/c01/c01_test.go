// C01 — a script can never crash the embedding Go program.
// Every generated source is parsed and run in non-debug mode inside a sandbox worker
// process (worker_test.go). The host must survive: a Go panic recovered on the calling
// goroutine, or the death of the worker with a panic / fatal error other than memory or
// stack exhaustion and unsynchronised map sharing, is a violation.
package c01

import (
	"fmt"
	"regexp"
	"strings"
	"testing"

	"pgregory.net/rapid"

	"verif/internal/h"
	"verif/internal/wild"
)

type Case struct {
	Kind string `json:"kind"`
	Src  string `json:"src"`
	// Tags name the input classes the generator drew for this case (distribution counters only)
	Tags []string `json:"tags,omitempty"`
}

var wildPrelude = wild.Prelude

// execFresh runs src in a brand-new worker process.
func execFresh(src string) outcome {
	saved, savedRecent := theWorker, recent
	theWorker = nil
	o := execInWorker1(src)
	if theWorker != nil {
		theWorker.kill()
	}
	theWorker, recent = saved, savedRecent
	return o
}

var goStmtRe = regexp.MustCompile(`(^|[^A-Za-z0-9_])go[ \t]`)

var numRe = regexp.MustCompile(`0x[0-9a-f]+|\d{3,}`)

func normMsg(s string) string {
	s = strings.SplitN(s, "\n", 2)[0]
	s = numRe.ReplaceAllString(s, "N")
	if len(s) > 110 {
		s = s[:110]
	}
	return s
}

func siteOf(msg string) string {
	// first anko frame reported by the worker
	if i := strings.Index(msg, "github.com/mattn/anko/"); i >= 0 {
		f := msg[i:]
		if j := strings.IndexAny(f, "( "); j > 0 {
			f = f[:j]
		}
		return strings.TrimPrefix(f, "github.com/mattn/anko/")
	}
	return "?"
}

func oracle(c Case, o *h.Obs) *h.Fail {
	o.Key = c.Src
	src := c.Src
	hist := history()
	out := execInWorker(src)
	o.Class("kind_" + c.Kind)
	o.Class("status_" + out.Status)
	for _, tg := range c.Tags {
		o.Class(tg)
		o.Class(tg + "_" + out.Status)
	}
	switch out.Status {
	case "ok", "run-error":
		o.NonTrivial = true
		return nil
	case "parse-error":
		return nil
	case "timeout", "hang", "leak":
		// a script that does not finish is C02's subject; time inside one host call and
		// goroutines parked forever are outside C01
		o.Excluded = "did not finish: " + out.Status
		return nil
	case "oom", "stack", "concurrent-map":
		o.Excluded = "outside the guarantee: " + out.Status
		return nil
	case "panic":
		isolated := execFresh(src)
		if goStmtRe.MatchString(strings.TrimPrefix(src, wildPrelude)) {
			// the source starts script goroutines: whether the panic shows may depend on the interleaving, so a
			// fresh process gets a few more runs before the failure is attributed to anything else
			for try := 1; try < 4 && isolated.Status != "panic"; try++ {
				isolated = execFresh(src)
			}
			if isolated.Status != "panic" {
				return h.Failf("C01|panic-schedule-dependent|"+normMsg(out.Msg)+"|"+siteOf(out.Msg), "a Go panic escaped from running this source on the calling goroutine (non-debug mode); the source starts script goroutines and the panic did not show again in 4 runs in fresh processes, so it depends on the interleaving of the goroutines:\n%s\npanic: %s", src, out.Msg)
			}
		}
		if isolated.Status != "panic" {
			// the same source does not panic in a fresh worker process: the failure depends on
			// what ran earlier in that process (shared state inside anko). Report the history.
			return h.Failf("C01|panic-depends-on-process-history|"+normMsg(out.Msg)+"|"+siteOf(out.Msg), "a Go panic escaped while running this source, but only after other sources had run in the same process (it does not panic in a fresh process): shared mutable state\nsource:\n%s\npanic: %s\nsources run before it in that process (oldest first):\n%s", src, out.Msg, hist)
		}
		return h.Failf("C01|panic|"+normMsg(out.Msg)+"|"+siteOf(out.Msg), "a Go panic escaped from parsing/running this source on the calling goroutine (non-debug mode):\n%s\npanic: %s", src, out.Msg)
	case "corrupted":
		return h.Failf("C01|process-state-corrupted|"+normMsg(strings.TrimPrefix(strings.TrimPrefix(out.Msg, "after this source ran, a harmless program panics in the same process: "), "after this source ran, a harmless program fails in the same process: ")), "running this source left the host process in a state in which a harmless program no longer runs (shared mutable state inside anko):\n%s\n%s\nharmless program:\n%s", src, out.Msg, canarySrc)
	case "crash":
		return h.Failf("C01|crash|"+normMsg(out.Msg)+"|"+siteOf(out.Msg), "the host process died while running this source (panic on a goroutine started by the script, or fatal error):\n%s\n%s", src, out.Msg)
	case "died", "infra":
		o.Excluded = "worker infrastructure: " + out.Status
		return nil
	}
	o.Excluded = "unknown worker status " + out.Status
	return nil
}

// ---------- generators ----------

func genWild(t *rapid.T) Case {
	return Case{Kind: "wild", Src: wild.Program(t, wild.Opts{Loops: true, Go: true, HugeInts: true, Prelude: true, MaxDepth: 3, MaxStmts: 3})}
}

// operand universe for the targeted templates: names bound by wild.Prelude, literals,
// and values obtained through every provenance
var operands = []string{
	"i", "j", "f", "s", "b", "n", "l", "m", "tl", "ts", "tm", "im", "pl", "il", "ll", "p", "ps", "st", "si", "ch", "uc", "fn", "f0", "f5", "fv", "mod", "undefinedName",
	"0", "1", "-1", "2", "9223372036854775807", "-9223372036854775808", "72057594037927936", "4611686018427387904", "1.5", "-0.0", "1e308", `""`, `"a"`, `"abc"`, "true", "false", "nil",
	"[]", "[1, 2]", "[nil]", "{}", `{"a": 1}`, "[]int64{1, 2}", "[]string{}", "map[string]int64{}", "make([]int64, 0, 4)", "make([][]int64, 1)", "make(map[int64]string)", "make(chan int64)", "make(chan int64, 1)",
	"new(int64)", "new([]int64)", "new(struct{A int64})", "make(struct{A int64, B []string})", "make(*int64)", "make([]*int64, 2)", "make(map[string]*int64)",
	"l[0]", "l[2]", "pl[0]", "il[0]", "ll[0]", "m.a", "m.b", `m["zz"]`, "st.A", "st.C", "*p", "&i", "&l", "id(i)", "id(l)", "id(nil)", "id(p)", "id(ch)", "id(fn)", "[p][0]", "[ch][0]", "[fn][0]", "[mod][0]", "(true ? tl : nil)", "(nil ?? tm)",
	// values of every basic type a script can name (unsigned, narrow and float32 ones among them)
	"make(uint)", "make(uint32)", "make(uint64)", "make(byte)", "make(rune)", "make(int)", "make(int32)", "make(float32)", "make([]byte, 2)", "make([]byte, 2)[0]", "[]uint64{1, 18446744073709551615}[1]", "[]byte{255}[0]", "[]float32{1.5}[0]", "[]int32{-1}[0]", "[]uint{3}", "map[uint64]byte{}", "toByteSlice(\"ab\")[0]", "toRuneSlice(\"ab\")[1]",
	"nerr()", "verr()", "nstr()", "nerr2(1)", "nerr2(1)[1]", "nerr", "func() { return 1 }", "func(a) { return a }", "func(a...) { return a }", "mod.g", "mod.x", "keys", "typeOf", "boom", "boomv", "cb", "each", "arr", "takesInt", "takesStrs", "import(\"strings\")", "import(\"strings\").Repeat",
}

var templates = []string{
	"*%s = %s", "%s.A = %s", "%s.zz = %s", "%s[%s] = %s", "%s[%s:%s] = %s", "%s[:%s] = %s", "%s, %s = %s", "%s, %s = %s, %s", "var a, b = %s", "var a = %s, %s", "var a =", "var a, b =",
	"%s(%s)", "%s(%s, %s)", "%s(%s...)", "%s(...)", "%s()", "%s(%s, %s...)", "go %s(%s)", "go %s(%s...)", "go %s(...)", "defer %s(%s)", "defer %s(...)", "defer %s(%s...)", "go boom(%s)", "go each(%s, %s)", "defer boom(%s)",
	"for x in %s { x }", "for k, v in %s { [k, v] }", "for x in %s { break }", "for x in %s { x = %s }", "switch %s { case %s: 1 }", "switch %s { case %s, %s: 1; default: 2 }",
	"delete(%s)", "delete(%s, %s)", "close(%s)", "%s <- %s", "(<- %s)", "v, ok = <- %s", "v = <- %s", "%s[%s], ok = <- %s",
	"make([]int64, %s)", "make([]int64, %s, %s)", "make(chan int64, %s)", "make([]*int64, %s)", "make(map[string]int64, %s)", "make(type T1, %s)", "new(mod.%s)", "make(i.b)", "make(mod.x)", "make(l.int64)",
	"[]int64{%s}", "[]string{%s, %s}", "[][]int64{%s}", "map[string]int64{%s: %s}", "map[int64]string{%s: %s}", "{%s: %s}", "import(%s)",
	"%s + %s", "%s - %s", "%s * %s", "%s / %s", "%s %% %s", "%s & %s", "%s | %s", "%s << %s", "%s >> %s", "%s == %s", "%s != %s", "%s < %s", "%s >= %s", "%s && %s", "%s || %s",
	"-%s", "!%s", "^%s", "&%s", "*%s", "len(%s)", "(%s in %s)", "(%s ? %s : %s)", "(%s ?? %s)", "%s.A", "%s.zz", "%s.Len", "%s[%s]", "%s[%s:%s]", "%s[%s:]", "%s[:%s:%s]", "%s[%s:%s:%s]",
	"throw %s", "%s++", "%s--", "%s += %s", "%s -= %s", "%s *= %s", "%s /= %s", "%s &= %s", "%s |= %s", "%s[%s]++", "%s.A += %s", "*%s += %s",
	`"s" * %s`, `%s * "s"`, "toInt(%s)", "toString(%s)", "toIntSlice(%s)", "toRune(%s)", "toChar(%s)", "keys(%s)", "typeOf(%s)", "cb(%s)", "each(%s, %s)", "arr(%s)", "takesInt(%s, %s)", "takesStrs(%s...)",
	"func(a, b) { return a }(%s...)", "func(a...) { return a }(%s...)", "func(a) { *a = %s }(%s)", "func() { defer %s(%s); return 1 }()", "func() { go %s(%s); return 1 }()",
	"boomv(%s...)", "go boomv(%s...)", "defer boomv(%s...)", "go boomv(%s, %s...)", "go takesStrs(%s...)", "go %s(%s, %s...)",
	"si.A = %s\n{si: 1}", "si.A = %s\nm[si] = 1", "si.B = %s\ndelete(m, si)", "si.A = %s\nm[si]", "si.A = %s\nmap[interface]int64{si: 1}", "si.A = %s\n(si in [si])", "si.A = %s\nsi == si", "si.A = %s\nswitch si { case si: 1 }",
	"*ty = %s", "*ty = *make(type T2, %s)", "*make(type T3, %s) = nil", "(*ty).t", "x = *ty\nx.t = %s", "ty.zz = %s", "ty(%s)", "make(ty)", "for x in ty { x }", "ty + %s", "ty == %s", "%s[ty]", "m[ty] = %s", "{ty: %s}", "typeOf(*ty)",
	// containers changed while they are being iterated / indexed / sliced
	"for k, v in m { delete(m, \"a\"); delete(m, \"b\"); [k, v] }", "for k, v in %s { delete(%s, k); delete(%s, %s); x = v }", "for k in tm { tm[%s] = 1; delete(tm, k) }",
	"for x in l { l = []; %s }", "for x in st.C { st.C = []; [x] }", "st.C = [1, 2, 3]\nfor x in st.C { st.C = st.C[:1]; [x] }", "ll[0] = [1, 2, 3]\nfor x in ll[0] { ll[0] = []; [x] }",
	"st.C = [1, 2, 3]\nfunc sh() { st.C = []; return %s }\nst.C[sh():]", "st.C = [1, 2, 3]\nfunc sh() { st.C = []; return %s }\nst.C[0:sh()]", "st.C = [1, 2, 3]\nfunc sh() { st.C = []; return %s }\nst.C[0:2:sh()]",
	"st.C = [1, 2, 3]\nfunc sh() { st.C = []; return %s }\nst.C[sh()]", "st.C = [1, 2, 3]\nfunc sh() { st.C = []; return %s }\nst.C[sh()] = 5", "st.C = [1, 2, 3]\nfunc sh() { st.C = []; return %s }\nst.C[sh():] = [9]",
	"ll[0] = [1, 2, 3]\nfunc sh() { ll[0] = []; return %s }\nll[0][sh():]", "ll[0] = [1, 2, 3]\nfunc sh() { ll[0] = []; return %s }\nll[0][sh()]", "s2 = \"abc\"\nfunc sh() { s2 = \"\"; return %s }\ns2[sh():]",
	"x = [%s]\n{x[0]: 1}", "x = {\"k\": %s}\nm[x.k] = 2", "x = id(%s)\nm[x]", "x = %s\ndelete(m, x)\ndelete(im, x)\ndelete(tm, x)",
	// slots of assorted pointer types receiving pointers (typed nil ones among them) of another type
	"pq = make([]*string, 2)\npq[0] = %s", "pm = make(map[string]*float64)\npm[\"k\"] = %s", "pc = make(chan *int32, 1)\npc <- %s", "pt = make(struct{P *int32, Q *string})\npt.P = %s\npt.Q = %s",
	"pq = make([]*float64, 1)\npq[0] = pl[0]\npq[0] = %s", "pp = new(*int32)\n*pp = %s", "takesPtr(%s)", "takesPtrs(%s, %s)", "[]*int32{%s}", "map[string]*string{\"k\": %s}",
	// two script goroutines that share scopes only (never a container): one keeps assigning, the other copies scopes (module assignment), defines, deletes
	"cg = 0\ngo func() { for ci = 0; ci < 2000; ci++ { cg = ci } }()\nfor cj = 0; cj < 400; cj++ { cx = mod }", "module cm { v = 0; func set(a) { v = a } }\ngo func() { for ci = 0; ci < 2000; ci++ { cm.set(ci) } }()\nfor cj = 0; cj < 400; cj++ { cy = cm }",
	"cg = 0\ngo func() { for ci = 0; ci < 2000; ci++ { cg = %s } }()\nfor cj = 0; cj < 400; cj++ { var cx = mod; delete(\"cx\") }", "go func() { for ci = 0; ci < 1000; ci++ { module cm { a = 1 } } }()\nfor cj = 0; cj < 400; cj++ { cx = mod; cz = cj }",
	// typed nil module pointers: a module's type as element type of a made container
	"make(type TM, mod)\nsm = make([]TM, 1)\nx = sm[0]\nx", "make(type TM, mod)\nsm = make([]TM, 1)\nsm[0].x", "make(type TM, mod)\nsm = make([]TM, 1)\nsm[0].x = %s", "make(type TM, mod)\nsm = make([]TM, 1)\nvar x, y = sm[0], %s",
	"make(type TM, mod)\nsm = make([]TM, 1)\n%s(sm[0])", "make(type TM, mod)\nsm = make([]TM, 1)\nfor k in sm { k.x }", "make(type TM, mod)\nmm = map[string]TM{}\nx = mm.k\nmm.k.g(%s)", "make(type TM, mod)\npm = new(TM)\nx = *pm\n(*pm).x",
	"make(type TM, mod)\nsm = make([]TM, 1)\nx = sm[0]\nmake(x.T)\nnew(x.y.T)", "make(type TM, mod)\nsm = make([]TM, 1)\nx, y = sm[0], sm[0]\nx == y\nx.g(%s)", "make(type TM, mod)\nst2 = make(struct{M TM})\nx = st2.M\nst2.M.x = %s",
	// unsigned / narrow / float32 values (make(T) of every basic type name, elements of typed slices) in every operator position
	"make(uint64) < %s", "%s >= make([]byte, 2)[0]", "[]uint64{1}[0] <= %s", "%s > make(uint32)", "make(uint) < make(int32)", "make(byte) >= make(uint64)", "make(float32) < make(uint)", "make(uint64) + %s", "%s - make(byte)", "make(uint32) * %s", "%s / make(uint64)",
	"%s %% make(uint)", "make(uint64) << %s", "%s >> make(byte)", "make(uint64) & %s", "-make(uint64)", "^make(byte)", "!make(uint32)", "make(uint64) == %s", "%s != make(rune)", "switch make(uint64) { case %s: 1 }", "switch %s { case make(byte): 1 }", "%s in []uint64{1}", "make(uint64) in %s",
	"make([]int64, make(uint64))", "make(chan int64, make(byte))", "l[make(uint32)]", "l[:make(byte)]", "l[make(uint):]", "for x in make(uint64) { }", "ux = make(uint64)\nux++\nux += %s\nux -= %s\nux", "ub = make([]byte, 2)\nub[0] = %s\nub[0]++\nub[1] += %s\nub", "uf = make(float32)\nuf += %s\nuf < %s",
	"\"ab\" * make(uint64)", "make(uint64) * \"ab\"", "(make(uint32) ? 1 : 2)", "(make(byte) ?? %s)", "if make(uint64) { 1 }", "for make(uint32) { break }", "toInt(make(uint64)) + toFloat(make(byte))", "takesInt(make(uint64), %s)", "[]int64{make(uint64), %s}", "map[uint64]int64{make(byte): %s}",
	// type names qualified by a path of namespaces whose later elements are not modules
	"make(mod.x.T)", "new(mod.g.int64)", "[]mod.x.int64{}", "map[string]mod.g.T{}", "make([]mod.x.T, 1)", "make(chan mod.x.T)", "module m3 { module m4 { y = 1 } }\nmake(m3.m4.y.T)", "module m3 { module m4 { y = 1 } }\nmake(m3.m4.int64)\nnew(m3.y.T)\nmake(m3.m4.m5.T)",
	"module m3 { m4 = %s }\nmake(m3.m4.T)", "make(mod.%s.T)", "make(type TQ, 1)\nmodule m3 { make(type TR, %s) }\nmake(m3.TR)\nmake(m3.TQ)\nmake(m3.TR.x)",
	// every binary operator over number-like operands (%n): zero, fractions that truncate to zero, numeral strings of
	// every spelling, booleans, nil, the int64 extremes - a guard that tests one reading of an operand while the
	// operation uses another (float vs truncated integer, string vs parsed number) shows here
	"%n + %n", "%n - %n", "%n * %n", "%n / %n", "%n %% %n", "%n & %n", "%n | %n", "%n << %n", "%n >> %n", "%n < %n", "%n == %n", "-%n", "^%n",
	"x = %n\nx += %n\nx -= %n\nx *= %n\nx /= %n\nx", "x = %n\nx++\nx--\nx", "make([]int64, %n)", "l[%n]", "l[%n:%n]", "\"ab\" * %n", "for x in %n { }", "toInt(%n) %% toInt(%n)", "toInt(%n) %% toFloat(%n)",
	// stores into strings at number-like indexes, values of a script-function TYPE that are not script functions,
	// pointer-typed channels carrying nil pointers through for-in
	"x = \"abc\"\nx[%n] = %s", "s[%n] = %n", "x = \"abc\"\nx[%n:%n] = %s", "m.s = \"ab\"\nm.s[%n] = \"x\"", "st.B = \"ab\"\nst.B[%n] = %s",
	"make(type TF, func() { })\nx = make(TF)\nx()", "make(type TF, func(a) { return a })\nx = make(TF)\nx(%s)", "make(type TF, func() { })\nx = make([]TF, 1)\ny = x[0]\ny()", "make(type TF, func() { })\nx = make([]TF, 1)\nx[0] = %s\ny = x[0]\ny()",
	"make(type TF, func(a, b) { })\nx = make(map[string]TF)\nx.k = %s\nx.k(%s, %s)", "make(type TF, func() { })\ngo make(TF)()", "make(type TF, func() { })\ndefer make(TF)()", "make(type TF, %s)\nx = make(TF)\nx(%s)",
	"pc = make(chan *int64, 2)\npc <- nil\npc <- %s\nclose(pc)\nfor x in pc { y = [x]; {\"k\": x}; id(x) }", "pc = make(chan *int64, 1)\npc <- nil\nclose(pc)\nr = nil\nfor x in pc { r = x }\nr", "pc = make(chan []int64, 1)\npc <- nil\nclose(pc)\nfor x in pc { len(x); x[%n] }",
	"pc = make(chan *int64, 1)\npc <- nil\nx = <-pc\n[x, *x]", "pc = make(chan map[string]int64, 1)\npc <- nil\nclose(pc)\nfor x in pc { x.k = 1 }",
	// script goroutines that share scopes only: one keeps defining types, the others keep resolving type names
	"go func() { for ci = 0; ci < 1500; ci++ { make(type TQ, ci) } }()\nfor cj = 0; cj < 1500; cj++ { make(int64); make([]string, 1) }", "func tw() { for ci = 0; ci < 1500; ci++ { make(type TW, ci) } }\ngo tw()\ngo func() { for ck = 0; ck < 1500; ck++ { new(int64) } }()\nfor cj = 0; cj < 1500; cj++ { x = []int64{cj} }",
	// nil values of interface types with methods, as Go functions return them
	"nerr().Error()", "x = nerr()\nx.Error()", "x = nstr()\nx.String()", "x = nerr()\nx.Error = %s", "x, y = nerr2(%s)\ny.Error()", "x = nerr()\n%s(x)", "x = nerr()\nx.%s", "x = nerr()\n[x == nil, x == %s, len(x), x[0], *x, &x, -x, !x, x + 1]", "x = nerr()\nfor y in x { }", "x = nerr()\nx()", "x = nstr()\nthrow x", "x = nerr()\nswitch x { case nil: 1 }", "x = nerr()\n{x: 1}\nm[x] = 1", "l[0] = nerr()\nl[0].Error()", "x = verr()\nx.Error()\nx.zz\nx.Error = 1",
	"go func() { for ck = 0; ck < 3000; ck++ { make(int64); new(string) } }()\ngo func() { for ck = 0; ck < 3000; ck++ { x = []int64{ck} } }()\nfor cj = 0; cj < 3000; cj++ { make(type TQ, cj) }",
	"func rd() { for ck = 0; ck < 3000; ck++ { make([]string, 1) } }\ngo rd()\ngo rd()\nfor cj = 0; cj < 3000; cj++ { make(type TQ, %s) }", "module tm { func rd() { for ck = 0; ck < 3000; ck++ { make(int64) } } }\ngo tm.rd()\nfor cj = 0; cj < 3000; cj++ { make(type TQ, cj)\n make(type TR, \"s\") }",
	// script goroutines that share nothing but the interpreter: each keeps defining functions of many parameters
	"go func() { for ci = 0; ci < 200; ci++ { fa = func(%p) { return 1 } } }()\ngo func() { for ck = 0; ck < 200; ck++ { fb = func(%p) { return 2 } } }()\nfor cj = 0; cj < 200; cj++ { fc = func(%p) { return 3 } }",
	"func mk1() { return func(%p) { return 1 } }\nfunc mk2() { return func(%p) { return 2 } }\ngo mk1()\ngo mk2()\ngo mk1()\nmk2()",
	// functions of very many parameters (%L: 100 .. 1000 names, around and beyond what reflect.FuncOf takes) in every position a function is made
	"func(%L) { return 1 }", "fb = func(%L) { return q0 }\nfb(%s)", "func fb(%L) { return 1 }\nfb(%s...)", "go func(%L) { }(%s)", "defer func(%L) { }()", "module mb { func fb(%L) { return 1 } }\nmb.fb(%s)", "func(a) { return func(%L) { return a } }(%s)", "cb(func(%L) { return 1 })",
	// the same with parameter counts in the hundreds (%P: a list of 8 to 20 function literals of drawn parameter counts): the calling
	// goroutine defines functions of counts not seen before while script goroutines keep defining a function of one count
	"func rd() { for ck = 0; ck < 400; ck++ { func(%p) { return 0 } } }\ngo rd()\ngo rd()\ngo rd()\nfor cw = 0; cw < 150; cw++ { }\n%P", "func rd() { for ck = 0; ck < 400; ck++ { func(%p) { return 0 } } }\ngo rd()\ngo rd()\n%P",
	"func mk() { return %P }\ngo mk()\ngo mk()\ngo mk()\nmk()", "go func() { %P }()\ngo func() { %P }()\n%P",
	"try { %s(%s) } catch e { e.Error() }", "try { throw %s } catch e { e = %s }", "module m2 { a = %s }; m2.a(%s)", "x = %s; x.y = %s", "x = %s; x[0] = %s; x",
	// seventh round. (a) types whose values are large (%B defines BT, 8 bytes .. 1 MiB, without allocating one) in every type form
	"%B\nmake(chan BT)", "%B\nmake(chan BT, %s)", "%B\nnew(chan BT)", "%B\n[]chan BT{}", "%B\nmake([]chan BT, 1)", "%B\nmake(map[string]chan BT)", "%B\nmake(map[BT]string)", "%B\nmake(struct{A chan BT, B BT})", "%B\nmake(*BT)", "%B\nmake([]BT, 0)", "%B\nmake(type BU, make(chan BT))",
	"%B\nx = make(chan *BT, 1)\nx <- %s", "%B\nfunc bf(a) { return make(chan BT) }\nbf(1)", "%B\ngo func() { make(chan BT) }()", "%B\ntry { make(chan BT) } catch e { e.Error() }",
	// (b) a statement holds a container that sits in a slot (struct field, element of a [][]int64, pointee) while a
	// target, an index or a later operand replaces what is in the slot by something shorter
	"%Z\nx = [0, 0]\nx[fz()], y = %z", "%Z\nx = [0, 0]\nx[fz()], y, w = %z", "%Z\nx = {}\nx[fz()], x.b = %z", "%Z\nvar a, b = %z, fz()", "%Z\na, b = %z, fz()\na[1]", "%Z\nfor v in %z { fz() }", "%Z\nfor i, v in %z { fz(); [i, v] }",
	"%Z\n%z[fz():]", "%Z\n%z[1:fz() + 2]", "%Z\n%z[fz() + 1]", "%Z\n%z[1] = fz()", "%Z\n%z[fz() + 1] = 5", "%Z\n%z[fz():2] = [7]", "%Z\n%z + [fz()]", "%Z\n%z += [fz()]", "%Z\nlen(%z) + fz()", "%Z\n(fz() in %z)", "%Z\n(%z[1] in [fz()])",
	"%Z\nfunc fy(a, b) { return a[1] }\nfy(%z, fz())", "%Z\nfunc fy(a...) { return a[0][1] }\nfy(%z, fz())", "%Z\ndefer func(a, b) { a[1] }(%z, fz())", "%Z\ngo func(a, b) { a[1] }(%z, fz())", "%Z\ntakesInt(%z[1], fz())", "%Z\nswitch %z[1] { case fz(): 1 }", "%Z\n[%z[1], fz()]", "%Z\nreturn %z[1], fz()",
	// (c) assignments that create a container and store it back where the missing one came from: a member or an
	// index of a nil map, the element one past the end of a slice. %W puts a nil map (or a nil / empty slice) into a
	// home of every form (variable, entry of a typed or untyped map reached by index or by name, element of a typed
	// slice, struct field, pointee, module member, two such steps in a row, a call result) and %w names that home
	// (%U does the same for the statements about element positions); %v is a value to store
	"%W\n%w.x = %v", "%W\n%w.x = %v\n%w.x", "%W\n%w.x = 1\n%w.y = %v\n[%w.x, len(%w)]", "%W\n%w.x += %v", "%W\n%w.x++", "%W\n%w.x, wy = %v, 1", "%W\nwy, %w.x = 1, %v", "%W\n%w.x.y = %v", "%W\n%w.x[%s] = %v",
	"%W\n%w[\"x\"] = %v", "%W\n%w[%s] = %v", "%W\n%w[\"x\"] += %v", "%W\n%w[\"x\"].y = %v", "%W\n%w[\"x\"], %w.y = %v, %s", "%W\nfor wk in [1, 2] { %w.x = wk }\n%w", "%W\nfor wk in [\"a\", \"b\"] { %w[wk] = %v }\n%w",
	"%U\n%w[len(%w)] = %v", "%U\n%w[0] = %v\n%w[1] = %v\n%w", "%U\n%w[0], %w[1] = %v, %s", "%U\n%w[0].x = %v", "%U\n%w[0][0] = %v", "%U\n%w[0]++", "%U\n%w[0] += %v", "%U\n%w[:0] = [%v]", "%U\n%w += [%v]", "%W\n%w = %v\n%w.x = 1",
	"%W\ngo func() { %w.x = %v }()", "%U\ndefer func() { %w[0] = %v }()", "%W\nfunc wf(a) { %w.x = a; return %w }\nwf(%v)", "%U\ntry { %w.x = %v } catch e { %w[0] = e }", "%W\ndelete(%w, \"x\")\n%w.x = %v\ndelete(%w, \"x\")\n[len(%w), %w.x]",
}

// bigTypeDefs defines the type BT: a struct of structs ... of int64 fields, 8 bytes times fan^levels.
func bigTypeDefs(levels, fan int) string {
	var b strings.Builder
	prev := "int64"
	for l := 1; l <= levels; l++ {
		name := fmt.Sprintf("BT%d", l)
		if l == levels {
			name = "BT"
		}
		var fs []string
		for k := 0; k < fan; k++ {
			fs = append(fs, fmt.Sprintf("F%d %s", k, prev))
		}
		fmt.Fprintf(&b, "make(type %s, make(struct{%s}))\n", name, strings.Join(fs, ", "))
		prev = name
	}
	return strings.TrimSuffix(b.String(), "\n")
}

// slots that hold a list of two int64, and the statements that replace the content of the slot
var slotDefs = [][2]string{
	{"sz = make(struct{A []int64})\nsz.A = [1, 2]", "sz.A"},
	{"sz = make([][]int64, 1)\nsz[0] = [1, 2]", "sz[0]"},
	{"sz = new([]int64)\n*sz = [1, 2]", "*sz"},
	{"sz = {\"a\": [1, 2]}", "sz.a"},
	{"sz = [[1, 2]]", "sz[0]"},
	{"sz = make([]interface, 1)\nsz[0] = []int64{1, 2}", "sz[0]"},
}
var slotShrinks = []string{"make([]int64, 0)", "[]", "nil", "[]int64{9}", "make([]int64, 0, 8)", "\"\"", "0"}

// homes of the write-back class: a setup that leaves a nil map (or a nil / empty slice) in a place, the expression that
// names the place, and the form of the place (a class counter)
var wbHomes = [][4]string{
	{"wz = make([]map[string]int64, 1)[0]", "wz", "variable", "map"},
	{"var wz = make([][]int64, 1)[0]", "wz", "variable", "slice"},
	{"wz = make(map[string]map[string]int64)\nwz[\"a\"] = nil", "wz[\"a\"]", "typed-map-entry-by-index", "map"},
	{"wz = make(map[string]map[string]int64)\nwz.a = nil", "wz.a", "typed-map-entry-by-name", "map"},
	{"wz = make(map[string]map[string]int64)", "wz.a", "typed-map-entry-absent", "map"},
	{"wz = make(map[string]map[string]int64)", "wz[\"a\"]", "typed-map-entry-absent", "map"},
	{"wz = make(map[int64]map[string]int64)\nwz[1] = nil", "wz[1]", "typed-map-entry-by-index", "map"},
	{"wz = make(map[string]map[string]interface)\nwz.a = nil", "wz.a", "typed-map-entry-by-name", "map"},
	{"wz = make(map[string]map[int64]string)\nwz[\"a\"] = nil", "wz[\"a\"]", "typed-map-entry-by-index", "map"},
	{"wz = make(map[string][]int64)\nwz.a = nil", "wz.a", "typed-map-entry-by-name", "slice"},
	{"wz = make(map[string][]int64)\nwz[\"a\"] = make([]int64, 0)", "wz[\"a\"]", "typed-map-entry-by-index", "slice"},
	{"wz = make(map[string][]map[string]int64)\nwz.a = make([]map[string]int64, 1)", "wz.a[0]", "two-steps", "map"},
	{"wz = make(map[string]map[string]map[string]int64)\nwz.a = make(map[string]map[string]int64)\nwz.a.b = nil", "wz.a.b", "two-steps", "map"},
	{"wz = make([]map[string]map[string]int64, 1)\nwz[0] = make(map[string]map[string]int64)\nwz[0].b = nil", "wz[0].b", "two-steps", "map"},
	{"wz = make(struct{M map[string]map[string]int64})\nwz.M = make(map[string]map[string]int64)\nwz.M.b = nil", "wz.M[\"b\"]", "two-steps", "map"},
	{"wz = {\"a\": make([]map[string]int64, 1)[0]}", "wz.a", "untyped-map-entry", "map"},
	{"wz = {\"a\": make([][]int64, 1)[0]}", "wz[\"a\"]", "untyped-map-entry", "slice"},
	{"wz = {}\nwz.a = make(map[string]map[string]int64)\nwz.a.b = nil", "wz.a.b", "two-steps", "map"},
	{"wz = make([]map[string]int64, 1)", "wz[0]", "typed-slice-element", "map"},
	{"wz = make([][]int64, 1)", "wz[0]", "typed-slice-element", "slice"},
	{"wz = [make([]map[string]int64, 1)[0], make([][]int64, 1)[0]]", "wz[0]", "untyped-slice-element", "slice"},
	{"wz = make(struct{M map[string]int64, L []int64})", "wz.M", "struct-field", "map"},
	{"wz = make(struct{M map[string]int64, L []int64})", "wz.L", "struct-field", "slice"},
	{"wz = new(map[string]int64)", "(*wz)", "pointee", "map"},
	{"wz = new([]int64)", "(*wz)", "pointee", "slice"},
	{"module wm { v = make([]map[string]int64, 1)[0]; w = make(map[string]map[string]int64); w.a = nil }", "wm.v", "module-member", "map"},
	{"module wm { v = make([]map[string]int64, 1)[0]; w = make(map[string]map[string]int64); w.a = nil }", "wm.w.a", "two-steps", "map"},
	{"wz = make([]map[string]int64, 1)[0]", "id(wz)", "call-result", "map"},
	{"wz = make(chan map[string]int64, 1)\nwz <- nil\nclose(wz)", "(<-wz)", "call-result", "map"},
}

var wbValues = []string{"1", "0", "-1", "7", "2.5", "i", "true", "nil", "{}", "[]", "[1]", "make(map[string]int64)", "make([]int64, 0)", "tm", "tl", "\"k\""}

func (c *Case) fill(t *rapid.T, tmpl string) string {
	var b strings.Builder
	slot := 0
	home := 0
	for i := 0; i < len(tmpl); i++ {
		if tmpl[i] == '%' && i+1 < len(tmpl) {
			if tmpl[i+1] == 's' {
				b.WriteString(genOperand(t, 1))
				i++
				continue
			}
			if tmpl[i+1] == 'B' {
				// 8 bytes * fan^levels: 8 B .. 1 MiB, around the 64 KiB limit of a channel element among them
				sizes := [][2]int{{1, 1}, {2, 16}, {3, 16}, {4, 16}, {3, 20}, {3, 21}, {4, 8}, {2, 90}, {2, 91}, {4, 19}}
				sz := sizes[int(rapid.Uint64().Draw(t, "bigtype")%uint64(len(sizes)))]
				b.WriteString(bigTypeDefs(sz[0], sz[1]))
				i++
				continue
			}
			if tmpl[i+1] == 'Z' {
				slot = int(rapid.Uint64().Draw(t, "slot") % uint64(len(slotDefs)))
				shrink := slotShrinks[int(rapid.Uint64().Draw(t, "shrink")%uint64(len(slotShrinks)))]
				b.WriteString(slotDefs[slot][0] + "\nfunc fz() { " + slotDefs[slot][1] + " = " + shrink + "; return 0 }")
				i++
				continue
			}
			if tmpl[i+1] == 'z' {
				b.WriteString(slotDefs[slot][1])
				i++
				continue
			}
			if tmpl[i+1] == 'W' || tmpl[i+1] == 'U' {
				// %W: a statement about a member / key (four times out of five the home holds a nil map), %U: about an
				// element position (four times out of five the home holds a nil or empty slice)
				want := "map"
				if tmpl[i+1] == 'U' {
					want = "slice"
				}
				home = int(rapid.Uint64().Draw(t, "home") % uint64(len(wbHomes)))
				if rapid.Uint64().Draw(t, "anyhome")%5 != 0 {
					for wbHomes[home][3] != want {
						home = (home + 1) % len(wbHomes)
					}
				}
				b.WriteString(wbHomes[home][0])
				c.Tags = append(c.Tags, "writeback", "writeback_home_"+wbHomes[home][2])
				i++
				continue
			}
			if tmpl[i+1] == 'v' {
				// a value to store: half of the time one that fits an int64 / map / slice element, else any operand
				if rapid.Bool().Draw(t, "fits") {
					b.WriteString(pickU(t, "fitting", wbValues))
				} else {
					b.WriteString(genOperand(t, 1))
				}
				i++
				continue
			}
			if tmpl[i+1] == 'w' {
				b.WriteString(wbHomes[home][1])
				i++
				continue
			}
			if tmpl[i+1] == 'P' {
				// a list of 8..20 function literals, each of 5..125 parameters (half of them with a variadic tail)
				k := 8 + int(rapid.Uint64().Draw(t, "nliterals")%13)
				var lits []string
				for j := 0; j < k; j++ {
					lits = append(lits, "func("+c.paramList(t, 5+int(rapid.Uint64().Draw(t, "nparams")%121))+") { return 1 }")
				}
				if rapid.Uint64().Draw(t, "long")%6 == 0 {
					// one literal of a count from longParamCounts at the end (the list is evaluated up to it)
					lits = append(lits, "func("+c.paramList(t, longParamCounts[int(rapid.Uint64().Draw(t, "nlong")%uint64(len(longParamCounts)))])+") { return 1 }")
				}
				c.Tags = append(c.Tags, "many-parameter-literals")
				b.WriteString("[" + strings.Join(lits, ", ") + "]")
				i++
				continue
			}
			if tmpl[i+1] == 'L' {
				// a long parameter list
				b.WriteString(c.paramList(t, longParamCounts[int(rapid.Uint64().Draw(t, "nlong")%uint64(len(longParamCounts)))]))
				i++
				continue
			}
			if tmpl[i+1] == 'p' {
				// a parameter list of 5..20 names (half of the time with a variadic tail)
				b.WriteString(c.paramList(t, 5+int(rapid.Uint64().Draw(t, "nparams")%16)))
				i++
				continue
			}
			if tmpl[i+1] == 'n' {
				b.WriteString(pickU(t, "numlike", numLike))
				i++
				continue
			}
			if tmpl[i+1] == '%' {
				b.WriteByte('%')
				i++
				continue
			}
		}
		b.WriteByte(tmpl[i])
	}
	return b.String()
}

// paramList gives n parameter names, half of the time with a variadic tail.
func (c *Case) paramList(t *rapid.T, n int) string {
	if n > 125 {
		// more parameters than reflect.FuncOf takes for a function built through it
		c.Tags = append(c.Tags, "function-of-126-or-more-parameters")
	}
	var ps []string
	for k := 0; k < n; k++ {
		ps = append(ps, fmt.Sprintf("q%d", k))
	}
	list := strings.Join(ps, ", ")
	if rapid.Bool().Draw(t, "variadic") {
		list += "..."
	}
	return list
}

// parameter counts around and far beyond what reflect.FuncOf takes (128 in and out values together)
var longParamCounts = []int{100, 124, 125, 126, 127, 128, 129, 200, 255, 256, 1000}

func genOperand(t *rapid.T, depth int) string {
	if depth > 0 && rapid.IntRange(0, 5).Draw(t, "nest") == 0 {
		// an operand that is itself a small template instance
		tm := rapid.SampledFrom([]string{"%s[%s]", "%s.A", "id(%s)", "[%s][0]", "(%s + %s)", "-%s", "*%s", "&%s", "%s(%s)", "(nil ?? %s)", "len(%s)"}).Draw(t, "ntmpl")
		var c Case
		_ = c
		var b strings.Builder
		for i := 0; i < len(tm); i++ {
			if tm[i] == '%' && i+1 < len(tm) && tm[i+1] == 's' {
				b.WriteString(genOperand(t, depth-1))
				i++
				continue
			}
			b.WriteByte(tm[i])
		}
		return b.String()
	}
	if rapid.IntRange(0, 9).Draw(t, "hot") < 3 {
		return pickU(t, "hotoperand", hotOperands)
	}
	return pickU(t, "operand", operands)
}

// operands that have been at the root of real crashes: typed nils, nil interfaces,
// pointers, invalid dereferences, huge sizes, structs with interface fields
var hotOperands = []string{"pl[0]", "il[0]", "n", "nil", "p", "ps", "*p", "&i", "st", "si", "mod", "ch", "uc", "fn", "l", "m", "tl", "tm", "s", "i",
	"9223372036854775807", "-9223372036854775808", "72057594037927936", "make([]*int64, 2)", "make(map[string]*int64)", "new(struct{A int64})", "[nil]", "id(nil)", "[p][0]", "make(*int64)", "ll[0]", "m.b", "ty", "*ty", "make(type T2, 1)", "make(type T3, l)", "(*ty).t", "make(uint64)", "make([]byte, 2)[0]", "[]uint64{1, 18446744073709551615}[1]", "make(int32)", "make(float32)"}

// number-like operands for the operator templates
var numLike = []string{"0", "1", "-1", "7", "0.5", "-0.5", "0.0", "-0.0", "2.5", "1e308", "1e-320", `"0"`, `"0.5"`, `"2.5"`, `"1e3"`, `"-0"`, `"0x10"`, `""`, `"a"`, `" 1"`, "true", "false", "nil",
	"9223372036854775807", "-9223372036854775808", "i", "f", "s", "make(uint64)", "make(float32)", "[]float32{0.5}[0]", "[]byte{255}[0]", "id(0.5)", "[0.5][0]", "toFloat(0)", "(0.0 / 0.0)", "(1 / 0.0)"}

// pickU draws an element without rapid's bias towards the head of the list (the draw is hashed),
// so that every template and operand gets its share.
func pickU(t *rapid.T, label string, xs []string) string {
	u := rapid.Uint64().Draw(t, label)
	u ^= u >> 30
	u *= 0xBF58476D1CE4E5B9
	u ^= u >> 27
	u *= 0x94D049BB133111EB
	u ^= u >> 31
	return xs[u%uint64(len(xs))]
}

func genTargeted(t *rapid.T) Case {
	c := Case{Kind: "targeted"}
	n := rapid.IntRange(1, 2).Draw(t, "nstmts")
	var parts []string
	for i := 0; i < n; i++ {
		parts = append(parts, c.fill(t, pickU(t, "template", templates)))
	}
	c.Src = wild.Prelude + strings.Join(parts, "\n")
	return c
}

// ---------- script goroutines that share one variable of an enclosing scope ----------

// genScopes builds programs in which two script goroutines share nothing but a variable (never a container): in
// every round a scope is entered, the variable dx is created in it (alone, or next to other symbols), and then one
// side keeps assigning to dx (from a nested scope, or in the scope itself) while the other side deletes dx (global
// or local form of delete, once or repeatedly). What the two sides touch together is the symbol table of the scope,
// which belongs to the interpreter.
var scopeForms = [][2]string{
	{"", ""}, // the body of the round loop itself
	{"if true { ", " }"},
	{"if false { } else { ", " }"},
	{"try { ", " } catch e { }"},
	{"try { throw 1 } catch e { ", " }"},
	{"try { } catch e { } finally { ", " }"},
	{"switch 1 { case 1: ", " }"},
	{"switch 1 { default: ", " }"},
	{"for cq in [1] { ", " }"},
	{"for cq = 0; cq < 1; cq++ { ", " }"},
	{"for { ", "; break }"},
}
var scopeExtras = []string{"", "", "dy = 1; ", "func dh() { return 1 }; ", "dy = 1; var du, dv = 1, 2; "}

// what the assigning side does, once per step
var scopeWrites = []string{"dx = ck", "dx = ck", "dx, dz = ck, 1", "dz, dx = 1, ck", "try { dx += 1 } catch e { }", "try { dx++ } catch e { }", "var dx = ck", "dx = %s", "if true { dx = ck }", "dx = dx ?? 0"}
var scopeDeletes = []string{"delete(\"dx\", true)", "delete(\"dx\", true)", "delete(\"dx\")", "for ci = 0; ci < 40; ci++ { delete(\"dx\", true) }", "delete(\"dx\", true); dx = 5; delete(\"dx\", true)", "delete(\"dx\", true); delete(\"dy\", true)"}

func genScopes(t *rapid.T) Case {
	c := Case{Kind: "scopes"}
	pick := func(label string, n int) int { return int(rapid.Uint64().Draw(t, label) % uint64(n)) }
	rounds := []int{15, 30, 60}[pick("rounds", 3)]
	steps := []int{100, 200, 400}[pick("steps", 3)]
	form := pick("form", len(scopeForms))
	extra := scopeExtras[pick("extra", len(scopeExtras))]
	write := c.fill(t, scopeWrites[pick("write", len(scopeWrites))])
	del := scopeDeletes[pick("delete", len(scopeDeletes))]
	init := c.fill(t, []string{"0", "0", "%s"}[pick("init", 3)])
	var body string
	switch role := pick("role", 4); role {
	case 0, 1:
		// the calling goroutine assigns from a loop nested in the scope, a script goroutine deletes
		c.Tags = append(c.Tags, "scopes_main-assigns-nested")
		body = fmt.Sprintf("go func() { %s }(); for ck = 0; ck < %d; ck++ { %s }", del, steps, write)
	case 2:
		// the calling goroutine assigns in the scope itself (straight-line statements), a script goroutine keeps deleting
		c.Tags = append(c.Tags, "scopes_main-assigns-inline")
		w := strings.ReplaceAll(write, "ck", "1")
		body = fmt.Sprintf("go func() { for ci = 0; ci < 60; ci++ { %s } }(); %s", del, strings.TrimSuffix(strings.Repeat(w+"; ", 12), "; "))
	default:
		// a script goroutine assigns, the calling goroutine deletes in the scope itself
		c.Tags = append(c.Tags, "scopes_goroutine-assigns")
		body = fmt.Sprintf("go func() { for ck = 0; ck < %d; ck++ { %s } }(); %s", steps/4, write, del)
	}
	if extra == "" {
		c.Tags = append(c.Tags, "scopes_single-symbol")
	} else {
		c.Tags = append(c.Tags, "scopes_several-symbols")
	}
	if strings.Contains(del, "\"dx\", true") {
		c.Tags = append(c.Tags, "scopes_delete-global-form")
	} else {
		c.Tags = append(c.Tags, "scopes_delete-local-form")
	}
	c.Src = wild.Prelude + fmt.Sprintf("for cn = 0; cn < %d; cn++ { %s%sdx = %s; %s%s }", rounds, scopeForms[form][0], extra, init, body, scopeForms[form][1])
	return c
}

var vocab = []string{
	"func", "return", "var", "throw", "if", "for", "break", "continue", "in", "else", "new", "true", "false", "nil", "module", "try", "catch", "finally",
	"switch", "case", "default", "go", "defer", "chan", "struct", "make", "type", "len", "delete", "close", "map", "import",
	"a", "i", "l", "m", "p", "ch", "fn", "0", "1", "1.5", "0x1F", "9223372036854775807", "\"s\"", "'s'", "`r`", "\"", "`",
	"+", "-", "*", "/", "%", "&", "|", "^", "!", "<", ">", "=", "==", "!=", "<=", ">=", "&&", "||", "++", "--", "+=", "<<", ">>", "<-", "?", "??", ":", ";", ",", ".", "...", "(", ")", "[", "]", "{", "}", "\n", " ", "#c\n", "\x00", "\xff", "é",
}

func genMutated(t *rapid.T) Case {
	switch rapid.IntRange(0, 5).Draw(t, "mkind") {
	case 0:
		return Case{Kind: "bytes", Src: string(rapid.SliceOfN(rapid.Byte(), 0, 40).Draw(t, "bytes"))}
	case 1, 2:
		n := rapid.IntRange(0, 14).Draw(t, "ntok")
		var b strings.Builder
		for i := 0; i < n; i++ {
			b.WriteString(rapid.SampledFrom(vocab).Draw(t, "tok"))
			b.WriteByte(' ')
		}
		pre := ""
		if rapid.Bool().Draw(t, "prelude") {
			pre = wild.Prelude
		}
		return Case{Kind: "soup", Src: pre + b.String()}
	default:
		body := []rune(wild.Program(t, wild.Opts{Loops: true, Go: true, HugeInts: true, MaxDepth: 2, MaxStmts: 3}))
		if len(body) > 0 {
			at := rapid.IntRange(0, len(body)-1).Draw(t, "at")
			switch rapid.IntRange(0, 3).Draw(t, "mut") {
			case 0:
				body = body[:at]
			case 1:
				end := at + rapid.IntRange(1, 6).Draw(t, "span")
				if end > len(body) {
					end = len(body)
				}
				body = append(append([]rune{}, body[:at]...), body[end:]...)
			case 2:
				ins := []rune(rapid.SampledFrom(vocab).Draw(t, "ins"))
				body = append(append(append([]rune{}, body[:at]...), ins...), body[at:]...)
			default:
				end := at + rapid.IntRange(1, 10).Draw(t, "span")
				if end > len(body) {
					end = len(body)
				}
				body = append(append(append([]rune{}, body[:end]...), body[at:end]...), body[end:]...)
			}
		}
		return Case{Kind: "mutated", Src: wild.Prelude + string(body)}
	}
}

func TestC01(t *testing.T) {
	c := h.New(t, "C01")
	defer c.Finish()
	defer func() {
		if theWorker != nil {
			theWorker.kill()
		}
	}()
	c.Rule(fmt.Sprintf("every case is parsed and run with Options{} (debug=false) in a sandbox worker process, in an environment of script-constructible values plus Go functions over such values (core builtins, id, a panicking function, typed/variadic/array/callback-taking functions, a small import table). targeted: %d statement templates (every assignment target form, empty right-hand sides, calls/go/defer with 0..n and spread arguments, for-in, switch, delete/close/send/receive, make/new with every type form incl. dotted paths, typed literals, import, every operator, index/slice/member, throw, op=) filled from %d operand expressions of every value kind and provenance; wild: whole programs from the full-grammar generator after a value-universe prelude; mutated: token soups, random bytes, truncations/deletions/insertions/duplications of valid programs; scopes: programs in which two script goroutines share nothing but one variable of an enclosing scope of every form (one side keeps assigning to it, the other deletes it). non-trivial = the source parsed and was executed (ok or run-time error); distinct by source text", len(templates), len(operands)))
	h.Run(c, "targeted", c.N(20000, 250000), genTargeted, oracle)
	h.Run(c, "wild", c.N(12000, 150000), genWild, oracle)
	h.Run(c, "mutated", c.N(8000, 100000), genMutated, oracle)
	h.Run(c, "scopes", c.N(300, 4000), genScopes, oracle)
	// eighth round (round8_test.go)
	c.Rule(fmt.Sprintf("slots: a string or a slice (6 content kinds) in a slot of %d forms (element of a typed slice, struct field, pointee, map entry, field of an element, element of an element, untyped / interface-typed places, variable, module member) and one or two statements of %d index / slice forms (open lower or upper bound, both bounds, three-index, chained, stores through an index or a slice, the slot as operand of calls / for-in / switch / send) in which an index operand is a call that stores something shorter, longer, empty, nil or of another kind into that very slot, or replaces the container the slot is in; at top level and inside if / loop / try / function / goroutine / deferred call / module. types: one to three types defined from values of every kind (a module, a Go function, an error, a type value among them), held in variables, lists, maps, struct fields, typed slices and channels of types, behind pointers; %d statement forms over type values of 40 forms (dereferenced, copied out of a list / map / call, for-in items, method results, inline definitions): %d method calls of reflect.Type with fitting and unfitting arguments, uses of their results, method values, go / defer, every operator, stores, and the type names in every type form", len(slotHomes), len(slotForms), len(typeForms), len(typeMethods)))
	h.Run(c, "slots", c.N(4000, 50000), genSlots, oracle)
	h.Run(c, "types", c.N(5000, 60000), genTypes, oracle)
}
