package c10

// Sub-check "nilmap": a nil map (the zero element of a made slice of maps, in a variable or still
// inside the slice) goes through a generated row of failing and succeeding operations. A failing
// operation - ill-typed value, ill-typed key, unhashable key - yields an error and leaves the map
// exactly as it was: still nil when it was nil, with the same entries otherwise. Reads, len and
// delete on a nil map behave like on an empty one and do not create it.

import (
	"strings"

	"github.com/mattn/anko/env"
	"pgregory.net/rapid"

	"verif/internal/ank"
	"verif/internal/h"
)

type NilMapCase struct {
	Kind string   `json:"kind"` // msi: map[string]int64 | mis: map[int64]string | mxx: map[interface]interface
	Held string   `json:"held"` // var: in a variable | elem: still an element of the made slice
	Ops  []string `json:"ops"`
}

var nilMapOps = []string{"bad_value", "bad_key", "unhashable_key", "read_missing", "len", "delete_missing", "delete_bad_key", "in_loop", "store_ok", "store_ok2", "bad_value", "bad_key"}

func genNilMap(t *rapid.T) NilMapCase {
	c := NilMapCase{
		Kind: rapid.SampledFrom([]string{"msi", "mis", "mxx"}).Draw(t, "kind"),
		Held: rapid.SampledFrom([]string{"var", "var", "elem"}).Draw(t, "held"),
	}
	for n := rapid.IntRange(1, 7).Draw(t, "nops"); n > 0; n-- {
		c.Ops = append(c.Ops, rapid.SampledFrom(nilMapOps).Draw(t, "op"))
	}
	return c
}

func oracleNilMap(c NilMapCase, o *h.Obs) *h.Fail {
	var typ, goodK, goodK2, goodV, goodV2, badK, badV string
	switch c.Kind {
	case "msi":
		typ, goodK, goodK2, goodV, goodV2, badK, badV = "map[string]int64", `"k"`, `"z"`, "1", "26", "[1]", `"x"`
	case "mis":
		typ, goodK, goodK2, goodV, goodV2, badK, badV = "map[int64]string", "1", "7", `"a"`, `"b"`, `"abc"`, "[1]"
	case "mxx":
		typ, goodK, goodK2, goodV, goodV2, badK, badV = "map[interface]interface", `"k"`, "2", "1", `"v"`, "", ""
	default:
		o.Excluded = "malformed_case"
		return nil
	}
	m := "nm"
	pre := "ms = make([]" + typ + ", 2)\nnm = ms[0]\n"
	if c.Held == "elem" {
		m = "ms[0]"
	}
	var sb strings.Builder
	sb.WriteString(pre + "obs = []\n")
	// expectation: nil-ness and entries
	isNil := true
	entries := map[string]string{}
	type exp struct {
		mustErr, eitherWay bool
		nilAfter          bool
		n                 int
	}
	var exps []exp
	for _, op := range c.Ops {
		var stmt string
		e := exp{}
		switch op {
		case "bad_value":
			if badV == "" {
				continue
			}
			stmt, e.mustErr = m+"["+goodK+"] = "+badV, true
		case "bad_key":
			if badK == "" {
				continue
			}
			stmt, e.mustErr = m+"["+badK+"] = "+goodV, true
		case "unhashable_key":
			stmt, e.mustErr = m+"[[1, 2]] = "+goodV, true
		case "read_missing":
			stmt = "x = " + m + "[" + goodK2 + "]"
			if _, has := entries[goodK2]; has {
				stmt = "x = " + m + "[" + goodK + "]"
			}
		case "len":
			stmt = "x = len(" + m + ")"
		case "delete_missing":
			stmt = "delete(" + m + ", " + goodK2 + ")"
			delete(entries, goodK2)
		case "delete_bad_key":
			if badK == "" {
				continue
			}
			stmt, e.mustErr = "delete("+m+", "+badK+")", true
		case "in_loop":
			stmt = "for k, v in " + m + " { x = k }"
		case "store_ok":
			// a store into a nil map: Go panics, anko creates the map; either is accepted
			stmt = m + "[" + goodK + "] = " + goodV
			e.eitherWay = isNil
			entries[goodK] = goodV
			isNil = false
		case "store_ok2":
			stmt = m + "[" + goodK2 + "] = " + goodV2
			e.eitherWay = isNil
			entries[goodK2] = goodV2
			isNil = false
		default:
			o.Excluded = "malformed_case"
			return nil
		}
		e.nilAfter, e.n = isNil, len(entries)
		exps = append(exps, e)
		sb.WriteString("er = false\ntry {\n " + stmt + "\n} catch e {\n er = true\n}\nobs += [[er, " + m + " == nil, len(" + m + ")]]\n")
	}
	sb.WriteString("obs")
	src := sb.String()
	o.Key = src
	failing := 0
	for _, e := range exps {
		if e.mustErr {
			failing++
		}
	}
	o.NonTrivial = failing >= 1
	o.Class("nilmap_" + c.Kind + "_" + c.Held)
	got, err := ank.Exec(newNilMapEnv(), src)
	if hp, ok := ank.IsHostPanic(err); ok {
		return h.Failf("C10|host-panic|nilmap|"+ank.NormPanic(hp.Value), "source:\n%s\nescaped panic: %v", src, hp.Value)
	}
	list, isList := got.([]interface{})
	if err != nil || !isList || len(list) != len(exps) {
		return h.Failf("C10|nilmap|unexpected-error", "source:\n%s\nerror: %v result: %s", src, err, ank.Describe(got))
	}
	adoptedCreated := false // a store into the nil map failed: the map stayed nil and empty
	for i, e := range exps {
		row, ok := list[i].([]interface{})
		if !ok || len(row) != 3 {
			return h.Failf("C10|nilmap|unexpected-error", "source:\n%s\nrow %d: %s", src, i, ank.Describe(list[i]))
		}
		er, _ := row[0].(bool)
		gotNil, _ := row[1].(bool)
		gotLen, _ := row[2].(int64)
		if e.eitherWay && er {
			// the implementation refuses stores into a nil map: from here on the row cannot be
			// predicted by this simple expectation
			adoptedCreated = true
		}
		if adoptedCreated {
			o.Class("nilmap_store_into_nil_map_refused")
			return nil
		}
		if e.mustErr && !er {
			return h.Failf("C10|nilmap|missing-error|"+c.Kind, "step %d (%s) must fail\nsource:\n%s\nobserved [error, is nil, len] per step: %s", i+1, c.Ops[i], src, ank.Describe(got))
		}
		if !e.mustErr && !e.eitherWay && er {
			return h.Failf("C10|nilmap|unexpected-error|"+c.Kind, "step %d (%s) must not fail\nsource:\n%s\nobserved: %s", i+1, c.Ops[i], src, ank.Describe(got))
		}
		if gotNil != e.nilAfter || int(gotLen) != e.n {
			return h.Failf("C10|nilmap|changed|"+c.Kind+"|"+c.Held, "after step %d (%s) the map must be nil=%v with %d entries; observed nil=%v len=%d (a failing or reading operation must leave it exactly as it was)\nsource:\n%s\nobserved [error, is nil, len] per step: %s", i+1, c.Ops[i], e.nilAfter, e.n, gotNil, gotLen, src, ank.Describe(got))
		}
	}
	return nil
}

func newNilMapEnv() *env.Env { return env.NewEnv() }
