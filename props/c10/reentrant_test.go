package c10

// Sub-check "reentrant": the index or a bound of an index / slice expression is computed by a
// function that, on the way, replaces the very container being indexed (shrinks it in place, swaps
// in a shorter or longer one). The statement does not say whether such an operation addresses the
// container as it was before or after the index was computed, so both readings are admitted; what it
// does say is that the operation reads exactly the addressed elements or yields an error: the result
// must be the one of Go's operation on the old or on the new container, or an error - never a Go
// panic, never elements of neither.

import (
	"fmt"
	"strings"

	"github.com/mattn/anko/env"
	"pgregory.net/rapid"

	"verif/internal/ank"
	"verif/internal/h"
)

type ReentrantCase struct {
	Slot string  `json:"slot"` // elem2 (a[0] of a [][]int64) | field (st.C of a struct with a []int64 field) | ielem (l[0] of an untyped list of lists) | var (a plain variable)
	Old  []int64 `json:"old"`
	New  string  `json:"new"`  // how the function replaces the slot: shrink (x[:k], same storage) | fresh (a new shorter list) | empty | grow
	K    int     `json:"k"`    // shrink: new length
	Form string  `json:"form"` // idx | lo | hi | lohi_lo | lohi_hi | cap
	Ret  int64   `json:"ret"`  // what the function returns (the index / bound)
	Oth  int64   `json:"oth"`  // the other, constant bound of the two-bound forms
}

func genReentrant(t *rapid.T) ReentrantCase {
	n := rapid.IntRange(1, 5).Draw(t, "oldlen")
	c := ReentrantCase{Slot: rapid.SampledFrom([]string{"elem2", "field", "ielem", "var"}).Draw(t, "slot")}
	for i := 0; i < n; i++ {
		c.Old = append(c.Old, int64(10*(i+1)))
	}
	c.New = rapid.SampledFrom([]string{"shrink", "fresh", "fresh", "empty", "empty", "grow"}).Draw(t, "new")
	c.K = rapid.IntRange(0, n).Draw(t, "k")
	c.Form = rapid.SampledFrom([]string{"idx", "lo", "lo", "hi", "lohi_lo", "lohi_hi", "cap"}).Draw(t, "form")
	c.Ret = int64(rapid.IntRange(0, n+1).Draw(t, "ret"))
	c.Oth = int64(rapid.IntRange(0, n+1).Draw(t, "oth"))
	return c
}

func listSrc(xs []int64, typed bool) string {
	parts := make([]string, len(xs))
	for i, x := range xs {
		parts[i] = fmt.Sprint(x)
	}
	if typed {
		return "[]int64{" + strings.Join(parts, ", ") + "}"
	}
	return "[" + strings.Join(parts, ", ") + "]"
}

// goOp applies the operation to a Go slice; ok=false when Go would panic (out of range).
func goOp(xs []int64, c ReentrantCase) (res string, ok bool) {
	defer func() {
		if recover() != nil {
			res, ok = "", false
		}
	}()
	r, o := int(c.Ret), int(c.Oth)
	switch c.Form {
	case "idx":
		return fmt.Sprint(xs[r]), true
	case "lo":
		return fmt.Sprint(xs[r:]), true
	case "hi":
		return fmt.Sprint(xs[:r]), true
	case "lohi_lo":
		return fmt.Sprint(xs[r:o]), true
	case "lohi_hi":
		return fmt.Sprint(xs[o:r]), true
	default:
		return fmt.Sprint(xs[o:r:r]), true
	}
}

func oracleReentrant(c ReentrantCase, o *h.Obs) *h.Fail {
	n := len(c.Old)
	if n < 1 || n > 8 || c.K < 0 || c.K > n || c.Ret < 0 || c.Ret > int64(n)+2 || c.Oth < 0 || c.Oth > int64(n)+2 {
		o.Excluded = "malformed_case"
		return nil
	}
	var newVals []int64
	var newSrc func(slot string) string
	switch c.New {
	case "shrink":
		newVals = append([]int64{}, c.Old[:c.K]...)
		newSrc = func(slot string) string { return fmt.Sprintf("%s[:%d]", slot, c.K) }
	case "fresh":
		newVals = []int64{7}
		newSrc = func(string) string { return "[7]" }
	case "empty":
		newVals = []int64{}
		newSrc = func(string) string { return "[]" }
	case "grow":
		newVals = append(append([]int64{}, c.Old...), 1, 2, 3)
		newSrc = func(slot string) string { return slot + " + [1, 2, 3]" }
	default:
		o.Excluded = "malformed_case"
		return nil
	}
	var pre, slot string
	typed := false
	switch c.Slot {
	case "elem2":
		typed = true
		pre, slot = "a = make([][]int64, 1)\na[0] = "+listSrc(c.Old, true)+"\n", "a[0]"
	case "field":
		typed = true
		pre, slot = "st = make(struct{C []int64})\nst.C = "+listSrc(c.Old, true)+"\n", "st.C"
	case "ielem":
		pre, slot = "l = ["+listSrc(c.Old, false)+"]\n", "l[0]"
	case "var":
		pre, slot = "v = "+listSrc(c.Old, false)+"\n", "v"
	default:
		o.Excluded = "malformed_case"
		return nil
	}
	ns := newSrc(slot)
	if typed {
		ns = strings.Replace(strings.Replace(ns, "[7]", "[]int64{7}", 1), "+ [1, 2, 3]", "+ []int64{1, 2, 3}", 1)
		if ns == "[]" {
			ns = "[]int64{}"
		}
	}
	var expr string
	switch c.Form {
	case "idx":
		expr = slot + "[sh()]"
	case "lo":
		expr = slot + "[sh():]"
	case "hi":
		expr = slot + "[:sh()]"
	case "lohi_lo":
		expr = fmt.Sprintf("%s[sh():%d]", slot, c.Oth)
	case "lohi_hi":
		expr = fmt.Sprintf("%s[%d:sh()]", slot, c.Oth)
	case "cap":
		expr = fmt.Sprintf("%s[%d:sh():sh2()]", slot, c.Oth)
	default:
		o.Excluded = "malformed_case"
		return nil
	}
	src := pre + fmt.Sprintf("func sh() {\n\t%s = %s\n\treturn %d\n}\nfunc sh2() {\n\treturn %d\n}\nr = %s\n\"\" + r", slot, ns, c.Ret, c.Ret, expr)
	// toString of the result is compared with Go's fmt.Sprint of the reference result
	src = strings.Replace(src, "\"\" + r", "toString(r)", 1)
	o.Key = src
	o.NonTrivial = true
	o.Class("reentrant:" + c.Slot + "_" + c.New + "_" + c.Form)
	e := env.NewEnv()
	e.Define("toString", func(v interface{}) string { return fmt.Sprint(v) })
	got, err := ank.Exec(e, src)
	if hp, ok := ank.IsHostPanic(err); ok {
		return h.Failf("C10|reentrant|host-panic|"+c.Form, "the index / bound is computed by a function that replaces the container being addressed\nsource:\n%s\nescaped panic: %v", src, hp.Value)
	}
	if err != nil {
		o.Class("reentrant:error")
		return nil
	}
	gs, _ := got.(string)
	oldRes, oldOK := goOp(c.Old, c)
	newRes, newOK := goOp(newVals, c)
	if c.New == "shrink" && c.Form != "idx" {
		// a shrunk view still has the old capacity: Go slices it up to that capacity
		full := append([]int64{}, c.Old...)
		view := full[:c.K]
		newRes, newOK = goOp(view, c)
	}
	switch {
	case oldOK && gs == oldRes:
		o.Class("reentrant:reads_the_container_as_it_was")
	case newOK && gs == newRes:
		o.Class("reentrant:reads_the_replaced_container")
	default:
		return h.Failf("C10|reentrant|wrong-elements|"+c.Form, "the index / bound is computed by a function that replaces the container being addressed; the result is neither what Go's operation gives on the container as it was (%s, in range: %v) nor on the replaced one (%s, in range: %v), and no error was raised\nsource:\n%s\nanko: %s", oldRes, oldOK, newRes, newOK, src, gs)
	}
	return nil
}
