package c10

import (
	"math"

	"pgregory.net/rapid"
)

// ---------- value pools ----------

var intPool = []int64{0, 1, 2, 3, 7, -1, 65, 97, 4096, 1 << 31, math.MaxInt64, math.MinInt64}
var floatPool = []float64{0.5, 1.5, 2.7, -2.7, 3, 1e6, 65.9}
var strPool = []string{"", "a", "b", "x", "ab", "A", "héllo", "日本", "k"}
var keyStrPool = []string{"a", "b", "k", "A", "zz"}

// unbiased draws an index in [0,n): rapid's integer generators favour small and boundary
// values, which would distort the weights below, so a full-width draw is mixed first
// (0 stays 0, so shrinking still moves towards the first alternative).
func unbiased(t *rapid.T, label string, n int) int {
	x := rapid.Uint64().Draw(t, label)
	x *= 0x9E3779B97F4A7C15
	x ^= x >> 32
	x *= 0xD6E8FEB86659FD93
	x ^= x >> 32
	return int(x % uint64(n))
}

func pick[T any](t *rapid.T, label string, xs ...T) T {
	return xs[unbiased(t, label, len(xs))]
}

// weighted choice: pairs of (weight, name)
func choose(t *rapid.T, label string, pairs ...interface{}) string {
	total := 0
	for i := 0; i < len(pairs); i += 2 {
		total += pairs[i].(int)
	}
	n := unbiased(t, label, total)
	for i := 0; i < len(pairs); i += 2 {
		n -= pairs[i].(int)
		if n < 0 {
			return pairs[i+1].(string)
		}
	}
	panic("unreachable")
}

func genInt(t *rapid.T) Val   { return Val{K: "i", I: pick(t, "int", intPool...)} }
func genFloat(t *rapid.T) Val { return Val{K: "f", F: pick(t, "float", floatPool...)} }
func genStr(t *rapid.T) Val   { return Val{K: "s", S: pick(t, "str", strPool...)} }

func genBasic(t *rapid.T) Val {
	switch choose(t, "basic", 4, "i", 2, "f", 3, "s", 1, "b", 1, "n") {
	case "i":
		return genInt(t)
	case "f":
		return genFloat(t)
	case "s":
		return genStr(t)
	case "b":
		return Val{K: "b", B: rapid.Bool().Draw(t, "bool")}
	}
	return Val{K: "n"}
}

func genList(t *rapid.T, depth int, elem func(*rapid.T) Val) Val {
	n := rapid.IntRange(0, 3).Draw(t, "listlen")
	v := Val{K: "l", L: make([]Val, n)}
	for i := range v.L {
		v.L[i] = elem(t)
	}
	return v
}

func genTyped(t *rapid.T, k string) Val {
	n := rapid.IntRange(0, 3).Draw(t, "tlen")
	v := Val{K: k, L: make([]Val, n)}
	for i := range v.L {
		switch k {
		case "ti":
			v.L[i] = genInt(t)
		case "tf":
			v.L[i] = genFloat(t)
		default:
			v.L[i] = genStr(t)
		}
	}
	return v
}

func genMapVal(t *rapid.T, typed bool) Val {
	n := rapid.IntRange(0, 2).Draw(t, "maplen")
	v := Val{K: "m"}
	if typed {
		v.K = "msi"
	}
	for i := 0; i < n; i++ {
		if typed {
			v.MK = append(v.MK, Val{K: "s", S: pick(t, "mk", keyStrPool...)})
			v.MV = append(v.MV, genInt(t))
			continue
		}
		switch choose(t, "mkk", 6, "s", 2, "i", 1, "f") {
		case "s":
			v.MK = append(v.MK, Val{K: "s", S: pick(t, "mk", keyStrPool...)})
		case "i":
			v.MK = append(v.MK, Val{K: "i", I: pick(t, "mki", int64(1), int64(2), int64(65))})
		default:
			v.MK = append(v.MK, Val{K: "f", F: 1.9})
		}
		v.MV = append(v.MV, genBasic(t))
	}
	return v
}

// genAny draws from the whole value universe.
func genAny(t *rapid.T, depth int) Val {
	if depth <= 0 {
		return genBasic(t)
	}
	switch choose(t, "any", 12, "basic", 3, "list", 1, "ti", 1, "tf", 1, "ts", 1, "m", 1, "msi") {
	case "basic":
		return genBasic(t)
	case "list":
		return genList(t, depth-1, func(t *rapid.T) Val { return genAny(t, depth-1) })
	case "ti":
		return genTyped(t, "ti")
	case "tf":
		return genTyped(t, "tf")
	case "ts":
		return genTyped(t, "ts")
	case "m":
		return genMapVal(t, false)
	}
	return genMapVal(t, true)
}

// genElemFor draws a value to store as ONE element / field of the given Go element
// kind: mostly of the right type, often one that needs a conversion, sometimes ill-typed.
//
//	ek: any int float string bool row (=[]int64) msi
func genElemFor(t *rapid.T, ek string) Val {
	switch ek {
	case "any":
		return genAny(t, 2)
	case "int":
		switch choose(t, "forint", 8, "i", 4, "f", 2, "s", 1, "b", 1, "n", 1, "l") {
		case "i":
			return genInt(t)
		case "f":
			return genFloat(t)
		case "s":
			return genStr(t)
		case "b":
			return Val{K: "b", B: true}
		case "n":
			return Val{K: "n"}
		}
		return genList(t, 0, genInt)
	case "float":
		switch choose(t, "forfloat", 6, "f", 5, "i", 2, "s", 1, "b", 1, "n") {
		case "f":
			return genFloat(t)
		case "i":
			return genInt(t)
		case "s":
			return genStr(t)
		case "b":
			return Val{K: "b", B: false}
		}
		return Val{K: "n"}
	case "string":
		switch choose(t, "forstr", 8, "s", 5, "i", 2, "f", 1, "b", 1, "n", 1, "l") {
		case "s":
			return genStr(t)
		case "i":
			return genInt(t)
		case "f":
			return genFloat(t)
		case "b":
			return Val{K: "b", B: true}
		case "n":
			return Val{K: "n"}
		}
		return genList(t, 0, genStr)
	case "bool":
		switch choose(t, "forbool", 6, "b", 2, "i", 1, "s", 1, "n", 1, "f") {
		case "b":
			return Val{K: "b", B: rapid.Bool().Draw(t, "bool")}
		case "i":
			return genInt(t)
		case "s":
			return genStr(t)
		case "f":
			return genFloat(t)
		}
		return Val{K: "n"}
	case "row":
		switch choose(t, "forrow", 6, "li", 3, "lmix", 3, "ti", 1, "tf", 1, "ts", 2, "i", 1, "n", 1, "s") {
		case "li":
			return genList(t, 0, genInt)
		case "lmix":
			return genList(t, 0, func(t *rapid.T) Val { return genElemFor(t, "int") })
		case "ti":
			return genTyped(t, "ti")
		case "tf":
			return genTyped(t, "tf")
		case "ts":
			return genTyped(t, "ts")
		case "i":
			return genInt(t)
		case "s":
			return genStr(t)
		}
		return Val{K: "n"}
	case "msi":
		switch choose(t, "formsi", 4, "msi", 4, "m", 1, "i", 1, "n", 1, "l") {
		case "msi":
			return genMapVal(t, true)
		case "m":
			return genMapVal(t, false)
		case "i":
			return genInt(t)
		case "l":
			return genList(t, 0, genInt)
		}
		return Val{K: "n"}
	}
	panic("bad elem kind " + ek)
}

// elemKind gives the element kind of a target kind (slot kind or st.<field>).
func elemKind(kind string) string {
	switch kind {
	case "us", "um":
		return "any"
	case "ti", "msi", "st.D", "st.E", "st.A":
		return "int"
	case "tf", "st.C":
		return "float"
	case "ts", "mis", "str", "st.B":
		return "string"
	case "tii":
		return "row"
	case "st.F":
		return "bool"
	}
	return "any"
}

// genAppendOperand draws the right operand of + / += for a slice target: a single
// element or a slice that is concatenated.
func genAppendOperand(t *rapid.T, kind string) Val {
	ek := elemKind(kind)
	if rapid.IntRange(0, 9).Draw(t, "concat?") < 5 {
		return genElemFor(t, ek) // single element (or, when it happens to be a list, a concatenation)
	}
	switch choose(t, "concat", 6, "list", 2, "ti", 1, "tf", 1, "ts") {
	case "list":
		return genList(t, 0, func(t *rapid.T) Val { return genElemFor(t, ek) })
	case "ti":
		return genTyped(t, "ti")
	case "tf":
		return genTyped(t, "tf")
	}
	return genTyped(t, "ts")
}

// ---------- indices ----------

func genIdx(t *rapid.T) *Idx {
	switch choose(t, "idx",
		14, "0", 11, "1", 5, "2", 11, "len-1", 5, "len-2", 10, "len", 5, "len+1", 5, "-1",
		4, "cap", 3, "cap+1", 2, "min", 2, "max", 2, "2^31", 4, "float", 3, "str", 2, "nil", 2, "list") {
	case "0":
		return &Idx{C: "abs", D: 0}
	case "1":
		return &Idx{C: "abs", D: 1}
	case "2":
		return &Idx{C: "abs", D: 2}
	case "len-1":
		return &Idx{C: "len", D: -1}
	case "len-2":
		return &Idx{C: "len", D: -2}
	case "len":
		return &Idx{C: "len"}
	case "len+1":
		return &Idx{C: "len", D: 1}
	case "-1":
		return &Idx{C: "abs", D: -1}
	case "cap":
		return &Idx{C: "cap"}
	case "cap+1":
		return &Idx{C: "cap", D: 1}
	case "min":
		return &Idx{C: "abs", D: math.MinInt64}
	case "max":
		return &Idx{C: "abs", D: math.MaxInt64}
	case "2^31":
		return &Idx{C: "abs", D: 1 << 31}
	case "float":
		return &Idx{C: "float", F: pick(t, "fidx", 1.9, 0.5, 2.5)}
	case "str":
		return &Idx{C: "str"}
	case "nil":
		return &Idx{C: "nil"}
	}
	return &Idx{C: "list"}
}

// genKey draws a map key for a map of the given kind.
func genKey(t *rapid.T, kind string) *Val {
	var v Val
	switch kind {
	case "um":
		switch choose(t, "umkey", 8, "s", 4, "i", 2, "f", 1, "b", 2, "n", 3, "l", 1, "m", 1, "ll", 2, "hs") {
		case "ll":
			v = Val{K: "l", L: []Val{{K: "l", L: []Val{{K: "i", I: 1}, {K: "i", I: 2}}}}}
		case "hs":
			v = Val{K: "hs"}
		case "s":
			v = Val{K: "s", S: pick(t, "ks", keyStrPool...)}
		case "i":
			v = Val{K: "i", I: pick(t, "ki", int64(1), int64(2), int64(65), int64(0))}
		case "f":
			v = Val{K: "f", F: pick(t, "kf", 1.9, 2.0)}
		case "b":
			v = Val{K: "b", B: true}
		case "n":
			v = Val{K: "n"}
		case "l":
			v = Val{K: "l", L: []Val{{K: "i", I: 1}}}
		default:
			v = Val{K: "m", MK: []Val{{K: "s", S: "a"}}, MV: []Val{{K: "i", I: 1}}}
		}
	case "mis":
		switch choose(t, "miskey", 9, "i", 3, "f", 2, "s", 1, "b", 1, "n", 1, "l", 1, "hs") {
		case "hs":
			v = Val{K: "hs"}
		case "i":
			v = Val{K: "i", I: pick(t, "ki", int64(1), int64(2), int64(65), int64(0), int64(-1))}
		case "f":
			v = Val{K: "f", F: pick(t, "kf", 1.9, 2.7, 65.9)}
		case "s":
			v = Val{K: "s", S: pick(t, "ks", keyStrPool...)}
		case "b":
			v = Val{K: "b", B: true}
		case "n":
			v = Val{K: "n"}
		default:
			v = Val{K: "l", L: []Val{{K: "i", I: 1}}}
		}
	default: // msi, st.E
		switch choose(t, "msikey", 10, "s", 3, "i", 1, "f", 1, "b", 1, "n", 1, "l", 1, "hs") {
		case "hs":
			v = Val{K: "hs"}
		case "s":
			v = Val{K: "s", S: pick(t, "ks", keyStrPool...)}
		case "i":
			v = Val{K: "i", I: pick(t, "ki", int64(65), int64(97), int64(1))}
		case "f":
			v = Val{K: "f", F: 1.9}
		case "b":
			v = Val{K: "b", B: true}
		case "n":
			v = Val{K: "n"}
		default:
			v = Val{K: "l", L: []Val{{K: "i", I: 1}}}
		}
	}
	// provenance of the key operand: literal, read from a container, returned by a function
	v.W = choose(t, "kwrap", 5, "", 3, "elem", 2, "id")
	return &v
}

// ---------- initial values ----------

// genInit draws the (re)creation of a slot. exact: typed literals only get elements of exactly
// the declared type (always succeeds); otherwise elements may need a conversion or be ill-typed.
func genInit(t *rapid.T, kind string, exact bool) Init {
	switch kind {
	case "str":
		return Init{How: "lit", S: pick(t, "inits", "hello", "abc", "", "a", "héllo", "日本語", "xy")}
	case "st", "st2":
		return Init{How: "make"}
	case "us", "ti", "ts", "tf", "tii":
		if rapid.IntRange(0, 9).Draw(t, "make?") < 3 {
			ln := rapid.IntRange(0, 3).Draw(t, "mlen")
			return Init{How: "make", Len: ln, Cap: ln + rapid.IntRange(0, 3).Draw(t, "mcap")}
		}
		n := rapid.IntRange(0, 4).Draw(t, "n")
		in := Init{How: "lit", Elems: make([]Val, n)}
		for i := range in.Elems {
			switch kind {
			case "us":
				in.Elems[i] = genAny(t, 1)
			case "ti":
				in.Elems[i] = genInt(t)
			case "ts":
				in.Elems[i] = genStr(t)
			case "tf":
				in.Elems[i] = genFloat(t)
			default:
				in.Elems[i] = genList(t, 0, genInt)
			}
			if !exact && kind != "us" {
				in.Elems[i] = genElemFor(t, elemKind(kind))
			}
		}
		return in
	case "um", "msi", "mis":
		if kind != "um" && rapid.IntRange(0, 9).Draw(t, "make?") < 2 {
			return Init{How: "make"}
		}
		n := rapid.IntRange(0, 3).Draw(t, "n")
		in := Init{How: "lit"}
		for i := 0; i < n; i++ {
			switch kind {
			case "um":
				switch choose(t, "ik", 6, "s", 2, "i", 1, "f", 1, "n") {
				case "s":
					in.MK = append(in.MK, Val{K: "s", S: pick(t, "ks", keyStrPool...)})
				case "i":
					in.MK = append(in.MK, Val{K: "i", I: pick(t, "ki", int64(1), int64(2), int64(65))})
				case "f":
					in.MK = append(in.MK, Val{K: "f", F: 1.9})
				default:
					in.MK = append(in.MK, Val{K: "n"})
				}
				in.MV = append(in.MV, genAny(t, 1))
			case "msi":
				in.MK = append(in.MK, Val{K: "s", S: pick(t, "ks", keyStrPool...)})
				in.MV = append(in.MV, genInt(t))
			default:
				in.MK = append(in.MK, Val{K: "i", I: pick(t, "ki", int64(1), int64(2), int64(65), int64(0))})
				in.MV = append(in.MV, genStr(t))
			}
			if !exact {
				in.MK[i] = *genKey(t, kind)
				if kind != "um" {
					in.MV[i] = genElemFor(t, elemKind(kind))
				}
			}
		}
		return in
	}
	panic("bad kind " + kind)
}

// ---------- steps ----------

var allKinds = []string{"us", "um", "str", "ti", "ts", "tf", "tii", "msi", "mis", "st"}

func isStructKind(kind string) bool { return kind == "st" || kind == "st2" }

func classOfKind(kind string) string {
	switch kind {
	case "us", "ti", "ts", "tf", "tii", "st.D":
		return "slice"
	case "um", "msi", "mis", "st.E":
		return "map"
	case "str", "st.B":
		return "str"
	case "st", "st2":
		return "struct"
	}
	return "scalar"
}

// slotKindOf gives the slot kind that holds values of a target kind (for destinations).
func slotKindOf(kind string) string {
	switch kind {
	case "st.D":
		return "ti"
	case "st.E":
		return "msi"
	case "st.B":
		return "str"
	}
	return kind
}

func sameKindSlots(kinds []string, kind string) []int {
	var out []int
	for i, k := range kinds {
		if k == slotKindOf(kind) {
			out = append(out, i)
		}
	}
	return out
}

// sliceSlots lists the slots usable as a variable right operand of + for a target kind:
// mostly slots of the same slice type, sometimes any slice slot (element conversion).
func sliceSlots(kinds []string, kind string) []int {
	same := sameKindSlots(kinds, kind)
	var all []int
	for i, k := range kinds {
		if classOfKind(k) == "slice" {
			all = append(all, i)
		}
	}
	if len(same) > 0 && len(all) > len(same) {
		// weight: same-type slots three times
		out := append([]int{}, all...)
		out = append(out, same...)
		return append(out, same...)
	}
	if len(same) > 0 {
		return same
	}
	return all
}

func genSliceForm(t *rapid.T, st *Step) {
	st.Form = choose(t, "sform", 8, "ij", 4, "i:", 4, ":j", 5, "ijk", 2, ":jk")
	switch st.Form {
	case "ij":
		st.I, st.J = genSliceLo(t), genSliceHi(t)
	case "i:":
		st.I = genSliceLo(t)
	case ":j":
		st.J = genSliceHi(t)
	case "ijk":
		st.I, st.J, st.K = genSliceLo(t), genSliceHi(t), genSliceMax(t)
	default:
		st.J, st.K = genSliceHi(t), genSliceMax(t)
	}
}

// slice operands are biased so that low <= high <= max happens often
func genSliceLo(t *rapid.T) *Idx {
	if rapid.IntRange(0, 9).Draw(t, "lo?") < 6 {
		return pick(t, "lo", &Idx{C: "abs", D: 0}, &Idx{C: "abs", D: 1}, &Idx{C: "abs", D: 0}, &Idx{C: "len", D: -1}, &Idx{C: "len"})
	}
	return genIdx(t)
}

func genSliceHi(t *rapid.T) *Idx {
	if rapid.IntRange(0, 9).Draw(t, "hi?") < 6 {
		return pick(t, "hi", &Idx{C: "len"}, &Idx{C: "len", D: -1}, &Idx{C: "abs", D: 1}, &Idx{C: "abs", D: 2}, &Idx{C: "len"}, &Idx{C: "len", D: 1})
	}
	return genIdx(t)
}

func genSliceMax(t *rapid.T) *Idx {
	if rapid.IntRange(0, 9).Draw(t, "max?") < 7 {
		return pick(t, "max", &Idx{C: "cap"}, &Idx{C: "len"}, &Idx{C: "cap", D: 1}, &Idx{C: "len", D: -1}, &Idx{C: "cap"}, &Idx{C: "len", D: 1})
	}
	return genIdx(t)
}

// genStep draws one operation for a target of the given kind (slot kind or st.<field>).
func genStep(t *rapid.T, kinds []string, slot int, fld string) Step {
	kind := kinds[slot]
	if fld != "" {
		kind = "st." + fld
	}
	st := Step{T: slot, Fld: fld, W: -1}
	dests := sameKindSlots(kinds, kind)
	pickDest := func() int {
		if len(dests) == 0 {
			return -1
		}
		return dests[rapid.IntRange(0, len(dests)-1).Draw(t, "dest")]
	}
	plain := fld == ""
	switch classOfKind(kind) {
	case "slice":
		op := choose(t, "sop", 4, "swap", 13, "read", 17, "write", 16, "app", 15, "slice", 4, "len", 6, "in", 9, "alias", 9, "call", 3, "new", 1, "mread", 1, "mwrite", 1, "del")
		if !plain && (op == "alias" || op == "call" || op == "new") {
			op = "write"
		}
		st.Op = op
		switch op {
		case "swap":
			st.I = &Idx{C: "abs", D: int64(unbiased(t, "swapi", 3))}
			st.J = &Idx{C: "abs", D: int64(unbiased(t, "swapj", 3))}
		case "read":
			st.I = genIdx(t)
		case "write":
			st.I = genIdx(t)
			v := genElemFor(t, elemKind(kind))
			st.V = &v
		case "app":
			v := genAppendOperand(t, kind)
			st.V = &v
			st.Form = "+="
			if rapid.IntRange(0, 9).Draw(t, "=+?") < 4 {
				if d := pickDest(); d >= 0 {
					st.Form, st.W = "=+", d
				}
			}
			// right operand = another live slice variable (Go: append(left, right...))
			if rs := sliceSlots(kinds, kind); len(rs) > 0 && unbiased(t, "varop?", 10) < 4 {
				r := rs[unbiased(t, "rslot", len(rs))]
				st.R = &r
				// ... appended to a fresh empty left operand: `w = [] + v`, `w = make(T, 0) + v`
				if plain && unbiased(t, "emptyleft?", 10) < 5 {
					if d := pickDest(); d >= 0 {
						st.Form, st.W = "=+", d
						st.LE = choose(t, "le", 4, "lit", 3, "make0", 2, "makecap")
					}
				}
			}
		case "slice":
			genSliceForm(t, &st)
			if rapid.IntRange(0, 9).Draw(t, "bind?") < 8 {
				st.W = pickDest()
			}
		case "in":
			v := genElemFor(t, elemKind(kind))
			if v.K == "m" || v.K == "msi" {
				v = Val{K: "i", I: 1}
			}
			if rapid.Bool().Draw(t, "likely") {
				// values that are likely present (zero values of make, small pool heads)
				switch elemKind(kind) {
				case "int":
					v = Val{K: "i", I: pick(t, "inint", int64(0), int64(1), int64(65))}
				case "float":
					v = Val{K: "f", F: pick(t, "infloat", 0.5, 2.7)}
				case "string":
					v = Val{K: "s", S: pick(t, "instr", "", "a", "A")}
				case "any":
					v = pick(t, "inany", Val{K: "n"}, Val{K: "i", I: 0}, Val{K: "i", I: 1}, Val{K: "s", S: "a"}, Val{K: "s", S: ""}, Val{K: "b", B: true})
				}
			}
			st.V = &v
		case "alias":
			st.W = pickDest()
		case "call":
			st.Form = choose(t, "cform", 5, "set", 5, "app")
			if st.Form == "set" && kind == "us" && unbiased(t, "spreadform?", 3) == 0 {
				st.Form = "setv"
			}
			if st.Form == "set" || st.Form == "setv" {
				st.I = genIdx(t)
				v := genElemFor(t, elemKind(kind))
				st.V = &v
			} else {
				v := genAppendOperand(t, kind)
				st.V = &v
				if rs := sliceSlots(kinds, kind); len(rs) > 0 && unbiased(t, "varop?", 10) < 3 {
					r := rs[unbiased(t, "rslot", len(rs))]
					st.R = &r
				}
			}
		case "new":
			in := genInit(t, kind, rapid.Bool().Draw(t, "exact"))
			st.Init = &in
		case "mread":
			st.Name = "a"
		case "mwrite":
			st.Name = "a"
			st.V = &Val{K: "i", I: 1}
		case "del":
			st.Key = &Val{K: "i", I: 0}
		}
	case "map":
		op := choose(t, "mop", 20, "read", 24, "write", 14, "del", 5, "len", 8, "mread", 8, "mwrite", 7, "alias", 10, "call", 2, "new", 2, "slice")
		if !plain && (op == "alias" || op == "call" || op == "new") {
			op = "write"
		}
		st.Op = op
		switch op {
		case "read":
			st.Key = genKey(t, kind)
		case "write":
			st.Key = genKey(t, kind)
			v := genElemFor(t, elemKind(kind))
			st.V = &v
		case "del":
			st.Key = genKey(t, kind)
		case "mread":
			st.Name = pick(t, "name", keyStrPool...)
		case "mwrite":
			st.Name = pick(t, "name", keyStrPool...)
			v := genElemFor(t, elemKind(kind))
			st.V = &v
		case "alias":
			st.W = pickDest()
		case "call":
			st.Form = choose(t, "cform", 6, "set", 4, "del")
			st.Key = genKey(t, kind)
			if st.Form == "set" {
				v := genElemFor(t, elemKind(kind))
				st.V = &v
			}
		case "new":
			in := genInit(t, kind, rapid.Bool().Draw(t, "exact"))
			st.Init = &in
		case "slice":
			st.Form, st.I, st.J = "ij", &Idx{C: "abs", D: 0}, &Idx{C: "abs", D: 1}
		}
	case "str":
		op := choose(t, "strop", 20, "read", 20, "write", 10, "app", 20, "slice", 8, "len", 8, "alias", 4, "new", 2, "mread", 2, "mwrite")
		if !plain && (op == "alias" || op == "new") {
			op = "read"
		}
		st.Op = op
		switch op {
		case "read":
			st.I = genIdx(t)
		case "write":
			st.I = genIdx(t)
			v := genElemFor(t, "string")
			st.V = &v
		case "app":
			v := genStr(t)
			st.V = &v
			st.Form = "+="
			if plain && rapid.IntRange(0, 9).Draw(t, "=+?") < 3 {
				if d := pickDest(); d >= 0 {
					st.Form, st.W = "=+", d
				}
			}
		case "slice":
			genSliceForm(t, &st)
			if st.Form == "ijk" || st.Form == ":jk" {
				// 3-index slicing of a string is an error; keep it rare
				if rapid.IntRange(0, 3).Draw(t, "keep3") > 0 {
					st.Form, st.K = "ij", nil
					if st.I == nil {
						st.I = &Idx{C: "abs", D: 0}
					}
				}
			}
			if rapid.IntRange(0, 9).Draw(t, "bind?") < 5 {
				st.W = pickDest()
			}
		case "alias":
			st.W = pickDest()
		case "new":
			in := genInit(t, kind, rapid.Bool().Draw(t, "exact"))
			st.Init = &in
		case "mread":
			st.Name = "a"
		case "mwrite":
			st.Name = "a"
			st.V = &Val{K: "i", I: 1}
		}
	case "struct":
		op := choose(t, "stop", 30, "mwrite", 22, "mread", 2, "len", 2, "read", 2, "write", 1, "slice", 1, "del", 1, "new")
		st.Op = op
		switch op {
		case "mwrite":
			st.Name = choose(t, "fname", 4, "A", 4, "B", 3, "C", 5, "D", 4, "E", 3, "F", 2, "Z", 1, "a")
			ek := "any"
			if len(st.Name) == 1 && st.Name >= "A" && st.Name <= "F" {
				switch st.Name {
				case "A":
					ek = "int"
				case "B":
					ek = "string"
				case "C":
					ek = "float"
				case "D":
					ek = "row"
				case "E":
					ek = "msi"
				case "F":
					ek = "bool"
				}
			}
			v := genElemFor(t, ek)
			st.V = &v
		case "mread":
			st.Name = choose(t, "fname", 4, "A", 4, "B", 3, "C", 4, "D", 4, "E", 3, "F", 2, "Z", 1, "a")
		case "read":
			st.I = &Idx{C: "abs", D: 0}
		case "write":
			st.I = &Idx{C: "abs", D: 0}
			st.V = &Val{K: "i", I: 1}
		case "slice":
			st.Form, st.I, st.J = "ij", &Idx{C: "abs", D: 0}, &Idx{C: "abs", D: 0}
		case "del":
			st.Key = &Val{K: "s", S: "A"}
		case "new":
			in := genInit(t, kind, rapid.Bool().Draw(t, "exact"))
			st.Init = &in
		}
	default: // scalar field: every container operation on it is ill-typed
		op := choose(t, "scop", 3, "read", 3, "write", 2, "len", 2, "slice", 1, "mread", 1, "mwrite", 1, "del")
		if fld == "B" && op == "del" {
			op = "len"
		}
		st.Op = op
		switch op {
		case "read":
			st.I = &Idx{C: "abs", D: 0}
		case "write":
			st.I = &Idx{C: "abs", D: 0}
			st.V = &Val{K: "i", I: 1}
		case "slice":
			st.Form, st.I, st.J = "ij", &Idx{C: "abs", D: 0}, &Idx{C: "abs", D: 0}
		case "mread":
			st.Name = "a"
		case "mwrite":
			st.Name = "a"
			st.V = &Val{K: "i", I: 1}
		case "del":
			st.Key = &Val{K: "i", I: 0}
		}
	}
	if (st.Op == "alias") && st.W < 0 {
		st.Op = "len"
	}
	return st
}

func genCase(t *rapid.T) Case {
	primary := choose(t, "primary", 24, "us", 9, "um", 8, "str", 12, "ti", 6, "ts", 5, "tf", 8, "tii", 8, "msi", 6, "mis", 14, "st")
	var kinds []string
	n := rapid.IntRange(2, 3).Draw(t, "nprimary")
	if primary == "st" {
		n = rapid.IntRange(1, 2).Draw(t, "nstruct")
	}
	for i := 0; i < n; i++ {
		kinds = append(kinds, primary)
	}
	if primary == "st" && n == 2 && rapid.Bool().Draw(t, "secondstructtype") {
		// a second anonymous struct type with the same field names at other positions
		kinds[1] = "st2"
	}
	if primary == "st" {
		// destinations for slices of s.D, s.B
		kinds = append(kinds, "ti")
		if rapid.Bool().Draw(t, "strslot") {
			kinds = append(kinds, "str")
		}
	}
	extra := rapid.IntRange(0, 2).Draw(t, "nextra")
	for i := 0; i < extra && len(kinds) < 6; i++ {
		kinds = append(kinds, pick(t, "extra", allKinds...))
	}
	c := Case{Kinds: kinds}
	for _, k := range kinds {
		c.Inits = append(c.Inits, genInit(t, k, true))
	}
	nsteps := rapid.IntRange(3, 25).Draw(t, "nsteps")
	for i := 0; i < nsteps; i++ {
		// targets: mostly the primary slots
		var slot int
		if rapid.IntRange(0, 9).Draw(t, "primslot?") < 8 {
			slot = rapid.IntRange(0, n-1).Draw(t, "pslot")
		} else {
			slot = rapid.IntRange(0, len(kinds)-1).Draw(t, "slot")
		}
		fld := ""
		if isStructKind(kinds[slot]) && rapid.IntRange(0, 9).Draw(t, "field?") < 6 {
			fld = choose(t, "fld", 8, "D", 6, "E", 4, "B", 1, "A", 1, "C", 1, "F")
		}
		c.Steps = append(c.Steps, genStep(t, kinds, slot, fld))
		// a run of stores at index len on one slice (a plain variable, or the slice field of a struct): every
		// one of them appends, whether or not the storage still had room
		if k := kinds[slot]; (k == "ti" || isStructKind(k)) && unbiased(t, "apprun?", 12) == 0 {
			f := ""
			if isStructKind(k) {
				f = "D"
			}
			for r := 3 + unbiased(t, "apprunlen", 5); r > 0; r-- {
				v := Val{K: "i", I: int64(100 + r)}
				c.Steps = append(c.Steps, Step{Op: "write", T: slot, Fld: f, W: -1, I: &Idx{C: "len"}, V: &v})
			}
			c.Steps = append(c.Steps, Step{Op: "len", T: slot, Fld: f, W: -1})
		}
	}
	return c
}
