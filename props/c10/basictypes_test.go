package c10

// Sub-check "basictypes": typed containers and struct fields over EVERY basic type name of the
// language (bool, string, int, int32, int64, uint, uint32, uint64, byte, rune, float32, float64,
// interface), not only the three (int64, float64, string) the histories use. The statement says such
// a container "only ever hold[s] values of [its] declared type: a store converts the value as Go
// would or fails with an error leaving the old content". The declared type of a container spelled
// []uint32 is Go's []uint32 (the type names are Go's own, byte = uint8, rune = int32), and "as Go
// would" is reflect's Convert between the two Go types - both references come from Go, none from
// the implementation.
//
// Left open (never executed, counted): a float whose truncation does not fit the integer target, a
// float64 beyond the float32 range (Go: implementation-dependent result); a string of at most one
// character stored into byte / rune (Go has no such conversion, anko converts the character: an
// extension the statement neither grants nor describes). nil into a typed slot may fail or store the
// zero value, as in the histories.

import (
	"fmt"
	"math"
	"reflect"
	"strings"
	"unicode/utf8"

	"github.com/mattn/anko/env"
	"github.com/mattn/anko/parser"
	"pgregory.net/rapid"

	"verif/internal/ank"
	"verif/internal/h"
	"verif/internal/vals"
)

// basicGoType: what each basic type name of the language denotes in Go.
var basicGoType = map[string]reflect.Type{
	"bool":      reflect.TypeOf(false),
	"string":    reflect.TypeOf(""),
	"int":       reflect.TypeOf(int(0)),
	"int32":     reflect.TypeOf(int32(0)),
	"int64":     reflect.TypeOf(int64(0)),
	"uint":      reflect.TypeOf(uint(0)),
	"uint32":    reflect.TypeOf(uint32(0)),
	"uint64":    reflect.TypeOf(uint64(0)),
	"byte":      reflect.TypeOf(byte(0)),
	"rune":      reflect.TypeOf(rune(0)),
	"float32":   reflect.TypeOf(float32(0)),
	"float64":   reflect.TypeOf(float64(0)),
	"interface": tIface,
}

var basicNames = []string{"bool", "string", "int", "int32", "int64", "uint", "uint32", "uint64", "byte", "rune", "float32", "float64", "interface"}

// names usable as a typed origin `[]From{lit}[0]` and as a map key type
var basicConcrete = basicNames[:12]

// BTVal is an operand: a literal (i f s b n) or, with From set, that literal taken out of a typed
// slice literal of another basic type: `[]From{lit}[0]`.
type BTVal struct {
	K    string  `json:"k"`
	I    int64   `json:"i,omitempty"`
	F    float64 `json:"f,omitempty"`
	S    string  `json:"s,omitempty"`
	B    bool    `json:"b,omitempty"`
	From string  `json:"from,omitempty"`
}

// BTOp is one statement on the container v.
//
//	set:  v[I] = V (slices, rows) | v[Key] = V (string-keyed maps) | v[V2] = V (typed-key maps) | v.Key = V (struct)
//	app:  v += V
//	cat:  v = v + [Vs...] or v += [Vs...] (Form)
//	row:  v[I] = [Vs...] (rows)
//	read: the same places, as a bare expression
//	len:  len(v)
type BTOp struct {
	Op   string  `json:"op"`
	I    *Idx    `json:"i,omitempty"`
	Key  string  `json:"key,omitempty"`
	V    *BTVal  `json:"v,omitempty"`
	V2   *BTVal  `json:"v2,omitempty"`
	Vs   []BTVal `json:"vs,omitempty"`
	Form string  `json:"form,omitempty"`
}

// BTCase: one container of a shape over basic type T (and T2 for the second struct field).
//
//	smake make([]T, Len, Cap) | slit []T{Elems} | mmake make(map[string]T) | mlit map[string]T{"a": e, "b": e} |
//	kmake make(map[T]string) | struct make(struct{A T, B T2}) | rows make([][]T, 2)
type BTCase struct {
	Shape string  `json:"shape"`
	T     string  `json:"t"`
	T2    string  `json:"t2,omitempty"`
	Len   int     `json:"len,omitempty"`
	Cap   int     `json:"cap,omitempty"`
	Elems []BTVal `json:"elems,omitempty"`
	Ops   []BTOp  `json:"ops"`
}

var btInts = []int64{0, 1, 7, -1, 65, 97, 127, 128, 255, 256, 65535, 65536, 0xD800, 0x10FFFF, 0x110000,
	1<<31 - 1, 1 << 31, -(1 << 31) - 1, 1<<32 - 1, 1 << 32, 1<<32 + 1, 1<<32 + 7, 1<<53 + 1, math.MaxInt64, math.MinInt64}
var btFloats = []float64{0.5, 1.5, 2.7, -2.7, -0.5, 3, 255.9, 256.5, 0.1, 16777217, 4294967296, 4294967297.5, 1e10, -1e10, 1e19, 1e300}
var btStrs = []string{"", "a", "A", "ab", "é", "日", "日本", "x1"}

func genBTLit(t *rapid.T, want string) BTVal {
	k := want
	if k == "" {
		k = choose(t, "btk", 8, "i", 4, "f", 3, "s", 2, "b", 1, "n")
	}
	switch k {
	case "i":
		return BTVal{K: "i", I: pick(t, "bti", btInts...)}
	case "f":
		return BTVal{K: "f", F: pick(t, "btf", btFloats...)}
	case "s":
		return BTVal{K: "s", S: pick(t, "bts", btStrs...)}
	case "b":
		return BTVal{K: "b", B: rapid.Bool().Draw(t, "btb")}
	}
	return BTVal{K: "n"}
}

// literal kind that is exactly of (or naturally converts to) a basic type
func litKindFor(name string) string {
	switch name {
	case "bool":
		return "b"
	case "string":
		return "s"
	case "float32", "float64":
		return "f"
	case "interface":
		return ""
	}
	return "i"
}

// genBTVal: an operand for a slot of basic type T: mostly a literal of any kind (so that conversions
// and refusals both happen), often the matching kind, sometimes a value of another basic type.
func genBTVal(t *rapid.T, T string) BTVal {
	switch choose(t, "btsrc", 6, "any", 5, "match", 4, "typed") {
	case "match":
		return genBTLit(t, litKindFor(T))
	case "typed":
		from := pick(t, "from", basicConcrete...)
		v := genBTLit(t, litKindFor(from))
		if rapid.IntRange(0, 3).Draw(t, "crosslit") == 0 {
			v = genBTLit(t, "i")
		}
		v.From = from
		return v
	}
	return genBTLit(t, "")
}

func genBTOps(t *rapid.T, c *BTCase) {
	n := rapid.IntRange(2, 7).Draw(t, "nops")
	sliceIdx := func() *Idx {
		switch choose(t, "btidx", 5, "0", 3, "1", 4, "len-1", 4, "len", 1, "len+1", 1, "-1") {
		case "0":
			return &Idx{C: "abs", D: 0}
		case "1":
			return &Idx{C: "abs", D: 1}
		case "len-1":
			return &Idx{C: "len", D: -1}
		case "len":
			return &Idx{C: "len"}
		case "len+1":
			return &Idx{C: "len", D: 1}
		}
		return &Idx{C: "abs", D: -1}
	}
	valsFor := func(T string) []BTVal {
		k := rapid.IntRange(0, 3).Draw(t, "nvs")
		out := make([]BTVal, k)
		for i := range out {
			out[i] = genBTVal(t, T)
		}
		return out
	}
	for i := 0; i < n; i++ {
		var op BTOp
		switch c.Shape {
		case "smake", "slit":
			op.Op = choose(t, "btsop", 8, "set", 5, "app", 4, "cat", 5, "read", 1, "len")
			switch op.Op {
			case "set":
				v := genBTVal(t, c.T)
				op.I, op.V = sliceIdx(), &v
			case "app":
				v := genBTVal(t, c.T)
				op.V = &v
			case "cat":
				op.Vs = valsFor(c.T)
				op.Form = pick(t, "catform", "=+", "+=")
			case "read":
				op.I = sliceIdx()
			}
		case "mmake", "mlit":
			op.Op = choose(t, "btmop", 8, "set", 5, "read", 1, "len")
			op.Key = pick(t, "btkey", "a", "b", "k")
			if op.Op == "set" {
				v := genBTVal(t, c.T)
				op.V = &v
			}
		case "kmake":
			op.Op = choose(t, "btkop", 8, "set", 5, "read", 1, "len")
			if op.Op != "len" {
				k := genBTVal(t, c.T)
				op.V2 = &k
			}
			if op.Op == "set" {
				op.V = &BTVal{K: "s", S: pick(t, "kval", "p", "q", "")}
			}
		case "struct":
			op.Op = choose(t, "btfop", 8, "set", 5, "read")
			op.Key = pick(t, "fld", "A", "A", "B")
			if op.Op == "set" {
				T := c.T
				if op.Key == "B" {
					T = c.T2
				}
				v := genBTVal(t, T)
				op.V = &v
			}
		case "rows":
			op.Op = choose(t, "btrop", 8, "row", 4, "read", 1, "len")
			op.I = pick(t, "rowidx", &Idx{C: "abs", D: 0}, &Idx{C: "abs", D: 1}, &Idx{C: "len"}, &Idx{C: "len", D: 1})
			if op.Op == "row" {
				op.Vs = valsFor(c.T)
			}
		}
		c.Ops = append(c.Ops, op)
	}
}

func genBasicTypes(t *rapid.T) BTCase {
	c := BTCase{
		Shape: choose(t, "btshape", 5, "smake", 4, "slit", 3, "mmake", 2, "mlit", 3, "kmake", 4, "struct", 2, "rows"),
		T:     pick(t, "T", basicNames...),
	}
	switch c.Shape {
	case "smake":
		c.Len = rapid.IntRange(0, 3).Draw(t, "len")
		c.Cap = c.Len + rapid.IntRange(0, 2).Draw(t, "cap")
	case "slit", "mlit":
		n := rapid.IntRange(0, 3).Draw(t, "nelems")
		if c.Shape == "mlit" && n > 2 {
			n = 2
		}
		for i := 0; i < n; i++ {
			c.Elems = append(c.Elems, genBTVal(t, c.T))
		}
	case "kmake":
		c.T = pick(t, "KT", basicConcrete...)
	case "struct":
		c.T2 = pick(t, "T2", basicNames...)
	}
	genBTOps(t, &c)
	return c
}

// ---------- rendering ----------

func (v BTVal) lit() string {
	switch v.K {
	case "i":
		return intSrc(v.I)
	case "f":
		return floatSrc(v.F)
	case "s":
		return vals.StrLit(v.S)
	case "b":
		if v.B {
			return "true"
		}
		return "false"
	}
	return "nil"
}

func (v BTVal) src() string {
	if v.From != "" {
		return "[]" + v.From + "{" + v.lit() + "}[0]"
	}
	return v.lit()
}

func (v BTVal) litValue() reflect.Value {
	switch v.K {
	case "i":
		return reflect.ValueOf(v.I)
	case "f":
		return reflect.ValueOf(v.F)
	case "s":
		return reflect.ValueOf(v.S)
	case "b":
		return reflect.ValueOf(v.B)
	}
	return reflect.Value{}
}

func (v BTVal) class() string {
	k := map[string]string{"i": "int64", "f": "float64", "s": "string", "b": "bool", "n": "nil"}[v.K]
	if v.From != "" {
		return v.From
	}
	return k
}

// ---------- Go's conversion between basic types ----------

type btStat int

const (
	btOK     btStat = iota
	btErr           // Go has no conversion: the store must fail
	btEither        // nil into a typed slot
	btOpen          // result not fixed by Go / by the statement: the step is not executed
)

func isIntKind(k reflect.Kind) bool  { return k >= reflect.Int && k <= reflect.Int64 }
func isUintKind(k reflect.Kind) bool { return k >= reflect.Uint && k <= reflect.Uintptr }
func isFloatKind(k reflect.Kind) bool {
	return k == reflect.Float32 || k == reflect.Float64
}

// convBasic converts x (invalid = nil) to the basic type t the way a Go conversion t(x) does.
func convBasic(x reflect.Value, t reflect.Type) (reflect.Value, btStat, string) {
	if t == tIface {
		out := reflect.New(tIface).Elem()
		if x.IsValid() {
			out.Set(x)
		}
		return out, btOK, ""
	}
	if !x.IsValid() {
		return reflect.Zero(t), btEither, ""
	}
	if x.Type() == t {
		return x, btOK, ""
	}
	xk, tk := x.Kind(), t.Kind()
	if isFloatKind(xk) && (isIntKind(tk) || isUintKind(tk)) {
		// Go: the fraction is discarded; a value that does not fit gives an implementation-dependent result
		tr := math.Trunc(x.Float())
		bits := t.Bits()
		if isIntKind(tk) {
			lim := math.Ldexp(1, bits-1)
			if !(tr >= -lim && tr < lim) {
				return reflect.Value{}, btOpen, "float_beyond_integer_range"
			}
		} else {
			if !(tr >= 0 && tr < math.Ldexp(1, bits)) {
				return reflect.Value{}, btOpen, "float_beyond_integer_range"
			}
		}
	}
	if xk == reflect.Float64 && tk == reflect.Float32 && math.Abs(x.Float()) > math.MaxFloat32 {
		return reflect.Value{}, btOpen, "float64_beyond_float32_range"
	}
	if xk == reflect.String && (tk == reflect.Uint8 || tk == reflect.Int32) {
		if utf8.RuneCountInString(x.String()) > 1 {
			// no conversion in Go, and more than one character is no character either
			return reflect.Value{}, btErr, ""
		}
		return reflect.Value{}, btOpen, "string_of_at_most_one_character_into_byte_or_rune"
	}
	if x.Type().ConvertibleTo(t) {
		return x.Convert(t), btOK, ""
	}
	return reflect.Value{}, btErr, ""
}

// resolve gives the value an operand has before it is stored: the literal, or the element of the
// typed slice literal it is taken from (itself a store into a typed container).
func (v BTVal) resolve() (reflect.Value, btStat, string) {
	x := v.litValue()
	if v.From == "" {
		return x, btOK, ""
	}
	y, st, why := convBasic(x, basicGoType[v.From])
	if st != btOK {
		// the operand expression itself fails or is open: not a store into v
		if why == "" {
			why = "typed_operand_literal_not_convertible"
		}
		return reflect.Value{}, btOpen, why
	}
	return y, btOK, ""
}

// convOperand: operand -> slot type.
func convOperand(v BTVal, t reflect.Type) (reflect.Value, btStat, string) {
	x, st, why := v.resolve()
	if st != btOK {
		return reflect.Value{}, st, why
	}
	return convBasic(x, t)
}

// convList converts the elements of an untyped list literal one by one.
func convList(vs []BTVal, t reflect.Type) ([]reflect.Value, btStat, string) {
	out := make([]reflect.Value, 0, len(vs))
	st := btOK
	for _, v := range vs {
		// an open operand anywhere leaves the whole statement open (decided before any error: the
		// order in which elements are converted is not specified either)
		if _, s, why := convOperand(v, t); s == btOpen {
			return nil, btOpen, why
		}
	}
	for _, v := range vs {
		e, s, _ := convOperand(v, t)
		if s == btErr {
			return nil, btErr, ""
		}
		if s == btEither {
			st = btEither
		}
		out = append(out, e)
	}
	return out, st, ""
}

// ---------- comparison: exact dynamic types, contents ----------

func eqBasic(a, b reflect.Value) bool {
	a, b = unwrap(a), unwrap(b)
	if !a.IsValid() || !b.IsValid() {
		return a.IsValid() == b.IsValid()
	}
	if a.Kind() == reflect.Struct && b.Kind() == reflect.Struct {
		if a.NumField() != b.NumField() {
			return false
		}
		for i := 0; i < a.NumField(); i++ {
			fa, fb := a.Type().Field(i), b.Type().Field(i)
			if fa.Name != fb.Name || fa.Type != fb.Type || !eqBasic(a.Field(i), b.Field(i)) {
				return false
			}
		}
		return true
	}
	if a.Type() != b.Type() {
		return false
	}
	k := a.Kind()
	switch {
	case k == reflect.Slice:
		if a.Len() != b.Len() {
			return false
		}
		for i := 0; i < a.Len(); i++ {
			if !eqBasic(a.Index(i), b.Index(i)) {
				return false
			}
		}
		return true
	case k == reflect.Map:
		if a.Len() != b.Len() {
			return false
		}
		it := a.MapRange()
		for it.Next() {
			bv := b.MapIndex(it.Key())
			if !bv.IsValid() || !eqBasic(it.Value(), bv) {
				return false
			}
		}
		return true
	case isIntKind(k):
		return a.Int() == b.Int()
	case isUintKind(k):
		return a.Uint() == b.Uint()
	case isFloatKind(k):
		return math.Float64bits(a.Float()) == math.Float64bits(b.Float())
	case k == reflect.String:
		return a.String() == b.String()
	case k == reflect.Bool:
		return a.Bool() == b.Bool()
	}
	return false
}

func describeRV(v reflect.Value) string {
	v = unwrap(v)
	if !v.IsValid() {
		return "nil"
	}
	return ank.Describe(v.Interface())
}

// ---------- oracle ----------

func oracleBasicTypes(c BTCase, o *h.Obs) *h.Fail {
	gt, ok := basicGoType[c.T]
	if !ok {
		o.Excluded = "invalid_case"
		return nil
	}
	var typ reflect.Type
	var typeSrc string
	switch c.Shape {
	case "smake", "slit":
		typ, typeSrc = reflect.SliceOf(gt), "[]"+c.T
	case "mmake", "mlit":
		typ, typeSrc = reflect.MapOf(tString, gt), "map[string]"+c.T
	case "kmake":
		if c.T == "interface" {
			o.Excluded = "invalid_case"
			return nil
		}
		typ, typeSrc = reflect.MapOf(gt, tString), "map["+c.T+"]string"
	case "struct":
		gt2, ok2 := basicGoType[c.T2]
		if !ok2 {
			o.Excluded = "invalid_case"
			return nil
		}
		typ = reflect.StructOf([]reflect.StructField{{Name: "A", Type: gt}, {Name: "B", Type: gt2}})
		typeSrc = "struct{A " + c.T + ", B " + c.T2 + "}"
	case "rows":
		typ, typeSrc = reflect.SliceOf(reflect.SliceOf(gt)), "[][]"+c.T
	default:
		o.Excluded = "invalid_case"
		return nil
	}
	if c.Len < 0 || c.Cap < c.Len || c.Cap > 16 || len(c.Elems) > 8 || len(c.Ops) > 16 {
		o.Excluded = "invalid_case"
		return nil
	}

	// creation
	mir := reflect.New(typ).Elem()
	var newSrc string
	newStat := btOK
	switch c.Shape {
	case "smake":
		newSrc = fmt.Sprintf("make(%s, %d, %d)", typeSrc, c.Len, c.Cap)
		mir.Set(reflect.MakeSlice(typ, c.Len, c.Cap))
	case "slit":
		parts := make([]string, len(c.Elems))
		for i, e := range c.Elems {
			parts[i] = e.src()
		}
		newSrc = typeSrc + "{" + strings.Join(parts, ", ") + "}"
		es, st, why := convList(c.Elems, gt)
		if st == btOpen {
			o.Excluded = "open:" + why
			return nil
		}
		newStat = st
		if st != btErr {
			s := reflect.MakeSlice(typ, len(es), len(es))
			for i, e := range es {
				s.Index(i).Set(e)
			}
			mir.Set(s)
		}
	case "mmake", "kmake":
		newSrc = "make(" + typeSrc + ")"
		mir.Set(reflect.MakeMap(typ))
	case "mlit":
		keys := []string{"a", "b"}
		if len(c.Elems) > 2 {
			o.Excluded = "invalid_case"
			return nil
		}
		parts := make([]string, len(c.Elems))
		for i, e := range c.Elems {
			parts[i] = vals.StrLit(keys[i]) + ": " + e.src()
		}
		newSrc = typeSrc + "{" + strings.Join(parts, ", ") + "}"
		es, st, why := convList(c.Elems, gt)
		if st == btOpen {
			o.Excluded = "open:" + why
			return nil
		}
		newStat = st
		if st != btErr {
			m := reflect.MakeMap(typ)
			for i, e := range es {
				m.SetMapIndex(reflect.ValueOf(keys[i]), e)
			}
			mir.Set(m)
		}
	case "struct":
		newSrc = "make(" + typeSrc + ")"
	case "rows":
		newSrc = "make(" + typeSrc + ", 2)"
		mir.Set(reflect.MakeSlice(typ, 2, 2))
	}

	e := env.NewEnv()
	var hist []string
	fail := func(sig, src, format string, args ...interface{}) *h.Fail {
		return h.Failf(sig, "history:\n%s\n>>> %s\n%s", strings.Join(hist, "\n"), src, fmt.Sprintf(format, args...))
	}
	seen := map[string]bool{}
	class := func(format string, args ...interface{}) {
		s := fmt.Sprintf(format, args...)
		if !seen[s] {
			seen[s] = true
			o.Class(s)
		}
	}
	class("bt:shape:%s", c.Shape)
	class("bt:type:%s", c.T)
	if c.Shape == "struct" {
		class("bt:type:%s", c.T2)
	}

	// compare the container held by the script with the mirror: declared type first, then contents
	compare := func(src string, onErr bool) *h.Fail {
		got, err := e.Get("v")
		if err != nil {
			return fail("C10|basictypes|state|missing", src, "variable v: %v", err)
		}
		gv := unwrap(reflect.ValueOf(got))
		clause := "state"
		if onErr {
			clause = "changed-on-error"
		}
		if !gv.IsValid() {
			return fail("C10|basictypes|"+clause+"|content|"+c.Shape, src, "model: %s\nanko: nil", describeRV(mir))
		}
		if typ.Kind() == reflect.Struct {
			if gv.Kind() != reflect.Struct || gv.NumField() != typ.NumField() {
				return fail("C10|basictypes|declared-type|struct", src, "declared %s\nanko holds %s", typeSrc, gv.Type())
			}
			for i := 0; i < typ.NumField(); i++ {
				if gf, wf := gv.Type().Field(i), typ.Field(i); gf.Name != wf.Name || gf.Type != wf.Type {
					name := c.T
					if i == 1 {
						name = c.T2
					}
					return fail("C10|basictypes|declared-type|"+name, src, "declared %s: field %s is Go's %s\nanko holds field %s of type %s", typeSrc, wf.Name, wf.Type, gf.Name, gf.Type)
				}
			}
		} else if gv.Type() != typ {
			return fail("C10|basictypes|declared-type|"+c.T, src, "declared %s is Go's %s\nanko holds a %s: %s", typeSrc, typ, gv.Type(), describeRV(gv))
		}
		if !eqBasic(gv, mir) {
			return fail("C10|basictypes|"+clause+"|content|"+c.Shape, src, "model: %s\nanko:  %s", describeRV(mir), describeRV(gv))
		}
		return nil
	}

	conversions, refusals := 0, 0
	// run executes one statement against an expectation
	//   st: btOK succeed | btErr must fail | btEither may fail
	run := func(opName, src string, st btStat, read *reflect.Value, apply func()) *h.Fail {
		got, err := ank.Exec(e, src)
		if _, isParse := err.(*parser.Error); isParse {
			return fail("C10|basictypes|generator|parse-error|"+opName, src, "parse error: %v", err)
		}
		if hp, isPanic := ank.IsHostPanic(err); isPanic {
			return fail("C10|basictypes|panic|"+opName+"|"+c.Shape, src, "escaped Go panic: %v", hp.Value)
		}
		outcome := "ok"
		switch {
		case st == btErr:
			if err == nil {
				return fail("C10|basictypes|missing-error|"+opName+"|"+c.Shape, src, "Go has no such conversion / the index is out of range -> error expected\nanko: no error, value %s", ank.Describe(got))
			}
			outcome = "err"
			refusals++
		case err != nil:
			if st != btEither {
				return fail("C10|basictypes|unexpected-error|"+opName+"|"+c.Shape, src, "model: the Go operation succeeds\nanko error: %v", err)
			}
			outcome = "either:err"
		default:
			if st == btEither {
				outcome = "either:ok"
			}
			if read != nil {
				gv := reflect.ValueOf(got)
				if !eqBasic(gv, *read) {
					return fail("C10|basictypes|read-value|"+opName+"|"+c.Shape, src, "model: %s\nanko:  %s", describeRV(*read), ank.Describe(got))
				}
			}
			if apply != nil {
				apply()
			}
		}
		o.Class("bt:op:%s:%s:%s", opName, c.Shape, outcome)
		hist = append(hist, src+"    // "+outcome)
		if opName == "new" && err != nil {
			return nil // the variable was never bound
		}
		return compare(src, err != nil)
	}

	if f := run("new", "v = "+newSrc, newStat, nil, nil); f != nil {
		return f
	}
	if newStat == btErr {
		o.Key = strings.Join(hist, "\n")
		o.NonTrivial = true
		class("bt:literal_with_unconvertible_element")
		return nil
	}
	if _, err := e.Get("v"); err != nil {
		// a literal with a nil element was refused (admitted): nothing to operate on
		o.Key = strings.Join(hist, "\n")
		return nil
	}

	noteConv := func(v BTVal, t reflect.Type, st btStat) {
		x, _, _ := v.resolve()
		from := "nil"
		if x.IsValid() {
			from = x.Type().String()
		}
		switch st {
		case btOK:
			if x.IsValid() && x.Type() != t && t != tIface {
				conversions++
				class("bt:conv:%s->%s", from, t)
			}
		case btErr:
			class("bt:refused:%s->%s", from, t)
		}
	}
	open := func(why string) { class("bt:open:%s", why) }

	for i := range c.Ops {
		op := &c.Ops[i]
		switch c.Shape {
		case "smake", "slit", "rows":
			et := typ.Elem()
			ln := mir.Len()
			switch op.Op {
			case "set", "row":
				if op.I == nil || (op.I.C != "abs" && op.I.C != "len") {
					continue
				}
				ix := resolveIdx(op.I, ln, ln)
				var val reflect.Value
				var st btStat
				var rhs string
				if op.Op == "set" {
					if op.V == nil || c.Shape == "rows" {
						continue
					}
					var why string
					val, st, why = convOperand(*op.V, et)
					if st == btOpen {
						open(why)
						continue
					}
					noteConv(*op.V, et, st)
					rhs = op.V.src()
				} else {
					if c.Shape != "rows" {
						continue
					}
					es, s, why := convList(op.Vs, gt)
					if s == btOpen {
						open(why)
						continue
					}
					st = s
					parts := make([]string, len(op.Vs))
					for j, v := range op.Vs {
						parts[j] = v.src()
						_, es1, _ := convOperand(v, gt)
						noteConv(v, gt, es1)
					}
					rhs = "[" + strings.Join(parts, ", ") + "]"
					if st != btErr {
						val = reflect.MakeSlice(et, len(es), len(es))
						for j, x := range es {
							val.Index(j).Set(x)
						}
					}
				}
				src := "v[" + ix.src + "] = " + rhs
				if ix.n < 0 || ix.n > int64(ln) {
					st = btErr
				}
				n := int(ix.n)
				if f := run(op.Op, src, st, nil, func() {
					if n == ln {
						mir.Set(reflect.Append(mir, val))
					} else {
						mir.Index(n).Set(val)
					}
				}); f != nil {
					return f
				}
			case "app":
				if op.V == nil || c.Shape == "rows" {
					continue
				}
				val, st, why := convOperand(*op.V, et)
				if st == btOpen {
					open(why)
					continue
				}
				noteConv(*op.V, et, st)
				if f := run("app", "v += "+op.V.src(), st, nil, func() { mir.Set(reflect.Append(mir, val)) }); f != nil {
					return f
				}
			case "cat":
				if c.Shape == "rows" {
					continue
				}
				es, st, why := convList(op.Vs, et)
				if st == btOpen {
					open(why)
					continue
				}
				parts := make([]string, len(op.Vs))
				for j, v := range op.Vs {
					parts[j] = v.src()
					_, es1, _ := convOperand(v, et)
					noteConv(v, et, es1)
				}
				src := "v += [" + strings.Join(parts, ", ") + "]"
				if op.Form == "=+" {
					src = "v = v + [" + strings.Join(parts, ", ") + "]"
				}
				if f := run("cat("+op.Form+")", src, st, nil, func() { mir.Set(reflect.Append(mir, es...)) }); f != nil {
					return f
				}
			case "read":
				if op.I == nil || (op.I.C != "abs" && op.I.C != "len") {
					continue
				}
				ix := resolveIdx(op.I, ln, ln)
				if ix.n < 0 || ix.n >= int64(ln) {
					if f := run("read", "v["+ix.src+"]", btErr, nil, nil); f != nil {
						return f
					}
					continue
				}
				want := mir.Index(int(ix.n))
				if f := run("read", "v["+ix.src+"]", btOK, &want, nil); f != nil {
					return f
				}
			case "len":
				want := reflect.ValueOf(int64(ln))
				if f := run("len", "len(v)", btOK, &want, nil); f != nil {
					return f
				}
			}
		case "mmake", "mlit":
			et := typ.Elem()
			key := reflect.ValueOf(op.Key)
			switch op.Op {
			case "set":
				if op.V == nil {
					continue
				}
				val, st, why := convOperand(*op.V, et)
				if st == btOpen {
					open(why)
					continue
				}
				noteConv(*op.V, et, st)
				if f := run("set", "v["+vals.StrLit(op.Key)+"] = "+op.V.src(), st, nil, func() { mir.SetMapIndex(key, val) }); f != nil {
					return f
				}
			case "read":
				want := mir.MapIndex(key)
				if !want.IsValid() {
					want = nilIface()
				}
				if f := run("read", "v["+vals.StrLit(op.Key)+"]", btOK, &want, nil); f != nil {
					return f
				}
			case "len":
				want := reflect.ValueOf(int64(mir.Len()))
				if f := run("len", "len(v)", btOK, &want, nil); f != nil {
					return f
				}
			}
		case "kmake":
			kt := typ.Key()
			switch op.Op {
			case "set", "read":
				if op.V2 == nil || (op.Op == "set" && op.V == nil) {
					continue
				}
				key, st, why := convOperand(*op.V2, kt)
				if st == btOpen {
					open(why)
					continue
				}
				if st == btEither {
					open("nil_key_on_typed_map")
					continue
				}
				if op.Op == "set" {
					noteConv(*op.V2, kt, st)
					val := reflect.ValueOf(op.V.S)
					if f := run("keyset", "v["+op.V2.src()+"] = "+vals.StrLit(op.V.S), st, nil, func() { mir.SetMapIndex(key, val) }); f != nil {
						return f
					}
					continue
				}
				if st == btErr {
					// an ill-typed key cannot be present: nil or an error
					want := nilIface()
					if f := run("keyread", "v["+op.V2.src()+"]", btEither, &want, nil); f != nil {
						return f
					}
					continue
				}
				want := mir.MapIndex(key)
				if !want.IsValid() {
					want = nilIface()
				}
				if f := run("keyread", "v["+op.V2.src()+"]", btOK, &want, nil); f != nil {
					return f
				}
			case "len":
				want := reflect.ValueOf(int64(mir.Len()))
				if f := run("len", "len(v)", btOK, &want, nil); f != nil {
					return f
				}
			}
		case "struct":
			if op.Key != "A" && op.Key != "B" {
				continue
			}
			fld := mir.FieldByName(op.Key)
			switch op.Op {
			case "set":
				if op.V == nil {
					continue
				}
				val, st, why := convOperand(*op.V, fld.Type())
				if st == btOpen {
					open(why)
					continue
				}
				noteConv(*op.V, fld.Type(), st)
				if f := run("fieldset", "v."+op.Key+" = "+op.V.src(), st, nil, func() { fld.Set(val) }); f != nil {
					return f
				}
			case "read":
				want := fld
				if f := run("fieldread", "v."+op.Key, btOK, &want, nil); f != nil {
					return f
				}
			}
		}
	}
	o.Key = strings.Join(hist, "\n")
	o.Note = o.Key
	o.NonTrivial = conversions+refusals >= 1
	return nil
}
