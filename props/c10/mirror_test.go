package c10

import (
	"fmt"
	"math"
	"reflect"
)

// ---------- conversion rules ("converts the value as Go would or fails") ----------

type cstat int

const (
	cOK     cstat = iota // Go conversion exists; result fixed
	cErr                 // no conversion: the store must fail
	cEither              // nil into a typed slot: Go has no such conversion, anko stores the zero value; both outcomes admitted
	cUnspec              // two keys of an untyped map convert to the same typed key: the surviving value depends on map iteration order
)

func worse(a, b cstat) cstat {
	if a == cErr || b == cErr {
		return cErr
	}
	if a == cUnspec || b == cUnspec {
		return cUnspec
	}
	if a == cEither || b == cEither {
		return cEither
	}
	return cOK
}

// conv converts the Go value x (as produced by Val.goValue or read from a mirror) to type t
// following Go's conversion rules between the generated types; untyped lists/maps convert
// element-wise (documented by the rows of vmContainers_test.go).
func conv(x interface{}, t reflect.Type) (reflect.Value, cstat) {
	if t == tIface {
		out := reflect.New(tIface).Elem()
		if x != nil {
			out.Set(reflect.ValueOf(x))
		}
		return out, cOK
	}
	if x == nil {
		return reflect.Zero(t), cEither
	}
	xv := reflect.ValueOf(x)
	if xv.Type() == t {
		return xv, cOK
	}
	switch t.Kind() {
	case reflect.Int64:
		switch v := x.(type) {
		case float64:
			return reflect.ValueOf(int64(v)), cOK // generator keeps |v| < 2^62
		}
	case reflect.Float64:
		switch v := x.(type) {
		case int64:
			return reflect.ValueOf(float64(v)), cOK
		}
	case reflect.String:
		switch x.(type) {
		case int64:
			return xv.Convert(tString), cOK // Go's integer -> string conversion
		}
	case reflect.Slice:
		if xv.Kind() != reflect.Slice {
			return reflect.Zero(t), cErr
		}
		out := reflect.MakeSlice(t, xv.Len(), xv.Len())
		st := cOK
		for i := 0; i < xv.Len(); i++ {
			ev, es := conv(xv.Index(i).Interface(), t.Elem())
			st = worse(st, es)
			if es == cErr {
				return reflect.Zero(t), cErr
			}
			out.Index(i).Set(ev)
		}
		return out, st
	case reflect.Map:
		if xv.Kind() != reflect.Map {
			return reflect.Zero(t), cErr
		}
		out := reflect.MakeMap(t)
		st := cOK
		it := xv.MapRange()
		for it.Next() {
			kv, ks := conv(it.Key().Interface(), t.Key())
			vv, vs := conv(it.Value().Interface(), t.Elem())
			st = worse(st, worse(ks, vs))
			if ks == cErr || vs == cErr {
				continue // keep scanning: an error anywhere decides, whatever the order
			}
			if out.MapIndex(kv).IsValid() {
				st = worse(st, cUnspec)
			}
			out.SetMapIndex(kv, vv)
		}
		if st == cErr {
			return reflect.Zero(t), cErr
		}
		return out, st
	}
	return reflect.Zero(t), cErr
}

// typeConvertible reports whether Go converts values of basic type from to type to.
func typeConvertible(from, to reflect.Type) bool {
	if to == tIface || from == to {
		return true
	}
	switch from {
	case tInt:
		return to == tFloat || to == tString
	case tFloat:
		return to == tInt
	}
	return false
}

// ---------- structural equality with exact dynamic types ----------

func unwrap(v reflect.Value) reflect.Value {
	for v.IsValid() && v.Kind() == reflect.Interface {
		if v.IsNil() {
			return reflect.Value{}
		}
		v = v.Elem()
	}
	return v
}

// eq compares an observed value with a mirror value: same dynamic types everywhere,
// same contents; nil and empty slices/maps are not distinguished; a struct is compared
// field by field (names, declared types, contents).
func eq(a, b reflect.Value) bool {
	a, b = unwrap(a), unwrap(b)
	if !a.IsValid() || !b.IsValid() {
		return a.IsValid() == b.IsValid()
	}
	if a.Kind() == reflect.Struct && b.Kind() == reflect.Struct {
		if a.NumField() != b.NumField() {
			return false
		}
		for i := 0; i < a.NumField(); i++ {
			fa, fb := a.Type().Field(i), b.Type().Field(i)
			if fa.Name != fb.Name || fa.Type != fb.Type {
				return false
			}
			if !eq(a.Field(i), b.Field(i)) {
				return false
			}
		}
		return true
	}
	if a.Type() != b.Type() {
		return false
	}
	switch a.Kind() {
	case reflect.Slice:
		if a.Len() != b.Len() {
			return false
		}
		for i := 0; i < a.Len(); i++ {
			if !eq(a.Index(i), b.Index(i)) {
				return false
			}
		}
		return true
	case reflect.Map:
		if a.Len() != b.Len() {
			return false
		}
		it := a.MapRange()
		for it.Next() {
			bv := b.MapIndex(it.Key())
			if !bv.IsValid() || !eq(it.Value(), bv) {
				return false
			}
		}
		return true
	case reflect.Float64:
		return math.Float64bits(a.Float()) == math.Float64bits(b.Float())
	case reflect.Int64:
		return a.Int() == b.Int()
	case reflect.String:
		return a.String() == b.String()
	case reflect.Bool:
		return a.Bool() == b.Bool()
	}
	return false
}

// ---------- the mirror ----------

type mirror struct {
	kinds []string
	vars  []reflect.Value // addressable Go variables of kindType[kinds[i]]
}

func newMirror(kinds []string) *mirror {
	m := &mirror{kinds: kinds, vars: make([]reflect.Value, len(kinds))}
	for i, k := range kinds {
		m.vars[i] = reflect.New(kindType[k]).Elem()
	}
	return m
}

// target is an addressable place of the mirror together with its anko spelling.
type target struct {
	v    reflect.Value
	src  string
	slot int
	fld  string
	cls  string // slice map str struct scalar
	kind string // label for classes / signatures: slot kind or st.<field>
}

func classOf(v reflect.Value) string {
	switch v.Kind() {
	case reflect.Slice:
		return "slice"
	case reflect.Map:
		return "map"
	case reflect.String:
		return "str"
	case reflect.Struct:
		return "struct"
	}
	return "scalar"
}

func (m *mirror) target(slot int, fld string) target {
	v := m.vars[slot]
	t := target{v: v, src: slotName(slot), slot: slot, kind: m.kinds[slot]}
	if fld != "" && v.Kind() == reflect.Struct {
		t.v = v.FieldByName(fld)
		t.src += "." + fld
		t.fld = fld
		t.kind = "st." + fld
	}
	t.cls = classOf(t.v)
	return t
}

func lenCap(v reflect.Value) (int, int) {
	switch v.Kind() {
	case reflect.Slice:
		return v.Len(), v.Cap()
	case reflect.String:
		return v.Len(), v.Len()
	case reflect.Map:
		return v.Len(), v.Len()
	}
	return 0, 0
}

// outcome is what the model expects of one step.
type outcome struct {
	skip     string // non-empty: the resolved step is an unspecified shape; it is not executed
	mustErr  bool   // Go would panic / no conversion exists / ill-typed operand
	mayErr   bool   // success is the modelled result, an error (leaving everything unchanged) is admitted too
	errClass string // oob nonnum conv unhashable kind field
	hasRead  bool   // the statement's value is specified
	read     reflect.Value
	readAlt  reflect.Value // second admitted rendering of the value (byte >= 0x80 of a string)
	readAny  bool          // statement value not fixed by the statement (membership across kinds)
	note     string        // finer class label for the evidence counters
	// apply performs the mutation on the mirror; obsCap() returns the capacity observed on the
	// anko side of the slice that received an append (capacity after growth is not specified by Go
	// and therefore adopted from the observation), or -1.
	apply   func(obsCap func() int)
	mutates bool
	dest    *target // place whose capacity is observed after a growing append
	// known names a shape that was hit by the (fixed) defect "appendSlice appends element by
	// element" (growth | error); a state mismatch on such a step gets its own signature
	known string
}

func errOut(class string) outcome { return outcome{mustErr: true, errClass: class} }

// appendMirror appends elems to the slice value cur the way Go's append does: in place
// when the capacity suffices, otherwise into a fresh array (capacity newCap, at least the
// new length) leaving the old array untouched.
func appendMirror(cur reflect.Value, elems []reflect.Value, newCap int) reflect.Value {
	n := cur.Len() + len(elems)
	var res reflect.Value
	if n <= cur.Cap() {
		res = cur.Slice(0, n)
	} else {
		if newCap < n {
			newCap = n
		}
		res = reflect.MakeSlice(cur.Type(), n, newCap)
		reflect.Copy(res, cur)
	}
	for i, e := range elems {
		res.Index(cur.Len() + i).Set(e)
	}
	return res
}

func nilIface() reflect.Value { return reflect.New(tIface).Elem() }

// ---------- map keys ----------

type kstat int

const (
	kOK kstat = iota
	kConvErr
	kUnhashable
	kEither
)

func mapKey(t target, key *Val) (reflect.Value, kstat) {
	kt := t.v.Type().Key()
	if kt == tIface {
		if key.composite() {
			return reflect.Value{}, kUnhashable
		}
		k, _ := conv(key.goValue(), tIface)
		return k, kOK
	}
	k, st := conv(key.goValue(), kt)
	switch st {
	case cErr:
		return reflect.Value{}, kConvErr
	case cEither:
		return k, kEither
	}
	return k, kOK
}

// ---------- plans per operation ----------

func planRead(t target, st *Step) outcome {
	switch t.cls {
	case "slice", "str":
		ln, cp := lenCap(t.v)
		ix := resolveIdx(st.I, ln, cp)
		if ix.bad {
			return errOut("nonnum")
		}
		if ix.n < 0 || ix.n >= int64(ln) {
			return errOut("oob")
		}
		o := outcome{hasRead: true, mayErr: ix.float}
		if t.cls == "str" {
			// Go: s[i] is a byte; as a string it is string(rune(b)) (what anko does) or, for b >= 0x80,
			// arguably the one-byte string: both renderings are admitted
			b := t.v.String()[ix.n]
			o.read = reflect.ValueOf(string(rune(b)))
			if b >= 0x80 {
				o.readAlt = reflect.ValueOf(string([]byte{b}))
			}
		} else {
			o.read = t.v.Index(int(ix.n))
		}
		return o
	case "map":
		k, ks := mapKey(t, st.Key)
		switch ks {
		case kEither:
			return outcome{skip: "nil_key_on_typed_map"}
		case kUnhashable:
			return outcome{hasRead: true, read: nilIface(), note: "map_read:unhashable_key"}
		case kConvErr:
			// ill-typed key on a typed map: it cannot be present; nil or an error
			return outcome{hasRead: true, read: nilIface(), mayErr: true, note: "map_read:ill_typed_key"}
		}
		v := t.v.MapIndex(k)
		if !v.IsValid() {
			return outcome{hasRead: true, read: nilIface(), note: "map_read:missing_key"}
		}
		return outcome{hasRead: true, read: v, note: "map_read:present_key"}
	}
	return errOut("kind")
}

func planWrite(t target, st *Step) outcome {
	switch t.cls {
	case "slice":
		ln, cp := lenCap(t.v)
		ix := resolveIdx(st.I, ln, cp)
		if ix.bad {
			return errOut("nonnum")
		}
		if ix.n < 0 || ix.n > int64(ln) {
			return errOut("oob")
		}
		val, cs := conv(st.V.goValue(), t.v.Type().Elem())
		if cs == cErr {
			return errOut("conv")
		}
		if cs == cUnspec {
			return outcome{skip: "map_conversion_key_collision"}
		}
		o := outcome{mayErr: ix.float || cs == cEither, mutates: true}
		o.note = "slice_store:in_range"
		if ix.n == int64(ln) {
			o.note = "slice_store:at_len_in_place"
			if ln == cp {
				o.note = "slice_store:at_len_growing"
			}
			tt := t
			o.dest = &tt
			o.apply = func(obsCap func() int) {
				t.v.Set(appendMirror(t.v, []reflect.Value{val}, obsCap()))
			}
			return o
		}
		o.apply = func(func() int) { t.v.Index(int(ix.n)).Set(val) }
		return o
	case "str":
		ln, cp := lenCap(t.v)
		ix := resolveIdx(st.I, ln, cp)
		if ix.bad {
			return errOut("nonnum")
		}
		if ix.n < 0 || ix.n > int64(ln) {
			return errOut("oob")
		}
		val, cs := conv(st.V.goValue(), tString)
		if cs == cErr {
			return errOut("conv")
		}
		if cs == cUnspec {
			return outcome{skip: "map_conversion_key_collision"}
		}
		o := outcome{mayErr: ix.float || cs == cEither, mutates: true}
		o.apply = func(func() int) {
			s := t.v.String()
			if ix.n == int64(ln) {
				t.v.SetString(s + val.String())
			} else {
				t.v.SetString(s[:ix.n] + val.String() + s[ix.n+1:])
			}
		}
		return o
	case "map":
		if t.v.IsNil() {
			// Go panics on a store into a nil map, anko allocates one: left open
			return outcome{skip: "store_into_nil_map"}
		}
		k, ks := mapKey(t, st.Key)
		switch ks {
		case kEither:
			return outcome{skip: "nil_key_on_typed_map"}
		case kUnhashable:
			return errOut("unhashable")
		case kConvErr:
			return errOut("conv")
		}
		val, cs := conv(st.V.goValue(), t.v.Type().Elem())
		if cs == cErr {
			return errOut("conv")
		}
		if cs == cUnspec {
			return outcome{skip: "map_conversion_key_collision"}
		}
		return outcome{mayErr: cs == cEither, mutates: true, apply: func(func() int) { t.v.SetMapIndex(k, val) }}
	}
	return errOut("kind")
}

// rhsElemType is the static element type of a slice-like operand.
func rhsElemType(v *Val) reflect.Type {
	switch v.K {
	case "ti":
		return tInt
	case "tf":
		return tFloat
	case "ts":
		return tString
	}
	return tIface
}

// planApp models `T += V` (dst == T) and `W = T + V` (dst == W). The right operand is the
// literal st.V or, when rhs != nil, the current value of another slice variable (Go:
// append(left, right...) copies the elements, the result never aliases the right operand).
func planApp(t target, dst target, st *Step, rhs *target) outcome {
	switch t.cls {
	case "slice":
		et := t.v.Type().Elem()
		var elems []reflect.Value
		cs := cOK
		known := ""
		if rhs != nil && rhs.cls != "slice" {
			return outcome{skip: "plus_with_non_slice_variable"}
		}
		if rhs != nil || st.V.sliceLike() {
			// a slice operand is concatenated element by element
			var xv reflect.Value
			var rt reflect.Type
			if rhs != nil {
				xv, rt = rhs.v, rhs.v.Type().Elem()
			} else {
				xv = reflect.ValueOf(st.V.goValue())
				rt = rhsElemType(st.V)
			}
			if rt != tIface && !typeConvertible(rt, et) {
				// typed operand whose element type has no conversion to the element type
				if xv.Len() == 0 {
					if (rt.Kind() == reflect.Slice) != (et.Kind() == reflect.Slice) {
						// a slice of slices and a slice of plain values: ill-typed whatever the lengths
						o := errOut("conv")
						o.note = "append:empty_operand_of_other_nesting_depth"
						return o
					}
					return outcome{skip: "empty_ill_typed_slice_operand"}
				}
				return errOut("conv")
			}
			// shape of a fixed defect: with operands of different element types anko used to append
			// one element at a time, so elements that still fit were written into the shared array
			// before a later element forced a reallocation or failed to convert
			perElem := rt != et
			spare := t.v.Cap() - t.v.Len()
			for i := 0; i < xv.Len(); i++ {
				ev, es := conv(xv.Index(i).Interface(), et)
				cs = worse(cs, es)
				if es != cOK && perElem && i >= 1 && spare >= 1 && known == "" {
					known = "error"
				}
				if es == cErr {
					o := errOut("conv")
					o.known = known
					return o
				}
				elems = append(elems, ev)
			}
			if cs == cUnspec {
				return outcome{skip: "map_conversion_key_collision"}
			}
			if perElem && known == "" && spare >= 1 && len(elems) > spare {
				known = "growth"
			}
			if len(elems) == 0 && t.fld != "" && (dst.slot != t.slot || dst.fld != t.fld) {
				// `w = s.D + []` hands out the field itself, i.e. `w = s.D`
				return outcome{skip: "field_alias_unspecified"}
			}
		} else {
			ev, es := conv(st.V.goValue(), et)
			if es == cErr {
				return errOut("conv")
			}
			if es == cUnspec {
				return outcome{skip: "map_conversion_key_collision"}
			}
			cs = es
			elems = []reflect.Value{ev}
		}
		d := dst
		note := "append:in_place"
		if t.v.Len()+len(elems) > t.v.Cap() {
			note = "append:growing"
		}
		if len(elems) == 0 {
			note = "append:nothing"
		}
		if rhs != nil {
			note += "_variable_operand"
		}
		return outcome{mayErr: cs == cEither, mutates: true, dest: &d, known: known, note: note, apply: func(obsCap func() int) {
			dst.v.Set(appendMirror(t.v, elems, obsCap()))
		}}
	case "str":
		if rhs != nil || st.V == nil || st.V.K != "s" {
			return outcome{skip: "string_plus_nonstring"}
		}
		return outcome{mutates: true, apply: func(func() int) { dst.v.SetString(t.v.String() + st.V.S) }}
	}
	return outcome{skip: "plus_on_non_sequence"}
}

// planSlice models `W = T[i:j:k]` (dst != nil) or the bare expression.
func planSlice(t target, dst *target, st *Step) outcome {
	if t.cls != "slice" && t.cls != "str" {
		return errOut("kind")
	}
	ln, cp := lenCap(t.v)
	lo, hi, mx := int64(0), int64(ln), int64(cp)
	float := false
	res := func(ix *Idx, into *int64) (bad bool) {
		if ix == nil {
			return false
		}
		r := resolveIdx(ix, ln, cp)
		if r.bad {
			return true
		}
		float = float || r.float
		*into = r.n
		return false
	}
	if res(st.I, &lo) || res(st.J, &hi) || res(st.K, &mx) {
		return errOut("nonnum")
	}
	if t.cls == "str" {
		if st.K != nil {
			return errOut("kind") // no 3-index slicing of strings
		}
		if !(0 <= lo && lo <= hi && hi <= int64(ln)) {
			return errOut("oob")
		}
		val := reflect.ValueOf(t.v.String()[lo:hi])
		o := outcome{mayErr: float, hasRead: true, read: val}
		if dst != nil {
			d := *dst
			o.mutates = true
			o.apply = func(func() int) { d.v.Set(val) }
		}
		return o
	}
	if !(0 <= lo && lo <= hi && hi <= mx && mx <= int64(cp)) {
		return errOut("oob")
	}
	if hi > int64(ln) {
		return outcome{skip: "slice_beyond_len_within_cap"}
	}
	val := t.v.Slice3(int(lo), int(hi), int(mx))
	o := outcome{mayErr: float, hasRead: true, read: val}
	if dst != nil {
		d := *dst
		o.mutates = true
		o.apply = func(func() int) { d.v.Set(val) }
	}
	return o
}

func planDel(t target, st *Step) outcome {
	switch t.cls {
	case "map":
		k, ks := mapKey(t, st.Key)
		if ks != kOK && t.v.IsNil() {
			// a nil map only arises from storing nil into a typed slot (itself left open)
			return outcome{skip: "bad_key_delete_on_nil_map"}
		}
		switch ks {
		case kEither:
			return outcome{skip: "nil_key_on_typed_map"}
		case kUnhashable:
			return errOut("unhashable")
		case kConvErr:
			return errOut("conv")
		}
		note := "map_delete:missing_key"
		if t.v.MapIndex(k).IsValid() {
			note = "map_delete:present_key"
		}
		return outcome{mutates: true, note: note, apply: func(func() int) { t.v.SetMapIndex(k, reflect.Value{}) }}
	case "str":
		// delete("name") removes the variable of that name: not a container operation
		return outcome{skip: "delete_on_string"}
	}
	return errOut("kind")
}

func planLen(t target) outcome {
	switch t.cls {
	case "slice", "map", "str":
		return outcome{hasRead: true, read: reflect.ValueOf(int64(t.v.Len()))}
	}
	return errOut("kind")
}

// tri-valued membership: 1 true, 0 false, -1 not fixed by the statement
func looseEq(elem reflect.Value, k interface{}) int {
	e := unwrap(elem)
	if !e.IsValid() || k == nil {
		if !e.IsValid() && k == nil {
			return 1
		}
		// nil against a (possibly nil) slice or map: not fixed
		if e.IsValid() && (e.Kind() == reflect.Slice || e.Kind() == reflect.Map) {
			return -1
		}
		if k != nil {
			if kk := reflect.ValueOf(k).Kind(); kk == reflect.Slice || kk == reflect.Map {
				return -1
			}
		}
		return 0
	}
	kv := reflect.ValueOf(k)
	if e.Type() != kv.Type() {
		return -1
	}
	switch e.Kind() {
	case reflect.Int64:
		return b2i(e.Int() == kv.Int())
	case reflect.Float64:
		return b2i(e.Float() == kv.Float())
	case reflect.String:
		return b2i(e.String() == kv.String())
	case reflect.Bool:
		return b2i(e.Bool() == kv.Bool())
	}
	return -1
}

func b2i(b bool) int {
	if b {
		return 1
	}
	return 0
}

func planIn(t target, st *Step) outcome {
	if t.cls != "slice" {
		return outcome{skip: "in_on_non_slice"}
	}
	k := st.V.goValue()
	unknown := false
	for i := 0; i < t.v.Len(); i++ {
		switch looseEq(t.v.Index(i), k) {
		case 1:
			return outcome{hasRead: true, read: reflect.ValueOf(true)}
		case -1:
			unknown = true
		}
	}
	if unknown {
		return outcome{hasRead: true, readAny: true}
	}
	return outcome{hasRead: true, read: reflect.ValueOf(false)}
}

func planMread(t target, st *Step) outcome {
	switch t.cls {
	case "struct":
		f := t.v.FieldByName(st.Name)
		if !f.IsValid() {
			return errOut("field")
		}
		return outcome{hasRead: true, read: f}
	case "map":
		kt := t.v.Type().Key()
		if kt != tIface && kt != tString {
			return outcome{skip: "member_on_non_string_key_map"}
		}
		k, _ := conv(st.Name, kt)
		v := t.v.MapIndex(k)
		if !v.IsValid() {
			return outcome{hasRead: true, read: nilIface()}
		}
		return outcome{hasRead: true, read: v}
	}
	return errOut("kind")
}

func planMwrite(t target, st *Step) outcome {
	switch t.cls {
	case "struct":
		f := t.v.FieldByName(st.Name)
		if !f.IsValid() {
			return errOut("field")
		}
		val, cs := conv(st.V.goValue(), f.Type())
		if cs == cErr {
			return errOut("conv")
		}
		if cs == cUnspec {
			return outcome{skip: "map_conversion_key_collision"}
		}
		return outcome{mayErr: cs == cEither, mutates: true, apply: func(func() int) { f.Set(val) }}
	case "map":
		kt := t.v.Type().Key()
		if kt != tIface && kt != tString {
			return outcome{skip: "member_on_non_string_key_map"}
		}
		if t.v.IsNil() {
			return outcome{skip: "store_into_nil_map"}
		}
		k, _ := conv(st.Name, kt)
		val, cs := conv(st.V.goValue(), t.v.Type().Elem())
		if cs == cErr {
			return errOut("conv")
		}
		if cs == cUnspec {
			return outcome{skip: "map_conversion_key_collision"}
		}
		return outcome{mayErr: cs == cEither, mutates: true, apply: func(func() int) { t.v.SetMapIndex(k, val) }}
	}
	return errOut("kind")
}

// planCall models f(T, ...) where the script function applies one operation to its
// parameter: the parameter is a copy of the slice header / the same map.
func planCall(t target, st *Step, rhs *target) outcome {
	if t.cls != "slice" && t.cls != "map" {
		return outcome{skip: "call_on_non_reference_kind"}
	}
	p := reflect.New(t.v.Type()).Elem()
	p.Set(t.v)
	local := target{v: p, src: "p", slot: -1, cls: t.cls, kind: t.kind}
	var o outcome
	switch st.Form {
	case "set", "setv":
		o = planWrite(local, st)
	case "app":
		if t.cls != "slice" {
			return outcome{skip: "plus_on_non_sequence"}
		}
		o = planApp(local, local, st, rhs)
	case "del":
		o = planDel(local, st)
	default:
		panic("bad call form " + st.Form)
	}
	o.dest = nil // the parameter is local: a grown array is dropped at return
	o.hasRead = false
	return o
}

func describeTarget(t target) string {
	ln, cp := lenCap(t.v)
	return fmt.Sprintf("%s(%s len=%d cap=%d)", t.src, t.kind, ln, cp)
}
