package c10

import (
	"fmt"
	"reflect"
	"strings"
	"testing"

	"github.com/mattn/anko/env"
	"github.com/mattn/anko/parser"

	"verif/internal/ank"
	"verif/internal/h"
)

// script functions that apply one operation to their parameter
const funcsSrc = "fset = func(p, i, x) { p[i] = x }\n" +
	"fsetv = func(i, x, p...) { p[i] = x }\n" +
	"fapp = func(p, x) { p += x }\n" +
	"fdel = func(p, k) { delete(p, k) }\n" +
	"id = func(x) { return x }\n" +
	"hs = make(struct{X interface})\n" +
	"hs.X = [1, 2]"

// exec is one rendered step.
type rendered struct {
	src  string
	plan outcome
	t    target
	idx  []string // index classes used
	dst  int      // destination slot or -1
}

// render resolves a step against the current mirror state: source text and expectation.
func render(m *mirror, st *Step) rendered {
	bad := func(why string) rendered { return rendered{plan: outcome{skip: why}, dst: -1} }
	if st.T < 0 || st.T >= len(m.vars) {
		return bad("invalid_step")
	}
	if st.Fld != "" && !isStructKind(m.kinds[st.T]) {
		return bad("invalid_step")
	}
	t := m.target(st.T, st.Fld)
	if st.Fld != "" && !t.v.IsValid() {
		return bad("invalid_step")
	}
	r := rendered{t: t, dst: -1}
	ln, cp := lenCap(t.v)
	ixs := func(ix *Idx) string {
		if ix == nil {
			return ""
		}
		x := resolveIdx(ix, ln, cp)
		r.idx = append(r.idx, x.cls)
		return x.src
	}
	// destination slot of slice / alias / app(=+)
	dest := func() (*target, string) {
		if st.W < 0 || st.W >= len(m.vars) {
			return nil, "invalid_step"
		}
		if isStructKind(m.kinds[st.W]) || m.vars[st.W].Type() != t.v.Type() {
			return nil, "dest_kind_mismatch"
		}
		d := m.target(st.W, "")
		return &d, ""
	}
	keyOrIdx := func() (string, bool) {
		if t.cls == "map" {
			if st.Key == nil {
				return "", false
			}
			return st.Key.src(), true
		}
		if st.I == nil {
			return "", false
		}
		return ixs(st.I), true
	}
	switch st.Op {
	case "new":
		if st.Fld != "" || st.Init == nil {
			return bad("invalid_step")
		}
		kind := m.kinds[st.T]
		in := st.Init
		r.src = t.src + " = " + initSrc(kind, in)
		val, cs := initValue(kind, in)
		switch cs {
		case cErr:
			r.plan = errOut("conv")
		case cUnspec:
			r.plan = outcome{skip: "map_conversion_key_collision"}
		default:
			r.plan = outcome{mutates: true, mayErr: cs == cEither, apply: func(func() int) { t.v.Set(val) }}
		}
	case "read":
		s, ok := keyOrIdx()
		if !ok {
			return bad("invalid_step")
		}
		r.src = t.src + "[" + s + "]"
		r.plan = planRead(t, st)
	case "swap":
		// v[i], v[j] = v[j], v[i]: both right side values are read before either target is assigned
		if t.cls != "slice" || st.I == nil || st.J == nil || st.I.C != "abs" || st.J.C != "abs" {
			return bad("invalid_step")
		}
		i, j := st.I.D, st.J.D
		if i < 0 || j < 0 || i >= int64(ln) || j >= int64(ln) {
			return bad("swap_out_of_range")
		}
		r.src = fmt.Sprintf("%s[%d], %s[%d] = %s[%d], %s[%d]", t.src, i, t.src, j, t.src, j, t.src, i)
		r.plan = outcome{mutates: true, note: "swap_two_elements", apply: func(func() int) {
			a := reflect.New(t.v.Type().Elem()).Elem()
			a.Set(t.v.Index(int(i)))
			t.v.Index(int(i)).Set(t.v.Index(int(j)))
			t.v.Index(int(j)).Set(a)
		}}
	case "write":
		s, ok := keyOrIdx()
		if !ok || st.V == nil {
			return bad("invalid_step")
		}
		r.src = t.src + "[" + s + "] = " + st.V.src()
		r.plan = planWrite(t, st)
	case "app":
		// right operand: a literal or the variable of another slot
		var rhs *target
		var rsrc string
		if st.R != nil {
			if *st.R < 0 || *st.R >= len(m.vars) || isStructKind(m.kinds[*st.R]) {
				return bad("invalid_step")
			}
			rt := m.target(*st.R, "")
			rhs, rsrc = &rt, rt.src
		} else {
			if st.V == nil {
				return bad("invalid_step")
			}
			rsrc = st.V.src()
		}
		if st.Form == "=+" {
			d, why := dest()
			if d == nil {
				return bad(why)
			}
			r.dst = st.W
			left := t
			if st.LE != "" {
				// the left operand is a fresh empty slice of T's type
				if t.cls != "slice" || st.Fld != "" {
					return bad("invalid_step")
				}
				fresh := reflect.New(t.v.Type()).Elem()
				c := 0
				switch st.LE {
				case "lit":
					if t.kind == "us" {
						left.src = "[]"
					} else {
						left.src = typeSrc[t.kind] + "{}"
					}
				case "make0":
					left.src = "make(" + typeSrc[t.kind] + ", 0)"
				case "makecap":
					c = 4
					left.src = "make(" + typeSrc[t.kind] + ", 0, 4)"
				default:
					return bad("invalid_step")
				}
				fresh.Set(reflect.MakeSlice(t.v.Type(), 0, c))
				left.v = fresh
				left.slot = -1
			}
			r.src = d.src + " = " + left.src + " + " + rsrc
			r.plan = planApp(left, *d, st, rhs)
		} else {
			r.src = t.src + " += " + rsrc
			r.plan = planApp(t, t, st, rhs)
		}
	case "slice":
		var body string
		switch st.Form {
		case "ij":
			if st.I == nil || st.J == nil {
				return bad("invalid_step")
			}
			body = ixs(st.I) + ":" + ixs(st.J)
		case "i:":
			if st.I == nil {
				return bad("invalid_step")
			}
			body = ixs(st.I) + ":"
		case ":j":
			if st.J == nil {
				return bad("invalid_step")
			}
			body = ":" + ixs(st.J)
		case "ijk":
			if st.I == nil || st.J == nil || st.K == nil {
				return bad("invalid_step")
			}
			body = ixs(st.I) + ":" + ixs(st.J) + ":" + ixs(st.K)
		case ":jk":
			if st.J == nil || st.K == nil {
				return bad("invalid_step")
			}
			body = ":" + ixs(st.J) + ":" + ixs(st.K)
		default:
			return bad("invalid_step")
		}
		// normalise the step so that the model sees exactly the operands that are spelled
		ss := *st
		switch st.Form {
		case "i:":
			ss.J, ss.K = nil, nil
		case ":j":
			ss.I, ss.K = nil, nil
		case "ij":
			ss.K = nil
		case ":jk":
			ss.I = nil
		}
		if st.W >= 0 && (t.cls == "slice" || t.cls == "str") {
			d, why := dest()
			if d == nil {
				return bad(why)
			}
			r.dst = st.W
			r.src = d.src + " = " + t.src + "[" + body + "]"
			r.plan = planSlice(t, d, &ss)
		} else {
			r.src = t.src + "[" + body + "]"
			r.plan = planSlice(t, nil, &ss)
		}
	case "del":
		var s string
		if st.Key != nil {
			s = st.Key.src()
		} else {
			return bad("invalid_step")
		}
		r.src = "delete(" + t.src + ", " + s + ")"
		r.plan = planDel(t, st)
	case "len":
		r.src = "len(" + t.src + ")"
		r.plan = planLen(t)
	case "in":
		if st.V == nil {
			return bad("invalid_step")
		}
		r.src = st.V.src() + " in " + t.src
		r.plan = planIn(t, st)
	case "alias":
		if st.Fld != "" {
			return bad("field_alias_unspecified")
		}
		if t.cls == "struct" {
			return bad("struct_copy_unspecified")
		}
		d, why := dest()
		if d == nil {
			return bad(why)
		}
		r.dst = st.W
		r.src = d.src + " = " + t.src
		dd := *d
		r.plan = outcome{mutates: true, apply: func(func() int) { dd.v.Set(t.v) }}
	case "call":
		if st.Fld != "" {
			return bad("field_passing_unspecified")
		}
		var callRhs *target
		switch st.Form {
		case "set":
			s, ok := keyOrIdx()
			if !ok || st.V == nil {
				return bad("invalid_step")
			}
			r.src = "fset(" + t.src + ", " + s + ", " + st.V.src() + ")"
		case "setv":
			// the slice is spread into the variadic parameter of a script function: `f(i, x, s...)` hands over
			// the slice itself, a store through the parameter is a store into the caller's slice
			s, ok := keyOrIdx()
			if !ok || st.V == nil || t.kind != "us" {
				return bad("invalid_step")
			}
			r.src = "fsetv(" + s + ", " + st.V.src() + ", " + t.src + "...)"
		case "app":
			if st.R != nil {
				if *st.R < 0 || *st.R >= len(m.vars) || isStructKind(m.kinds[*st.R]) {
					return bad("invalid_step")
				}
				rt := m.target(*st.R, "")
				callRhs = &rt
				r.src = "fapp(" + t.src + ", " + rt.src + ")"
				break
			}
			if st.V == nil {
				return bad("invalid_step")
			}
			r.src = "fapp(" + t.src + ", " + st.V.src() + ")"
		case "del":
			if st.Key == nil {
				return bad("invalid_step")
			}
			r.src = "fdel(" + t.src + ", " + st.Key.src() + ")"
		default:
			return bad("invalid_step")
		}
		r.plan = planCall(t, st, callRhs)
	case "mread":
		r.src = t.src + "." + st.Name
		r.plan = planMread(t, st)
	case "mwrite":
		if st.V == nil {
			return bad("invalid_step")
		}
		r.src = t.src + "." + st.Name + " = " + st.V.src()
		r.plan = planMwrite(t, st)
	default:
		return bad("invalid_step")
	}
	return r
}

// observe fetches the value at a mirror place from the anko environment.
func observe(e *env.Env, slot int, fld string) (reflect.Value, error) {
	got, err := e.Get(slotName(slot))
	if err != nil {
		return reflect.Value{}, err
	}
	rv := reflect.ValueOf(got)
	if fld != "" {
		if !rv.IsValid() || rv.Kind() != reflect.Struct {
			return reflect.Value{}, fmt.Errorf("not a struct")
		}
		rv = rv.FieldByName(fld)
		if !rv.IsValid() {
			return reflect.Value{}, fmt.Errorf("no field %s", fld)
		}
	}
	return rv, nil
}

type diff struct {
	slot int
	what string // missing type content cap
	got  string
	want string
}

func typeOfString(v reflect.Value) string {
	v = unwrap(v)
	if !v.IsValid() {
		return "nil"
	}
	return v.Type().String()
}

// compareAll checks every slot of the environment against its mirror.
func compareAll(m *mirror, e *env.Env, live []bool) *diff {
	for i := range m.vars {
		if !live[i] {
			continue
		}
		want := m.vars[i]
		got, err := observe(e, i, "")
		if err != nil {
			return &diff{slot: i, what: "missing", got: err.Error(), want: ank.Describe(want.Interface())}
		}
		if !eq(got, want) {
			what := "content"
			if want.Kind() != reflect.Struct && typeOfString(got) != want.Type().String() {
				what = "type"
			}
			var g interface{}
			if got.IsValid() {
				g = got.Interface()
			}
			return &diff{slot: i, what: what, got: ank.Describe(g), want: ank.Describe(want.Interface())}
		}
		// capacities: fixed by Go for slicing (2 and 3 indices) and for appends within capacity;
		// after a growing append the mirror adopted the observed one
		capOf := func(g, w reflect.Value) *diff {
			g = unwrap(g)
			if w.Kind() == reflect.Slice && g.IsValid() && g.Kind() == reflect.Slice && g.Cap() != w.Cap() {
				return &diff{slot: i, what: "cap", got: fmt.Sprintf("cap=%d %s", g.Cap(), ank.Describe(g.Interface())), want: fmt.Sprintf("cap=%d %s", w.Cap(), ank.Describe(w.Interface()))}
			}
			return nil
		}
		if d := capOf(got, want); d != nil {
			return d
		}
		if want.Kind() == reflect.Struct {
			if d := capOf(unwrap(got).FieldByName("D"), want.FieldByName("D")); d != nil {
				return d
			}
		}
	}
	return nil
}

func isReadOp(op string) bool {
	switch op {
	case "read", "len", "in", "mread":
		return true
	}
	return false
}

func oracle(c Case, o *h.Obs) *h.Fail {
	if len(c.Kinds) == 0 || len(c.Kinds) != len(c.Inits) || len(c.Kinds) > 8 {
		o.Excluded = "invalid_case"
		return nil
	}
	for _, k := range c.Kinds {
		if _, ok := kindType[k]; !ok {
			o.Excluded = "invalid_case"
			return nil
		}
	}
	m := newMirror(c.Kinds)
	e := env.NewEnv()
	if _, err := ank.Exec(e, funcsSrc); err != nil {
		return h.Failf("C10|setup|funcs", "cannot define helper functions: %v", err)
	}
	live := make([]bool, len(c.Kinds))
	shared := make([]bool, len(c.Kinds))
	strAliased := make([]bool, len(c.Kinds))
	var hist []string
	steps := make([]Step, 0, len(c.Inits)+len(c.Steps))
	for i := range c.Inits {
		steps = append(steps, Step{Op: "new", T: i, W: -1, Init: &c.Inits[i]})
	}
	steps = append(steps, c.Steps...)

	executed := 0
	mutAliased := false
	errSeen, errThenRead := false, false
	seen := map[string]bool{}
	class := func(format string, args ...interface{}) {
		s := fmt.Sprintf(format, args...)
		if !seen[s] {
			seen[s] = true
			o.Class(s)
		}
	}
	failMsg := func(src string, format string, args ...interface{}) string {
		return fmt.Sprintf("history:\n%s\n>>> %s\n", strings.Join(hist, "\n"), src) + fmt.Sprintf(format, args...)
	}

	for si := range steps {
		st := &steps[si]
		if st.Op != "new" {
			// every slot is initialised by the leading steps; a step on a dead slot is a broken case
			if st.T < 0 || st.T >= len(live) || !live[st.T] {
				class("skip:invalid_step")
				continue
			}
		}
		r := render(m, st)
		kind := r.t.kind
		if r.plan.skip != "" {
			class("skip:%s", r.plan.skip)
			continue
		}
		if st.Op == "write" && r.t.cls == "str" && r.t.fld == "" && strAliased[st.T] {
			// left open: an element store into a string variable that was copied with `w = s`
			// (anko may keep both names bound to one string header)
			class("skip:string_store_through_alias")
			continue
		}
		if r.plan.known != "" {
			class("append_shape_of_fixed_partial_write_defect:%s", r.plan.known)
		}
		for _, ic := range r.idx {
			class("idx:%s:%s", r.t.cls, ic)
		}
		if st.R != nil {
			class("val:%s:variable_%s", kind, m.kinds[*st.R])
		} else if st.V != nil && (st.Op == "write" || st.Op == "app" || st.Op == "mwrite" || st.Op == "call") {
			class("val:%s:%s", kind, st.V.class())
		}
		if st.Key != nil && r.t.cls == "map" {
			class("key:%s:%s", kind, st.Key.class())
		}
		opName := st.Op
		if st.Form != "" {
			opName += "(" + st.Form + ")"
		}

		got, err := ank.Exec(e, r.src)
		executed++
		if _, isParse := err.(*parser.Error); isParse {
			// the generator only spells statements the grammar accepts
			return h.Failf("C10|generator|parse-error|"+opName, "%s", failMsg(r.src, "parse error: %v", err))
		}
		if hp, ok := ank.IsHostPanic(err); ok {
			return h.Failf("C10|panic|"+opName+"|"+kind, "%s", failMsg(r.src, "escaped Go panic: %v", hp.Value))
		}
		p := r.plan
		outcomeClass := ""
		switch {
		case p.mustErr:
			if err == nil {
				return h.Failf("C10|missing-error|"+opName+"|"+kind+"|"+p.errClass,
					"%s", failMsg(r.src, "model (%s): the Go operation fails (%s) -> error expected\nanko: no error, value %s", describeTarget(r.t), p.errClass, ank.Describe(got)))
			}
			outcomeClass = "err:" + p.errClass
			errSeen = true
		case err != nil:
			if !p.mayErr {
				return h.Failf("C10|unexpected-error|"+opName+"|"+kind,
					"%s", failMsg(r.src, "model (%s): the Go operation succeeds\nanko error: %v", describeTarget(r.t), err))
			}
			outcomeClass = "either:err"
		default:
			if p.hasRead {
				gv := reflect.ValueOf(got)
				if p.readAny {
					if _, isBool := got.(bool); !isBool {
						return h.Failf("C10|read-value|"+opName+"|"+kind, "%s", failMsg(r.src, "model: a bool\nanko: %s", ank.Describe(got)))
					}
				} else if !eq(gv, p.read) && !(p.readAlt.IsValid() && eq(gv, p.readAlt)) {
					var w interface{}
					if u := unwrap(p.read); u.IsValid() {
						w = u.Interface()
					}
					return h.Failf("C10|read-value|"+opName+"|"+kind,
						"%s", failMsg(r.src, "model (%s): %s\nanko: %s", describeTarget(r.t), ank.Describe(w), ank.Describe(got)))
				}
			}
			if p.note != "" {
				class("%s", p.note)
			}
			if st.Op == "in" {
				switch {
				case p.readAny:
					class("in:not_fixed_cross_kind")
				case p.read.Bool():
					class("in:true")
				default:
					class("in:false")
				}
			}
			if p.apply != nil {
				dest := p.dest
				p.apply(func() int {
					if dest == nil || dest.slot < 0 {
						return -1
					}
					ov, oerr := observe(e, dest.slot, dest.fld)
					if oerr != nil {
						return -1
					}
					ov = unwrap(ov)
					if !ov.IsValid() || ov.Kind() != reflect.Slice {
						return -1
					}
					return ov.Cap()
				})
			}
			outcomeClass = "ok"
			if p.mayErr {
				outcomeClass = "either:ok"
			}
			if st.Op == "new" {
				live[st.T] = true
				shared[st.T] = false
			}
			if p.mutates && st.Op != "new" && st.Op != "alias" && st.Op != "slice" && st.LE == "" && shared[st.T] {
				mutAliased = true
				class("mutation_on_shared:%s", st.Op)
			}
			if r.dst >= 0 && r.dst != st.T && st.LE == "" {
				shared[st.T], shared[r.dst] = true, true
			}
			if r.dst >= 0 && m.kinds[r.dst] == "str" {
				if st.Op == "alias" {
					if r.dst != st.T {
						strAliased[st.T], strAliased[r.dst] = true, true
					}
				} else {
					strAliased[r.dst] = false // fresh value from slicing / concatenation
				}
			}
			if st.Op == "new" || (st.Op == "app" && st.Form == "+=" && st.Fld == "") {
				strAliased[st.T] = false // rebound to a fresh value
			}
			if errSeen && (isReadOp(st.Op) || (st.Op == "slice" && r.dst < 0)) {
				errThenRead = true
			}
		}
		o.Class("op:%s:%s:%s", opName, r.t.cls, outcomeClass)
		class("kind:%s", kind)
		hist = append(hist, r.src+"    // "+outcomeClass)

		if d := compareAll(m, e, live); d != nil {
			role := "other"
			switch d.slot {
			case st.T:
				role = "target"
			case r.dst:
				role = "dest"
			}
			clause := "state"
			if err != nil {
				clause = "changed-on-error"
			}
			sig := fmt.Sprintf("C10|%s|%s|%s|%s|%s", clause, opName, kind, d.what, role)
			if p.known != "" {
				sig = "C10|append-partial-write|" + p.known + "|" + kind
			}
			return h.Failf(sig,
				"history (last line is the failing step):\n%s\nafter it variable %s (%s, %s) differs\nmodel: %s\nanko:  %s",
				strings.Join(hist, "\n"), slotName(d.slot), m.kinds[d.slot], d.what, d.want, d.got)
		}
	}

	o.Key = strings.Join(hist, "\n")
	o.Note = o.Key
	o.NonTrivial = executed >= 4+len(c.Inits) && (mutAliased || errThenRead)
	if mutAliased {
		class("history:mutation_through_alias_or_reslice")
	}
	if errThenRead {
		class("history:error_then_read")
	}
	class("history:steps_%02d-%02d", executed/5*5, executed/5*5+4)
	return nil
}

func TestC10(t *testing.T) {
	c := h.New(t, "C10")
	defer c.Finish()
	c.Rule("histories of <=25 single-statement container operations (read, write, append via += / + / index len, 2- and 3-index slicing, delete, len, in, alias by assignment, script function mutating its parameter, member read/write, string index/slice/element store) on 3-6 variables of kinds []interface{}, map[interface{}]interface{}, string, []int64, []string, []float64, [][]int64, map[string]int64, map[int64]string and make(struct{A int64,B string,C float64,D []int64,E map[string]int64,F bool}); indices from {MinInt64,-1,0,1,2,len-2..len+1,cap,cap+1,2^31,MaxInt64,1.9,\"x\",nil,[1]}; every step mirrored on real Go values; non-trivial = >=4 steps after initialisation and (a successful mutation of a variable that was aliased or re-sliced, or an erroring operation followed by a successful read); distinct by history text")
	h.Run(c, "history", c.N(12000, 120000), genCase, oracle)
	c.Rule("nilmap: a nil map (zero element of make([]map[K]V, 2), in a variable or still in the slice; K/V string/int64, int64/string, interface/interface) goes through 1-7 operations: stores with an ill-typed value / ill-typed key / unhashable key (must fail), reads, len, delete (also with an ill-typed key), for-in, successful stores (a store into a nil map may create it or fail); after every step the map is nil exactly when no store succeeded and holds exactly the stored entries; non-trivial = at least one failing operation")
	h.Run(c, "nilmap", c.N(6000, 60000), genNilMap, oracleNilMap)
	c.Rule("reentrant: the index or a bound of an index / 2- / 3-index slice expression on a slot (element of a [][]int64, struct field, element of an untyped list, plain variable) is computed by a function that replaces that slot on the way (shrinks it in place, swaps in a fresh shorter / empty / longer list); the result must be what Go's operation gives on the container as it was or on the replaced one, or an error - never a Go panic, never other elements; all cases non-trivial")
	h.Run(c, "reentrant", c.N(6000, 60000), genReentrant, oracleReentrant)
	c.Rule("basictypes: one container over each basic type name T of {bool,string,int,int32,int64,uint,uint32,uint64,byte,rune,float32,float64,interface}: make([]T,n,c), []T{..}, make(map[string]T), map[string]T{..}, make(map[T]string), make(struct{A T, B T2}), make([][]T,2), then 2-7 statements (element / key / field store, store at len, += x, + [..], row store, reads, len) with operands from int64 / float64 / string / bool / nil literals and elements of typed literals of every other basic type; after every statement the value fetched with env.Get has exactly Go's type of the declared spelling and the contents Go's conversion T(x) gives (reflect.Convert), a store Go has no conversion for fails and changes nothing; not executed (counted bt:open:*): float operands whose truncation does not fit the integer target or that exceed float32, strings of at most one character into byte / rune; non-trivial = at least one store that converted between two different Go types or was refused; distinct by source text")
	h.Run(c, "basictypes", c.N(4000, 40000), genBasicTypes, oracleBasicTypes)
	c.Rule("refstore: two variables hold a map[string]int64, a map[interface]interface, a []int64 or a []interface (type T); 1-3 holders: make(struct{M T, X interface}), []T (make or a literal over the variables), map[string]T (make or literal), an untyped list, an untyped map; 3-12 statements: store a variable or the content of a place into a place (assignment to field / element / key / member, store at index len, += x, + [x], through a script function), write / delete / read through a variable or through a place (h.M[k] = v, delete(h[0], k), fset(h[\"x\"], k, v), len(h.X)), rebind a variable to a fresh value, bind a variable to the content of a place; every statement mirrored on real Go values, all variables compared after every statement; non-trivial = at least one write / delete on a map or backing array that has two or more names at that moment, and >= 3 statements; distinct by source text")
	h.Run(c, "refstore", c.N(3000, 30000), genRefStore, oracleRefStore)
}
