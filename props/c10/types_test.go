// C10 — slices, maps, strings and struct fields behave like their Go models.
//
// This file holds the JSON-serialisable case description (a history of container
// operations drawn up front) and its rendering to anko source text / Go values.
package c10

import (
	"fmt"
	"math"
	"reflect"
	"strconv"
	"strings"

	"verif/internal/vals"
)

// Val is a value spec: it has an anko spelling (src) and a Go value (goValue).
//
//	k: i int64 | f float64 | s string | b bool | n nil | l untyped list |
//	   ti []int64{..} | tf []float64{..} | ts []string{..} | m untyped map | msi map[string]int64{..} |
//	   hs the predefined variable hs = struct{X interface}{X: [1, 2]} (comparable type, unhashable value)
type Val struct {
	K  string  `json:"k"`
	I  int64   `json:"i,omitempty"`
	F  float64 `json:"f,omitempty"`
	S  string  `json:"s,omitempty"`
	B  bool    `json:"b,omitempty"`
	L  []Val   `json:"l,omitempty"`  // elements of l / ti / tf / ts
	MK []Val   `json:"mk,omitempty"` // keys of m / msi (basic kinds only)
	MV []Val   `json:"mv,omitempty"` // values of m / msi
	// W: how the operand reaches the operation: "" literal | elem `[lit][0]` (read from a
	// container, still wrapped in an interface) | id `id(lit)` (returned by a script function)
	W string `json:"w,omitempty"`
}

// Idx is an index spec, resolved against the current len/cap of the target at
// execution time.
//
//	c: abs (value D) | len (len+D) | cap (cap+D) | float (F) | str ("x") | nil | list ([1])
type Idx struct {
	C string  `json:"c"`
	D int64   `json:"d,omitempty"`
	F float64 `json:"f,omitempty"`
}

// Step is one anko statement of the history.
type Step struct {
	Op   string `json:"op"`             // new read write app slice del len in alias call mread mwrite
	T    int    `json:"t"`              // target slot
	Fld  string `json:"fld,omitempty"`  // optional field of a struct slot: the target is vT.Fld
	W    int    `json:"w"`              // destination slot of slice / alias / app ("=+" form); -1: none
	Form string `json:"form,omitempty"` // app: "+=" | "=+"; slice: "ij" "i:" ":j" "ijk" ":jk"; call: set app del
	I    *Idx   `json:"i,omitempty"`
	J    *Idx   `json:"j,omitempty"`
	K    *Idx   `json:"k,omitempty"`
	Key  *Val   `json:"key,omitempty"` // map key
	V    *Val   `json:"v,omitempty"`   // value operand
	Name string `json:"name,omitempty"`
	Init *Init  `json:"init,omitempty"`
	R    *int   `json:"r,omitempty"`  // app / call(app): the right operand is the variable of this slot
	LE   string `json:"le,omitempty"` // app "=+": the left operand is a fresh empty slice of T's type: lit | make0 | makecap
}

// Init describes how a slot is (re)created.
type Init struct {
	How   string `json:"how"` // lit | make
	Elems []Val  `json:"elems,omitempty"`
	MK    []Val  `json:"mk,omitempty"`
	MV    []Val  `json:"mv,omitempty"`
	S     string `json:"s,omitempty"`
	Len   int    `json:"len,omitempty"`
	Cap   int    `json:"cap,omitempty"`
}

// Case is a whole history: slot kinds, their initial values, and the steps.
type Case struct {
	Kinds []string `json:"kinds"` // per slot: us um str ti ts tf tii msi mis st
	Inits []Init   `json:"inits"`
	Steps []Step   `json:"steps"`
}

// S mirrors make(struct{A int64, B string, C float64, D []int64, E map[string]int64, F bool}).
type S struct {
	A int64
	B string
	C float64
	D []int64
	E map[string]int64
	F bool
}

// S2: the same field names as S at other positions (and one more in front): what a field name
// means is a matter of the struct type it is used on
type S2 struct {
	Z int64
	F bool
	E map[string]int64
	D []int64
	C float64
	B string
	A int64
}

const struct2TypeSrc = "struct{Z int64, F bool, E map[string]int64, D []int64, C float64, B string, A int64}"

const structTypeSrc = "struct{A int64, B string, C float64, D []int64, E map[string]int64, F bool}"

var (
	tIface  = reflect.TypeOf((*interface{})(nil)).Elem()
	tInt    = reflect.TypeOf(int64(0))
	tFloat  = reflect.TypeOf(float64(0))
	tString = reflect.TypeOf("")
	tBool   = reflect.TypeOf(false)
)

var kindType = map[string]reflect.Type{
	"us":  reflect.TypeOf([]interface{}(nil)),
	"um":  reflect.TypeOf(map[interface{}]interface{}(nil)),
	"str": tString,
	"ti":  reflect.TypeOf([]int64(nil)),
	"ts":  reflect.TypeOf([]string(nil)),
	"tf":  reflect.TypeOf([]float64(nil)),
	"tii": reflect.TypeOf([][]int64(nil)),
	"msi": reflect.TypeOf(map[string]int64(nil)),
	"mis": reflect.TypeOf(map[int64]string(nil)),
	"st":  reflect.TypeOf(S{}),
	"st2": reflect.TypeOf(S2{}),
}

// typeSrc is the anko spelling of the type of a kind.
var typeSrc = map[string]string{
	"us": "[]interface", "ti": "[]int64", "ts": "[]string", "tf": "[]float64", "tii": "[][]int64",
	"msi": "map[string]int64", "mis": "map[int64]string", "st": structTypeSrc, "st2": struct2TypeSrc,
}

func slotName(i int) string { return "v" + strconv.Itoa(i) }

// ---------- Val rendering ----------

func intSrc(i int64) string {
	if i < 0 {
		return "(" + vals.IntLit(i) + ")"
	}
	return vals.IntLit(i)
}

func floatSrc(f float64) string {
	s := vals.FloatLit(f)
	if strings.HasPrefix(s, "-") {
		return "(" + s + ")"
	}
	return s
}

func (v Val) src() string {
	switch v.W {
	case "elem":
		return "[" + v.lit() + "][0]"
	case "id":
		return "id(" + v.lit() + ")"
	}
	return v.lit()
}

func (v Val) lit() string {
	switch v.K {
	case "hs":
		return "hs"
	case "i":
		return intSrc(v.I)
	case "f":
		return floatSrc(v.F)
	case "s":
		return vals.StrLit(v.S)
	case "b":
		if v.B {
			return "true"
		}
		return "false"
	case "n":
		return "nil"
	case "l", "ti", "tf", "ts":
		parts := make([]string, len(v.L))
		for i, e := range v.L {
			parts[i] = e.src()
		}
		body := strings.Join(parts, ", ")
		switch v.K {
		case "l":
			return "[" + body + "]"
		case "ti":
			return "[]int64{" + body + "}"
		case "tf":
			return "[]float64{" + body + "}"
		default:
			return "[]string{" + body + "}"
		}
	case "m", "msi":
		parts := make([]string, len(v.MK))
		for i := range v.MK {
			parts[i] = v.MK[i].src() + ": " + v.MV[i].src()
		}
		body := strings.Join(parts, ", ")
		if v.K == "m" {
			return "{" + body + "}"
		}
		return "map[string]int64{" + body + "}"
	}
	panic("bad val kind " + v.K)
}

// goValue builds a fresh Go value for the spec (nil for "n").
func (v Val) goValue() interface{} {
	switch v.K {
	case "hs":
		return struct{ X interface{} }{X: []interface{}{int64(1), int64(2)}}
	case "i":
		return v.I
	case "f":
		return v.F
	case "s":
		return v.S
	case "b":
		return v.B
	case "n":
		return nil
	case "l":
		out := make([]interface{}, len(v.L))
		for i, e := range v.L {
			out[i] = e.goValue()
		}
		return out
	case "ti":
		out := make([]int64, len(v.L))
		for i, e := range v.L {
			out[i] = e.I
		}
		return out
	case "tf":
		out := make([]float64, len(v.L))
		for i, e := range v.L {
			out[i] = e.F
		}
		return out
	case "ts":
		out := make([]string, len(v.L))
		for i, e := range v.L {
			out[i] = e.S
		}
		return out
	case "m":
		out := make(map[interface{}]interface{}, len(v.MK))
		for i := range v.MK {
			out[v.MK[i].goValue()] = v.MV[i].goValue()
		}
		return out
	case "msi":
		out := make(map[string]int64, len(v.MK))
		for i := range v.MK {
			out[v.MK[i].S] = v.MV[i].I
		}
		return out
	}
	panic("bad val kind " + v.K)
}

func (v Val) composite() bool {
	switch v.K {
	case "l", "ti", "tf", "ts", "m", "msi", "hs":
		return true
	}
	return false
}

func (v Val) sliceLike() bool {
	switch v.K {
	case "l", "ti", "tf", "ts":
		return true
	}
	return false
}

// class is a short label for the evidence counters.
func (v Val) class() string {
	if v.W != "" {
		w := v
		w.W = ""
		return w.class() + "/" + v.W
	}
	switch v.K {
	case "i":
		return "int"
	case "f":
		return "float"
	case "s":
		return "string"
	case "b":
		return "bool"
	case "n":
		return "nil"
	case "l":
		return "list"
	case "m":
		return "map"
	case "hs":
		return "unhashable_struct"
	}
	return v.K
}

// ---------- Idx resolution ----------

type ixr struct {
	bad   bool   // non-numeric operand ("x", nil, [1])
	float bool   // float operand (numeric, non-integer): truncation admitted, rejection admitted
	n     int64  // integer value (truncated for floats)
	src   string // anko spelling
	cls   string // class label
}

func absClass(d int64) string {
	switch d {
	case math.MinInt64:
		return "MinInt64"
	case math.MaxInt64:
		return "MaxInt64"
	case 1 << 31:
		return "2^31"
	}
	return strconv.FormatInt(d, 10)
}

func relClass(base string, d int64) string {
	switch {
	case d == 0:
		return base
	case d > 0:
		return fmt.Sprintf("%s+%d", base, d)
	}
	return fmt.Sprintf("%s%d", base, d)
}

func resolveIdx(ix *Idx, ln, cp int) ixr {
	switch ix.C {
	case "abs":
		return ixr{n: ix.D, src: vals.IntLit(ix.D), cls: absClass(ix.D)}
	case "len":
		n := int64(ln) + ix.D
		return ixr{n: n, src: vals.IntLit(n), cls: relClass("len", ix.D)}
	case "cap":
		n := int64(cp) + ix.D
		return ixr{n: n, src: vals.IntLit(n), cls: relClass("cap", ix.D)}
	case "float":
		return ixr{float: true, n: int64(ix.F), src: vals.FloatLit(ix.F), cls: "float"}
	case "str":
		return ixr{bad: true, src: `"x"`, cls: "string"}
	case "nil":
		return ixr{bad: true, src: "nil", cls: "nil"}
	case "list":
		return ixr{bad: true, src: "[1]", cls: "list"}
	}
	panic("bad idx class " + ix.C)
}

// ---------- Init rendering ----------

func initSrc(kind string, in *Init) string {
	join := func(vs []Val) string {
		parts := make([]string, len(vs))
		for i, e := range vs {
			parts[i] = e.src()
		}
		return strings.Join(parts, ", ")
	}
	switch kind {
	case "str":
		return vals.StrLit(in.S)
	case "st":
		return "make(" + structTypeSrc + ")"
	case "st2":
		return "make(" + struct2TypeSrc + ")"
	case "us":
		if in.How == "make" {
			return fmt.Sprintf("make([]interface, %d, %d)", in.Len, in.Cap)
		}
		return "[" + join(in.Elems) + "]"
	case "ti", "ts", "tf", "tii":
		if in.How == "make" {
			return fmt.Sprintf("make(%s, %d, %d)", typeSrc[kind], in.Len, in.Cap)
		}
		return typeSrc[kind] + "{" + join(in.Elems) + "}"
	case "um", "msi", "mis":
		if in.How == "make" && kind != "um" {
			return "make(" + typeSrc[kind] + ")"
		}
		parts := make([]string, len(in.MK))
		for i := range in.MK {
			parts[i] = in.MK[i].src() + ": " + in.MV[i].src()
		}
		body := strings.Join(parts, ", ")
		if kind == "um" {
			return "{" + body + "}"
		}
		return typeSrc[kind] + "{" + body + "}"
	}
	panic("bad kind " + kind)
}

// initValue builds the Go value a fresh slot of the kind holds, with the status of the
// element conversions of a typed literal (the leading initialisations only use elements of
// exactly the declared type; later `new` steps also use elements needing a conversion).
func initValue(kind string, in *Init) (reflect.Value, cstat) {
	t := kindType[kind]
	out := reflect.New(t).Elem()
	st := cOK
	switch kind {
	case "str":
		out.SetString(in.S)
	case "st":
		out.Set(reflect.ValueOf(S{D: []int64{}, E: map[string]int64{}}))
	case "st2":
		out.Set(reflect.ValueOf(S2{D: []int64{}, E: map[string]int64{}}))
	case "us", "ti", "ts", "tf", "tii":
		if in.How == "make" {
			out.Set(reflect.MakeSlice(t, in.Len, in.Cap))
			break
		}
		s := reflect.MakeSlice(t, len(in.Elems), len(in.Elems))
		for i, e := range in.Elems {
			ev, es := conv(e.goValue(), t.Elem())
			st = worse(st, es)
			if es == cErr {
				return out, cErr
			}
			s.Index(i).Set(ev)
		}
		out.Set(s)
	case "um", "msi", "mis":
		mp := reflect.MakeMap(t)
		for i := range in.MK {
			if in.MK[i].composite() {
				return out, cErr // unhashable key
			}
			k, ks := conv(in.MK[i].goValue(), t.Key())
			v, vs := conv(in.MV[i].goValue(), t.Elem())
			st = worse(st, worse(ks, vs))
			if st == cErr {
				return out, cErr
			}
			mp.SetMapIndex(k, v)
		}
		out.Set(mp)
	}
	return out, st
}
