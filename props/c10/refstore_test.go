package c10

// Sub-check "refstore": a slice or map held in a variable is stored into another container - a struct
// field, an element of a slice, a value of a map, typed with exactly the type of the value or untyped
// (interface) - by assignment, by a store at index len, by + / +=, through a script function, or as an
// operand of a literal. "Slices and maps are reference values when assigned or passed" and "a store
// converts the value as Go would": Go's conversion of a value to its own type is the value itself, so
// after the store the variable and the place name ONE map / ONE backing array. The history goes on
// with writes, deletes and reads through either name; every statement is mirrored on real Go values
// (the sharing comes from Go itself) and after every statement all variables are compared.

import (
	"fmt"
	"reflect"
	"strings"

	"github.com/mattn/anko/env"
	"github.com/mattn/anko/parser"
	"pgregory.net/rapid"

	"verif/internal/ank"
	"verif/internal/h"
)

// RefName names a reference value: a source variable (H < 0: r<P mod 2>) or a place of holder H (slice
// index / map key number / field number P, resolved against the holder as it is at that moment).
type RefName struct {
	H int `json:"h"`
	P int `json:"p"`
}

// RefHolder is a container with places for reference values.
//
//	kind: st make(struct{M T, X interface}) | ts []T | tm map[string]T | us []interface | um map[interface]interface
//	lit:  the source variables a literal of the holder is built from (ts tm us um); empty: make / empty literal
type RefHolder struct {
	Kind string `json:"kind"`
	Lit  []int  `json:"lit,omitempty"`
}

type RefStep struct {
	Op   string  `json:"op"` // store mutate read rebind bind
	Dst  RefName `json:"dst"`
	Src  RefName `json:"src"`
	Form string  `json:"form,omitempty"`
	K    int     `json:"k"`
	V    int64   `json:"v"`
}

type RefCase struct {
	RK      string      `json:"rk"` // msi map[string]int64 | um map[interface]interface | ti []int64 | us []interface
	N       [2]int      `json:"n"`  // number of initial entries of r0, r1
	Holders []RefHolder `json:"holders"`
	Steps   []RefStep   `json:"steps"`
}

const refFuncsSrc = "fset = func(p, i, x) { p[i] = x }\n" +
	"fdel = func(p, k) { delete(p, k) }"

var refTypeSrc = map[string]string{"msi": "map[string]int64", "um": "map[interface]interface", "ti": "[]int64", "us": "[]interface"}

var refMutKeys = []string{"a", "b", "k"}
var refHolderKeys = []string{"x", "y"}

func genRefName(t *rapid.T, nh int, placeWeight int) RefName {
	if nh == 0 || unbiased(t, "place?", 10) >= placeWeight {
		return RefName{H: -1, P: unbiased(t, "var", 2)}
	}
	return RefName{H: unbiased(t, "holder", nh), P: unbiased(t, "place", 4)}
}

func genRefStore(t *rapid.T) RefCase {
	c := RefCase{RK: choose(t, "rk", 5, "msi", 2, "um", 2, "ti", 1, "us")}
	c.N[0], c.N[1] = unbiased(t, "n0", 3), unbiased(t, "n1", 3)
	nh := 1 + unbiased(t, "nholders", 3)
	for i := 0; i < nh; i++ {
		hd := RefHolder{Kind: choose(t, "hkind", 4, "st", 4, "ts", 4, "tm", 1, "us", 1, "um")}
		if hd.Kind != "st" && unbiased(t, "lit?", 10) < 3 {
			for n := 1 + unbiased(t, "nlit", 2); n > 0; n-- {
				hd.Lit = append(hd.Lit, unbiased(t, "litvar", 2))
			}
		}
		c.Holders = append(c.Holders, hd)
	}
	for n := rapid.IntRange(3, 12).Draw(t, "nsteps"); n > 0; n-- {
		st := RefStep{K: unbiased(t, "k", 6), V: int64(10 + unbiased(t, "v", 90))}
		st.Op = choose(t, "op", 34, "store", 32, "mutate", 20, "read", 6, "rebind", 8, "bind")
		switch st.Op {
		case "store":
			st.Dst = RefName{H: unbiased(t, "dholder", nh), P: unbiased(t, "dplace", 4)}
			st.Src = genRefName(t, nh, 2)
			st.Form = choose(t, "sform", 8, "=", 3, "len", 2, "+=", 2, "+[]", 2, "member", 2, "call")
		case "mutate":
			st.Src = genRefName(t, nh, 5)
			st.Form = choose(t, "mform", 8, "set", 4, "del", 2, "member", 2, "fset", 1, "fdel")
		case "read":
			st.Src = genRefName(t, nh, 6)
			st.Form = choose(t, "rform", 6, "idx", 3, "len", 2, "member")
		case "rebind":
			st.Dst = RefName{H: -1, P: unbiased(t, "var", 2)}
		case "bind":
			st.Dst = RefName{H: -1, P: unbiased(t, "var", 2)}
			st.Src = RefName{H: unbiased(t, "holder", nh), P: unbiased(t, "place", 4)}
		}
		c.Steps = append(c.Steps, st)
	}
	return c
}

// ---------- the mirror ----------

type refMirror struct {
	rk      string
	typ     reflect.Type
	isMap   bool
	vars    [2]reflect.Value // addressable, of type typ
	holders []reflect.Value  // addressable
	kinds   []string
	frozen  map[string]bool // places a variable was bound to
}

func refHolderType(kind string, t reflect.Type) reflect.Type {
	switch kind {
	case "st":
		return reflect.StructOf([]reflect.StructField{{Name: "M", Type: t}, {Name: "X", Type: tIface}})
	case "ts":
		return reflect.SliceOf(t)
	case "tm":
		return reflect.MapOf(tString, t)
	case "us":
		return kindType["us"]
	case "um":
		return kindType["um"]
	}
	return nil
}

func refHolderTypeSrc(kind, rk string) string {
	switch kind {
	case "st":
		return "struct{M " + refTypeSrc[rk] + ", X interface}"
	case "ts":
		return "[]" + refTypeSrc[rk]
	case "tm":
		return "map[string]" + refTypeSrc[rk]
	}
	return ""
}

// refFresh builds a fresh source value with its anko spelling: maps with n entries, slices of 2+n elements.
func refFresh(rk string, n int, base int64) (reflect.Value, string) {
	switch rk {
	case "msi":
		if n == 0 {
			return reflect.ValueOf(map[string]int64{}), "make(map[string]int64)"
		}
		m := map[string]int64{}
		var parts []string
		for i := 0; i < n; i++ {
			m[refMutKeys[i]] = base + int64(i)
			parts = append(parts, fmt.Sprintf("%q: %d", refMutKeys[i], base+int64(i)))
		}
		return reflect.ValueOf(m), "map[string]int64{" + strings.Join(parts, ", ") + "}"
	case "um":
		m := map[interface{}]interface{}{}
		var parts []string
		for i := 0; i < n; i++ {
			m[refMutKeys[i]] = base + int64(i)
			parts = append(parts, fmt.Sprintf("%q: %d", refMutKeys[i], base+int64(i)))
		}
		return reflect.ValueOf(m), "{" + strings.Join(parts, ", ") + "}"
	case "ti":
		if n == 0 {
			return reflect.ValueOf(make([]int64, 2)), "make([]int64, 2)"
		}
		s := make([]int64, 2+n)
		parts := make([]string, len(s))
		for i := range s {
			s[i] = base + int64(i)
			parts[i] = fmt.Sprint(s[i])
		}
		return reflect.ValueOf(s), "[]int64{" + strings.Join(parts, ", ") + "}"
	case "us":
		if n == 0 {
			return reflect.ValueOf(make([]interface{}, 2)), "make([]interface, 2)"
		}
		s := make([]interface{}, 2+n)
		parts := make([]string, len(s))
		for i := range s {
			s[i] = base + int64(i)
			parts[i] = fmt.Sprint(base + int64(i))
		}
		return reflect.ValueOf(s), "[" + strings.Join(parts, ", ") + "]"
	}
	return reflect.Value{}, ""
}

// refPlace is a resolved name.
type refPlace struct {
	ok    bool
	src   string
	id    string                // identity of the place (holder, index / key / field); "" for variables
	get   func() reflect.Value  // current content (invalid: no such map entry)
	set   func(v reflect.Value) // whole-place store
	typed bool                  // declared type is T (false: interface)
	hkind string                // holder kind, "var" for variables
	hsrc  string                // the holder's name
	isrc  string                // the index / key spelling inside the holder (slice and map holders)
}

func (m *refMirror) resolve(n RefName) refPlace {
	if n.H < 0 {
		i := n.P & 1
		v := m.vars[i]
		return refPlace{ok: true, src: fmt.Sprintf("r%d", i), get: func() reflect.Value { return v }, set: func(x reflect.Value) { v.Set(x) }, typed: true, hkind: "var"}
	}
	if n.H >= len(m.holders) || n.P < 0 {
		return refPlace{}
	}
	hv, kind, hs := m.holders[n.H], m.kinds[n.H], fmt.Sprintf("h%d", n.H)
	switch kind {
	case "st":
		f := n.P & 1
		name := []string{"M", "X"}[f]
		fv := hv.Field(f)
		return refPlace{ok: true, src: hs + "." + name, id: hs + "." + name, get: func() reflect.Value { return fv }, set: func(x reflect.Value) { fv.Set(x) }, typed: f == 0, hkind: kind, hsrc: hs}
	case "ts", "us":
		if hv.Len() == 0 {
			return refPlace{}
		}
		i := n.P % hv.Len()
		is := fmt.Sprint(i)
		return refPlace{ok: true, src: hs + "[" + is + "]", id: hs + "[" + is + "]", get: func() reflect.Value { return m.holders[n.H].Index(i) },
			set: func(x reflect.Value) { m.holders[n.H].Index(i).Set(x) }, typed: kind == "ts", hkind: kind, hsrc: hs, isrc: is}
	case "tm", "um":
		key := refHolderKeys[n.P%len(refHolderKeys)]
		kv := reflect.ValueOf(key)
		if kind == "um" {
			kv = reflect.ValueOf(interface{}(key))
		}
		is := fmt.Sprintf("%q", key)
		return refPlace{ok: true, src: hs + "[" + is + "]", id: hs + "[" + is + "]", get: func() reflect.Value { return hv.MapIndex(kv) },
			set: func(x reflect.Value) { hv.SetMapIndex(kv, x) }, typed: kind == "tm", hkind: kind, hsrc: hs, isrc: is}
	}
	return refPlace{}
}

// referent gives the slice / map a name currently denotes (invalid: nil, or no such entry).
func referent(p refPlace) reflect.Value {
	if !p.ok {
		return reflect.Value{}
	}
	v := unwrap(p.get())
	if !v.IsValid() || (v.Kind() != reflect.Map && v.Kind() != reflect.Slice) || v.IsNil() {
		return reflect.Value{}
	}
	return v
}

// namesOf counts the names (variables and places) that denote the given map / backing array.
func (m *refMirror) namesOf(ref reflect.Value) int {
	n := 0
	same := func(v reflect.Value) {
		v = unwrap(v)
		if v.IsValid() && v.Kind() == ref.Kind() && !v.IsNil() && v.Pointer() == ref.Pointer() {
			n++
		}
	}
	same(m.vars[0])
	same(m.vars[1])
	for i, hv := range m.holders {
		switch m.kinds[i] {
		case "st":
			same(hv.Field(0))
			same(hv.Field(1))
		case "ts", "us":
			for j := 0; j < hv.Len(); j++ {
				same(hv.Index(j))
			}
		default:
			it := hv.MapRange()
			for it.Next() {
				same(it.Value())
			}
		}
	}
	return n
}

func oracleRefStore(c RefCase, o *h.Obs) *h.Fail {
	typ, okKind := kindType[c.RK]
	if _, has := refTypeSrc[c.RK]; !has || !okKind || len(c.Holders) == 0 || len(c.Holders) > 4 {
		o.Excluded = "invalid_case"
		return nil
	}
	m := &refMirror{rk: c.RK, typ: typ, isMap: typ.Kind() == reflect.Map, frozen: map[string]bool{}}
	e := env.NewEnv()
	if _, err := ank.Exec(e, refFuncsSrc); err != nil {
		return h.Failf("C10|refstore|setup", "cannot define helper functions: %v", err)
	}
	var hist []string
	seen := map[string]bool{}
	class := func(format string, args ...interface{}) {
		s := fmt.Sprintf(format, args...)
		if !seen[s] {
			seen[s] = true
			o.Class(s)
		}
	}
	failMsg := func(src string, format string, args ...interface{}) string {
		return fmt.Sprintf("history:\n%s\n>>> %s\n", strings.Join(hist, "\n"), src) + fmt.Sprintf(format, args...)
	}
	liveVars := 0
	// compare every variable with its mirror
	compare := func() (name, role, got, want string) {
		check := func(nm, rl string, w reflect.Value) bool {
			g, err := e.Get(nm)
			if err != nil {
				name, role, got, want = nm, rl, "error: "+err.Error(), ank.Describe(w.Interface())
				return false
			}
			if !eq(reflect.ValueOf(g), w) {
				name, role, got, want = nm, rl, ank.Describe(g), ank.Describe(w.Interface())
				return false
			}
			return true
		}
		for i := 0; i < liveVars; i++ {
			if !check(fmt.Sprintf("r%d", i), "var", m.vars[i]) {
				return
			}
		}
		for i := range m.holders {
			if !check(fmt.Sprintf("h%d", i), "holder:"+m.kinds[i], m.holders[i]) {
				return
			}
		}
		return
	}
	// run executes one statement that the model expects to succeed; read != nil: the statement's value is compared
	run := func(op, src string, read *reflect.Value, apply func()) *h.Fail {
		got, err := ank.Exec(e, src)
		if _, isParse := err.(*parser.Error); isParse {
			return h.Failf("C10|refstore|generator|parse-error|"+op, "%s", failMsg(src, "parse error: %v", err))
		}
		if hp, ok := ank.IsHostPanic(err); ok {
			return h.Failf("C10|refstore|panic|"+op+"|"+c.RK, "%s", failMsg(src, "escaped Go panic: %v", hp.Value))
		}
		if err != nil {
			return h.Failf("C10|refstore|unexpected-error|"+op+"|"+c.RK, "%s", failMsg(src, "model: the Go operation succeeds\nanko error: %v", err))
		}
		if read != nil && !eq(reflect.ValueOf(got), *read) {
			var w interface{}
			if u := unwrap(*read); u.IsValid() {
				w = u.Interface()
			}
			return h.Failf("C10|refstore|read-value|"+op+"|"+c.RK, "%s", failMsg(src, "model: %s\nanko: %s", ank.Describe(w), ank.Describe(got)))
		}
		if apply != nil {
			apply()
		}
		hist = append(hist, src)
		if name, role, g, w := compare(); name != "" {
			return h.Failf("C10|refstore|state|"+op+"|"+c.RK+"|"+role,
				"history (last line is the failing step):\n%s\nafter it variable %s differs (a slice / map stored in a container is the one the variable names: Go's conversion of a value to its own type is the value itself)\nmodel: %s\nanko:  %s",
				strings.Join(hist, "\n"), name, w, g)
		}
		return nil
	}

	// initialisation: the two source variables, then the holders
	for i := range m.vars {
		m.vars[i] = reflect.New(typ).Elem()
		v, src := refFresh(c.RK, c.N[i]%3, int64(1+i*4))
		vi := i
		liveVars = i + 1
		if f := run("init", fmt.Sprintf("r%d = %s", i, src), nil, func() { m.vars[vi].Set(v) }); f != nil {
			return f
		}
	}
	for i, hd := range c.Holders {
		ht := refHolderType(hd.Kind, typ)
		if ht == nil {
			o.Excluded = "invalid_case"
			return nil
		}
		hv := reflect.New(ht).Elem()
		var src string
		lit := hd.Lit
		if len(lit) > 2 {
			lit = lit[:2]
		}
		names := make([]string, len(lit))
		for j, v := range lit {
			names[j] = fmt.Sprintf("r%d", v&1)
		}
		switch hd.Kind {
		case "st":
			src = "make(" + refHolderTypeSrc("st", c.RK) + ")"
			lit = nil
		case "ts", "us":
			if len(lit) == 0 {
				hv.Set(reflect.MakeSlice(ht, 2, 2))
				src = "make(" + refHolderTypeSrc("ts", c.RK) + ", 2)"
				if hd.Kind == "us" {
					src = "[nil, nil]"
				}
				break
			}
			s := reflect.MakeSlice(ht, len(lit), len(lit))
			for j, v := range lit {
				s.Index(j).Set(m.vars[v&1])
			}
			hv.Set(s)
			src = "[" + strings.Join(names, ", ") + "]"
			if hd.Kind == "ts" {
				src = refHolderTypeSrc("ts", c.RK) + "{" + strings.Join(names, ", ") + "}"
			}
		case "tm", "um":
			mp := reflect.MakeMap(ht)
			parts := make([]string, len(lit))
			for j, v := range lit {
				mp.SetMapIndex(reflect.ValueOf(refHolderKeys[j]).Convert(ht.Key()), m.vars[v&1])
				parts[j] = fmt.Sprintf("%q: %s", refHolderKeys[j], names[j])
			}
			hv.Set(mp)
			switch {
			case hd.Kind == "um":
				src = "{" + strings.Join(parts, ", ") + "}"
			case len(lit) == 0:
				src = "make(" + refHolderTypeSrc("tm", c.RK) + ")"
			default:
				src = refHolderTypeSrc("tm", c.RK) + "{" + strings.Join(parts, ", ") + "}"
			}
		}
		m.holders = append(m.holders, hv)
		m.kinds = append(m.kinds, hd.Kind)
		if len(lit) > 0 {
			class("refstore:store:%s:literal", hd.Kind)
		}
		if f := run("init", fmt.Sprintf("h%d = %s", i, src), nil, nil); f != nil {
			return f
		}
	}
	ninit := len(hist)

	sharedMut := 0
	for si := range c.Steps {
		st := &c.Steps[si]
		var fail *h.Fail
		switch st.Op {
		case "store":
			dst, sp := m.resolve(st.Dst), m.resolve(st.Src)
			if !dst.ok || dst.hkind == "var" || !sp.ok {
				class("refstore:skip:no_such_place")
				continue
			}
			ref := referent(sp)
			if !ref.IsValid() {
				class("refstore:skip:store_of_nil")
				continue
			}
			if sp.id != "" && sp.id == dst.id {
				class("refstore:skip:self_store")
				continue
			}
			form := st.Form
			hv := m.holders[st.Dst.H]
			switch dst.hkind {
			case "st":
				form = "="
			case "ts", "us":
				switch form {
				case "member":
					form = "="
				case "+=":
					if !m.isMap {
						form = "+[]" // a bare slice operand of + is concatenated, not stored
					}
				}
				if form == "+[]" && dst.hkind == "ts" && c.RK == "us" {
					form = "len" // [][]interface + [x]: [x] is an element as well as a list of elements
				}
				if form == "+[]" && dst.hkind == "ts" && c.RK == "ti" {
					// left open: `rows + [r]` on a [][]int64 rebuilds every row of the list operand (vm.go appendSlice), the
					// appended row is a copy of r; Go has no + between a [][]int64 and a list, so the model is a matter of reading
					class("refstore:open:row_appended_through_a_list_operand")
					form = "len"
				}
				if (form == "len" || form == "+=" || form == "+[]") && hv.Len() >= 5 {
					form = "="
				}
			default:
				if form != "member" && form != "call" {
					form = "="
				}
			}
			if (form == "=" || form == "call" || form == "member") && m.frozen[dst.id] {
				class("refstore:skip:place_bound_to_a_variable")
				continue
			}
			var src string
			apply := func() { dst.set(ref) }
			appendIt := func() {
				h := m.holders[st.Dst.H]
				x := reflect.New(h.Type().Elem()).Elem()
				x.Set(ref)
				h.Set(reflect.Append(h, x))
			}
			switch form {
			case "=":
				src = dst.src + " = " + sp.src
			case "member":
				src = dst.hsrc + "." + strings.Trim(dst.isrc, `"`) + " = " + sp.src
			case "call":
				src = "fset(" + dst.hsrc + ", " + dst.isrc + ", " + sp.src + ")"
			case "len":
				src = fmt.Sprintf("%s[%d] = %s", dst.hsrc, hv.Len(), sp.src)
				apply = appendIt
			case "+=":
				src = dst.hsrc + " += " + sp.src
				apply = appendIt
			case "+[]":
				src = dst.hsrc + " = " + dst.hsrc + " + [" + sp.src + "]"
				if st.K&1 == 1 {
					src = dst.hsrc + " += [" + sp.src + "]"
				}
				apply = appendIt
			}
			tcls := "interface_place"
			if dst.typed {
				tcls = "typed_place"
			}
			class("refstore:store:%s:%s:%s", dst.hkind, form, tcls)
			if sp.hkind == "var" {
				class("refstore:store_from:variable")
			} else {
				class("refstore:store_from:place_of_%s", sp.hkind)
			}
			fail = run("store", src, nil, apply)
		case "mutate", "read":
			np := m.resolve(st.Src)
			ref := referent(np)
			if !ref.IsValid() {
				class("refstore:skip:%s_through_nil_or_missing", st.Op)
				continue
			}
			via := "variable"
			if np.hkind != "var" {
				via = "place_of_" + np.hkind
			}
			names := m.namesOf(ref)
			var src string
			var apply func()
			var read *reflect.Value
			form := st.Form
			if m.isMap {
				key := refMutKeys[st.K%len(refMutKeys)]
				kv := reflect.ValueOf(key).Convert(tString)
				if c.RK == "um" {
					kv = reflect.ValueOf(interface{}(key))
				}
				val := reflect.ValueOf(st.V)
				switch st.Op + ":" + form {
				case "mutate:set":
					src = fmt.Sprintf("%s[%q] = %d", np.src, key, st.V)
					apply = func() { ref.SetMapIndex(kv, val) }
				case "mutate:member":
					src = fmt.Sprintf("%s.%s = %d", np.src, key, st.V)
					apply = func() { ref.SetMapIndex(kv, val) }
				case "mutate:fset":
					src = fmt.Sprintf("fset(%s, %q, %d)", np.src, key, st.V)
					apply = func() { ref.SetMapIndex(kv, val) }
				case "mutate:del":
					src = fmt.Sprintf("delete(%s, %q)", np.src, key)
					apply = func() { ref.SetMapIndex(kv, reflect.Value{}) }
				case "mutate:fdel":
					src = fmt.Sprintf("fdel(%s, %q)", np.src, key)
					apply = func() { ref.SetMapIndex(kv, reflect.Value{}) }
				case "read:idx", "read:member":
					src = fmt.Sprintf("%s[%q]", np.src, key)
					if form == "member" {
						src = np.src + "." + key
					}
					r := ref.MapIndex(kv)
					if !r.IsValid() {
						r = nilIface()
					}
					read = &r
				case "read:len":
					src = "len(" + np.src + ")"
					r := reflect.ValueOf(int64(ref.Len()))
					read = &r
				default:
					o.Excluded = "invalid_case"
					return nil
				}
			} else {
				i := st.K % ref.Len()
				val := reflect.ValueOf(st.V)
				switch st.Op + ":" + form {
				case "mutate:set", "mutate:del", "mutate:member":
					form = "set"
					src = fmt.Sprintf("%s[%d] = %d", np.src, i, st.V)
					apply = func() { ref.Index(i).Set(val) }
				case "mutate:fset", "mutate:fdel":
					form = "fset"
					src = fmt.Sprintf("fset(%s, %d, %d)", np.src, i, st.V)
					apply = func() { ref.Index(i).Set(val) }
				case "read:idx", "read:member":
					form = "idx"
					src = fmt.Sprintf("%s[%d]", np.src, i)
					r := ref.Index(i)
					read = &r
				case "read:len":
					src = "len(" + np.src + ")"
					r := reflect.ValueOf(int64(ref.Len()))
					read = &r
				default:
					o.Excluded = "invalid_case"
					return nil
				}
			}
			class("refstore:%s:%s:via_%s", st.Op, form, via)
			if names >= 2 {
				class("refstore:%s:value_has_%d_names", st.Op, min(names, 4))
				if st.Op == "mutate" {
					sharedMut++
				}
			}
			fail = run(st.Op, src, read, apply)
		case "rebind":
			i := st.Dst.P & 1
			v, src := refFresh(c.RK, st.K%3, st.V)
			class("refstore:rebind_variable")
			fail = run("rebind", fmt.Sprintf("r%d = %s", i, src), nil, func() { m.vars[i].Set(v) })
		case "bind":
			np := m.resolve(st.Src)
			ref := referent(np)
			if !np.ok || np.hkind == "var" || !ref.IsValid() {
				class("refstore:skip:bind_of_nil_or_missing")
				continue
			}
			i := st.Dst.P & 1
			m.frozen[np.id] = true
			class("refstore:bind_variable_to:place_of_%s", np.hkind)
			fail = run("bind", fmt.Sprintf("r%d = %s", i, np.src), nil, func() { m.vars[i].Set(ref) })
		default:
			o.Excluded = "invalid_case"
			return nil
		}
		if fail != nil {
			return fail
		}
	}
	o.Key = strings.Join(hist, "\n")
	o.Note = o.Key
	o.NonTrivial = sharedMut >= 1 && len(hist)-ninit >= 3
	if sharedMut >= 1 {
		class("refstore:history:mutation_of_a_value_with_two_names")
	}
	class("refstore:kind:%s", c.RK)
	return nil
}
