// C20, sub-check `computed` (added after the seventh round): a value that an operation computed behaves like the
// same value spelled as a literal - also under & and a write through the pointer - and what is written through a
// pointer never changes what later operations compute.
//
// The other two sub-checks create every operand value from a LITERAL (`v0 = 5`) and then vary the route the value
// takes. Here the route stays and the origin varies: the chained program obtains the value as the result of an
// operation (`2 + 3`, `len("abcde")`, `-n`, `^n`, `7 % 6`, `10 >> 1`, `4; t++`, `"a" + "b"`, `!false`, `1.5 + 1.0` ...),
// the baseline spells it. The value is kept in a holder (x = / var / several targets / parameter / function result
// / copy of another variable / element of a list or of a typed slice), then its address is taken and something is
// written through the pointer (`*p = w`, `**q = w`, `*&x = w`, `*p += d`, `*p++`, a script function storing through
// its parameter, a Go function with a typed pointer parameter, a Go function that stores through any pointer -
// the shape of Scan / Unmarshal), then the original value is written back the same way.
//
// Two things are asserted:
//
//  1. law (inside ONE program, no reference needed): a list of observer expressions over literal operands - the
//     literal itself, other computations of the same value, a computation of the written value - is evaluated
//     before the write, after the write and after the write-back; the three lists are equal. "The result of every
//     operation depends only on the values of its operands": the operands are literals, so nothing that happened
//     in between may show.
//  2. metamorphic: the baseline program and the computed program agree on error-or-success, on the result (the
//     three lists, x, another variable that got the same computed value earlier, the pointee, the dynamic type
//     of the pointer) and on their dynamic types.
//
// The expected value of a computation comes from Go (int64 / float64 / string arithmetic on operands chosen so
// that nothing overflows or rounds); only the spelling of the baseline literal depends on it.
package c20

import (
	"context"
	"fmt"
	"math"
	"reflect"
	"strings"
	"unicode/utf8"

	"github.com/mattn/anko/env"
	"github.com/mattn/anko/parser"
	"github.com/mattn/anko/vm"
	"pgregory.net/rapid"

	"verif/internal/ank"
	"verif/internal/h"
	"verif/internal/vals"
)

// CForm is one way of computing a value: the operation and one small parameter (the second operand, the split
// position, ...).
type CForm struct {
	F string `json:"f"`
	P int64  `json:"p,omitempty"`
}

// CCase is one case of the computed sub-check.
type CCase struct {
	V      Val     `json:"v"`              // the value
	W      Val     `json:"w"`              // what is written through the pointer (same kind, other content)
	Form   CForm   `json:"form"`           // how the chained program computes V
	Wrap   string  `json:"wrap,omitempty"` // one hop around the computation
	Holder string  `json:"holder"`         // how the value is kept
	Route  string  `json:"route"`          // how the write reaches the pointer
	Obs    []CForm `json:"obs"`            // observer computations of V
	WForm  CForm   `json:"wform"`          // observer computation of W
	YForm  CForm   `json:"yform"`          // computation of V kept in another variable before the write
}

// ---------------------------------------------------------------- values

var compIntPool = []int64{0, 1, 2, 3, -1, -2, 4, 5, 6, 7, 8, 9, 10, 12, 16, 31, 32, 63, 64, 100, 127, 128, 255, 256, 1000, 1023, 1024,
	4094, 4095, 4096, 4097, -4096, 65535, 65536, 1 << 31, 1 << 32, 1 << 53, 1<<53 + 1, -(1 << 53) - 1, 1 << 62, math.MaxInt64, math.MinInt64}

// floats whose halves and doubles are exact
var compFloatPool = []float64{0, 0.5, 1, 1.5, -1, 2, 2.5, 3, -2.5, 7.25, 100.25, 4095, 4096.5, 65536, 1e6}

var compStrPool = []string{"", "a", "ab", "abc", "k", "1", "5", "-1", "true", "x y", "héllo", "abcde", "zz"}

func genCompVal(t *rapid.T, k string) Val {
	switch k {
	case "int":
		if rapid.IntRange(0, 9).Draw(t, "ismall") < 5 {
			return Val{K: "int", I: rapid.Int64Range(-3, 40).Draw(t, "i")}
		}
		return Val{K: "int", I: pick(t, "ipool", compIntPool)}
	case "float":
		return Val{K: "float", FB: math.Float64bits(pick(t, "fpool", compFloatPool))}
	case "str":
		return Val{K: "str", S: pick(t, "spool", compStrPool)}
	}
	return Val{K: pick(t, "bool", []string{"true", "false"})}
}

func compKind(v Val) string {
	switch v.K {
	case "true", "false":
		return "bool"
	}
	return v.K
}

func sameVal(a, b Val) bool { return a.K == b.K && a.I == b.I && a.FB == b.FB && a.S == b.S }

// ---------------------------------------------------------------- computations

var compForms = map[string][]string{
	"int": {"add", "add", "sub", "sub", "mul1", "mulfact", "neg", "bitnot", "mod", "shl", "shr", "and", "or", "len_str", "len_list", "len_map",
		"inc", "dec", "addassign", "subassign", "count"},
	"float": {"fadd", "fsub", "fmul1", "fneg", "fdiv", "finc"},
	"str":   {"concat", "concat", "concat_empty", "repeat1", "slice", "sadd"},
	"bool":  {"not", "eq", "ne", "lt", "and_b", "or_b", "in"},
}

// intOperand spells an integer operand (a negative one in parentheses).
func intOperand(v int64) string {
	if v < 0 {
		return "(" + vals.IntLit(v) + ")"
	}
	return vals.IntLit(v)
}

func floatOperand(f float64) string {
	s := vals.FloatLit(f)
	if strings.HasPrefix(s, "-") {
		return "(" + s + ")"
	}
	return s
}

func isASCII(s string) bool {
	for i := 0; i < len(s); i++ {
		if s[i] >= 0x80 {
			return false
		}
	}
	return true
}

// compExpr renders the computation f of the value v: statements to run first (helper variables carry the tag,
// so that several computations do not share names) and the expression. ok is false when the form cannot
// produce the value without overflow / rounding (the generator never draws such a pair).
func compExpr(v Val, f CForm, tag string) (pre []string, expr string, ok bool) {
	p := f.P
	if p < 1 {
		p = 1
	}
	n := "c" + tag
	switch compKind(v) {
	case "int":
		V := v.I
		switch f.F {
		case "add":
			if V < math.MinInt64+p {
				return nil, "", false
			}
			return nil, intOperand(V-p) + " + " + intOperand(p), true
		case "sub":
			if V > math.MaxInt64-p {
				return nil, "", false
			}
			return nil, intOperand(V+p) + " - " + intOperand(p), true
		case "mul1":
			if p%2 == 0 {
				return nil, "1 * " + intOperand(V), true
			}
			return nil, intOperand(V) + " * 1", true
		case "mulfact":
			if p < 2 || V%p != 0 {
				return nil, "", false
			}
			return nil, intOperand(V/p) + " * " + intOperand(p), true
		case "neg":
			if V == math.MinInt64 {
				return nil, "", false
			}
			return []string{n + " = " + vals.IntLit(-V)}, "-" + n, true
		case "bitnot":
			return []string{n + " = " + vals.IntLit(^V)}, "^" + n, true
		case "mod":
			if V < 0 || V > 1<<40 {
				return nil, "", false
			}
			return nil, intOperand(V+(V+p)) + " % " + intOperand(V+p), true
		case "shl":
			if V%2 != 0 {
				return nil, "", false
			}
			return nil, intOperand(V/2) + " << 1", true
		case "shr":
			if V > 1<<61 || V < -(1<<61) {
				return nil, "", false
			}
			return nil, intOperand(V*2) + " >> 1", true
		case "and":
			if p%2 == 0 {
				return nil, intOperand(V) + " & " + intOperand(V), true
			}
			return nil, intOperand(V) + " & (-1)", true
		case "or":
			if p%2 == 0 {
				return nil, intOperand(V) + " | " + intOperand(V), true
			}
			return nil, intOperand(V) + " | 0", true
		case "len_str":
			if V < 0 || V > 64 {
				return nil, "", false
			}
			return nil, "len(" + vals.StrLit(strings.Repeat("a", int(V))) + ")", true
		case "len_list":
			if V < 0 || V > 12 {
				return nil, "", false
			}
			return nil, "len([" + strings.TrimSuffix(strings.Repeat("0, ", int(V)), ", ") + "])", true
		case "len_map":
			if V < 0 || V > 6 {
				return nil, "", false
			}
			var parts []string
			for i := 0; i < int(V); i++ {
				parts = append(parts, fmt.Sprintf("%d: 0", i))
			}
			return nil, "len({" + strings.Join(parts, ", ") + "})", true
		case "inc":
			if V == math.MinInt64 {
				return nil, "", false
			}
			return []string{n + " = " + vals.IntLit(V-1), n + "++"}, n, true
		case "dec":
			if V == math.MaxInt64 {
				return nil, "", false
			}
			return []string{n + " = " + vals.IntLit(V+1), n + "--"}, n, true
		case "addassign":
			if V < math.MinInt64+p {
				return nil, "", false
			}
			return []string{n + " = " + vals.IntLit(V-p), n + " += " + intOperand(p)}, n, true
		case "subassign":
			if V > math.MaxInt64-p {
				return nil, "", false
			}
			return []string{n + " = " + vals.IntLit(V+p), n + " -= " + intOperand(p)}, n, true
		case "count":
			// a loop counter
			if V < 0 || V > 9 {
				return nil, "", false
			}
			return []string{n + " = 0", "for " + n + "i = 0; " + n + "i < " + vals.IntLit(V) + "; " + n + "i++ {", n + "++", "}"}, n, true
		}
	case "float":
		F := math.Float64frombits(v.FB)
		if math.IsNaN(F) || math.IsInf(F, 0) || math.Abs(F) > 1e9 || F*4 != math.Trunc(F*4) {
			return nil, "", false
		}
		switch f.F {
		case "fadd":
			return nil, floatOperand(F-0.5) + " + 0.5", true
		case "fsub":
			return nil, floatOperand(F+0.5) + " - 0.5", true
		case "fmul1":
			return nil, floatOperand(F) + " * 1.0", true
		case "fneg":
			if F == 0 {
				return nil, "", false
			}
			return []string{n + " = " + vals.FloatLit(-F)}, "-" + n, true
		case "fdiv":
			return nil, floatOperand(F*2) + " / 2.0", true
		case "finc":
			return []string{n + " = " + vals.FloatLit(F-0.5), n + " += 0.5"}, n, true
		}
	case "str":
		s := v.S
		rs := []rune(s)
		switch f.F {
		case "concat":
			k := int(p) % (len(rs) + 1)
			return nil, vals.StrLit(string(rs[:k])) + " + " + vals.StrLit(string(rs[k:])), true
		case "concat_empty":
			if p%2 == 0 {
				return nil, `"" + ` + vals.StrLit(s), true
			}
			return nil, vals.StrLit(s) + ` + ""`, true
		case "repeat1":
			return nil, vals.StrLit(s) + " * 1", true
		case "slice":
			if !isASCII(s) {
				return nil, "", false
			}
			return nil, vals.StrLit("Q"+s+"Z") + fmt.Sprintf("[1:%d]", 1+len(s)), true
		case "sadd":
			k := int(p) % (len(rs) + 1)
			return []string{n + " = " + vals.StrLit(string(rs[:k])), n + " += " + vals.StrLit(string(rs[k:]))}, n, true
		}
	case "bool":
		T := v.K == "true"
		pickB := func(whenTrue, whenFalse string) string {
			if T {
				return whenTrue
			}
			return whenFalse
		}
		switch f.F {
		case "not":
			return nil, pickB("!false", "!true"), true
		case "eq":
			return nil, pickB(fmt.Sprintf("%d == %d", p, p), fmt.Sprintf("%d == %d", p, p+1)), true
		case "ne":
			return nil, pickB(fmt.Sprintf("%d != %d", p, p+1), fmt.Sprintf("%d != %d", p, p)), true
		case "lt":
			return nil, pickB(fmt.Sprintf("%d < %d", p, p+1), fmt.Sprintf("%d < %d", p+1, p)), true
		case "and_b":
			return nil, pickB("true && true", "true && false"), true
		case "or_b":
			return nil, pickB("false || true", "false || false"), true
		case "in":
			return nil, pickB(fmt.Sprintf("%d in [%d]", p, p), fmt.Sprintf("%d in [%d]", p, p+1)), true
		}
	}
	return nil, "", false
}

// genForm draws one of the forms that can produce v.
func genForm(t *rapid.T, label string, v Val) CForm {
	p := rapid.Int64Range(1, 9).Draw(t, label+"-p")
	var usable []string
	for _, f := range compForms[compKind(v)] {
		if _, _, ok := compExpr(v, CForm{F: f, P: p}, "t"); ok {
			usable = append(usable, f)
		}
	}
	// every kind has forms without a precondition (mul1, concat, not; fmul1 for the floats of the pool)
	return CForm{F: pick(t, label+"-form", usable), P: p}
}

// ---------------------------------------------------------------- holders, routes

var compWraps = []string{"", "", "", "", "", "paren", "tern", "coal", "scall", "gocall"}

// holders: how the value is kept before its address is taken. "direct" takes the address of the expression
// itself (route ptr only).
var compHolders = []string{"let", "let", "let", "var", "multi", "multivar", "param", "fnret", "copy", "elem_u", "elem_t", "mapval", "direct"}

// routes: how something is written through a pointer to the holder.
var compRoutes = []string{"ptr", "ptr", "ptr2", "derefaddr", "fnptr", "gotyped", "gotyped", "goscan", "goscan", "ptrinc", "ptraddassign"}

var compTypeName = map[string]string{"int": "int64", "float": "float64", "str": "string", "bool": "bool"}
var compSetter = map[string]string{"int": "gseti", "float": "gsetf", "str": "gsets", "bool": "gsetb"}

func genCCase(t *rapid.T) CCase {
	var c CCase
	k := pick(t, "kind", []string{"int", "int", "int", "int", "int", "float", "str", "bool"})
	c.V = genCompVal(t, k)
	for tries := 0; ; tries++ {
		c.W = genCompVal(t, k)
		if !sameVal(c.V, c.W) {
			break
		}
		if tries > 20 {
			// two draws from a pool keep colliding only while shrinking
			switch k {
			case "int":
				c.W = Val{K: "int", I: c.V.I ^ 64}
			case "float":
				c.W = Val{K: "float", FB: math.Float64bits(math.Float64frombits(c.V.FB) + 8)}
			case "str":
				c.W = Val{K: "str", S: c.V.S + "w"}
			default:
				c.W = Val{K: map[string]string{"true": "false", "false": "true"}[c.V.K]}
			}
			break
		}
	}
	c.Form = genForm(t, "x", c.V)
	c.Wrap = pick(t, "wrap", compWraps)
	c.Route = pick(t, "route", compRoutes)
	if (c.Route == "ptrinc" || c.Route == "ptraddassign") && k != "int" {
		c.Route = "ptr"
	}
	c.Holder = pick(t, "holder", compHolders)
	if c.Holder == "direct" && c.Route != "ptr" && c.Route != "ptr2" && c.Route != "ptrinc" && c.Route != "ptraddassign" {
		c.Holder = "let"
	}
	nobs := rapid.IntRange(1, 3).Draw(t, "nobs")
	for i := 0; i < nobs; i++ {
		c.Obs = append(c.Obs, genForm(t, fmt.Sprintf("o%d", i), c.V))
	}
	c.WForm = genForm(t, "w", c.W)
	c.YForm = genForm(t, "y", c.V)
	return c
}

// cbuild renders the program; computed selects the origin of the value (false: the literal).
func cbuild(c CCase, computed bool) (string, bool) {
	var b strings.Builder
	line := func(s ...string) {
		for _, l := range s {
			b.WriteString(l)
			b.WriteString("\n")
		}
	}
	V, W := c.V.lit(), c.W.lit()
	k := compKind(c.V)
	// the value: computed or spelled
	E := V
	if computed {
		pre, e, ok := compExpr(c.V, c.Form, "x")
		if !ok {
			return "", false
		}
		line(pre...)
		E = e
	}
	if strings.HasPrefix(E, "-") || (c.Wrap != "" && strings.Contains(E, " ")) {
		// syntax only: the operation stays the operand of the hop
		E = "(" + E + ")"
	}
	if c.Wrap == "sfn" {
		return "", false
	}
	E = wrapExpr(c.Wrap, E)
	// observers: the literal, other computations of V, a computation of W
	obs := []string{V}
	// every observation performs the operations again (the helper statements of n++, -n, ... are part of it)
	var obsPre []string
	for i, f := range c.Obs {
		pre, e, ok := compExpr(c.V, f, fmt.Sprintf("o%d", i))
		if !ok {
			return "", false
		}
		obsPre = append(obsPre, pre...)
		obs = append(obs, e)
	}
	{
		pre, e, ok := compExpr(c.W, c.WForm, "w")
		if !ok {
			return "", false
		}
		obsPre = append(obsPre, pre...)
		obs = append(obs, e)
	}
	line("func hobs() {")
	line(obsPre...)
	line("return ["+strings.Join(obs, ", ")+"]", "}")
	{
		pre, e, ok := compExpr(c.V, c.YForm, "y")
		if !ok {
			return "", false
		}
		line(pre...)
		line("y = " + e)
	}
	line("func hw(p, w) { *p = w }")
	// the body: holder, observations, write, observations, write-back, observations
	var body []string
	target := "x"
	switch c.Holder {
	case "let":
		body = append(body, "x = "+E)
	case "var":
		body = append(body, "var x = "+E)
	case "multi":
		body = append(body, "x, z = "+E+", 0")
	case "multivar":
		body = append(body, "var z, x = 0, "+E)
	case "param":
		// x is the parameter of hmain
	case "fnret":
		body = append(body, "func mk() { return "+E+" }", "x = mk()")
	case "copy":
		body = append(body, "t = "+E, "x = t")
	case "elem_u":
		body = append(body, "hl = [0, "+E+"]", "x = hl[1]")
	case "elem_t":
		body = append(body, "ha = make([]"+compTypeName[k]+", 2)", "ha[1] = "+E, "x = ha[1]")
	case "mapval":
		body = append(body, `hm = {"k": `+E+`}`, "x = hm.k")
	case "direct":
		target = "(" + E + ")"
		body = append(body, "x = nil")
	default:
		return "", false
	}
	var write, restore string
	hasP := true
	switch c.Route {
	case "ptr":
		body = append(body, "p = &"+target)
		write, restore = "*p = "+W, "*p = "+V
	case "ptr2":
		body = append(body, "p = &"+target, "q = &p")
		write, restore = "**q = "+W, "**q = "+V
	case "ptrinc":
		body = append(body, "p = &"+target)
		write, restore = "*p++", "*p = "+V
	case "ptraddassign":
		body = append(body, "p = &"+target)
		write, restore = "*p += "+intOperand(c.Form.P+1), "*p = "+V
	case "derefaddr":
		hasP = false
		write, restore = "*&x = "+W, "*&x = "+V
	case "fnptr":
		hasP = false
		write, restore = "hw(&x, "+W+")", "hw(&x, "+V+")"
	case "gotyped":
		hasP = false
		write, restore = compSetter[k]+"(&x, "+W+")", compSetter[k]+"(&x, "+V+")"
	case "goscan":
		hasP = false
		write, restore = "gscan(&x, "+W+")", "gscan(&x, "+V+")"
	default:
		return "", false
	}
	if !hasP {
		body = append(body, "p = nil")
	}
	pt, pv := "nil", "nil"
	if hasP {
		pt, pv = "gtype(p)", "*p"
	}
	body = append(body,
		"hb = hobs()",
		write,
		"xw = x",
		"pw = "+pv,
		"ha2 = hobs()",
		restore,
		"hc = hobs()",
		"return [hb, ha2, hc, xw, x, y, "+pt+", pw, "+pv+"]")
	if c.Holder == "param" {
		line("func hmain(x) {")
		line(body...)
		line("}", "hres = hmain("+E+")")
	} else {
		line("func hmain() {")
		line(body...)
		line("}", "hres = hmain()")
	}
	line("hres")
	return b.String(), true
}

// ---------------------------------------------------------------- oracle

type compOutcome struct {
	outcome
	lists [3]string // the observer lists before the write, after it, after the write-back
	ok    bool      // the result has the expected shape
}

func runComp(src string) compOutcome {
	var out compOutcome
	stmt, perr := parser.ParseSrc(src)
	if perr != nil {
		out.parseErr = perr
		return out
	}
	e := newCompEnv()
	ctx, cancel := context.WithTimeout(context.Background(), runTimeout)
	defer cancel()
	v, err := exec(ctx, e, stmt)
	if hp, ok := ank.IsHostPanic(err); ok {
		out.panicV = ank.NormPanic(hp.Value)
		return out
	}
	if err == vm.ErrInterrupt || ctx.Err() != nil {
		out.timeout = true
		return out
	}
	out.err = err
	if err != nil {
		return out
	}
	out.typ = typeOf(v)
	out.res = normAddr(render(v, 0))
	if l, ok := v.([]interface{}); ok && len(l) == 9 {
		out.ok = true
		for i := 0; i < 3; i++ {
			out.lists[i] = normAddr(render(l[i], 0))
		}
	}
	return out
}

func newCompEnv() *env.Env {
	e := newEnv()
	e.Define("gtype", func(v interface{}) string { return fmt.Sprintf("%T", v) })
	e.Define("gseti", func(p *int64, v int64) { *p = v })
	e.Define("gsetf", func(p *float64, v float64) { *p = v })
	e.Define("gsets", func(p *string, v string) { *p = v })
	e.Define("gsetb", func(p *bool, v bool) { *p = v })
	// stores through any pointer, as Scan / Unmarshal do
	e.Define("gscan", func(p interface{}, v interface{}) {
		rv := reflect.ValueOf(p)
		if rv.Kind() == reflect.Ptr && !rv.IsNil() && rv.Elem().CanSet() {
			nv := reflect.ValueOf(v)
			if nv.IsValid() && nv.Type().AssignableTo(rv.Elem().Type()) {
				rv.Elem().Set(nv)
			}
		}
	})
	return e
}

func intMagnitude(v int64) string {
	switch {
	case v >= -1 && v <= 16:
		return "tiny"
	case v >= -4096 && v <= 4097:
		return "small"
	case v >= -(1<<32) && v <= 1<<32:
		return "medium"
	}
	return "large"
}

func compOracle(c CCase, o *h.Obs) *h.Fail {
	baseSrc, ok1 := cbuild(c, false)
	compSrc, ok2 := cbuild(c, true)
	if !ok1 || !ok2 || !utf8.ValidString(compSrc) {
		o.Excluded = "HARNESS_comp_bad_case"
		return nil
	}
	o.Key = compSrc
	o.Note = "computed " + c.Form.F + "/" + c.Holder + "/" + c.Route + " :: " + compSrc
	k := compKind(c.V)
	o.Class("comp:kind:" + k)
	o.Class("comp:form:" + c.Form.F)
	o.Class("comp:holder:" + c.Holder)
	o.Class("comp:route:" + c.Route)
	o.Class("comp:h×r:" + c.Holder + "|" + c.Route)
	o.Class("comp:f×r:" + c.Form.F + "|" + c.Route)
	if c.Wrap != "" {
		o.Class("comp:wrap:" + c.Wrap)
	} else {
		o.Class("comp:wrap:none")
	}
	for _, f := range c.Obs {
		o.Class("comp:observer:" + f.F)
	}
	if k == "int" {
		o.Class("comp:int:" + intMagnitude(c.V.I))
		o.Class("comp:int-written:" + intMagnitude(c.W.I))
	}
	if c.Holder == "elem_t" {
		// the copy read from a typed element is addressable in both programs: & gives a pointer to x itself
		o.Class("comp:constr:same-holder-in-both-programs")
	}
	b := runComp(baseSrc)
	x := runComp(compSrc)
	if b.parseErr != nil || x.parseErr != nil {
		perr, src := b.parseErr, baseSrc
		if perr == nil {
			perr, src = x.parseErr, compSrc
		}
		if ctxRef != nil {
			ctxRef.Incomplete("generated program does not parse (%v):\n%s", perr, src)
		}
		o.Excluded = "HARNESS_parse_error"
		return nil
	}
	if b.timeout || x.timeout {
		o.Excluded = "timeout_safety_net"
		return nil
	}
	if b.panicV != "" && x.panicV != "" {
		o.Excluded = "host_panic_in_both"
		return nil
	}
	site := c.Route + "|" + k
	progs := fmt.Sprintf("value %s, written %s, computation %s, holder %s, route %s, hop %q\nbaseline program:\n%s\ncomputed program:\n%s", c.V.lit(), c.W.lit(), c.Form.F, c.Holder, c.Route, c.Wrap, baseSrc, compSrc)
	if b.panicV != "" || x.panicV != "" {
		which, pv := "computed", x.panicV
		if b.panicV != "" {
			which, pv = "baseline", b.panicV
		}
		return h.Failf("C20|computed-panic|"+site, "a Go panic escaped from the %s program only: %s\n%s", which, pv, progs)
	}
	if x.err == nil {
		o.Class("comp:outcome:success")
		o.NonTrivial = true
	} else {
		o.Class("comp:outcome:error")
		o.Class("comp:error|" + c.Holder + "|" + c.Route)
	}
	// law: the observers are operations over literal operands; what was written through a pointer in between
	// cannot show in them
	for _, pr := range []struct {
		name string
		oc   compOutcome
	}{{"computed", x}, {"baseline", b}} {
		if pr.oc.err != nil || !pr.oc.ok {
			continue
		}
		l := pr.oc.lists
		if l[0] != l[1] || l[0] != l[2] {
			when := "after the write"
			if l[0] == l[1] {
				when = "after the write-back"
			}
			return h.Failf("C20|operation-result-changed-by-pointer-write|"+site,
				"in the %s program the same operations over the same literal operands gave another result %s through the pointer:\nbefore the write:     %s\nafter the write:      %s\nafter the write-back: %s\n%s",
				pr.name, when, l[0], l[1], l[2], progs)
		}
	}
	clause, detail := compare(b.outcome, x.outcome)
	if clause == "" {
		return nil
	}
	return h.Failf("C20|computed-value-differs-from-literal|"+clause+"|"+site, "%s\n(result = [observers before, after the write, after the write-back, x after the write, x, y, type of p, *p after the write, *p])\n%s", detail, progs)
}

const compRule = "computed: case = (value, computation, optional hop, holder, route of the write, observer computations); the computed program obtains the value from an operation - ints: a+b, a-b, v*1, a*b, -n, ^n, a%b, a<<1, a>>1, v&v, v&-1, v|0, len of a string / list / map, n++, n--, n+=d, n-=d, a loop counter; floats: a+0.5, a-0.5, v*1.0, -n, a/2.0, n+=0.5; strings: concatenation (every split), +\"\", *1, a slice of a longer string, +=; bools: !, ==, !=, <, &&, ||, in - where the baseline program spells the literal (operands chosen so that Go's arithmetic gives the value without overflow or rounding); hop: none, parentheses, ternary, ??, script call, Go id(); holder: x = / var / two targets (= and var) / parameter / function result / copy of another variable / element of a list / element of a typed slice / map entry / none (& of the expression itself); route: p = &x then *p = w, **q = w, *p++, *p += d, *&x = w, a script function storing through its parameter, a Go function with a typed pointer parameter, a Go function storing through any pointer; then the original value is written back by the same route; values: ints -3..40 and a pool up to the int64 limits (written value: another one), floats, strings, bools; observers = the literal, 1..3 other computations of the value and one of the written value, evaluated before the write, after it and after the write-back; asserted: the three observer lists are equal inside each program, and both programs agree on error-or-success, result and dynamic types ([the lists, x after the write, x, another variable that got the computed value before, %T of the pointer, the pointee after the write and at the end]); non-trivial = the computed program succeeds; distinct by computed source text"

func runComputed(c *h.Ctx) {
	c.Rule(compRule)
	h.Run(c, "computed", c.N(3000, 40000), genCCase, compOracle)
}
