package c20

import (
	"encoding/json"
	"fmt"
	"os"
	"sort"
	"strings"
	"testing"

	"pgregory.net/rapid"

	"verif/internal/h"
)

// TestC20Explore is a development aid (C20_EXPLORE=<n>): it runs n generated
// cases through the oracle without stopping at failures and prints every
// failure signature with its count and first example.
func TestC20Explore(t *testing.T) {
	if os.Getenv("C20_EXPLORE") == "" {
		t.Skip("development aid")
	}
	count := map[string]int{}
	first := map[string]string{}
	excl := map[string]int{}
	rapid.Check(t, func(rt *rapid.T) {
		c := genCase(rt)
		o := &h.Obs{}
		f := oracle(c, o)
		if o.Excluded != "" {
			excl[o.Excluded]++
			if o.Excluded == "timeout_safety_net" && excl[o.Excluded] < 6 {
				fmt.Println("TIMEOUT:\n" + o.Key[len(prelude):])
			}
			if o.Excluded == "HARNESS_parse_error" && excl[o.Excluded] < 6 {
				fmt.Println("PARSE ERROR:\n" + o.Key[len(prelude):])
			}
		}
		for _, cl := range o.Classes {
			if len(cl) > 5 && cl[:5] == "soft:" && os.Getenv("C20_EXPLORE_SOFT") != "" {
				b := run(c, build(c, mask(len(c.Slots), func(int) bool { return false })))
				x := run(c, o.Key)
				fmt.Printf("SOFT %s\n%s  baseline: %v\n  chained: %v\n", cl, o.Key[len(prelude):], b.err, x.err)
			}
		}
		if f != nil {
			count[f.Sig]++
			if _, ok := first[f.Sig]; !ok {
				first[f.Sig] = f.Msg
			}
		}
	})
	var sigs []string
	for s := range count {
		sigs = append(sigs, s)
	}
	sort.Strings(sigs)
	for _, s := range sigs {
		fmt.Printf("%5d %s\n", count[s], s)
	}
	if os.Getenv("C20_EXPLORE_MSG") != "" {
		for _, s := range sigs {
			fmt.Printf("=== %s\n%s\n", s, first[s])
		}
	}
	fmt.Println("excluded:", excl)
}

// TestC20Probe judges one case given as JSON in C20_PROBE (development aid).
func TestC20Probe(t *testing.T) {
	js := os.Getenv("C20_PROBE")
	if js == "" {
		t.Skip("development aid")
	}
	var c Case
	if err := json.Unmarshal([]byte(js), &c); err != nil {
		t.Fatal(err)
	}
	o := &h.Obs{}
	f := oracle(c, o)
	fmt.Println("key:\n" + o.Key[len(prelude):])
	fmt.Println("classes:", o.Classes, "excluded:", o.Excluded, "nontrivial:", o.NonTrivial)
	if f != nil {
		fmt.Println("FAIL", f.Sig)
		fmt.Println(f.Msg)
	} else {
		fmt.Println("held")
	}
}

// TestC20Src runs the anko source in the file named by C20_SRC in the check's environment and prints the
// outcome (development aid). Programs are separated by lines of "----".
func TestC20Src(t *testing.T) {
	fn := os.Getenv("C20_SRC")
	if fn == "" {
		t.Skip("development aid")
	}
	data, err := os.ReadFile(fn)
	if err != nil {
		t.Fatal(err)
	}
	for _, src := range strings.Split(string(data), "\n----\n") {
		out := run(Case{}, src)
		fmt.Printf("%s\n  => res=%s err=%v panic=%q parse=%v\n", strings.TrimSpace(src), out.res, out.err, out.panicV, out.parseErr)
	}
}

// TestC20ExploreHeld is TestC20Explore for the held sub-check (C20_EXPLORE_HELD=<anything>).
func TestC20ExploreHeld(t *testing.T) {
	if os.Getenv("C20_EXPLORE_HELD") == "" {
		t.Skip("development aid")
	}
	count := map[string]int{}
	first := map[string]string{}
	excl := map[string]int{}
	outc := map[string]int{}
	rapid.Check(t, func(rt *rapid.T) {
		c := genHCase(rt)
		o := &h.Obs{}
		f := heldOracle(c, o)
		if o.Excluded != "" {
			excl[o.Excluded]++
			if o.Excluded == "HARNESS_parse_error" && excl[o.Excluded] < 6 {
				fmt.Println("PARSE ERROR:\n" + o.Key[len(prelude)+len(heldPrelude):])
			}
		}
		for _, cl := range o.Classes {
			if strings.HasPrefix(cl, "held:outcome") || strings.HasPrefix(cl, "held:error|") {
				outc[cl]++
			}
		}
		if f != nil {
			count[f.Sig]++
			if _, ok := first[f.Sig]; !ok {
				first[f.Sig] = f.Msg
			}
		}
	})
	var sigs []string
	for s := range count {
		sigs = append(sigs, s)
	}
	sort.Strings(sigs)
	for _, s := range sigs {
		fmt.Printf("%5d %s\n", count[s], s)
	}
	if os.Getenv("C20_EXPLORE_MSG") != "" {
		for _, s := range sigs {
			fmt.Printf("=== %s\n%s\n", s, first[s])
		}
	}
	fmt.Println("excluded:", excl)
	fmt.Println("outcomes:", outc)
}

// TestC20ExploreAlias (C20_EXPLORE_ALIAS=<anything>) enumerates value x hops (every single hop, and with
// C20_EXPLORE_ALIAS=2 every pair) x binder x direction x write form of the alias sub-check - including the
// struct / array values the generator leaves out - and prints every combination whose chained program
// differs from its baseline, grouped by signature and (value, last hop, binder).
func TestC20ExploreAlias(t *testing.T) {
	mode := os.Getenv("C20_EXPLORE_ALIAS")
	if mode == "" {
		t.Skip("development aid")
	}
	hops := []string{}
	seen := map[string]bool{}
	for _, hp := range aliasHops {
		if !seen[hp] {
			seen[hp] = true
			hops = append(hops, hp)
		}
	}
	var chains [][]string
	for _, a := range hops {
		chains = append(chains, []string{a})
		if mode == "2" {
			for _, b := range hops {
				chains = append(chains, []string{a, b})
			}
		}
	}
	binders := []string{}
	for _, b := range append(append([]string{}, aliasCopyBinders...), aliasShareBinders...) {
		if !seen["b:"+b] {
			seen["b:"+b] = true
			binders = append(binders, b)
		}
	}
	count := map[string]int{}
	first := map[string]string{}
	total, excl, errs := 0, map[string]int{}, 0
	for i := range aliasVals {
		v := &aliasVals[i]
		if mode == "2" && v.cat != "mod" && v.name != "sl_ints" && v.name != "mp_str" && v.name != "pt_int5" {
			continue
		}
		for _, ch := range chains {
			for _, b := range binders {
				for _, dir := range []string{"new", "old", "both"} {
					for w := range v.writes {
						if mode == "2" && (dir == "old" || w > 1) {
							continue
						}
						c := ACase{V: v.name, Chain: append([]string{}, ch...), Binder: b, Dir: dir, WN: w, WO: w}
						if os.Getenv("C20_EXPLORE_NOFIX") == "" {
							fixACase(&c)
						}
						o := &h.Obs{}
						f := aliasOracle(c, o)
						total++
						if o.Excluded != "" {
							excl[o.Excluded]++
							if o.Excluded == "HARNESS_parse_error" && excl[o.Excluded] < 6 {
								fmt.Println("PARSE ERROR:\n" + o.Key[len(prelude):])
							}
						}
						for _, cl := range o.Classes {
							if cl == "alias:outcome:error" {
								errs++
								if os.Getenv("C20_EXPLORE_ERR") != "" {
									fmt.Println("ERROR OUTCOME:", c.V, c.Chain, c.Binder, c.Dir, w)
								}
							}
						}
						if f != nil {
							k := fmt.Sprintf("%s value=%s chain=%v binder=%s", f.Sig, c.V, c.Chain, c.Binder)
							count[k]++
							if _, ok := first[k]; !ok {
								first[k] = f.Msg
							}
						}
					}
				}
			}
		}
	}
	var keys []string
	for k := range count {
		keys = append(keys, k)
	}
	sort.Strings(keys)
	for _, k := range keys {
		fmt.Printf("%5d %s\n", count[k], k)
	}
	if os.Getenv("C20_EXPLORE_MSG") != "" {
		for _, k := range keys {
			fmt.Printf("=== %s\n%s\n", k, first[k])
		}
	}
	fmt.Println("total:", total, "excluded:", excl, "baseline errors:", errs, "differing groups:", len(keys))
}

// TestC20ExploreAliasRandom (C20_EXPLORE_ALIAS_RANDOM=<anything>; -rapid.checks=<n>) runs generated cases of
// the alias sub-check through its oracle without stopping and prints the signatures.
func TestC20ExploreAliasRandom(t *testing.T) {
	if os.Getenv("C20_EXPLORE_ALIAS_RANDOM") == "" {
		t.Skip("development aid")
	}
	count := map[string]int{}
	first := map[string]string{}
	excl := map[string]int{}
	n := 0
	rapid.Check(t, func(rt *rapid.T) {
		c := genACase(rt)
		o := &h.Obs{}
		f := aliasOracle(c, o)
		n++
		if o.Excluded != "" {
			excl[o.Excluded]++
		}
		if f != nil {
			count[f.Sig]++
			if _, ok := first[f.Sig]; !ok {
				first[f.Sig] = f.Msg
			}
		}
	})
	for s, k := range count {
		fmt.Printf("%5d %s\n%s\n", k, s, first[s])
	}
	fmt.Println("cases:", n, "excluded:", excl, "signatures:", len(count))
}
