package c20

import (
	"encoding/json"
	"fmt"
	"os"
	"sort"
	"strings"
	"testing"

	"pgregory.net/rapid"

	"verif/internal/h"
)

// TestC20Explore is a development aid (C20_EXPLORE=<n>): it runs n generated
// cases through the oracle without stopping at failures and prints every
// failure signature with its count and first example.
func TestC20Explore(t *testing.T) {
	if os.Getenv("C20_EXPLORE") == "" {
		t.Skip("development aid")
	}
	count := map[string]int{}
	first := map[string]string{}
	excl := map[string]int{}
	rapid.Check(t, func(rt *rapid.T) {
		c := genCase(rt)
		o := &h.Obs{}
		f := oracle(c, o)
		if o.Excluded != "" {
			excl[o.Excluded]++
			if o.Excluded == "timeout_safety_net" && excl[o.Excluded] < 6 {
				fmt.Println("TIMEOUT:\n" + o.Key[len(prelude):])
			}
			if o.Excluded == "HARNESS_parse_error" && excl[o.Excluded] < 6 {
				fmt.Println("PARSE ERROR:\n" + o.Key[len(prelude):])
			}
		}
		for _, cl := range o.Classes {
			if len(cl) > 5 && cl[:5] == "soft:" && os.Getenv("C20_EXPLORE_SOFT") != "" {
				b := run(c, build(c, mask(len(c.Slots), func(int) bool { return false })))
				x := run(c, o.Key)
				fmt.Printf("SOFT %s\n%s  baseline: %v\n  chained: %v\n", cl, o.Key[len(prelude):], b.err, x.err)
			}
		}
		if f != nil {
			count[f.Sig]++
			if _, ok := first[f.Sig]; !ok {
				first[f.Sig] = f.Msg
			}
		}
	})
	var sigs []string
	for s := range count {
		sigs = append(sigs, s)
	}
	sort.Strings(sigs)
	for _, s := range sigs {
		fmt.Printf("%5d %s\n", count[s], s)
	}
	if os.Getenv("C20_EXPLORE_MSG") != "" {
		for _, s := range sigs {
			fmt.Printf("=== %s\n%s\n", s, first[s])
		}
	}
	fmt.Println("excluded:", excl)
}

// TestC20Probe judges one case given as JSON in C20_PROBE (development aid).
func TestC20Probe(t *testing.T) {
	js := os.Getenv("C20_PROBE")
	if js == "" {
		t.Skip("development aid")
	}
	var c Case
	if err := json.Unmarshal([]byte(js), &c); err != nil {
		t.Fatal(err)
	}
	o := &h.Obs{}
	f := oracle(c, o)
	fmt.Println("key:\n" + o.Key[len(prelude):])
	fmt.Println("classes:", o.Classes, "excluded:", o.Excluded, "nontrivial:", o.NonTrivial)
	if f != nil {
		fmt.Println("FAIL", f.Sig)
		fmt.Println(f.Msg)
	} else {
		fmt.Println("held")
	}
}

// TestC20Src runs the anko source in the file named by C20_SRC in the check's environment and prints the
// outcome (development aid). Programs are separated by lines of "----".
func TestC20Src(t *testing.T) {
	fn := os.Getenv("C20_SRC")
	if fn == "" {
		t.Skip("development aid")
	}
	data, err := os.ReadFile(fn)
	if err != nil {
		t.Fatal(err)
	}
	for _, src := range strings.Split(string(data), "\n----\n") {
		out := run(Case{}, src)
		fmt.Printf("%s\n  => res=%s err=%v panic=%q parse=%v\n", strings.TrimSpace(src), out.res, out.err, out.panicV, out.parseErr)
	}
}

// TestC20ExploreHeld is TestC20Explore for the held sub-check (C20_EXPLORE_HELD=<anything>).
func TestC20ExploreHeld(t *testing.T) {
	if os.Getenv("C20_EXPLORE_HELD") == "" {
		t.Skip("development aid")
	}
	count := map[string]int{}
	first := map[string]string{}
	excl := map[string]int{}
	outc := map[string]int{}
	rapid.Check(t, func(rt *rapid.T) {
		c := genHCase(rt)
		o := &h.Obs{}
		f := heldOracle(c, o)
		if o.Excluded != "" {
			excl[o.Excluded]++
			if o.Excluded == "HARNESS_parse_error" && excl[o.Excluded] < 6 {
				fmt.Println("PARSE ERROR:\n" + o.Key[len(prelude)+len(heldPrelude):])
			}
		}
		for _, cl := range o.Classes {
			if strings.HasPrefix(cl, "held:outcome") || strings.HasPrefix(cl, "held:error|") {
				outc[cl]++
			}
		}
		if f != nil {
			count[f.Sig]++
			if _, ok := first[f.Sig]; !ok {
				first[f.Sig] = f.Msg
			}
		}
	})
	var sigs []string
	for s := range count {
		sigs = append(sigs, s)
	}
	sort.Strings(sigs)
	for _, s := range sigs {
		fmt.Printf("%5d %s\n", count[s], s)
	}
	if os.Getenv("C20_EXPLORE_MSG") != "" {
		for _, s := range sigs {
			fmt.Printf("=== %s\n%s\n", s, first[s])
		}
	}
	fmt.Println("excluded:", excl)
	fmt.Println("outcomes:", outc)
}
