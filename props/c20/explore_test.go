package c20

import (
	"encoding/json"
	"fmt"
	"os"
	"sort"
	"testing"

	"pgregory.net/rapid"

	"verif/internal/h"
)

// TestC20Explore is a development aid (C20_EXPLORE=<n>): it runs n generated
// cases through the oracle without stopping at failures and prints every
// failure signature with its count and first example.
func TestC20Explore(t *testing.T) {
	if os.Getenv("C20_EXPLORE") == "" {
		t.Skip("development aid")
	}
	count := map[string]int{}
	first := map[string]string{}
	excl := map[string]int{}
	rapid.Check(t, func(rt *rapid.T) {
		c := genCase(rt)
		o := &h.Obs{}
		f := oracle(c, o)
		if o.Excluded != "" {
			excl[o.Excluded]++
			if o.Excluded == "HARNESS_parse_error" && excl[o.Excluded] < 6 {
				fmt.Println("PARSE ERROR:\n" + o.Key[len(prelude):])
			}
		}
		for _, cl := range o.Classes {
			if len(cl) > 5 && cl[:5] == "soft:" && os.Getenv("C20_EXPLORE_SOFT") != "" {
				b := run(c, build(c, mask(len(c.Slots), func(int) bool { return false })))
				x := run(c, o.Key)
				fmt.Printf("SOFT %s\n%s  baseline: %v\n  chained: %v\n", cl, o.Key[len(prelude):], b.err, x.err)
			}
		}
		if f != nil {
			count[f.Sig]++
			if _, ok := first[f.Sig]; !ok {
				first[f.Sig] = f.Msg
			}
		}
	})
	var sigs []string
	for s := range count {
		sigs = append(sigs, s)
	}
	sort.Strings(sigs)
	for _, s := range sigs {
		fmt.Printf("%5d %s\n", count[s], s)
	}
	if os.Getenv("C20_EXPLORE_MSG") != "" {
		for _, s := range sigs {
			fmt.Printf("=== %s\n%s\n", s, first[s])
		}
	}
	fmt.Println("excluded:", excl)
}

// TestC20Probe judges one case given as JSON in C20_PROBE (development aid).
func TestC20Probe(t *testing.T) {
	js := os.Getenv("C20_PROBE")
	if js == "" {
		t.Skip("development aid")
	}
	var c Case
	if err := json.Unmarshal([]byte(js), &c); err != nil {
		t.Fatal(err)
	}
	o := &h.Obs{}
	f := oracle(c, o)
	fmt.Println("key:\n" + o.Key[len(prelude):])
	fmt.Println("classes:", o.Classes, "excluded:", o.Excluded, "nontrivial:", o.NonTrivial)
	if f != nil {
		fmt.Println("FAIL", f.Sig)
		fmt.Println(f.Msg)
	} else {
		fmt.Println("held")
	}
}
