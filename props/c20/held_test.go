// C20, sub-check `held` (added after the seventh round): a value that was consumed stays the value it was.
//
// The provenance sub-check routes a value through FRESH containers (`[v0][0]`), so nothing can change the place
// the operand came from. Here the place has a name, and it is overwritten AFTER the operand was consumed: bound
// to a name (= / var / several targets / `x, ok = c[i]` / destructuring / for-in variable / parameter / closure
// over a parameter / channel item / returned value), or used as an earlier operand of an operation whose later
// operand runs the store (left operand of a binary operator, of `in`, switch subject, earlier call argument,
// earlier element of a literal, first bound of a slice expression, length of a make). Then the bound name / the
// result is read.
//
// Baseline = the value sits in a plain variable `pv` (`x = pv; pv = w0; x`); chained = the same value is read
// from a typed-slice element, an untyped-list element, a map entry, a struct field, a pointee, a module member,
// a field of a host struct, an element two levels down - bare or through one more hop (parentheses, ternary,
// ??, script function result, Go function result). Both programs must agree on error-or-success, on the result
// and on the final content of v0 (the value), w0 (what was stored), x, y and hfin (the place read again at the
// end: it must hold w0 in both). For the templates whose operand is the CONTAINER (destructuring, for-in,
// spread into a fixed-arity function) there is no plain-variable form; their baseline stores into a twin of the
// container instead (a frame law: a store into another container cannot change the names, so a store into this
// one may not either).
package c20

import (
	"fmt"
	"math"
	"strings"

	"pgregory.net/rapid"

	"verif/internal/h"
)

// HCase is one case of the held sub-check.
type HCase struct {
	T     string `json:"t"`              // consumer template
	Op    string `json:"op,omitempty"`   // variant
	V     Val    `json:"v"`              // the value consumed
	Z     Val    `json:"z"`              // the other operand (scalar)
	Place string `json:"place"`          // where the chained program reads the value from
	Wrap  string `json:"wrap,omitempty"` // one more hop around the read
	// How names the way the place is overwritten: "" = a store of w0, "inc" = place++, "add" = place += 1
	// (numbers and strings only)
	How string `json:"how,omitempty"`
	// Fix names the substitution the generator made to stay clear of a known finding ("" = none); counted as
	// class "held:constr:<Fix>"
	Fix string `json:"fix,omitempty"`
}

// ---------------------------------------------------------------- values

// heldKinds are the values of this sub-check: scalars, and slices / maps / a pointer / a function as reference
// values. Struct values are left out on purpose (anko treats a struct value as a reference).
var heldScalars = []string{"int", "float", "str", "true", "false", "nil"}
var heldRefs = []string{"sl_t_int64", "sl_two", "mp_t_si", "mp_str", "pt_int5", "fn1", "ch_open"}

// other returns the prelude statement that creates, in variable name, the value the place is overwritten with:
// same type as v, different content.
func other(v Val, name string) string {
	switch v.K {
	case "int":
		return name + " = " + Val{K: "int", I: v.I + 1}.lit() // wraps at MaxInt64: still another int64
	case "float":
		if math.Float64frombits(v.FB) == 7.25 {
			return name + " = 8.5"
		}
		return name + " = 7.25"
	case "str":
		return name + " = " + Val{K: "str", S: v.S + "w"}.lit()
	case "true":
		return name + " = false"
	case "false":
		return name + " = true"
	case "nil":
		return name + " = 1"
	case "sl_t_int64":
		return compoundByName["sl_t_two"].mk(name)
	case "sl_two":
		return compoundByName["sl_one"].mk(name)
	case "mp_t_si":
		return name + ` = map[string]int64{"q": 9}`
	case "mp_str":
		return compoundByName["mp_intkey"].mk(name)
	case "pt_int5":
		return compoundByName["pt_int0"].mk(name)
	case "fn1":
		return name + ` = func(a){ return ["other", a] }`
	case "ch_open":
		return name + " = make(chan int64, 4)\n" + name + " <- 30"
	}
	panic("other of " + v.K)
}

// touch is a statement that changes the storage a reference value refers to, through name ("" for scalars): the
// bound name must still refer to the storage of v0, so v0 shows the change in both programs.
func touch(v Val, name string) string {
	switch v.K {
	case "sl_t_int64", "sl_two":
		return name + "[0] = 70"
	case "mp_t_si", "mp_str":
		return name + `["t"] = 70`
	case "pt_int5":
		return "*" + name + " = 70"
	case "ch_open":
		return name + " <- 70"
	}
	return ""
}

// ---------------------------------------------------------------- places

type place struct {
	name  string
	typed bool   // spelled with the type name of the value
	index bool   // the read is an index expression c[k]
	setup string // statements putting v0 into the place; TYP = type name of the value, FLD = field of hbox
	read  string
	store string // statement storing w0 into the place
}

var places = []place{
	{name: "var", setup: "pv = v0", read: "pv", store: "pv = w0"},
	{name: "tslice", typed: true, index: true, setup: "pa = make([]TYP, 2)\npa[0] = v0", read: "pa[0]", store: "pa[0] = w0"},
	{name: "tslice_last", typed: true, index: true, setup: "pa = make([]TYP, 3)\npa[2] = v0", read: "pa[2]", store: "pa[2] = w0"},
	{name: "ulist", index: true, setup: "pa = [v0, 0]", read: "pa[0]", store: "pa[0] = w0"},
	{name: "tmap", typed: true, index: true, setup: "pa = map[string]TYP{}\npa[\"k\"] = v0", read: `pa["k"]`, store: `pa["k"] = w0`},
	{name: "umap", index: true, setup: `pa = {"k": v0}`, read: `pa["k"]`, store: `pa["k"] = w0`},
	{name: "umapdot", setup: `pa = {"k": v0}`, read: `pa.k`, store: `pa.k = w0`},
	{name: "sfield_t", typed: true, setup: "pa = make(struct{F TYP})\npa.F = v0", read: "pa.F", store: "pa.F = w0"},
	{name: "sfield_i", setup: "pa = make(struct{F interface})\npa.F = v0", read: "pa.F", store: "pa.F = w0"},
	{name: "psfield_t", typed: true, setup: "pa = new(struct{F TYP})\npa.F = v0", read: "pa.F", store: "pa.F = w0"},
	{name: "deref", typed: true, setup: "pa = new(TYP)\n*pa = v0", read: "*pa", store: "*pa = w0"},
	{name: "derefamp", setup: "pw = v0\npa = &pw", read: "*pa", store: "*pa = w0"},
	{name: "nested", typed: true, index: true, setup: "pa = make([][]TYP, 1)\npa[0] = make([]TYP, 2)\npa[0][1] = v0", read: "pa[0][1]", store: "pa[0][1] = w0"},
	{name: "inumap", typed: true, index: true, setup: "pa = {\"k\": make([]TYP, 2)}\npa[\"k\"][0] = v0", read: `pa.k[0]`, store: `pa["k"][0] = w0`},
	{name: "sfieldelem", typed: true, index: true, setup: "pa = make(struct{F []TYP})\npa.F = make([]TYP, 2)\npa.F[0] = v0", read: "pa.F[0]", store: "pa.F[0] = w0"},
	{name: "mod", setup: "module pa {\nz = nil\n}\npa.z = v0", read: "pa.z", store: "pa.z = w0"},
	{name: "hbox_x", setup: "hbox.X = v0", read: "hbox.X", store: "hbox.X = w0"},
	{name: "hbox_t", typed: true, setup: "hbox.FLD = v0", read: "hbox.FLD", store: "hbox.FLD = w0"},
}

var placeByName = map[string]*place{}
var placeNames []string

// containers of the templates whose operand is the container; both elements hold v0. TW is the container the
// store goes to: pl itself in the chained program, its twin pt in the baseline.
var containers = []place{
	{name: "c_tslice", typed: true, setup: "pl = make([]TYP, 2)\npl[0] = v0\npl[1] = v0\npt = make([]TYP, 2)\npt[0] = v0\npt[1] = v0"},
	{name: "c_ulist", setup: "pl = [v0, v0]\npt = [v0, v0]"},
	{name: "c_tlit", typed: true, setup: "pl = []TYP{v0, v0}\npt = []TYP{v0, v0}"},
	{name: "c_tmap", typed: true, setup: "pl = map[string]TYP{}\npl[\"k\"] = v0\npl[\"j\"] = v0\npt = map[string]TYP{}\npt[\"k\"] = v0\npt[\"j\"] = v0"},
	{name: "c_umap", setup: `pl = {"k": v0, "j": v0}` + "\n" + `pt = {"k": v0, "j": v0}`},
	// the container itself sits in a place
	{name: "c_in_ulist", typed: true, setup: "po = [make([]TYP, 2)]\npl = po[0]\npl[0] = v0\npl[1] = v0\npt = make([]TYP, 2)\npt[0] = v0\npt[1] = v0"},
}

var containerByName = map[string]*place{}

var hboxField = map[string]string{"int64": "I", "string": "S", "float64": "F", "bool": "B", "[]int64": "L", "map[string]int64": "M", "*int64": "P"}

func init() {
	for i := range places {
		placeByName[places[i].name] = &places[i]
		if places[i].name != "var" {
			placeNames = append(placeNames, places[i].name)
		}
	}
	for i := range containers {
		containerByName[containers[i].name] = &containers[i]
	}
}

func (p *place) fill(s string, v Val) string {
	t := v.fieldType()
	s = strings.ReplaceAll(s, "FLD", hboxField[t])
	s = strings.ReplaceAll(s, "TYP", t)
	return s
}

// usable reports whether the place can hold the value.
func (p *place) usable(v Val) bool {
	if !p.typed {
		return true
	}
	t := v.fieldType()
	if t == "" {
		return false
	}
	if p.name == "hbox_t" {
		return hboxField[t] != ""
	}
	if p.name == "deref" && strings.HasPrefix(t, "*") {
		// new(*int64) is not spelled here
		return false
	}
	return true
}

var wraps = []string{"", "", "", "", "paren", "tern", "coal", "scall", "sfn", "gocall"}

func wrapExpr(w, e string) string {
	switch w {
	case "":
		return e
	case "paren":
		return "(" + e + ")"
	case "tern":
		return "(true ? " + e + " : nil)"
	case "coal":
		return "(nil ?? " + e + ")"
	case "scall":
		return "func(){ return " + e + " }()"
	case "sfn":
		return "hget()"
	case "gocall":
		return "id(" + e + ")"
	}
	panic("unknown wrap " + w)
}

// ---------------------------------------------------------------- templates

type htemplate struct {
	name   string
	family string // bind, order, container
	weight int
	ops    []string
	vals   []string // value kinds ("" = any)
}

var numKinds = []string{"int", "int", "float", "str", "true"}
var seqKinds = []string{"sl_t_int64", "sl_two", "mp_t_si", "mp_str", "str"}

var htemplates = []htemplate{
	// the value is bound to a name, then the place is overwritten, then the name is read
	{name: "let", family: "bind", weight: 4, ops: []string{"new", "existing", "infunc", "cfor"}},
	{name: "var", family: "bind", weight: 4, ops: []string{"top", "infunc", "cfor"}},
	{name: "let2", family: "bind", weight: 2, ops: []string{"first", "second"}},
	{name: "var2", family: "bind", weight: 2, ops: []string{"first", "second"}},
	{name: "letitem", family: "bind", weight: 2, ops: []string{"new", "existing"}},
	{name: "send", family: "bind", weight: 1},
	{name: "store", family: "bind", weight: 1, ops: []string{"elem", "entry"}},
	{name: "param", family: "bind", weight: 8, ops: []string{"named", "anon", "closure", "variadic", "second", "afterreturn", "module"}},
	{name: "retdefer", family: "bind", weight: 1},
	// the value is an earlier operand; a later operand of the same operation overwrites the place
	{name: "bin", family: "order", weight: 8, ops: binOps},
	{name: "in", family: "order", weight: 2},
	{name: "switch", family: "order", weight: 2},
	{name: "args", family: "order", weight: 6, ops: []string{"named", "anon", "gopair", "variadic", "govariadic", "defer", "method"}},
	{name: "arrlit", family: "order", weight: 1},
	{name: "maplit", family: "order", weight: 2, ops: []string{"val", "key"}},
	{name: "typedlit", family: "order", weight: 1},
	{name: "multilet", family: "order", weight: 2, ops: []string{"let", "var"}},
	{name: "slicebegin", family: "order", weight: 1, vals: []string{"int"}},
	{name: "makelencap", family: "order", weight: 1, vals: []string{"int"}},
	{name: "index", family: "order", weight: 2, vals: seqKinds},
	{name: "slice", family: "order", weight: 1, vals: seqKinds},
	{name: "callee", family: "order", weight: 1, vals: []string{"fn1"}},
	// the operand is the container; its elements are bound to names, then overwritten
	{name: "destructure", family: "container", weight: 4, ops: []string{"let", "var", "letexisting"}},
	{name: "forin", family: "container", weight: 4, ops: []string{"slice", "map"}},
	{name: "spreadfix", family: "container", weight: 2, ops: []string{"named", "anon"}},
}

var htemplateByName = map[string]*htemplate{}
var htemplateDraw []string

func init() {
	for i := range htemplates {
		tp := &htemplates[i]
		htemplateByName[tp.name] = tp
		for k := 0; k < tp.weight; k++ {
			htemplateDraw = append(htemplateDraw, tp.name)
		}
	}
}

func (c HCase) tname() string {
	if c.Op != "" {
		return c.T + ":" + c.Op
	}
	return c.T
}

func genHeldVal(t *rapid.T, kinds []string) Val {
	if len(kinds) == 0 {
		if rapid.IntRange(0, 9).Draw(t, "scalar?") < 6 {
			kinds = heldScalars
		} else {
			kinds = heldRefs
		}
	}
	k := pick(t, "vkind", kinds)
	if _, ok := compoundByName[k]; ok {
		return Val{K: k}
	}
	v := genScalar(t, k)
	if v.K == "int" && (v.I > 4097 || v.I < -4096) && rapid.Bool().Draw(t, "smallint") {
		v.I = v.I & 7
	}
	return v
}

func genHCase(t *rapid.T) HCase {
	tp := htemplateByName[pick(t, "template", htemplateDraw)]
	c := HCase{T: tp.name}
	if len(tp.ops) > 0 {
		c.Op = pick(t, "op", tp.ops)
	}
	kinds := tp.vals
	if c.T == "bin" && rapid.IntRange(0, 9).Draw(t, "numeric?") < 7 {
		kinds = numKinds
	}
	c.V = genHeldVal(t, kinds)
	c.Z = genScalar(t, pick(t, "zkind", []string{"int", "int", "float", "str", "true", "nil"}))
	if c.Z.K == "int" && (c.Z.I > 4097 || c.Z.I < -4096) {
		c.Z.I = c.Z.I & 7
	}
	switch c.T {
	case "slicebegin", "makelencap":
		c.V.I = c.V.I & 3
		c.Z = Val{K: "int", I: 4 + c.Z.I&3}
	case "index", "slice":
		if c.V.cat() == "slice" || c.V.K == "str" {
			c.Z = Val{K: "int", I: c.Z.I & 1}
		} else {
			c.Z = Val{K: "str", S: "k"}
		}
	}
	if tp.family == "container" {
		if c.V.K == "pt_int5" {
			// not asserted: the for-in variable over pointer items is the pointee (observation O3)
			c.V = Val{K: "int", I: 5}
		}
		var usable []string
		for i := range containers {
			cp := &containers[i]
			isMap := strings.HasSuffix(cp.name, "map")
			if cp.usable(c.V) && isMap == (c.T == "forin" && c.Op == "map") {
				usable = append(usable, cp.name)
			}
		}
		c.Place = pick(t, "container", usable)
	} else {
		var usable []string
		for _, n := range placeNames {
			p := placeByName[n]
			if p.usable(c.V) && (c.T != "letitem" || p.index) {
				usable = append(usable, n)
			}
		}
		c.Place = pick(t, "place", usable)
	}
	if c.T != "letitem" {
		c.Wrap = pick(t, "wrap", wraps)
	}
	if tp.family != "container" && (c.V.K == "int" || c.V.K == "float" || c.V.K == "str") {
		c.How = pick(t, "how", []string{"", "", "", "inc", "add"})
	}
	return c
}

// ---------------------------------------------------------------- rendering

const heldPrelude = `hfin = nil
hrec = func(a...){ hacc += [a] }
module hmod {
func keep(q, o) { return q }
}
`

var heldNames = []string{"hacc", "hseen", "hn", "r", "v0", "w0", "z0", "x", "y", "hfin"}

// hbuild renders the program. chained selects the place (false: the plain variable; for container templates:
// the twin as the target of the store).
func hbuild(c HCase, chained bool) string {
	var b strings.Builder
	b.WriteString(prelude)
	b.WriteString(heldPrelude)
	b.WriteString(c.V.mk("v0") + "\n")
	b.WriteString(other(c.V, "w0") + "\n")
	b.WriteString(c.Z.mk("z0") + "\n")
	tp := htemplateByName[c.T]
	if tp.family == "container" {
		cp := containerByName[c.Place]
		b.WriteString(cp.fill(cp.setup, c.V) + "\n")
		tw := "pt"
		if chained {
			tw = "pl"
		}
		b.WriteString(containerBody(c, tw))
		b.WriteString("\n")
		return b.String()
	}
	p := placeByName["var"]
	wrap := ""
	if chained || c.T == "letitem" {
		p = placeByName[c.Place]
		wrap = c.Wrap
	}
	b.WriteString(p.fill(p.setup, c.V) + "\n")
	raw := p.fill(p.read, c.V)
	if c.T == "letitem" {
		// `x, ok = c[k]` has no plain-variable form: the baseline stores into a twin of the place
		twin := func(s string) string { return strings.ReplaceAll(s, "pa", "pb") }
		O := p.fill(p.store, c.V)
		fin := raw
		if !chained {
			b.WriteString(twin(p.fill(p.setup, c.V)) + "\n")
			O, fin = twin(O), twin(raw)
		}
		b.WriteString(bindBody(c, raw, raw, O))
		b.WriteString("\nhfin = " + fin + "\n[x, y]\n")
		return b.String()
	}
	if wrap == "sfn" {
		b.WriteString("func hget() { return " + raw + " }\n")
	}
	R := wrapExpr(wrap, raw)
	O := p.fill(p.store, c.V)
	switch c.How {
	case "inc":
		O = raw + "++"
	case "add":
		O = raw + " += 1"
	}
	if tp.family == "bind" {
		b.WriteString(bindBody(c, R, raw, O))
	} else {
		b.WriteString("func hso() {\n" + O + "\nreturn z0\n}\n")
		b.WriteString(orderBody(c, R))
	}
	b.WriteString("\nhfin = " + raw + "\n")
	switch {
	case c.T == "let2" || c.T == "var2" || c.T == "multilet" || c.T == "letitem":
		b.WriteString("[x, y]\n")
	default:
		b.WriteString("x\n")
	}
	return b.String()
}

// bindBody: the value read by R is bound, the place is overwritten by O, the storage the name refers to is
// touched.
func bindBody(c HCase, R, raw, O string) string {
	tch := touch(c.V, "x")
	seq := func(lines ...string) string {
		var out []string
		for _, l := range lines {
			if l != "" {
				out = append(out, l)
			}
		}
		return strings.Join(out, "\n")
	}
	switch c.T {
	case "let":
		switch c.Op {
		case "existing":
			return seq("x = 0", "x = "+R, O, tch)
		case "infunc":
			// x is a local of the function
			return seq("func g() {", "lx = "+R, O, touch(c.V, "lx"), "return lx", "}", "x = g()")
		case "cfor":
			return seq("x = nil", "for lx = "+R+"; hn < 1; hn++ {", O, "x = lx", "}", tch)
		}
		return seq("x = "+R, O, tch)
	case "var":
		switch c.Op {
		case "infunc":
			return seq("func g() {", "var lx = "+R, O, touch(c.V, "lx"), "return lx", "}", "x = g()")
		case "cfor":
			return seq("x = nil", "for var lx = "+R+"; hn < 1; hn++ {", O, "x = lx", "}", tch)
		}
		return seq("var x = "+R, O, tch)
	case "let2":
		if c.Op == "second" {
			return seq("y, x = z0, "+R, O, tch)
		}
		return seq("x, y = "+R+", z0", O, tch)
	case "var2":
		if c.Op == "second" {
			return seq("var y, x = z0, "+R, O, tch)
		}
		return seq("var x, y = "+R+", z0", O, tch)
	case "letitem":
		if c.Op == "existing" {
			return seq("x = 0", "y = 0", "x, y = "+raw, O, tch)
		}
		return seq("x, y = "+raw, O, tch)
	case "send":
		return seq("hch = make(chan interface, 2)", "hch <- "+R, O, "x = <-hch", tch)
	case "store":
		if c.Op == "entry" {
			return seq("hm = {}", "hm.k = "+R, O, "x = hm.k", tch)
		}
		return seq("hl = [0]", "hl[0] = "+R, O, "x = hl[0]", tch)
	case "param":
		switch c.Op {
		case "named":
			return seq("func g(q) {", O, "return q", "}", "x = g("+R+")", tch)
		case "anon":
			return seq("x = func(q) {", O, "return q", "}("+R+")", tch)
		case "closure":
			return seq("func mk(q) {", "return func() { return q }", "}", "hc = mk("+R+")", O, "x = hc()", tch)
		case "variadic":
			return seq("func g(q...) {", O, "return q[0]", "}", "x = g("+R+")", tch)
		case "second":
			return seq("func g(o, q) {", O, "return q", "}", "x = g(z0, "+R+")", tch)
		case "afterreturn":
			return seq("func g(q) {", "return q", "}", "x = g("+R+")", O, tch)
		case "module":
			return seq("x = hmod.keep("+R+", z0)", O, tch)
		}
	case "retdefer":
		return seq("func g() {", "defer func() {", O, "}()", "return "+R, "}", "x = g()", tch)
	}
	panic("bindBody " + c.T + ":" + c.Op)
}

// primary parenthesises a dereference so that an index, slice or call applies to its result (syntax only).
func primary(e string) string {
	if strings.HasPrefix(e, "*") {
		return "(" + e + ")"
	}
	return e
}

// orderBody: the value read by R is an earlier operand; hso(), a later operand, overwrites the place.
func orderBody(c HCase, R string) string {
	switch c.T {
	case "bin":
		return "x = " + R + " " + c.Op + " hso()"
	case "in":
		return "x = " + R + " in [hso(), v0]"
	case "switch":
		return "switch " + R + " {\ncase hso():\nr = 1\ncase v0:\nr = 2\ndefault:\nr = 3\n}\nx = r"
	case "args":
		switch c.Op {
		case "named":
			return "func g(q, o) { return q }\nx = g(" + R + ", hso())"
		case "anon":
			return "x = func(q, o) { return q }(" + R + ", hso())"
		case "gopair":
			return "x = gpair(" + R + ", hso())"
		case "variadic":
			return "x = hfv(" + R + ", hso())"
		case "govariadic":
			return "x = gv(" + R + ", hso())"
		case "defer":
			return "func g() {\ndefer hrec(" + R + ", hso())\n}\ng()\nx = hacc"
		case "method":
			return "x = hmod.keep(" + R + ", hso())"
		}
	case "arrlit":
		return "x = [" + R + ", hso()]"
	case "maplit":
		if c.Op == "key" {
			return "x = {" + R + `: 1, "zz": hso()}`
		}
		return `x = {"a": ` + R + `, "b": hso()}`
	case "typedlit":
		t := c.V.fieldType()
		if t == "" || strings.HasPrefix(t, "*") {
			// the literal of a pointer element type is not spelled here
			t = "interface"
		}
		return "x = []" + t + "{" + R + ", hso()}"
	case "multilet":
		if c.Op == "var" {
			return "var x, y = " + R + ", hso()"
		}
		return "x, y = " + R + ", hso()"
	case "slicebegin":
		return "hl = [0, 1, 2, 3, 4, 5, 6, 7, 8]\nx = hl[" + R + ":hso()]"
	case "makelencap":
		return "x = make([]int64, " + R + ", hso())"
	case "index":
		return "x = " + primary(R) + "[hso()]"
	case "slice":
		return "x = " + primary(R) + "[hso():]"
	case "callee":
		return "x = " + primary(R) + "(hso())"
	}
	panic("orderBody " + c.T + ":" + c.Op)
}

// containerBody: the elements of pl are bound to names; the store goes to tw (pl itself, or its twin).
func containerBody(c HCase, tw string) string {
	L := wrapExpr(c.Wrap, "pl")
	pre := ""
	if c.Wrap == "sfn" {
		pre = "func hget() { return pl }\n"
	}
	fin := "\nhfin = " + tw
	switch c.T {
	case "destructure":
		O := tw + "[0] = w0\n" + tw + "[1] = w0"
		switch c.Op {
		case "var":
			return pre + "var x, y = " + L + "\n" + O + fin + "\n[x, y]"
		case "letexisting":
			return pre + "x = 0\ny = 0\nx, y = " + L + "\n" + O + fin + "\n[x, y]"
		}
		if strings.HasSuffix(L, "]") {
			L = "(" + L + ")"
		}
		return pre + "x, y = " + L + "\n" + O + fin + "\n[x, y]"
	case "forin":
		if c.Op == "map" {
			// the entry of the current key is overwritten: the variable holds what was read
			return pre + "for k, v in " + L + " {\n" + tw + "[k] = w0\nhseen[k] = v\nhn = hn + 1\n}" + fin + "\nhn"
		}
		// the element of the current index is overwritten
		return pre + "for v in " + L + " {\n" + tw + "[hn] = w0\nhacc += [v]\nhn = hn + 1\n}" + fin + "\nhn"
	case "spreadfix":
		O := tw + "[0] = w0\n" + tw + "[1] = w0"
		if c.Op == "anon" {
			return pre + "x = func(q, o) {\n" + O + "\nreturn [q, o]\n}(" + L + "...)" + fin + "\nx"
		}
		return pre + "func g(q, o) {\n" + O + "\nreturn [q, o]\n}\nx = g(" + L + "...)" + fin + "\nx"
	}
	panic("containerBody " + c.T)
}

// ---------------------------------------------------------------- oracle

func binGroup(op string) string {
	switch op {
	case "+", "-", "|":
		return "add"
	case "*", "/", "%", "<<", ">>", "&":
		return "mul"
	case "&&", "||":
		return "logic"
	}
	return "cmp"
}

func heldOracle(c HCase, o *h.Obs) *h.Fail {
	tp := htemplateByName[c.T]
	if tp == nil {
		o.Excluded = "HARNESS_unknown_template"
		return nil
	}
	baseSrc := hbuild(c, false)
	chSrc := hbuild(c, true)
	skip := len(prelude) + len(heldPrelude)
	o.Key = chSrc
	o.Note = "held " + c.tname() + " :: " + chSrc[skip:]
	o.Class("held:family:" + tp.family)
	o.Class("held:tmpl:" + c.tname())
	o.Class("held:place:" + c.Place)
	o.Class("held:t×p:" + c.T + "|" + c.Place)
	o.Class("held:val:" + c.V.K)
	if c.Wrap != "" {
		o.Class("held:wrap:" + c.Wrap)
	} else {
		o.Class("held:wrap:none")
	}
	if c.How != "" {
		o.Class("held:overwrite:" + c.How)
	} else {
		o.Class("held:overwrite:store")
	}
	if c.Fix != "" {
		o.Class("held:constr:" + c.Fix)
	}
	b := runNames(baseSrc, heldNames)
	x := runNames(chSrc, heldNames)
	if b.parseErr != nil || x.parseErr != nil {
		perr, src := b.parseErr, baseSrc
		if perr == nil {
			perr, src = x.parseErr, chSrc
		}
		if ctxRef != nil {
			ctxRef.Incomplete("generated program does not parse (%v):\n%s", perr, src[skip:])
		}
		o.Excluded = "HARNESS_parse_error"
		return nil
	}
	if b.timeout || x.timeout {
		o.Excluded = "timeout_safety_net"
		return nil
	}
	if b.panicV != "" && x.panicV != "" {
		o.Excluded = "host_panic_in_both"
		return nil
	}
	site := c.T
	switch c.T {
	case "bin":
		site += ":" + binGroup(c.Op)
	case "param", "args", "forin", "maplit", "multilet":
		site += ":" + c.Op
	}
	progs := fmt.Sprintf("value %s, place %s, hop %q\nbaseline program:\n%s\nchained program:\n%s", c.V.K, c.Place, c.Wrap, baseSrc[skip:], chSrc[skip:])
	if b.panicV != "" || x.panicV != "" {
		which, pv := "chained", x.panicV
		if b.panicV != "" {
			which, pv = "baseline", b.panicV
		}
		return h.Failf("C20|held-panic|"+site, "a Go panic escaped from the %s program only: %s\n%s", which, pv, progs)
	}
	if b.err == nil {
		o.Class("held:outcome:success")
		o.NonTrivial = true
	} else {
		o.Class("held:outcome:error")
		o.Class("held:error|" + c.T)
	}
	clause, detail := compare(b, x)
	if clause == "" {
		return nil
	}
	// the place was overwritten and the consumer shows the new content (or the storage of a reference value was
	// lost): one signature per consumer
	return h.Failf("C20|operand-not-held|"+site, "%s: %s\n%s", clause, detail, progs)
}

const heldRule = "held: case = (consumer template, value, place, optional hop around the read); the value sits in v0, is put into a named place, consumed, then the place is overwritten (a store of w0: same type, other content; for numbers and strings also place++ and place += 1) and the bound name / the result is read; consumers: x = / x = (existing name) / local of a function / init of a C-style for / var / two targets / `x, ok = c[k]` / channel send / store into another container / parameter (named, anonymous, closure over it, variadic, second, module function) / return followed by a deferred store; earlier operand of 17 binary operators, in, switch, call arguments (script, Go, variadic, deferred, module function), list / map (value, key) / typed literal, several right-hand sides, first bound of a slice expression, length of make, container of x[i] and x[i:], callee; containers destructured by = / var, iterated by for-in (slice: the current index is overwritten, map: the current key), spread into a fixed-arity script function; places: typed-slice element (first, last), untyped-list element, typed / untyped map entry ([k] and .k), struct field (typed, interface, through a pointer), pointee (new(T), &variable), element two levels down (slice, map, struct field), module member, field of a host struct (typed, interface{}); hops: none, parentheses, ternary, ??, script call (inline, named), Go call; values: ints, floats, strings, bools, nil, typed and untyped slices and maps, a pointer, a function, a channel - struct and array values are not generated (reference-like by design) and pointer items are never iterated (O3); baseline = the same program over a plain variable (container templates: the store goes to a twin container); non-trivial = the baseline program succeeds; distinct by chained source text"

func runHeld(c *h.Ctx) {
	c.Rule(heldRule)
	h.Run(c, "held", c.N(4000, 60000), genHCase, heldOracle)
}
